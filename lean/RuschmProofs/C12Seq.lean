/-
Property C12 over TIME — what several import declarations, one after the other, do to ONE frame.

`RuschmProofs/C12.lean` is about one import declaration (`importSet_eq_spec`, `import_union`,
`import_conflict_is_error`). This file is about `Interp.evalImport` applied several times:

1. `import_defines_exactly`: a successful declaration binds, in the target frame, exactly the names
   of its merged binding list to exactly those values — whatever the frame held before (an
   equal-looking earlier value included: `equal_looking_value_is_replaced`);
2. `later_declaration_wins` / `last_declaration_wins`: of several declarations, the LAST one that
   binds a name decides;
3. `conflict_is_per_declaration`, `failed_declaration_has_no_effect`: the "one name, two different
   bindings" error is a matter of the sets of ONE declaration; nothing survives from one declaration
   to the next, and a failed declaration leaves the frame as it was;
4. `library_private_imports_do_not_conflict`: the import declarations of a library body go into
   the library's own fresh frame and cannot conflict with the program's.

Vocabulary as in C12: `S.denoteAll` (the concatenated denotations of the sets of a declaration),
`S.asMap` (that list as a map: the last binding of a name), `S.Clash`, `importEq`, `exportsOf`.
Helper lemmas are `private`.
-/
import RuschmProofs.LibSharingLemmas
import RuschmProofs.OutBlindLemmas

namespace Ruschm.C12Seq
open Ruschm Ruschm.Interp

/-! ## vocabulary -/

/-- several import declarations, one after the other, into the same frame `ρ`; the first error
stops the sequence (`eval_ast` returns it and the driver stops) -/
def importAll (fuel : Nat) (ρ : Nat) : State → List (List ImportSet) → Except SErr Unit × State
  | st, [] => (.ok (), st)
  | st, sets :: rest =>
    match evalImport fuel st sets ρ with
    | (.ok (), st') => importAll fuel ρ st' rest
    | (.error e, st') => (.error e, st')

/-- `new` where it binds the name, `old` elsewhere — written out as the `match` it is -/
def orElse (new : Option Value) (old : Option Value) : Option Value :=
  match new with
  | some v => some v
  | none => old

/-! ## helpers -/

/-- what a successful import declaration with merged binding list `bs` did to the state -/
private structure Imported (st st' : State) (ρ : Nat) (bs : S.Bindings) : Prop where
  state : st' = { st with store := st'.store, instances := st'.instances }
  exports : ∀ n, exportsOf st' n = exportsOf st n
  binding : ∀ x, st'.store.binding ρ x = S.override (S.asMap bs) (st.store.binding ρ) x
  other_frames : ∀ i, i ≠ ρ → st'.store.frames[i]? = st.store.frames[i]?
  parent : ∀ i : Nat, st'.store.frames[i]?.map Frame.parent = st.store.frames[i]?.map Frame.parent
  size : st'.store.frames.size = st.store.frames.size
  vecs : st'.store.vecs = st.store.vecs

private theorem importEq_of_vecs {st st' : State} (h : st'.store.vecs = st.store.vecs) :
    importEq st' = importEq st := by
  funext v w
  unfold importEq
  exact congrFun (congrFun (derivedEq_vecs h 100000).1 v) w

private theorem Imported.inProgress {st st' : State} {ρ bs} (h : Imported st st' ρ bs) :
    st'.inProgress = st.inProgress := by rw [h.state]

private theorem Imported.importEq {st st' : State} {ρ bs} (h : Imported st st' ρ bs) :
    importEq st' = importEq st := importEq_of_vecs h.vecs

private theorem Imported.denoteAll {st st' : State} {ρ bs} (h : Imported st st' ρ bs)
    (sets : List ImportSet) : S.denoteAll sets (exportsOf st') = S.denoteAll sets (exportsOf st) :=
  denoteAll_congr h.exports sets

/-- the core: a successful declaration over ready libraries had no clash and did `Imported` -/
private theorem import_ok_spec {sets : List ImportSet} {fuel : Nat} {st st' : State} {ρ : Nat}
    {bs : S.Bindings} (hfuel : fuelNeededAll sets + 1 ≤ fuel)
    (hip : ∀ s ∈ sets, S.leaf s ∉ st.inProgress)
    (hd : S.denoteAll sets (exportsOf st) = some bs) (hρ : ρ < st.store.frames.size)
    (hev : evalImport fuel st sets ρ = (.ok (), st')) :
    ¬ S.Clash (importEq st) bs ∧ Imported st st' ρ bs := by
  by_cases hc : S.Clash (importEq st) bs
  · obtain ⟨st'', he, -⟩ := C12.import_conflict_is_error sets fuel st ρ bs hfuel hip hd hc
    rw [he] at hev
    cases hev
  · obtain ⟨st'', he, hb, ho, hp, hs, hv, -, hst, hex⟩ :=
      C12.import_union sets fuel st ρ bs hfuel hip hd hc hρ
    rw [he] at hev
    cases hev
    exact ⟨hc, ⟨hst, hex, hb, ho, hp, hs, hv⟩⟩

/-- every binding of every frame but `ρ` is as before -/
private theorem Imported.binding_other {st st' : State} {ρ bs} (h : Imported st st' ρ bs) {i : Nat}
    (hi : i ≠ ρ) (x : String) : st'.store.binding i x = st.store.binding i x := by
  simp only [Store.binding, h.other_frames i hi]

private theorem Imported.chain {st st' : State} {ρ bs} (h : Imported st st' ρ bs) (ρ' : Nat) :
    st'.store.chain ρ' = st.store.chain ρ' := Store.chain_congr h.parent ρ'

/-- a name the declaration binds: looked up from `ρ`, it is the declaration's value -/
private theorem Imported.lookup_bound {st st' : State} {ρ bs} (h : Imported st st' ρ bs)
    {x : String} {v : Value} (hx : S.asMap bs x = some v) :
    st'.store.binding ρ x = some v ∧ st'.store.lookup ρ x = some v := by
  have hb : st'.store.binding ρ x = some v := by rw [h.binding x]; simp [S.override, hx]
  refine ⟨hb, ?_⟩
  rw [Store.lookup_eq_bind, Lib.resolve_self (by simp [Store.definesAt, hb])]
  exact hb

/-- a name the declaration does not bind: every binding and every lookup of it is as before -/
private theorem Imported.lookup_unbound {st st' : State} {ρ bs} (h : Imported st st' ρ bs)
    {x : String} (hx : S.asMap bs x = none) :
    (∀ i, st'.store.binding i x = st.store.binding i x) ∧
    (∀ ρ', st'.store.lookup ρ' x = st.store.lookup ρ' x) := by
  have hb : ∀ i, st'.store.binding i x = st.store.binding i x := by
    intro i
    by_cases hi : i = ρ
    · subst hi; rw [h.binding x]; simp [S.override, hx]
    · exact h.binding_other hi x
  exact ⟨hb, fun ρ' => Lib.lookup_congr_chain (h.chain ρ') (fun i _ => hb i)⟩

/-- from a frame whose chain does not pass through `ρ`, every lookup is as before -/
private theorem Imported.lookup_off_chain {st st' : State} {ρ bs} (h : Imported st st' ρ bs)
    {ρ' : Nat} (hoff : ρ ∉ st.store.chain ρ') (y : String) :
    st'.store.lookup ρ' y = st.store.lookup ρ' y := by
  apply Lib.lookup_congr_chain (h.chain ρ')
  intro i hi
  exact h.binding_other (by rintro rfl; exact hoff hi) y

/-- the hypotheses about the state carry over to the state after a successful declaration -/
private theorem Imported.carry {st st' : State} {ρ bs} (h : Imported st st' ρ bs)
    {sets : List ImportSet} {bs' : S.Bindings} (hip : ∀ s ∈ sets, S.leaf s ∉ st.inProgress)
    (hd : S.denoteAll sets (exportsOf st) = some bs') (hρ : ρ < st.store.frames.size) :
    (∀ s ∈ sets, S.leaf s ∉ st'.inProgress) ∧ S.denoteAll sets (exportsOf st') = some bs' ∧
      ρ < st'.store.frames.size :=
  ⟨by rw [h.inProgress]; exact hip, by rw [h.denoteAll]; exact hd, by rw [h.size]; exact hρ⟩

/-! ## the demo library: two numbers and two closures -/

/-- a procedure `(lambda () 1)` -/
def demoLam : Lambda := .mk ⟨[], none⟩ [] [.prim (.int 1) none]

/-- `(m)` exports the numbers `a = 1`, `b = 2` and two closures of ONE lambda over DIFFERENT
frames (1 and 2): `f`, `g` — the derived equality of values calls `f` and `g` equal -/
def demoLib : LibName := [.ident "m"]
def demoExports : S.Bindings :=
  [("a", .num (.int 1)), ("b", .num (.int 2)), ("f", .closure demoLam 1), ("g", .closure demoLam 2)]

/-- frame 0 (the program's) holds `a ↦ 7` and `f ↦ the closure over frame 2`; frames 1 and 2 are
the frames of the two closures -/
def demoStore : Store :=
  { frames := #[⟨none, [("a", .num (.int 7)), ("f", .closure demoLam 2)]⟩, ⟨none, []⟩, ⟨none, []⟩] }

def demoState : State := { store := demoStore, factories := [(demoLib, .native demoExports)] }

private theorem demo_closures_equal_looking :
    importEq demoState (.closure demoLam 2) (.closure demoLam 1) = true ∧
    (Value.closure demoLam 2) ≠ (.closure demoLam 1) := by
  constructor
  · simp [importEq, Prim.derivedEq, Prim.valueEq, demoLam, Lambda.beq, Expr.beqList, Expr.beq, Def.beqList]
  · intro h; cases h

/-! ## 1. a successful declaration defines exactly its bindings -/

/-- After a successful import declaration (`evalImport … = (.ok (), st')`; its sets over
instantiated or native libraries, with merged binding list `bs` = the concatenated denotations of
its sets), for EVERY name `x`:

* if the declaration binds `x` — `S.asMap bs x = some v`: the last binding of `x` in the union —
  then frame `ρ` now binds `x` to `v` and `lookup` of `x` from `ρ` is `v`, WHATEVER `ρ` (or a
  frame above it) held for `x` before: there is no hypothesis about the old binding;
* if the declaration does not bind `x`, then the binding of `x` in `ρ`, and the `lookup` of `x`
  from every frame, is what it was before.

The declaration had no clash of its own (it would have failed otherwise). -/
theorem import_defines_exactly (sets : List ImportSet) (fuel : Nat) (st st' : State) (ρ : Nat)
    (bs : S.Bindings) (hfuel : fuelNeededAll sets + 1 ≤ fuel)
    (hip : ∀ s ∈ sets, S.leaf s ∉ st.inProgress)
    (hd : S.denoteAll sets (exportsOf st) = some bs) (hρ : ρ < st.store.frames.size)
    (hev : evalImport fuel st sets ρ = (.ok (), st')) :
    ¬ S.Clash (importEq st) bs ∧
    ∀ x,
      (∀ v, S.asMap bs x = some v →
        st'.store.binding ρ x = some v ∧ st'.store.lookup ρ x = some v) ∧
      (S.asMap bs x = none →
        st'.store.binding ρ x = st.store.binding ρ x ∧
        ∀ ρ', st'.store.lookup ρ' x = st.store.lookup ρ' x) := by
  obtain ⟨hc, h⟩ := import_ok_spec hfuel hip hd hρ hev
  exact ⟨hc, fun x => ⟨fun v hx => h.lookup_bound hx,
    fun hx => ⟨(h.lookup_unbound hx).1 ρ, (h.lookup_unbound hx).2⟩⟩⟩

/-- `(import (only (m) a b))` into the demo frame: `a` was 7 and is 1 now, `b` is new, `f` (not
imported) is what it was -/
example : ∃ st', evalImport 5 demoState [.only (.direct demoLib none) ["a", "b"]] 0 = (.ok (), st') ∧
    st'.store.lookup 0 "a" = some (.num (.int 1)) ∧ st'.store.lookup 0 "b" = some (.num (.int 2)) ∧
    st'.store.lookup 0 "f" = some (.closure demoLam 2) := by
  obtain ⟨st', he, -⟩ := C12.import_union [.only (.direct demoLib none) ["a", "b"]] 5 demoState 0
    [("a", .num (.int 1)), ("b", .num (.int 2))]
    (by simp [fuelNeededAll, S.fuelNeeded]) (by simp [demoState])
    (by simp [S.denoteAll, S.denote, exportsOf, demoState, demoExports, demoLib, libLookup])
    ((C12.no_clash_of_compatible _ _).2 ((C12.no_clash_of_compatible _ _).1 (by simp [S.Admissible])))
    (by simp [demoState, demoStore])
  obtain ⟨-, h⟩ := import_defines_exactly [.only (.direct demoLib none) ["a", "b"]] 5 demoState st' 0
    [("a", .num (.int 1)), ("b", .num (.int 2))]
    (by simp [fuelNeededAll, S.fuelNeeded]) (by simp [demoState])
    (by simp [S.denoteAll, S.denote, exportsOf, demoState, demoExports, demoLib, libLookup])
    (by simp [demoState, demoStore]) he
  refine ⟨st', he, ((h "a").1 _ (by simp [S.asMap, List.lookup])).2,
    ((h "b").1 _ (by simp [S.asMap])).2, ?_⟩
  rw [((h "f").2 (by simp [S.asMap])).2 0]
  simp [demoState, demoStore, Store.lookup, Store.lookupAux, List.lookup]

/-- An EQUAL-LOOKING earlier value is REPLACED, not kept: let frame `ρ` bind `x` to `old`, and let
a successful declaration bind `x` to `new`, where `old` and `new` are different values that the
comparison of `eval_import` (`importEq`, the derived `PartialEq`) calls equal — two closures of one
lambda over different frames, two vectors (cells) with equal contents. Afterwards `ρ` binds `x` to
`new` — the frame / cell id of `new` is what is stored — and not to `old`. (There is no "already
bound to an equal value" shortcut.) -/
theorem equal_looking_value_is_replaced (sets : List ImportSet) (fuel : Nat) (st st' : State) (ρ : Nat)
    (bs : S.Bindings) (hfuel : fuelNeededAll sets + 1 ≤ fuel)
    (hip : ∀ s ∈ sets, S.leaf s ∉ st.inProgress)
    (hd : S.denoteAll sets (exportsOf st) = some bs) (hρ : ρ < st.store.frames.size)
    (hev : evalImport fuel st sets ρ = (.ok (), st'))
    (x : String) (old new : Value) (_hold : st.store.binding ρ x = some old)
    (hnew : S.asMap bs x = some new) (_heq : importEq st old new = true) (hne : old ≠ new) :
    st'.store.binding ρ x = some new ∧ st'.store.lookup ρ x = some new ∧
      st'.store.binding ρ x ≠ some old ∧ st'.store.lookup ρ x ≠ some old := by
  obtain ⟨-, h⟩ := import_defines_exactly sets fuel st st' ρ bs hfuel hip hd hρ hev
  obtain ⟨h1, h2⟩ := (h x).1 new hnew
  refine ⟨h1, h2, ?_, ?_⟩
  · rw [h1]; intro e; exact hne (Option.some.inj e).symm
  · rw [h2]; intro e; exact hne (Option.some.inj e).symm

/-- the demo frame binds `f` to the closure over frame 2; `(import (only (m) f))` brings the
closure of the same lambda over frame 1: equal for `importEq`, different values; afterwards `f`
is the closure over frame 1 -/
example : ∃ st', evalImport 5 demoState [.only (.direct demoLib none) ["f"]] 0 = (.ok (), st') ∧
    demoState.store.binding 0 "f" = some (.closure demoLam 2) ∧
    importEq demoState (.closure demoLam 2) (.closure demoLam 1) = true ∧
    st'.store.lookup 0 "f" = some (.closure demoLam 1) ∧
    st'.store.lookup 0 "f" ≠ some (.closure demoLam 2) := by
  obtain ⟨st', he, -⟩ := C12.import_union [.only (.direct demoLib none) ["f"]] 5 demoState 0
    [("f", .closure demoLam 1)]
    (by simp [fuelNeededAll, S.fuelNeeded]) (by simp [demoState])
    (by simp [S.denoteAll, S.denote, exportsOf, demoState, demoExports, demoLib, libLookup])
    ((C12.no_clash_of_compatible _ _).2 ((C12.no_clash_of_compatible _ _).1 (by simp [S.Admissible])))
    (by simp [demoState, demoStore])
  have hold : demoState.store.binding 0 "f" = some (.closure demoLam 2) := by
    simp [demoState, demoStore, Store.binding, List.lookup]
  obtain ⟨-, h2, -, h4⟩ := equal_looking_value_is_replaced [.only (.direct demoLib none) ["f"]] 5
    demoState st' 0 [("f", .closure demoLam 1)]
    (by simp [fuelNeededAll, S.fuelNeeded]) (by simp [demoState])
    (by simp [S.denoteAll, S.denote, exportsOf, demoState, demoExports, demoLib, libLookup])
    (by simp [demoState, demoStore]) he "f" (.closure demoLam 2) (.closure demoLam 1) hold
    (by simp [S.asMap]) demo_closures_equal_looking.1 demo_closures_equal_looking.2
  exact ⟨st', he, hold, demo_closures_equal_looking.1, h2, h4⟩

/-! ## 2. the later declaration wins -/

/-- Two successive successful import declarations into frame `ρ` (sets over instantiated or native
libraries; `bs₁`, `bs₂` their merged binding lists): afterwards the binding of every name `x` in
`ρ`, and its `lookup` from `ρ`, is the SECOND declaration's if that binds `x`, else the first's if
that binds `x`, else the old one. Nothing is assumed about how `bs₁` and `bs₂` relate: a name bound
by both is simply bound again. -/
theorem later_declaration_wins (sets₁ sets₂ : List ImportSet) (fuel : Nat) (st st₁ st₂ : State) (ρ : Nat)
    (bs₁ bs₂ : S.Bindings) (hfuel₁ : fuelNeededAll sets₁ + 1 ≤ fuel) (hfuel₂ : fuelNeededAll sets₂ + 1 ≤ fuel)
    (hip₁ : ∀ s ∈ sets₁, S.leaf s ∉ st.inProgress) (hip₂ : ∀ s ∈ sets₂, S.leaf s ∉ st.inProgress)
    (hd₁ : S.denoteAll sets₁ (exportsOf st) = some bs₁) (hd₂ : S.denoteAll sets₂ (exportsOf st) = some bs₂)
    (hρ : ρ < st.store.frames.size)
    (h₁ : evalImport fuel st sets₁ ρ = (.ok (), st₁)) (h₂ : evalImport fuel st₁ sets₂ ρ = (.ok (), st₂)) :
    ∀ x,
      st₂.store.binding ρ x = orElse (S.asMap bs₂ x) (orElse (S.asMap bs₁ x) (st.store.binding ρ x)) ∧
      st₂.store.lookup ρ x = orElse (S.asMap bs₂ x) (orElse (S.asMap bs₁ x) (st.store.lookup ρ x)) := by
  obtain ⟨-, i₁⟩ := import_ok_spec hfuel₁ hip₁ hd₁ hρ h₁
  obtain ⟨hip₂', hd₂', hρ'⟩ := i₁.carry hip₂ hd₂ hρ
  obtain ⟨-, i₂⟩ := import_ok_spec hfuel₂ hip₂' hd₂' hρ' h₂
  intro x
  cases hx₂ : S.asMap bs₂ x with
  | some v => exact i₂.lookup_bound hx₂
  | none =>
    obtain ⟨b₂, l₂⟩ := i₂.lookup_unbound hx₂
    rw [b₂ ρ, l₂ ρ]
    cases hx₁ : S.asMap bs₁ x with
    | some v => exact i₁.lookup_bound hx₁
    | none =>
      obtain ⟨b₁, l₁⟩ := i₁.lookup_unbound hx₁
      exact ⟨b₁ ρ, l₁ ρ⟩

/-- what a list of declarations, in order, makes of the old binding of `x`: each declaration that
binds `x` overrides what was there -/
def decided (bss : List S.Bindings) (old : Option Value) (x : String) : Option Value :=
  bss.foldl (fun acc bs => orElse (S.asMap bs x) acc) old

/-- `decided` is decided by the LAST list that binds `x` -/
theorem decided_last (pre post : List S.Bindings) (bs : S.Bindings) (old : Option Value) (x : String)
    (v : Value) (hx : S.asMap bs x = some v) (hpost : ∀ b ∈ post, S.asMap b x = none) :
    decided (pre ++ bs :: post) old x = some v := by
  unfold decided
  rw [List.foldl_append, List.foldl_cons]
  generalize List.foldl (fun acc bs => orElse (S.asMap bs x) acc) old pre = o
  simp only [hx, orElse]
  induction post with
  | nil => rfl
  | cons b post ih =>
    rw [List.foldl_cons, hpost b (by simp)]
    exact ih (fun b' hb' => hpost b' (by simp [hb']))

/-- … and is the old value when no list binds `x` -/
theorem decided_none (bss : List S.Bindings) (old : Option Value) (x : String)
    (h : ∀ b ∈ bss, S.asMap b x = none) : decided bss old x = old := by
  unfold decided
  induction bss with
  | nil => rfl
  | cons b bss ih =>
    rw [List.foldl_cons, h b (by simp)]
    exact ih (fun b' hb' => h b' (by simp [hb']))

example : decided [[("a", .num (.int 1))], [("a", .num (.int 2))], [("b", .num (.int 3))]] none "a" =
    some (.num (.int 2)) :=
  decided_last [[("a", .num (.int 1))]] [[("b", .num (.int 3))]] [("a", .num (.int 2))] none "a" _
    (by simp [S.asMap]) (by simp [S.asMap])

private theorem importAll_spec (fuel : Nat) (ρ : Nat) :
    ∀ (ds : List (List ImportSet × S.Bindings)) (st st' : State),
    (∀ d ∈ ds, fuelNeededAll d.1 + 1 ≤ fuel ∧ (∀ s ∈ d.1, S.leaf s ∉ st.inProgress) ∧
      S.denoteAll d.1 (exportsOf st) = some d.2) →
    ρ < st.store.frames.size →
    importAll fuel ρ st (ds.map Prod.fst) = (.ok (), st') →
    ∀ x, st'.store.binding ρ x = decided (ds.map Prod.snd) (st.store.binding ρ x) x ∧
      st'.store.lookup ρ x = decided (ds.map Prod.snd) (st.store.lookup ρ x) x := by
  intro ds
  induction ds with
  | nil =>
    intro st st' _ _ h x
    simp only [List.map_nil, importAll] at h
    cases h
    exact ⟨rfl, rfl⟩
  | cons d ds ih =>
    intro st st' hyp hρ h x
    simp only [List.map_cons, importAll] at h
    obtain ⟨hf, hip, hd⟩ := hyp d (by simp)
    split at h
    · rename_i st₁ he
      obtain ⟨-, i₁⟩ := import_ok_spec hf hip hd hρ he
      have hyp' : ∀ d' ∈ ds, fuelNeededAll d'.1 + 1 ≤ fuel ∧ (∀ s ∈ d'.1, S.leaf s ∉ st₁.inProgress) ∧
          S.denoteAll d'.1 (exportsOf st₁) = some d'.2 := by
        intro d' hd'
        obtain ⟨a, b, c⟩ := hyp d' (by simp [hd'])
        obtain ⟨b', c', -⟩ := i₁.carry b c hρ
        exact ⟨a, b', c'⟩
      obtain ⟨hb, hl⟩ := ih st₁ st' hyp' (by rw [i₁.size]; exact hρ) h x
      rw [hb, hl]
      simp only [List.map_cons, decided, List.foldl_cons]
      cases hx : S.asMap d.2 x with
      | some v =>
        obtain ⟨e1, e2⟩ := i₁.lookup_bound hx
        rw [e1, e2]; exact ⟨rfl, rfl⟩
      | none =>
        obtain ⟨e1, e2⟩ := i₁.lookup_unbound hx
        rw [e1 ρ, e2 ρ]; exact ⟨rfl, rfl⟩
    · cases h

/-- ANY number of import declarations, one after the other, all successful, into frame `ρ`
(`ds`: each declaration's sets with its merged binding list): for every name `x`, the LAST
declaration that binds `x` decides — if `ds = pre ++ d :: post`, `d` binds `x` to `v` and no
declaration of `post` binds `x`, then afterwards `ρ` binds `x` to `v` and `lookup` of `x` from `ρ`
is `v` (whatever `pre` and the old frame said); and if no declaration binds `x`, binding and lookup
are the old ones. -/
theorem last_declaration_wins (ds : List (List ImportSet × S.Bindings)) (fuel : Nat) (st st' : State)
    (ρ : Nat)
    (hyp : ∀ d ∈ ds, fuelNeededAll d.1 + 1 ≤ fuel ∧ (∀ s ∈ d.1, S.leaf s ∉ st.inProgress) ∧
      S.denoteAll d.1 (exportsOf st) = some d.2)
    (hρ : ρ < st.store.frames.size)
    (hev : importAll fuel ρ st (ds.map Prod.fst) = (.ok (), st')) :
    ∀ x,
      (∀ pre d post v, ds = pre ++ d :: post → S.asMap d.2 x = some v →
        (∀ e ∈ post, S.asMap e.2 x = none) →
        st'.store.binding ρ x = some v ∧ st'.store.lookup ρ x = some v) ∧
      ((∀ d ∈ ds, S.asMap d.2 x = none) →
        st'.store.binding ρ x = st.store.binding ρ x ∧ st'.store.lookup ρ x = st.store.lookup ρ x) := by
  intro x
  obtain ⟨hb, hl⟩ := importAll_spec fuel ρ ds st st' hyp hρ hev x
  constructor
  · rintro pre d post v rfl hx hpost
    have hpost' : ∀ b ∈ post.map Prod.snd, S.asMap b x = none := by
      intro b hb'
      obtain ⟨e, he, rfl⟩ := List.mem_map.1 hb'
      exact hpost e he
    rw [hb, hl]
    simp only [List.map_append, List.map_cons]
    exact ⟨decided_last _ _ _ _ x v hx hpost', decided_last _ _ _ _ x v hx hpost'⟩
  · intro hnone
    have hnone' : ∀ b ∈ ds.map Prod.snd, S.asMap b x = none := by
      intro b hb'
      obtain ⟨e, he, rfl⟩ := List.mem_map.1 hb'
      exact hnone e he
    rw [hb, hl]
    exact ⟨decided_none _ _ x hnone', decided_none _ _ x hnone'⟩

/-! ## 3. a conflict is a matter of ONE declaration -/

/-- The "one name, two different bindings" error depends only on the import sets of THAT
declaration. If each of two declarations is conflict-free on its own (`¬ S.Clash` of its own merged
list, both judged on the state before the first), then importing one after the other into the same
frame SUCCEEDS — there is no hypothesis relating `bs₁` and `bs₂`: they may bind a common name to
different values — and the frame ends up with the second's bindings over the first's over the old
ones. The table of bindings seen so far does not survive from one declaration to the next. -/
theorem conflict_is_per_declaration (sets₁ sets₂ : List ImportSet) (fuel : Nat) (st : State) (ρ : Nat)
    (bs₁ bs₂ : S.Bindings) (hfuel₁ : fuelNeededAll sets₁ + 1 ≤ fuel) (hfuel₂ : fuelNeededAll sets₂ + 1 ≤ fuel)
    (hip₁ : ∀ s ∈ sets₁, S.leaf s ∉ st.inProgress) (hip₂ : ∀ s ∈ sets₂, S.leaf s ∉ st.inProgress)
    (hd₁ : S.denoteAll sets₁ (exportsOf st) = some bs₁) (hd₂ : S.denoteAll sets₂ (exportsOf st) = some bs₂)
    (hok₁ : ¬ S.Clash (importEq st) bs₁) (hok₂ : ¬ S.Clash (importEq st) bs₂)
    (hρ : ρ < st.store.frames.size) :
    ∃ st₁ st₂, evalImport fuel st sets₁ ρ = (.ok (), st₁) ∧ evalImport fuel st₁ sets₂ ρ = (.ok (), st₂) ∧
      ∀ x,
        st₂.store.binding ρ x = orElse (S.asMap bs₂ x) (orElse (S.asMap bs₁ x) (st.store.binding ρ x)) ∧
        st₂.store.lookup ρ x = orElse (S.asMap bs₂ x) (orElse (S.asMap bs₁ x) (st.store.lookup ρ x)) := by
  obtain ⟨st₁, h₁, -⟩ := C12.import_union sets₁ fuel st ρ bs₁ hfuel₁ hip₁ hd₁ hok₁ hρ
  obtain ⟨-, i₁⟩ := import_ok_spec hfuel₁ hip₁ hd₁ hρ h₁
  obtain ⟨hip₂', hd₂', hρ'⟩ := i₁.carry hip₂ hd₂ hρ
  obtain ⟨st₂, h₂, -⟩ := C12.import_union sets₂ fuel st₁ ρ bs₂ hfuel₂ hip₂' hd₂'
    (by rw [i₁.importEq]; exact hok₂) hρ'
  exact ⟨st₁, st₂, h₁, h₂,
    later_declaration_wins sets₁ sets₂ fuel st st₁ st₂ ρ bs₁ bs₂ hfuel₁ hfuel₂ hip₁ hip₂ hd₁ hd₂ hρ h₁ h₂⟩

private theorem denoteAll_append (ex : LibName → Option S.Bindings) :
    ∀ (a b : List ImportSet) (x y : S.Bindings), S.denoteAll a ex = some x → S.denoteAll b ex = some y →
      S.denoteAll (a ++ b) ex = some (x ++ y) := by
  intro a
  induction a with
  | nil =>
    intro b x y hx hy
    simp only [S.denoteAll, Option.some.injEq] at hx
    subst hx
    simpa using hy
  | cons s a ih =>
    intro b x y hx hy
    simp only [S.denoteAll] at hx
    cases hs : S.denote s ex with
    | none => simp [hs] at hx
    | some u =>
      cases ha : S.denoteAll a ex with
      | none => simp [hs, ha] at hx
      | some w =>
        simp only [hs, ha, Option.some.injEq] at hx
        subst hx
        simp only [List.cons_append, S.denoteAll, hs, ih b w y ha hy, List.append_assoc]

/-- a name that `b` binds has a first binding in `b` -/
private theorem lookup_split {b : S.Bindings} {x : String} {w : Value} (h : b.lookup x = some w) :
    ∃ p q, b = p ++ (x, w) :: q ∧ S.asMap p x = none := by
  induction b with
  | nil => simp at h
  | cons c b ih =>
    obtain ⟨k, u⟩ := c
    rw [Store.lookup_cons_ite] at h
    by_cases hk : x = k
    · subst hk
      simp only [if_true, Option.some.injEq] at h
      subst h
      exact ⟨[], b, rfl, rfl⟩
    · simp only [hk, if_false] at h
      obtain ⟨p, q, rfl, hp⟩ := ih h
      refine ⟨(k, u) :: p, q, rfl, ?_⟩
      rw [Lib.asMap_cons, hp]
      simp [hk]

/-- The contrast: the SAME sets written in ONE declaration do conflict. If the first group binds
`x` to `v` and the second group binds `x` (first) to `w`, and the comparison tells `v` and `w`
apart, then `(import sets₁… sets₂…)` is the error `.other` and leaves the store as it was — while
`(import sets₁…) (import sets₂…)` succeeds (`conflict_is_per_declaration`). -/
theorem one_declaration_would_conflict (sets₁ sets₂ : List ImportSet) (fuel : Nat) (st : State) (ρ : Nat)
    (bs₁ bs₂ : S.Bindings) (hfuel : fuelNeededAll (sets₁ ++ sets₂) + 1 ≤ fuel)
    (hip₁ : ∀ s ∈ sets₁, S.leaf s ∉ st.inProgress) (hip₂ : ∀ s ∈ sets₂, S.leaf s ∉ st.inProgress)
    (hd₁ : S.denoteAll sets₁ (exportsOf st) = some bs₁) (hd₂ : S.denoteAll sets₂ (exportsOf st) = some bs₂)
    (x : String) (v w : Value) (hv : S.asMap bs₁ x = some v) (hw : bs₂.lookup x = some w)
    (hne : importEq st v w = false) :
    ∃ st', evalImport fuel st (sets₁ ++ sets₂) ρ = (.error (.other, none), st') ∧ st'.store = st.store := by
  obtain ⟨p, q, rfl, hp⟩ := lookup_split hw
  have hclash : S.Clash (importEq st) (bs₁ ++ (p ++ (x, w) :: q)) := by
    refine ⟨bs₁ ++ p, x, w, q, v, by simp, ?_, hne⟩
    rw [Lib.asMap_append, hp]
    exact hv
  obtain ⟨st', he, hs, -⟩ := C12.import_conflict_is_error (sets₁ ++ sets₂) fuel st ρ _ hfuel
    (by
      intro s hs
      rcases List.mem_append.1 hs with h | h
      · exact hip₁ s h
      · exact hip₂ s h)
    (denoteAll_append _ _ _ _ _ hd₁ hd₂) hclash
  exact ⟨st', he, by rw [hs]⟩

/-- A declaration that conflicts WITH ITSELF (`S.Clash` of its merged list) fails with `.other`
and has NO effect on any frame: the store afterwards is the store before (of the whole state, only
the instance cache may have grown), so every binding and every lookup is as it was. And nothing of
it is remembered: a following declaration that is conflict-free on its own succeeds and defines
exactly its own bindings over the ORIGINAL frame — also for the names the failed declaration tried
to bind. -/
theorem failed_declaration_has_no_effect (sets₁ sets₂ : List ImportSet) (fuel : Nat) (st : State) (ρ : Nat)
    (bs₁ bs₂ : S.Bindings) (hfuel₁ : fuelNeededAll sets₁ + 1 ≤ fuel) (hfuel₂ : fuelNeededAll sets₂ + 1 ≤ fuel)
    (hip₁ : ∀ s ∈ sets₁, S.leaf s ∉ st.inProgress) (hip₂ : ∀ s ∈ sets₂, S.leaf s ∉ st.inProgress)
    (hd₁ : S.denoteAll sets₁ (exportsOf st) = some bs₁) (hd₂ : S.denoteAll sets₂ (exportsOf st) = some bs₂)
    (hclash₁ : S.Clash (importEq st) bs₁) (hok₂ : ¬ S.Clash (importEq st) bs₂)
    (hρ : ρ < st.store.frames.size) :
    ∃ st₁, evalImport fuel st sets₁ ρ = (.error (.other, none), st₁) ∧
      st₁.store = st.store ∧ st₁ = { st with instances := st₁.instances } ∧
      (∀ ρ' x, st₁.store.binding ρ' x = st.store.binding ρ' x ∧ st₁.store.lookup ρ' x = st.store.lookup ρ' x) ∧
      ∃ st₂, evalImport fuel st₁ sets₂ ρ = (.ok (), st₂) ∧
        ∀ x,
          st₂.store.binding ρ x = orElse (S.asMap bs₂ x) (st.store.binding ρ x) ∧
          st₂.store.lookup ρ x = orElse (S.asMap bs₂ x) (st.store.lookup ρ x) := by
  obtain ⟨st₁, he, hs, hex⟩ := C12.import_conflict_is_error sets₁ fuel st ρ bs₁ hfuel₁ hip₁ hd₁ hclash₁
  have hstore : st₁.store = st.store := by rw [hs]
  have hip₂' : ∀ s ∈ sets₂, S.leaf s ∉ st₁.inProgress := by
    have : st₁.inProgress = st.inProgress := by rw [hs]
    rw [this]; exact hip₂
  have hd₂' : S.denoteAll sets₂ (exportsOf st₁) = some bs₂ := by rw [denoteAll_congr hex]; exact hd₂
  have hρ' : ρ < st₁.store.frames.size := by rw [hstore]; exact hρ
  have hq : importEq st₁ = importEq st := importEq_of_vecs (by rw [hstore])
  obtain ⟨st₂, h₂, -⟩ := C12.import_union sets₂ fuel st₁ ρ bs₂ hfuel₂ hip₂' hd₂'
    (by rw [hq]; exact hok₂) hρ'
  obtain ⟨-, i₂⟩ := import_ok_spec hfuel₂ hip₂' hd₂' hρ' h₂
  refine ⟨st₁, he, hstore, hs, fun ρ' x => by rw [hstore]; exact ⟨rfl, rfl⟩, st₂, h₂, fun x => ?_⟩
  cases hx : S.asMap bs₂ x with
  | some v => exact i₂.lookup_bound hx
  | none =>
    obtain ⟨b, l⟩ := i₂.lookup_unbound hx
    rw [b ρ, l ρ, hstore]
    exact ⟨rfl, rfl⟩

/-! ### closed examples for sections 2 and 3 (the demo library) -/

/-- `(import (only (m) a))` then `(import (rename (only (m) b) (b a)))`: each is conflict-free, the
two bind `a` differently (1, then 2); both succeed and `a` is 2 afterwards -/
example : ∃ st₁ st₂, evalImport 6 demoState [.only (.direct demoLib none) ["a"]] 0 = (.ok (), st₁) ∧
    evalImport 6 st₁ [.rename (.only (.direct demoLib none) ["b"]) [("b", "a")]] 0 = (.ok (), st₂) ∧
    st₂.store.lookup 0 "a" = some (.num (.int 2)) := by
  obtain ⟨st₁, st₂, h₁, h₂, h⟩ := conflict_is_per_declaration
    [.only (.direct demoLib none) ["a"]] [.rename (.only (.direct demoLib none) ["b"]) [("b", "a")]]
    6 demoState 0 [("a", .num (.int 1))] [("a", .num (.int 2))]
    (by simp [fuelNeededAll, S.fuelNeeded]) (by simp [fuelNeededAll, S.fuelNeeded])
    (by simp [demoState]) (by simp [demoState])
    (by simp [S.denoteAll, S.denote, exportsOf, demoState, demoExports, demoLib, libLookup])
    (by simp [S.denoteAll, S.denote, exportsOf, demoState, demoExports, demoLib, libLookup, S.renameTarget])
    ((C12.no_clash_of_compatible _ _).2 ((C12.no_clash_of_compatible _ _).1 (by simp [S.Admissible])))
    ((C12.no_clash_of_compatible _ _).2 ((C12.no_clash_of_compatible _ _).1 (by simp [S.Admissible])))
    (by simp [demoState, demoStore])
  refine ⟨st₁, st₂, h₁, h₂, ?_⟩
  rw [(h "a").2]
  simp [orElse, S.asMap]

/-- the same two import sets in ONE declaration: an error -/
example : ∃ st', evalImport 7 demoState
    ([.only (.direct demoLib none) ["a"]] ++ [.rename (.only (.direct demoLib none) ["b"]) [("b", "a")]]) 0 =
      (.error (.other, none), st') ∧ st'.store = demoState.store :=
  one_declaration_would_conflict
    [.only (.direct demoLib none) ["a"]] [.rename (.only (.direct demoLib none) ["b"]) [("b", "a")]]
    7 demoState 0 [("a", .num (.int 1))] [("a", .num (.int 2))]
    (by simp [fuelNeededAll, S.fuelNeeded]) (by simp [demoState]) (by simp [demoState])
    (by simp [S.denoteAll, S.denote, exportsOf, demoState, demoExports, demoLib, libLookup])
    (by simp [S.denoteAll, S.denote, exportsOf, demoState, demoExports, demoLib, libLookup, S.renameTarget])
    "a" (.num (.int 1)) (.num (.int 2)) (by simp [S.asMap]) (by simp [List.lookup])
    (by simp [importEq, Prim.derivedEq, Num.eq, Num.upcast])

/-- `later_declaration_wins` on the two declarations above -/
example (st₁ st₂ : State)
    (h₁ : evalImport 6 demoState [.only (.direct demoLib none) ["a"]] 0 = (.ok (), st₁))
    (h₂ : evalImport 6 st₁ [.rename (.only (.direct demoLib none) ["b"]) [("b", "a")]] 0 = (.ok (), st₂)) :
    st₂.store.binding 0 "a" = some (.num (.int 2)) ∧
    st₂.store.binding 0 "f" = some (.closure demoLam 2) := by
  have h := later_declaration_wins
    [.only (.direct demoLib none) ["a"]] [.rename (.only (.direct demoLib none) ["b"]) [("b", "a")]]
    6 demoState st₁ st₂ 0 [("a", .num (.int 1))] [("a", .num (.int 2))]
    (by simp [fuelNeededAll, S.fuelNeeded]) (by simp [fuelNeededAll, S.fuelNeeded])
    (by simp [demoState]) (by simp [demoState])
    (by simp [S.denoteAll, S.denote, exportsOf, demoState, demoExports, demoLib, libLookup])
    (by simp [S.denoteAll, S.denote, exportsOf, demoState, demoExports, demoLib, libLookup, S.renameTarget])
    (by simp [demoState, demoStore]) h₁ h₂
  constructor
  · rw [(h "a").1]; simp [orElse, S.asMap]
  · rw [(h "f").1]; simp [orElse, S.asMap, demoState, demoStore, Store.binding, List.lookup]

/-- `(import (rename (m) (a c) (b c)))` conflicts with itself (`c` = 1 and `c` = 2): it fails, the
frame is untouched, and `(import (only (m) b))` right after it succeeds -/
example : ∃ st₁, evalImport 6 demoState [.rename (.only (.direct demoLib none) ["a", "b"]) [("a", "c"), ("b", "c")]] 0 =
      (.error (.other, none), st₁) ∧ st₁.store = demoState.store ∧
    ∃ st₂, evalImport 6 st₁ [.only (.direct demoLib none) ["b"]] 0 = (.ok (), st₂) ∧
      st₂.store.lookup 0 "b" = some (.num (.int 2)) ∧ st₂.store.lookup 0 "c" = none := by
  obtain ⟨st₁, h₁, hs, -, -, st₂, h₂, h⟩ := failed_declaration_has_no_effect
    [.rename (.only (.direct demoLib none) ["a", "b"]) [("a", "c"), ("b", "c")]] [.only (.direct demoLib none) ["b"]]
    6 demoState 0 [("c", .num (.int 1)), ("c", .num (.int 2))] [("b", .num (.int 2))]
    (by simp [fuelNeededAll, S.fuelNeeded]) (by simp [fuelNeededAll, S.fuelNeeded])
    (by simp [demoState]) (by simp [demoState])
    (by simp [S.denoteAll, S.denote, exportsOf, demoState, demoExports, demoLib, libLookup, S.renameTarget,
      List.lookup])
    (by simp [S.denoteAll, S.denote, exportsOf, demoState, demoExports, demoLib, libLookup])
    (by rw [Lib.clash_iff]; simp [Lib.clashB, Lib.upd, importEq, Prim.derivedEq, Num.eq, Num.upcast])
    ((C12.no_clash_of_compatible _ _).2 ((C12.no_clash_of_compatible _ _).1 (by simp [S.Admissible])))
    (by simp [demoState, demoStore])
  refine ⟨st₁, h₁, hs, st₂, h₂, ?_, ?_⟩
  · rw [(h "b").2]; simp [orElse, S.asMap]
  · rw [(h "c").2]
    simp [orElse, S.asMap, demoState, demoStore, Store.lookup, Store.lookupAux, List.lookup]

/-- three declarations in a row, the general theorem: `a` is bound by the first (1) and the second
(2, as `b` renamed), not by the third: the second decides -/
example : ∃ st', importAll 6 0 demoState [[.only (.direct demoLib none) ["a"]],
      [.rename (.only (.direct demoLib none) ["b"]) [("b", "a")]], [.only (.direct demoLib none) ["g"]]] =
        (.ok (), st') ∧
    st'.store.lookup 0 "a" = some (.num (.int 2)) := by
  have hrun : (importAll 6 0 demoState [[.only (.direct demoLib none) ["a"]],
      [.rename (.only (.direct demoLib none) ["b"]) [("b", "a")]], [.only (.direct demoLib none) ["g"]]]).1 =
        .ok () := by
    simp [importAll, evalImport, evalImportSets, evalImportSet, getLibrary, demoState, demoStore, demoExports,
      demoLib, libLookup, libInsert, assocInsert, List.lookup, bind, Except.bind, pure, Except.pure]
  generalize hev : importAll 6 0 demoState [[.only (.direct demoLib none) ["a"]],
      [.rename (.only (.direct demoLib none) ["b"]) [("b", "a")]], [.only (.direct demoLib none) ["g"]]] = p
    at hrun
  obtain ⟨r, st'⟩ := p
  simp only at hrun
  subst hrun
  refine ⟨st', rfl, ?_⟩
  have h := last_declaration_wins
    [([.only (.direct demoLib none) ["a"]], [("a", .num (.int 1))]),
     ([.rename (.only (.direct demoLib none) ["b"]) [("b", "a")]], [("a", .num (.int 2))]),
     ([.only (.direct demoLib none) ["g"]], [("g", .closure demoLam 2)])] 6 demoState st' 0
    (by
      intro d hd
      simp only [List.mem_cons, List.not_mem_nil, or_false] at hd
      rcases hd with rfl | rfl | rfl <;>
      simp [fuelNeededAll, S.fuelNeeded, demoState, S.denoteAll, S.denote, exportsOf, demoExports, demoLib,
        libLookup, S.renameTarget])
    (by simp [demoState, demoStore]) hev "a"
  exact (h.1 [_] _ [_] _ rfl (by simp [S.asMap]) (by simp [S.asMap])).2

example : decided [[("a", .num (.int 1))], [("b", .num (.int 3))]] (some (.num (.int 9))) "c" =
    some (.num (.int 9)) :=
  decided_none _ _ "c" (by simp [S.asMap])

/-! ## 4. the import declarations inside a library body -/

private theorem chainAux_newFrame_old (σ : Store) (p : Option Nat) : ∀ fuel ρ, ρ < σ.frames.size →
    (σ.newFrame p).2.chainAux fuel ρ = σ.chainAux fuel ρ
  | 0, _, _ => rfl
  | fuel + 1, ρ, h => by
    simp only [Store.chainAux]
    have : (σ.newFrame p).2.frames[ρ]? = σ.frames[ρ]? := by
      simp [Store.newFrame, Array.getElem?_push, Nat.ne_of_lt h]
    rw [this]
    cases σ.frames[ρ]? with
    | none => rfl
    | some fr =>
      simp only
      cases fr.parent with
      | none => rfl
      | some q =>
        simp only
        split
        · rw [chainAux_newFrame_old σ p fuel q (by omega)]
        · rfl

private theorem binding_newFrame (σ : Store) (p : Option Nat) (r : Nat) (x : String) :
    (σ.newFrame p).2.binding r x = σ.binding r x := by
  unfold Store.binding
  simp only [Store.newFrame, Array.getElem?_push]
  by_cases h : r = σ.frames.size
  · subst h; simp
  · rw [if_neg h]

/-- allocating a frame changes no lookup from an older frame -/
private theorem lookup_newFrame_old (σ : Store) (p : Option Nat) {ρ : Nat} (h : ρ < σ.frames.size)
    (x : String) : (σ.newFrame p).2.lookup ρ x = σ.lookup ρ x :=
  Lib.lookup_congr_chain (chainAux_newFrame_old σ p (ρ + 1) ρ h) (fun i _ => binding_newFrame σ p i x)

/-- the fresh parentless frame sees nothing -/
private theorem lookup_newFrame_new (σ : Store) (x : String) :
    (σ.newFrame none).2.lookup σ.frames.size x = none := by
  have : (σ.newFrame none).2.frames[σ.frames.size]? = some { parent := none, defs := [] } := by
    simp [Store.newFrame]
  simp only [Store.lookup, Store.lookupAux, this, List.lookup]

/-- The import declarations INSIDE a library body cannot conflict with the program's. Instantiating
a library whose body starts with `(import setsL…)` on state `st` (`evalLibraryDef`: see
`C13.lib_env_is_fresh_root`) allocates the fresh parentless frame `ρL = st.store.frames.size` and
evaluates that declaration INTO `ρL` — not into the frame `ρ` of the importing program. So, with
both declarations conflict-free ON THEIR OWN and no hypothesis relating `bsL` (the library's private
imports) to `bsP` (the program's) or to what `ρ` binds already:

* the library's declaration succeeds; `ρL` binds, and sees, exactly `bsL`;
* the bindings and lookups of every older frame (`ρ` in particular) are untouched, whatever names
  `bsL` binds;
* the library definition goes on with the remaining declarations from that state;
* a program declaration `(import setsP…)` into `ρ` afterwards succeeds, `ρ` gets exactly `bsP` over
  what it had, and the library frame STILL sees exactly `bsL`.

In particular the program may import `x` from one library while another library privately imports
a different `x`: `lookup ρ x` is the program's, `lookup ρL x` the library's. -/
theorem library_private_imports_do_not_conflict (setsL setsP : List ImportSet) (rest : List LibDecl)
    (k fuel : Nat) (st : State) (ρ : Nat) (bsL bsP : S.Bindings)
    (hfuelL : fuelNeededAll setsL + 1 ≤ k) (hfuelP : fuelNeededAll setsP + 1 ≤ fuel)
    (hipL : ∀ s ∈ setsL, S.leaf s ∉ st.inProgress) (hipP : ∀ s ∈ setsP, S.leaf s ∉ st.inProgress)
    (hdL : S.denoteAll setsL (exportsOf st) = some bsL) (hdP : S.denoteAll setsP (exportsOf st) = some bsP)
    (hokL : ¬ S.Clash (importEq st) bsL) (hokP : ¬ S.Clash (importEq st) bsP)
    (hρ : ρ < st.store.frames.size) :
    ∃ st₁,
      evalImport k { st with store := (st.store.newFrame none).2 } setsL st.store.frames.size = (.ok (), st₁) ∧
      (∀ acc, evalLibDecls (k + 1) { st with store := (st.store.newFrame none).2 } st.store.frames.size
          (.importDecl setsL :: rest) acc = evalLibDecls k st₁ st.store.frames.size rest acc) ∧
      (evalLibraryDef (k + 2) st (.importDecl setsL :: rest) =
        match evalLibDecls k st₁ st.store.frames.size rest [] with
        | (.error e, st') => (.error e, st')
        | (.ok exports, st') =>
          (exports.foldlM (exportStep (st'.store.lookup st.store.frames.size)) [], st')) ∧
      (∀ x, st₁.store.binding st.store.frames.size x = S.asMap bsL x ∧
        st₁.store.lookup st.store.frames.size x = S.asMap bsL x) ∧
      (∀ ρ' x, ρ' < st.store.frames.size →
        st₁.store.binding ρ' x = st.store.binding ρ' x ∧ st₁.store.lookup ρ' x = st.store.lookup ρ' x) ∧
      ∃ st₂, evalImport fuel st₁ setsP ρ = (.ok (), st₂) ∧
        (∀ x, st₂.store.binding ρ x = orElse (S.asMap bsP x) (st.store.binding ρ x) ∧
          st₂.store.lookup ρ x = orElse (S.asMap bsP x) (st.store.lookup ρ x)) ∧
        (∀ x, st₂.store.lookup st.store.frames.size x = S.asMap bsL x) := by
  -- the state the library body starts in
  generalize hN : ({ st with store := (st.store.newFrame none).2 } : State) = stN
  have hNstore : stN.store = (st.store.newFrame none).2 := by rw [← hN]
  have hNip : stN.inProgress = st.inProgress := by rw [← hN]
  have hNex : ∀ n, exportsOf stN n = exportsOf st n := by intro n; rw [← hN]; rfl
  have hNeq : importEq stN = importEq st := importEq_of_vecs (by rw [hNstore]; rfl)
  have hNsize : stN.store.frames.size = st.store.frames.size + 1 := by
    rw [hNstore]; simp [Store.newFrame]
  have hipL' : ∀ s ∈ setsL, S.leaf s ∉ stN.inProgress := by rw [hNip]; exact hipL
  have hdL' : S.denoteAll setsL (exportsOf stN) = some bsL := by rw [denoteAll_congr hNex]; exact hdL
  have hρL : st.store.frames.size < stN.store.frames.size := by omega
  obtain ⟨st₁, h₁, -⟩ := C12.import_union setsL k stN st.store.frames.size bsL hfuelL hipL' hdL'
    (by rw [hNeq]; exact hokL) hρL
  obtain ⟨-, i₁⟩ := import_ok_spec hfuelL hipL' hdL' hρL h₁
  -- the library frame
  have hlib : ∀ x, st₁.store.binding st.store.frames.size x = S.asMap bsL x ∧
      st₁.store.lookup st.store.frames.size x = S.asMap bsL x := by
    intro x
    cases hx : S.asMap bsL x with
    | some v => exact i₁.lookup_bound hx
    | none =>
      obtain ⟨b, l⟩ := i₁.lookup_unbound hx
      rw [b, l, hNstore, binding_newFrame, lookup_newFrame_new]
      refine ⟨?_, rfl⟩
      simp [Store.binding]
  -- older frames
  have hold : ∀ ρ' x, ρ' < st.store.frames.size →
      st₁.store.binding ρ' x = st.store.binding ρ' x ∧ st₁.store.lookup ρ' x = st.store.lookup ρ' x := by
    intro ρ' x hlt
    constructor
    · rw [i₁.binding_other (Nat.ne_of_lt hlt) x, hNstore, binding_newFrame]
    · rw [i₁.lookup_off_chain (Lib.not_mem_chain_of_lt hlt) x, hNstore, lookup_newFrame_old _ _ hlt]
  have hdecls : ∀ acc, evalLibDecls (k + 1) stN st.store.frames.size (.importDecl setsL :: rest) acc =
      evalLibDecls k st₁ st.store.frames.size rest acc := by
    intro acc
    rw [evalLibDecls]
    simp only [h₁]
  -- the program's declaration
  have hipP' : ∀ s ∈ setsP, S.leaf s ∉ st₁.inProgress := by rw [i₁.inProgress, hNip]; exact hipP
  have hdP' : S.denoteAll setsP (exportsOf st₁) = some bsP := by
    rw [i₁.denoteAll, denoteAll_congr hNex]; exact hdP
  have hρ₁ : ρ < st₁.store.frames.size := by rw [i₁.size]; omega
  obtain ⟨st₂, h₂, -⟩ := C12.import_union setsP fuel st₁ ρ bsP hfuelP hipP' hdP'
    (by rw [i₁.importEq, hNeq]; exact hokP) hρ₁
  obtain ⟨-, i₂⟩ := import_ok_spec hfuelP hipP' hdP' hρ₁ h₂
  refine ⟨st₁, h₁, hdecls, ?_, hlib, hold, st₂, h₂, fun x => ?_, fun x => ?_⟩
  · rw [evalLibraryDef_succ_eq, hN, hdecls]
    rfl
  · obtain ⟨ob, ol⟩ := hold ρ x hρ
    cases hx : S.asMap bsP x with
    | some v => exact i₂.lookup_bound hx
    | none =>
      obtain ⟨b, l⟩ := i₂.lookup_unbound hx
      rw [b ρ, l ρ, ob, ol]
      exact ⟨rfl, rfl⟩
  · have hp : st₁.store.parentOf st.store.frames.size = none := by
      have := i₁.parent st.store.frames.size
      rw [hNstore] at this
      simp only [Store.newFrame, Array.getElem?_push_size, Option.map_some] at this
      unfold Store.parentOf
      cases hf : st₁.store.frames[st.store.frames.size]? with
      | none => rfl
      | some f => rw [hf] at this; simpa using this
    rw [i₂.lookup_off_chain (Lib.not_mem_chain_of_parent_none (Nat.ne_of_gt hρ) hp) x]
    exact (hlib x).2

/-- the hypotheses on the demo state: a library body starting with
`(import (rename (only (m) b) (b a)))` (privately, `a` is 2) and a program that does
`(import (only (m) a))` (`a` is 1): no conflict; the program's frame 0 sees 1, the library's frame 3
sees 2 -/
example : ∃ st₁ st₂,
    evalImport 6 { demoState with store := (demoState.store.newFrame none).2 }
      [.rename (.only (.direct demoLib none) ["b"]) [("b", "a")]] 3 = (.ok (), st₁) ∧
    evalImport 6 st₁ [.only (.direct demoLib none) ["a"]] 0 = (.ok (), st₂) ∧
    st₂.store.lookup 0 "a" = some (.num (.int 1)) ∧ st₂.store.lookup 3 "a" = some (.num (.int 2)) ∧
    st₂.store.lookup 3 "f" = none := by
  obtain ⟨st₁, h₁, -, -, -, -, st₂, h₂, hP, hL⟩ := library_private_imports_do_not_conflict
    [.rename (.only (.direct demoLib none) ["b"]) [("b", "a")]] [.only (.direct demoLib none) ["a"]]
    [.export [.rename "a" "k-a" none]] 6 6 demoState 0 [("a", .num (.int 2))] [("a", .num (.int 1))]
    (by simp [fuelNeededAll, S.fuelNeeded]) (by simp [fuelNeededAll, S.fuelNeeded])
    (by simp [demoState]) (by simp [demoState])
    (by simp [S.denoteAll, S.denote, exportsOf, demoState, demoExports, demoLib, libLookup, S.renameTarget])
    (by simp [S.denoteAll, S.denote, exportsOf, demoState, demoExports, demoLib, libLookup])
    ((C12.no_clash_of_compatible _ _).2 ((C12.no_clash_of_compatible _ _).1 (by simp [S.Admissible])))
    ((C12.no_clash_of_compatible _ _).2 ((C12.no_clash_of_compatible _ _).1 (by simp [S.Admissible])))
    (by simp [demoState, demoStore])
  have hsz : demoState.store.frames.size = 3 := by simp [demoState, demoStore]
  rw [hsz] at h₁ hL
  refine ⟨st₁, st₂, h₁, h₂, ?_, ?_, ?_⟩
  · rw [(hP "a").2]; simp [orElse, S.asMap]
  · rw [hL "a"]; simp [S.asMap]
  · rw [hL "f"]; simp [S.asMap]

/-- the library `(k)`: `(define-library (k) (import (rename (only (m) b) (b a))) (export (rename a k-a)))` -/
def libK : LibName := [.ident "k"]
def declsK : List LibDecl :=
  [.importDecl [.rename (.only (.direct demoLib none) ["b"]) [("b", "a")]], .export [.rename "a" "k-a" none]]
/-- the demo state with `(k)` registered next to `(m)` -/
def demoState2 : State :=
  { store := demoStore, factories := [(demoLib, .native demoExports), (libK, .ast declsK)] }

/-- The whole run, computed by the model: the program does `(import (only (m) a))`, then
`(import (k))` — whose body privately imports `b` of `(m)` under the name `a`. Both succeed; the
program's `a` is still 1, `k-a` is 2, and the library's own frame (3) sees `a` = 2. -/
example :
    (evalImport 14 (evalImport 9 demoState2 [.only (.direct demoLib none) ["a"]] 0).2 [.direct libK none] 0).1 = .ok () ∧
    (evalImport 14 (evalImport 9 demoState2 [.only (.direct demoLib none) ["a"]] 0).2
      [.direct libK none] 0).2.store.lookup 0 "a" = some (.num (.int 1)) ∧
    (evalImport 14 (evalImport 9 demoState2 [.only (.direct demoLib none) ["a"]] 0).2
      [.direct libK none] 0).2.store.lookup 0 "k-a" = some (.num (.int 2)) ∧
    (evalImport 14 (evalImport 9 demoState2 [.only (.direct demoLib none) ["a"]] 0).2
      [.direct libK none] 0).2.store.lookup 3 "a" = some (.num (.int 2)) := by
  refine ⟨?_, ?_, ?_, ?_⟩ <;>
  simp [evalImport, evalImportSets, evalImportSet, getLibrary, evalLibraryDef, evalLibDecls, demoState2, demoStore,
    demoExports, demoLib, libK, declsK, libLookup, libInsert, Store.newFrame, Store.define, Store.defsInsert,
    Store.lookup, Store.lookupAux, assocInsert, List.lookup, bind, Except.bind, pure, Except.pure]

end Ruschm.C12Seq

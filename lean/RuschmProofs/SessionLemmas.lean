/-
Helper definitions and lemmas for `RuschmProofs/C18More.lean`: a REPL SESSION in which the printed text
of a list of statements is typed, line by line, evaluates these statements (composition of C18
`repl_groups` / `repl_eq_sequential` with C17More `program_text_evaluates_as_its_statements`).

Vocabulary defined here:
* `TLine`        — a typed line: the tokens on it and the blanks/comments before, between and after them;
* `glueLay`      — the layout of two pieces of text joined by a newline; `joinLines` — a whole text;
* `gAux`/`tgroups` — the maximal line groups of a list of typed lines, computed on TOKENS (a group ends
                   with the first non-empty line at whose end the nesting depth is `≤ 0`);
* `Tight`        — a token list is one complete datum: depth 0 at its end and `> 0` at every proper cut;
* `submitStmts`/`sessionStmts` — submitting chunks of statements one after another.
-/
import RuschmProofs.C18
import RuschmProofs.C17More
import RuschmProofs.PrintLemmas

set_option linter.unusedSimpArgs false
set_option linter.unusedVariables false

namespace Ruschm.Session
open Ruschm Ruschm.Interp Ruschm.Front Ruschm.FrontSpec Ruschm.Text Ruschm.ProgramText Ruschm.Lex

/-! ## typed lines -/

/-- a typed line: its tokens and its layout (one separator more than tokens) -/
structure TLine where
  toks : List Token
  lay : List (List Char)
  deriving DecidableEq

/-- the characters of the line -/
def TLine.text (L : TLine) : List Char := interleave L.toks L.lay

/-- the line as the string `readline` returns -/
def TLine.str (L : TLine) : String := String.ofList L.text

/-- the separators are blanks and comments (a last comment may run to the end of the line), every token
is followed by something that ends it -/
def TLine.Valid (L : TLine) : Prop := ValidLayout L.toks L.lay

/-- the lexer can spell the tokens -/
def TLine.Supp (L : TLine) : Prop := ∀ t ∈ L.toks, SupportedTok t

/-- the layout of `ts₁ ++ ts₂` when the text of `ts₁` under `l₁` is followed by a newline and the text
of `ts₂` under `l₂`: the last separator of `l₁`, the newline and the first separator of `l₂` become one
separator -/
def glueLay : List Token → List (List Char) → List (List Char) → List (List Char)
  | [], l₁, l₂ => (l₁.headD [] ++ '\n' :: l₂.headD []) :: l₂.tail
  | _ :: ts, l₁, l₂ => l₁.headD [] :: glueLay ts l₁.tail l₂

/-- `P`, a newline, `L` -/
def TLine.glue (P L : TLine) : TLine := ⟨P.toks ++ L.toks, glueLay P.toks P.lay L.lay⟩

theorem interleave_prefix (ts : List Token) (p : List Char) (l : List (List Char)) :
    interleave ts ((p ++ l.headD []) :: l.tail) = p ++ interleave ts l := by
  cases ts with
  | nil => simp [interleave]
  | cons t ts => simp [interleave, List.append_assoc]

theorem interleave_glue (ts₁ ts₂ : List Token) (l₂ : List (List Char)) : ∀ (l₁ : List (List Char)),
    interleave (ts₁ ++ ts₂) (glueLay ts₁ l₁ l₂) = interleave ts₁ l₁ ++ '\n' :: interleave ts₂ l₂ := by
  induction ts₁ with
  | nil =>
    intro l₁
    simp only [List.nil_append, glueLay, interleave]
    have := interleave_prefix ts₂ (l₁.headD [] ++ ['\n']) l₂
    simp only [List.append_assoc, List.singleton_append] at this
    exact this
  | cons t ts ih =>
    intro l₁
    simp only [List.cons_append, glueLay, interleave, List.headD_cons, List.tail_cons, ih, List.append_assoc]

theorem glue_text (P L : TLine) : (P.glue L).text = P.text ++ '\n' :: L.text :=
  interleave_glue P.toks L.toks L.lay P.lay

theorem isTrail_glue_atmos (a : List Char) : ∀ (b : Bool) (z : List Char), isTrail b z = true →
    isAtmos false a = true → isAtmos b (z ++ '\n' :: a) = true := by
  intro b z
  induction z generalizing b with
  | nil => intro _ ha; cases b <;> simp [isAtmos, ha, isWs]
  | cons c z ih =>
    intro hz ha
    cases b with
    | false =>
      simp only [isTrail] at hz
      simp only [List.cons_append, isAtmos]
      split at hz
      · rename_i h; simp only [h, if_true]; exact ih _ hz ha
      · rename_i h
        split at hz
        · rename_i h2; simp only [h, h2, if_true, if_false, Bool.false_eq_true]; exact ih _ hz ha
        · cases hz
    | true =>
      simp only [isTrail] at hz
      simp only [List.cons_append, isAtmos]
      split at hz
      · rename_i h; simp only [h, if_true]; exact ih _ hz ha
      · rename_i h; simp only [h, if_false, Bool.false_eq_true]; exact ih _ hz ha

theorem isTrail_glue_trail (a : List Char) : ∀ (b : Bool) (z : List Char), isTrail b z = true →
    isTrail false a = true → isTrail b (z ++ '\n' :: a) = true := by
  intro b z
  induction z generalizing b with
  | nil => intro _ ha; cases b <;> simp [isTrail, ha, isWs]
  | cons c z ih =>
    intro hz ha
    cases b with
    | false =>
      simp only [isTrail] at hz
      simp only [List.cons_append, isTrail]
      split at hz
      · rename_i h; simp only [h, if_true]; exact ih _ hz ha
      · rename_i h
        split at hz
        · rename_i h2; simp only [h, h2, if_true, if_false, Bool.false_eq_true]; exact ih _ hz ha
        · cases hz
    | true =>
      simp only [isTrail] at hz
      simp only [List.cons_append, isTrail]
      split at hz
      · rename_i h; simp only [h, if_true]; exact ih _ hz ha
      · rename_i h; simp only [h, if_false, Bool.false_eq_true]; exact ih _ hz ha

/-- what ends a token at the end of a line still ends it when a newline follows -/
theorem followOK_newline (t : Token) (x y : List Char) (h : followOK t x = true) :
    followOK t (x ++ '\n' :: y) = true := by
  cases x with
  | nil =>
    have hd : startsDelim ('\n' :: y) = true := (by decide : isDelimiter '\n' = true)
    cases t <;> first | (simp [followOK] at h; done) | (simp [followOK, hd])
  | cons c x =>
    rw [← h]
    exact followOK_head t rfl

theorem validLayout_glue (ts₂ : List Token) (l₂ : List (List Char)) (h₂ : ValidLayout ts₂ l₂) :
    ∀ (ts₁ : List Token) (l₁ : List (List Char)), ValidLayout ts₁ l₁ →
      ValidLayout (ts₁ ++ ts₂) (glueLay ts₁ l₁ l₂) := by
  intro ts₁
  induction ts₁ with
  | nil =>
    intro l₁ h₁
    match l₁, h₁ with
    | [z], hz =>
      simp only [List.nil_append, glueLay, List.headD_cons]
      match ts₂, l₂, h₂ with
      | [], [a], ha => exact isTrail_glue_trail a false z hz ha
      | t :: ts, a :: l, ⟨ha, hf, hv⟩ =>
        exact ⟨isTrail_glue_atmos a false z hz ha, hf, hv⟩
  | cons t ts ih =>
    intro l₁ h₁
    match l₁, h₁ with
    | a :: l, ⟨ha, hf, hv⟩ =>
      refine ⟨ha, ?_, ih l hv⟩
      show followOK t (interleave (ts ++ ts₂) (glueLay ts l l₂)) = true
      rw [interleave_glue]
      exact followOK_newline t _ _ hf

theorem glue_valid {P L : TLine} (hP : P.Valid) (hL : L.Valid) : (P.glue L).Valid :=
  validLayout_glue L.toks L.lay hL P.toks P.lay hP

theorem glue_supp {P L : TLine} (hP : P.Supp) (hL : L.Supp) : (P.glue L).Supp := by
  intro t ht
  rcases List.mem_append.1 ht with h | h
  · exact hP t h
  · exact hL t h

/-! ## complete data as token lists -/

/-- the nesting depth as a sum of weights (`depth_eq_sum`) -/
def wsum (w : List Token) : Int := (w.map weight).sum

@[simp] theorem wsum_nil : wsum [] = 0 := rfl
@[simp] theorem wsum_cons (t : Token) (w : List Token) : wsum (t :: w) = weight t + wsum w := by
  simp [wsum]
@[simp] theorem wsum_append (u v : List Token) : wsum (u ++ v) = wsum u + wsum v := by
  simp [wsum]
theorem depth_eq_wsum (w : List Token) : depth w = wsum w := depth_eq_sum w

/-- depth 0 at the end, never negative -/
def NNZ (u : List Token) : Prop := wsum u = 0 ∧ ∀ p s, u = p ++ s → 0 ≤ wsum p
/-- the rest of a list up to its closing parenthesis: depth -1 at the end, not negative before -/
def Cl (w : List Token) : Prop := wsum w = -1 ∧ ∀ p s, w = p ++ s → s ≠ [] → 0 ≤ wsum p
/-- ONE complete datum: non-empty, depth 0 at the end, depth `> 0` at every proper cut -/
def Tight (w : List Token) : Prop :=
  w ≠ [] ∧ wsum w = 0 ∧ ∀ p s, w = p ++ s → p ≠ [] → s ≠ [] → 0 < wsum p

theorem nnz_nil : NNZ [] := by
  refine ⟨rfl, ?_⟩
  intro p s h
  have : p = [] := by
    cases p with
    | nil => rfl
    | cons a p => simp at h
  subst this; simp

theorem tight_nnz {w : List Token} (h : Tight w) : NNZ w := by
  obtain ⟨_, h0, hp⟩ := h
  refine ⟨h0, ?_⟩
  intro p s e
  by_cases hp0 : p = []
  · subst hp0; simp
  · by_cases hs0 : s = []
    · subst hs0
      simp only [List.append_nil] at e
      subst e
      omega
    · exact Int.le_of_lt (hp p s e hp0 hs0)

theorem nnz_append {u v : List Token} (hu : NNZ u) (hv : NNZ v) : NNZ (u ++ v) := by
  refine ⟨by rw [wsum_append, hu.1, hv.1]; rfl, ?_⟩
  intro p s e
  rcases List.append_eq_append_iff.1 e with ⟨a', h1, h2⟩ | ⟨c', h1, h2⟩
  · subst h1
    have := hv.2 a' s h2
    rw [wsum_append, hu.1]; omega
  · exact hu.2 p c' h1

theorem cl_append {u w : List Token} (hu : NNZ u) (hw : Cl w) : Cl (u ++ w) := by
  refine ⟨by rw [wsum_append, hu.1, hw.1]; rfl, ?_⟩
  intro p s e hs
  rcases List.append_eq_append_iff.1 e with ⟨a', h1, h2⟩ | ⟨c', h1, h2⟩
  · subst h1
    have := hw.2 a' s h2 hs
    rw [wsum_append, hu.1]; omega
  · exact hu.2 p c' h1

theorem tight_open {o : Token} {w : List Token} (ho : weight o = 1) (hw : Cl w) : Tight (o :: w) := by
  refine ⟨by simp, by rw [wsum_cons, ho, hw.1]; rfl, ?_⟩
  intro p s e hp hs
  cases p with
  | nil => exact absurd rfl hp
  | cons a p' =>
    simp only [List.cons_append, List.cons.injEq] at e
    obtain ⟨rfl, e⟩ := e
    have := hw.2 p' s e hs
    rw [wsum_cons, ho]; omega

theorem tight_atom {t : Token} (ht : weight t = 0) : Tight [t] := by
  refine ⟨by simp, by simp [ht], ?_⟩
  intro p s e hp hs
  have := congrArg List.length e
  simp only [List.length_cons, List.length_nil, List.length_append] at this
  have h1 : 0 < p.length := List.length_pos_iff.2 hp
  have h2 : 0 < s.length := List.length_pos_iff.2 hs
  omega

theorem cl_rparen : Cl [.rparen] := by
  refine ⟨rfl, ?_⟩
  intro p s e hs
  have := congrArg List.length e
  simp only [List.length_cons, List.length_nil, List.length_append] at this
  have h2 : 0 < s.length := List.length_pos_iff.2 hs
  have : p = [] := List.length_eq_zero_iff.1 (by omega)
  subst this; simp

mutual
theorem toks_tight : (d : Datum) → Tight (Syn.ofDatum d).toks
  | .prim p _ => by simp only [Syn.ofDatum, Syn.toks]; exact tight_atom rfl
  | .sym s _ => by simp only [Syn.ofDatum, Syn.toks]; exact tight_atom rfl
  | .nil _ => by
    simp only [Syn.ofDatum, Syn.toks, Syn.toksL, List.nil_append]
    exact tight_open rfl cl_rparen
  | .vec xs _ => by
    simp only [Syn.ofDatum, Syn.toks]
    exact tight_open rfl (cl_append (toksL_nnz xs) cl_rparen)
  | .pair a d l => by
    rw [Print.toks_ofDatum_pair]
    exact tight_open rfl (cl_append (tight_nnz (toks_tight a)) (tailToks_cl d))
theorem tailToks_cl : (d : Datum) → Cl (Print.tailToks d)
  | .nil _ => by rw [Print.tailToks_nil]; exact cl_rparen
  | .prim p _ => by
    rw [Print.tailToks_prim]
    exact cl_append (u := [.period, .prim p]) (nnz_append (u := [.period]) (tight_nnz (tight_atom rfl)) (tight_nnz (tight_atom rfl))) cl_rparen
  | .sym s _ => by
    rw [Print.tailToks_sym]
    exact cl_append (u := [.period, .ident s]) (nnz_append (u := [.period]) (tight_nnz (tight_atom rfl)) (tight_nnz (tight_atom rfl))) cl_rparen
  | .vec xs _ => by
    rw [Print.tailToks_vec]
    have hv : Tight (Token.vecIntro :: (Syn.toksL (Syn.ofDatums xs) ++ [Token.rparen])) :=
      tight_open rfl (cl_append (toksL_nnz xs) cl_rparen)
    have := cl_append (nnz_append (u := [.period]) (tight_nnz (tight_atom rfl)) (tight_nnz hv)) cl_rparen
    simpa using this
  | .pair a d l => by
    rw [Print.tailToks_pair]
    exact cl_append (tight_nnz (toks_tight a)) (tailToks_cl d)
theorem toksL_nnz : (xs : List Datum) → NNZ (Syn.toksL (Syn.ofDatums xs))
  | [] => by simp only [Syn.ofDatums, Syn.toksL]; exact nnz_nil
  | x :: xs => by
    simp only [Syn.ofDatums, Syn.toksL]
    exact nnz_append (tight_nnz (toks_tight x)) (toksL_nnz xs)
end

/-- CUTTING A SEQUENCE OF COMPLETE DATA WHERE THE DEPTH IS `≤ 0` CUTS BETWEEN TWO DATA: if `g ++ rest`
is the concatenation of the token lists `ws`, each one complete datum, and `g` has depth `≤ 0`, then
`g` is the concatenation of the first few of them. -/
theorem cut_between : ∀ (ws : List (List Token)) (g rest : List Token), (∀ w ∈ ws, Tight w) →
    g ++ rest = ws.flatten → wsum g ≤ 0 →
    ∃ ws₁ ws₂, ws = ws₁ ++ ws₂ ∧ g = ws₁.flatten ∧ rest = ws₂.flatten
  | [], g, rest, _, e, _ => by
    simp only [List.flatten_nil, List.append_eq_nil_iff] at e
    exact ⟨[], [], rfl, e.1, e.2⟩
  | w :: ws, g, rest, ht, e, hg => by
    simp only [List.flatten_cons] at e
    rcases List.append_eq_append_iff.1 e with ⟨a', h1, h2⟩ | ⟨c', h1, h2⟩
    · -- w = g ++ a'
      by_cases hg0 : g = []
      · subst hg0
        exact ⟨[], w :: ws, rfl, rfl, by simpa using e⟩
      · by_cases ha : a' = []
        · subst ha
          simp only [List.append_nil] at h1
          subst h1
          exact ⟨[w], ws, rfl, by simp, by simpa using h2⟩
        · have := (ht w (by simp)).2.2 g a' h1 hg0 ha
          omega
    · -- g = w ++ c'
      subst h1
      have hw := (ht w (by simp)).2.1
      obtain ⟨ws₁, ws₂, e1, e2, e3⟩ := cut_between ws c' rest (fun w' hw' => ht w' (by simp [hw'])) h2.symm
        (by rw [wsum_append, hw] at hg; omega)
      exact ⟨w :: ws₁, ws₂, by rw [e1]; rfl, by rw [e2]; rfl, e3⟩

theorem toksL_flatten : ∀ (xs : List Syn), Syn.toksL xs = (xs.map Syn.toks).flatten
  | [] => by simp [Syn.toksL]
  | x :: xs => by simp [Syn.toksL, toksL_flatten xs]

/-- the tokens of one printed statement -/
def stmtToks (s : Statement) : List Token := (Syn.ofDatum (printStmt s)).toks

theorem programToks_flatten (sts : List Statement) : programToks sts = (sts.map stmtToks).flatten := by
  unfold programToks formsToks
  rw [toksL_flatten]
  simp only [List.map_map, Function.comp_def]
  rfl

theorem programToks_append (a b : List Statement) : programToks (a ++ b) = programToks a ++ programToks b := by
  simp [programToks_flatten]

theorem wsum_programToks : ∀ (sts : List Statement), wsum (programToks sts) = 0
  | [] => by simp [programToks_flatten]
  | s :: ss => by
    have h := wsum_programToks ss
    rw [programToks_flatten] at h ⊢
    simp only [List.map_cons, List.flatten_cons, wsum_append, h]
    have := (toks_tight (printStmt s)).2.1
    unfold stmtToks
    omega

theorem programToks_eq_nil {sts : List Statement} (h : programToks sts = []) : sts = [] := by
  cases sts with
  | nil => rfl
  | cons s ss =>
    rw [programToks_flatten] at h
    simp only [List.map_cons, List.flatten_cons, List.append_eq_nil_iff] at h
    exact absurd h.1 (toks_tight (printStmt s)).1

/-- cutting the tokens of a program where the depth is `≤ 0` cuts between two statements -/
theorem cut_program (sts : List Statement) (g rest : List Token)
    (e : g ++ rest = programToks sts) (hg : wsum g ≤ 0) :
    ∃ sts₁ sts₂, sts = sts₁ ++ sts₂ ∧ g = programToks sts₁ ∧ rest = programToks sts₂ := by
  rw [programToks_flatten] at e
  obtain ⟨ws₁, ws₂, e1, e2, e3⟩ := cut_between _ g rest
    (fun w hw => by
      obtain ⟨s, _, rfl⟩ := List.mem_map.1 hw
      exact toks_tight (printStmt s)) e hg
  obtain ⟨sts₁, sts₂, rfl, rfl, rfl⟩ := List.map_eq_append_iff.1 e1
  exact ⟨sts₁, sts₂, rfl, by rw [e2, programToks_flatten], by rw [e3, programToks_flatten]⟩

/-! ## the line groups of typed lines -/

/-- the pending text as the REPL keeps it: the lines entered so far, each followed by a newline -/
def pendStr : Option TLine → String
  | none => ""
  | some P => String.ofList (P.text ++ ['\n'])

def pendToks : Option TLine → List Token
  | none => []
  | some P => P.toks

/-- the text entered so far with one more line -/
def addLine : Option TLine → TLine → TLine
  | none, L => L
  | some P, L => P.glue L

/-- THE LINE GROUPS, ON TOKENS: empty lines are dropped; a line is added to the pending ones; the group
ends with the first line at whose end the nesting depth of the group's TOKENS is `≤ 0`.  Returns the
groups and the unfinished rest. -/
def gAux : Option TLine → List TLine → List TLine × Option TLine
  | p, [] => ([], p)
  | p, L :: Ls =>
    if L.text = [] then gAux p Ls
    else if depth (addLine p L).toks ≤ 0 then (addLine p L :: (gAux none Ls).1, (gAux none Ls).2)
    else gAux (some (addLine p L)) Ls

def tgroups (lines : List TLine) : List TLine := (gAux none lines).1

theorem str_isEmpty (L : TLine) : L.str.isEmpty = true ↔ L.text = [] := by
  rw [String.isEmpty_iff, ← String.toList_eq_nil_iff]
  simp [TLine.str]

theorem addLine_toks (p : Option TLine) (L : TLine) : (addLine p L).toks = pendToks p ++ L.toks := by
  cases p <;> rfl

theorem addLine_str (p : Option TLine) (L : TLine) : pendStr p ++ L.str = (addLine p L).str := by
  cases p with
  | none => simp [pendStr, addLine]
  | some P =>
    simp only [pendStr, addLine, TLine.str, glue_text, ← String.ofList_append]
    simp

theorem addLine_valid {p : Option TLine} {L : TLine} (hp : ∀ P, p = some P → P.Valid ∧ P.Supp)
    (hL : L.Valid ∧ L.Supp) : (addLine p L).Valid ∧ (addLine p L).Supp := by
  cases p with
  | none => exact hL
  | some P => exact ⟨glue_valid (hp P rfl).1 hL.1, glue_supp (hp P rfl).2 hL.2⟩

theorem closed_str {G : TLine} (h : G.Valid ∧ G.Supp) :
    Bracket.closed G.str.toList = decide (depth G.toks ≤ 0) := by
  simp only [TLine.str, String.toList_ofList]
  exact C18.bracket_of_rendered G.toks G.lay h.2 h.1

/-- the REPL's line groups of typed lines are the groups computed on tokens -/
theorem groupsAux_typed : ∀ (lines : List TLine) (p : Option TLine),
    (∀ L ∈ lines, L.Valid ∧ L.Supp) → (∀ P, p = some P → P.Valid ∧ P.Supp) →
    groupsAux (pendStr p) (lines.map TLine.str) = ((gAux p lines).1.map TLine.str, pendStr (gAux p lines).2)
  | [], p, _, _ => rfl
  | L :: Ls, p, hl, hp => by
    have hLs : ∀ L' ∈ Ls, L'.Valid ∧ L'.Supp := fun L' h => hl L' (by simp [h])
    have hG := addLine_valid hp (hl L (by simp))
    simp only [List.map_cons, groupsAux, gAux]
    by_cases he : L.text = []
    · simp only [(str_isEmpty L).2 he, he, if_true]
      exact groupsAux_typed Ls p hLs hp
    · have he' : L.str.isEmpty = false := by
        cases h : L.str.isEmpty with
        | false => rfl
        | true => exact absurd ((str_isEmpty L).1 h) he
      simp only [he', he, Bool.false_eq_true, if_false, addLine_str, closed_str hG, decide_eq_true_eq]
      by_cases hd : depth (addLine p L).toks ≤ 0
      · simp only [hd, if_true]
        have := groupsAux_typed Ls none hLs (fun P h => by cases h)
        rw [show pendStr none = "" from rfl] at this
        rw [this]
        rfl
      · simp only [hd, if_false]
        have := groupsAux_typed Ls (some (addLine p L)) hLs (fun P h => by cases h; exact hG)
        rw [← this]
        congr 1
        simp only [pendStr, TLine.str, String.ofList_append]

/-- every group is a valid layout of supported tokens -/
theorem gAux_valid : ∀ (lines : List TLine) (p : Option TLine),
    (∀ L ∈ lines, L.Valid ∧ L.Supp) → (∀ P, p = some P → P.Valid ∧ P.Supp) →
    ∀ G ∈ (gAux p lines).1, G.Valid ∧ G.Supp
  | [], p, _, _ => by simp [gAux]
  | L :: Ls, p, hl, hp => by
    have hLs : ∀ L' ∈ Ls, L'.Valid ∧ L'.Supp := fun L' h => hl L' (by simp [h])
    have hG := addLine_valid hp (hl L (by simp))
    simp only [gAux]
    by_cases he : L.text = []
    · simp only [he, if_true]
      exact gAux_valid Ls p hLs hp
    · simp only [he, if_false]
      by_cases hd : depth (addLine p L).toks ≤ 0
      · simp only [hd, if_true]
        intro G hGm
        rcases List.mem_cons.1 hGm with rfl | hGm
        · exact hG
        · exact gAux_valid Ls none hLs (fun P h => by cases h) G hGm
      · simp only [hd, if_false]
        exact gAux_valid Ls (some (addLine p L)) hLs (fun P h => by cases h; exact hG)

theorem text_nil_toks {L : TLine} (hs : L.Supp) (h : L.text = []) : L.toks = [] := by
  cases ht : L.toks with
  | nil => rfl
  | cons t ts =>
    have hpos := renderTok_length_pos t (hs t (by simp [ht]))
    have := congrArg List.length h
    simp only [TLine.text, ht, interleave, List.length_append, List.length_nil] at this
    omega

/-- THE GROUPS CUT THE PROGRAM BETWEEN STATEMENTS.  If the pending tokens and the tokens of the lines
are together the tokens of the printed statements `sts`, then the groups' token lists are the token
lists of consecutive chunks of `sts` (a chunk may be empty: a line of blanks or comments), and
nothing is left unfinished. -/
theorem gAux_chunks : ∀ (lines : List TLine) (p : Option TLine) (sts : List Statement),
    (∀ L ∈ lines, L.Supp) → (∀ P, p = some P → 0 < depth P.toks) →
    pendToks p ++ lines.flatMap TLine.toks = programToks sts →
    ∃ chunks : List (List Statement), chunks.flatten = sts ∧
      (gAux p lines).1.map TLine.toks = chunks.map programToks ∧ (gAux p lines).2 = none
  | [], p, sts, _, hp, e => by
    cases p with
    | none =>
      simp only [pendToks, List.flatMap_nil, List.append_nil] at e
      have := programToks_eq_nil e.symm
      subst this
      exact ⟨[], rfl, rfl, rfl⟩
    | some P =>
      have h1 := hp P rfl
      simp only [pendToks, List.flatMap_nil, List.append_nil] at e
      rw [e, depth_eq_wsum, wsum_programToks] at h1
      omega
  | L :: Ls, p, sts, hl, hp, e => by
    have hLs : ∀ L' ∈ Ls, L'.Supp := fun L' h => hl L' (by simp [h])
    simp only [gAux]
    by_cases he : L.text = []
    · simp only [he, if_true]
      have ht := text_nil_toks (hl L (by simp)) he
      simp only [List.flatMap_cons, ht, List.nil_append] at e
      exact gAux_chunks Ls p sts hLs hp e
    · simp only [he, if_false]
      have e' : (addLine p L).toks ++ Ls.flatMap TLine.toks = programToks sts := by
        rw [addLine_toks, List.append_assoc]
        simpa [List.flatMap_cons] using e
      by_cases hd : depth (addLine p L).toks ≤ 0
      · simp only [hd, if_true]
        obtain ⟨sts₁, sts₂, rfl, e1, e2⟩ := cut_program sts _ _ e' (by rw [← depth_eq_wsum]; exact hd)
        obtain ⟨chunks, c1, c2, c3⟩ := gAux_chunks Ls none sts₂ hLs (fun P h => by cases h)
          (by simpa [pendToks] using e2)
        exact ⟨sts₁ :: chunks, by simp [c1], by simp [e1, c2], c3⟩
      · simp only [hd, if_false]
        exact gAux_chunks Ls (some (addLine p L)) sts hLs (fun P h => by cases h; omega) e'

/-! ## submitting statements -/

/-- what the outcome of a submission makes the REPL print (the output, then the echo of the value;
on an error the output and the error message), and the state in which the session continues -/
def replOutcome (x : Except SErr (Option Value) × State) : State × ReplOut :=
  match x with
  | (.ok v, st') => (st', { stdout := outText st'.store ++ echoOf st'.store v, submitted := true })
  | (.error (e, _), st') => (st', { stdout := outText st'.store, err := some e, submitted := true })

theorem submit_eq (fuel : Nat) (st : State) (src : String) :
    submit fuel st src = replOutcome (evalText fuel (clearOut st) src.toList) := by
  unfold submit replOutcome
  rfl

theorem replOutcome_fst (x : Except SErr (Option Value) × State) : (replOutcome x).1 = x.2 := by
  obtain ⟨r, st⟩ := x
  cases r with
  | ok v => rfl
  | error e => obtain ⟨k, l⟩ := e; rfl

/-- ONE SUBMISSION OF A CHUNK OF STATEMENTS: evaluated one after another by `eval_ast` from the session's
state (output buffer emptied, so that what is in it afterwards is this submission's output), stopping
at the first error -/
def submitStmts (fuel : Nat) (st : State) (chunk : List Statement) : State × ReplOut :=
  replOutcome (runStmts fuel (clearOut st) chunk none)

/-- chunks submitted one after another to ONE interpreter; the session goes on after an error -/
def sessionStmts (fuel : Nat) : State → List (List Statement) → State × List ReplOut
  | st, [] => (st, [])
  | st, c :: cs =>
    ((sessionStmts fuel (submitStmts fuel st c).1 cs).1,
      (submitStmts fuel st c).2 :: (sessionStmts fuel (submitStmts fuel st c).1 cs).2)

theorem replOutcome_IU {x y : IRes (Option Value)}
    (h : IU (Option.map Value.unloc) x = IU (Option.map Value.unloc) y) :
    (replOutcome x).2 = (replOutcome y).2 ∧ (replOutcome x).1.unloc = (replOutcome y).1.unloc := by
  obtain ⟨h1, h2⟩ := IU_eq h
  obtain ⟨r₁, s₁⟩ := x
  obtain ⟨r₂, s₂⟩ := y
  simp only at h1 h2
  unfold replOutcome
  cases r₁ with
  | error e₁ =>
    cases r₂ with
    | ok v₂ => cases h1
    | error e₂ =>
      obtain ⟨k₁, l₁⟩ := e₁
      obtain ⟨k₂, l₂⟩ := e₂
      simp only [mapE_error, SErr.unloc_mk, Except.error.injEq, Prod.mk.injEq, and_true] at h1
      subst h1
      simp only [outText_unloc_eq h2]
      exact ⟨trivial, h2⟩
  | ok v₁ =>
    cases r₂ with
    | error e₂ => cases h1
    | ok v₂ =>
      simp only [mapE_ok, Except.ok.injEq] at h1
      simp only [outText_unloc_eq h2, echoOf_unloc_eq h2 h1]
      exact ⟨trivial, h2⟩

theorem unloc_syn_eq {st₁ st₂ : State} (h : st₁.unloc = st₂.unloc) : st₁.syn = st₂.syn := by
  have := congrArg (fun s : State => s.syn) h
  simpa [State.unloc] using this

theorem runStmts_syn (fuel : Nat) : ∀ (sts : List Statement) (st : State) (last : Option Value),
    (runStmts fuel st sts last).2.syn = st.syn
  | [], st, last => rfl
  | s :: ss, st, last => by
    rw [runStmts]
    cases hx : evalAst fuel st s with
    | mk r st' =>
      have h := (evalAst_out hx).2.1
      cases r with
      | error e => exact h
      | ok v => simp only; rw [runStmts_syn fuel ss st' v, h]

theorem submitStmts_syn (fuel : Nat) (st : State) (chunk : List Statement) :
    (submitStmts fuel st chunk).1.syn = st.syn := by
  unfold submitStmts
  rw [replOutcome_fst, runStmts_syn]
  rfl

theorem programText_eq (chunk : List Statement) (lay : List (List Char)) :
    programText chunk lay = interleave (programToks chunk) lay := rfl

/-- a group whose tokens are those of the printed statements `chunk`, submitted: it prints what
submitting the statements prints, and the session continues in the same state up to locations -/
theorem submit_chunk (fuel : Nat) (st₁ st₂ : State) (G : TLine) (chunk : List Statement)
    (hG : G.Valid) (ht : G.toks = programToks chunk)
    (hok : ∀ s ∈ chunk, okStmt (C01More.macroOf st₂.syn) s) (hsup : ∀ s ∈ chunk, SupportedD (printStmt s))
    (hs : st₁.unloc = st₂.unloc) :
    (submit fuel st₁ G.str).2 = (submitStmts fuel st₂ chunk).2 ∧
    (submit fuel st₁ G.str).1.unloc = (submitStmts fuel st₂ chunk).1.unloc := by
  rw [submit_eq]
  unfold submitStmts
  apply replOutcome_IU
  have hc : (clearOut st₁).unloc = (clearOut st₂).unloc := by rw [clearOut_unloc, clearOut_unloc, hs]
  have hsyn : (clearOut st₁).syn = st₂.syn := unloc_syn_eq (st₁ := st₁) hs
  have htext : G.str.toList = programText chunk G.lay := by
    simp only [TLine.str, String.toList_ofList, TLine.text, ht]
    rfl
  have hl : ValidLayout (formsToks (chunk.map printStmt)) G.lay := by
    have := hG
    unfold TLine.Valid at this
    rw [ht] at this
    exact this
  have hp := printsAs_printStmt (clearOut st₁).syn chunk (by rw [hsyn]; exact hok)
  have hsup' : ∀ p ∈ chunk.map printStmt, SupportedD p := by
    intro p hp'
    obtain ⟨s, hs', rfl⟩ := List.mem_map.1 hp'
    exact hsup s hs'
  obtain ⟨h1, h2⟩ := formsText_readsAs (clearOut st₁).syn _ chunk G.lay hp hsup' hl
  rw [htext]
  exact (evalText_readsAs_unloc fuel (clearOut st₁) _ chunk h1 h2).trans
    (runStmts_unloc fuel chunk chunk (clearOut st₁) (clearOut st₂) none none rfl hc rfl)

/-- groups whose tokens are, one by one, those of the chunks: the session of the groups is the session
of the chunks -/
theorem session_chunks (fuel : Nat) : ∀ (gs : List TLine) (chunks : List (List Statement)) (st₁ st₂ : State),
    gs.map TLine.toks = chunks.map programToks → (∀ G ∈ gs, G.Valid) →
    (∀ s ∈ chunks.flatten, okStmt (C01More.macroOf st₂.syn) s) →
    (∀ s ∈ chunks.flatten, SupportedD (printStmt s)) → st₁.unloc = st₂.unloc →
    (session fuel st₁ (gs.map TLine.str)).2 = (sessionStmts fuel st₂ chunks).2 ∧
    (session fuel st₁ (gs.map TLine.str)).1.unloc = (sessionStmts fuel st₂ chunks).1.unloc
  | [], [], st₁, st₂, _, _, _, _, hs => ⟨rfl, hs⟩
  | G :: gs, c :: cs, st₁, st₂, ht, hv, hok, hsup, hs => by
    simp only [List.map_cons, List.cons.injEq] at ht
    obtain ⟨a, b⟩ := submit_chunk fuel st₁ st₂ G c (hv G (by simp)) ht.1
      (fun s h => hok s (by simp [h])) (fun s h => hsup s (by simp [h])) hs
    obtain ⟨c', d⟩ := session_chunks fuel gs cs _ _ ht.2 (fun G' h => hv G' (by simp [h]))
      (by rw [submitStmts_syn]; exact fun s h => hok s (by simp only [List.flatten_cons, List.mem_append]; exact .inr h))
      (fun s h => hsup s (by simp only [List.flatten_cons, List.mem_append]; exact .inr h)) b
    simp only [List.map_cons, session, sessionStmts]
    exact ⟨by rw [a, c'], d⟩
  | [], _ :: _, _, _, ht, _, _, _, _ => by simp at ht
  | _ :: _, [], _, _, ht, _, _, _, _ => by simp at ht

/-! ## typing statements; one statement per submission -/

/-- `lines` is a way of TYPING the printed statements `sts` into the REPL: every line is a valid layout
of tokens the lexer can spell, and the tokens of the lines, in order, are the tokens of the printed forms
of `sts` (a form may span several lines, several forms may share a line, there may be empty lines and
lines of blanks and comments) -/
def TypedAs (lines : List TLine) (sts : List Statement) : Prop :=
  (∀ L ∈ lines, L.Valid ∧ L.Supp) ∧ lines.flatMap TLine.toks = programToks sts

/-- the whole text: the lines joined by newlines -/
def joinLines : List TLine → TLine
  | [] => ⟨[], [[]]⟩
  | [L] => L
  | L :: L' :: Ls => L.glue (joinLines (L' :: Ls))

theorem joinLines_toks : ∀ (lines : List TLine), (joinLines lines).toks = lines.flatMap TLine.toks
  | [] => rfl
  | [L] => by simp [joinLines]
  | L :: L' :: Ls => by
    have := joinLines_toks (L' :: Ls)
    simp only [joinLines, TLine.glue, this, List.flatMap_cons]

theorem joinLines_valid : ∀ (lines : List TLine), (∀ L ∈ lines, L.Valid) → (joinLines lines).Valid
  | [], _ => by
    show ValidLayout [] [[]]
    exact (rfl : isTrail false [] = true)
  | [L], h => h L (by simp)
  | L :: L' :: Ls, h =>
    glue_valid (h L (by simp)) (joinLines_valid (L' :: Ls) (fun M hM => h M (by simp [hM])))

/-- one submission of ONE statement: `eval_ast` from the session's state (output buffer emptied) -/
def submitStmt (fuel : Nat) (st : State) (s : Statement) : State × ReplOut :=
  replOutcome (evalAst fuel (clearOut st) s)

/-- THE FOLD OF `eval_ast` OVER ALL STATEMENTS, each from the state its predecessor left — error or not —
with what the REPL prints for each -/
def foldStmts (fuel : Nat) : State → List Statement → State × List ReplOut
  | st, [] => (st, [])
  | st, s :: ss =>
    ((foldStmts fuel (submitStmt fuel st s).1 ss).1,
      (submitStmt fuel st s).2 :: (foldStmts fuel (submitStmt fuel st s).1 ss).2)

theorem submitStmts_single (fuel : Nat) (st : State) (s : Statement) :
    submitStmts fuel st [s] = submitStmt fuel st s := by
  unfold submitStmts submitStmt
  congr 1
  simp only [runStmts]
  generalize evalAst fuel (clearOut st) s = x
  obtain ⟨r, st'⟩ := x
  cases r <;> rfl

theorem sessionStmts_singletons (fuel : Nat) : ∀ (sts : List Statement) (st : State),
    sessionStmts fuel st (sts.map (fun s => [s])) = foldStmts fuel st sts
  | [], st => rfl
  | s :: ss, st => by
    simp only [List.map_cons, sessionStmts, foldStmts, submitStmts_single,
      sessionStmts_singletons fuel ss]

theorem flatten_singletons : ∀ (sts : List Statement), (sts.map (fun s => [s])).flatten = sts
  | [] => rfl
  | s :: ss => by simp only [List.map_cons, List.flatten_cons, flatten_singletons ss]; rfl

/-- line `i` is a valid layout of the printed form of statement `i`, alone -/
def OneEach : List TLine → List Statement → Prop
  | [], [] => True
  | L :: Ls, s :: ss => (L.Valid ∧ L.Supp ∧ L.toks = programToks [s]) ∧ OneEach Ls ss
  | _, _ => False

theorem toks_text_ne {L : TLine} (hs : L.Supp) (h : L.toks ≠ []) : L.text ≠ [] :=
  fun he => h (text_nil_toks hs he)

theorem oneEach_groups : ∀ (lines : List TLine) (sts : List Statement), OneEach lines sts →
    gAux none lines = (lines, none)
  | [], [], _ => rfl
  | L :: Ls, s :: ss, h => by
    obtain ⟨⟨hv, hs, ht⟩, hrest⟩ := h
    have hne : L.text ≠ [] := by
      apply toks_text_ne hs
      rw [ht]
      intro h0
      cases programToks_eq_nil h0
    have hd : depth (addLine none L).toks ≤ 0 := by
      show depth L.toks ≤ 0
      rw [ht, depth_eq_wsum, wsum_programToks]
      exact Int.le_refl 0
    simp only [gAux, hne, if_false, hd, if_true, oneEach_groups Ls ss hrest]
    rfl
  | [], _ :: _, h => h.elim
  | _ :: _, [], h => h.elim

theorem oneEach_valid : ∀ (lines : List TLine) (sts : List Statement), OneEach lines sts →
    (∀ L ∈ lines, L.Valid ∧ L.Supp) ∧ lines.map TLine.toks = (sts.map (fun s => [s])).map programToks
  | [], [], _ => ⟨by simp, rfl⟩
  | L :: Ls, s :: ss, h => by
    obtain ⟨⟨hv, hs, ht⟩, hrest⟩ := h
    obtain ⟨a, b⟩ := oneEach_valid Ls ss hrest
    refine ⟨?_, by simp only [List.map_cons, ht, b]⟩
    intro M hM
    rcases List.mem_cons.1 hM with rfl | hM
    · exact ⟨hv, hs⟩
    · exact a M hM
  | [], _ :: _, h => h.elim
  | _ :: _, [], h => h.elim

/-! ## a session without errors and the program run (modulo the output buffer) -/

/-- the state with the output buffer replaced -/
def setOut (o : List String) (st : State) : State := { st with store := { st.store with out := o } }

/-- the state with `o` below everything in the output buffer (`out` is most recent first) -/
def pushOut (o : List String) (st : State) : State := setOut (st.store.out ++ o) st

def pushRes (o : List String) (x : Except SErr (Option Value) × State) : Except SErr (Option Value) × State :=
  (x.1, pushOut o x.2)

/-- THE EVALUATOR DOES NOT READ THE OUTPUT BUFFER, for the statements `sts` with this fuel: with more text
below in the buffer, `eval_ast` gives the same outcome and the same state, with that text still below. -/
def OutBlind (fuel : Nat) (sts : List Statement) : Prop :=
  ∀ s ∈ sts, ∀ (st : State) (o : List String), evalAst fuel (pushOut o st) s = pushRes o (evalAst fuel st s)

/-- everything the submissions of a session of chunks wrote, most recent first: the buffers the
submissions left, one on top of the other -/
def sessionOut (fuel : Nat) : State → List (List Statement) → List String
  | _, [] => []
  | st, c :: cs => sessionOut fuel (submitStmts fuel st c).1 cs ++ (submitStmts fuel st c).1.store.out

theorem pushOut_clearOut (st : State) (acc : List String) :
    pushOut (st.store.out ++ acc) (clearOut st) = pushOut acc st := rfl

theorem runStmts_push (fuel : Nat) : ∀ (sts : List Statement), OutBlind fuel sts →
    ∀ (st : State) (last : Option Value) (o : List String),
      runStmts fuel (pushOut o st) sts last = pushRes o (runStmts fuel st sts last)
  | [], _, st, last, o => rfl
  | s :: ss, hb, st, last, o => by
    simp only [runStmts]
    rw [hb s (by simp) st o]
    generalize evalAst fuel st s = x
    obtain ⟨r, st'⟩ := x
    cases r with
    | error e => rfl
    | ok v => exact runStmts_push fuel ss (fun s' h => hb s' (by simp [h])) st' v o

theorem runStmts_last (fuel : Nat) (st : State) (c : List Statement) (last : Option Value) :
    (runStmts fuel st c last).2 = (runStmts fuel st c none).2 ∧
    ((∃ v, (runStmts fuel st c last).1 = .ok v) → ∃ v, (runStmts fuel st c none).1 = .ok v) := by
  cases c with
  | nil => exact ⟨rfl, fun _ => ⟨none, rfl⟩⟩
  | cons s ss => exact ⟨rfl, fun h => h⟩

theorem replOutcome_ok {x : Except SErr (Option Value) × State} (h : ∃ v, x.1 = .ok v) :
    (replOutcome x).2.err = none := by
  obtain ⟨r, st⟩ := x
  obtain ⟨v, hv⟩ := h
  simp only at hv
  subst hv
  rfl

/-- a session of chunks none of whose statements fails, against the run of all the statements as ONE
program (with `acc` below in the buffer): same final state but for the buffer, and the program's buffer is
what the submissions wrote, accumulated -/
theorem sessionStmts_program (fuel : Nat) : ∀ (chunks : List (List Statement)) (st : State) (acc : List String)
    (last : Option Value), OutBlind fuel chunks.flatten →
    (∃ v, (runStmts fuel (pushOut acc st) chunks.flatten last).1 = .ok v) →
    (runStmts fuel (pushOut acc st) chunks.flatten last).2 =
      setOut (sessionOut fuel st chunks ++ (st.store.out ++ acc)) (sessionStmts fuel st chunks).1 ∧
    ∀ o ∈ (sessionStmts fuel st chunks).2, o.err = none
  | [], st, acc, last, _, _ => ⟨rfl, by simp [sessionStmts]⟩
  | c :: cs, st, acc, last, hb, hok => by
    have hbc : OutBlind fuel c := fun s h => hb s (by simp [h])
    have hbcs : OutBlind fuel cs.flatten := fun s h => hb s (by simp only [List.flatten_cons, List.mem_append]; exact .inr h)
    simp only [List.flatten_cons] at hok ⊢
    rw [runStmts_append] at hok ⊢
    rw [← pushOut_clearOut, runStmts_push fuel c hbc] at hok ⊢
    obtain ⟨hl1, hl2⟩ := runStmts_last fuel (clearOut st) c last
    have hfst : (submitStmts fuel st c).1 = (runStmts fuel (clearOut st) c none).2 := replOutcome_fst _
    cases hY : runStmts fuel (clearOut st) c last with
    | mk rY sY =>
      rw [hY] at hok hl1 hl2
      cases rY with
      | error e =>
        obtain ⟨v, hv⟩ := hok
        simp [pushRes] at hv
      | ok v' =>
        simp only [pushRes] at hok ⊢
        have hs : sY = (submitStmts fuel st c).1 := by rw [hfst, ← hl1]
        obtain ⟨i1, i2⟩ := sessionStmts_program fuel cs sY (st.store.out ++ acc) v' hbcs hok
        refine ⟨?_, ?_⟩
        · rw [i1]
          simp only [sessionStmts, sessionOut, ← hs, List.append_assoc]
        · intro o ho
          simp only [sessionStmts, List.mem_cons] at ho
          rcases ho with rfl | ho
          · exact replOutcome_ok (hl2 ⟨v', rfl⟩)
          · rw [← hs] at ho
            exact i2 o ho

theorem pushOut_nil (st : State) : pushOut [] st = st := by
  unfold pushOut setOut
  simp

theorem setOut_unloc (o : List String) (st : State) : (setOut o st).unloc = setOut o st.unloc := rfl

theorem errors_nil_of {outs : List ReplOut} (h : ∀ o ∈ outs, o.err = none) : errors outs = [] := by
  unfold errors
  induction outs with
  | nil => rfl
  | cons o os ih =>
    simp only [List.filterMap_cons, h o (by simp)]
    exact ih (fun o' ho' => h o' (by simp [ho']))

end Ruschm.Session

#!/bin/sh
# Regression of the stored seeded changes in N private copies of /verif and /repo (so that /repo itself stays untouched and
# free for other work): copy k handles every N-th seed.  Results: /tmp/regr/results-k.json (merge with tools/regress_merge.py).
# usage: tools/regress_parallel.sh N [glob]      e.g.  tools/regress_parallel.sh 3 'C0[1-5]*'
set -e
N=${1:-3}; GLOB=${2:-'C*'}
BASE=${REGR_BASE:-/tmp/regr}; mkdir -p $BASE
for k in $(seq 0 $((N-1))); do
  D=$BASE/c$k
  rm -rf $D; mkdir -p $D
  rsync -a --exclude .git --exclude build/tmp /verif/ $D/verif/ || true
  rsync -a --exclude target /repo/ $D/repo/ || true
  git -C $D/repo checkout -q -- . 2>/dev/null || true
  grep -rl '"/repo"' $D/verif/checks $D/verif/tools $D/verif/harness/Cargo.toml | xargs sed -i "s#\"/repo\"#\"$D/repo\"#g"
  sed -i "s#\"/repo/src#\"$D/repo/src#g" $D/verif/checks/c07.py
  sed -i "s#cwd=\"/verif\"#cwd=\"$D/verif\"#" $D/verif/tools/seedtest.py
  cat > $D/run.py <<PY
import glob, json, os, subprocess, sys
out = {}
seeds = sorted(glob.glob("$D/verif/seeded/$GLOB"))
seeds = [d for i, d in enumerate(seeds) if i % $N == $k and os.path.isdir(d)]
for d in seeds:
    name = os.path.basename(d); pid = name.split("-")[0]
    r = subprocess.run([sys.executable, "$D/verif/tools/seedtest.py", "detect", d, pid], stdout=subprocess.PIPE, text=True).stdout
    try:
        res = json.loads(r)[pid]
        out[name] = {"exit": res["exit"], "first_line": (res.get("lines") or [""])[0].replace("$D", ""), "what": res.get("what")}
    except Exception:
        out[name] = {"error": r[-300:]}
    print(name, out[name].get("exit"), (out[name].get("what") or out[name].get("error") or "")[:90], flush=True)
    json.dump(out, open("$BASE/results-$k.json", "w"), indent=1)
PY
  (cd $D/verif && python3 $D/run.py > $BASE/log-$k.txt 2>&1 &)
done
echo started $N copies

import RuschmModel.Read
import RuschmModel.Bracket
namespace Ruschm.Driver
open Proto

def errStr (e : SErr) : String :=
  "E " ++ toString e.1 ++ " " ++ canonLoc e.2

/-- `lex`: tokens with locations, then the lexer error if any -/
def lex (fields : List String) : List String :=
  match fields with
  | [text] =>
    let (ts, e) := Lex.all (unescape text)
    let out := ts.map (fun t => canonToken t.tok ++ "@" ++ canonLoc t.loc)
    match e with
    | some p => out ++ [errStr (.syntax, some p)]
    | none => out
  | _ => ["X bad-fields"]

/-- `read`: top-level data, then the error if any -/
def read (fields : List String) : List String :=
  match fields with
  | [text] =>
    let (ds, e) := Read.all (unescape text)
    let out := ds.map (fun d => "D " ++ canonDatum d)
    match e with
    | some err => out ++ ["E " ++ toString err.1]
    | none => out
  | _ => ["X bad-fields"]

/-- `bracket`: the REPL's completeness test on a text -/
def bracket (fields : List String) : List String :=
  match fields with
  | [text] => [if Bracket.closed (unescape text) then "closed" else "open"]
  | _ => ["X bad-fields"]

end Ruschm.Driver

/-
Property C18, the `_partial` of `RuschmProofs/C18More.lean` closed: THE OUTPUT BUFFER IS A WRITE-ONLY LOG,
hence a session without errors is the program run — without the hypothesis `OutBlind`.

`C18More.session_equals_program_when_no_error_partial` assumed `Session.OutBlind fuel sts`: "with more
text below in the output buffer `Store.out`, `eval_ast` gives the same outcome and the same state, with that
text still below".  Here it is PROVED, for every fuel and every statement, from an invariant threaded
through every function of the evaluator (`RuschmModel/Eval.lean`) and of the interpreter around it
(`RuschmModel/Interp.lean`), by the mutual induction on fuel of `UnlocLemmas.lean`/`UnlocInterp.lean`
(`RuschmProofs/OutBlindLemmas.lean`: `OBAt`, `IOBAt`); the base case is `Prim.applyPure` for every native
procedure: only `newline` and `display` touch `Store.out`, and they push (`display` formats its argument
from `Store.vecs`).  The other reader of the store inside evaluation, `Prim.derivedEq` (the test "one name
imported with two different bindings", `evalImportSets`), reads `Store.vecs` only.

Vocabulary (`OutBlindLemmas.lean`): `Store.withOut σ o` / `State.withOut st o` — the buffer replaced by `o`;
`SameButOut o o' r r'` (`SameButOutS` for results carrying a `State`) — the results `r`, `r'` of two runs that
started with the buffers `o`, `o'` have the same outcome, the same store but for `out`, and the buffers are
`pushed ++ o` and `pushed ++ o'` for the SAME list `pushed` (the buffer is most recent first).
`Session.setOut o st` (`SessionLemmas.lean`) is `st.withOut o`.
-/
import RuschmProofs.C18More
import RuschmProofs.OutBlindLemmas

set_option linter.unusedSimpArgs false
set_option linter.unusedVariables false

namespace Ruschm.C18Full
open Ruschm Ruschm.Interp Ruschm.Front Ruschm.FrontSpec Ruschm.Text Ruschm.ProgramText Ruschm.Session

/-! ## (1) evaluation never reads the output buffer -/

/-- The statement of `eval_out_blind` at one fuel: one field per function of `RuschmModel/Eval.lean`
(`readLiteral`, `bindFixed`, `Prim.applyPure` — which take no fuel —, `evalExpr`, `evalArgs`,
`applyProcedure`, `applyLoop`, `applyScheme`, `evalDefs`, `evalBody`, `evalTail`) and of
`RuschmModel/Interp.lean` (`evalExprOrDef`, `evalImportSet`, `getLibrary`, `evalImport`, `evalImportSets`,
`evalLibraryDef`, `evalLibDecls`, `evalStatements`, `evalAst`, `evalText`).  Each field: the run from a store
(state) and the run from the same store with ANY other output buffer `o'` are `SameButOut`. -/
structure EvalOutBlind (fuel : Nat) : Prop where
  readLiteral : ∀ (σ : Store) (o' : List String) d,
    SameButOut σ.out o' (Eval.readLiteral σ d) (Eval.readLiteral (σ.withOut o') d)
  bindFixed : ∀ (σ : Store) (o' : List String) ρ names args,
    SameButOut σ.out o' (Eval.bindFixed σ ρ names args) (Eval.bindFixed (σ.withOut o') ρ names args)
  applyPure : ∀ (σ : Store) (o' : List String) b args,
    SameButOut σ.out o' (Prim.applyPure σ b args) (Prim.applyPure (σ.withOut o') b args)
  evalExpr : ∀ (σ : Store) (o' : List String) ρ e,
    SameButOut σ.out o' (Eval.evalExpr fuel σ ρ e) (Eval.evalExpr fuel (σ.withOut o') ρ e)
  evalArgs : ∀ (σ : Store) (o' : List String) ρ es,
    SameButOut σ.out o' (Eval.evalArgs fuel σ ρ es) (Eval.evalArgs fuel (σ.withOut o') ρ es)
  applyProcedure : ∀ (σ : Store) (o' : List String) p args env,
    SameButOut σ.out o' (Eval.applyProcedure fuel σ p args env) (Eval.applyProcedure fuel (σ.withOut o') p args env)
  applyLoop : ∀ (σ : Store) (o' : List String) p args env,
    SameButOut σ.out o' (Eval.applyLoop fuel σ p args env) (Eval.applyLoop fuel (σ.withOut o') p args env)
  applyScheme : ∀ (σ : Store) (o' : List String) lam cenv args,
    SameButOut σ.out o' (Eval.applyScheme fuel σ lam cenv args) (Eval.applyScheme fuel (σ.withOut o') lam cenv args)
  evalDefs : ∀ (σ : Store) (o' : List String) ρ ds,
    SameButOut σ.out o' (Eval.evalDefs fuel σ ρ ds) (Eval.evalDefs fuel (σ.withOut o') ρ ds)
  evalBody : ∀ (σ : Store) (o' : List String) ρ es,
    SameButOut σ.out o' (Eval.evalBody fuel σ ρ es) (Eval.evalBody fuel (σ.withOut o') ρ es)
  evalTail : ∀ (σ : Store) (o' : List String) ρ e,
    SameButOut σ.out o' (Eval.evalTail fuel σ ρ e) (Eval.evalTail fuel (σ.withOut o') ρ e)
  evalExprOrDef : ∀ (st : State) (o' : List String) s ρ,
    SameButOutS st.store.out o' (Interp.evalExprOrDef fuel st s ρ) (Interp.evalExprOrDef fuel (st.withOut o') s ρ)
  evalImportSet : ∀ (st : State) (o' : List String) s,
    SameButOutS st.store.out o' (Interp.evalImportSet fuel st s) (Interp.evalImportSet fuel (st.withOut o') s)
  getLibrary : ∀ (st : State) (o' : List String) name loc,
    SameButOutS st.store.out o' (Interp.getLibrary fuel st name loc) (Interp.getLibrary fuel (st.withOut o') name loc)
  evalImport : ∀ (st : State) (o' : List String) sets ρ,
    SameButOutS st.store.out o' (Interp.evalImport fuel st sets ρ) (Interp.evalImport fuel (st.withOut o') sets ρ)
  evalImportSets : ∀ (st : State) (o' : List String) sets acc,
    SameButOutS st.store.out o' (Interp.evalImportSets fuel st sets acc)
      (Interp.evalImportSets fuel (st.withOut o') sets acc)
  evalLibraryDef : ∀ (st : State) (o' : List String) decls,
    SameButOutS st.store.out o' (Interp.evalLibraryDef fuel st decls) (Interp.evalLibraryDef fuel (st.withOut o') decls)
  evalLibDecls : ∀ (st : State) (o' : List String) ρ decls acc,
    SameButOutS st.store.out o' (Interp.evalLibDecls fuel st ρ decls acc)
      (Interp.evalLibDecls fuel (st.withOut o') ρ decls acc)
  evalStatements : ∀ (st : State) (o' : List String) ρ ss,
    SameButOutS st.store.out o' (Interp.evalStatements fuel st ρ ss) (Interp.evalStatements fuel (st.withOut o') ρ ss)
  evalAst : ∀ (st : State) (o' : List String) s,
    SameButOutS st.store.out o' (Interp.evalAst fuel st s) (Interp.evalAst fuel (st.withOut o') s)
  evalText : ∀ (st : State) (o' : List String) text,
    SameButOutS st.store.out o' (Interp.evalText fuel st text) (Interp.evalText fuel (st.withOut o') text)

/-- (1) EVALUATION NEVER READS THE OUTPUT BUFFER: IT IS A WRITE-ONLY LOG.  For every fuel and every function
of the evaluator and of the interpreter around it (the fields of `EvalOutBlind`): run it from a store `σ`
and from the same store with any other output buffer `o'`.  Both runs have the same outcome — the same value
or the same error with the same location —, the same final frames, vectors, tick trace, depth counters,
(and on `State`: syntax scope, factories, library instances, in-progress set, `import_end`), and there is
one list `pushed` such that the final buffers are `pushed ++ σ.out` and `pushed ++ o'`: what was in the
buffer is kept below, untouched, and what is written does not depend on it. -/
theorem eval_out_blind (fuel : Nat) : EvalOutBlind fuel where
  readLiteral σ o' d := sameButOut_of_addOut (fun σ => Eval.readLiteral σ d) (fun σ o => readLiteral_addOut o d σ) σ o'
  bindFixed σ o' ρ names args :=
    sameButOut_of_addOut (fun σ => Eval.bindFixed σ ρ names args) (fun σ o => bindFixed_addOut o names args σ ρ) σ o'
  applyPure σ o' b args :=
    sameButOut_of_addOut (fun σ => Prim.applyPure σ b args) (fun σ o => applyPure_addOut σ o b args) σ o'
  evalExpr σ o' ρ e :=
    sameButOut_of_addOut (fun σ => Eval.evalExpr fuel σ ρ e) (fun σ o => (obAt fuel).expr σ o ρ e) σ o'
  evalArgs σ o' ρ es :=
    sameButOut_of_addOut (fun σ => Eval.evalArgs fuel σ ρ es) (fun σ o => (obAt fuel).args σ o ρ es) σ o'
  applyProcedure σ o' p args env :=
    sameButOut_of_addOut (fun σ => Eval.applyProcedure fuel σ p args env) (fun σ o => (obAt fuel).proc σ o p args env) σ o'
  applyLoop σ o' p args env :=
    sameButOut_of_addOut (fun σ => Eval.applyLoop fuel σ p args env) (fun σ o => (obAt fuel).loop σ o p args env) σ o'
  applyScheme σ o' lam cenv args :=
    sameButOut_of_addOut (fun σ => Eval.applyScheme fuel σ lam cenv args)
      (fun σ o => (obAt fuel).scheme σ o lam cenv args) σ o'
  evalDefs σ o' ρ ds :=
    sameButOut_of_addOut (fun σ => Eval.evalDefs fuel σ ρ ds) (fun σ o => (obAt fuel).defs σ o ρ ds) σ o'
  evalBody σ o' ρ es :=
    sameButOut_of_addOut (fun σ => Eval.evalBody fuel σ ρ es) (fun σ o => (obAt fuel).body σ o ρ es) σ o'
  evalTail σ o' ρ e :=
    sameButOut_of_addOut (fun σ => Eval.evalTail fuel σ ρ e) (fun σ o => (obAt fuel).tail σ o ρ e) σ o'
  evalExprOrDef st o' s ρ :=
    sameButOutS_of_addOut (fun st => Interp.evalExprOrDef fuel st s ρ) (fun st o => evalExprOrDef_addOut fuel st o s ρ) st o'
  evalImportSet st o' s :=
    sameButOutS_of_addOut (fun st => Interp.evalImportSet fuel st s) (fun st o => (iobAt fuel).importSet st o s) st o'
  getLibrary st o' name loc :=
    sameButOutS_of_addOut (fun st => Interp.getLibrary fuel st name loc)
      (fun st o => (iobAt fuel).getLibrary st o name loc) st o'
  evalImport st o' sets ρ :=
    sameButOutS_of_addOut (fun st => Interp.evalImport fuel st sets ρ) (fun st o => (iobAt fuel).import_ st o sets ρ) st o'
  evalImportSets st o' sets acc :=
    sameButOutS_of_addOut (fun st => Interp.evalImportSets fuel st sets acc)
      (fun st o => (iobAt fuel).importSets st o sets acc) st o'
  evalLibraryDef st o' decls :=
    sameButOutS_of_addOut (fun st => Interp.evalLibraryDef fuel st decls)
      (fun st o => (iobAt fuel).libraryDef st o decls) st o'
  evalLibDecls st o' ρ decls acc :=
    sameButOutS_of_addOut (fun st => Interp.evalLibDecls fuel st ρ decls acc)
      (fun st o => (iobAt fuel).libDecls st o ρ decls acc) st o'
  evalStatements st o' ρ ss :=
    sameButOutS_of_addOut (fun st => Interp.evalStatements fuel st ρ ss)
      (fun st o => (iobAt fuel).statements st o ρ ss) st o'
  evalAst st o' s :=
    sameButOutS_of_addOut (fun st => Interp.evalAst fuel st s) (fun st o => evalAst_addOut fuel st o s) st o'
  evalText st o' text :=
    sameButOutS_of_addOut (fun st => Interp.evalText fuel st text) (fun st o => evalText_addOut fuel st o text) st o'

/-- … and what the two native procedures that touch the buffer do to it: `newline` pushes `"\n"`,
`display` pushes the `Display` text of its argument (computed from the vectors of the store), on top of
whatever the buffer holds. -/
theorem only_display_and_newline_push (σ : Store) (x : Value) (rest : List Value) :
    Prim.applyPure σ .newline [] = (.ok .void, σ.withOut ("\n" :: σ.out)) ∧
    Prim.applyPure σ .display (x :: rest) = (.ok .void, σ.withOut (Prim.display σ 100000 x :: σ.out)) ∧
    ∀ o', Prim.display (σ.withOut o') 100000 x = Prim.display σ 100000 x :=
  ⟨rfl, rfl, fun o' => congrFun (display_vecs (σ := σ) (σ' := σ.withOut o') rfl 100000).1 x⟩

/-- every native procedure other than `newline` and `display` leaves the buffer as it is -/
theorem other_builtins_do_not_write (σ : Store) (b : Builtin) (args : List Value)
    (hb : b ≠ .newline ∧ b ≠ .display) : (Prim.applyPure σ b args).2.out = σ.out := by
  have hl : ∀ {α : Type} (r : Except Err α) (k : α → Value), (Prim.lift σ r k).2.out = σ.out := by
    intro α r k; cases r <;> rfl
  have h1 : ∀ f, (Prim.num1 σ args b f).2.out = σ.out := by
    intro f
    unfold Prim.num1
    cases args with
    | nil => rfl
    | cons x rest =>
      simp only
      cases Prim.expectNumber x with
      | error e => rfl
      | ok n => simp only; cases f n <;> rfl
  have h2 : ∀ f, (Prim.num2 σ args b f).2.out = σ.out := by
    intro f
    unfold Prim.num2
    cases args with
    | nil => rfl
    | cons x rest =>
      cases rest with
      | nil => rfl
      | cons y more =>
        simp only
        cases Prim.expectNumber x with
        | error e => rfl
        | ok n =>
          simp only
          cases Prim.expectNumber y with
          | error e => rfl
          | ok m => simp only; cases f n m <;> rfl
  cases b
  case newline => exact absurd rfl hb.1
  case display => exact absurd rfl hb.2
  case apply => rfl
  case vector => rfl
  case tick =>
    simp only [Prim.applyPure]
    cases args <;> rfl
  case makeVector =>
    simp only [Prim.applyPure]
    cases args with
    | nil => rfl
    | cons k rest =>
      cases rest with
      | nil => rfl
      | cons fill more =>
        cases k <;> try rfl
        rename_i n
        cases n <;> try rfl
        rename_i i
        simp only
        split <;> rfl
  case vectorLength =>
    simp only [Prim.applyPure]
    cases args with
    | nil => rfl
    | cons x rest =>
      cases x <;> try rfl
      rename_i id
      simp only
      cases σ.vecs[id]? <;> rfl
  case vectorRef =>
    simp only [Prim.applyPure]
    cases args with
    | nil => rfl
    | cons v rest =>
      cases rest with
      | nil => rfl
      | cons k more =>
        cases v <;> try rfl
        rename_i id
        cases k <;> try rfl
        rename_i n
        cases n <;> try rfl
        rename_i i
        simp only
        cases σ.vecs[id]? with
        | none => rfl
        | some cell =>
          simp only
          split
          · rfl
          · cases cell.items[i.toNat]? <;> rfl
  case vectorSet =>
    simp only [Prim.applyPure]
    cases args with
    | nil => rfl
    | cons v rest =>
      cases rest with
      | nil => rfl
      | cons k more =>
        cases more with
        | nil => rfl
        | cons obj more' =>
          cases v <;> try rfl
          rename_i id
          cases k <;> try rfl
          rename_i n
          cases n <;> try rfl
          rename_i i
          simp only
          cases σ.vecs[id]? with
          | none => rfl
          | some cell =>
            simp only
            split
            · rfl
            · split
              · rfl
              · cases Prim.listSet cell.items i.toNat obj <;> rfl
  case car =>
    simp only [Prim.applyPure]
    cases args with
    | nil => rfl
    | cons x rest => cases x <;> rfl
  case cdr =>
    simp only [Prim.applyPure]
    cases args with
    | nil => rfl
    | cons x rest => cases x <;> rfl
  case eqv | eq =>
    simp only [Prim.applyPure]
    cases args with
    | nil => rfl
    | cons a rest => cases rest <;> rfl
  case cons =>
    simp only [Prim.applyPure]
    cases args with
    | nil => rfl
    | cons a rest => cases rest <;> rfl
  case isBoolean | isChar | isNumber | isString | isSymbol | isPair | isProcedure | isVector | not =>
    simp only [Prim.applyPure]
    cases args <;> rfl
  all_goals
    simp only [Prim.applyPure, Prim.realFn, Prim.realFn2, hl, h1, h2]

example : (Builtin.add ≠ .newline ∧ Builtin.add ≠ .display) := by decide

/-! ## (2) `OutBlind` holds -/

/-- `Session.pushOut` is `State.addOut` -/
private theorem pushOut_eq (o : List String) (st : State) : pushOut o st = st.addOut o := rfl

/-- (2) THE HYPOTHESIS OF THE `_partial` HOLDS, for every fuel and every list of statements: with more text
`o` below in the output buffer, `eval_ast` on any statement gives the same outcome and the same state, with
`o` still below. -/
theorem out_blind_holds (fuel : Nat) (sts : List Statement) : OutBlind fuel sts :=
  fun s _ st o => evalAst_addOut fuel st o s

/-- the same for a run of statements and for `Interpreter::eval` on a text -/
theorem run_and_text_out_blind (fuel : Nat) (st : State) (o : List String) :
    (∀ sts last, runStmts fuel (pushOut o st) sts last = pushRes o (runStmts fuel st sts last)) ∧
    (∀ text, evalText fuel (pushOut o st) text = pushRes o (evalText fuel st text)) :=
  ⟨fun sts last => runStmts_push fuel sts (out_blind_holds fuel sts) st last o,
    fun text => evalText_addOut fuel st o text⟩

/-! ## (3) a session without errors is the program run -/

/-- (3) A SESSION WITHOUT ERRORS IS THE PROGRAM RUN — `C18More.session_equals_program_when_no_error_full`,
the statement left open there.  Let the statements `sts` (program statements: class `okStmt` for the macro
keywords of the bundled derived forms, literals the lexer can spell) be typed into the REPL in ANY way
(`TypedAs`: any distribution of the tokens over lines, any layout, comments, empty lines), and let every
statement succeed when they are run one after another as a program from the REPL's initial interpreter
(`AllOk`).  Then no submission of the session prints an error message, and the session's final interpreter
state, with the output buffer of the program run put in place of its own (the session empties the buffer
before each submission), is the final state of the program run `runStmts`, up to the source positions
recorded in the code of closures.  For every evaluation fuel, the same on both sides. -/
theorem session_equals_program_when_no_error : C18More.session_equals_program_when_no_error_full := by
  intro fuel sts lines hok hsup ht hall
  obtain ⟨chunks, _, _, herr, hst, _⟩ :=
    C18More.session_equals_program_when_no_error_partial fuel sts lines hok hsup ht (out_blind_holds fuel sts) hall
  exact ⟨hst, herr⟩

/-- (3, all conclusions) the `_partial` of C18More with every conclusion it had, the hypothesis `OutBlind`
removed: with `chunks` the portions in which the session submits the statements (one per line group, no
statement split), no submission prints an error; the final states agree but for the output buffer, up to
recorded positions; the program's output buffer is what the submissions wrote, accumulated (`sessionOut`),
on top of what the initial state held; and the program run is also `Interpreter::eval` on the session's
whole text (the lines joined by newlines): same state up to locations, same output. -/
theorem session_equals_program_when_no_error_chunks (fuel : Nat) (sts : List Statement) (lines : List TLine)
    (hok : ∀ s ∈ sts, okStmt C01More.isStdMacro s) (hsup : ∀ s ∈ sts, SupportedD (printStmt s))
    (ht : TypedAs lines sts) (hall : AllOk fuel (withStdlib fuel false) sts) :
    ∃ chunks : List (List Statement), chunks.flatten = sts ∧
      (tgroups lines).map TLine.toks = chunks.map programToks ∧
      errors (replRun fuel (lines.map TLine.str)).2 = [] ∧
      (setOut (runStmts fuel (withStdlib fuel false) sts none).2.store.out
          (replRun fuel (lines.map TLine.str)).1.st).unloc =
        (runStmts fuel (withStdlib fuel false) sts none).2.unloc ∧
      (runStmts fuel (withStdlib fuel false) sts none).2.store.out =
        sessionOut fuel (withStdlib fuel false) chunks ++ (withStdlib fuel false).store.out ∧
      (evalText fuel (withStdlib fuel false) (joinLines lines).text).2.unloc =
        (runStmts fuel (withStdlib fuel false) sts none).2.unloc ∧
      (evalText fuel (withStdlib fuel false) (joinLines lines).text).2.store.out =
        (runStmts fuel (withStdlib fuel false) sts none).2.store.out :=
  C18More.session_equals_program_when_no_error_partial fuel sts lines hok hsup ht (out_blind_holds fuel sts) hall

/-- the statement `1`, typed on a line of its own with a comment after it: the hypotheses of (3) hold -/
private def one : Statement := .expr (.prim (.int 1) none)

private theorem one_eval (st : State) :
    evalAst 1 st one = (.ok (some (.num (.int 1))), { st with importEnd := true }) := by
  unfold evalAst one
  by_cases h : st.importEnd = true
  · simp [h, evalExprOrDef, Eval.evalExpr, Eval.evalPrim]
  · simp [h, evalExprOrDef, Eval.evalExpr, Eval.evalPrim]

example : (∀ s ∈ [one], okStmt C01More.isStdMacro s) ∧ (∀ s ∈ [one], SupportedD (printStmt s)) ∧
    TypedAs [⟨[.prim (.int 1)], [[], " ; one".toList]⟩] [one] ∧ AllOk 1 (withStdlib 1 false) [one] := by
  refine ⟨?_, ?_, ⟨?_, by decide⟩, ⟨_, _, one_eval _, trivial⟩⟩
  · intro s hs
    simp only [List.mem_cons, List.not_mem_nil, or_false] at hs
    subst hs
    show CoreSyntax.coreStmt C01More.isStdMacro (.expr _) = true
    decide
  · intro s hs
    simp only [List.mem_cons, List.not_mem_nil, or_false] at hs
    subst hs
    exact (by decide : fitsI32 1 = true)
  · intro L hL
    simp only [List.mem_cons, List.not_mem_nil, or_false] at hL
    subst hL
    refine ⟨(by decide : ValidLayout _ _), ?_⟩
    intro t ht
    simp only [List.mem_cons, List.not_mem_nil, or_false] at ht
    subst ht
    exact (by decide : fitsI32 1 = true)

/-! ## (4) corollaries -/

/-- what the statement `s` writes when `eval_ast` runs it in the state `st` (most recent first): the buffer
it leaves when started with an empty one.  By `statement_output_is_independent_of_earlier_output` this is
what it puts on top of ANY buffer. -/
def stmtOut (fuel : Nat) (st : State) (s : Statement) : List String := (evalAst fuel (clearOut st) s).2.store.out

/-- what a program writes (most recent first): what its statements write, each in the state its
predecessor left, up to and including the first statement that fails -/
def progOut (fuel : Nat) : State → List Statement → List String
  | _, [] => []
  | st, s :: ss =>
    match evalAst fuel st s with
    | (.error _, _) => stmtOut fuel st s
    | (.ok _, st') => progOut fuel st' ss ++ stmtOut fuel st s

private theorem setOut_eq (o : List String) (st : State) : setOut o st = (clearOut st).addOut o := rfl

/-- THE OUTPUT OF A STATEMENT DOES NOT DEPEND ON WHAT WAS PRINTED BEFORE.  Run `eval_ast` on `s` in the state
`st` with ANY output buffer `o` in place of its own: the outcome (value or error, with its location) is the
same; the final state is the same but for the buffer; and the buffer is `stmtOut fuel st s ++ o` — the same
text on top of whatever was there. -/
theorem statement_output_is_independent_of_earlier_output (fuel : Nat) (st : State) (s : Statement)
    (o : List String) :
    (evalAst fuel (setOut o st) s).1 = (evalAst fuel st s).1 ∧
    (evalAst fuel (setOut o st) s).2 = setOut (stmtOut fuel st s ++ o) (evalAst fuel st s).2 ∧
    (evalAst fuel (setOut o st) s).2.store.out = stmtOut fuel st s ++ o ∧
    (evalAst fuel st s).2.store.out = stmtOut fuel st s ++ st.store.out := by
  have h1 : evalAst fuel (setOut o st) s = IAO o (evalAst fuel (clearOut st) s) := by
    rw [setOut_eq, evalAst_addOut]
  have h2 : evalAst fuel st s = IAO st.store.out (evalAst fuel (clearOut st) s) := by
    rw [← evalAst_addOut]; rfl
  refine ⟨?_, ?_, ?_, ?_⟩
  · rw [h1, h2]; rfl
  · rw [h1, h2]; rfl
  · rw [h1]; rfl
  · rw [h2]; rfl

/-- OUTPUT ONLY GROWS, AND BY THE SAME TEXT WHATEVER WAS PRINTED BEFORE (compare C17 `out_monotone`, which
gives the first half for forms and texts).  For a statement (`eval_ast`), a run of statements (`runStmts`:
stop at the first error) and a whole text (`Interpreter::eval`), from any state `st`, success or failure:
there is a list `pushed` such that the final buffer is `pushed ++ st.store.out` — nothing already written is
removed or changed — and, started with any other buffer `o`, the final buffer is `pushed ++ o`. -/
theorem output_only_grows (fuel : Nat) (st : State) :
    (∀ s, ∃ pushed, (evalAst fuel st s).2.store.out = pushed ++ st.store.out ∧
      ∀ o, (evalAst fuel (setOut o st) s).2.store.out = pushed ++ o) ∧
    (∀ sts last, ∃ pushed, (runStmts fuel st sts last).2.store.out = pushed ++ st.store.out ∧
      ∀ o, (runStmts fuel (setOut o st) sts last).2.store.out = pushed ++ o) ∧
    (∀ text, ∃ pushed, (evalText fuel st text).2.store.out = pushed ++ st.store.out ∧
      ∀ o, (evalText fuel (setOut o st) text).2.store.out = pushed ++ o) := by
  refine ⟨fun s => ⟨stmtOut fuel st s, ?_, fun o => ?_⟩,
    fun sts last => ⟨(runStmts fuel (clearOut st) sts last).2.store.out, ?_, fun o => ?_⟩,
    fun text => ⟨(evalText fuel (clearOut st) text).2.store.out, ?_, fun o => ?_⟩⟩
  · exact (statement_output_is_independent_of_earlier_output fuel st s []).2.2.2
  · exact (statement_output_is_independent_of_earlier_output fuel st s o).2.2.1
  · have h : runStmts fuel st sts last = pushRes st.store.out (runStmts fuel (clearOut st) sts last) :=
      (run_and_text_out_blind fuel (clearOut st) st.store.out).1 sts last
    rw [h]; rfl
  · have h : runStmts fuel (setOut o st) sts last = pushRes o (runStmts fuel (clearOut st) sts last) :=
      (run_and_text_out_blind fuel (clearOut st) o).1 sts last
    rw [h]; rfl
  · have h : evalText fuel st text = pushRes st.store.out (evalText fuel (clearOut st) text) :=
      (run_and_text_out_blind fuel (clearOut st) st.store.out).2 text
    rw [h]; rfl
  · have h : evalText fuel (setOut o st) text = pushRes o (evalText fuel (clearOut st) text) :=
      (run_and_text_out_blind fuel (clearOut st) o).2 text
    rw [h]; rfl

/-- THE OUTPUT OF A PROGRAM IS THE CONCATENATION OF ITS STATEMENTS' OUTPUT.  Run the statements `sts` one
after another from `st`, stopping at the first error (`runStmts`, the program run of C17More).  The final
output buffer is `progOut fuel st sts ++ st.store.out`: on top of what the buffer held, the pieces
`stmtOut` the statements write — each piece computed from an EMPTY buffer in the state the previous
statement left, i.e. not depending on what was printed before — one on top of the other (most recent
first), up to and including what the first failing statement wrote before it failed. -/
theorem output_of_a_program_is_the_concatenation_of_its_statements_output (fuel : Nat) :
    ∀ (sts : List Statement) (st : State) (last : Option Value),
      (runStmts fuel st sts last).2.store.out = progOut fuel st sts ++ st.store.out
  | [], st, last => rfl
  | s :: ss, st, last => by
    have hs := (statement_output_is_independent_of_earlier_output fuel st s []).2.2.2
    cases h : evalAst fuel st s with
    | mk r st' =>
      rw [h] at hs
      cases r with
      | error e =>
        simp only [runStmts, progOut, h]
        exact hs
      | ok v =>
        simp only [runStmts, progOut, h]
        rw [output_of_a_program_is_the_concatenation_of_its_statements_output fuel ss st' v, List.append_assoc]
        exact congrArg _ hs

/-- … and for the program TEXT: `Interpreter::eval` on any valid layout of the printed statements (C17More
`program_text_evaluates_as_its_statements`) leaves `progOut fuel st sts ++ st.store.out` in the buffer. -/
theorem output_of_a_program_text_is_the_concatenation_of_its_statements_output (fuel : Nat) (st : State)
    (sts : List Statement) (layout : List (List Char))
    (hok : ∀ s ∈ sts, okStmt (C01More.macroOf st.syn) s) (hsup : ∀ s ∈ sts, SupportedD (printStmt s))
    (hl : ValidLayout (programToks sts) layout) :
    (evalText fuel st (programText sts layout)).2.store.out = progOut fuel st sts ++ st.store.out := by
  rw [(C17More.program_text_evaluates_as_its_statements fuel st sts layout hok hsup hl).2.2]
  exact output_of_a_program_is_the_concatenation_of_its_statements_output fuel sts st none

example : (∀ s ∈ [one], okStmt (C01More.macroOf (default_ false).syn) s) ∧
    (∀ s ∈ [one], SupportedD (printStmt s)) ∧ ValidLayout (programToks [one]) [[' '], ['\n']] := by
  refine ⟨?_, ?_, by decide⟩
  · intro s hs
    simp only [List.mem_cons, List.not_mem_nil, or_false] at hs
    subst hs
    show CoreSyntax.coreStmt _ (.expr _) = true
    decide
  · intro s hs
    simp only [List.mem_cons, List.not_mem_nil, or_false] at hs
    subst hs
    exact (by decide : fitsI32 1 = true)

end Ruschm.C18Full

"""A small S-expression reader/printer for the generated programs (integers, #t/#f, identifiers,
strings without escapes, quote abbreviation, vectors, dotted pairs) and an INDEPENDENT desugarer
of the R7RS derived forms into core forms, written from the R7RS definitions (not from
grammar.sld), used as the oracle of C05."""
import re

TOKEN = re.compile(r"""\s+|;[^\n]*|(#\(|[()']|"[^"]*"|[^\s()';"]+)""")


class Dot: pass
DOT = Dot()


def tokenize(text):
    pos, out = 0, []
    while pos < len(text):
        m = TOKEN.match(text, pos)
        if m.group(1):
            out.append(m.group(1))
        pos = m.end()
    return out


def parse_all(text):
    toks = tokenize(text)
    out, i = [], 0
    while i < len(toks):
        x, i = parse(toks, i)
        out.append(x)
    return out


def parse(toks, i):
    t = toks[i]
    if t == "(":
        items, i = [], i + 1
        while toks[i] != ")":
            if toks[i] == ".":
                items.append(DOT); i += 1; continue
            x, i = parse(toks, i)
            items.append(x)
        return items, i + 1
    if t == "#(":
        items, i = [], i + 1
        while toks[i] != ")":
            if toks[i] == ".":
                items.append(DOT); i += 1; continue
            x, i = parse(toks, i)
            items.append(x)
        return ("vec", items), i + 1
    if t == "'":
        x, i = parse(toks, i + 1)
        return ["quote", x], i
    return t, i + 1


def show(x):
    if isinstance(x, list):
        return "(" + " ".join("." if y is DOT else show(y) for y in x) + ")"
    if isinstance(x, tuple):
        return "#(" + " ".join(show(y) for y in x[1]) + ")"
    return x


class Desugar:
    def __init__(self):
        self.n = 0

    def fresh(self):
        self.n += 1
        return "%%t%d" % self.n

    def body(self, forms):
        return [self.d(f) for f in forms]

    def thunk(self, forms):
        return [["lambda", []] + self.body(forms)]

    def T(self, x):
        """a test: its VALUE is taken first (bound by a one-parameter procedure), then tested - so the reference does not
        depend on how the evaluator treats a conditional that stands directly in test position"""
        e = self.d(x)
        if isinstance(e, list) and e and e[0] in ("if",) or (isinstance(e, list) and e and isinstance(e[0], list)):
            t = self.fresh()
            return [["lambda", [t], t], e]
        return e

    def d(self, x):
        if not isinstance(x, list) or not x:
            return x
        h = x[0]
        if h == "quote":
            return x
        if h == "lambda":
            return ["lambda", x[1]] + self.body(x[2:])
        if h == "define":
            if isinstance(x[1], list):
                return ["define", x[1]] + self.body(x[2:])
            return ["define", x[1]] + self.body(x[2:])
        if h == "set!":
            return ["set!", x[1], self.d(x[2])]
        if h == "if":
            return ["if", self.T(x[1])] + self.body(x[2:])
        if h == "begin":
            return self.thunk(x[1:])
        if h == "let":
            names = [b[0] for b in x[1]]
            vals = [self.d(b[1]) for b in x[1]]
            if len(names) < 2:
                return [["lambda", names] + self.body(x[2:])] + vals
            # all initialisers first, left to right, each into a FRESH temporary (so no initialiser can
            # see a variable of this let), then the variables one by one: only one-parameter lambdas
            temps = [self.fresh() for _ in names]
            inner = self.thunk(x[2:])
            for nm, t in reversed(list(zip(names, temps))):
                inner = [["lambda", [nm], inner], t]
            for t, v in reversed(list(zip(temps, vals))):
                inner = [["lambda", [t], inner], v]
            return inner
        if h == "let*":
            if not x[1]:
                return self.thunk(x[2:])
            b = x[1][0]
            return [["lambda", [b[0]], self.d(["let*", x[1][1:]] + x[2:])], self.d(b[1])]
        if h == "and":
            if len(x) == 1: return "#t"
            if len(x) == 2: return self.d(x[1])
            return ["if", self.T(x[1]), self.d(["and"] + x[2:]), "#f"]
        if h == "or":
            if len(x) == 1: return "#f"
            if len(x) == 2: return self.d(x[1])
            t = self.fresh()
            return [["lambda", [t], ["if", t, t, self.d(["or"] + x[2:])]], self.d(x[1])]
        if h == "when":
            return ["if", self.T(x[1]), self.thunk(x[2:])]
        if h == "unless":
            return ["if", self.T(x[1]), ["if", "#f", "#f"], self.thunk(x[2:])]
        if h == "cond":
            return self.cond(x[1:])
        if h == "case":
            k = self.fresh()
            return [["lambda", [k], self.case(k, x[2:])], self.d(x[1])]
        return [self.d(y) for y in x]

    def cond(self, clauses):
        if not clauses:
            return ["if", "#f", "#f"]
        c, rest = clauses[0], clauses[1:]
        if c[0] == "else":
            return self.thunk(c[1:])
        if len(c) >= 3 and c[1] == "=>":
            t = self.fresh()
            return [["lambda", [t], ["if", t, [self.d(c[2]), t]] + ([self.cond(rest)] if rest else [])], self.d(c[0])]
        if len(c) == 1:
            if not rest:
                return self.d(c[0])
            t = self.fresh()
            return [["lambda", [t], ["if", t, t, self.cond(rest)]], self.d(c[0])]
        return ["if", self.T(c[0]), self.thunk(c[1:])] + ([self.cond(rest)] if rest else [])

    def case(self, k, clauses):
        if not clauses:
            return ["if", "#f", "#f"]
        c, rest = clauses[0], clauses[1:]
        if c[0] == "else":
            if len(c) >= 3 and c[1] == "=>":
                return [self.d(c[2]), k]
            return self.thunk(c[1:])
        test = self.member(k, c[0])
        if len(c) >= 3 and c[1] == "=>":
            return ["if", test, [self.d(c[2]), k]] + ([self.case(k, rest)] if rest else [])
        return ["if", test, self.thunk(c[1:])] + ([self.case(k, rest)] if rest else [])

    def member(self, k, data):
        if not data:
            return "#f"
        if len(data) == 1:
            return ["eqv?", k, ["quote", data[0]]]
        return ["if", ["eqv?", k, ["quote", data[0]]], "#t", self.member(k, data[1:])]


def desugar_text(text):
    ds = Desugar()
    return " ".join(show(ds.d(f)) for f in parse_all(text))

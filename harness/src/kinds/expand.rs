//! `expand`: fields = text of define-syntax forms, text of one macro use; the datum that
//! `Transformer::transform` yields for the use (public API only).
use crate::{canon_datum, err_kind};
use ruschm::error::ToLocated;
use ruschm::parser::{DatumBody, Lexer, Parser};

pub fn run(fields: &[String]) -> Vec<String> {
    let mut p = Parser::from_lexer(Lexer::from_char_stream(fields[0].chars()));
    loop {
        match p.next() {
            None => break,
            Some(Err(e)) => return vec![format!("E {}", err_kind(&e))],
            Some(Ok(_)) => (),
        }
    }
    let mut q = Parser::from_lexer(Lexer::from_char_stream(fields[1].chars()));
    let tok = match q.lexer.next() {
        Some(Ok(t)) => t,
        _ => return vec!["X bad-use".to_string()],
    };
    q.current = Some(tok);
    let datum = match q.current_datum() {
        Ok(Some(d)) => d,
        _ => return vec!["X bad-use".to_string()],
    };
    let location = datum.location;
    match datum.data {
        DatumBody::Pair(mut pair) => {
            let first = match pair.pop_proper() {
                Ok(Some(f)) => f,
                _ => return vec!["X bad-use".to_string()],
            };
            let keyword = match first.expect_symbol() {
                Ok(k) => k,
                Err(_) => return vec!["X bad-use".to_string()],
            };
            let remained = DatumBody::Pair(pair).locate(location);
            let transformer = match p.syntax_env.get(&keyword) {
                Some(t) => t.clone(),
                None => return vec!["X no-macro".to_string()],
            };
            match transformer.transform(&keyword, remained) {
                Ok(d) => vec![format!("D {}", canon_datum(&d))],
                Err(e) => vec![format!("E {}", err_kind(&e))],
            }
        }
        _ => vec!["X bad-use".to_string()],
    }
}

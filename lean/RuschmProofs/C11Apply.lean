/-
Property C11 / C08 (addition) — `apply` goes through the SAME arity gate as a direct call.

`(apply b lead … last)` for a native procedure `b`: the trampoline iteration that meets `apply`
continues with `b` and the spread arguments, i.e. it IS the direct call `(b lead … elements-of-last)`
and so meets the arity test of `apply_procedure` again — with `lead.length + last.length`
arguments. Also the nested `(apply apply (list b lead … last))`, and what counts as a list for the
last argument. Builds on `C01.apply_spread(_iff)`, `C08.arity_checked_everywhere`,
`C11.apply_spec(_edge)`; motivated by a seeded change (no arity test for natives reached through
`apply`) that the differential checks had missed at first.

`Applies σ p args env r σ'`: the loop of `apply_procedure` started with `p` and `args` ends with the
outcome `r` (a value or an error other than the model's fuel error) in store `σ'`.
-/
import RuschmProofs.C01
import RuschmProofs.C08
import RuschmProofs.C11
import RuschmProofs.C11ApplyLemmas

namespace Ruschm.C11Apply
open Ruschm Ruschm.Eval Ruschm.ListSpec

private theorem builtin_proc (b : Builtin) : (procArity (.builtin b)).isSome := rfl

private theorem ofList_shape (vs : List Value) :
    Value.ofList vs = .nil ∨ ∃ a d, Value.ofList vs = .pair a d := by
  cases vs with
  | nil => exact .inl rfl
  | cons v vs => exact .inr ⟨_, _, rfl⟩

/-- THE RUN, for every amount of fuel. `(apply b lead … last)` with `b` a native procedure other
than `apply` and `last` the proper list of `vs`: two iterations of the loop, the result is the
`arity` error with the store untouched when `b`'s parameter list does not accept
`lead.length + vs.length` arguments, and otherwise what the native returns on `lead ++ vs`; the
direct call `(b lead … vs …)` (one iteration) gives exactly the same. -/
theorem apply_native_run {σ : Store} {b : Builtin} (hb : b ≠ .apply) (lead vs : List Value) (env n : Nat) :
    applyLoop (n+2) σ (.builtin .apply) (.builtin b :: (lead ++ [Value.ofList vs])) env =
      (if arityOk b.arity.1 b.arity.2 (lead.length + vs.length) then Prim.applyPure σ b (lead ++ vs)
       else (.error (.arity, none), σ)) ∧
    applyLoop (n+1) σ (.builtin b) (lead ++ vs) env =
      (if arityOk b.arity.1 b.arity.2 (lead.length + vs.length) then Prim.applyPure σ b (lead ++ vs)
       else (.error (.arity, none), σ)) := by
  have direct : applyLoop (n+1) σ (.builtin b) (lead ++ vs) env =
      (if arityOk b.arity.1 b.arity.2 (lead.length + vs.length) then Prim.applyPure σ b (lead ++ vs)
       else (.error (.arity, none), σ)) := by
    cases ha : arityOk b.arity.1 b.arity.2 (lead.length + vs.length) with
    | true =>
      rw [Eval.applyLoop_builtin_step n σ env hb (by rw [List.length_append]; exact ha)]; rfl
    | false =>
      rw [Eval.applyLoop_arity_gate n σ env (p := .builtin b) rfl (by rw [List.length_append]; exact ha)]; rfl
  refine ⟨?_, direct⟩
  rw [C01.apply_spread (builtin_proc b) (ofList_shape vs), elems_ofList, direct]

/-- THE SAME GATE, fuel-free and for EVERY native `b` (`apply` itself included). (1) When `b`'s
parameter list does not accept `lead.length + vs.length` arguments, `(apply b lead … last)` is the
`arity` error and nothing has happened — exactly as for the direct call. (2) In every case the
`apply` form has an outcome exactly when the direct call `(b lead … vs …)` has it, the same outcome
and the same store. -/
theorem apply_same_gate {σ : Store} (b : Builtin) (lead vs : List Value) (env : Nat) :
    (arityOk b.arity.1 b.arity.2 (lead.length + vs.length) = false →
      Applies σ (.builtin .apply) (.builtin b :: (lead ++ [Value.ofList vs])) env (.error (.arity, none)) σ ∧
      Applies σ (.builtin b) (lead ++ vs) env (.error (.arity, none)) σ) ∧
    (∀ r σ', Applies σ (.builtin .apply) (.builtin b :: (lead ++ [Value.ofList vs])) env r σ' ↔
      Applies σ (.builtin b) (lead ++ vs) env r σ') := by
  refine ⟨fun ha => ?_, fun r σ' => C01.apply_spread_iff (builtin_proc b)⟩
  have ha' : arityOk b.arity.1 b.arity.2 (lead ++ vs).length = false := by rw [List.length_append]; exact ha
  refine ⟨?_, C08.arity_checked_everywhere .refl rfl ha'⟩
  refine C08.arity_checked_everywhere (q := .builtin b) (qargs := lead ++ vs) (.apply (by simp) ?_ .refl) rfl ha'
  rw [spreadApply_snoc (builtin_proc b) (ofList_shape vs), elems_ofList]

/-- The `arity` error belongs to the gate alone: no native procedure ever returns it (nor the
model's fuel error), whatever the store and the arguments. -/
theorem native_never_arity {σ σ' : Store} {b : Builtin} {args : List Value} {e : Err} {l : Loc}
    (h : Prim.applyPure σ b args = (.error (e, l), σ')) : e ≠ .arity ∧ e ≠ .fuel :=
  C11ApplyLemmas.applyPure_ne_arity h

/-- an error a native does report (`(car 5)`: the type error), to which the theorem applies -/
example : Err.type ≠ .arity ∧ Err.type ≠ .fuel :=
  native_never_arity (σ := {}) (b := .car) (args := [.num (.int 5)]) (l := none) (σ' := {}) rfl

private theorem notFuel_applyPure (σ : Store) (b : Builtin) (args : List Value) :
    NotFuel (Prim.applyPure σ b args).1 := by
  rcases h : Prim.applyPure σ b args with ⟨r, σ'⟩
  cases r with
  | ok v => simp
  | error e => obtain ⟨e, l⟩ := e; exact .error_of (native_never_arity h).2

/-- EXACTLY. For a native `b` other than `apply`, `last` the proper list of `vs`, in every store:
`(apply b lead … last)` has the outcome `r` in store `σ'` if and only if EITHER `b` does not accept
`lead.length + vs.length` arguments and `r` is the `arity` error, `σ'` the store untouched, OR it
does and `(r, σ')` is what the native returns on `lead ++ vs`. In particular the `apply` form always
has an outcome (no hypothesis on `r`). -/
theorem apply_native_outcome {σ : Store} {b : Builtin} (hb : b ≠ .apply) (lead vs : List Value) (env : Nat)
    (r : Except SErr Value) (σ' : Store) :
    Applies σ (.builtin .apply) (.builtin b :: (lead ++ [Value.ofList vs])) env r σ' ↔
      (r, σ') = (if arityOk b.arity.1 b.arity.2 (lead.length + vs.length) then Prim.applyPure σ b (lead ++ vs)
                 else (.error (.arity, none), σ)) := by
  constructor
  · intro h
    obtain ⟨-, N, hN⟩ := h.out
    rw [← (apply_native_run hb lead vs env N).1]
    exact (hN (N+2) (by omega)).symm
  · intro h
    refine Applies.intro (n := 2) (((apply_native_run hb lead vs env 0).1).trans h.symm) ?_
    cases ha : arityOk b.arity.1 b.arity.2 (lead.length + vs.length) with
    | true =>
      rw [ha, if_pos rfl] at h
      have := notFuel_applyPure σ b (lead ++ vs)
      rw [← h] at this; exact this
    | false =>
      rw [ha] at h
      cases h; exact .error_of (by simp)

/-- … so `(apply b lead … last)` is the `arity` error EXACTLY WHEN `b`'s parameter list does not
accept `lead.length + vs.length` arguments (and then the store is untouched) — the criterion of the
direct call. -/
theorem apply_native_arity_iff {σ : Store} {b : Builtin} (hb : b ≠ .apply) (lead vs : List Value) (env : Nat) :
    ((∃ σ', Applies σ (.builtin .apply) (.builtin b :: (lead ++ [Value.ofList vs])) env (.error (.arity, none)) σ') ↔
      arityOk b.arity.1 b.arity.2 (lead.length + vs.length) = false) ∧
    ((∃ σ', Applies σ (.builtin b) (lead ++ vs) env (.error (.arity, none)) σ') ↔
      arityOk b.arity.1 b.arity.2 (lead.length + vs.length) = false) ∧
    (∀ σ', Applies σ (.builtin .apply) (.builtin b :: (lead ++ [Value.ofList vs])) env (.error (.arity, none)) σ' →
      σ' = σ) := by
  have key : ∀ σ', Applies σ (.builtin .apply) (.builtin b :: (lead ++ [Value.ofList vs])) env (.error (.arity, none)) σ' →
      arityOk b.arity.1 b.arity.2 (lead.length + vs.length) = false ∧ σ' = σ := by
    intro σ' h
    rw [apply_native_outcome hb] at h
    cases ha : arityOk b.arity.1 b.arity.2 (lead.length + vs.length) with
    | true =>
      rw [ha, if_pos rfl] at h
      exact absurd rfl (native_never_arity h.symm).1
    | false =>
      rw [ha] at h
      cases h; exact ⟨rfl, rfl⟩
  refine ⟨⟨fun ⟨σ', h⟩ => (key σ' h).1, fun ha => ⟨σ, ((apply_same_gate b lead vs env).1 ha).1⟩⟩,
    ⟨fun ⟨σ', h⟩ => (key σ' (((apply_same_gate b lead vs env).2 _ _).mpr h)).1,
     fun ha => ⟨σ, ((apply_same_gate b lead vs env).1 ha).2⟩⟩, fun σ' h => (key σ' h).2⟩

/-- … and when the count IS accepted, the outcome of `(apply b lead … last)` is what the native
returns on `lead ++ vs` — value or error, and its store. -/
theorem apply_native_accepted {σ σ' : Store} {b : Builtin} (hb : b ≠ .apply) {lead vs : List Value} {env : Nat}
    {r : Except SErr Value} (ha : arityOk b.arity.1 b.arity.2 (lead.length + vs.length) = true)
    (h : Prim.applyPure σ b (lead ++ vs) = (r, σ')) :
    Applies σ (.builtin .apply) (.builtin b :: (lead ++ [Value.ofList vs])) env r σ' := by
  rw [apply_native_outcome hb, ha, if_pos rfl, h]

/-- NESTED: `(apply apply (list b lead … last))` — `apply` applied through `apply` — is again the
direct call `(b lead … vs …)`: same outcomes, and the `arity` error with nothing done when `b`
does not accept `lead.length + vs.length` arguments. -/
theorem apply_apply_nested {σ : Store} (b : Builtin) (lead vs : List Value) (env : Nat) :
    (arityOk b.arity.1 b.arity.2 (lead.length + vs.length) = false →
      Applies σ (.builtin .apply)
        [.builtin .apply, Value.ofList (.builtin b :: (lead ++ [Value.ofList vs]))] env (.error (.arity, none)) σ) ∧
    (∀ r σ', Applies σ (.builtin .apply)
        [.builtin .apply, Value.ofList (.builtin b :: (lead ++ [Value.ofList vs]))] env r σ' ↔
      Applies σ (.builtin b) (lead ++ vs) env r σ') := by
  have key : ∀ r σ', Applies σ (.builtin .apply)
        [.builtin .apply, Value.ofList (.builtin b :: (lead ++ [Value.ofList vs]))] env r σ' ↔
      Applies σ (.builtin b) (lead ++ vs) env r σ' := fun r σ' =>
    (C01.apply_spread_iff (as := []) (builtin_proc .apply)).trans ((apply_same_gate b lead vs env).2 r σ')
  exact ⟨fun ha => (key _ _).mpr ((apply_same_gate b lead vs env).1 ha).2, key⟩

/-- WHAT COUNTS AS A LIST for the last argument of `apply` (`spread_apply_arguments`): a pair or the
empty list — nothing else. For every procedure `f` (native or user, whatever its arity and however
many leading arguments there are): the spreading fails with the type error exactly when `last` is
neither; then `(apply f lead … last)` is the type error with nothing done, BEFORE any arity test
of `f`. DEVIATION from R7RS (recorded in `C11.apply_spec`): a pair whose chain of `cdr`s does not
end in `()` is accepted, its final tail becoming one more argument. -/
theorem apply_last_must_be_list {σ : Store} {f : Value} (hf : (procArity f).isSome) (lead : List Value)
    (last : Value) (env : Nat) :
    (spreadApply (f :: (lead ++ [last])) = .error .type ↔ (isPair last = false ∧ last ≠ .nil)) ∧
    (isPair last = true ∨ last = .nil → spreadApply (f :: (lead ++ [last])) = .ok (f, lead ++ last.elems)) ∧
    (isPair last = false → last ≠ .nil →
      Applies σ (.builtin .apply) (f :: (lead ++ [last])) env (.error (.type, none)) σ) := by
  obtain ⟨a, ha⟩ := Option.isSome_iff_exists.mp hf
  refine ⟨?_, fun hl => ?_, fun hp hn => C11.apply_spec_edge.2.1 lead last hf hp hn⟩
  · simp only [spreadApply, ha, List.getLast?_append, List.getLast?_singleton, List.dropLast_concat]
    cases last <;> simp [isPair]
  · apply spreadApply_snoc hf
    rcases hl with hl | rfl
    · cases last <;> simp_all [isPair]
    · exact .inl rfl

/-! ## closed examples: `cons`, `car`, `eqv?` through `apply`, lists of length 1, 2, 3 -/

private def num (i : Int) : Value := .num (.int i)
private def σ₀ : Store := {}

/-- `cons` (two parameters): `(apply cons '(1))` and `(apply cons '(1 2 3))` are arity errors,
`(apply cons '(1 2))` is `(1 . 2)`; also with a leading argument: `(apply cons 1 '(2))`,
`(apply cons 1 '(2 3))` -/
example :
    applyLoop 5 σ₀ (.builtin .apply) [.builtin .cons, Value.ofList [num 1]] 0 = (.error (.arity, none), σ₀) ∧
    applyLoop 5 σ₀ (.builtin .apply) [.builtin .cons, Value.ofList [num 1, num 2]] 0 = (.ok (.pair (num 1) (num 2)), σ₀) ∧
    applyLoop 5 σ₀ (.builtin .apply) [.builtin .cons, Value.ofList [num 1, num 2, num 3]] 0 = (.error (.arity, none), σ₀) ∧
    applyLoop 5 σ₀ (.builtin .apply) [.builtin .cons, num 1, Value.ofList [num 2]] 0 = (.ok (.pair (num 1) (num 2)), σ₀) ∧
    applyLoop 5 σ₀ (.builtin .apply) [.builtin .cons, num 1, Value.ofList [num 2, num 3]] 0 = (.error (.arity, none), σ₀) :=
  ⟨(apply_native_run (b := .cons) (by decide) [] [num 1] 0 3).1,
   (apply_native_run (b := .cons) (by decide) [] [num 1, num 2] 0 3).1,
   (apply_native_run (b := .cons) (by decide) [] [num 1, num 2, num 3] 0 3).1,
   (apply_native_run (b := .cons) (by decide) [num 1] [num 2] 0 3).1,
   (apply_native_run (b := .cons) (by decide) [num 1] [num 2, num 3] 0 3).1⟩

/-- `car` (one parameter): `(apply car '((1)))` is `1`; two or three elements are arity errors
(whatever the elements: the native is not run) -/
example :
    applyLoop 5 σ₀ (.builtin .apply) [.builtin .car, Value.ofList [Value.ofList [num 1]]] 0 = (.ok (num 1), σ₀) ∧
    applyLoop 5 σ₀ (.builtin .apply) [.builtin .car, Value.ofList [Value.ofList [num 1], num 2]] 0 = (.error (.arity, none), σ₀) ∧
    applyLoop 5 σ₀ (.builtin .apply) [.builtin .car, Value.ofList [num 1, num 2, num 3]] 0 = (.error (.arity, none), σ₀) :=
  ⟨(apply_native_run (b := .car) (by decide) [] [Value.ofList [num 1]] 0 3).1,
   (apply_native_run (b := .car) (by decide) [] [Value.ofList [num 1], num 2] 0 3).1,
   (apply_native_run (b := .car) (by decide) [] [num 1, num 2, num 3] 0 3).1⟩

/-- `eqv?` (two parameters): one or three elements are arity errors, two are compared -/
example :
    applyLoop 5 σ₀ (.builtin .apply) [.builtin .eqv, Value.ofList [num 1]] 0 = (.error (.arity, none), σ₀) ∧
    applyLoop 5 σ₀ (.builtin .apply) [.builtin .eqv, Value.ofList [num 1, num 1]] 0 = (.ok (.bool true), σ₀) ∧
    applyLoop 5 σ₀ (.builtin .apply) [.builtin .eqv, Value.ofList [num 1, num 1, num 1]] 0 = (.error (.arity, none), σ₀) :=
  ⟨(apply_native_run (b := .eqv) (by decide) [] [num 1] 0 3).1,
   (apply_native_run (b := .eqv) (by decide) [] [num 1, num 1] 0 3).1,
   (apply_native_run (b := .eqv) (by decide) [] [num 1, num 1, num 1] 0 3).1⟩

/-- the hypothesis of the arity clause of `apply_same_gate` / `apply_apply_nested` holds of `cons`
with three elements, `car` with two, `eqv?` with one: the judgement, in any store -/
example (σ : Store) :
    Applies σ (.builtin .apply) [.builtin .cons, Value.ofList [num 1, num 2, num 3]] 0 (.error (.arity, none)) σ ∧
    Applies σ (.builtin .apply) [.builtin .car, num 1, Value.ofList [num 2]] 0 (.error (.arity, none)) σ ∧
    Applies σ (.builtin .apply) [.builtin .apply, Value.ofList [.builtin .eqv, Value.ofList [num 1]]] 0
      (.error (.arity, none)) σ ∧
    Applies σ (.builtin .apply) [.builtin .apply, Value.ofList [.builtin .cons, Value.ofList [num 1, num 2]]] 0
      (.ok (.pair (num 1) (num 2))) σ :=
  ⟨((apply_same_gate .cons [] [num 1, num 2, num 3] 0).1 rfl).1,
   ((apply_same_gate .car [num 1] [num 2] 0).1 rfl).1,
   (apply_apply_nested .eqv [] [num 1] 0).1 rfl,
   ((apply_apply_nested .cons [] [num 1, num 2] 0).2 _ _).mpr (C11.cons_spec _ _ _ _)⟩

/-- `apply_native_outcome` / `apply_native_arity_iff` on `(apply car '(1 2))` (rejected) and
`(apply car '((1) ))` (accepted), in any store -/
example (σ : Store) :
    Applies σ (.builtin .apply) [.builtin .car, Value.ofList [num 1, num 2]] 0 (.error (.arity, none)) σ ∧
    Applies σ (.builtin .apply) [.builtin .car, Value.ofList [Value.ofList [num 1]]] 0 (.ok (num 1)) σ ∧
    ¬ ∃ σ', Applies σ (.builtin .apply) [.builtin .car, Value.ofList [Value.ofList [num 1]]] 0 (.error (.arity, none)) σ' :=
  ⟨(apply_native_outcome (b := .car) (by decide) [] [num 1, num 2] 0 _ _).mpr rfl,
   (apply_native_outcome (b := .car) (by decide) [] [Value.ofList [num 1]] 0 _ _).mpr rfl,
   fun h => absurd ((apply_native_arity_iff (σ := σ) (b := .car) (by decide) [] [Value.ofList [num 1]] 0).1.mp h) (by decide)⟩

/-- the accepted case as a judgement: `(apply eqv? 1 '(1))` -/
example (σ : Store) : Applies σ (.builtin .apply) [.builtin .eqv, num 1, Value.ofList [num 1]] 0 (.ok (.bool true)) σ :=
  apply_native_accepted (b := .eqv) (by decide) (lead := [num 1]) (vs := [num 1]) rfl rfl

/-- a last argument that is not a list: `(apply cons 1 2)`, `(apply car 5)`, `(apply eqv? 1 2 "s")`
are type errors — also where the count would have been wrong or right; and the improper `(1 . 2)` is
accepted: `(apply cons '(1 . 2))` is `(cons 1 2)` -/
example (σ : Store) :
    Applies σ (.builtin .apply) [.builtin .cons, num 1, num 2] 0 (.error (.type, none)) σ ∧
    Applies σ (.builtin .apply) [.builtin .car, num 5] 0 (.error (.type, none)) σ ∧
    Applies σ (.builtin .apply) [.builtin .eqv, num 1, num 2, .str "s"] 0 (.error (.type, none)) σ ∧
    Applies σ (.builtin .apply) [.builtin .cons, .pair (num 1) (num 2)] 0 (.ok (.pair (num 1) (num 2))) σ :=
  ⟨(apply_last_must_be_list (f := .builtin .cons) rfl [num 1] (num 2) 0).2.2 rfl (by simp [num]),
   (apply_last_must_be_list (f := .builtin .car) rfl [] (num 5) 0).2.2 rfl (by simp [num]),
   (apply_last_must_be_list (f := .builtin .eqv) rfl [num 1, num 2] (.str "s") 0).2.2 rfl (by simp),
   C11.apply_spec (init := []) rfl (.inl rfl) (C11.cons_spec _ _ _ _)⟩

end Ruschm.C11Apply

/-
Property C14 — library loading terminates; the outcome depends only on the dependency graph.

"Importing a library terminates for every dependency graph: it fails with a cyclic-import error
exactly when a cycle is reachable from it, fails with the underlying error when a reachable library
is missing, unreadable, malformed or faults while being evaluated, and succeeds otherwise (shared
dependencies reached by several paths are not cycles). The outcome of an import does not depend on
which imports were attempted or failed earlier on the same interpreter, and library files are
located relative to the program's directory, not the process's working directory."

Only property theorems live here (each is audited with `#print axioms`); helper lemmas are in
`RuschmProofs/LibLemmas.lean`; the abstract loader (`Loader.load`, same control structure as
`Interp.evalImportSet (.direct ..)` / `getLibrary` / `evalLibraryDef`, over a finite dependency
graph) and the graph vocabulary are in `RuschmSpec/Lib.lean`.
-/
import RuschmProofs.LibLemmas

namespace Ruschm.C14
open Ruschm Ruschm.Interp

/-! ## the bridge to the model of the interpreter -/

/-- The in-progress set of the REAL `evalImportSet` is restored after any outcome, for every
state, fuel and import set (the repaired behaviour: the mark is removed on failure too); and an
import of a library that is in progress is the cyclic-import error, with the state unchanged. -/
theorem model_in_progress_restored (fuel : Nat) (st : State) :
    (∀ s, (evalImportSet fuel st s).2.inProgress = st.inProgress) ∧
    (∀ sets ρ, (evalImport fuel st sets ρ).2.inProgress = st.inProgress) ∧
    (∀ name loc, name ∈ st.inProgress →
      evalImportSet (fuel + 1) st (.direct name loc) = (.error (.cyclic, loc), st)) := by
  refine ⟨fun s => ?_, fun sets ρ => ?_, fun name loc h => ?_⟩
  · exact ((invAt storeRel_true fuel).importSet (r := _) (st' := _) rfl).inProgress
  · exact ((invAt storeRel_true fuel).import_ (r := _) (st' := _) rfl).inProgress
  · rw [evalImportSet]
    have : st.inProgress.contains name = true := by simpa using h
    rw [if_pos this]

/-- a failing import (the library does not exist) leaves the in-progress set as it was -/
example : (evalImportSet 5 { inProgress := [[.ident "x"]] } (.direct [.ident "nope"] none)).2.inProgress
    = [[.ident "x"]] :=
  (model_in_progress_restored 5 _).1 _

/-- `get_library` looks for a library file only at `libPath name` — the name's elements joined by
`/`, with extension `sld`, RELATIVE to the program directory (the keys of `files`) — and what it
finds depends on nothing else: `getLibrary` is the cached instance or else `instantiate` of the
factory `findFactory` finds, and two states that agree on the registered factory for `name` and on
the file at `libPath name` find the same factory (or fail with the same error). -/
theorem libPath_relative (name : LibName) (loc : Loc) :
    libPath name = "/".intercalate (name.map LibElem.toString) ++ ".sld" ∧
    (∀ fuel st, getLibrary (fuel + 1) st name loc =
      match libLookup st.instances name with
      | some defs => (.ok defs, st)
      | none =>
        match findFactory st name loc with
        | (.error e, st) => (.error e, st)
        | (.ok f, st) => instantiate fuel st f name) ∧
    (∀ st₁ st₂ : State, libLookup st₁.factories name = libLookup st₂.factories name →
      st₁.files.lookup (libPath name) = st₂.files.lookup (libPath name) →
      (findFactory st₁ name loc).1 = (findFactory st₂ name loc).1) := by
  refine ⟨rfl, fun fuel st => getLibrary_succ_eq fuel st name loc, fun st₁ st₂ hf hfile => ?_⟩
  unfold findFactory
  rw [hf, hfile]
  cases libLookup st₂.factories name with
  | some f => rfl
  | none =>
    simp only
    cases List.lookup (libPath name) st₂.files with
    | none => rfl
    | some fe =>
      cases fe with
      | unreadable => rfl
      | text t => simp only; cases factoryOfText name t <;> rfl

example : libPath [.ident "util", .ident "list", .int 2] = "util/list/2.sld" := by decide

end Ruschm.C14

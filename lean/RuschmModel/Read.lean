/-
Model of the reader half of `src/parser/parser.rs`: `advance`, `current_datum`,
`current_list_or_pair`, `vector`/`repeat`, `datum`, `parse_quoted`, over the token stream the
model lexer produces (tokens, then possibly the lexer error that ended the stream).
-/
import RuschmModel.Lex
namespace Ruschm

/-- a located error, `SchemeError = Located<ErrorData>` -/
abbrev SErr := Err × Loc

namespace Read

/-- the `Parser` fields the reader uses -/
structure PState where
  toks : List LToken           -- tokens not yet pulled from the lexer
  lexErr : Option Lex.LexErr   -- the lexer error that follows them, if any
  cur : Option LToken := none  -- `Parser.current`
  loc : Loc := none            -- `Parser.location`
  deriving Inhabited

def ofText (cs : List Char) : PState :=
  let (ts, e) := Lex.all cs
  { toks := ts, lexErr := e }

/-- `advance(1)`: pull one token; a lexer error surfaces here -/
def advance (s : PState) : Except SErr PState :=
  match s.toks with
  | t :: rest => .ok { s with toks := rest, cur := some t, loc := t.loc }
  | [] =>
    match s.lexErr with
    | some e => .error (.syntax, some e)
    | none => .ok { s with cur := none, loc := none }

/-- `advance_unwrap(1)`: the end of input is an error at the previous location -/
def advanceUnwrap (s : PState) : Except SErr (LToken × PState) := do
  let before := s.loc
  let s' ← advance s
  match s'.cur with
  | some t => pure (t, s')
  | none => .error (.syntax, before)

/-- `peek_next_token` -/
def peek (s : PState) : Except SErr (Option LToken) :=
  match s.toks with
  | t :: _ => .ok (some t)
  | [] =>
    match s.lexErr with
    | some e => .error (.syntax, some e)
    | none => .ok none

/-- `(quote inner)` as `parse_quoted` builds it -/
def mkQuote (l : Loc) (inner : Datum) : Datum :=
  .pair (.sym "quote" l) (.pair inner (.nil none) none) l

/-- append an element at the end of a proper list under construction (spine locations `none`) -/
def snoc : Datum → Datum → Datum
  | .pair a d l, x => .pair a (snoc d x) l
  | _, x => .pair x (.nil none) none

/-- replace the final `()` of the list under construction by `tail` -/
def setTail : Datum → Datum → Datum
  | .pair a d l, t => .pair a (setTail d t) l
  | _, t => t

mutual
/-- `current_datum`: reads the datum that starts at `s.cur` -/
def currentDatum : Nat → PState → Except SErr (Option Datum × PState)
  | 0, _ => .error (.fuel, none)
  | fuel + 1, s =>
    match s.cur with
    | none => .ok (none, s)
    | some t =>
      let s := { s with cur := none }
      match t.tok with
      | .prim p => .ok (some (.prim p t.loc), s)
      | .ident a => .ok (some (.sym a t.loc), s)
      | .lparen => do let (d, s) ← listOrPair fuel s; pure (some d, s)
      | .rparen => .error (.syntax, t.loc)
      | .vecIntro => do
        let (xs, s) ← repeatDatum fuel s []
        pure (some (.vec xs s.loc), s)
      | .quote => do
        let s ← advance s
        let (d, s) ← parseQuoted fuel s
        pure (some d, s)
      | _ => .error (.syntax, t.loc)

/-- `current_list_or_pair`; `acc` is the list built so far, `dot` the `encounter_period` flag -/
def listOrPair (fuel : Nat) (s : PState) : Except SErr (Datum × PState) :=
  listLoop fuel s s.loc (.nil none) false

def listLoop : Nat → PState → Loc → Datum → Bool → Except SErr (Datum × PState)
  | 0, _, _, _, _ => .error (.fuel, none)
  | fuel + 1, s, listLoc, acc, dot => do
    let (t, s) ← advanceUnwrap s
    match t.tok with
    | .period =>
      if dot then .error (.syntax, t.loc) else listLoop fuel s listLoc acc true
    | .rparen => pure (acc.withLoc listLoc, s)
    | _ =>
      let (od, s) ← currentDatum fuel s
      match od with
      | none => .error (.syntax, none)
      | some element =>
        match acc with
        | .pair _ _ _ =>
          if dot then do
            -- `expect_next_nth(1, RightParen)`
            let (t2, s) ← advanceUnwrap s
            if t2.tok = .rparen then pure ((setTail acc element).withLoc listLoc, s)
            else .error (.syntax, s.loc)
          else listLoop fuel s listLoc (snoc acc element) dot
        | _ => listLoop fuel s listLoc (.pair element (.nil none) none) dot

/-- `repeat(Self::datum)`: elements up to the closing parenthesis -/
def repeatDatum : Nat → PState → List Datum → Except SErr (List Datum × PState)
  | 0, _, _ => .error (.fuel, none)
  | fuel + 1, s, acc => do
    match ← peek s with
    | none => .error (.syntax, s.loc)
    | some t =>
      if t.tok = .rparen then do
        let s ← advance s
        pure (acc.reverse, s)
      else do
        let s ← advance s
        let (d, s) ← datum fuel s
        repeatDatum fuel s (d :: acc)

/-- `datum`: the restricted reader used after a quote and inside vectors -/
def datum : Nat → PState → Except SErr (Datum × PState)
  | 0, _ => .error (.fuel, none)
  | fuel + 1, s =>
    let location := s.loc
    match s.cur with
    | none => .error (.syntax, location)
    | some t =>
      match t.tok with
      | .lparen => listOrPair fuel s
      | .vecIntro => do
        let (xs, s) ← repeatDatum fuel s []
        pure (.vec xs location, s)
      | .ident a => .ok (.sym a location, s)
      | .prim p => .ok (.prim p location, s)
      | .quote => do
        let s ← advance s
        parseQuoted fuel s
      | _ => .error (.syntax, location)

/-- `parse_quoted` -/
def parseQuoted : Nat → PState → Except SErr (Datum × PState)
  | 0, _ => .error (.fuel, none)
  | fuel + 1, s => do
    let quoteLoc := s.loc
    let (inner, s) ← datum fuel s
    pure (mkQuote quoteLoc inner, s)
end

/-- fuel that always suffices: every recursive call either consumes a token or is bracketed by
one that does -/
def fuelFor (s : PState) : Nat := 4 * (s.toks.length + 2)

/-- `Parser::parse` up to the datum: `advance(1)` then `current_datum` -/
def nextDatum (s : PState) : Except SErr (Option Datum × PState) := do
  let s ← advance s
  currentDatum (fuelFor s) s

/-- all top-level data of a text, and the error that stopped the reader if any -/
def allAux : Nat → PState → List Datum → List Datum × Option SErr
  | 0, _, acc => (acc.reverse, none)
  | fuel + 1, s, acc =>
    match nextDatum s with
    | .error e => (acc.reverse, some e)
    | .ok (none, _) => (acc.reverse, none)
    | .ok (some d, s') => allAux fuel s' (d :: acc)

def all (cs : List Char) : List Datum × Option SErr :=
  let s := ofText cs
  allAux (s.toks.length + 1) s []

end Read
end Ruschm

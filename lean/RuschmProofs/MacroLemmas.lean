/-
Helper lemmas for C04 (1): one-step equations of the matcher per pattern shape, sizes and spines,
sufficiency of fuel (the matcher terminates), and the key-set invariant that rules out the
`get_mut(var).unwrap()` panic for ALL patterns.
-/
import RuschmSpec.Macro

namespace Ruschm.Macro
open Ruschm

/-! ## Vocabulary -/

/-- `multi_matches` for the patterns after `p` -/
def nextMM (lits : List String) (p : Pat) : Option Pat :=
  match p with
  | .ident v => if lits.contains v then none else some p
  | _ => some p

/-- the push loop of the ellipsis branch; `none` is the `unwrap` panic -/
def pushAll (τ σ : Subst) : Option Subst :=
  τ.foldl (fun acc (x : String × Datum × List Datum) =>
    acc.bind (fun s => Subst.push? s x.1 x.2.1)) (some σ)

def Pat.isListy : Pat → Bool
  | .pair _ _ => true
  | .nil => true
  | _ => false

def _root_.Ruschm.Datum.isListy : Datum → Bool
  | .pair _ _ _ => true
  | .nil _ => true
  | _ => false

/-! ## One-step equations of `matchDatum` -/

@[simp] theorem matchDatum_zero {lits p d σ} :
    matchDatum 0 lits p d σ = .error (.fuel, none) := by rw [matchDatum]

@[simp] theorem matchStream_zero {lits ps ds mm σ} :
    matchStream 0 lits ps ds mm σ = .error (.fuel, none) := by rw [matchStream]

@[simp] theorem matchDatum_underscore {n lits d σ} :
    matchDatum (n+1) lits .underscore d σ = .ok (true, σ) := by rw [matchDatum]

@[simp] theorem matchDatum_ellipsis {n lits d σ} :
    matchDatum (n+1) lits .ellipsis d σ = .ok (true, σ) := by rw [matchDatum]

theorem matchDatum_ident {n lits v d σ} :
    matchDatum (n+1) lits (.ident v) d σ =
      if lits.contains v then .ok (match d with | .sym s _ => s == v | _ => false, σ)
      else .ok (true, σ.insert v (d, [])) := by
  cases d <;> cases h : lits.contains v <;> simp_all [matchDatum]

theorem matchDatum_var {n lits v d σ} (h : lits.contains v = false) :
    matchDatum (n+1) lits (.ident v) d σ = .ok (true, σ.insert v (d, [])) := by
  rw [matchDatum_ident, h]; simp

theorem matchDatum_lit {n lits v d σ} (h : lits.contains v = true) :
    matchDatum (n+1) lits (.ident v) d σ =
      .ok (match d with | .sym s _ => s == v | _ => false, σ) := by
  rw [matchDatum_ident, h]; simp

theorem matchDatum_prim {n lits a d σ} :
    matchDatum (n+1) lits (.prim a) d σ =
      .ok (match d with | .prim b _ => a == b | _ => false, σ) := by
  cases d <;> simp [matchDatum]

theorem matchDatum_vec {n lits ps d σ} :
    matchDatum (n+1) lits (.vec ps) d σ =
      match d with
      | .vec ds _ => matchStream n lits ps ds none σ
      | _ => .ok (false, σ) := by
  cases d <;> simp [matchDatum]

/-- a list pattern against a datum that is not a list -/
theorem matchDatum_listy_atom {n lits p d σ} (hp : p.isListy = true) (hd : d.isListy = false) :
    matchDatum (n+1) lits p d σ = .ok (false, σ) := by
  cases p <;> cases d <;> simp_all [Pat.isListy, Datum.isListy, matchDatum]

/-- a list pattern against a list: the elements as a stream, then the two tails -/
theorem matchDatum_listy {n lits p d σ} (hp : p.isListy = true) (hd : d.isListy = true) :
    matchDatum (n+1) lits p d σ =
      match matchStream n lits p.spine.1 d.spine.1 none σ with
      | .error e => .error e
      | .ok (false, σ1) => .ok (false, σ1)
      | .ok (true, σ1) =>
        match p.spine.2, d.spine.2 with
        | some lp, some ld => matchDatum n lits lp ld σ1
        | none, none => .ok (true, σ1)
        | _, _ => .ok (false, σ1) := by
  cases p <;> cases d <;> simp_all [Pat.isListy, Datum.isListy] <;>
  · rw [matchDatum]
    simp only [bind, Except.bind, pure, Except.pure]
    cases matchStream n lits _ _ none σ with
    | error e => rfl
    | ok r =>
      obtain ⟨b, σ1⟩ := r
      cases b
      · rfl
      · simp only [if_true]
        split <;> simp_all

/-! ## One-step equations of `matchStream` -/

@[simp] theorem matchStream_nil_nil {n lits mm σ} :
    matchStream (n+1) lits [] [] mm σ = .ok (true, σ) := by rw [matchStream]

@[simp] theorem matchStream_nil_cons {n lits d ds mm σ} :
    matchStream (n+1) lits [] (d :: ds) mm σ = .ok (false, σ) := by rw [matchStream]

theorem matchStream_cons_nil_ne {n lits p ps mm σ} (hp : p.isEllipsis = false) :
    matchStream (n+1) lits (p :: ps) [] mm σ = .ok (false, σ) := by
  rw [matchStream]; cases p <;> simp_all [Pat.isEllipsis]

@[simp] theorem matchStream_ell_nil_none {n lits ps σ} :
    matchStream (n+1) lits (.ellipsis :: ps) [] none σ = .ok (false, σ) := by
  simp [matchStream]

@[simp] theorem matchStream_ell_nil_some {n lits ps mp σ} :
    matchStream (n+1) lits (.ellipsis :: ps) [] (some mp) σ =
      matchStream n lits ps [] (some mp) σ := by
  rw [matchStream]

/-- an element that is not the ellipsis: match it, then go on -/
theorem matchStream_step_ne {n lits p ps d ds mm σ} (hp : p.isEllipsis = false) :
    matchStream (n+1) lits (p :: ps) (d :: ds) mm σ =
      match matchDatum n lits p d σ with
      | .error e => .error e
      | .ok (false, σ1) => .ok (false, σ1)
      | .ok (true, σ1) => matchStream n lits ps ds (nextMM lits p) σ1 := by
  rw [matchStream]
  cases h : matchDatum n lits p d σ with
  | error e => rfl
  | ok r =>
    obtain ⟨b, σ1⟩ := r
    cases b
    · rfl
    · cases p <;> simp [Pat.isEllipsis, nextMM, bind, Except.bind] at hp ⊢
      split <;> rfl

/-- the ellipsis with no preceding sub-pattern: `UnexpectedPattern` -/
theorem matchStream_ell_none {n lits ps d ds σ} :
    matchStream (n+2) lits (.ellipsis :: ps) (d :: ds) none σ = .error (.syntax, none) := by
  rw [matchStream, matchDatum_ellipsis]; rfl

/-- the ellipsis against one more item: the item must match the preceding sub-pattern `mp` (in a
fresh table, whose matches are pushed), then stay on the ellipsis, else step over it -/
theorem matchStream_step_ell {n lits ps d ds mp σ} :
    matchStream (n+2) lits (.ellipsis :: ps) (d :: ds) (some mp) σ =
      match matchDatum (n+1) lits mp d [] with
      | .error e => .error e
      | .ok (false, _) => .ok (false, σ)
      | .ok (true, τ) =>
        match pushAll τ σ with
        | none => .error (.panic "macros.rs get_mut unwrap", none)
        | some σ2 =>
          match matchStream (n+1) lits (.ellipsis :: ps) ds (some mp) σ2 with
          | .error e => .error e
          | .ok (true, σ3) => .ok (true, σ3)
          | .ok (false, σ3) => matchStream (n+1) lits ps ds (some mp) σ3 := by
  rw [matchStream]
  rw [matchDatum_ellipsis]
  simp only [bind, Except.bind, pure, Except.pure]
  cases h : matchDatum (n+1) lits mp d [] with
  | error e => rfl
  | ok r =>
    obtain ⟨b, τ⟩ := r
    cases b
    · rfl
    · simp only [Bool.not_true, Bool.false_eq_true, if_false, pushAll]
      cases List.foldl (fun acc (x : String × Datum × List Datum) =>
          acc.bind fun s => s.push? x.fst x.2.fst) (some σ) τ with
      | none => rfl
      | some σ2 =>
        simp only []
        cases matchStream (n + 1) lits (Pat.ellipsis :: ps) ds (some mp) σ2 with
        | error e => rfl
        | ok r2 =>
          obtain ⟨b2, σ3⟩ := r2
          cases b2 <;> simp

theorem matchStream_ell_one {lits ps d ds mm σ} :
    matchStream 1 lits (.ellipsis :: ps) (d :: ds) mm σ = .error (.fuel, none) := by
  rw [matchStream, matchDatum_zero]; rfl

/-! ## Sizes and spines -/

theorem Pat.size_pos (p : Pat) : 0 < p.size := by
  cases p <;> simp [Pat.size]

theorem _root_.Ruschm.Datum.size_pos (d : Datum) : 0 < d.size := by
  cases d <;> simp [Datum.size]

/-- size of an optional tail -/
def Pat.tsize : Option Pat → Nat
  | some p => p.size
  | none => 0

def _root_.Ruschm.Datum.tsize : Option Datum → Nat
  | some d => d.size
  | none => 0

theorem Pat.spine_size (p : Pat) :
    Pat.sizeList p.spine.1 + Pat.tsize p.spine.2 + (if p.isListy then 1 else 0) ≤ p.size := by
  fun_induction Pat.spine p with
  | case1 a d xs t h ih =>
    simp only [h] at ih
    simp only [Pat.sizeList, Pat.size, Pat.isListy, if_true]
    split at ih <;> omega
  | case2 => simp [Pat.sizeList, Pat.tsize, Pat.size, Pat.isListy]
  | case3 p h1 h2 =>
    cases p <;> simp_all [Pat.sizeList, Pat.tsize, Pat.isListy]

theorem _root_.Ruschm.Datum.spine_size (d : Datum) :
    Datum.sizeList d.spine.1 + Datum.tsize d.spine.2 + (if d.isListy then 1 else 0) ≤ d.size := by
  fun_induction Datum.spine d with
  | case1 a d l xs t h ih =>
    simp only [h] at ih
    simp only [Datum.sizeList, Datum.size, Datum.isListy, if_true]
    split at ih <;> omega
  | case2 => simp [Datum.sizeList, Datum.tsize, Datum.size, Datum.isListy]
  | case3 p h1 h2 =>
    cases p <;> simp_all [Datum.sizeList, Datum.tsize, Datum.isListy]

/-! ## Fuel: the matcher terminates

`p.size + d.size` units of fuel suffice for matching `p` against `d`, for ALL patterns and data.
(`matchFuel d` alone does not: each `...` that is skipped at the end of the data costs a unit, so
the need grows with the pattern.) -/

/-- the fuel that suffices for matching `p` against `d` -/
def matchBound (p : Pat) (d : Datum) : Nat := p.size + d.size

theorem match_fuel_aux (lits : List String) : ∀ n,
    (∀ p d σ l, p.size + d.size ≤ n → matchDatum n lits p d σ ≠ .error (.fuel, l)) ∧
    (∀ ps ds mm σ l, Pat.sizeList ps + Datum.sizeList ds + Pat.tsize mm + 1 ≤ n →
      matchStream n lits ps ds mm σ ≠ .error (.fuel, l)) := by
  intro n
  induction n with
  | zero =>
    refine ⟨fun p d σ l h => ?_, fun ps ds mm σ l h => by omega⟩
    have := p.size_pos; omega
  | succ n ih =>
    obtain ⟨ihD, ihS⟩ := ih
    constructor
    · intro p d σ l hsz
      cases hp : p.isListy
      · -- atoms and vectors
        cases p <;> simp [Pat.isListy] at hp
        · simp
        · simp
        · rw [matchDatum_vec]
          cases d <;> simp
          rename_i ps ds loc
          apply ihS
          simp [Pat.size, Datum.size, Pat.tsize] at hsz ⊢
          omega
        · rw [matchDatum_ident]; split <;> simp
        · rw [matchDatum_prim]; simp
      · cases hd : d.isListy
        · rw [matchDatum_listy_atom hp hd]; simp
        · rw [matchDatum_listy hp hd]
          have h1 := p.spine_size
          have h2 := d.spine_size
          simp only [hp, hd, if_true] at h1 h2
          intro h
          split at h
          · rename_i e he
            cases h
            exact ihS _ _ _ _ _ (by simp [Pat.tsize]; omega) he
          · cases h
          · rename_i σ1 he
            split at h
            · rename_i lp ld hlp hld
              simp only [hlp, hld, Pat.tsize, Datum.tsize] at h1 h2
              exact ihD _ _ _ _ (by omega) h
            · cases h
            · cases h
    · intro ps ds mm σ l hsz
      cases ps with
      | nil => cases ds <;> simp
      | cons p ps =>
        cases ds with
        | nil =>
          cases hp : p.isEllipsis
          · rw [matchStream_cons_nil_ne hp]; simp
          · cases p <;> simp [Pat.isEllipsis] at hp
            cases mm with
            | none => simp
            | some mp =>
              rw [matchStream_ell_nil_some]
              apply ihS
              simp [Pat.sizeList, Pat.size] at hsz ⊢
              omega
        | cons d ds =>
          have hd := d.size_pos
          have hpp := p.size_pos
          simp only [Pat.sizeList, Datum.sizeList] at hsz
          cases hp : p.isEllipsis
          · rw [matchStream_step_ne hp]
            intro h
            split at h
            · rename_i e he
              cases h
              exact ihD _ _ _ _ (by omega) he
            · cases h
            · refine ihS _ _ _ _ _ ?_ h
              have : Pat.tsize (nextMM lits p) ≤ p.size := by
                unfold nextMM; split
                · split <;> simp [Pat.tsize, Pat.size]
                · simp [Pat.tsize]
              omega
          · cases p <;> simp [Pat.isEllipsis] at hp
            cases n with
            | zero => omega
            | succ n =>
              cases mm with
              | none => rw [matchStream_ell_none]; simp
              | some mp =>
                rw [matchStream_step_ell]
                simp only [Pat.tsize] at hsz
                intro h
                split at h
                · rename_i e he
                  cases h
                  exact ihD _ _ _ _ (by omega) he
                · cases h
                · split at h
                  · cases h
                  · split at h
                    · rename_i e he
                      cases h
                      refine ihS _ _ _ _ _ ?_ he
                      simp only [Pat.sizeList, Pat.tsize]; omega
                    · cases h
                    · refine ihS _ _ _ _ _ ?_ h
                      simp only [Pat.tsize]; omega

/-- **the matcher terminates**: `p.size + d.size` units of fuel suffice, for all patterns, data,
literals and tables -/
theorem matchDatum_fuel {lits n p d σ l} (h : matchBound p d ≤ n) :
    matchDatum n lits p d σ ≠ .error (.fuel, l) :=
  (match_fuel_aux lits n).1 p d σ l h

theorem matchStream_fuel {lits n ps ds mm σ l}
    (h : Pat.sizeList ps + Datum.sizeList ds + Pat.tsize mm + 1 ≤ n) :
    matchStream n lits ps ds mm σ ≠ .error (.fuel, l) :=
  (match_fuel_aux lits n).2 ps ds mm σ l h

/-! ## Keys of the table -/

@[simp] theorem Subst.keys_nil : Subst.keys [] = [] := rfl
@[simp] theorem Subst.keys_cons {e : String × Datum × List Datum} {σ : Subst} :
    Subst.keys (e :: σ) = e.1 :: Subst.keys σ := rfl
@[simp] theorem Subst.keys_append {σ τ : Subst} :
    Subst.keys (σ ++ τ) = Subst.keys σ ++ Subst.keys τ := by simp [Subst.keys]

theorem Subst.mem_keys_insert {σ : Subst} {v x k} :
    k ∈ Subst.keys (σ.insert v x) ↔ k = v ∨ k ∈ Subst.keys σ := by
  induction σ with
  | nil => simp [Subst.insert, Subst.keys]
  | cons e σ ih =>
    obtain ⟨k', y⟩ := e
    simp only [Subst.insert]
    split
    · rename_i h; subst h; simp
    · simp only [Subst.keys_cons, List.mem_cons, ih]
      grind

theorem Subst.push?_keys {σ : Subst} {v d σ'} (h : σ.push? v d = some σ') :
    Subst.keys σ' = Subst.keys σ := by
  induction σ generalizing σ' with
  | nil => simp [Subst.push?] at h
  | cons e σ ih =>
    obtain ⟨k, f, more⟩ := e
    simp only [Subst.push?] at h
    split at h
    · cases h; rfl
    · simp only [Option.map_eq_some_iff] at h
      obtain ⟨σ2, h2, rfl⟩ := h
      simp [ih h2]

theorem Subst.push?_isSome {σ : Subst} {v d} (h : v ∈ Subst.keys σ) :
    ∃ σ', σ.push? v d = some σ' := by
  induction σ with
  | nil => simp at h
  | cons e σ ih =>
    obtain ⟨k, f, more⟩ := e
    simp only [Subst.push?]
    split
    · exact ⟨_, rfl⟩
    · rename_i hne
      simp only [Subst.keys_cons, List.mem_cons] at h
      rcases h with h | h
      · exact absurd h.symm hne
      · obtain ⟨σ', h'⟩ := ih h
        exact ⟨_, by rw [h']; rfl⟩

theorem pushAll_nil {σ : Subst} : pushAll [] σ = some σ := rfl

theorem pushAll_cons {e : String × Datum × List Datum} {τ σ : Subst} :
    pushAll (e :: τ) σ = (σ.push? e.1 e.2.1).bind (pushAll τ) := by
  simp only [pushAll, List.foldl_cons, Option.bind_some]
  cases σ.push? e.1 e.2.1 with
  | some σ' => rfl
  | none =>
    simp only [Option.bind_none]
    induction τ with
    | nil => rfl
    | cons e' τ ih => simpa using ih

theorem pushAll_keys {τ σ σ' : Subst} (h : pushAll τ σ = some σ') :
    Subst.keys σ' = Subst.keys σ := by
  induction τ generalizing σ with
  | nil => cases h; rfl
  | cons e τ ih =>
    rw [pushAll_cons] at h
    simp only [Option.bind_eq_some_iff] at h
    obtain ⟨σ1, h1, h2⟩ := h
    rw [ih h2, Subst.push?_keys h1]

theorem pushAll_isSome {τ σ : Subst} (h : ∀ k ∈ Subst.keys τ, k ∈ Subst.keys σ) :
    ∃ σ', pushAll τ σ = some σ' := by
  induction τ generalizing σ with
  | nil => exact ⟨_, rfl⟩
  | cons e τ ih =>
    rw [pushAll_cons]
    obtain ⟨σ1, h1⟩ := Subst.push?_isSome (σ := σ) (v := e.1) (d := e.2.1) (h _ (by simp))
    rw [h1]
    simp only [Option.bind_some]
    apply ih
    intro k hk
    rw [Subst.push?_keys h1]
    exact h k (by simp [hk])

/-! ## The key-set invariant and absence of the `unwrap` panic -/

theorem Pat.vars_spine (lits : List String) (p : Pat) :
    p.vars lits = Pat.varsList lits p.spine.1 ++
      (match p.spine.2 with | some t => t.vars lits | none => []) := by
  fun_induction Pat.spine p with
  | case1 a d xs t h ih =>
    simp only [h] at ih
    simp [Pat.vars, Pat.varsList, ih]
  | case2 => simp [Pat.vars, Pat.varsList]
  | case3 p h1 h2 => simp [Pat.varsList]

/-- what a run of the matcher does to the keys of the table, `vs` being the variables of the
pattern(s): keys are only added, only variables of the pattern are added, and after a success all
of them are there -/
structure KInv (vs : List String) (σ : Subst) (b : Bool) (σ' : Subst) : Prop where
  mono : ∀ x ∈ Subst.keys σ, x ∈ Subst.keys σ'
  only : ∀ x ∈ Subst.keys σ', x ∈ Subst.keys σ ∨ x ∈ vs
  all : b = true → ∀ x ∈ vs, x ∈ Subst.keys σ'

theorem KInv.refl_nil {σ b} : KInv [] σ b σ := ⟨fun _ h => h, fun _ h => .inl h, fun _ _ h => by simp at h⟩

theorem KInv.fail {vs σ σ'} (h : KInv vs σ true σ') : KInv vs σ false σ' :=
  ⟨h.mono, h.only, fun h => by cases h⟩

theorem KInv.toFalse {vs σ b σ'} (h : KInv vs σ b σ') : KInv vs σ false σ' :=
  ⟨h.mono, h.only, fun h => by cases h⟩

theorem KInv.seq {vs1 vs2 σ σ1 b σ2} (h1 : KInv vs1 σ true σ1) (h2 : KInv vs2 σ1 b σ2) :
    KInv (vs1 ++ vs2) σ b σ2 := by
  refine ⟨fun x hx => h2.mono _ (h1.mono _ hx), fun x hx => ?_, fun hb x hx => ?_⟩
  · rcases h2.only x hx with h | h
    · rcases h1.only x h with h | h
      · exact .inl h
      · exact .inr (by simp [h])
    · exact .inr (by simp [h])
  · simp only [List.mem_append] at hx
    rcases hx with h | h
    · exact h2.mono _ (h1.all rfl _ h)
    · exact h2.all hb _ h

theorem KInv.weakenR {vs1 vs2 σ b σ1} (h1 : KInv vs1 σ b σ1) : KInv (vs1 ++ vs2) σ false σ1 :=
  ⟨h1.mono, fun x hx => (h1.only x hx).imp id (fun h => by simp [h]), fun h => by cases h⟩

theorem KInv.refl_false {vs σ} : KInv vs σ false σ :=
  ⟨fun _ h => h, fun _ h => .inl h, fun h => by cases h⟩

theorem KInv.trans {vs σ b1 σ1 b σ2} (h1 : KInv vs σ b1 σ1) (h2 : KInv vs σ1 b σ2) :
    KInv vs σ b σ2 :=
  ⟨fun x hx => h2.mono _ (h1.mono _ hx),
   fun x hx => (h2.only x hx).elim (fun h => h1.only x h) .inr,
   h2.all⟩

theorem KInv.of_keys_eq {vs σ σ0 b σ'} (h : KInv vs σ b σ') (hk : Subst.keys σ = Subst.keys σ0) :
    KInv vs σ0 b σ' :=
  ⟨fun x hx => h.mono _ (hk ▸ hx), fun x hx => hk ▸ h.only x hx, h.all⟩

theorem KInv.insert {σ : Subst} {v x} : KInv [v] σ true (σ.insert v x) :=
  ⟨fun k hk => Subst.mem_keys_insert.2 (.inr hk),
   fun k hk => (Subst.mem_keys_insert.1 hk).elim (fun h => .inr (by simp [h])) .inl,
   fun _ k hk => Subst.mem_keys_insert.2 (.inl (by simpa using hk))⟩

/-- the invariant of `multi_matches`: its variables are keys of the table -/
def MMInv (lits : List String) (mm : Option Pat) (σ : Subst) : Prop :=
  ∀ mp, mm = some mp → ∀ x ∈ mp.vars lits, x ∈ Subst.keys σ

theorem match_keys_aux (lits : List String) : ∀ n,
    (∀ p d σ, (∀ s l, matchDatum n lits p d σ ≠ .error (.panic s, l)) ∧
      (∀ b σ', matchDatum n lits p d σ = .ok (b, σ') → KInv (p.vars lits) σ b σ')) ∧
    (∀ ps ds mm σ, MMInv lits mm σ →
      (∀ s l, matchStream n lits ps ds mm σ ≠ .error (.panic s, l)) ∧
      (∀ b σ', matchStream n lits ps ds mm σ = .ok (b, σ') →
        KInv (Pat.varsList lits ps) σ b σ')) := by
  intro n
  induction n with
  | zero => simp
  | succ n ih =>
    obtain ⟨ihD, ihS⟩ := ih
    have mmNone : ∀ σ, MMInv lits none σ := fun σ mp h => by cases h
    constructor
    · intro p d σ
      cases hp : p.isListy
      · cases p <;> simp [Pat.isListy] at hp
        · simp [Pat.vars]; exact KInv.refl_nil
        · simp [Pat.vars]; exact KInv.refl_nil
        · rw [matchDatum_vec]
          cases d <;> simp [Pat.vars] <;> try exact KInv.refl_false
          rename_i ps ds loc
          have := ihS ps ds none σ (mmNone σ)
          simpa using this
        · rename_i v
          rw [matchDatum_ident]
          cases hv : lits.contains v
          · simp only [Pat.vars, hv, Bool.false_eq_true, if_false]
            refine ⟨by simp, fun b σ' h => ?_⟩
            cases h; exact KInv.insert
          · simp only [Pat.vars, hv, if_true]
            refine ⟨by simp, fun b σ' h => ?_⟩
            cases h; exact KInv.refl_nil
        · rw [matchDatum_prim]; simp [Pat.vars]; exact KInv.refl_nil
      · cases hd : d.isListy
        · rw [matchDatum_listy_atom hp hd]; simp; exact KInv.refl_false
        · rw [matchDatum_listy hp hd, Pat.vars_spine]
          obtain ⟨np, kp⟩ := ihS p.spine.1 d.spine.1 none σ (mmNone σ)
          split
          · rename_i e he
            refine ⟨fun s l h => ?_, fun b σ' h => by cases h⟩
            cases h; exact np _ _ he
          · rename_i σ1 he
            refine ⟨fun s l h => (by cases h), fun b σ' h => ?_⟩
            cases h; exact (kp _ _ he).weakenR
          · rename_i σ1 he
            have k1 := kp _ _ he
            split
            · rename_i lp ld hlp hld
              obtain ⟨np2, kp2⟩ := ihD lp ld σ1
              simp only [hlp]
              exact ⟨np2, fun b σ' h => k1.seq (kp2 _ _ h)⟩
            · rename_i hlp hld
              refine ⟨fun s l h => (by cases h), fun b σ' h => ?_⟩
              cases h; simpa [hlp] using k1
            · refine ⟨fun s l h => (by cases h), fun b σ' h => ?_⟩
              cases h; exact k1.weakenR
    · intro ps ds mm σ hmm
      cases ps with
      | nil => cases ds <;> simp [Pat.varsList] <;> first | exact KInv.refl_nil | exact KInv.refl_false
      | cons p ps =>
        cases ds with
        | nil =>
          cases hp : p.isEllipsis
          · rw [matchStream_cons_nil_ne hp]; simp; exact KInv.refl_false
          · cases p <;> simp [Pat.isEllipsis] at hp
            cases mm with
            | none => simp; exact KInv.refl_false
            | some mp =>
              rw [matchStream_ell_nil_some]
              simpa [Pat.varsList, Pat.vars] using ihS ps [] (some mp) σ hmm
        | cons d ds =>
          cases hp : p.isEllipsis
          · rw [matchStream_step_ne hp]
            obtain ⟨np, kp⟩ := ihD p d σ
            simp only [Pat.varsList]
            split
            · rename_i e he
              refine ⟨fun s l h => ?_, fun b σ' h => by cases h⟩
              cases h; exact np _ _ he
            · rename_i σ1 he
              refine ⟨fun s l h => (by cases h), fun b σ' h => ?_⟩
              cases h; exact (kp _ _ he).weakenR
            · rename_i σ1 he
              have k1 := kp _ _ he
              have hmm' : MMInv lits (nextMM lits p) σ1 := by
                intro mp hmp
                have : mp = p := by
                  unfold nextMM at hmp
                  split at hmp
                  · split at hmp <;> simp_all
                  · simp_all
                subst this
                exact k1.all rfl
              obtain ⟨np2, kp2⟩ := ihS ps ds (nextMM lits p) σ1 hmm'
              exact ⟨np2, fun b σ' h => k1.seq (kp2 _ _ h)⟩
          · cases p <;> simp [Pat.isEllipsis] at hp
            cases n with
            | zero => rw [matchStream_ell_one]; simp
            | succ n =>
              cases mm with
              | none => rw [matchStream_ell_none]; simp
              | some mp =>
                rw [matchStream_step_ell]
                obtain ⟨np, kp⟩ := ihD mp d []
                have hvl : Pat.varsList lits (Pat.ellipsis :: ps) = Pat.varsList lits ps := by
                  simp [Pat.varsList, Pat.vars]
                split
                · rename_i e he
                  refine ⟨fun s l h => ?_, fun b σ' h => by cases h⟩
                  cases h; exact np _ _ he
                · refine ⟨fun s l h => (by cases h), fun b σ' h => ?_⟩
                  cases h; exact KInv.refl_false
                · rename_i τ he
                  have kτ := kp _ _ he
                  have hsub : ∀ k ∈ Subst.keys τ, k ∈ Subst.keys σ := by
                    intro k hk
                    rcases kτ.only k hk with h | h
                    · simp at h
                    · exact hmm mp rfl k h
                  obtain ⟨σ2, hσ2⟩ := pushAll_isSome hsub
                  have hk2 := pushAll_keys hσ2
                  rw [hσ2]
                  simp only []
                  have hmm2 : MMInv lits (some mp) σ2 := by
                    intro mp' h x hx; rw [hk2]; exact hmm mp' h x hx
                  obtain ⟨np2, kp2⟩ := ihS (Pat.ellipsis :: ps) ds (some mp) σ2 hmm2
                  split
                  · rename_i e he2
                    refine ⟨fun s l h => ?_, fun b σ' h => by cases h⟩
                    cases h; exact np2 _ _ he2
                  · rename_i σ3 he2
                    refine ⟨fun s l h => (by cases h), fun b σ' h => ?_⟩
                    cases h; exact (kp2 _ _ he2).of_keys_eq hk2
                  · rename_i σ3 he2
                    have k3 := (kp2 _ _ he2).of_keys_eq hk2
                    rw [hvl] at k3 ⊢
                    have hmm3 : MMInv lits (some mp) σ3 := by
                      intro mp' h x hx; exact k3.mono _ (hmm mp' h x hx)
                    obtain ⟨np3, kp3⟩ := ihS ps ds (some mp) σ3 hmm3
                    exact ⟨np3, fun b σ' h => k3.trans (kp3 _ _ h)⟩

/-- **no `unwrap` panic**, for all patterns, data, literals, tables and fuel -/
theorem matchDatum_no_panic {lits n p d σ s l} :
    matchDatum n lits p d σ ≠ .error (.panic s, l) :=
  ((match_keys_aux lits n).1 p d σ).1 s l

theorem matchDatum_keys {lits n p d σ b σ'} (h : matchDatum n lits p d σ = .ok (b, σ')) :
    KInv (p.vars lits) σ b σ' :=
  ((match_keys_aux lits n).1 p d σ).2 b σ' h

theorem matchStream_no_panic {lits n ps ds mm σ s l} (h : MMInv lits mm σ) :
    matchStream n lits ps ds mm σ ≠ .error (.panic s, l) :=
  ((match_keys_aux lits n).2 ps ds mm σ h).1 s l

end Ruschm.Macro

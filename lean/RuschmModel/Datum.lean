/-
Tokens and data: `src/parser/lexer.rs` (`TokenData`), `src/parser/datum.rs` (`Primitive`,
`DatumBody`, `Datum = Located<DatumBody>`), `src/parser/pair.rs` (`GenericPair`).
-/
import RuschmModel.Proto
namespace Ruschm

/-- `Primitive`. A rational literal is `(i32, u32)`; a real literal keeps its source text and is
converted when evaluated. -/
inductive Prim where
  | str (s : String)
  | chr (c : Char)
  | bool (b : Bool)
  | int (i : Int)
  | rat (n : Int) (d : Nat)
  | real (text : String)
  deriving DecidableEq, Repr, Inhabited

/-- `TokenData` -/
inductive Token where
  | ident (s : String)
  | prim (p : Prim)
  | lparen | rparen
  | vecIntro        -- `#(`
  | byteVecIntro    -- `#u8(`
  | quote | quasiquote | unquote | unquoteSplicing
  | period
  deriving DecidableEq, Repr, Inhabited

/-- a token with the lexer's cursor after its last character -/
structure LToken where
  tok : Token
  loc : Loc
  deriving DecidableEq, Repr, Inhabited

/-- `Datum`. `pair car cdr loc` is `Located{Pair(Some(car, cdr)), loc}` and `nil loc` is
`Located{Pair(Empty), loc}`; the location is part of the node as in Rust, and Rust's `==` on data
ignores it (`Datum.beq` below). -/
inductive Datum where
  | prim (p : Prim) (loc : Loc)
  | sym (s : String) (loc : Loc)
  | pair (car cdr : Datum) (loc : Loc)
  | nil (loc : Loc)
  | vec (xs : List Datum) (loc : Loc)
  deriving Repr, Inhabited

namespace Datum

def loc : Datum → Loc
  | prim _ l | sym _ l | pair _ _ l | nil l | vec _ l => l

def withLoc (l : Loc) : Datum → Datum
  | prim p _ => prim p l | sym s _ => sym s l | pair a d _ => pair a d l | nil _ => nil l
  | vec xs _ => vec xs l

mutual
/-- erase every location -/
def strip : Datum → Datum
  | prim p _ => prim p none
  | sym s _ => sym s none
  | pair a d _ => pair a.strip d.strip none
  | nil _ => nil none
  | vec xs _ => vec (stripList xs) none
def stripList : List Datum → List Datum
  | [] => []
  | x :: xs => x.strip :: stripList xs
end

mutual
/-- `PartialEq for Located<DatumBody>`: structural, ignoring locations -/
def beq : Datum → Datum → Bool
  | prim p _, prim q _ => p == q
  | sym s _, sym t _ => s == t
  | pair a d _, pair a' d' _ => beq a a' && beq d d'
  | nil _, nil _ => true
  | vec xs _, vec ys _ => beqList xs ys
  | _, _ => false
def beqList : List Datum → List Datum → Bool
  | [], [] => true
  | x :: xs, y :: ys => beq x y && beqList xs ys
  | _, _ => false
end

mutual
/-- number of nodes -/
def size : Datum → Nat
  | prim _ _ | sym _ _ | nil _ => 1
  | pair a d _ => a.size + d.size + 1
  | vec xs _ => sizeList xs + 1
def sizeList : List Datum → Nat
  | [] => 0
  | x :: xs => x.size + sizeList xs
end

/-- proper list of data (locations of the spine are `none`, as `From<DatumList> for Datum`;
the head gets `l`) -/
def ofList (l : Loc) : List Datum → Datum
  | [] => nil l
  | x :: xs => pair x (ofList none xs) l

/-- `GenericPair::iter` / `into_iter`: the cars, and the improper tail if there is one
(`IntoIter` delivers the improper tail as a last element, `iter()` drops it). -/
def spine : Datum → List Datum × Option Datum
  | pair a d _ =>
    let (xs, t) := spine d
    (a :: xs, t)
  | nil _ => ([], none)
  | other => ([], some other)

/-- elements as `into_iter()` yields them: cars, then the improper tail if any -/
def elems (d : Datum) : List Datum :=
  match spine d with
  | (xs, none) => xs
  | (xs, some t) => xs ++ [t]

end Datum

namespace Proto

def canonPrim : Prim → String
  | .str s => "s:\"" ++ esc s ++ "\""
  | .chr c => "c:" ++ toString c.toNat
  | .bool true => "#t"
  | .bool false => "#f"
  | .int i => "i:" ++ toString i
  | .rat n d => "q:" ++ toString n ++ "/" ++ toString d
  | .real t => "R:" ++ esc t

def canonToken : Token → String
  | .ident s => "y:" ++ esc s
  | .prim p => canonPrim p
  | .lparen => "(" | .rparen => ")" | .vecIntro => "#(" | .byteVecIntro => "#u8("
  | .quote => "'" | .quasiquote => "`" | .unquote => "," | .unquoteSplicing => ",@"
  | .period => "."

def canonLoc : Loc → String
  | some (l, c) => toString l ++ ":" ++ toString c
  | none => "-"

mutual
def canonDatum : Datum → String
  | .prim p _ => canonPrim p
  | .sym s _ => "y:" ++ esc s
  | .nil _ => "()"
  | .vec xs _ => "#(" ++ canonDatums xs ++ ")"
  | .pair a d _ => "(" ++ canonDatum a ++ canonTail d ++ ")"
def canonTail : Datum → String
  | .nil _ => ""
  | .pair a d _ => " " ++ canonDatum a ++ canonTail d
  | other => " . " ++ canonDatum other
def canonDatums : List Datum → String
  | [] => ""
  | [x] => canonDatum x
  | x :: xs => canonDatum x ++ " " ++ canonDatums xs
end

end Proto
end Ruschm

/-
Helper lemmas for property C15 (error locations): which positions occur in the data and code the
pipeline builds (`RuschmSpec/Loc.lean`), stage by stage.
-/
import RuschmSpec.Loc
import RuschmProofs.StoreLemmas
import RuschmProofs.MacroLemmas
import RuschmProofs.LexLemmas

namespace Ruschm

/-! ## data -/

theorem Datum.loc_subset (d : Datum) : d.loc.toList ⊆ d.locs := by
  cases d <;> simp [Datum.loc, Datum.locs]

theorem Datum.locs_withLoc (d : Datum) (l : Loc) : (d.withLoc l).locs ⊆ l.toList ++ d.locs := by
  cases d <;> simp [Datum.withLoc, Datum.locs] <;> grind

theorem Datum.locsList_append (xs ys : List Datum) :
    Datum.locsList (xs ++ ys) = Datum.locsList xs ++ Datum.locsList ys := by
  induction xs with
  | nil => simp [Datum.locsList]
  | cons x xs ih => simp [Datum.locsList, ih]

theorem Datum.locs_subset_locsList {x : Datum} {xs : List Datum} (h : x ∈ xs) :
    x.locs ⊆ Datum.locsList xs := by
  induction xs with
  | nil => cases h
  | cons y ys ih =>
    simp only [Datum.locsList]
    rcases List.mem_cons.1 h with rfl | h
    · exact List.subset_append_left _ _
    · exact (ih h).trans (List.subset_append_right _ _)

theorem Datum.locsList_subset {xs : List Datum} {T : List Pos} :
    Datum.locsList xs ⊆ T ↔ ∀ x ∈ xs, x.locs ⊆ T := by
  induction xs with
  | nil => simp [Datum.locsList]
  | cons y ys ih => simp [Datum.locsList, ih]

theorem Datum.locs_ofList (l : Loc) (xs : List Datum) :
    (Datum.ofList l xs).locs = l.toList ++ Datum.locsList xs := by
  induction xs generalizing l with
  | nil => simp [Datum.ofList, Datum.locs, Datum.locsList]
  | cons x xs ih => simp [Datum.ofList, Datum.locs, Datum.locsList, ih]

theorem Datum.spine_locs : ∀ (d : Datum),
    (∀ x ∈ d.spine.1, x.locs ⊆ d.locs) ∧ (∀ t, d.spine.2 = some t → t.locs ⊆ d.locs)
  | .pair a d l => by
    have ih := Datum.spine_locs d
    simp only [Datum.spine, Datum.locs]
    refine ⟨fun x hx => ?_, fun t ht => ?_⟩
    · rcases List.mem_cons.1 hx with rfl | hx
      · intro p hp; simp [hp]
      · intro p hp; have := ih.1 x hx hp; simp [this]
    · intro p hp; have := ih.2 t ht hp; simp [this]
  | .nil _ => by simp [Datum.spine]
  | .prim _ _ => by simp [Datum.spine]
  | .sym _ _ => by simp [Datum.spine]
  | .vec _ _ => by simp [Datum.spine]

theorem Datum.elems_locs {d x : Datum} (h : x ∈ d.elems) : x.locs ⊆ d.locs := by
  have hs := Datum.spine_locs d
  unfold Datum.elems at h
  split at h
  · rename_i xs he; rw [he] at hs; exact hs.1 x h
  · rename_i xs t he; rw [he] at hs
    rcases List.mem_append.1 h with h | h
    · exact hs.1 x h
    · simp only [List.mem_singleton] at h; subst h; exact hs.2 _ rfl

/-! ## macro expansion -/

namespace Macro

/-- every datum bound in the substitution table has its positions in `T` -/
def SubstIn (T : List Pos) (σ : Subst) : Prop :=
  ∀ e ∈ σ, e.2.1.locs ⊆ T ∧ ∀ m ∈ e.2.2, m.locs ⊆ T

theorem SubstIn.nil (T : List Pos) : SubstIn T [] := by simp [SubstIn]

theorem SubstIn.insert {T : List Pos} {σ : Subst} (h : SubstIn T σ) (v : String) {d : Datum}
    (hd : d.locs ⊆ T) : SubstIn T (σ.insert v (d, [])) := by
  induction σ with
  | nil => simp [Subst.insert, SubstIn, hd]
  | cons e rest ih =>
    obtain ⟨k, y⟩ := e
    simp only [Subst.insert]
    have hr : SubstIn T rest := fun e he => h e (List.mem_cons_of_mem _ he)
    split
    · intro e he
      rcases List.mem_cons.1 he with rfl | he
      · simp [hd]
      · exact hr e he
    · intro e he
      rcases List.mem_cons.1 he with rfl | he
      · exact h _ (List.mem_cons_self ..)
      · exact ih hr e he

theorem SubstIn.push {T : List Pos} {σ σ' : Subst} (h : SubstIn T σ) {v : String} {d : Datum}
    (hd : d.locs ⊆ T) (hp : σ.push? v d = some σ') : SubstIn T σ' := by
  induction σ generalizing σ' with
  | nil => simp [Subst.push?] at hp
  | cons e rest ih =>
    obtain ⟨k, f, more⟩ := e
    have hr : SubstIn T rest := fun e he => h e (List.mem_cons_of_mem _ he)
    have h0 := h _ (List.mem_cons_self ..)
    simp only [Subst.push?] at hp
    split at hp
    · cases hp
      intro e he
      rcases List.mem_cons.1 he with rfl | he
      · refine ⟨h0.1, fun m hm => ?_⟩
        rcases List.mem_append.1 hm with hm | hm
        · exact h0.2 m hm
        · simp only [List.mem_singleton] at hm; subst hm; exact hd
      · exact hr e he
    · cases hq : Subst.push? rest v d with
      | none => simp [hq] at hp
      | some r =>
        simp only [hq, Option.map_some, Option.some.injEq] at hp
        subst hp
        intro e he
        rcases List.mem_cons.1 he with rfl | he
        · exact h0
        · exact ih hr hq e he

theorem SubstIn.pushAll {T : List Pos} {τ : Subst} (hτ : SubstIn T τ) :
    ∀ {acc : Option Subst} {σ' : Subst}, (∀ s, acc = some s → SubstIn T s) →
      τ.foldl (fun acc (x : String × Datum × List Datum) =>
        acc.bind (fun s => Subst.push? s x.1 x.2.1)) acc = some σ' → SubstIn T σ' := by
  induction τ with
  | nil => intro acc σ' ha h; exact ha _ h
  | cons e rest ih =>
    intro acc σ' ha h
    simp only [List.foldl_cons] at h
    refine ih (fun e he => hτ e (List.mem_cons_of_mem _ he)) ?_ h
    intro s hs
    cases acc with
    | none => simp at hs
    | some a =>
      simp only [Option.bind_some] at hs
      exact (ha a rfl).push (hτ e (List.mem_cons_self ..)).1 hs

theorem SubstIn.get {T : List Pos} {σ : Subst} (h : SubstIn T σ) {v : String} {x : Datum × List Datum}
    (hg : σ.get? v = some x) : x.1.locs ⊆ T ∧ ∀ m ∈ x.2, m.locs ⊆ T := by
  induction σ with
  | nil => simp [Subst.get?] at hg
  | cons e rest ih =>
    obtain ⟨k, y⟩ := e
    simp only [Subst.get?] at hg
    split at hg
    · cases hg; exact h _ (List.mem_cons_self ..)
    · exact ih (fun e he => h e (List.mem_cons_of_mem _ he)) hg

/-- matching only ever binds sub-data of the datum matched -/
theorem match_locs_aux (T : List Pos) (lits : List String) : ∀ n,
    (∀ p d σ r, matchDatum n lits p d σ = .ok r → d.locs ⊆ T → SubstIn T σ → SubstIn T r.2) ∧
    (∀ ps ds mm σ r, matchStream n lits ps ds mm σ = .ok r → (∀ d ∈ ds, d.locs ⊆ T) → SubstIn T σ →
      SubstIn T r.2) := by
  intro n
  induction n with
  | zero => constructor <;> intros <;> simp_all
  | succ n ih =>
    obtain ⟨ihD, ihS⟩ := ih
    constructor
    · intro p d σ r h hd hσ
      cases hp : p.isListy
      · cases p <;> simp [Pat.isListy] at hp
        · simp at h; subst h; exact hσ
        · simp at h; subst h; exact hσ
        · rw [matchDatum_vec] at h
          cases d <;> simp at h <;> try (subst h; exact hσ)
          rename_i ps ds loc
          refine ihS _ _ _ _ _ h (fun x hx => ?_) hσ
          simp only [Datum.locs] at hd
          exact (Datum.locs_subset_locsList hx).trans
            ((List.subset_append_right _ _).trans hd)
        · rename_i v
          rw [matchDatum_ident] at h
          split at h <;> cases h
          · exact hσ
          · exact hσ.insert v hd
        · rw [matchDatum_prim] at h; cases h; exact hσ
      · cases hdl : d.isListy
        · rw [matchDatum_listy_atom hp hdl] at h; cases h; exact hσ
        · rw [matchDatum_listy hp hdl] at h
          have hsp := Datum.spine_locs d
          have h1 := ihS p.spine.1 d.spine.1 none σ
          split at h
          · cases h
          · rename_i σ1 he; cases h
            exact h1 _ he (fun x hx => (hsp.1 x hx).trans hd) hσ
          · rename_i σ1 he
            have hσ1 := h1 _ he (fun x hx => (hsp.1 x hx).trans hd) hσ
            split at h
            · rename_i lp ld hlp hld
              exact ihD _ _ _ _ h ((hsp.2 _ hld).trans hd) hσ1
            · cases h; exact hσ1
            · cases h; exact hσ1
    · intro ps ds mm σ r h hds hσ
      cases ps with
      | nil => cases ds <;> simp at h <;> subst h <;> exact hσ
      | cons p ps =>
        cases ds with
        | nil =>
          cases hp : p.isEllipsis
          · rw [matchStream_cons_nil_ne hp] at h; cases h; exact hσ
          · cases p <;> simp [Pat.isEllipsis] at hp
            cases mm with
            | none => simp at h; subst h; exact hσ
            | some mp =>
              rw [matchStream_ell_nil_some] at h
              exact ihS _ _ _ _ _ h hds hσ
        | cons d ds =>
          have hd : d.locs ⊆ T := hds d (List.mem_cons_self ..)
          have hds' : ∀ x ∈ ds, x.locs ⊆ T := fun x hx => hds x (List.mem_cons_of_mem _ hx)
          cases hp : p.isEllipsis
          · rw [matchStream_step_ne hp] at h
            split at h
            · cases h
            · rename_i σ1 he; cases h; exact ihD _ _ _ _ he hd hσ
            · rename_i σ1 he
              exact ihS _ _ _ _ _ h hds' (ihD _ _ _ _ he hd hσ)
          · cases p <;> simp [Pat.isEllipsis] at hp
            cases n with
            | zero => rw [matchStream_ell_one] at h; cases h
            | succ n =>
              cases mm with
              | none => rw [matchStream_ell_none] at h; cases h
              | some mp =>
                rw [matchStream_step_ell] at h
                split at h
                · cases h
                · cases h; exact hσ
                · rename_i τ he
                  have hτ := ihD _ _ _ _ he hd (SubstIn.nil T)
                  split at h
                  · cases h
                  · rename_i σ2 hpush
                    have hσ2 : SubstIn T σ2 :=
                      SubstIn.pushAll hτ (fun s hs => by cases hs; exact hσ) hpush
                    split at h
                    · cases h
                    · rename_i σ3 he2; cases h; exact ihS _ _ _ _ _ he2 hds' hσ2
                    · rename_i σ3 he2
                      exact ihS _ _ _ _ _ h hds' (ihS _ _ _ _ _ he2 hds' hσ2)

/-- `match_bindings_locs`: the bindings `matchDatum` produces are sub-data of the datum matched -/
theorem matchDatum_locs {T : List Pos} {n lits p d σ b σ'} (h : matchDatum n lits p d σ = .ok (b, σ'))
    (hd : d.locs ⊆ T) (hσ : SubstIn T σ) : SubstIn T σ' :=
  (match_locs_aux T lits n).1 p d σ _ h hd hσ

/-! ### instantiating a template -/

theorem locs_ofList_subset {T : List Pos} {loc : Loc} {ds : List Datum} (hl : loc.toList ⊆ T)
    (hd : Datum.locsList ds ⊆ T) : (Datum.ofList loc ds).locs ⊆ T := by
  rw [Datum.locs_ofList]; exact List.append_subset.2 ⟨hl, hd⟩

theorem locs_vec_subset {T : List Pos} {loc : Loc} {ds : List Datum} (hl : loc.toList ⊆ T)
    (hd : Datum.locsList ds ⊆ T) : (Datum.vec ds loc).locs ⊆ T := by
  rw [Datum.locs]; exact List.append_subset.2 ⟨hl, hd⟩

mutual
theorem substItem_locs {T : List Pos} : ∀ (t : Tmpl) (σ : Subst) (i : Nat) (loc : Loc) (d : Datum),
    SubstIn T σ → loc.toList ⊆ T → substItem t σ i loc = some d → d.locs ⊆ T
  | .list es, σ, i, loc, d, hσ, hl, h => by
    rw [substItem] at h
    cases hs : substItems es σ i loc with
    | none => simp [hs] at h
    | some ds =>
      simp only [hs, Option.map_some, Option.some.injEq] at h; subst h
      exact locs_ofList_subset hl (substItems_locs es σ i loc ds hσ hl hs)
  | .vec es, σ, i, loc, d, hσ, hl, h => by
    rw [substItem] at h
    cases hs : substItems es σ i loc with
    | none => simp [hs] at h
    | some ds =>
      simp only [hs, Option.map_some, Option.some.injEq] at h; subst h
      exact locs_vec_subset hl (substItems_locs es σ i loc ds hσ hl hs)
  | .ident v, σ, i, loc, d, hσ, hl, h => by
    rw [substItem] at h
    split at h
    · rename_i f more hg
      split at h
      · cases h
      · exact (hσ.get hg).2 d (List.mem_of_getElem? h)
    · cases h; simpa [Datum.locs] using hl
  | .prim p, σ, i, loc, d, hσ, hl, h => by
    rw [substItem] at h; cases h; simpa [Datum.locs] using hl
theorem substItems_locs {T : List Pos} : ∀ (es : List (Tmpl × Bool)) (σ : Subst) (i : Nat) (loc : Loc)
    (ds : List Datum), SubstIn T σ → loc.toList ⊆ T → substItems es σ i loc = some ds →
    Datum.locsList ds ⊆ T
  | [], σ, i, loc, ds, hσ, hl, h => by
    rw [substItems] at h; cases h; simp [Datum.locsList]
  | (t, b) :: rest, σ, i, loc, ds, hσ, hl, h => by
    rw [substItems] at h
    split at h
    · cases h
    · rename_i d hd
      cases hs : substItems rest σ i loc with
      | none => simp [hs] at h
      | some r =>
        simp only [hs, Option.map_some, Option.some.injEq] at h; subst h
        simp only [Datum.locsList]
        exact List.append_subset.2 ⟨substItem_locs t σ i loc d hσ hl hd,
          substItems_locs rest σ i loc r hσ hl hs⟩
end

theorem substItemLoop_locs {T : List Pos} {t : Tmpl} {σ : Subst} {loc : Loc} (hσ : SubstIn T σ)
    (hl : loc.toList ⊆ T) : ∀ (fuel i : Nat) (ds : List Datum),
    substItemLoop fuel t σ i loc = some ds → Datum.locsList ds ⊆ T
  | 0, i, ds, h => by simp [substItemLoop] at h
  | fuel + 1, i, ds, h => by
    rw [substItemLoop] at h
    split at h
    · cases h; simp [Datum.locsList]
    · rename_i d hd
      cases hs : substItemLoop fuel t σ (i + 1) loc with
      | none => simp [hs] at h
      | some r =>
        simp only [hs, Option.map_some, Option.some.injEq] at h; subst h
        simp only [Datum.locsList]
        exact List.append_subset.2 ⟨substItem_locs t σ i loc d hσ hl hd,
          substItemLoop_locs hσ hl fuel (i + 1) r hs⟩

mutual
/-- `expansion_locs`: every position in an instantiated template is the position of the macro use
(`loc`) or a position inside a datum bound in the table -/
theorem subst_locs {T : List Pos} (fuel : Nat) : ∀ (t : Tmpl) (σ : Subst) (loc : Loc) (d : Datum),
    SubstIn T σ → loc.toList ⊆ T → subst fuel t σ loc = some d → d.locs ⊆ T
  | .list es, σ, loc, d, hσ, hl, h => by
    rw [subst] at h
    cases hs : substElems fuel es σ loc with
    | none => simp [hs] at h
    | some ds =>
      simp only [hs, Option.map_some, Option.some.injEq] at h; subst h
      exact locs_ofList_subset hl (substElems_locs fuel es σ loc ds hσ hl hs)
  | .vec es, σ, loc, d, hσ, hl, h => by
    rw [subst] at h
    cases hs : substElems fuel es σ loc with
    | none => simp [hs] at h
    | some ds =>
      simp only [hs, Option.map_some, Option.some.injEq] at h; subst h
      exact locs_vec_subset hl (substElems_locs fuel es σ loc ds hσ hl hs)
  | .ident v, σ, loc, d, hσ, hl, h => by
    rw [subst] at h
    split at h
    · rename_i f more hg; cases h; exact (hσ.get hg).1
    · cases h; simpa [Datum.locs] using hl
  | .prim p, σ, loc, d, hσ, hl, h => by
    rw [subst] at h; cases h; simpa [Datum.locs] using hl
theorem substElems_locs {T : List Pos} (fuel : Nat) : ∀ (es : List (Tmpl × Bool)) (σ : Subst) (loc : Loc)
    (ds : List Datum), SubstIn T σ → loc.toList ⊆ T → substElems fuel es σ loc = some ds →
    Datum.locsList ds ⊆ T
  | [], σ, loc, ds, hσ, hl, h => by
    rw [substElems] at h; cases h; simp [Datum.locsList]
  | (t, true) :: rest, σ, loc, ds, hσ, hl, h => by
    rw [substElems] at h
    split at h
    · rename_i first more r h1 h2 h3
      cases h
      simp only [Datum.locsList, Datum.locsList_append]
      exact List.append_subset.2 ⟨List.append_subset.2 ⟨subst_locs fuel t σ loc first hσ hl h1,
        substItemLoop_locs hσ hl fuel 0 more h2⟩, substElems_locs fuel rest σ loc r hσ hl h3⟩
    · cases h
  | (t, false) :: rest, σ, loc, ds, hσ, hl, h => by
    rw [substElems] at h
    split at h
    · rename_i d r h1 h3
      cases h
      simp only [Datum.locsList]
      exact List.append_subset.2 ⟨subst_locs fuel t σ loc d hσ hl h1,
        substElems_locs fuel rest σ loc r hσ hl h3⟩
    · cases h
end

/-- `transform_locs`: every position in the expansion of a macro use is a position of the use -/
theorem transformRules_locs {T : List Pos} {fuel : Nat} {lits : List String} {use : Datum}
    (hu : use.locs ⊆ T) : ∀ (rules : List (Pat × Tmpl)) (d : Datum),
    transformRules fuel lits rules use = .ok d → d.locs ⊆ T
  | [], d, h => by simp [transformRules] at h
  | (p, t) :: rest, d, h => by
    rw [transformRules] at h
    cases hm : matchDatum fuel lits p use [] with
    | error e => simp [hm, bind, Except.bind] at h
    | ok r =>
      obtain ⟨ok, σ⟩ := r
      simp only [hm, bind, Except.bind] at h
      have hσ : SubstIn T σ := matchDatum_locs hm hu (SubstIn.nil T)
      split at h
      · split at h
        · cases h
        · split at h
          · rename_i d' hs
            simp only [pure, Except.pure, Except.ok.injEq] at h; subst h
            exact subst_locs fuel t σ use.loc d' hσ ((Datum.loc_subset use).trans hu) hs
          · cases h
      · exact transformRules_locs hu rest d h

end Macro

/-! ## values and the store -/

/-- the code inside `v` has its positions in `T` -/
def VIn (T : List RPos) (v : Value) : Prop := v.rlocs ⊆ T

/-- the code stored in `σ` has its positions in `T` (`sIn_iff`: this is `σ.rlocs ⊆ T`) -/
structure SIn (T : List RPos) (σ : Store) : Prop where
  frame : ∀ (i : Nat) (f : Frame), σ.frames[i]? = some f → ∀ kv ∈ f.defs, VIn T kv.2
  cell : ∀ (i : Nat) (c : VecCell), σ.vecs[i]? = some c → ∀ v ∈ c.items, VIn T v

theorem sIn_iff {T : List RPos} {σ : Store} : SIn T σ ↔ σ.rlocs ⊆ T := by
  constructor
  · intro h x hx
    simp only [Store.rlocs, List.mem_append, List.mem_flatMap, Frame.rlocs, VecCell.rlocs] at hx
    rcases hx with ⟨f, hf, kv, hkv, hx⟩ | ⟨c, hc, v, hv, hx⟩
    · obtain ⟨i, hi, rfl⟩ := List.getElem_of_mem hf
      exact h.frame i _ (by simp at hi ⊢) kv hkv hx
    · obtain ⟨i, hi, rfl⟩ := List.getElem_of_mem hc
      exact h.cell i _ (by simp at hi ⊢) v hv hx
  · intro h
    constructor
    · intro i f hf kv hkv x hx
      apply h
      simp only [Store.rlocs, List.mem_append, List.mem_flatMap, Frame.rlocs]
      exact Or.inl ⟨f, by simpa using Array.mem_of_getElem? hf, kv, hkv, hx⟩
    · intro i c hc v hv x hx
      apply h
      simp only [Store.rlocs, List.mem_append, List.mem_flatMap, VecCell.rlocs]
      exact Or.inr ⟨c, by simpa using Array.mem_of_getElem? hc, v, hv, hx⟩

section store
variable {T : List RPos}

theorem SIn.of_eq {σ σ' : Store} (h : SIn T σ) (hf : σ'.frames = σ.frames) (hv : σ'.vecs = σ.vecs) :
    SIn T σ' := ⟨by rw [hf]; exact h.frame, by rw [hv]; exact h.cell⟩

theorem vIn_atom {v : Value} (h : v.rlocs = []) : VIn T v := by simp [VIn, h]
@[simp] theorem vIn_void : VIn T .void := vIn_atom rfl
@[simp] theorem vIn_nil : VIn T .nil := vIn_atom rfl
@[simp] theorem vIn_num {n} : VIn T (.num n) := vIn_atom rfl
@[simp] theorem vIn_bool {n} : VIn T (.bool n) := vIn_atom rfl
@[simp] theorem vIn_char {n} : VIn T (.char n) := vIn_atom rfl
@[simp] theorem vIn_str {n} : VIn T (.str n) := vIn_atom rfl
@[simp] theorem vIn_sym {n} : VIn T (.sym n) := vIn_atom rfl
@[simp] theorem vIn_vec {n} : VIn T (.vec n) := vIn_atom rfl
@[simp] theorem vIn_builtin {n} : VIn T (.builtin n) := vIn_atom rfl
@[simp] theorem vIn_transformer {n} : VIn T (.transformer n) := vIn_atom rfl
@[simp] theorem vIn_pair {a d : Value} : VIn T (.pair a d) ↔ VIn T a ∧ VIn T d := by
  simp [VIn, Value.rlocs]
@[simp] theorem vIn_closure {lam ρ} : VIn T (.closure lam ρ) ↔ lam.rlocs ⊆ T := by
  simp [VIn, Value.rlocs]

theorem vIn_ofList : ∀ {vs : List Value}, (∀ v ∈ vs, VIn T v) → VIn T (Value.ofList vs)
  | [], _ => by simp [Value.ofList]
  | v :: vs, h => by
    simp only [Value.ofList, vIn_pair]
    exact ⟨h v (by simp), vIn_ofList (fun x hx => h x (by simp [hx]))⟩

theorem vIn_elems : ∀ {v : Value}, VIn T v → ∀ x ∈ v.elems, VIn T x
  | .pair a d, h, x, hx => by
    simp only [vIn_pair] at h
    simp only [Value.elems, List.mem_cons] at hx
    rcases hx with rfl | hx
    · exact h.1
    · exact vIn_elems h.2 x hx
  | .nil, _, x, hx => by simp [Value.elems] at hx
  | .num _, h, x, hx | .bool _, h, x, hx | .char _, h, x, hx | .str _, h, x, hx | .sym _, h, x, hx
  | .closure _ _, h, x, hx | .builtin _, h, x, hx | .vec _, h, x, hx | .transformer _, h, x, hx
  | .void, h, x, hx => by
    simp only [Value.elems, List.mem_singleton] at hx; subst hx; exact h

theorem sIn_define {σ : Store} (h : SIn T σ) (ρ : Nat) (k : String) {v : Value} (hv : VIn T v) :
    SIn T (σ.define ρ k v) := by
  constructor
  · intro i f hf kv hkv
    rw [Store.define_frames_getElem?] at hf
    split at hf
    · cases hg : σ.frames[i]? with
      | none => simp [hg] at hf
      | some g =>
        simp only [hg, Option.map_some, Option.some.injEq] at hf
        subst hf
        rcases Store.mem_defsInsert hkv with rfl | hm
        · exact hv
        · exact h.frame i g hg kv hm
    · exact h.frame i f hf kv hkv
  · rw [Store.define_vecs]; exact h.cell

theorem sIn_set {σ σ' : Store} {ρ x v b} (hs : σ.set ρ x v = (b, σ')) (h : SIn T σ) (hv : VIn T v) :
    SIn T σ' := by
  unfold Store.set at hs
  split at hs <;> cases hs
  · exact sIn_define h _ _ hv
  · exact h

theorem sIn_newFrame {σ : Store} (h : SIn T σ) (p : Option Nat) : SIn T (σ.newFrame p).2 := by
  constructor
  · intro i f hf kv hkv
    simp only [Store.newFrame, Array.getElem?_push] at hf
    split at hf
    · cases hf; simp at hkv
    · exact h.frame i f hf kv hkv
  · exact h.cell

theorem sIn_allocVec {σ : Store} (h : SIn T σ) (m : Bool) {items : List Value}
    (hi : ∀ v ∈ items, VIn T v) : SIn T (σ.allocVec m items).2 := by
  constructor
  · exact h.frame
  · intro i c hc v hv
    simp only [Store.allocVec, Array.getElem?_push] at hc
    split at hc
    · cases hc; exact hi v hv
    · exact h.cell i c hc v hv

theorem sIn_lookup {σ : Store} (h : SIn T σ) {ρ : Nat} {s : String} {v : Value}
    (hl : σ.lookup ρ s = some v) : VIn T v := by
  rw [Store.lookup_eq_bind] at hl
  cases hr : σ.resolve ρ s with
  | none => simp [hr] at hl
  | some r =>
    simp only [hr, Option.bind_some, Store.binding] at hl
    cases hf : σ.frames[r]? with
    | none => simp [hf] at hl
    | some f =>
      simp only [hf] at hl
      exact h.frame r f hf (s, v) (Eval.mem_of_lookup hl)

theorem sIn_enter {σ : Store} : SIn T (Eval.enter σ) ↔ SIn T σ :=
  ⟨fun h => h.of_eq (σ' := σ) rfl rfl, fun h => h.of_eq rfl rfl⟩
theorem sIn_leave {σ : Store} : SIn T (Eval.leave σ) ↔ SIn T σ :=
  ⟨fun h => h.of_eq (σ' := σ) rfl rfl, fun h => h.of_eq rfl rfl⟩

theorem sIn_vsetStore {σ : Store} (h : SIn T σ) {id : Nat} {cell : VecCell} (hc : σ.vecs[id]? = some cell)
    (n : Nat) {obj : Value} (ho : VIn T obj) : SIn T (Prim.vsetStore σ id cell n obj) := by
  constructor
  · exact h.frame
  · intro j c hj v hv
    rw [Prim.vsetStore_vecs_getElem?] at hj
    split at hj
    · split at hj
      · cases hj
        rcases List.mem_or_eq_of_mem_set hv with hm | rfl
        · exact h.cell id cell hc v hm
        · exact ho
      · cases hj
    · exact h.cell j c hj v hv

end store

/-! ## the steps of the evaluator that are not part of the mutual block -/

section steps
variable {T : List RPos}
open Eval Prim

theorem evalPrim_vIn {p : Prim} {v : Value} (h : evalPrim p = .ok v) : VIn T v := by
  cases p <;> simp [evalPrim] at h <;> try (subst h; simp)
  rename_i n d
  cases hq : Num.exactRatio n d <;> simp [hq, Except.map] at h
  subst h; simp

theorem lift_err {α} {σ σ' : Store} {r : Except Err α} {k e} (h : lift σ r k = (.error e, σ')) : e.2 = none := by
  unfold lift at h; split at h <;> simp [ok, err] at h
  obtain ⟨rfl, -⟩ := h; rfl
theorem num1_err {σ σ' : Store} {args b f e} (h : num1 σ args b f = (.error e, σ')) : e.2 = none := by
  unfold num1 at h; repeat' split at h
  all_goals simp [ok, err, missing] at h
  all_goals (obtain ⟨rfl, -⟩ := h; rfl)
theorem num2_err {σ σ' : Store} {args b f e} (h : num2 σ args b f = (.error e, σ')) : e.2 = none := by
  unfold num2 at h; repeat' split at h
  all_goals simp [ok, err, missing] at h
  all_goals (obtain ⟨rfl, -⟩ := h; rfl)

/-- no native procedure reports a located error -/
theorem applyPure_err {σ σ' : Store} {b : Builtin} {args : List Value} {e}
    (h : applyPure σ b args = (.error e, σ')) : e.2 = none := by
  cases b <;> simp only [applyPure, realFn, realFn2] at h
  all_goals first
    | exact lift_err h
    | exact num1_err h
    | exact num2_err h
    | (repeat' split at h
       all_goals simp [ok, err, missing] at h
       all_goals (try (obtain ⟨rfl, -⟩ := h; rfl)))

/-- the native procedures: results and stored items are parts of the arguments or of the store -/
theorem applyPure_in {σ : Store} {b : Builtin} {args : List Value} {r σ'}
    (h : applyPure σ b args = (r, σ')) (hσ : SIn T σ) (ha : ∀ a ∈ args, VIn T a) :
    SIn T σ' ∧ (∀ v, r = .ok v → VIn T v) ∧ (∀ e, r = .error e → e.2 = none) := by
  refine ⟨?_, ?_, fun e he => applyPure_err (he ▸ h)⟩
  · by_cases h1 : b = .vector
    · subst h1
      rw [applyPure_vector] at h; cases h
      exact sIn_allocVec hσ _ ha
    by_cases h2 : b = .makeVector
    · subst h2
      rcases applyPure_makeVector_shape h with ⟨rfl, -⟩ | ⟨n, fill, rest, rfl, _, rfl, rfl⟩
      · exact hσ
      · refine sIn_allocVec hσ _ ?_
        intro v hv
        rw [List.mem_replicate] at hv
        rw [hv.2]; exact ha _ (by simp)
    by_cases h3 : b = .vectorSet
    · subst h3
      rcases applyPure_vectorSet_shape h with ⟨rfl, -⟩ | ⟨id, n, obj, rest, cell, rfl, hc, _, _, _, rfl, rfl⟩
      · exact hσ
      · exact sIn_vsetStore hσ hc _ (ha _ (by simp))
    have hf := applyPure_frames σ b args
    have hv := applyPure_vecs σ b args h1 h2 h3
    rw [h] at hf hv
    exact hσ.of_eq hf hv
  · intro v hv
    subst hv
    have h' : (applyPure σ b args).1 = .ok v := by rw [h]
    by_cases h1 : b = .vector
    · subst h1; rw [applyPure_vector] at h'; cases h'; simp
    by_cases h2 : b = .makeVector
    · subst h2
      rcases applyPure_makeVector_shape h with ⟨-, e, he⟩ | ⟨n, fill, rest, -, -, hr, -⟩
      · cases he
      · cases hr; simp
    cases b <;> simp at h1 h2 <;> simp only [applyPure] at h'
    all_goals first
      | (obtain ⟨a, rfl⟩ := lift_fst h'; simp; done)
      | (obtain ⟨a, rfl⟩ := num1_fst h'; simp; done)
      | (obtain ⟨a, rfl⟩ := num2_fst h'; simp; done)
      | (obtain ⟨a, rfl⟩ := realFn_fst h'; simp; done)
      | (obtain ⟨a, rfl⟩ := realFn2_fst h'; simp; done)
      | skip
    all_goals (repeat' split at h')
    all_goals (simp [ok, err, missing] at h')
    all_goals (try subst h')
    all_goals (try (simp; done))
    · have := ha _ (List.mem_cons_self ..); simp only [vIn_pair] at this; exact this.1
    · have := ha _ (List.mem_cons_self ..); simp only [vIn_pair] at this; exact this.2
    · simp only [vIn_pair]; exact ⟨ha _ (by simp), ha _ (by simp)⟩
    · rename_i cell hc _ _ x hx
      exact hσ.cell _ cell hc x (List.mem_of_getElem? hx)
    · exact ha _ (by simp)

/-- what a literal yields: a value without code, no located error, nothing but code-free vectors
added to the store -/
def LitIn (T : List RPos) (σ : Store) {α} (P : α → Prop) (res : Res α) : Prop :=
  (SIn T σ → SIn T res.2) ∧ (∀ v, res.1 = .ok v → P v) ∧ (∀ e, res.1 = .error e → e.2 = none)

mutual
theorem readLiteral_in : ∀ (d : Datum) (σ : Store),
    LitIn T σ (fun v => v.rlocs = []) (readLiteral σ d)
  | .prim p _, σ => by
    rw [readLiteral]
    split
    · rename_i v hp
      refine ⟨id, fun v' hv => ?_, by simp⟩
      cases hv
      have := evalPrim_vIn (T := []) hp
      simpa [VIn] using this
    · exact ⟨id, by simp, by simp⟩
  | .sym s _, σ => by rw [readLiteral]; exact ⟨id, by simp [Value.rlocs], by simp⟩
  | .nil _, σ => by rw [readLiteral]; exact ⟨id, by simp [Value.rlocs], by simp⟩
  | .pair a d _, σ => by
    rw [readLiteral]
    have ha := readLiteral_in a σ
    split
    · rename_i e σ₁ h₁
      rw [h₁] at ha
      exact ⟨ha.1, by simp, fun e' he => by cases he; exact ha.2.2 e rfl⟩
    · rename_i va σ₁ h₁
      rw [h₁] at ha
      have hd := readLiteral_in d σ₁
      split
      · rename_i e σ₂ h₂
        rw [h₂] at hd
        exact ⟨fun h => hd.1 (ha.1 h), by simp, fun e' he => by cases he; exact hd.2.2 e rfl⟩
      · rename_i vd σ₂ h₂
        rw [h₂] at hd
        refine ⟨fun h => hd.1 (ha.1 h), fun v hv => ?_, by simp⟩
        cases hv
        simp [Value.rlocs, ha.2.1 va rfl, hd.2.1 vd rfl]
  | .vec xs _, σ => by
    rw [readLiteral]
    have hx := readLiterals_in xs σ
    split
    · rename_i e σ₁ h₁
      rw [h₁] at hx
      exact ⟨hx.1, by simp, fun e' he => by cases he; exact hx.2.2 e rfl⟩
    · rename_i vs σ₁ h₁
      rw [h₁] at hx
      refine ⟨fun h => sIn_allocVec (hx.1 h) false (fun v hv => ?_), fun v hv => ?_, by simp⟩
      · exact vIn_atom (hx.2.1 vs rfl v hv)
      · cases hv; rfl
theorem readLiterals_in : ∀ (ds : List Datum) (σ : Store),
    LitIn T σ (fun vs => ∀ v ∈ vs, v.rlocs = []) (readLiterals σ ds)
  | [], σ => by rw [readLiterals]; exact ⟨id, by simp, by simp⟩
  | x :: xs, σ => by
    rw [readLiterals]
    have ha := readLiteral_in x σ
    split
    · rename_i e σ₁ h₁
      rw [h₁] at ha
      exact ⟨ha.1, by simp, fun e' he => by cases he; exact ha.2.2 e rfl⟩
    · rename_i va σ₁ h₁
      rw [h₁] at ha
      have hd := readLiterals_in xs σ₁
      split
      · rename_i e σ₂ h₂
        rw [h₂] at hd
        exact ⟨fun h => hd.1 (ha.1 h), by simp, fun e' he => by cases he; exact hd.2.2 e rfl⟩
      · rename_i vd σ₂ h₂
        rw [h₂] at hd
        refine ⟨fun h => hd.1 (ha.1 h), fun vs hv v hm => ?_, by simp⟩
        cases hv
        simp only [List.mem_cons] at hm
        rcases hm with rfl | hm
        · exact ha.2.1 _ rfl
        · exact hd.2.1 vd rfl v hm
end

theorem readLiteral_post {σ : Store} {d : Datum} {r σ'} (h : readLiteral σ d = (r, σ')) (hσ : SIn T σ) :
    SIn T σ' ∧ (∀ v, r = .ok v → VIn T v) ∧ (∀ e, r = .error e → e.2 = none) := by
  have := readLiteral_in (T := T) d σ
  rw [h] at this
  exact ⟨this.1 hσ, fun v hv => vIn_atom (this.2.1 v hv), this.2.2⟩

theorem bindFixed_in : ∀ (names : List String) (args : List Value) (σ : Store) (ρ : Nat) {r σ'},
    bindFixed σ ρ names args = (r, σ') → SIn T σ → (∀ a ∈ args, VIn T a) →
    SIn T σ' ∧ ∀ rest, r = .ok rest → ∀ a ∈ rest, VIn T a
  | [], args, σ, ρ, r, σ', h, hσ, ha => by
    rw [bindFixed] at h; cases h; exact ⟨hσ, fun rest hr => by cases hr; exact ha⟩
  | _ :: _, [], σ, ρ, r, σ', h, hσ, ha => by
    rw [bindFixed] at h; cases h; exact ⟨hσ, by simp⟩
  | f :: fs, a :: as, σ, ρ, r, σ', h, hσ, ha => by
    rw [bindFixed] at h
    exact bindFixed_in fs as _ ρ h (sIn_define hσ ρ f (ha a (by simp))) (fun x hx => ha x (by simp [hx]))

theorem spreadApply_in {args args' : List Value} {f : Value} (h : spreadApply args = .ok (f, args'))
    (ha : ∀ a ∈ args, VIn T a) : VIn T f ∧ ∀ a ∈ args', VIn T a := by
  unfold spreadApply at h
  split at h
  · cases h
  · rename_i f' rest
    split at h
    · cases h
    · split at h
      · cases h
        exact ⟨ha _ (by simp), by simp⟩
      · rename_i last hl
        have hlast : last ∈ rest := List.mem_of_getLast? hl
        have hal : VIn T last := ha _ (by simp [hlast])
        split at h
        · cases h
          refine ⟨ha _ (by simp), fun a hm => ?_⟩
          rcases List.mem_append.1 hm with hm | hm
          · exact ha _ (List.mem_cons_of_mem _ (List.dropLast_subset _ hm))
          · exact vIn_elems hal a hm
        · cases h
          refine ⟨ha _ (by simp), fun a hm => ?_⟩
          rcases List.mem_append.1 hm with hm | hm
          · exact ha _ (List.mem_cons_of_mem _ (List.dropLast_subset _ hm))
          · exact vIn_elems hal a hm
        · cases h

end steps

/-! ## the evaluator: induction on fuel -/

namespace EvalLoc
open Eval
variable {T : List RPos}

/-- what a located error of the evaluator is: an unbound variable at the position of an identifier,
or a non-procedure at the position of an operator -/
def ErrOK (T : List RPos) (e : SErr) : Prop :=
  ∀ l, e.2 = some l →
    (e.1 = .unbound ∧ (Role.ident, l) ∈ T) ∨ (e.1 = .nonProcedure ∧ (Role.operator, l) ∈ T)

theorem errOK_none (k : Err) : ErrOK T (k, none) := by intro l h; cases h
theorem errOK_of_none {e : SErr} (h : e.2 = none) : ErrOK T e := by intro l h'; rw [h] at h'; cases h'
theorem errOK_unbound {loc : Loc} (h : loc.as .ident ⊆ T) : ErrOK T (.unbound, loc) := by
  intro l hl; simp only at hl; subst hl
  exact Or.inl ⟨rfl, h (by simp [Loc.as])⟩
theorem errOK_nonproc {loc : Loc} (h : loc.as .operator ⊆ T) : ErrOK T (.nonProcedure, loc) := by
  intro l hl; simp only at hl; subst hl
  exact Or.inr ⟨rfl, h (by simp [Loc.as])⟩

/-- the code a tail result carries -/
def TIn (T : List RPos) : TailRes → Prop
  | .value v => VIn T v
  | .tailCall f args _ => f.loc.as .operator ⊆ T ∧ f.rlocs ⊆ T ∧ Expr.rlocsList args ⊆ T

theorem tIn_value {v} : TIn T (.value v) ↔ VIn T v := Iff.rfl
theorem tIn_tailCall {f args env} : TIn T (.tailCall f args env) ↔
    f.loc.as .operator ⊆ T ∧ f.rlocs ⊆ T ∧ Expr.rlocsList args ⊆ T := Iff.rfl

/-! sub-expressions -/
theorem sym_in {s l} : (Expr.sym s l).rlocs ⊆ T ↔ l.as .node ⊆ T ∧ l.as .ident ⊆ T := by
  simp [Expr.rlocs]
theorem assign_in {n e l} : (Expr.assign n e l).rlocs ⊆ T ↔ l.as .node ⊆ T ∧ l.as .ident ⊆ T ∧ e.rlocs ⊆ T := by
  simp [Expr.rlocs]
theorem lambda_in {lam l} : (Expr.lambda lam l).rlocs ⊆ T ↔ l.as .node ⊆ T ∧ lam.rlocs ⊆ T := by
  simp [Expr.rlocs]
theorem call_in {f args l} : (Expr.call f args l).rlocs ⊆ T ↔
    l.as .node ⊆ T ∧ f.loc.as .operator ⊆ T ∧ f.rlocs ⊆ T ∧ Expr.rlocsList args ⊆ T := by
  simp [Expr.rlocs]
theorem cond_in {t c a l} : (Expr.cond t c a l).rlocs ⊆ T ↔
    l.as .node ⊆ T ∧ t.rlocs ⊆ T ∧ c.rlocs ⊆ T ∧ Expr.rlocsOpt a ⊆ T := by
  simp [Expr.rlocs]
theorem opt_some_in {e} : Expr.rlocsOpt (some e) ⊆ T ↔ e.rlocs ⊆ T := by simp [Expr.rlocsOpt]
theorem list_cons_in {e es} : Expr.rlocsList (e :: es) ⊆ T ↔ e.rlocs ⊆ T ∧ Expr.rlocsList es ⊆ T := by
  simp [Expr.rlocsList]
theorem lam_in {lam : Lambda} : lam.rlocs ⊆ T ↔ Def.rlocsList lam.defs ⊆ T ∧ Expr.rlocsList lam.body ⊆ T := by
  cases lam; simp [Lambda.rlocs, Lambda.defs, Lambda.body]
theorem defs_cons_in {n e l ds} : Def.rlocsList (Def.mk n e l :: ds) ⊆ T ↔
    l.as .node ⊆ T ∧ e.rlocs ⊆ T ∧ Def.rlocsList ds ⊆ T := by
  simp [Def.rlocsList, Def.rlocs]

/-- the invariant for all functions of the mutual block at one amount of fuel -/
structure LocAt (T : List RPos) (fuel : Nat) : Prop where
  expr : ∀ σ ρ e r σ', evalExpr fuel σ ρ e = (r, σ') → SIn T σ → e.rlocs ⊆ T →
    SIn T σ' ∧ (∀ v, r = .ok v → VIn T v) ∧ (∀ er, r = .error er → ErrOK T er)
  args : ∀ σ ρ es r σ', evalArgs fuel σ ρ es = (r, σ') → SIn T σ → Expr.rlocsList es ⊆ T →
    SIn T σ' ∧ (∀ vs, r = .ok vs → ∀ v ∈ vs, VIn T v) ∧ (∀ er, r = .error er → ErrOK T er)
  proc : ∀ σ p as env r σ', applyProcedure fuel σ p as env = (r, σ') → SIn T σ → VIn T p →
    (∀ a ∈ as, VIn T a) →
    SIn T σ' ∧ (∀ v, r = .ok v → VIn T v) ∧ (∀ er, r = .error er → ErrOK T er)
  loop : ∀ σ p as env r σ', applyLoop fuel σ p as env = (r, σ') → SIn T σ → VIn T p →
    (∀ a ∈ as, VIn T a) →
    SIn T σ' ∧ (∀ v, r = .ok v → VIn T v) ∧ (∀ er, r = .error er → ErrOK T er)
  scheme : ∀ σ lam cenv as r σ', applyScheme fuel σ lam cenv as = (r, σ') → SIn T σ → lam.rlocs ⊆ T →
    (∀ a ∈ as, VIn T a) →
    SIn T σ' ∧ (∀ t, r = .ok t → TIn T t) ∧ (∀ er, r = .error er → ErrOK T er)
  defs : ∀ σ ρ ds r σ', evalDefs fuel σ ρ ds = (r, σ') → SIn T σ → Def.rlocsList ds ⊆ T →
    SIn T σ' ∧ (∀ er, r = .error er → ErrOK T er)
  body : ∀ σ ρ es r σ', evalBody fuel σ ρ es = (r, σ') → SIn T σ → Expr.rlocsList es ⊆ T →
    SIn T σ' ∧ (∀ t, r = .ok t → TIn T t) ∧ (∀ er, r = .error er → ErrOK T er)
  tail : ∀ σ ρ e r σ', evalTail fuel σ ρ e = (r, σ') → SIn T σ → e.rlocs ⊆ T →
    SIn T σ' ∧ (∀ t, r = .ok t → TIn T t) ∧ (∀ er, r = .error er → ErrOK T er)

theorem locAt_zero : LocAt T 0 := by
  constructor <;> intros <;>
    simp_all [evalExpr, evalArgs, applyProcedure, applyLoop, applyScheme, evalDefs, evalBody, evalTail] <;>
    (have := @errOK_none T; grind)

/-! forward facts -/
theorem fw_lit {σ d r σ'} (h : readLiteral σ d = (r, σ')) (hσ : SIn T σ) :
    SIn T σ' ∧ (∀ v, r = .ok v → VIn T v) ∧ (∀ e, r = .error e → ErrOK T e) := by
  have := readLiteral_post h hσ
  exact ⟨this.1, this.2.1, fun e he => errOK_of_none (this.2.2 e he)⟩
theorem fw_prim {σ b a r σ'} (h : Prim.applyPure σ b a = (r, σ')) (hσ : SIn T σ) (ha : ∀ x ∈ a, VIn T x) :
    SIn T σ' ∧ (∀ v, r = .ok v → VIn T v) ∧ (∀ e, r = .error e → ErrOK T e) := by
  have := applyPure_in h hσ ha
  exact ⟨this.1, this.2.1, fun e he => errOK_of_none (this.2.2 e he)⟩
theorem fw_set {σ : Store} {ρ x v b σ'} (h : σ.set ρ x v = (b, σ')) (hσ : SIn T σ) (hv : VIn T v) :
    SIn T σ' := sIn_set h hσ hv
theorem fw_bind {σ ρ n a r σ'} (h : bindFixed σ ρ n a = (r, σ')) (hσ : SIn T σ) (ha : ∀ x ∈ a, VIn T x) :
    SIn T σ' ∧ ∀ rest, r = .ok rest → VIn T (Value.ofList rest) := by
  have := bindFixed_in n a σ ρ h hσ ha
  exact ⟨this.1, fun rest hr => vIn_ofList (this.2 rest hr)⟩
theorem fw_spread {args args' : List Value} {f : Value} (h : spreadApply args = .ok (f, args'))
    (ha : ∀ a ∈ args, VIn T a) : VIn T f ∧ ∀ a ∈ args', VIn T a := spreadApply_in h ha
theorem fw_cons {v : Value} {vs : List Value} (hv : VIn T v) (hvs : ∀ x ∈ vs, VIn T x) :
    ∀ x ∈ v :: vs, VIn T x := by
  intro x hx; rcases List.mem_cons.1 hx with rfl | hx
  · exact hv
  · exact hvs x hx
theorem fw_nil : ∀ x ∈ ([] : List Value), VIn T x := by simp

theorem locAt_succ {fuel : Nat} (ih : LocAt T fuel) : LocAt T (fuel + 1) := by
  constructor
  · intro σ ρ e r σ' h hσ he
    cases e <;> simp only [evalExpr] at h
    case prim =>
      have := @evalPrim_vIn T; have := @errOK_none T
      repeat' split at h
      all_goals grind
    case datum => have := @fw_lit T; grind
    case quote => have := @fw_lit T; grind
    case call =>
      rw [call_in] at he
      have := ih.expr; have := ih.args; have := ih.proc
      have := @errOK_none T; have := @errOK_nonproc T
      repeat' split at h
      all_goals grind
    case assign =>
      rw [assign_in] at he
      have := ih.expr; have := @fw_set T; have := @vIn_void T; have := @errOK_unbound T
      repeat' split at h
      all_goals grind
    case lambda => rw [lambda_in] at he; have := @vIn_closure T; grind
    case cond =>
      rw [cond_in] at he
      have := ih.expr; have := @vIn_void T; have := @opt_some_in T
      repeat' split at h
      all_goals grind
    case sym =>
      rw [sym_in] at he
      have := @sIn_lookup T; have := @errOK_unbound T
      repeat' split at h
      all_goals grind
  · intro σ ρ es r σ' h hσ he
    cases es <;> simp only [evalArgs] at h
    · have := @fw_nil T; grind
    · rw [list_cons_in] at he
      have := ih.expr; have := ih.args; have := @fw_cons T
      repeat' split at h
      all_goals grind
  · intro σ p as env r σ' h hσ hp ha
    rw [applyProcedure] at h
    split at h
    rename_i heq
    have hl := ih.loop _ _ _ _ _ _ heq (sIn_enter.2 hσ) hp ha
    simp only [Prod.mk.injEq] at h; obtain ⟨rfl, rfl⟩ := h
    exact ⟨sIn_leave.2 hl.1, hl.2⟩
  · intro σ p as env r σ' h hσ hp ha
    rw [applyLoop.eq_def] at h
    dsimp only at h
    have := ih.expr; have := ih.args; have := ih.loop; have := ih.scheme
    have := @fw_prim T; have := @fw_spread T
    have := @vIn_closure T; have := @tIn_value T; have := @tIn_tailCall T
    have := @errOK_none T; have := @errOK_nonproc T
    repeat' split at h
    all_goals grind
  · intro σ lam cenv as r σ' h hσ hl ha
    simp only [applyScheme] at h
    rw [lam_in] at hl
    have := ih.defs; have := ih.body
    have := @fw_bind T; have := @sIn_newFrame T; have := @sIn_define T; have := @errOK_none T
    revert h
    cases lam.formals.rest <;> intro h <;> dsimp only at h
    all_goals (repeat' split at h)
    all_goals grind
  · intro σ ρ ds r σ' h hσ hd
    rcases ds with _ | ⟨⟨name, e, l⟩, ds⟩ <;> simp only [evalDefs] at h
    · grind
    · rw [defs_cons_in] at hd
      have := ih.expr; have := ih.defs; have := @sIn_define T
      repeat' split at h
      all_goals grind
  · intro σ ρ es r σ' h hσ he
    rcases es with _ | ⟨e, _ | ⟨e', es⟩⟩ <;> simp only [evalBody] at h
    · have := @errOK_none T; grind
    · rw [list_cons_in] at he; have := ih.tail; grind
    · rw [list_cons_in] at he
      have := ih.expr; have := ih.body
      repeat' split at h
      all_goals grind
  · intro σ ρ e r σ' h hσ he
    have := ih.expr; have := ih.tail
    have := @vIn_void T; have := @tIn_value T; have := @tIn_tailCall T; have := @opt_some_in T
    cases e <;> simp only [evalTail] at h
    case call => rw [call_in] at he; grind
    case cond =>
      rw [cond_in] at he
      repeat' split at h
      all_goals grind
    all_goals
      (split at h
       · rename_i er σ1 heq; cases h
         have := ih.expr _ _ _ _ _ heq hσ he
         exact ⟨this.1, by simp, fun er' h' => by cases h'; exact this.2.2 _ rfl⟩
       · rename_i v σ1 heq; cases h
         have := ih.expr _ _ _ _ _ heq hσ he
         exact ⟨this.1, fun t ht => by cases ht; exact this.2.1 _ rfl, by simp⟩)

theorem locAt : ∀ fuel, LocAt T fuel
  | 0 => locAt_zero
  | fuel + 1 => locAt_succ (locAt fuel)

/-- the evaluator on an expression, relative to the positions of the store and the expression -/
theorem evalExpr_post {n σ ρ e r σ'} (h : evalExpr n σ ρ e = (r, σ')) :
    SIn (σ.rlocs ++ e.rlocs) σ' ∧ (∀ v, r = .ok v → VIn (σ.rlocs ++ e.rlocs) v) ∧
      (∀ er, r = .error er → ErrOK (σ.rlocs ++ e.rlocs) er) :=
  (locAt n).expr σ ρ e r σ' h (sIn_iff.2 (List.subset_append_left _ _)) (List.subset_append_right _ _)

end EvalLoc

theorem mem_unrole {l : Pos} {L : List RPos} : l ∈ unrole L ↔ ∃ r, (r, l) ∈ L := by
  simp [unrole]

theorem unrole_append (a b : List RPos) : unrole (a ++ b) = unrole a ++ unrole b := by
  simp [unrole]

theorem unrole_subset {a b : List RPos} (h : a ⊆ b) : unrole a ⊆ unrole b := by
  intro l hl; rw [mem_unrole] at hl ⊢; obtain ⟨r, hr⟩ := hl; exact ⟨r, h hr⟩

/-! ## the interpreter around the evaluator -/

namespace InterpLoc
open Interp EvalLoc

/-- the code an interpreter state holds has its positions in `T` (`stIn_iff`: `st.rlocs ⊆ T`) -/
structure StIn (T : List RPos) (st : State) : Prop where
  store : SIn T st.store
  instances : ∀ p ∈ st.instances, ∀ kv ∈ p.2, VIn T kv.2
  factories : ∀ p ∈ st.factories, p.2.rlocs ⊆ T

theorem stIn_iff {T : List RPos} {st : State} : StIn T st ↔ st.rlocs ⊆ T := by
  simp only [State.rlocs, List.append_subset, ← sIn_iff]
  constructor
  · intro h
    refine ⟨h.store, ?_, ?_⟩
    · intro x hx
      simp only [List.mem_flatMap] at hx
      obtain ⟨p, hp, kv, hkv, hx⟩ := hx
      exact h.instances p hp kv hkv hx
    · intro x hx
      simp only [List.mem_flatMap] at hx
      obtain ⟨p, hp, hx⟩ := hx
      exact h.factories p hp hx
  · intro h
    refine ⟨h.1, fun p hp kv hkv x hx => h.2.1 ?_, fun p hp x hx => h.2.2 ?_⟩
    · simp only [List.mem_flatMap]; exact ⟨p, hp, kv, hkv, hx⟩
    · simp only [List.mem_flatMap]; exact ⟨p, hp, hx⟩

/-- an error that arose while reading a library file: the only errors whose position refers to a
text other than the program (`Lexer::without_locations` strips the tokens, not the lexer's own
errors) -/
def LibReadErr (e : SErr) : Prop := ∃ name text, factoryOfText name text = .error e

/-- what a located error of the interpreter is -/
def IErrOK (T : List RPos) (e : SErr) : Prop :=
  ∀ l, e.2 = some l →
    (e.1 = .unbound ∧ ((Role.ident, l) ∈ T ∨ (Role.export, l) ∈ T)) ∨
    (e.1 = .nonProcedure ∧ (Role.operator, l) ∈ T) ∨
    ((e.1 = .cyclic ∨ e.1 = .libNotFound) ∧ (Role.libname, l) ∈ T) ∨
    LibReadErr e

variable {T : List RPos}

theorem iErrOK_none (k : Err) : IErrOK T (k, none) := by intro l h; cases h
theorem iErrOK_of_errOK {e : SErr} (h : ErrOK T e) : IErrOK T e := by
  intro l hl
  rcases h l hl with ⟨h1, h2⟩ | ⟨h1, h2⟩
  · exact Or.inl ⟨h1, Or.inl h2⟩
  · exact Or.inr (Or.inl ⟨h1, h2⟩)
theorem iErrOK_cyclic {loc : Loc} (h : loc.as .libname ⊆ T) : IErrOK T (.cyclic, loc) := by
  intro l hl; simp only at hl; subst hl
  exact Or.inr (Or.inr (Or.inl ⟨Or.inl rfl, h (by simp [Loc.as])⟩))
theorem iErrOK_notFound {loc : Loc} (h : loc.as .libname ⊆ T) : IErrOK T (.libNotFound, loc) := by
  intro l hl; simp only at hl; subst hl
  exact Or.inr (Or.inr (Or.inl ⟨Or.inr rfl, h (by simp [Loc.as])⟩))
theorem iErrOK_export {loc : Loc} (h : loc.as .export ⊆ T) : IErrOK T (.unbound, loc) := by
  intro l hl; simp only at hl; subst hl
  exact Or.inl ⟨rfl, Or.inr (h (by simp [Loc.as]))⟩

theorem StIn.with_store {st : State} (h : StIn T st) {σ : Store} (hσ : SIn T σ) :
    StIn T { st with store := σ } := ⟨hσ, h.instances, h.factories⟩

theorem evalExprOrDef_in {fuel st s ρ r st'} (h : evalExprOrDef fuel st s ρ = (r, st'))
    (hst : StIn T st) (hs : s.rlocs ⊆ T) : StIn T st' ∧ ∀ e, r = .error e → IErrOK T e := by
  unfold evalExprOrDef at h
  split at h
  · rename_i e
    simp only [Statement.rlocs] at hs
    split at h <;> rename_i he <;> cases h
    · have := (locAt fuel).expr _ _ _ _ _ he hst.store hs
      exact ⟨hst.with_store this.1, by simp⟩
    · have := (locAt fuel).expr _ _ _ _ _ he hst.store hs
      exact ⟨hst.with_store this.1, fun e' he' => by cases he'; exact iErrOK_of_errOK (this.2.2 _ rfl)⟩
  · rename_i name e l
    simp only [Statement.rlocs, Def.rlocs, List.append_subset] at hs
    split at h <;> rename_i he <;> cases h
    · have := (locAt fuel).expr _ _ _ _ _ he hst.store hs.2
      exact ⟨hst.with_store (sIn_define this.1 _ _ (this.2.1 _ rfl)), by simp⟩
    · have := (locAt fuel).expr _ _ _ _ _ he hst.store hs.2
      exact ⟨hst.with_store this.1, fun e' he' => by cases he'; exact iErrOK_of_errOK (this.2.2 _ rfl)⟩
  · cases h
    exact ⟨hst.with_store (sIn_define hst.store _ _ vIn_transformer), by simp⟩
  · cases h; exact ⟨hst, fun e he => by cases he; exact iErrOK_none _⟩

/-! ### association lists -/

theorem mem_libInsert {α} {l : List (LibName × α)} {k : LibName} {v : α} {p : LibName × α}
    (h : p ∈ libInsert l k v) : p = (k, v) ∨ p ∈ l := by
  induction l with
  | nil => simpa [libInsert] using h
  | cons q rest ih =>
    obtain ⟨k', v'⟩ := q
    simp only [libInsert] at h
    split at h
    · simp only [List.mem_cons] at h ⊢
      rcases h with h | h
      · exact Or.inl h
      · exact Or.inr (Or.inr h)
    · simp only [List.mem_cons] at h ⊢
      rcases h with h | h
      · exact Or.inr (Or.inl h)
      · rcases ih h with h | h
        · exact Or.inl h
        · exact Or.inr (Or.inr h)

theorem mem_of_libLookup {α} {l : List (LibName × α)} {k : LibName} {v : α}
    (h : libLookup l k = some v) : (k, v) ∈ l := by
  induction l with
  | nil => simp [libLookup] at h
  | cons q rest ih =>
    obtain ⟨k', v'⟩ := q
    simp only [libLookup] at h
    split at h
    · cases h; rename_i hk; subst hk; simp
    · exact List.mem_cons_of_mem _ (ih h)

theorem mem_assocInsert {α} {l : List (String × α)} {k : String} {v : α} {p : String × α}
    (h : p ∈ assocInsert l k v) : p = (k, v) ∨ p ∈ l := by
  induction l with
  | nil => simpa [assocInsert] using h
  | cons q rest ih =>
    obtain ⟨k', v'⟩ := q
    simp only [assocInsert] at h
    split at h
    · simp only [List.mem_cons] at h ⊢
      rcases h with h | h
      · exact Or.inl h
      · exact Or.inr (Or.inr h)
    · simp only [List.mem_cons] at h ⊢
      rcases h with h | h
      · exact Or.inr (Or.inl h)
      · rcases ih h with h | h
        · exact Or.inl h
        · exact Or.inr (Or.inr h)

/-- all values of a list of bindings have their code positions in `T` -/
def BIn (T : List RPos) (defs : List (String × Value)) : Prop := ∀ kv ∈ defs, VIn T kv.2

theorem bIn_nil : BIn T [] := by simp [BIn]

theorem bIn_assocInsert {acc : List (String × Value)} {k : String} {v : Value} (ha : BIn T acc)
    (hv : VIn T v) : BIn T (assocInsert acc k v) := by
  intro kv hkv
  rcases mem_assocInsert hkv with rfl | h
  · exact hv
  · exact ha kv h

/-- merging the bindings of an import set into the accumulated ones (a name imported twice with
different values is an unlocated error) -/
theorem bIn_foldlM_insert {σ : Store} {defs : List (String × Value)} (hd : BIn T defs) :
    ∀ {acc : List (String × Value)} {r}, BIn T acc →
      defs.foldlM (fun (a : List (String × Value)) p =>
          match a.lookup p.1 with
          | some prev => if Prim.derivedEq σ 100000 prev p.2 then Except.ok (assocInsert a p.1 p.2)
                         else Except.error ((Err.other, none) : SErr)
          | none => Except.ok (assocInsert a p.1 p.2)) acc = r →
      (∀ acc', r = .ok acc' → BIn T acc') ∧ (∀ e, r = .error e → e.2 = none) := by
  induction defs with
  | nil =>
    intro acc r ha h
    simp only [List.foldlM_nil, pure, Except.pure] at h; subst h
    exact ⟨fun a' h' => by cases h'; exact ha, by simp⟩
  | cons p rest ih =>
    intro acc r ha h
    simp only [List.foldlM_cons, bind, Except.bind] at h
    have hrest : BIn T rest := fun kv h => hd kv (List.mem_cons_of_mem _ h)
    have hins := bIn_assocInsert (k := p.1) ha (hd p (List.mem_cons_self ..))
    cases hl : List.lookup p.1 acc with
    | none => simp only [hl] at h; exact ih hrest hins h
    | some prev =>
      simp only [hl] at h
      by_cases hq : Prim.derivedEq σ 100000 prev p.2 = true
      · simp only [hq, if_true] at h; exact ih hrest hins h
      · simp only [hq] at h
        subst h; exact ⟨by simp, fun e he => by cases he; rfl⟩

theorem sIn_foldl_define {defs : List (String × Value)} (hd : BIn T defs) (ρ : Nat) :
    ∀ {σ : Store}, SIn T σ → SIn T (defs.foldl (fun σ p => σ.define ρ p.1 p.2) σ) := by
  induction defs with
  | nil => intro σ h; exact h
  | cons p rest ih =>
    intro σ h
    simp only [List.foldl_cons]
    exact ih (fun kv h => hd kv (List.mem_cons_of_mem _ h))
      (sIn_define h ρ p.1 (hd p (List.mem_cons_self ..)))

theorem bIn_filter {defs : List (String × Value)} (hd : BIn T defs) (f : String × Value → Bool) :
    BIn T (defs.filter f) := fun kv h => hd kv (List.mem_filter.1 h).1

theorem bIn_map {defs : List (String × Value)} (hd : BIn T defs) (g : String → String) :
    BIn T (defs.map (fun q => (g q.1, q.2))) := by
  intro kv h
  simp only [List.mem_map] at h
  obtain ⟨q, hq, rfl⟩ := h
  exact hd q hq

/-! ### `get_library` and `eval_library_definition` in pieces (as in `LibLemmas`, repeated here so
that this file does not depend on it) -/

/-- the factory `get_library` finds for a name that has no instance yet -/
def findFactory (st : State) (name : LibName) (loc : Loc) : Except SErr Factory × State :=
  match libLookup st.factories name with
  | some f => (.ok f, st)
  | none =>
    match st.files.lookup (fileKey st.dir (libPath name)) with
    | none => (.error (.libNotFound, loc), st)
    | some .unreadable => (.error (.io, none), st)
    | some (.text t) =>
      match factoryOfText name t with
      | .ok f => (.ok f, { st with factories := libInsert st.factories name f })
      | .error e => (.error e, st)

def newLibrary (fuel : Nat) (st : State) (f : Factory) : Except SErr (List (String × Value)) × State :=
  match f with
  | .native defs => (.ok defs, st)
  | .ast decls => evalLibraryDef fuel st decls

def cacheInstance (name : LibName) (res : Except SErr (List (String × Value)) × State) :
    Except SErr (List (String × Value)) × State :=
  match res.1 with
  | .ok defs => (.ok defs, { res.2 with instances := libInsert res.2.instances name defs })
  | .error e => (.error e, res.2)

def instantiate (fuel : Nat) (st : State) (f : Factory) (name : LibName) :
    Except SErr (List (String × Value)) × State :=
  cacheInstance name (newLibrary fuel st f)

theorem getLibrary_succ_eq (fuel : Nat) (st : State) (name : LibName) (loc : Loc) :
    Interp.getLibrary (fuel + 1) st name loc =
      match libLookup st.instances name with
      | some defs => (.ok defs, st)
      | none =>
        match findFactory st name loc with
        | (.error e, st) => (.error e, st)
        | (.ok f, st) => instantiate fuel st f name := by
  rw [Interp.getLibrary]
  rfl

def ExportSpec.internal : ExportSpec → String
  | .direct n _ => n
  | .rename a _ _ => a
def ExportSpec.external : ExportSpec → String
  | .direct n _ => n
  | .rename _ b _ => b

/-- one step of the export loop of `evalLibraryDef` -/
def exportStep (look : String → Option Value) (acc : List (String × Value)) (ex : ExportSpec) :
    Except SErr (List (String × Value)) :=
  match look (ExportSpec.internal ex) with
  | some v => .ok (assocInsert acc (ExportSpec.external ex) v)
  | none => .error (.unbound, ex.loc)

theorem evalLibraryDef_succ_eq (fuel : Nat) (st : State) (decls : List LibDecl) :
    evalLibraryDef (fuel + 1) st decls =
      match evalLibDecls fuel { st with store := (st.store.newFrame none).2 } st.store.frames.size decls [] with
      | (.error e, st') => (.error e, st')
      | (.ok exports, st') =>
        (exports.foldlM (exportStep (st'.store.lookup st.store.frames.size)) [], st') := by
  rw [evalLibraryDef]
  simp only [Store.newFrame]
  generalize evalLibDecls fuel _ _ decls [] = res
  obtain ⟨r, st'⟩ := res
  cases r with
  | error e => rfl
  | ok exports =>
    simp only
    congr 2
    funext acc ex
    cases ex <;> simp only [exportStep, ExportSpec.internal, ExportSpec.external, ExportSpec.loc] <;>
      split <;> simp_all

/-- the exports of a library are looked up in its frame -/
theorem exports_in {σ : Store} (hσ : SIn T σ) (ρ : Nat) : ∀ (exports : List ExportSpec)
    (acc : List (String × Value)), BIn T acc → (∀ s ∈ exports, s.loc.as .export ⊆ T) →
    ∀ r, exports.foldlM (exportStep (σ.lookup ρ)) acc = r →
      (∀ defs, r = .ok defs → BIn T defs) ∧ (∀ e, r = .error e → IErrOK T e)
  | [], acc, ha, _, r, h => by
    simp only [List.foldlM_nil, pure, Except.pure] at h; subst h
    exact ⟨fun defs hd => by cases hd; exact ha, by simp⟩
  | ex :: rest, acc, ha, he, r, h => by
    simp only [List.foldlM_cons, bind, Except.bind] at h
    have hex := he ex (List.mem_cons_self ..)
    have hrest : ∀ s ∈ rest, s.loc.as .export ⊆ T := fun s hs => he s (List.mem_cons_of_mem _ hs)
    unfold exportStep at h
    cases hl : σ.lookup ρ (ExportSpec.internal ex) with
    | none =>
      simp only [hl] at h; subst h
      refine ⟨by simp, fun e he' => ?_⟩
      cases he'
      exact iErrOK_export hex
    | some v =>
      simp only [hl] at h
      exact exports_in hσ ρ rest _ (bIn_assocInsert ha (sIn_lookup hσ hl)) hrest r h

/-- library files are read without positions: the code of a factory made from a file carries none
(proved as `factoryOfText_unlocated` from the reader/transformer theorems) -/
def LibClean : Prop :=
  ∀ name text f, factoryOfText name text = .ok f → f.rlocs = []

/-- the invariant for all functions of the mutual block at one amount of fuel -/
structure InterpAt (T : List RPos) (fuel : Nat) : Prop where
  importSet : ∀ {st s r st'}, evalImportSet fuel st s = (r, st') → StIn T st →
    ImportSet.rlocsList [s] ⊆ T →
    StIn T st' ∧ (∀ defs, r = .ok defs → BIn T defs) ∧ (∀ e, r = .error e → IErrOK T e)
  getLibrary : ∀ {st name loc r st'}, getLibrary fuel st name loc = (r, st') → StIn T st →
    loc.as .libname ⊆ T →
    StIn T st' ∧ (∀ defs, r = .ok defs → BIn T defs) ∧ (∀ e, r = .error e → IErrOK T e)
  import_ : ∀ {st sets ρ r st'}, evalImport fuel st sets ρ = (r, st') → StIn T st →
    ImportSet.rlocsList sets ⊆ T → StIn T st' ∧ (∀ e, r = .error e → IErrOK T e)
  importSets : ∀ {st sets acc r st'}, evalImportSets fuel st sets acc = (r, st') → StIn T st →
    ImportSet.rlocsList sets ⊆ T → BIn T acc →
    StIn T st' ∧ (∀ defs, r = .ok defs → BIn T defs) ∧ (∀ e, r = .error e → IErrOK T e)
  libraryDef : ∀ {st decls r st'}, evalLibraryDef fuel st decls = (r, st') → StIn T st →
    LibDecl.rlocsList decls ⊆ T →
    StIn T st' ∧ (∀ defs, r = .ok defs → BIn T defs) ∧ (∀ e, r = .error e → IErrOK T e)
  libDecls : ∀ {st ρ decls acc r st'}, evalLibDecls fuel st ρ decls acc = (r, st') → StIn T st →
    LibDecl.rlocsList decls ⊆ T → (∀ s ∈ acc, s.loc.as .export ⊆ T) →
    StIn T st' ∧ (∀ ex, r = .ok ex → ∀ s ∈ ex, s.loc.as .export ⊆ T) ∧
      (∀ e, r = .error e → IErrOK T e)
  statements : ∀ {st ρ ss r st'}, evalStatements fuel st ρ ss = (r, st') → StIn T st →
    Statement.rlocsList ss ⊆ T → StIn T st' ∧ (∀ e, r = .error e → IErrOK T e)

theorem interpAt_zero : InterpAt T 0 := by
  constructor
  · intro st s r st' h hst _; rw [evalImportSet] at h; cases h
    exact ⟨hst, by simp, fun e he => by cases he; exact iErrOK_none _⟩
  · intro st name loc r st' h hst _; rw [Interp.getLibrary] at h; cases h
    exact ⟨hst, by simp, fun e he => by cases he; exact iErrOK_none _⟩
  · intro st sets ρ r st' h hst _; rw [evalImport] at h; cases h
    exact ⟨hst, fun e he => by cases he; exact iErrOK_none _⟩
  · intro st sets acc r st' h hst _ _; rw [evalImportSets] at h; cases h
    exact ⟨hst, by simp, fun e he => by cases he; exact iErrOK_none _⟩
  · intro st decls r st' h hst _; rw [evalLibraryDef] at h; cases h
    exact ⟨hst, by simp, fun e he => by cases he; exact iErrOK_none _⟩
  · intro st ρ decls acc r st' h hst _ _; rw [evalLibDecls] at h; cases h
    exact ⟨hst, by simp, fun e he => by cases he; exact iErrOK_none _⟩
  · intro st ρ ss r st' h hst _; rw [evalStatements] at h; cases h
    exact ⟨hst, fun e he => by cases he; exact iErrOK_none _⟩

theorem rlocsList_cons {s : ImportSet} {sets : List ImportSet} :
    ImportSet.rlocsList (s :: sets) ⊆ T ↔ ImportSet.rlocsList [s] ⊆ T ∧ ImportSet.rlocsList sets ⊆ T := by
  simp [ImportSet.rlocsList, List.map_append]

theorem importSet_succ {fuel} (ih : InterpAt T fuel) {st s r st'}
    (h : evalImportSet (fuel + 1) st s = (r, st')) (hst : StIn T st) (hs : ImportSet.rlocsList [s] ⊆ T) :
    StIn T st' ∧ (∀ defs, r = .ok defs → BIn T defs) ∧ (∀ e, r = .error e → IErrOK T e) := by
  cases s with
  | direct name loc =>
    have hloc : loc.as .libname ⊆ T := by
      simpa [ImportSet.rlocsList, ImportSet.locs, Loc.as] using hs
    rw [evalImportSet] at h
    split at h
    · cases h; exact ⟨hst, by simp, fun e he => by cases he; exact iErrOK_cyclic hloc⟩
    · cases h
      have i := ih.getLibrary (st := { st with inProgress := name :: st.inProgress }) (name := name)
        (loc := loc) (r := _) (st' := _) rfl ⟨hst.store, hst.instances, hst.factories⟩ hloc
      exact ⟨⟨i.1.store, i.1.instances, i.1.factories⟩, i.2⟩
  | only sub ids =>
    have hs' : ImportSet.rlocsList [sub] ⊆ T := by simpa [ImportSet.rlocsList, ImportSet.locs] using hs
    rw [evalImportSet] at h
    split at h <;> rename_i he <;> cases h
    · have i := ih.importSet he hst hs'
      exact ⟨i.1, fun d hd => by cases hd; exact bIn_filter (i.2.1 _ rfl) _, by simp⟩
    · have i := ih.importSet he hst hs'
      exact ⟨i.1, by simp, fun e he => by cases he; exact i.2.2 _ rfl⟩
  | except sub ids =>
    have hs' : ImportSet.rlocsList [sub] ⊆ T := by simpa [ImportSet.rlocsList, ImportSet.locs] using hs
    rw [evalImportSet] at h
    split at h <;> rename_i he <;> cases h
    · have i := ih.importSet he hst hs'
      exact ⟨i.1, fun d hd => by cases hd; exact bIn_filter (i.2.1 _ rfl) _, by simp⟩
    · have i := ih.importSet he hst hs'
      exact ⟨i.1, by simp, fun e he => by cases he; exact i.2.2 _ rfl⟩
  | «prefix» sub p =>
    have hs' : ImportSet.rlocsList [sub] ⊆ T := by simpa [ImportSet.rlocsList, ImportSet.locs] using hs
    rw [evalImportSet] at h
    split at h <;> rename_i he <;> cases h
    · have i := ih.importSet he hst hs'
      exact ⟨i.1, fun d hd => by cases hd; exact bIn_map (i.2.1 _ rfl) _, by simp⟩
    · have i := ih.importSet he hst hs'
      exact ⟨i.1, by simp, fun e he => by cases he; exact i.2.2 _ rfl⟩
  | rename sub pairs =>
    have hs' : ImportSet.rlocsList [sub] ⊆ T := by simpa [ImportSet.rlocsList, ImportSet.locs] using hs
    rw [evalImportSet] at h
    split at h <;> rename_i he <;> cases h
    · have i := ih.importSet he hst hs'
      exact ⟨i.1, fun d hd => by cases hd; exact bIn_map (i.2.1 _ rfl) (fun n => (List.lookup n pairs.reverse).getD n), by simp⟩
    · have i := ih.importSet he hst hs'
      exact ⟨i.1, by simp, fun e he => by cases he; exact i.2.2 _ rfl⟩

theorem getLibrary_succ (hc : LibClean) {fuel} (ih : InterpAt T fuel) {st name loc r st'}
    (h : Interp.getLibrary (fuel + 1) st name loc = (r, st')) (hst : StIn T st)
    (hloc : loc.as .libname ⊆ T) :
    StIn T st' ∧ (∀ defs, r = .ok defs → BIn T defs) ∧ (∀ e, r = .error e → IErrOK T e) := by
  rw [getLibrary_succ_eq] at h
  split at h
  · rename_i defs hd
    cases h
    exact ⟨hst, fun d hd' => by cases hd'; exact hst.instances _ (mem_of_libLookup hd), by simp⟩
  · -- the factory
    have hfind : ∀ {rf stf}, findFactory st name loc = (rf, stf) →
        StIn T stf ∧ (∀ f, rf = .ok f → f.rlocs ⊆ T) ∧ (∀ e, rf = .error e → IErrOK T e) := by
      intro rf stf hf
      unfold findFactory at hf
      split at hf
      · rename_i f hl; cases hf
        exact ⟨hst, fun f' hf' => by cases hf'; exact hst.factories _ (mem_of_libLookup hl), by simp⟩
      · split at hf
        · cases hf; exact ⟨hst, by simp, fun e he => by cases he; exact iErrOK_notFound hloc⟩
        · cases hf; exact ⟨hst, by simp, fun e he => by cases he; exact iErrOK_none _⟩
        · rename_i t _
          split at hf
          · rename_i f hft; cases hf
            have hf0 : f.rlocs ⊆ T := by rw [hc _ _ _ hft]; simp
            refine ⟨⟨hst.store, hst.instances, ?_⟩, fun f' hf' => by cases hf'; exact hf0, by simp⟩
            intro p hp
            rcases mem_libInsert hp with rfl | hp
            · exact hf0
            · exact hst.factories p hp
          · rename_i e hft; cases hf
            exact ⟨hst, by simp, fun e' he => by
              cases he; intro l hl; exact Or.inr (Or.inr (Or.inr ⟨_, _, hft⟩))⟩
    split at h
    · rename_i e stf hf; cases h
      have := hfind hf
      exact ⟨this.1, by simp, fun e' he => by cases he; exact this.2.2 _ rfl⟩
    · rename_i f stf hf
      have hF := hfind hf
      have hf0 := hF.2.1 f rfl
      unfold instantiate cacheInstance newLibrary at h
      cases f with
      | native defs =>
        simp only at h
        cases h
        have hb : BIn T defs := by
          intro kv hkv x hx
          apply hf0
          simp only [Factory.rlocs, List.mem_flatMap]
          exact ⟨kv, hkv, hx⟩
        refine ⟨⟨hF.1.store, ?_, hF.1.factories⟩, fun d hd => by cases hd; exact hb, by simp⟩
        intro p hp
        rcases mem_libInsert hp with rfl | hp
        · exact hb
        · exact hF.1.instances p hp
      | ast decls =>
        simp only at h
        have i := ih.libraryDef (st := stf) (decls := decls) (r := _) (st' := _) rfl hF.1 hf0
        split at h
        · rename_i defs hr
          cases h
          have hb := i.2.1 defs hr
          refine ⟨⟨i.1.store, ?_, i.1.factories⟩, fun d hd => by cases hd; exact hb, by simp⟩
          intro p hp
          rcases mem_libInsert hp with rfl | hp
          · exact hb
          · exact i.1.instances p hp
        · rename_i e hr
          cases h
          exact ⟨i.1, by simp, fun e' he => by cases he; exact i.2.2 _ hr⟩

theorem import_succ {fuel} (ih : InterpAt T fuel) {st sets ρ r st'}
    (h : evalImport (fuel + 1) st sets ρ = (r, st')) (hst : StIn T st)
    (hs : ImportSet.rlocsList sets ⊆ T) : StIn T st' ∧ (∀ e, r = .error e → IErrOK T e) := by
  rw [evalImport] at h
  split at h <;> rename_i he <;> cases h
  · have i := ih.importSets he hst hs bIn_nil
    exact ⟨i.1, fun e he => by cases he; exact i.2.2 _ rfl⟩
  · have i := ih.importSets he hst hs bIn_nil
    exact ⟨i.1.with_store (sIn_foldl_define (i.2.1 _ rfl) ρ i.1.store), by simp⟩

theorem importSets_succ {fuel} (ih : InterpAt T fuel) {st sets acc r st'}
    (h : evalImportSets (fuel + 1) st sets acc = (r, st')) (hst : StIn T st)
    (hs : ImportSet.rlocsList sets ⊆ T) (ha : BIn T acc) :
    StIn T st' ∧ (∀ defs, r = .ok defs → BIn T defs) ∧ (∀ e, r = .error e → IErrOK T e) := by
  cases sets with
  | nil => rw [evalImportSets] at h; cases h; exact ⟨hst, fun d hd => by cases hd; exact ha, by simp⟩
  | cons s rest =>
    rw [rlocsList_cons] at hs
    rw [evalImportSets] at h
    split at h <;> rename_i he
    · cases h
      have i := ih.importSet he hst hs.1
      exact ⟨i.1, by simp, fun e he => by cases he; exact i.2.2 _ rfl⟩
    · have i := ih.importSet he hst hs.1
      split at h
      · rename_i e hm
        cases h
        have := bIn_foldlM_insert (i.2.1 _ rfl) ha hm
        exact ⟨i.1, by simp, fun e' he' => by
          cases he'; intro l hl; rw [this.2 _ rfl] at hl; cases hl⟩
      · rename_i acc' hm
        have := bIn_foldlM_insert (i.2.1 _ rfl) ha hm
        exact ih.importSets h i.1 hs.2 (this.1 _ rfl)

theorem libraryDef_succ {fuel} (ih : InterpAt T fuel) {st decls r st'}
    (h : evalLibraryDef (fuel + 1) st decls = (r, st')) (hst : StIn T st)
    (hd : LibDecl.rlocsList decls ⊆ T) :
    StIn T st' ∧ (∀ defs, r = .ok defs → BIn T defs) ∧ (∀ e, r = .error e → IErrOK T e) := by
  rw [evalLibraryDef_succ_eq] at h
  have hst1 : StIn T { st with store := (st.store.newFrame none).2 } :=
    hst.with_store (sIn_newFrame hst.store none)
  split at h <;> rename_i he <;> cases h
  · have i := ih.libDecls he hst1 hd (by simp)
    exact ⟨i.1, by simp, fun e he => by cases he; exact i.2.2 _ rfl⟩
  · have i := ih.libDecls he hst1 hd (by simp)
    exact ⟨i.1, exports_in i.1.store _ _ [] bIn_nil (i.2.1 _ rfl) _ rfl⟩

theorem libDecls_succ {fuel} (ih : InterpAt T fuel) {st ρ decls acc r st'}
    (h : evalLibDecls (fuel + 1) st ρ decls acc = (r, st')) (hst : StIn T st)
    (hd : LibDecl.rlocsList decls ⊆ T) (ha : ∀ s ∈ acc, s.loc.as .export ⊆ T) :
    StIn T st' ∧ (∀ ex, r = .ok ex → ∀ s ∈ ex, s.loc.as .export ⊆ T) ∧
      (∀ e, r = .error e → IErrOK T e) := by
  cases decls with
  | nil => rw [evalLibDecls] at h; cases h; exact ⟨hst, fun ex he => by cases he; exact ha, by simp⟩
  | cons d ds =>
    simp only [LibDecl.rlocsList, List.append_subset] at hd
    cases d <;> rw [evalLibDecls] at h <;> simp only [LibDecl.rlocs] at hd
    · split at h <;> rename_i he
      · cases h
        have i := ih.import_ he hst hd.1
        exact ⟨i.1, by simp, fun e he => by cases he; exact i.2 _ rfl⟩
      · exact ih.libDecls h (ih.import_ he hst hd.1).1 hd.2 ha
    · refine ih.libDecls h hst hd.2 ?_
      intro s hs
      rcases List.mem_append.1 hs with hs | hs
      · exact ha s hs
      · intro x hx; apply hd.1; simp only [List.mem_flatMap]; exact ⟨s, hs, hx⟩
    · split at h <;> rename_i he
      · cases h
        have i := ih.statements he hst hd.1
        exact ⟨i.1, by simp, fun e he => by cases he; exact i.2 _ rfl⟩
      · exact ih.libDecls h (ih.statements he hst hd.1).1 hd.2 ha

theorem statements_succ {fuel} (ih : InterpAt T fuel) {st ρ ss r st'}
    (h : evalStatements (fuel + 1) st ρ ss = (r, st')) (hst : StIn T st)
    (hs : Statement.rlocsList ss ⊆ T) : StIn T st' ∧ (∀ e, r = .error e → IErrOK T e) := by
  cases ss with
  | nil => rw [evalStatements] at h; cases h; exact ⟨hst, by simp⟩
  | cons s rest =>
    simp only [Statement.rlocsList, List.append_subset] at hs
    rw [evalStatements] at h
    split at h <;> rename_i he
    · cases h
      have i := evalExprOrDef_in he hst hs.1
      exact ⟨i.1, fun e he => by cases he; exact i.2 _ rfl⟩
    · exact ih.statements h (evalExprOrDef_in he hst hs.1).1 hs.2

theorem interpAt (hc : LibClean) : ∀ fuel, InterpAt T fuel
  | 0 => interpAt_zero
  | fuel + 1 =>
    have ih := interpAt hc fuel
    ⟨importSet_succ ih, getLibrary_succ hc ih, import_succ ih, importSets_succ ih,
     libraryDef_succ ih, libDecls_succ ih, statements_succ ih⟩

/-- `eval_ast`: the state keeps its invariant; the reported error is an error of the kinds above
whose missing position is replaced by the statement's -/
theorem evalAst_in (hc : LibClean) {fuel st s r st'} (h : evalAst fuel st s = (r, st'))
    (hst : StIn T st) (hs : s.rlocs ⊆ T) :
    StIn T st' ∧ ∀ k loc, r = .error (k, loc) →
      ∃ loc0, IErrOK T (k, loc0) ∧ loc = loc0.orElse (fun _ => s.loc) := by
  unfold evalAst at h
  generalize hres : (if (!st.importEnd) = true then _ else _ : Except SErr (Option Value) × State) = res at h
  have key : StIn T res.2 ∧ ∀ e, res.1 = .error e → IErrOK T e ∨ e.2 = s.loc := by
    subst hres
    split
    · split
      · rename_i sets l
        simp only [Statement.rlocs, List.append_subset] at hs
        split <;> rename_i he
        · exact ⟨((interpAt hc fuel).import_ he hst hs.2).1, by simp⟩
        · have i := (interpAt hc fuel).import_ he hst hs.2
          exact ⟨i.1, fun e he => by cases he; exact Or.inl (i.2 _ rfl)⟩
      · exact ⟨hst, fun e he => by cases he; exact Or.inr rfl⟩
      · have i := evalExprOrDef_in (fuel := fuel) (st := { st with importEnd := true }) (s := _)
          (ρ := st.env) (r := _) (st' := _) rfl ⟨hst.store, hst.instances, hst.factories⟩ hs
        exact ⟨i.1, fun e he => Or.inl (i.2 e he)⟩
    · have i := evalExprOrDef_in (fuel := fuel) (st := st) (s := s) (ρ := st.env) (r := _) (st' := _)
        rfl hst hs
      exact ⟨i.1, fun e he => Or.inl (i.2 e he)⟩
  obtain ⟨r0, st0⟩ := res
  simp only at h key
  split at h <;> cases h
  · exact ⟨key.1, by simp⟩
  · rename_i e loc
    refine ⟨key.1, fun k loc' hk => ?_⟩
    cases hk
    rcases key.2 _ rfl with hk | hk
    · exact ⟨loc, hk, rfl⟩
    · simp only at hk; subst hk
      refine ⟨none, iErrOK_none _, ?_⟩
      cases s.loc <;> rfl

end InterpLoc

/-! ## errors of the macro machinery -/

namespace Macro

/-- the matcher never reports a located error -/
theorem match_err_aux (lits : List String) : ∀ n,
    (∀ p d σ e, matchDatum n lits p d σ = .error e → e.2 = none) ∧
    (∀ ps ds mm σ e, matchStream n lits ps ds mm σ = .error e → e.2 = none) := by
  intro n
  induction n with
  | zero => constructor <;> intros <;> simp_all <;> (rename_i h; subst h; rfl)
  | succ n ih =>
    obtain ⟨ihD, ihS⟩ := ih
    constructor
    · intro p d σ e h
      cases hp : p.isListy
      · cases p <;> simp [Pat.isListy] at hp
        · simp at h
        · simp at h
        · rw [matchDatum_vec] at h
          cases d <;> simp at h
          exact ihS _ _ _ _ _ h
        · rw [matchDatum_ident] at h
          split at h <;> cases h
        · rw [matchDatum_prim] at h; cases h
      · cases hdl : d.isListy
        · rw [matchDatum_listy_atom hp hdl] at h; cases h
        · rw [matchDatum_listy hp hdl] at h
          split at h
          · rename_i e' he; cases h; exact ihS _ _ _ _ _ he
          · cases h
          · split at h
            · exact ihD _ _ _ _ h
            · cases h
            · cases h
    · intro ps ds mm σ e h
      cases ps with
      | nil => cases ds <;> simp at h
      | cons p ps =>
        cases ds with
        | nil =>
          cases hp : p.isEllipsis
          · rw [matchStream_cons_nil_ne hp] at h; cases h
          · cases p <;> simp [Pat.isEllipsis] at hp
            cases mm with
            | none => simp at h
            | some mp =>
              rw [matchStream_ell_nil_some] at h
              exact ihS _ _ _ _ _ h
        | cons d ds =>
          cases hp : p.isEllipsis
          · rw [matchStream_step_ne hp] at h
            split at h
            · rename_i e' he; cases h; exact ihD _ _ _ _ he
            · cases h
            · exact ihS _ _ _ _ _ h
          · cases p <;> simp [Pat.isEllipsis] at hp
            cases n with
            | zero => rw [matchStream_ell_one] at h; cases h; rfl
            | succ n =>
              cases mm with
              | none => rw [matchStream_ell_none] at h; cases h; rfl
              | some mp =>
                rw [matchStream_step_ell] at h
                split at h
                · rename_i e' he; cases h; exact ihD _ _ _ _ he
                · cases h
                · split at h
                  · cases h; rfl
                  · split at h
                    · rename_i e' he; cases h; exact ihS _ _ _ _ _ he
                    · cases h
                    · exact ihS _ _ _ _ _ h

/-- expanding a macro use never reports a located error -/
theorem transformRules_err {fuel : Nat} {lits : List String} {use : Datum} :
    ∀ (rules : List (Pat × Tmpl)) (e : SErr), transformRules fuel lits rules use = .error e → e.2 = none
  | [], e, h => by simp [transformRules] at h; subst h; rfl
  | (p, t) :: rest, e, h => by
    rw [transformRules] at h
    cases hm : matchDatum fuel lits p use [] with
    | error e' =>
      simp only [hm, bind, Except.bind] at h
      cases h; exact (match_err_aux lits fuel).1 _ _ _ _ hm
    | ok r =>
      obtain ⟨ok, σ⟩ := r
      simp only [hm, bind, Except.bind] at h
      split at h
      · split at h
        · cases h; rfl
        · split at h
          · cases h
          · cases h; rfl
      · exact transformRules_err rest e h

/-! ### building the rules of a `define-syntax` -/

theorem bind_err {α β} {x : Except SErr α} {f : α → Except SErr β} {e : SErr}
    (h : (x >>= f) = .error e) : x = .error e ∨ ∃ a, x = .ok a ∧ f a = .error e := by
  cases x with
  | error e' => left; simpa [bind, Except.bind] using h
  | ok a => right; exact ⟨a, rfl, h⟩

mutual
theorem toTmpl_err : ∀ (d : Datum) (e : SErr), toTmpl d = .error e → e.2.toList ⊆ d.locs
  | .sym s _, e, h => by simp [toTmpl] at h
  | .prim p _, e, h => by simp [toTmpl] at h
  | .nil _, e, h => by simp [toTmpl] at h
  | .pair a d l, e, h => by
    unfold toTmpl at h
    simp only [Datum.locs]
    split at h
    · cases h; simp [Datum.locs]
    · rcases bind_err h with h1 | ⟨t, -, h2⟩
      · have := toTmpl_err a e h1
        exact this.trans (by simp)
      · rcases bind_err h2 with h3 | ⟨es, -, h4⟩
        · have := collectSpine_err d (some t) e h3
          exact this.trans (by simp)
        · cases h4
  | .vec xs l, e, h => by
    rw [toTmpl] at h
    simp only [Datum.locs]
    rcases bind_err h with h1 | ⟨es, -, h2⟩
    · exact (collectElems_err xs none e h1).trans (by simp)
    · cases h2
theorem collectSpine_err : ∀ (d : Datum) (last : Option Tmpl) (e : SErr),
    collectSpine d last = .error e → e.2.toList ⊆ d.locs
  | .pair a d l, last, e, h => by
    unfold collectSpine at h
    simp only [Datum.locs]
    split at h
    · split at h
      · rcases bind_err h with h1 | ⟨es, -, h2⟩
        · exact (collectSpine_err d none e h1).trans (by simp)
        · cases h2
      · cases h; simp [Datum.locs]
    · rcases bind_err h with h1 | ⟨t, -, h2⟩
      · exact (toTmpl_err a e h1).trans (by simp)
      · rcases bind_err h2 with h3 | ⟨es, -, h4⟩
        · exact (collectSpine_err d (some t) e h3).trans (by simp)
        · cases h4
  | .nil _, last, e, h => by simp [collectSpine] at h
  | .sym s l, last, e, h => by
    unfold collectSpine at h
    split at h
    · split at h
      · cases h
      · cases h; simp [Datum.locs]
    · cases h
  | .prim q _, last, e, h => by simp [collectSpine] at h
  | .vec xs l, last, e, h => by
    unfold collectSpine at h
    simp only [Datum.locs]
    rcases bind_err h with h1 | ⟨es, -, h2⟩
    · exact (collectElems_err xs none e h1).trans (by simp)
    · cases h2
theorem collectElems_err : ∀ (xs : List Datum) (last : Option Tmpl) (e : SErr),
    collectElems xs last = .error e → e.2.toList ⊆ Datum.locsList xs
  | [], last, e, h => by simp [collectElems] at h
  | x :: xs, last, e, h => by
    unfold collectElems at h
    simp only [Datum.locsList]
    split at h
    · split at h
      · rcases bind_err h with h1 | ⟨es, -, h2⟩
        · exact (collectElems_err xs none e h1).trans (by simp)
        · cases h2
      · cases h; simp [Datum.locs]
    · rcases bind_err h with h1 | ⟨t, -, h2⟩
      · exact (toTmpl_err x e h1).trans (by simp)
      · rcases bind_err h2 with h3 | ⟨es, -, h4⟩
        · exact (collectElems_err xs (some t) e h3).trans (by simp)
        · cases h4
end

theorem mapM_err {α β} {f : α → Except SErr β} : ∀ {xs : List α} {e : SErr},
    xs.mapM f = .error e → ∃ x ∈ xs, f x = .error e
  | [], e, h => by simp [pure, Except.pure] at h
  | x :: xs, e, h => by
    rw [List.mapM_cons] at h
    rcases bind_err h with h1 | ⟨b, -, h2⟩
    · exact ⟨x, by simp, h1⟩
    · rcases bind_err h2 with h3 | ⟨bs, -, h4⟩
      · obtain ⟨y, hy, hf⟩ := mapM_err h3
        exact ⟨y, by simp [hy], hf⟩
      · cases h4

theorem expectList_ok {d d' : Datum} (h : expectList d = .ok d') : d' = d := by
  unfold expectList at h; split at h <;> cases h <;> rfl
theorem expectList_err {d : Datum} {e : SErr} (h : expectList d = .error e) : e.2 = none := by
  unfold expectList at h; split at h <;> cases h; rfl
theorem identOf_err {d : Datum} {e : SErr} (h : identOf d = .error e) : e.2.toList ⊆ d.locs := by
  unfold identOf at h; split at h <;> cases h
  exact Datum.loc_subset _
theorem popProper_err {d : Datum} {e : SErr} (h : popProper d = .error e) : e.2 = none := by
  unfold popProper at h; split at h <;> cases h; rfl
theorem popProper_ok {d first rest : Datum} (h : popProper d = .ok (some (first, rest))) :
    ∃ l, d = .pair first rest l := by
  unfold popProper at h; split at h <;> cases h <;> exact ⟨_, rfl⟩

theorem none_sub {T : List Pos} {e : SErr} (h : e.2 = none) : e.2.toList ⊆ T := by simp [h]

theorem toRule_err {keyword : String} {d : Datum} {e : SErr} (h : toRule keyword d = .error e) :
    e.2.toList ⊆ d.locs := by
  unfold toRule at h
  rcases bind_err h with h1 | ⟨d', hd', h2⟩
  · exact none_sub (expectList_err h1)
  · have := expectList_ok hd'; subst this
    split at h2
    · rename_i pd rest hel
      have hpd : pd.locs ⊆ d'.locs := Datum.elems_locs (by rw [hel]; simp)
      rcases bind_err h2 with h3 | ⟨pd', hpd', h4⟩
      · exact none_sub (expectList_err h3)
      · have := expectList_ok hpd'; subst this
        rcases bind_err h4 with h5 | ⟨o, ho, h6⟩
        · exact none_sub (popProper_err h5)
        · split at h6
          · cases h6; simp
          · rename_i first patRest
            obtain ⟨l, rfl⟩ := popProper_ok ho
            split at h6
            · rename_i k lk
              split at h6
              · cases h6
                refine List.Subset.trans ?_ hpd
                simp [Datum.locs]
              · split at h6
                · rename_i td rest'
                  rcases bind_err h6 with h7 | ⟨t, -, h8⟩
                  · exact (toTmpl_err td e h7).trans (Datum.elems_locs (by rw [hel]; simp))
                  · cases h8
                · cases h6; simp
            · cases h6; simp
    · cases h2; simp

theorem toRules_err {keyword : String} {d : Datum} {e : SErr} (h : toRules keyword d = .error e) :
    e.2.toList ⊆ d.locs := by
  unfold toRules at h
  rcases bind_err h with h1 | ⟨d', hd', h2⟩
  · exact none_sub (expectList_err h1)
  · have := expectList_ok hd'; subst this
    split at h2
    · cases h2; simp
    · rename_i first rest hel
      have hmem : ∀ x ∈ first :: rest, x.locs ⊆ d'.locs := by
        intro x hx
        exact Datum.elems_locs (List.mem_of_mem_drop (by rw [hel]; exact hx))
      simp only at h2
      rcases bind_err h2 with h3 | ⟨lr, hlr, h4⟩
      · split at h3
        · split at h3
          · rcases bind_err h3 with h5 | ⟨ld, -, h6⟩
            · exact none_sub (expectList_err h5)
            · cases h6
          · cases h3; simp
        · cases h3
        · cases h3
        · cases h3
          exact (Datum.loc_subset first).trans (hmem first (by simp))
      · obtain ⟨lits, ruleData⟩ := lr
        have hparts : (∀ x ∈ lits, x.locs ⊆ d'.locs) ∧ (∀ x ∈ ruleData, x.locs ⊆ d'.locs) := by
          split at hlr
          · split at hlr
            · rename_i ld rest'
              rcases hx : expectList ld with _ | ld'
              · simp [hx, bind, Except.bind] at hlr
              · have := expectList_ok hx; subst this
                simp only [hx, bind, Except.bind, pure, Except.pure, Except.ok.injEq, Prod.mk.injEq] at hlr
                obtain ⟨rfl, rfl⟩ := hlr
                exact ⟨fun x hx => (Datum.elems_locs hx).trans (hmem _ (by simp)),
                  fun x hx => hmem x (by simp [hx])⟩
            · cases hlr
          · cases hlr
            exact ⟨fun x hx => (Datum.elems_locs hx).trans (hmem _ (by simp)),
              fun x hx => hmem x (by simp [hx])⟩
          · cases hlr
            exact ⟨fun x hx => (Datum.elems_locs hx).trans (hmem _ (by simp)),
              fun x hx => hmem x (by simp [hx])⟩
          · cases hlr
        simp only at h4
        rcases bind_err h4 with h5 | ⟨ls, -, h6⟩
        · obtain ⟨x, hx, hf⟩ := mapM_err h5
          exact (identOf_err hf).trans (hparts.1 x hx)
        · rcases bind_err h6 with h7 | ⟨rs, -, h8⟩
          · obtain ⟨x, hx, hf⟩ := mapM_err h7
            exact (toRule_err hf).trans (hparts.2 x hx)
          · cases h8

end Macro

/-! ## the transformer: every position of the statement is a position of the datum -/

namespace XformLoc
open Xform

/-- every position of `L`, whatever its role, is in `T` -/
def RIn (T : List Pos) (L : List RPos) : Prop := ∀ x ∈ L, x.2 ∈ T

variable {T : List Pos}

theorem rIn_iff {L : List RPos} : RIn T L ↔ unrole L ⊆ T := by
  constructor
  · intro h l hl; obtain ⟨r, hr⟩ := mem_unrole.1 hl; exact h _ hr
  · intro h x hx; exact h (mem_unrole.2 ⟨x.1, hx⟩)
@[simp] theorem rIn_nil : RIn T [] := by simp [RIn]
@[simp] theorem rIn_append {a b : List RPos} : RIn T (a ++ b) ↔ RIn T a ∧ RIn T b := by
  simp [RIn, or_imp, forall_and]
@[simp] theorem rIn_as {r : Role} {l : Loc} : RIn T (l.as r) ↔ l.toList ⊆ T := by
  cases l <;> simp [RIn, Loc.as]
@[simp] theorem rIn_map {r : Role} {ls : List Pos} : RIn T (ls.map (fun p => (r, p))) ↔ ls ⊆ T := by
  constructor
  · intro h p hp; exact h (r, p) (List.mem_map.2 ⟨p, hp, rfl⟩)
  · intro h x hx; obtain ⟨p, hp, rfl⟩ := List.mem_map.1 hx; exact h hp

/-- all data of a list have their positions in `T` -/
def AllIn (T : List Pos) (ds : List Datum) : Prop := ∀ d ∈ ds, d.locs ⊆ T

theorem allIn_drop {ds : List Datum} (h : AllIn T ds) (n : Nat) : AllIn T (ds.drop n) :=
  fun d hd => h d (List.mem_of_mem_drop hd)
theorem allIn_head {ds : List Datum} (h : AllIn T ds) {d : Datum} (hd : ds.head? = some d) : d.locs ⊆ T :=
  h d (List.mem_of_head? hd)
theorem allIn_elems {d : Datum} (h : d.locs ⊆ T) : AllIn T d.elems :=
  fun _ hx => (Datum.elems_locs hx).trans h
theorem allIn_cons {d : Datum} {ds : List Datum} : AllIn T (d :: ds) ↔ d.locs ⊆ T ∧ AllIn T ds := by
  simp [AllIn]

theorem bind_def {α β} (m : XM α) (f : α → XM β) (s : SynEnv) :
    (m >>= f) s = match m s with
      | (.ok a, s') => f a s'
      | (.error e, s') => (.error e, s') := rfl

/-- what a transformer step yields: results satisfy `P`, located errors are located in `T` -/
def XPost {α} (T : List Pos) (m : XM α) (P : α → Prop) : Prop :=
  ∀ env, (∀ a, (m env).1 = .ok a → P a) ∧ (∀ e, (m env).1 = .error e → e.2.toList ⊆ T)

theorem xp_pure {α} {a : α} {P : α → Prop} (h : P a) : XPost T (pure a : XM α) P :=
  fun _ => ⟨fun b hb => by cases hb; exact h, fun e he => by cases he⟩
theorem xp_fail {α} {e : SErr} {P : α → Prop} (h : e.2.toList ⊆ T) : XPost T (Xform.fail e : XM α) P :=
  fun _ => ⟨fun b hb => (by cases hb), fun e' he => by cases he; exact h⟩
theorem xp_fail_none {α} {k : Err} {P : α → Prop} : XPost T (Xform.fail (k, none) : XM α) P :=
  xp_fail (by simp)
theorem xp_lift {α} {x : Except SErr α} (h : ∀ e, x = .error e → e.2.toList ⊆ T) :
    XPost T (lift x) (fun a => x = .ok a) :=
  fun _ => ⟨fun _ hb => hb, fun e he => h e he⟩
theorem xp_need {α} {o : Option α} : XPost T (need o) (fun a => o = some a) := by
  cases o
  · exact xp_fail_none
  · exact xp_pure rfl
theorem xp_bind {α β} {m : XM α} {f : α → XM β} {P : α → Prop} {Q : β → Prop}
    (hm : XPost T m P) (hf : ∀ a, P a → XPost T (f a) Q) : XPost T (m >>= f) Q := by
  intro env
  have h1 := hm env
  simp only [bind_def]
  generalize m env = x at h1
  obtain ⟨r, env'⟩ := x
  cases r with
  | error e => exact ⟨fun a ha => (by cases ha), fun e' he => by cases he; exact h1.2 e rfl⟩
  | ok a => exact hf a (h1.1 a rfl) env'
theorem xp_weaken {α} {m : XM α} {P Q : α → Prop} (hm : XPost T m P) (h : ∀ a, P a → Q a) :
    XPost T m Q := fun env => ⟨fun a ha => h a ((hm env).1 a ha), (hm env).2⟩
theorem xp_getEnv : XPost T getEnv (fun _ => True) :=
  fun _ => ⟨fun _ _ => trivial, fun e he => by cases he⟩
theorem xp_defineSyntax {k r} : XPost T (defineSyntax k r) (fun _ => True) :=
  fun _ => ⟨fun _ _ => trivial, fun e he => by cases he⟩
theorem xp_inChild {α} {m : XM α} {P : α → Prop} (hm : XPost T m P) : XPost T (inChild m) P := by
  intro env
  have h := hm ([] :: env)
  simp only [Xform.inChild]
  generalize m ([] :: env) = x at h
  obtain ⟨r, e'⟩ := x
  cases e' <;> exact h

theorem xp_mapM_loop {α β} {f : α → XM β} {P : β → Prop} {l : List α}
    (hf : ∀ a ∈ l, XPost T (f a) P) : ∀ (acc : List β), (∀ b ∈ acc, P b) →
    XPost T (List.mapM.loop f l acc) (fun bs => ∀ b ∈ bs, P b) := by
  induction l with
  | nil =>
    intro acc ha
    simp only [List.mapM.loop]
    exact xp_pure (fun b hb => ha b (List.mem_reverse.1 hb))
  | cons a l ih =>
    intro acc ha
    simp only [List.mapM.loop]
    refine xp_bind (hf a (List.mem_cons_self ..)) fun b hb => ?_
    refine ih (fun x hx => hf x (List.mem_cons_of_mem _ hx)) _ ?_
    intro x hx
    rcases List.mem_cons.1 hx with rfl | hx
    · exact hb
    · exact ha x hx

theorem xp_mapM {α β} {f : α → XM β} {P : β → Prop} {l : List α}
    (hf : ∀ a ∈ l, XPost T (f a) P) : XPost T (l.mapM f) (fun bs => ∀ b ∈ bs, P b) :=
  xp_mapM_loop hf [] (by simp)

theorem identOf_post (d : Datum) (hd : d.locs ⊆ T) : XPost T (identOf d) (fun _ => True) := by
  unfold Xform.identOf
  refine xp_weaken (xp_lift ?_) (fun _ _ => trivial)
  intro e he
  unfold Macro.identOf at he
  split at he <;> cases he
  exact (Datum.loc_subset _).trans hd

theorem expectList_post (d : Datum) : XPost T (expectList d) (fun d' => d' = d) := by
  unfold Xform.expectList
  refine xp_weaken (xp_lift ?_) ?_
  · intro e he; unfold Macro.expectList at he; split at he <;> cases he; simp
  · intro a ha; unfold Macro.expectList at ha; split at ha <;> cases ha <;> rfl

theorem spine_all_locs (d : Datum) {b : Datum} (hm : b ∈ d.spine.1 ++ d.spine.2.toList) :
    b.locs ⊆ d.locs := by
  have hs := Datum.spine_locs d
  rcases List.mem_append.1 hm with hm | hm
  · exact hs.1 b hm
  · cases ht : d.spine.2 with
    | none => simp [ht] at hm
    | some t =>
      simp only [ht, Option.toList_some, List.mem_singleton] at hm
      subst hm; exact hs.2 _ ht

theorem toFormals_post (d : Datum) (hd : d.locs ⊆ T) : XPost T (toFormals d) (fun _ => True) := by
  unfold Xform.toFormals
  split
  · simp only
    split
    · rename_i b hb
      exact xp_fail ((Datum.loc_subset b).trans
        ((spine_all_locs _ (List.mem_of_find?_eq_some hb)).trans hd))
    · exact xp_pure trivial
  · simp only
    split
    · rename_i b hb
      exact xp_fail ((Datum.loc_subset b).trans
        ((spine_all_locs _ (List.mem_of_find?_eq_some hb)).trans hd))
    · exact xp_pure trivial
  · exact xp_pure trivial
  · exact xp_fail ((Datum.loc_subset _).trans hd)

theorem toLibName_post (ds : List Datum) (hd : AllIn T ds) : XPost T (toLibName ds) (fun _ => True) := by
  unfold Xform.toLibName
  refine xp_weaken (xp_mapM (P := fun _ => True) ?_) (fun _ _ => trivial)
  intro d hdm
  have := hd d hdm
  split
  · exact xp_pure trivial
  · split
    · exact xp_pure trivial
    · refine xp_fail ?_
      simpa [Datum.locs] using this
  · exact xp_fail ((Datum.loc_subset _).trans this)

theorem toExportSpec_post (d : Datum) (hd : d.locs ⊆ T) :
    XPost T (toExportSpec d) (fun s => s.loc.toList ⊆ T) := by
  unfold Xform.toExportSpec
  have hl : d.loc.toList ⊆ T := (Datum.loc_subset d).trans hd
  split
  · refine xp_pure ?_; simpa [ExportSpec.loc, Datum.locs] using hd
  · simp only
    refine xp_bind xp_need fun h hh => ?_
    have he := allIn_elems hd
    split
    · refine xp_bind xp_need fun a ha => ?_
      refine xp_bind (identOf_post a (allIn_head (allIn_drop he 1) ha)) fun _ _ => ?_
      refine xp_bind xp_need fun b hb => ?_
      refine xp_bind (identOf_post b (allIn_head (allIn_drop he 2) hb)) fun _ _ => ?_
      exact xp_pure (by simpa [ExportSpec.loc] using hl)
    · exact xp_fail_none
  · simp only
    refine xp_bind xp_need fun h hh => ?_
    have he := allIn_elems hd
    split
    · refine xp_bind xp_need fun a ha => ?_
      refine xp_bind (identOf_post a (allIn_head (allIn_drop he 1) ha)) fun _ _ => ?_
      refine xp_bind xp_need fun b hb => ?_
      refine xp_bind (identOf_post b (allIn_head (allIn_drop he 2) hb)) fun _ _ => ?_
      exact xp_pure (by simpa [ExportSpec.loc] using hl)
    · exact xp_fail_none
  · exact xp_fail_none

theorem mapM_identOf_post {ds : List Datum} (hd : AllIn T ds) :
    XPost T (ds.mapM identOf) (fun _ => True) :=
  xp_weaken (xp_mapM (P := fun _ => True) (fun d hdm => identOf_post d (hd d hdm))) (fun _ _ => trivial)

theorem toImportSet_post : ∀ (n : Nat) (d : Datum), d.locs ⊆ T →
    XPost T (toImportSet n d) (fun s => s.locs ⊆ T)
  | 0, d, _ => by rw [Xform.toImportSet]; exact xp_fail_none
  | n + 1, d, hd => by
    rw [Xform.toImportSet]
    refine xp_bind (expectList_post d) fun d' hd' => ?_
    subst hd'
    have he := allIn_elems hd
    refine xp_bind xp_need fun first hf => ?_
    have hfirst := allIn_head he hf
    refine xp_bind (identOf_post first hfirst) fun spec _ => ?_
    split
    · skip
      dsimp only
      refine xp_bind xp_need fun s0 hs0 => ?_
      refine xp_bind (toImportSet_post n s0 (allIn_head (allIn_drop he 1) hs0)) fun s hs => ?_
      have hr := allIn_drop he 2
      exact xp_bind (mapM_identOf_post hr) fun _ _ => xp_pure (by simpa [ImportSet.locs] using hs)
    split
    · skip
      dsimp only
      refine xp_bind xp_need fun s0 hs0 => ?_
      refine xp_bind (toImportSet_post n s0 (allIn_head (allIn_drop he 1) hs0)) fun s hs => ?_
      have hr := allIn_drop he 2
      exact xp_bind (mapM_identOf_post hr) fun _ _ => xp_pure (by simpa [ImportSet.locs] using hs)
    split
    · skip
      dsimp only
      refine xp_bind xp_need fun s0 hs0 => ?_
      refine xp_bind (toImportSet_post n s0 (allIn_head (allIn_drop he 1) hs0)) fun s hs => ?_
      have hr := allIn_drop he 2
      refine xp_bind xp_need fun p hp => ?_
      exact xp_bind (identOf_post p (allIn_head hr hp)) fun _ _ => xp_pure (by simpa [ImportSet.locs] using hs)
    split
    · skip
      dsimp only
      refine xp_bind xp_need fun s0 hs0 => ?_
      refine xp_bind (toImportSet_post n s0 (allIn_head (allIn_drop he 1) hs0)) fun s hs => ?_
      have hr := allIn_drop he 2
      refine xp_bind (xp_mapM (P := fun _ => True) ?_) fun _ _ => xp_pure (by simpa [ImportSet.locs] using hs)
      intro pd hpd
      refine xp_bind (expectList_post pd) fun pd' hpd' => ?_
      subst hpd'
      have hpe := allIn_elems (hr pd' hpd)
      refine xp_bind xp_need fun a ha => ?_
      refine xp_bind (identOf_post a (allIn_head hpe ha)) fun _ _ => ?_
      refine xp_bind xp_need fun b hb => ?_
      refine xp_bind (identOf_post b (allIn_head (allIn_drop hpe 1) hb)) fun _ _ => ?_
      exact xp_pure trivial
    · refine xp_bind (toLibName_post _ he) fun _ _ => xp_pure ?_
      simpa [ImportSet.locs] using (Datum.loc_subset first).trans hfirst

theorem defs_rlocsList_eq (ds : List Def) : Def.rlocsList ds = ds.flatMap Def.rlocs := by
  induction ds with
  | nil => rfl
  | cons d ds ih => simp [Def.rlocsList, ih]
theorem expr_rlocsList_eq (es : List Expr) : Expr.rlocsList es = es.flatMap Expr.rlocs := by
  induction es with
  | nil => rfl
  | cons d ds ih => simp [Expr.rlocsList, ih]
theorem rIn_defs_reverse {ds : List Def} (h : RIn T (Def.rlocsList ds)) : RIn T (Def.rlocsList ds.reverse) := by
  rw [defs_rlocsList_eq] at h ⊢
  intro x hx; apply h
  simp only [List.mem_flatMap, List.mem_reverse] at hx ⊢; exact hx
theorem rIn_exprs_reverse {es : List Expr} (h : RIn T (Expr.rlocsList es)) :
    RIn T (Expr.rlocsList es.reverse) := by
  rw [expr_rlocsList_eq] at h ⊢
  intro x hx; apply h
  simp only [List.mem_flatMap, List.mem_reverse] at hx ⊢; exact hx

theorem rIn_importSets {sets : List ImportSet} (h : ∀ s ∈ sets, s.locs ⊆ T) :
    RIn T (ImportSet.rlocsList sets) := by
  simp only [ImportSet.rlocsList, rIn_map]
  intro p hp
  simp only [List.mem_flatMap] at hp
  obtain ⟨s, hs, hp⟩ := hp
  exact h s hs hp

theorem rIn_exports {specs : List ExportSpec} (h : ∀ s ∈ specs, s.loc.toList ⊆ T) :
    RIn T (specs.flatMap (fun s => s.loc.as .export)) := by
  intro x hx
  simp only [List.mem_flatMap] at hx
  obtain ⟨s, hs, hx⟩ := hx
  exact (rIn_as.2 (h s hs)) x hx

/-- the invariant for all functions of the mutual block at one amount of fuel -/
structure XAt (T : List Pos) (n : Nat) : Prop where
  stmt : ∀ d, d.locs ⊆ T → XPost T (toStatement n d) (fun s => RIn T s.rlocs)
  expr : ∀ d, d.locs ⊆ T → XPost T (toExpr n d) (fun e => RIn T e.rlocs)
  call : ∀ first args loc, first.locs ⊆ T → AllIn T args → loc.toList ⊆ T →
    XPost T (toCall n first args loc) (fun e => RIn T e.rlocs)
  exprs : ∀ ds, AllIn T ds → XPost T (toExprs n ds) (fun es => RIn T (Expr.rlocsList es))
  defn : ∀ args, AllIn T args → XPost T (toDefinition n args) (fun p => RIn T p.2.rlocs)
  lam : ∀ args, AllIn T args → XPost T (toLambda n args) (fun l => RIn T l.rlocs)
  body : ∀ ds defs exprs, AllIn T ds → RIn T (Def.rlocsList defs) → RIn T (Expr.rlocsList exprs) →
    XPost T (toBody n ds defs exprs) (fun p => RIn T (Def.rlocsList p.1) ∧ RIn T (Expr.rlocsList p.2))
  lib : ∀ args loc, AllIn T args → loc.toList ⊆ T →
    XPost T (toLibrary n args loc) (fun s => RIn T s.rlocs)
  decls : ∀ ds, AllIn T ds → XPost T (toLibDecls n ds) (fun xs => RIn T (LibDecl.rlocsList xs))
  decl : ∀ d, d.locs ⊆ T → XPost T (toLibDecl n d) (fun x => RIn T x.rlocs)
  stmts : ∀ ds, AllIn T ds → XPost T (toStatements n ds) (fun ss => RIn T (Statement.rlocsList ss))

theorem xAt_zero : XAt T 0 := by
  constructor <;> intros <;>
    simp only [toStatement, toExpr, toCall, toExprs, toDefinition, toLambda, toBody, toLibrary, toLibDecls,
      toLibDecl, toStatements] <;> exact xp_fail_none

section succ
variable {n : Nat} (ih : XAt T n)
include ih

theorem x_expr (d : Datum) (hd : d.locs ⊆ T) : XPost T (toExpr (n+1) d) (fun e => RIn T e.rlocs) := by
  rw [toExpr]
  refine xp_bind (ih.stmt d hd) fun s hs => ?_
  split
  · exact xp_pure (by simpa [Statement.rlocs] using hs)
  · exact xp_fail_none

theorem x_call (first args loc) (hf : first.locs ⊆ T) (ha : AllIn T args) (hl : loc.toList ⊆ T) :
    XPost T (toCall (n+1) first args loc) (fun e => RIn T e.rlocs) := by
  rw [toCall]
  refine xp_bind (ih.expr first hf) fun f hf' => ?_
  refine xp_bind (ih.exprs args ha) fun as has => ?_
  refine xp_pure ?_
  simp only [Expr.rlocs, rIn_append, rIn_as]
  refine ⟨hl, ?_, hf', has⟩
  -- the operator's own position is one of its positions
  cases f <;> simp only [Expr.rlocs, rIn_append, rIn_as] at hf' <;> simp only [Expr.loc] <;>
    first | exact hf'.1 | exact hf'

theorem x_exprs (ds) (hd : AllIn T ds) : XPost T (toExprs (n+1) ds) (fun es => RIn T (Expr.rlocsList es)) := by
  cases ds with
  | nil => rw [toExprs]; exact xp_pure (by simp [Expr.rlocsList])
  | cons d ds =>
    rw [toExprs]
    rw [allIn_cons] at hd
    refine xp_bind (ih.expr d hd.1) fun e he => ?_
    refine xp_bind (ih.exprs ds hd.2) fun es hes => ?_
    exact xp_pure (by simp [Expr.rlocsList, he, hes])

theorem x_defn (args) (ha : AllIn T args) :
    XPost T (toDefinition (n+1) args) (fun p => RIn T p.2.rlocs) := by
  rw [toDefinition]
  refine xp_bind xp_need fun first hf => ?_
  have hfirst := allIn_head ha hf
  split
  · refine xp_bind xp_need fun b hb => ?_
    refine xp_bind (ih.expr b (allIn_head (allIn_drop ha 1) hb)) fun e he => ?_
    exact xp_pure he
  · rename_i nameD formalsD l
    simp only [Datum.locs, List.append_subset] at hfirst
    refine xp_bind (identOf_post nameD hfirst.2.1) fun name _ => ?_
    refine xp_bind (toFormals_post formalsD hfirst.2.2) fun formals _ => ?_
    refine xp_bind (ih.body _ [] [] (allIn_drop ha 1) (by simp [Def.rlocsList]) (by simp [Expr.rlocsList]))
      fun p hp => ?_
    refine xp_pure ?_
    simp only [Expr.rlocs, Lambda.rlocs, rIn_append, rIn_as]
    exact ⟨(Datum.loc_subset nameD).trans hfirst.2.1, hp.1, hp.2⟩
  · exact xp_fail ((Datum.loc_subset _).trans hfirst)
  · exact xp_fail ((Datum.loc_subset _).trans hfirst)

theorem x_lam (args) (ha : AllIn T args) : XPost T (toLambda (n+1) args) (fun l => RIn T l.rlocs) := by
  rw [toLambda]
  refine xp_bind xp_need fun f hf => ?_
  refine xp_bind (toFormals_post f (allIn_head ha hf)) fun formals _ => ?_
  refine xp_bind (xp_inChild (ih.body _ [] [] (allIn_drop ha 1) (by simp [Def.rlocsList])
    (by simp [Expr.rlocsList]))) fun p hp => ?_
  exact xp_pure (by simp [Lambda.rlocs, hp.1, hp.2])

theorem x_body (ds defs exprs) (hd : AllIn T ds) (hdefs : RIn T (Def.rlocsList defs))
    (hexprs : RIn T (Expr.rlocsList exprs)) :
    XPost T (toBody (n+1) ds defs exprs)
      (fun p => RIn T (Def.rlocsList p.1) ∧ RIn T (Expr.rlocsList p.2)) := by
  cases ds with
  | nil =>
    rw [toBody]
    split
    · exact xp_fail_none
    · exact xp_pure ⟨rIn_defs_reverse hdefs, rIn_exprs_reverse hexprs⟩
  | cons d ds =>
    rw [toBody]
    rw [allIn_cons] at hd
    refine xp_bind (ih.stmt d hd.1) fun s hs => ?_
    split
    · rename_i df
      simp only [Statement.rlocs] at hs
      split
      · exact ih.body ds _ _ hd.2 (by simp [Def.rlocsList, hs, hdefs]) hexprs
      · cases df with
        | mk nm e l =>
          simp only [Def.rlocs, rIn_append, rIn_as] at hs
          exact xp_fail hs.1
    · rename_i e
      simp only [Statement.rlocs] at hs
      exact ih.body ds _ _ hd.2 hdefs (by simp [Expr.rlocsList, hs, hexprs])
    · exact xp_fail ((Datum.loc_subset d).trans hd.1)

theorem x_lib (args loc) (ha : AllIn T args) (hl : loc.toList ⊆ T) :
    XPost T (toLibrary (n+1) args loc) (fun s => RIn T s.rlocs) := by
  rw [toLibrary]
  refine xp_bind xp_need fun nd hnd => ?_
  refine xp_bind (expectList_post nd) fun nd' hnd' => ?_
  subst hnd'
  refine xp_bind (toLibName_post _ (allIn_elems (allIn_head ha hnd))) fun name _ => ?_
  refine xp_bind (ih.decls _ (allIn_drop ha 1)) fun decls hdecls => ?_
  exact xp_pure (by simp [Statement.rlocs, hl, hdecls])

theorem x_decls (ds) (hd : AllIn T ds) :
    XPost T (toLibDecls (n+1) ds) (fun xs => RIn T (LibDecl.rlocsList xs)) := by
  cases ds with
  | nil => rw [toLibDecls]; exact xp_pure (by simp [LibDecl.rlocsList])
  | cons d ds =>
    rw [toLibDecls]
    rw [allIn_cons] at hd
    refine xp_bind (ih.decl d hd.1) fun x hx => ?_
    refine xp_bind (ih.decls ds hd.2) fun xs hxs => ?_
    exact xp_pure (by simp [LibDecl.rlocsList, hx, hxs])

theorem x_decl (d) (hd : d.locs ⊆ T) : XPost T (toLibDecl (n+1) d) (fun x => RIn T x.rlocs) := by
  unfold toLibDecl
  refine xp_bind (expectList_post d) fun d' hd' => ?_
  subst hd'
  have he := allIn_elems hd
  refine xp_bind xp_need fun first hf => ?_
  split
  · refine xp_bind (xp_mapM (fun x hx => toExportSpec_post x (allIn_drop he 1 x hx))) fun specs hs => ?_
    exact xp_pure (by simp only [LibDecl.rlocs]; exact rIn_exports hs)
  · refine xp_bind (ih.stmts _ (allIn_drop he 1)) fun body hb => ?_
    exact xp_pure (by simpa [LibDecl.rlocs] using hb)
  · refine xp_bind (xp_mapM (fun x hx => toImportSet_post n x (allIn_drop he 1 x hx))) fun sets hs => ?_
    exact xp_pure (by simp only [LibDecl.rlocs]; exact rIn_importSets hs)

theorem x_stmts (ds) (hd : AllIn T ds) :
    XPost T (toStatements (n+1) ds) (fun ss => RIn T (Statement.rlocsList ss)) := by
  cases ds with
  | nil => rw [toStatements]; exact xp_pure (by simp [Statement.rlocsList])
  | cons d ds =>
    rw [toStatements]
    rw [allIn_cons] at hd
    refine xp_bind (ih.stmt d hd.1) fun x hx => ?_
    refine xp_bind (ih.stmts ds hd.2) fun xs hxs => ?_
    exact xp_pure (by simp [Statement.rlocsList, hx, hxs])

theorem x_stmt (d) (hd : d.locs ⊆ T) : XPost T (toStatement (n+1) d) (fun s => RIn T s.rlocs) := by
  unfold toStatement
  have hloc : d.loc.toList ⊆ T := (Datum.loc_subset d).trans hd
  split
  · exact xp_pure (by simpa [Statement.rlocs, Expr.rlocs, Datum.loc] using hloc)
  · exact xp_pure (by simpa [Statement.rlocs, Expr.rlocs, Datum.loc] using hloc)
  · exact xp_pure (by simp [Statement.rlocs, Expr.rlocs, hloc, hd])
  · exact xp_fail_none
  · rename_i a b l
    refine xp_bind (xp_lift (fun e he => Macro.none_sub (Macro.popProper_err he))) fun o ho => ?_
    split
    · exact xp_fail_none
    · rename_i first rest
      obtain ⟨l', hl'⟩ := Macro.popProper_ok ho
      cases hl'
      simp only [Datum.locs, List.append_subset] at hd
      simp only [Datum.loc] at hloc ⊢
      have hargs : AllIn T b.elems := allIn_elems hd.2.2
      split
      · rename_i kw lk
        split
        · refine xp_bind (ih.defn _ hargs) fun p hp => ?_
          exact xp_pure (by simp [Statement.rlocs, Def.rlocs, hloc, hp])
        split
        · exact ih.lib _ _ hargs hloc
        split
        · refine xp_bind (ih.lam _ hargs) fun lam hlam => ?_
          exact xp_pure (by simp [Statement.rlocs, Expr.rlocs, hloc, hlam])
        split
        · refine xp_bind xp_need fun t ht => ?_
          refine xp_bind (ih.expr t (allIn_head hargs ht)) fun t' ht' => ?_
          refine xp_bind xp_need fun c hc => ?_
          refine xp_bind (ih.expr c (allIn_head (allIn_drop hargs 1) hc)) fun c' hc' => ?_
          split
          · rename_i ad had
            refine xp_bind (ih.expr ad (allIn_head (allIn_drop hargs 2) had)) fun x hx => ?_
            refine xp_bind (xp_pure (P := fun a => a = some x) rfl) fun a' ha' => ?_
            subst ha'
            exact xp_pure (by simp [Statement.rlocs, Expr.rlocs, Expr.rlocsOpt, hloc, ht', hc', hx])
          · refine xp_bind (xp_pure (P := fun a => a = none) rfl) fun a' ha' => ?_
            subst ha'
            exact xp_pure (by simp [Statement.rlocs, Expr.rlocs, Expr.rlocsOpt, hloc, ht', hc'])
        split
        · refine xp_bind (xp_mapM (fun x hx => toImportSet_post n x (hargs x hx))) fun sets hs => ?_
          exact xp_pure (by
            simp only [Statement.rlocs, rIn_append, rIn_as]; exact ⟨hloc, rIn_importSets hs⟩)
        split
        · refine xp_bind xp_need fun q hq => ?_
          exact xp_pure (by simp [Statement.rlocs, Expr.rlocs, hloc, allIn_head hargs hq])
        split
        · refine xp_bind xp_need fun target htarget => ?_
          have htl := allIn_head hargs htarget
          split
          · rename_i name targetLoc
            refine xp_bind xp_need fun v hv => ?_
            refine xp_bind (ih.expr v (allIn_head (allIn_drop hargs 1) hv)) fun v' hv' => ?_
            refine xp_pure ?_
            cases targetLoc with
            | none => simpa [Statement.rlocs, Expr.rlocs, hv'] using hloc
            | some p =>
              have : p ∈ T := by simpa [Datum.locs] using htl
              simp [Statement.rlocs, Expr.rlocs, hv', this]
          · exact xp_fail_none
        split
        · refine xp_bind xp_need fun k hk => ?_
          refine xp_bind (identOf_post k (allIn_head hargs hk)) fun k' _ => ?_
          refine xp_bind xp_need fun spec hspec => ?_
          refine xp_bind (xp_lift (fun e he =>
            (Macro.toRules_err he).trans (allIn_head (allIn_drop hargs 1) hspec))) fun rules _ => ?_
          refine xp_bind xp_defineSyntax fun _ _ => ?_
          exact xp_pure (by simp [Statement.rlocs, hloc])
        · refine xp_bind xp_getEnv fun env _ => ?_
          split
          · rename_i rules hr
            refine xp_bind (xp_lift (fun e he => Macro.none_sub (Macro.transformRules_err _ e he)))
              fun expanded hex => ?_
            refine ih.stmt expanded ?_
            refine Macro.transformRules_locs (T := T) ?_ _ _ hex
            exact (Datum.locs_withLoc b l).trans (List.append_subset.2 ⟨hloc, hd.2.2⟩)
          · refine xp_bind (ih.call _ _ _ hd.2.1 hargs hloc) fun c hc => ?_
            exact xp_pure (by simpa [Statement.rlocs] using hc)
      · refine xp_bind (ih.call _ _ _ hd.2.1 hargs hloc) fun c hc => ?_
        exact xp_pure (by simpa [Statement.rlocs] using hc)

end succ

theorem xAt : ∀ n, XAt T n
  | 0 => xAt_zero
  | n + 1 =>
    have ih := xAt n
    ⟨x_stmt ih, x_expr ih, x_call ih, x_exprs ih, x_defn ih, x_lam ih, x_body ih, x_lib ih,
      x_decls ih, x_decl ih, x_stmts ih⟩

/-- `xform_locs`: every position in the statement `toStatement` returns is a position of the datum;
a located syntax error of the transformer is located inside the datum too -/
theorem toStatement_locs {fuel : Nat} {d : Datum} {env : SynEnv} :
    (∀ s, (toStatement fuel d env).1 = .ok s → unrole s.rlocs ⊆ d.locs) ∧
    (∀ e, (toStatement fuel d env).1 = .error e → e.2.toList ⊆ d.locs) := by
  have := (xAt (T := d.locs) fuel).stmt d (fun _ h => h) env
  exact ⟨fun s hs => rIn_iff.1 (this.1 s hs), this.2⟩

/-! ### the position of the statement itself -/

/-- successful results of `m` satisfy `P` -/
def XOk {α} (m : XM α) (P : α → Prop) : Prop := ∀ env a, (m env).1 = .ok a → P a

theorem xo_pure {α} {a : α} {P : α → Prop} (h : P a) : XOk (pure a : XM α) P :=
  fun _ b hb => by cases hb; exact h
theorem xo_fail {α} {e : SErr} {P : α → Prop} : XOk (Xform.fail e : XM α) P :=
  fun _ b hb => by cases hb
theorem xo_bind {α β} {m : XM α} {f : α → XM β} {Q : β → Prop} (hf : ∀ a, XOk (f a) Q) :
    XOk (m >>= f) Q := by
  intro env b hb
  simp only [bind_def] at hb
  generalize m env = x at hb
  obtain ⟨r, env'⟩ := x
  cases r with
  | error e => cases hb
  | ok a => exact hf a env' b hb

theorem xo_bind' {α β} {m : XM α} {f : α → XM β} {P : α → Prop} {Q : β → Prop} (hm : XOk m P)
    (hf : ∀ a, P a → XOk (f a) Q) : XOk (m >>= f) Q := by
  intro env b hb
  simp only [bind_def] at hb
  have := hm env
  generalize m env = x at hb this
  obtain ⟨r, env'⟩ := x
  cases r with
  | error e => cases hb
  | ok a => exact hf a (this a rfl) env' b hb

theorem toCall_loc (n first args loc) : XOk (toCall n first args loc) (fun e => e.loc = loc) := by
  cases n with
  | zero => rw [toCall]; exact xo_fail
  | succ n => rw [toCall]; exact xo_bind fun _ => xo_bind fun _ => xo_pure rfl

theorem toLibrary_loc (n args loc) : XOk (toLibrary n args loc) (fun s => s.loc = loc) := by
  cases n with
  | zero => rw [toLibrary]; exact xo_fail
  | succ n =>
    rw [toLibrary]
    exact xo_bind fun _ => xo_bind fun _ => xo_bind fun _ => xo_bind fun _ => xo_pure rfl

/-- is `d` a `(set! …)` form, or a use of a macro bound in `env`? -/
def isSetOrMacroUse (env : SynEnv) : Datum → Bool
  | .pair (.sym kw _) _ _ => kw = "set!" || (env.get? kw).isSome
  | _ => false

/-- the statement made from a form that is neither a `set!` nor a macro use is located where the
form is (for `set!` it is located at the assigned identifier, for a macro use where the statement
made from the expansion is) -/
theorem toStatement_loc_eq {n : Nat} {d : Datum} {env : SynEnv} {s : Statement}
    (h : (toStatement n d env).1 = .ok s) (hd : isSetOrMacroUse env d = false) : s.loc = d.loc := by
  cases n with
  | zero => rw [toStatement] at h; cases h
  | succ n =>
    unfold toStatement at h
    split at h
    · cases h; rfl
    · cases h; rfl
    · cases h; rfl
    · cases h
    · rename_i a b l
      simp only [bind_def, Xform.lift] at h
      split at h
      · rename_i o env1 ho
        simp only [Prod.mk.injEq] at ho
        obtain ⟨ho, rfl⟩ := ho
        split at h
        · cases h
        · rename_i first rest
          obtain ⟨l', hl'⟩ := Macro.popProper_ok ho
          cases hl'
          simp only [Datum.loc]
          have fin : ∀ {m : XM Statement}, XOk m (fun s => s.loc = l) → (m env).1 = .ok s → s.loc = l :=
            fun hm h => hm env s h
          split at h
          · rename_i kw lk
            simp only [isSetOrMacroUse, Bool.or_eq_false_iff, decide_eq_false_iff_not] at hd
            split at h
            · exact fin (xo_bind fun _ => xo_pure rfl) h
            split at h
            · exact toLibrary_loc _ _ _ _ _ h
            split at h
            · exact fin (xo_bind fun _ => xo_pure rfl) h
            split at h
            · refine fin (xo_bind fun _ => xo_bind fun _ => xo_bind fun _ => xo_bind fun _ => ?_) h
              split
              · exact xo_bind fun _ => xo_bind fun _ => xo_pure rfl
              · exact xo_bind fun _ => xo_pure rfl
            split at h
            · exact fin (xo_bind fun _ => xo_pure rfl) h
            split at h
            · exact fin (xo_bind fun _ => xo_pure rfl) h
            split at h
            · rename_i hset; exact absurd hset hd.1
            split at h
            · exact fin (xo_bind fun _ => xo_bind fun _ => xo_bind fun _ => xo_bind fun _ =>
                xo_bind fun _ => xo_pure rfl) h
            · simp only [bind_def, getEnv] at h
              have hnone : env.get? kw = none := by
                cases hg : env.get? kw with
                | none => rfl
                | some r => simp [hg] at hd
              simp only [hnone] at h
              exact fin (xo_bind' (P := fun e => e.loc = l) (toCall_loc _ _ _ _) fun c hc => xo_pure (by simpa [Statement.loc] using hc)) h
          · exact fin (xo_bind' (P := fun e => e.loc = l) (toCall_loc _ _ _ _) fun c hc => xo_pure (by simpa [Statement.loc] using hc)) h
      · cases h

/-- `(set! x e)` is located at `x` (at the form when `x` carries no position) -/
theorem toStatement_set_loc {n : Nat} {a l : Loc} {rest : Datum} {env : SynEnv} {s : Statement}
    (h : (toStatement n (.pair (.sym "set!" a) rest l) env).1 = .ok s) :
    ∃ name tl, rest.elems.head? = some (.sym name tl) ∧ s.loc = tl.orElse (fun _ => l) := by
  cases n with
  | zero => rw [toStatement] at h; cases h
  | succ n =>
    unfold toStatement at h
    simp only [bind_def, Xform.lift] at h
    split at h
    · rename_i o env1 ho
      simp only [Prod.mk.injEq] at ho
      obtain ⟨ho, rfl⟩ := ho
      split at h
      · cases h
      · rename_i first rest'
        obtain ⟨l', hl'⟩ := Macro.popProper_ok ho
        cases hl'
        simp only [Datum.loc] at h
        simp only [show ("set!" = "define") = False by decide, show ("set!" = "define-library") = False by decide,
          show ("set!" = "lambda") = False by decide, show ("set!" = "if") = False by decide,
          show ("set!" = "import") = False by decide, show ("set!" = "quote") = False by decide,
          if_false, if_true] at h
        refine (xo_bind' (P := fun t => rest.elems.head? = some t)
          (Q := fun s => ∃ name tl, rest.elems.head? = some (.sym name tl) ∧ s.loc = tl.orElse (fun _ => l))
          ?_ fun t ht => ?_) env s h
        · intro env' t ht
          cases hh : rest.elems.head? with
          | none => simp [hh, Xform.need, Xform.fail] at ht
          | some t' => simp only [hh, Xform.need] at ht; cases ht; rfl
        · split
          · rename_i name tl
            exact xo_bind fun _ => xo_bind fun _ => xo_pure ⟨name, tl, ht, rfl⟩
          · exact xo_fail
    · cases h

end XformLoc

/-! ## library sources carry no positions -/

mutual
theorem Datum.strip_locs : ∀ (d : Datum), d.strip.locs = []
  | .prim _ _ => by simp [Datum.strip, Datum.locs]
  | .sym _ _ => by simp [Datum.strip, Datum.locs]
  | .nil _ => by simp [Datum.strip, Datum.locs]
  | .pair a d _ => by simp [Datum.strip, Datum.locs, Datum.strip_locs a, Datum.strip_locs d]
  | .vec xs _ => by simp [Datum.strip, Datum.locs, Datum.stripList_locs xs]
theorem Datum.stripList_locs : ∀ (xs : List Datum), Datum.locsList (Datum.stripList xs) = []
  | [] => by simp [Datum.stripList, Datum.locsList]
  | x :: xs => by simp [Datum.stripList, Datum.locsList, Datum.strip_locs x, Datum.stripList_locs xs]
end

theorem unrole_eq_nil {L : List RPos} (h : unrole L ⊆ []) : L = [] := by
  cases L with
  | nil => rfl
  | cons x xs => have := h (a := x.2) (by simp [unrole]); simp at this

namespace InterpLoc
open Interp

theorem factoryOfText_go_clean (name : LibName) : ∀ (fuel : Nat) (s : Read.PState) (env : Xform.SynEnv)
    (f : Factory), factoryOfText.go name fuel s env = .ok f → f.rlocs = []
  | 0, s, env, f, h => by rw [factoryOfText.go] at h; cases h
  | fuel + 1, s, env, f, h => by
    rw [factoryOfText.go] at h
    split at h
    · cases h
    · cases h
    · rename_i d s' _
      simp only at h
      have hl := XformLoc.toStatement_locs (fuel := Xform.xformFuel d.strip) (d := d.strip) (env := env)
      split at h
      · cases h
      · rename_i n decls l env' hs
        split at h
        · cases h
          have := hl.1 _ (by rw [hs])
          rw [Datum.strip_locs] at this
          have h0 := unrole_eq_nil this
          simp only [Statement.rlocs, List.append_eq_nil_iff] at h0
          simpa [Factory.rlocs] using h0.2
        · exact factoryOfText_go_clean name fuel s' env' f h
      · exact factoryOfText_go_clean name fuel s' _ f h

/-- `library_code_unlocated`: the code of a factory made from a library source carries no position -/
theorem factoryOfText_clean : LibClean := by
  intro name text f h
  unfold factoryOfText at h
  exact factoryOfText_go_clean name _ _ _ f h

end InterpLoc

/-! ## the statement's own position -/

theorem Expr.loc_rlocs (e : Expr) : e.loc.as .node ⊆ e.rlocs := by
  cases e <;> simp [Expr.loc, Expr.rlocs]

theorem Statement.loc_rlocs (s : Statement) : s.loc.as .node ⊆ s.rlocs := by
  cases s with
  | importDecl sets l => simp [Statement.loc, Statement.rlocs]
  | definition d => cases d; simp [Statement.loc, Statement.rlocs, Def.rlocs]
  | syntaxDef n r l => simp [Statement.loc, Statement.rlocs]
  | expr e => simpa [Statement.loc, Statement.rlocs] using Expr.loc_rlocs e
  | libraryDef n d l => simp [Statement.loc, Statement.rlocs]

/-! ## the reader: data take their positions from the tokens consumed -/

namespace ReadLoc
open Read

/-- the positions the parser state holds: `Parser.location` and the position of the current token -/
def here (s : PState) : List Pos :=
  s.loc.toList ++ (match s.cur with | some t => t.loc.toList | none => [])

/-- every position an error raised from state `s` may carry -/
def errs (s : PState) : List Pos := here s ++ (tokLocs s.toks ++ s.lexErr.toList)

/-- the reader went from `s` to `s'` consuming the tokens `used` -/
structure Steps (s s' : PState) (used : List LToken) : Prop where
  toks : s.toks = used ++ s'.toks
  lexErr : s'.lexErr = s.lexErr
  here : here s' ⊆ here s ++ tokLocs used

theorem tokLocs_append (a b : List LToken) : tokLocs (a ++ b) = tokLocs a ++ tokLocs b := by
  simp [tokLocs]

theorem Steps.refl (s : PState) : Steps s s [] := ⟨by simp, rfl, by simp [tokLocs]⟩

theorem Steps.trans {s₁ s₂ s₃ : PState} {u₁ u₂ : List LToken} (h₁ : Steps s₁ s₂ u₁) (h₂ : Steps s₂ s₃ u₂) :
    Steps s₁ s₃ (u₁ ++ u₂) := by
  refine ⟨by rw [h₁.toks, h₂.toks]; simp, h₂.lexErr.trans h₁.lexErr, ?_⟩
  intro x hx
  have := h₂.here hx
  rw [tokLocs_append]
  rcases List.mem_append.1 this with h | h
  · have := h₁.here h
    simp only [List.mem_append] at this ⊢
    rcases this with h | h
    · exact Or.inl h
    · exact Or.inr (Or.inl h)
  · simp only [List.mem_append]; exact Or.inr (Or.inr h)

theorem Steps.errs {s s' : PState} {u : List LToken} (h : Steps s s' u) : errs s' ⊆ errs s := by
  intro x hx
  simp only [ReadLoc.errs, List.mem_append] at hx ⊢
  rcases hx with hx | hx | hx
  · have := h.here hx
    simp only [List.mem_append] at this
    rcases this with h' | h'
    · exact Or.inl h'
    · right; left; rw [h.toks, tokLocs_append]; simp [h']
  · right; left; rw [h.toks, tokLocs_append]; simp [hx]
  · right; right; rw [← h.lexErr]; exact hx

/-- `s` with the current token forgotten (the first step of `currentDatum`) -/
theorem here_drop_cur (s : PState) : here { s with cur := none } ⊆ here s := by
  simp [here]

theorem advance_ok {s s' : PState} (h : advance s = .ok s') :
    ∃ used, Steps s s' used ∧ here s' ⊆ tokLocs used ∧
      (∀ t, s'.cur = some t → used = [t]) := by
  unfold advance at h
  cases ht : s.toks with
  | cons t rest =>
    simp only [ht] at h
    cases h
    refine ⟨[t], ⟨by simp [ht], rfl, ?_⟩, ?_, by simp⟩
    · simp [here, tokLocs]
    · simp [here, tokLocs]
  | nil =>
    simp only [ht] at h
    split at h
    · cases h
    · cases h
      exact ⟨[], ⟨by simp [ht], rfl, by simp [here]⟩, by simp [here], by simp⟩

theorem advance_err {s : PState} {e : SErr} (h : advance s = .error e) : e.2.toList ⊆ errs s := by
  unfold advance at h
  split at h
  · cases h
  · split at h
    · rename_i e' he; cases h; simp [errs, he]
    · cases h

theorem advanceUnwrap_ok {s s' : PState} {t : LToken} (h : advanceUnwrap s = .ok (t, s')) :
    Steps s s' [t] ∧ s'.cur = some t ∧ here s' ⊆ tokLocs [t] := by
  unfold advanceUnwrap at h
  cases ha : advance s with
  | error e => simp [ha, bind, Except.bind] at h
  | ok s1 =>
    simp only [ha, bind, Except.bind] at h
    split at h
    · rename_i t' ht'
      simp only [pure, Except.pure, Except.ok.injEq, Prod.mk.injEq] at h
      obtain ⟨rfl, rfl⟩ := h
      obtain ⟨used, hs, hh, hu⟩ := advance_ok ha
      have := hu _ ht'; subst this
      exact ⟨hs, ht', hh⟩
    · cases h

theorem advanceUnwrap_err {s : PState} {e : SErr} (h : advanceUnwrap s = .error e) :
    e.2.toList ⊆ errs s := by
  unfold advanceUnwrap at h
  cases ha : advance s with
  | error e' =>
    simp only [ha, bind, Except.bind] at h
    cases h; exact advance_err ha
  | ok s1 =>
    simp only [ha, bind, Except.bind] at h
    split at h
    · cases h
    · cases h
      simp [errs, here]

theorem peek_err {s : PState} {e : SErr} (h : peek s = .error e) : e.2.toList ⊆ errs s := by
  unfold peek at h
  split at h
  · cases h
  · split at h
    · rename_i e' he; cases h; simp [errs, he]
    · cases h

theorem snoc_locs : ∀ (acc x : Datum), (snoc acc x).locs ⊆ acc.locs ++ x.locs
  | .pair a d l, x => by
    have := snoc_locs d x
    simp only [snoc, Datum.locs]
    intro p hp
    simp only [List.mem_append] at hp ⊢
    rcases hp with hp | hp | hp
    · exact Or.inl (Or.inl hp)
    · exact Or.inl (Or.inr (Or.inl hp))
    · rcases List.mem_append.1 (this hp) with h | h
      · exact Or.inl (Or.inr (Or.inr h))
      · exact Or.inr h
  | .prim _ _, x | .sym _ _, x | .nil _, x | .vec _ _, x => by
    simp [snoc, Datum.locs]

theorem setTail_locs : ∀ (acc t : Datum), (setTail acc t).locs ⊆ acc.locs ++ t.locs
  | .pair a d l, t => by
    have := setTail_locs d t
    simp only [setTail, Datum.locs]
    intro p hp
    simp only [List.mem_append] at hp ⊢
    rcases hp with hp | hp | hp
    · exact Or.inl (Or.inl hp)
    · exact Or.inl (Or.inr (Or.inl hp))
    · rcases List.mem_append.1 (this hp) with h | h
      · exact Or.inl (Or.inr (Or.inr h))
      · exact Or.inr h
  | .prim _ _, t | .sym _ _, t | .nil _, t | .vec _ _, t => by
    simp [setTail]

theorem mkQuote_locs (l : Loc) (inner : Datum) : (mkQuote l inner).locs ⊆ l.toList ++ inner.locs := by
  simp [mkQuote, Datum.locs]

/-- the invariant for all functions of the reader's mutual block at one amount of fuel -/
structure ReadAt (fuel : Nat) : Prop where
  cur_ok : ∀ s od s', currentDatum fuel s = .ok (od, s') →
    ∃ used, Steps s s' used ∧ ∀ d, od = some d → d.locs ⊆ here s ++ tokLocs used
  cur_err : ∀ s e, currentDatum fuel s = .error e → e.2.toList ⊆ errs s
  loop_ok : ∀ s listLoc acc dot d s', listLoop fuel s listLoc acc dot = .ok (d, s') →
    ∃ used, Steps s s' used ∧ d.locs ⊆ listLoc.toList ++ (acc.locs ++ (here s ++ tokLocs used))
  loop_err : ∀ s listLoc acc dot e, listLoop fuel s listLoc acc dot = .error e → e.2.toList ⊆ errs s
  rep_ok : ∀ s acc xs s', repeatDatum fuel s acc = .ok (xs, s') →
    ∃ used, Steps s s' used ∧ Datum.locsList xs ⊆ Datum.locsList acc ++ (here s ++ tokLocs used)
  rep_err : ∀ s acc e, repeatDatum fuel s acc = .error e → e.2.toList ⊆ errs s
  datum_ok : ∀ s d s', datum fuel s = .ok (d, s') →
    ∃ used, Steps s s' used ∧ d.locs ⊆ here s ++ tokLocs used
  datum_err : ∀ s e, datum fuel s = .error e → e.2.toList ⊆ errs s
  quoted_ok : ∀ s d s', parseQuoted fuel s = .ok (d, s') →
    ∃ used, Steps s s' used ∧ d.locs ⊆ here s ++ tokLocs used
  quoted_err : ∀ s e, parseQuoted fuel s = .error e → e.2.toList ⊆ errs s

theorem readAt_zero : ReadAt 0 := by
  constructor <;> intros <;> rename_i h <;>
    simp [currentDatum, listLoop, repeatDatum, datum, parseQuoted] at h <;> subst h <;> simp

theorem steps_dropCur (s : PState) : Steps s { s with cur := none } [] :=
  ⟨by simp, rfl, by simpa [tokLocs] using here_drop_cur s⟩

theorem cur_loc_here {s : PState} {t : LToken} (h : s.cur = some t) : t.loc.toList ⊆ here s := by
  simp [here, h]

theorem loc_here (s : PState) : s.loc.toList ⊆ here s := by simp [here]

theorem errs_dropCur (s : PState) : errs { s with cur := none } ⊆ errs s :=
  (steps_dropCur s).errs

theorem tokLocs_nil : tokLocs [] = [] := rfl
theorem tokLocs_cons (t : LToken) (ts : List LToken) : tokLocs (t :: ts) = t.loc.toList ++ tokLocs ts := by
  simp [tokLocs]

macro "sub_tac" : tactic =>
  `(tactic| (intro p hp; simp only [List.subset_def, List.mem_append, tokLocs_append, tokLocs_nil, tokLocs_cons, Datum.locs,
      Datum.locsList, List.mem_cons, List.not_mem_nil] at *; grind))

section succ
variable {fuel : Nat} (ih : ReadAt fuel)
include ih

theorem listOrPair_ok {s d s'} (h : listOrPair fuel s = .ok (d, s')) :
    ∃ used, Steps s s' used ∧ d.locs ⊆ here s ++ tokLocs used := by
  unfold listOrPair at h
  obtain ⟨used, hs, hd⟩ := ih.loop_ok _ _ _ _ _ _ h
  refine ⟨used, hs, ?_⟩
  have := loc_here s
  sub_tac

theorem listOrPair_err {s e} (h : listOrPair fuel s = .error e) : e.2.toList ⊆ errs s := by
  unfold listOrPair at h
  exact ih.loop_err _ _ _ _ _ h

theorem r_cur_ok {s od s'} (h : currentDatum (fuel + 1) s = .ok (od, s')) :
    ∃ used, Steps s s' used ∧ ∀ d, od = some d → d.locs ⊆ here s ++ tokLocs used := by
  rw [currentDatum] at h
  split at h
  · cases h; exact ⟨[], Steps.refl s, by simp⟩
  · rename_i t ht
    have h0 := steps_dropCur s
    have htl := cur_loc_here ht
    simp only at h
    split at h
    · cases h
      exact ⟨[], h0, fun d hd => by cases hd; simpa [Datum.locs, tokLocs] using htl⟩
    · cases h
      exact ⟨[], h0, fun d hd => by cases hd; simpa [Datum.locs, tokLocs] using htl⟩
    · cases hl : listOrPair fuel { s with cur := none } with
      | error e => simp [hl, bind, Except.bind] at h
      | ok r =>
        obtain ⟨d, s1⟩ := r
        simp only [hl, bind, Except.bind, pure, Except.pure, Except.ok.injEq, Prod.mk.injEq] at h
        obtain ⟨rfl, rfl⟩ := h
        obtain ⟨used, hs, hd⟩ := listOrPair_ok ih hl
        refine ⟨used, by simpa using h0.trans hs, fun d' hd' => ?_⟩
        cases hd'
        have := h0.here
        sub_tac
    · cases h
    · cases hl : repeatDatum fuel { s with cur := none } [] with
      | error e => simp [hl, bind, Except.bind] at h
      | ok r =>
        obtain ⟨xs, s1⟩ := r
        simp only [hl, bind, Except.bind, pure, Except.pure, Except.ok.injEq, Prod.mk.injEq] at h
        obtain ⟨rfl, rfl⟩ := h
        obtain ⟨used, hs, hd⟩ := ih.rep_ok _ _ _ _ hl
        refine ⟨used, by simpa using h0.trans hs, fun d' hd' => ?_⟩
        cases hd'
        have h1 := h0.here
        have h2 := hs.here
        have h3 := loc_here s1
        sub_tac
    · cases ha : advance { s with cur := none } with
      | error e => simp [ha, bind, Except.bind] at h
      | ok s1 =>
        simp only [ha, bind, Except.bind] at h
        cases hq : parseQuoted fuel s1 with
        | error e => simp [hq] at h
        | ok r =>
          obtain ⟨d, s2⟩ := r
          simp only [hq, pure, Except.pure, Except.ok.injEq, Prod.mk.injEq] at h
          obtain ⟨rfl, rfl⟩ := h
          obtain ⟨u1, hs1, hh1, -⟩ := advance_ok ha
          obtain ⟨u2, hs2, hd⟩ := ih.quoted_ok _ _ _ hq
          refine ⟨u1 ++ u2, by simpa using h0.trans (hs1.trans hs2), fun d' hd' => ?_⟩
          cases hd'
          sub_tac
    · cases h

theorem r_cur_err {s e} (h : currentDatum (fuel + 1) s = .error e) : e.2.toList ⊆ errs s := by
  rw [currentDatum] at h
  split at h
  · cases h
  · rename_i t ht
    have h0 := steps_dropCur s
    have htl : t.loc.toList ⊆ errs s := (cur_loc_here ht).trans (by simp [errs])
    simp only at h
    split at h
    · cases h
    · cases h
    · cases hl : listOrPair fuel { s with cur := none } with
      | error e' =>
        simp only [hl, bind, Except.bind] at h; cases h
        exact (listOrPair_err ih hl).trans h0.errs
      | ok r => simp [hl, bind, Except.bind, pure, Except.pure] at h
    · cases h; exact htl
    · cases hl : repeatDatum fuel { s with cur := none } [] with
      | error e' =>
        simp only [hl, bind, Except.bind] at h; cases h
        exact (ih.rep_err _ _ _ hl).trans h0.errs
      | ok r => simp [hl, bind, Except.bind, pure, Except.pure] at h
    · cases ha : advance { s with cur := none } with
      | error e' =>
        simp only [ha, bind, Except.bind] at h; cases h
        exact (advance_err ha).trans h0.errs
      | ok s1 =>
        simp only [ha, bind, Except.bind] at h
        cases hq : parseQuoted fuel s1 with
        | error e' =>
          simp only [hq] at h; cases h
          obtain ⟨u1, hs1, -, -⟩ := advance_ok ha
          exact ((ih.quoted_err _ _ hq).trans hs1.errs).trans h0.errs
        | ok r => simp [hq, pure, Except.pure] at h
    · cases h; exact htl

theorem r_quoted_ok {s d s'} (h : parseQuoted (fuel + 1) s = .ok (d, s')) :
    ∃ used, Steps s s' used ∧ d.locs ⊆ here s ++ tokLocs used := by
  rw [parseQuoted] at h
  cases hq : datum fuel s with
  | error e => simp [hq, bind, Except.bind] at h
  | ok r =>
    obtain ⟨inner, s1⟩ := r
    simp only [hq, bind, Except.bind, pure, Except.pure, Except.ok.injEq, Prod.mk.injEq] at h
    obtain ⟨rfl, rfl⟩ := h
    obtain ⟨used, hs, hd⟩ := ih.datum_ok _ _ _ hq
    refine ⟨used, hs, ?_⟩
    have h1 := mkQuote_locs s.loc inner
    have h2 := loc_here s
    sub_tac

theorem r_quoted_err {s e} (h : parseQuoted (fuel + 1) s = .error e) : e.2.toList ⊆ errs s := by
  rw [parseQuoted] at h
  cases hq : datum fuel s with
  | error e' => simp only [hq, bind, Except.bind] at h; cases h; exact ih.datum_err _ _ hq
  | ok r => simp [hq, bind, Except.bind, pure, Except.pure] at h

theorem r_datum_ok {s d s'} (h : datum (fuel + 1) s = .ok (d, s')) :
    ∃ used, Steps s s' used ∧ d.locs ⊆ here s ++ tokLocs used := by
  rw [datum] at h
  simp only at h
  split at h
  · cases h
  · rename_i t ht
    have hl0 := loc_here s
    split at h
    · exact listOrPair_ok ih h
    · cases hl : repeatDatum fuel s [] with
      | error e => simp [hl, bind, Except.bind] at h
      | ok r =>
        obtain ⟨xs, s1⟩ := r
        simp only [hl, bind, Except.bind, pure, Except.pure, Except.ok.injEq, Prod.mk.injEq] at h
        obtain ⟨rfl, rfl⟩ := h
        obtain ⟨used, hs, hd⟩ := ih.rep_ok _ _ _ _ hl
        refine ⟨used, hs, ?_⟩
        sub_tac
    · cases h; exact ⟨[], Steps.refl s, by simpa [Datum.locs, tokLocs] using hl0⟩
    · cases h; exact ⟨[], Steps.refl s, by simpa [Datum.locs, tokLocs] using hl0⟩
    · cases ha : advance s with
      | error e => simp [ha, bind, Except.bind] at h
      | ok s1 =>
        simp only [ha, bind, Except.bind] at h
        obtain ⟨u1, hs1, hh1, -⟩ := advance_ok ha
        obtain ⟨u2, hs2, hd⟩ := ih.quoted_ok _ _ _ h
        refine ⟨u1 ++ u2, hs1.trans hs2, ?_⟩
        sub_tac
    · cases h

theorem r_datum_err {s e} (h : datum (fuel + 1) s = .error e) : e.2.toList ⊆ errs s := by
  rw [datum] at h
  simp only at h
  have hl0 : s.loc.toList ⊆ errs s := (loc_here s).trans (by simp [errs])
  split at h
  · cases h; exact hl0
  · split at h
    · exact listOrPair_err ih h
    · cases hl : repeatDatum fuel s [] with
      | error e' => simp only [hl, bind, Except.bind] at h; cases h; exact ih.rep_err _ _ _ hl
      | ok r => simp [hl, bind, Except.bind, pure, Except.pure] at h
    · cases h
    · cases h
    · cases ha : advance s with
      | error e' => simp only [ha, bind, Except.bind] at h; cases h; exact advance_err ha
      | ok s1 =>
        simp only [ha, bind, Except.bind] at h
        obtain ⟨u1, hs1, -, -⟩ := advance_ok ha
        exact (ih.quoted_err _ _ h).trans hs1.errs
    · cases h; exact hl0

theorem r_rep_ok {s acc xs s'} (h : repeatDatum (fuel + 1) s acc = .ok (xs, s')) :
    ∃ used, Steps s s' used ∧ Datum.locsList xs ⊆ Datum.locsList acc ++ (here s ++ tokLocs used) := by
  rw [repeatDatum] at h
  cases hp : peek s with
  | error e => simp [hp, bind, Except.bind] at h
  | ok o =>
    simp only [hp, bind, Except.bind] at h
    split at h
    · cases h
    · rename_i t
      split at h
      · cases ha : advance s with
        | error e => simp [ha] at h
        | ok s1 =>
          simp only [ha, pure, Except.pure, Except.ok.injEq, Prod.mk.injEq] at h
          obtain ⟨rfl, rfl⟩ := h
          obtain ⟨u1, hs1, -, -⟩ := advance_ok ha
          refine ⟨u1, hs1, ?_⟩
          rw [Datum.locsList_subset]
          intro x hx
          have := Datum.locs_subset_locsList (List.mem_reverse.1 hx)
          sub_tac
      · cases ha : advance s with
        | error e => simp [ha] at h
        | ok s1 =>
          simp only [ha] at h
          cases hd : datum fuel s1 with
          | error e => simp [hd] at h
          | ok r =>
            obtain ⟨d, s2⟩ := r
            simp only [hd] at h
            obtain ⟨u1, hs1, hh1, -⟩ := advance_ok ha
            obtain ⟨u2, hs2, hd2⟩ := ih.datum_ok _ _ _ hd
            obtain ⟨u3, hs3, hx3⟩ := ih.rep_ok _ _ _ _ h
            refine ⟨u1 ++ (u2 ++ u3), hs1.trans (hs2.trans hs3), ?_⟩
            have h2 := hs2.here
            sub_tac

theorem r_rep_err {s acc e} (h : repeatDatum (fuel + 1) s acc = .error e) : e.2.toList ⊆ errs s := by
  rw [repeatDatum] at h
  cases hp : peek s with
  | error e' => simp only [hp, bind, Except.bind] at h; cases h; exact peek_err hp
  | ok o =>
    simp only [hp, bind, Except.bind] at h
    split at h
    · cases h; exact (loc_here s).trans (by simp [errs])
    · split at h
      · cases ha : advance s with
        | error e' => simp only [ha] at h; cases h; exact advance_err ha
        | ok s1 => simp [ha, pure, Except.pure] at h
      · cases ha : advance s with
        | error e' => simp only [ha] at h; cases h; exact advance_err ha
        | ok s1 =>
          simp only [ha] at h
          obtain ⟨u1, hs1, -, -⟩ := advance_ok ha
          cases hd : datum fuel s1 with
          | error e' => simp only [hd] at h; cases h; exact (ih.datum_err _ _ hd).trans hs1.errs
          | ok r =>
            obtain ⟨d, s2⟩ := r
            simp only [hd] at h
            obtain ⟨u2, hs2, -⟩ := ih.datum_ok _ _ _ hd
            exact ((ih.rep_err _ _ _ h).trans hs2.errs).trans hs1.errs

theorem r_loop_ok {s listLoc acc dot d s'} (h : listLoop (fuel + 1) s listLoc acc dot = .ok (d, s')) :
    ∃ used, Steps s s' used ∧ d.locs ⊆ listLoc.toList ++ (acc.locs ++ (here s ++ tokLocs used)) := by
  rw [listLoop] at h
  cases ha : advanceUnwrap s with
  | error e => simp [ha, bind, Except.bind] at h
  | ok r =>
    obtain ⟨t, s1⟩ := r
    simp only [ha, bind, Except.bind] at h
    obtain ⟨hs1, hc1, hh1⟩ := advanceUnwrap_ok ha
    split at h
    · split at h
      · cases h
      · obtain ⟨u, hs, hd⟩ := ih.loop_ok _ _ _ _ _ _ h
        refine ⟨[t] ++ u, hs1.trans hs, ?_⟩
        sub_tac
    · simp only [pure, Except.pure, Except.ok.injEq, Prod.mk.injEq] at h
      obtain ⟨rfl, rfl⟩ := h
      refine ⟨[t], hs1, ?_⟩
      have := Datum.locs_withLoc acc listLoc
      sub_tac
    · cases hcd : currentDatum fuel s1 with
      | error e => simp [hcd] at h
      | ok r =>
        obtain ⟨od, s2⟩ := r
        simp only [hcd] at h
        obtain ⟨u2, hs2, hd2⟩ := ih.cur_ok _ _ _ hcd
        split at h
        · cases h
        · rename_i element
          have hel := hd2 element rfl
          split at h
          · rename_i ca cd cl
            split at h
            · cases ha2 : advanceUnwrap s2 with
              | error e => simp [ha2] at h
              | ok r2 =>
                obtain ⟨t2, s3⟩ := r2
                simp only [ha2] at h
                obtain ⟨hs3, -, -⟩ := advanceUnwrap_ok ha2
                split at h
                · simp only [pure, Except.pure, Except.ok.injEq, Prod.mk.injEq] at h
                  obtain ⟨rfl, rfl⟩ := h
                  refine ⟨[t] ++ (u2 ++ [t2]), hs1.trans (hs2.trans hs3), ?_⟩
                  have h4 := Datum.locs_withLoc (setTail (Datum.pair ca cd cl) element) listLoc
                  have h5 := setTail_locs (Datum.pair ca cd cl) element
                  sub_tac
                · cases h
            · obtain ⟨u, hs, hd⟩ := ih.loop_ok _ _ _ _ _ _ h
              refine ⟨[t] ++ (u2 ++ u), hs1.trans (hs2.trans hs), ?_⟩
              have h5 := snoc_locs (Datum.pair ca cd cl) element
              have h6 := hs2.here
              sub_tac
          · obtain ⟨u, hs, hd⟩ := ih.loop_ok _ _ _ _ _ _ h
            refine ⟨[t] ++ (u2 ++ u), hs1.trans (hs2.trans hs), ?_⟩
            have h6 := hs2.here
            sub_tac

theorem r_loop_err {s listLoc acc dot e} (h : listLoop (fuel + 1) s listLoc acc dot = .error e) :
    e.2.toList ⊆ errs s := by
  rw [listLoop] at h
  cases ha : advanceUnwrap s with
  | error e' => simp only [ha, bind, Except.bind] at h; cases h; exact advanceUnwrap_err ha
  | ok r =>
    obtain ⟨t, s1⟩ := r
    simp only [ha, bind, Except.bind] at h
    obtain ⟨hs1, hc1, hh1⟩ := advanceUnwrap_ok ha
    have htl : t.loc.toList ⊆ errs s := by
      have := hs1.toks
      intro x hx
      simp only [errs, List.mem_append]
      right; left; rw [this, tokLocs_append]; simp [tokLocs_cons, hx]
    split at h
    · split at h
      · cases h; exact htl
      · exact (ih.loop_err _ _ _ _ _ h).trans hs1.errs
    · simp [pure, Except.pure] at h
    · cases hcd : currentDatum fuel s1 with
      | error e' => simp only [hcd] at h; cases h; exact (ih.cur_err _ _ hcd).trans hs1.errs
      | ok r =>
        obtain ⟨od, s2⟩ := r
        simp only [hcd] at h
        obtain ⟨u2, hs2, -⟩ := ih.cur_ok _ _ _ hcd
        split at h
        · cases h; simp
        · split at h
          · split at h
            · cases ha2 : advanceUnwrap s2 with
              | error e' =>
                simp only [ha2] at h; cases h
                exact ((advanceUnwrap_err ha2).trans hs2.errs).trans hs1.errs
              | ok r2 =>
                obtain ⟨t2, s3⟩ := r2
                simp only [ha2] at h
                obtain ⟨hs3, -, -⟩ := advanceUnwrap_ok ha2
                split at h
                · simp [pure, Except.pure] at h
                · cases h
                  exact ((((loc_here s3).trans (by simp [errs])).trans hs3.errs).trans hs2.errs).trans hs1.errs
            · exact ((ih.loop_err _ _ _ _ _ h).trans hs2.errs).trans hs1.errs
          · exact ((ih.loop_err _ _ _ _ _ h).trans hs2.errs).trans hs1.errs

end succ

theorem readAt : ∀ fuel, ReadAt fuel
  | 0 => readAt_zero
  | fuel + 1 =>
    have ih := readAt fuel
    ⟨fun _ _ _ => r_cur_ok ih, fun _ _ => r_cur_err ih, fun _ _ _ _ _ _ => r_loop_ok ih,
     fun _ _ _ _ _ => r_loop_err ih, fun _ _ _ _ => r_rep_ok ih, fun _ _ _ => r_rep_err ih,
     fun _ _ _ => r_datum_ok ih, fun _ _ => r_datum_err ih, fun _ _ _ => r_quoted_ok ih,
     fun _ _ => r_quoted_err ih⟩

/-- `reader_locs_from_tokens`, for `nextDatum`: the tokens `used` were consumed; every position of
the datum is the position of one of them -/
theorem nextDatum_ok {s s' : PState} {od : Option Datum} (h : nextDatum s = .ok (od, s')) :
    ∃ used, s.toks = used ++ s'.toks ∧ s'.lexErr = s.lexErr ∧ ∀ d, od = some d → d.locs ⊆ tokLocs used := by
  unfold nextDatum at h
  cases ha : advance s with
  | error e => simp [ha, bind, Except.bind] at h
  | ok s1 =>
    simp only [ha, bind, Except.bind] at h
    obtain ⟨u1, hs1, hh1, -⟩ := advance_ok ha
    obtain ⟨u2, hs2, hd⟩ := (readAt _).cur_ok _ _ _ h
    refine ⟨u1 ++ u2, (hs1.trans hs2).toks, (hs1.trans hs2).lexErr, fun d hd' => ?_⟩
    have := hd d hd'
    sub_tac

/-- a reader error is located at a token of the rest of the text, at the parser's current position,
or where the lexer failed -/
theorem nextDatum_err {s : PState} {e : SErr} (h : nextDatum s = .error e) : e.2.toList ⊆ errs s := by
  unfold nextDatum at h
  cases ha : advance s with
  | error e' => simp only [ha, bind, Except.bind] at h; cases h; exact advance_err ha
  | ok s1 =>
    simp only [ha, bind, Except.bind] at h
    obtain ⟨u1, hs1, -, -⟩ := advance_ok ha
    exact ((readAt _).cur_err _ _ h).trans hs1.errs

end ReadLoc

/-! ## the lexer: token and error positions are cursors inside the text -/

namespace LexLoc
open Lex Text

/-- `e` is the cursor reached from `p` after some prefix of `cs` -/
def Cur (cs : List Char) (p e : Lex.Pos) : Prop := ∃ pre, pre <+: cs ∧ e = advs pre p

theorem Cur.here (cs : List Char) (p : Lex.Pos) : Cur cs p p := ⟨[], List.nil_prefix, rfl⟩

theorem Cur.cons {cs : List Char} {p e : Lex.Pos} (c : Char) (h : Cur cs (adv c p) e) : Cur (c :: cs) p e := by
  obtain ⟨pre, hp, he⟩ := h
  exact ⟨c :: pre, (List.cons_prefix_cons).2 ⟨rfl, hp⟩, by simp [advs, he]⟩

theorem Cur.used {cs rest : List Char} {p p' e : Lex.Pos} {used : List Char} (hu : Used cs p rest p' used)
    (h : Cur rest p' e) : Cur cs p e := by
  obtain ⟨pre, hp, he⟩ := h
  refine ⟨used ++ pre, ?_, by rw [advs_append, ← hu.pos, he]⟩
  rw [hu.split]; exact (List.prefix_append_right_inj used).2 hp

theorem testDelimiter_err {p : Lex.Pos} {c : Char} {e} (h : testDelimiter p c = .error e) : e = p := by
  unfold testDelimiter at h; split at h <;> cases h; rfl
theorem endOfToken_err {cs : List Char} {p : Lex.Pos} {e} (h : endOfToken cs p = .error e) : e = p := by
  unfold endOfToken at h; split at h
  · cases h
  · exact testDelimiter_err h
theorem endOfSharpToken_err {cs : List Char} {p : Lex.Pos} {e} (h : endOfSharpToken cs p = .error e) : e = p := by
  unfold endOfSharpToken at h; split at h
  · cases h
  · exact endOfToken_err h

theorem takeRun_used (f : Char → Bool) (cs : List Char) (p : Lex.Pos) (acc : List Char) :
    Used cs p (takeRun f cs p acc).2.1 (takeRun f cs p acc).2.2 (cs.takeWhile f) := by
  rw [takeRun_spec]
  exact ⟨by simp, rfl⟩

theorem bindE {α β ε} {x : Except ε α} {f : α → Except ε β} {e : ε}
    (h : (x >>= f) = .error e) : x = .error e ∨ ∃ a, x = .ok a ∧ f a = .error e := by
  cases x with
  | error e' => left; simpa [bind, Except.bind] using h
  | ok a => right; exact ⟨a, rfl, h⟩

theorem integerToken_err {lit cs p e} (h : integerToken lit cs p = .error e) : e = p := by
  unfold integerToken at h; split at h <;> cases h; rfl
theorem realToken_err {lit cs p e} (h : realToken lit cs p = .error e) : e = p := by
  unfold realToken at h; split at h <;> cases h; rfl

theorem normalIdentifier_err {first cs p e} (h : normalIdentifier first cs p = .error e) : Cur cs p e := by
  unfold normalIdentifier at h
  have hu := takeRun_used isSubsequent cs p []
  generalize takeRun isSubsequent cs p [] = r at h hu
  obtain ⟨run, cs1, p1⟩ := r
  simp only at h hu
  split at h
  · cases h
  · rcases bindE h with h1 | ⟨_, -, h2⟩
    · rw [testDelimiter_err h1]; exact Cur.used hu (Cur.here _ _)
    · cases h2

theorem quotedIdentifier_err : ∀ {cs p acc e}, quotedIdentifier cs p acc = .error e → Cur cs p e
  | [], p, acc, e, h => by simp [quotedIdentifier] at h; subst h; exact Cur.here _ _
  | c :: cs, p, acc, e, h => by
    unfold quotedIdentifier at h
    split at h
    · cases h
    · exact Cur.cons c (quotedIdentifier_err h)

theorem hexEscape_err : ∀ {cs p acc e}, hexEscape cs p acc = .error e → Cur cs p e
  | [], p, acc, e, h => by simp [hexEscape] at h; subst h; exact Cur.here _ _
  | c :: cs, p, acc, e, h => by
    unfold hexEscape at h
    split at h
    · cases h
    · exact Cur.cons c (hexEscape_err h)

theorem string_err : ∀ (n : Nat) {cs : List Char} {p acc e}, cs.length ≤ n →
    Lex.string cs p acc = .error e → Cur cs p e := by
  intro n
  induction n with
  | zero =>
    intro cs p acc e hn h
    have : cs = [] := List.length_eq_zero_iff.1 (by omega)
    subst this
    simp [Lex.string] at h; subst h; exact Cur.here _ _
  | succ n ih =>
    intro cs p acc e hn h
    cases cs with
    | nil => simp [Lex.string] at h; subst h; exact Cur.here _ _
    | cons c cs =>
      simp only [List.length_cons] at hn
      rw [Lex.string.eq_def] at h
      dsimp only at h
      by_cases hc : c = '"'
      · rw [if_pos hc] at h; cases h
      rw [if_neg hc] at h
      by_cases hb : c = '\\'
      · rw [if_pos hb] at h
        cases cs with
        | nil => dsimp only at h; cases h; exact Cur.cons c (Cur.here _ _)
        | cons ec cs1 =>
          dsimp only at h
          simp only [List.length_cons] at hn
          have hrec : ∀ {acc'}, Lex.string cs1 (adv ec (adv c p)) acc' = .error e → Cur (c :: ec :: cs1) p e :=
            fun h' => Cur.cons c (Cur.cons ec (ih (by omega) h'))
          by_cases hq : ec = 'a'
          · rw [if_pos hq] at h; exact hrec h
          rw [if_neg hq] at h; clear hq
          by_cases hq : ec = 'b'
          · rw [if_pos hq] at h; exact hrec h
          rw [if_neg hq] at h; clear hq
          by_cases hq : ec = 't'
          · rw [if_pos hq] at h; exact hrec h
          rw [if_neg hq] at h; clear hq
          by_cases hq : ec = 'n'
          · rw [if_pos hq] at h; exact hrec h
          rw [if_neg hq] at h; clear hq
          by_cases hq : ec = 'r'
          · rw [if_pos hq] at h; exact hrec h
          rw [if_neg hq] at h; clear hq
          by_cases hq : ec = '"'
          · rw [if_pos hq] at h; exact hrec h
          rw [if_neg hq] at h; clear hq
          by_cases hq : ec = '\\'
          · rw [if_pos hq] at h; exact hrec h
          rw [if_neg hq] at h; clear hq
          by_cases hq : ec = '|'
          · rw [if_pos hq] at h; exact hrec h
          rw [if_neg hq] at h; clear hq
          by_cases hq : ec = ' '
          · rw [if_pos hq] at h; exact hrec h
          rw [if_neg hq] at h; clear hq
          by_cases hx : ec = 'x'
          · rw [if_pos hx] at h
            split at h
            · rename_i e' he
              cases h
              exact Cur.cons c (Cur.cons ec (hexEscape_err he))
            · rename_i hex cs2 p3 he
              obtain ⟨body, hu, -⟩ := hexEscape_inv he
              have hlen := hu.length_le
              cases hs : hexScalar? hex with
              | some ch =>
                simp only [hs] at h
                exact Cur.cons c (Cur.cons ec (Cur.used hu (ih (by simp at hlen; omega) h)))
              | none =>
                simp only [hs] at h
                cases h
                exact Cur.cons c (Cur.cons ec (Cur.used hu (Cur.here _ _)))
          · rw [if_neg hx] at h; cases h; exact Cur.cons c (Cur.cons ec (Cur.here _ _))
      · rw [if_neg hb] at h
        exact Cur.cons c (ih (by omega) h)

theorem string_error {cs : List Char} {p acc e} (h : Lex.string cs p acc = .error e) : Cur cs p e :=
  string_err cs.length (Nat.le_refl _) h

theorem dotSubsequent_err {acc cs p e} (h : dotSubsequent acc cs p = .error e) : Cur cs p e := by
  unfold dotSubsequent at h
  split at h
  · cases h
  · rename_i c rest
    split at h
    · have hu := takeRun_used isSubsequent (c :: rest) p []
      generalize takeRun isSubsequent (c :: rest) p [] = r at h hu
      obtain ⟨run, cs1, p1⟩ := r
      simp only at h hu
      split at h
      · cases h
      · rcases bindE h with h1 | ⟨_, -, h2⟩
        · rw [testDelimiter_err h1]; exact Cur.used hu (Cur.here _ _)
        · cases h2
    · rcases bindE h with h1 | ⟨_, -, h2⟩
      · rw [testDelimiter_err h1]; exact Cur.here _ _
      · cases h2

theorem peculiarIdentifier_err {first cs p e} (h : peculiarIdentifier first cs p = .error e) : Cur cs p e := by
  unfold peculiarIdentifier at h
  split at h
  · split at h
    · cases h
    · rename_i c cs1
      split at h
      · rcases bindE h with h1 | ⟨_, -, h2⟩
        · exact Cur.cons c (dotSubsequent_err h1)
        · cases h2
      · rcases bindE h with h1 | ⟨_, -, h2⟩
        · exact dotSubsequent_err h1
        · cases h2
  · rcases bindE h with h1 | ⟨_, -, h2⟩
    · exact dotSubsequent_err h1
    · cases h2

/-- `numberSuffix` consumes a prefix -/
theorem numberSuffix_used (lit cs : List Char) (p : Lex.Pos) :
    ∃ used, Used cs p (numberSuffix lit cs p).2.1 (numberSuffix lit cs p).2.2 used := by
  unfold numberSuffix
  cases cs with
  | nil => exact ⟨[], Used.nil _ _⟩
  | cons e cs1 =>
    simp only
    cases cs1 with
    | nil =>
      simp only [takeRun]
      exact ⟨[e], ⟨rfl, rfl⟩⟩
    | cons s cs2 =>
      simp only
      split
      · have hu := takeRun_used isDigit cs2 (adv s (adv e p)) []
        exact ⟨e :: s :: _, (hu.cons s).cons e⟩
      · have hu := takeRun_used isDigit (s :: cs2) (adv e p) []
        exact ⟨e :: _, hu.cons e⟩

theorem real_err {lit cs p e} (h : real lit cs p = .error e) : Cur cs p e := by
  unfold real at h
  split at h
  · rename_i dot cs1
    simp only at h
    split at h
    · cases h
    · rename_i nc rest
      split at h
      · obtain ⟨used, hu⟩ := numberSuffix_used (lit ++ ['.']) (nc :: rest) (adv dot p)
        generalize numberSuffix (lit ++ ['.']) (nc :: rest) (adv dot p) = r at h hu
        obtain ⟨lit', cs2, p2⟩ := r
        simp only at h hu
        rcases bindE h with h1 | ⟨_, -, h2⟩
        · rw [endOfToken_err h1]; exact Cur.cons dot (Cur.used hu (Cur.here _ _))
        · cases h2
      · split at h
        · have hu := takeRun_used isDigit (nc :: rest) (adv dot p) []
          generalize takeRun isDigit (nc :: rest) (adv dot p) [] = r at h hu
          obtain ⟨ds, cs2, p2⟩ := r
          simp only at h hu
          split at h
          · cases h
          · rename_i nnc rest2
            split at h
            · obtain ⟨used, hu2⟩ := numberSuffix_used (lit ++ ['.'] ++ ds) (nnc :: rest2) p2
              generalize numberSuffix (lit ++ ['.'] ++ ds) (nnc :: rest2) p2 = r2 at h hu2
              obtain ⟨lit', cs3, p3⟩ := r2
              simp only at h hu2
              rcases bindE h with h1 | ⟨_, -, h2⟩
              · rw [endOfToken_err h1]
                exact Cur.cons dot (Cur.used hu (Cur.used hu2 (Cur.here _ _)))
              · cases h2
            · rcases bindE h with h1 | ⟨_, -, h2⟩
              · rw [testDelimiter_err h1]; exact Cur.cons dot (Cur.used hu (Cur.here _ _))
              · cases h2
        · rcases bindE h with h1 | ⟨_, -, h2⟩
          · rw [testDelimiter_err h1]; exact Cur.cons dot (Cur.here _ _)
          · cases h2
  · cases h

theorem number_err {first cs p e} (h : number first cs p = .error e) : Cur cs p e := by
  unfold number at h
  have hu := takeRun_used isDigit cs p []
  generalize takeRun isDigit cs p [] = r at h hu
  obtain ⟨ds, cs1, p1⟩ := r
  simp only at h hu
  split at h
  · rw [integerToken_err h]; exact Cur.used hu (Cur.here _ _)
  · rename_i nc rest
    split at h
    · obtain ⟨used, hu2⟩ := numberSuffix_used (first :: ds) (nc :: rest) p1
      generalize numberSuffix (first :: ds) (nc :: rest) p1 = r2 at h hu2
      obtain ⟨lit', cs2, p2⟩ := r2
      simp only at h hu2
      rcases bindE h with h1 | ⟨_, -, h2⟩
      · rw [endOfToken_err h1]; exact Cur.used hu (Cur.used hu2 (Cur.here _ _))
      · rw [realToken_err h2]; exact Cur.used hu (Cur.used hu2 (Cur.here _ _))
    · split at h
      · rename_i hdot
        subst hdot
        rcases bindE h with h1 | ⟨r3, h3, h2⟩
        · exact Cur.used hu (real_err h1)
        · obtain ⟨lit', cs2, p2⟩ := r3
          obtain ⟨used, hu3, -⟩ := real_inv h3
          rw [realToken_err h2]; exact Cur.used hu (Cur.used hu3 (Cur.here _ _))
      · split at h
        · have hu2 := takeRun_used isDigit rest (adv nc p1) []
          generalize takeRun isDigit rest (adv nc p1) [] = r2 at h hu2
          obtain ⟨den, cs3, p3⟩ := r2
          simp only at h hu2
          have hp3 : Cur cs p p3 := Cur.used hu (Cur.cons nc (Cur.used hu2 (Cur.here _ _)))
          rcases bindE h with h1 | ⟨_, -, h2⟩
          · rw [endOfToken_err h1]; exact hp3
          · split at h2 <;> cases h2 <;> exact hp3
        · rcases bindE h with h1 | ⟨_, -, h2⟩
          · rw [testDelimiter_err h1]; exact Cur.used hu (Cur.here _ _)
          · rw [integerToken_err h2]; exact Cur.used hu (Cur.here _ _)

theorem character_err {first cs p e} (h : character first cs p = .error e) : Cur cs p e := by
  unfold character at h
  have hu := takeRun_used isAsciiAlnum cs p []
  generalize takeRun isAsciiAlnum cs p [] = r at h hu
  obtain ⟨run, cs1, p1⟩ := r
  simp only at h hu
  have hp1 : Cur cs p p1 := Cur.used hu (Cur.here _ _)
  rcases bindE h with h1 | ⟨_, -, h2⟩
  · rw [endOfSharpToken_err h1]; exact hp1
  · repeat' split at h2
    all_goals first
      | (cases h2; done)
      | (cases h2; exact hp1)

theorem map_some_err {α ε} {x : Except ε α} {e : ε} (h : x.map some = .error e) : x = .error e := by
  cases x <;> simp [Except.map] at h; subst h; rfl

theorem token_err {cs p e} (h : token cs p = .error e) : Cur cs p e := by
  cases cs with
  | nil => simp [token] at h
  | cons c cs1 =>
    rw [token.eq_def] at h
    dsimp only at h
    by_cases h1 : c = '('
    · rw [if_pos h1] at h; cases h
    rw [if_neg h1] at h
    by_cases h2 : c = ')'
    · rw [if_pos h2] at h; cases h
    rw [if_neg h2] at h
    by_cases h3 : c = '\''
    · rw [if_pos h3] at h; cases h
    rw [if_neg h3] at h
    by_cases h4 : c = '`'
    · rw [if_pos h4] at h; cases h
    rw [if_neg h4] at h
    by_cases h5 : c = '#'
    · rw [if_pos h5] at h
      cases cs1 with
      | nil => cases h; exact Cur.cons _ (Cur.here _ _)
      | cons cn cs2 =>
        simp only at h
        split at h
        · cases h
        split at h
        · rcases bindE h with h1 | ⟨_, -, h2⟩
          · rw [endOfSharpToken_err h1]; exact Cur.cons _ (Cur.cons _ (Cur.here _ _))
          · cases h2
        split at h
        · cases cs2 with
          | nil => cases h; exact Cur.cons _ (Cur.cons _ (Cur.here _ _))
          | cons cnn cs3 =>
            exact Cur.cons _ (Cur.cons _ (Cur.cons _ (character_err (map_some_err h))))
        split at h
        · cases cs2 with
          | nil => cases h; exact Cur.cons _ (Cur.cons _ (Cur.here _ _))
          | cons c8 cs3 =>
            simp only at h
            split at h
            · cases cs3 with
              | nil => cases h; exact Cur.cons _ (Cur.cons _ (Cur.cons _ (Cur.here _ _)))
              | cons cp cs4 =>
                simp only at h
                split at h
                · cases h
                · cases h; exact Cur.cons _ (Cur.cons _ (Cur.cons _ (Cur.cons _ (Cur.here _ _))))
            · cases h; exact Cur.cons _ (Cur.cons _ (Cur.cons _ (Cur.here _ _)))
        · cases h; exact Cur.cons _ (Cur.cons _ (Cur.here _ _))
    rw [if_neg h5] at h
    by_cases h6 : c = ','
    · rw [if_pos h6] at h
      cases cs1 with
      | nil => cases h
      | cons nc cs2 =>
        simp only at h
        split at h <;> cases h
    rw [if_neg h6] at h
    by_cases h7 : c = '.'
    · rw [if_pos h7] at h
      cases cs1 with
      | nil => cases h
      | cons nc cs2 =>
        simp only at h
        split at h
        · cases h
        · exact Cur.cons _ (peculiarIdentifier_err (map_some_err h))
    rw [if_neg h7] at h
    by_cases h8 : (c = '+' || c = '-') = true
    · rw [if_pos h8] at h
      cases cs1 with
      | nil => exact Cur.cons _ (peculiarIdentifier_err (map_some_err h))
      | cons nc cs2 =>
        simp only at h
        split at h
        · exact Cur.cons _ (number_err (map_some_err h))
        · exact Cur.cons _ (peculiarIdentifier_err (map_some_err h))
    rw [if_neg h8] at h
    by_cases h9 : c = '"'
    · rw [if_pos h9] at h
      exact Cur.cons _ (string_error (map_some_err h))
    rw [if_neg h9] at h
    by_cases h10 : isDigit c = true
    · rw [if_pos h10] at h
      exact Cur.cons _ (number_err (map_some_err h))
    rw [if_neg h10] at h
    by_cases h11 : c = '|'
    · rw [if_pos h11] at h
      exact Cur.cons _ (quotedIdentifier_err (map_some_err h))
    rw [if_neg h11] at h
    exact Cur.cons _ (normalIdentifier_err (map_some_err h))

theorem next_err {cs p e} (h : next cs p = .error e) : Cur cs p e := by
  unfold next at h
  obtain ⟨a, h1, h2, -⟩ := skipAtmosphere_inv false cs p
  generalize skipAtmosphere false cs p = r at *
  obtain ⟨cs1, p1⟩ := r
  simp only at h h1 h2
  exact Cur.used ⟨h1, h2⟩ (token_err h)

/-- the cursors of a token list: each token's position is reached after a further non-empty chunk
of the text -/
def TokCursors : List Char → Lex.Pos → List LToken → Prop
  | _, _, [] => True
  | cs, p, t :: ts => ∃ pre rest, pre ≠ [] ∧ cs = pre ++ rest ∧ t.loc = some (advs pre p) ∧
      TokCursors rest (advs pre p) ts

theorem allAux_cursors : ∀ (fuel : Nat) (cs : List Char) (p : Lex.Pos) (acc ts : List LToken) (e : Option LexErr),
    allAux fuel cs p acc = (ts, e) →
    ∃ new, ts = acc.reverse ++ new ∧ TokCursors cs p new ∧ ∀ pe, e = some pe → Cur cs p pe
  | 0, cs, p, acc, ts, e, h => by
    simp only [allAux, Prod.mk.injEq] at h
    obtain ⟨rfl, rfl⟩ := h
    exact ⟨[], by simp, trivial, by simp⟩
  | fuel + 1, cs, p, acc, ts, e, h => by
    rw [allAux] at h
    split at h
    · rename_i e' hn
      simp only [Prod.mk.injEq] at h
      obtain ⟨rfl, rfl⟩ := h
      exact ⟨[], by simp, trivial, fun pe hpe => by cases hpe; exact next_err hn⟩
    · simp only [Prod.mk.injEq] at h
      obtain ⟨rfl, rfl⟩ := h
      exact ⟨[], by simp, trivial, by simp⟩
    · rename_i t cs1 p1 hn
      obtain ⟨a, used, h1, h2, -, hshape⟩ := next_inv hn
      obtain ⟨new, hts, hc, he⟩ := allAux_cursors fuel cs1 p1 _ ts e h
      have hne : a ++ used ≠ [] := by
        have := hshape.ne_nil
        simp [this]
      have hp1 : p1 = advs (a ++ used) p := by rw [h2, advs_append]
      refine ⟨⟨t, some p1⟩ :: new, by simp [hts], ⟨a ++ used, cs1, hne, by simp [h1], by simp [hp1], ?_⟩, ?_⟩
      · rw [← hp1]; exact hc
      · intro pe hpe
        exact Cur.used (used := a ++ used) ⟨by simp [h1], hp1⟩ (he pe hpe)

/-- every token's cursor is the cursor after a non-empty prefix of the text -/
theorem TokCursors.mem : ∀ {cs p ts}, TokCursors cs p ts → ∀ t ∈ ts,
    ∃ pre, pre ≠ [] ∧ pre <+: cs ∧ t.loc = some (advs pre p)
  | cs, p, t :: ts, h, t', ht' => by
    obtain ⟨pre, rest, hne, hcs, hl, hrest⟩ := h
    rcases List.mem_cons.1 ht' with rfl | ht'
    · exact ⟨pre, hne, by simp [hcs], hl⟩
    · obtain ⟨pre', hne', hp', hl'⟩ := TokCursors.mem hrest t' ht'
      refine ⟨pre ++ pre', by simp [hne], ?_, by rw [hl', advs_append]⟩
      rw [hcs]; exact (List.prefix_append_right_inj pre).2 hp'

end LexLoc

/-! ## whole programs -/

namespace ProgLoc
open Interp ReadLoc LexLoc InterpLoc Text

theorem nextDatum_steps {s s' : Read.PState} {od : Option Datum} (h : Read.nextDatum s = .ok (od, s')) :
    ∃ used, Steps s s' used ∧ here s' ⊆ here s ++ tokLocs used ∧
      ∀ d, od = some d → d.locs ⊆ tokLocs used := by
  unfold Read.nextDatum at h
  cases ha : Read.advance s with
  | error e => simp [ha, bind, Except.bind] at h
  | ok s1 =>
    simp only [ha, bind, Except.bind] at h
    obtain ⟨u1, hs1, hh1, -⟩ := advance_ok ha
    obtain ⟨u2, hs2, hd⟩ := (readAt _).cur_ok _ _ _ h
    refine ⟨u1 ++ u2, hs1.trans hs2, (hs1.trans hs2).here, fun d hd' => ?_⟩
    have := hd d hd'
    sub_tac

/-- all tokens of a text with the cursor after them, and the lexer error: cursors inside the text -/
theorem all_cursors (cs : List Char) :
    TokCursors cs (1, 1) (Lex.all cs).1 ∧ ∀ pe, (Lex.all cs).2 = some pe → Cur cs (1, 1) pe := by
  unfold Lex.all
  generalize hr : Lex.allAux (cs.length + 1) cs (1, 1) [] = r
  obtain ⟨ts, e⟩ := r
  obtain ⟨new, hts, hc, he⟩ := allAux_cursors (cs.length + 1) cs (1, 1) [] ts e hr
  simp only [List.reverse_nil, List.nil_append] at hts
  subst hts; exact ⟨hc, he⟩

/-- every position the reader can ever hold or report for the text is a cursor inside the text -/
theorem text_positions (cs : List Char) (l : Pos)
    (h : l ∈ tokLocs (Lex.all cs).1 ++ (Lex.all cs).2.toList) : Cur cs (1, 1) l := by
  obtain ⟨hc, he⟩ := all_cursors cs
  rcases List.mem_append.1 h with h | h
  · simp only [tokLocs, List.mem_flatMap] at h
    obtain ⟨t, ht, hl⟩ := h
    obtain ⟨pre, -, hp, hloc⟩ := hc.mem t ht
    rw [hloc] at hl
    simp only [Option.toList_some, List.mem_singleton] at hl
    exact ⟨pre, hp, hl⟩
  · exact he l (by simpa using h)

/-- `Interpreter::eval` form by form: a reported position is a position the reader holds, a position
of the code already in the state, the position of a token still to be read, or the lexer's error
position — or the error arose while reading a library source -/
theorem evalText_go_loc (fuel : Nat) : ∀ (n : Nat) (s : Read.PState) (st : State) (last : Option Value)
    (r : Except SErr (Option Value)) (st' : State),
    evalText.go fuel n s st last = (r, st') → ∀ k l, r = .error (k, some l) →
      l ∈ here s ++ (unrole st.rlocs ++ (tokLocs s.toks ++ s.lexErr.toList)) ∨ LibReadErr (k, some l)
  | 0, s, st, last, r, st', h, k, l, hr => by
    rw [evalText.go] at h; cases h; cases hr
  | n + 1, s, st, last, r, st', h, k, l, hr => by
    rw [evalText.go] at h
    split at h
    · rename_i e he
      cases h; cases hr
      have := nextDatum_err he (a := l) (by simp)
      left
      simp only [errs, List.mem_append] at this ⊢
      rcases this with h | h | h
      · exact Or.inl h
      · exact Or.inr (Or.inr (Or.inl h))
      · exact Or.inr (Or.inr (Or.inr h))
    · cases h; cases hr
    · rename_i d s' hd
      obtain ⟨used, hs, hh, hdl⟩ := nextDatum_steps hd
      have hdl := hdl d rfl
      have hused : tokLocs used ⊆ tokLocs s.toks := by
        rw [hs.toks, tokLocs_append]; exact List.subset_append_left _ _
      split at h
      · rename_i e syn hx
        cases h; cases hr
        have := ((XformLoc.toStatement_locs (fuel := Xform.xformFuel d) (d := d) (env := st.syn)).2 _
          (by rw [hx])) (a := l) (by simp)
        left
        simp only [List.mem_append]
        exact Or.inr (Or.inr (Or.inl (hused (hdl this))))
      · rename_i stmt syn hx
        have hlocs := (XformLoc.toStatement_locs (fuel := Xform.xformFuel d) (d := d) (env := st.syn)).1 _
          (by rw [hx])
        split at h
        · rename_i e st1 hev
          cases h; cases hr
          have i := evalAst_in (T := st.rlocs ++ stmt.rlocs) factoryOfText_clean hev
            (stIn_iff.2 (List.subset_append_left _ _)) (List.subset_append_right _ _)
          obtain ⟨loc0, hk, hloc⟩ := i.2 k (some l) rfl
          have key : ∀ r, (r, l) ∈ st.rlocs ++ stmt.rlocs →
              l ∈ here s ++ (unrole st.rlocs ++ (tokLocs s.toks ++ s.lexErr.toList)) := by
            intro r hr
            simp only [List.mem_append]
            rcases List.mem_append.1 hr with hr | hr
            · exact Or.inr (Or.inl (mem_unrole.2 ⟨r, hr⟩))
            · exact Or.inr (Or.inr (Or.inl (hused (hdl (hlocs (mem_unrole.2 ⟨r, hr⟩))))))
          cases loc0 with
          | none =>
            left
            have hsl : stmt.loc = some l := by
              cases hsl : stmt.loc with
              | none => simp [hsl] at hloc
              | some p => simp [hsl] at hloc; rw [hloc]
            exact key .node (List.mem_append_right _ (Statement.loc_rlocs stmt (by simp [hsl, Loc.as])))
          | some l0 =>
            have : l0 = l := by simpa using hloc.symm
            subst this
            rcases hk l0 rfl with ⟨-, h | h⟩ | ⟨-, h⟩ | ⟨-, h⟩ | h
            · exact Or.inl (key _ h)
            · exact Or.inl (key _ h)
            · exact Or.inl (key _ h)
            · exact Or.inl (key _ h)
            · exact Or.inr h
        · rename_i v st1 hev
          have i := evalAst_in (T := st.rlocs ++ stmt.rlocs) factoryOfText_clean hev
            (stIn_iff.2 (List.subset_append_left _ _)) (List.subset_append_right _ _)
          rcases evalText_go_loc fuel n s' st1 v r st' h k l hr with h | h
          · left
            have h1 := stIn_iff.1 i.1
            simp only [List.mem_append] at h ⊢
            rcases h with h | h | h | h
            · rcases List.mem_append.1 (hh h) with h | h
              · exact Or.inl h
              · exact Or.inr (Or.inr (Or.inl (hused h)))
            · obtain ⟨r', hr'⟩ := mem_unrole.1 h
              rcases List.mem_append.1 (h1 hr') with h | h
              · exact Or.inr (Or.inl (mem_unrole.2 ⟨r', h⟩))
              · exact Or.inr (Or.inr (Or.inl (hused (hdl (hlocs (mem_unrole.2 ⟨r', h⟩))))))
            · right; right; left; rw [hs.toks, tokLocs_append]; exact List.mem_append_right _ h
            · right; right; right; rw [← hs.lexErr]; exact h
          · exact Or.inr h

/-- `Interpreter::eval` on a program text: every reported position is a position of the code the
state held before (none for an interpreter that has only loaded libraries), or the cursor reached
after some prefix of the program text — never beyond the end of the file —, or the error arose
while reading a library source. -/
theorem evalText_loc {fuel : Nat} {st st' : State} {text : List Char} {k : Err} {l : Pos}
    (h : evalText fuel st text = (.error (k, some l), st')) :
    l ∈ unrole st.rlocs ∨ Cur text (1, 1) l ∨ LibReadErr (k, some l) := by
  unfold evalText at h
  rcases evalText_go_loc fuel _ _ _ _ _ _ h k l rfl with h | h
  · simp only [List.mem_append] at h
    rcases h with h | h | h
    · simp [here, Read.ofText] at h
    · exact Or.inl h
    · exact Or.inr (Or.inl (text_positions text l (by simpa [Read.ofText] using h)))
  · exact Or.inr (Or.inr h)

/-- the factory list of `Interpreter::default()` with the two bundled texts abstracted -/
theorem default_factories (withHost : Bool) : ∃ (b w : String), (default_ withHost).factories =
    [(libRuschmBase, .native nativeBase), (libRuschmWrite, .native nativeWrite)]
      ++ (match factoryOfText libSchemeBase b with | .ok f => [(libSchemeBase, f)] | .error _ => [])
      ++ (match factoryOfText libSchemeWrite w with | .ok f => [(libSchemeWrite, f)] | .error _ => [])
      ++ (if withHost then [(libVerifHost, .native nativeHost)] else []) := by
  refine ⟨Gen.baseLibText, Gen.writeLibText, ?_⟩
  unfold default_
  generalize Gen.baseLibText = b
  generalize Gen.writeLibText = w
  rfl

theorem default_store (withHost : Bool) :
    (default_ withHost).store.frames = #[{ parent := none, defs := [] }] ∧
    (default_ withHost).store.vecs = #[] ∧ (default_ withHost).instances = [] := by
  unfold default_
  generalize Gen.baseLibText = b
  generalize Gen.writeLibText = w
  exact ⟨rfl, rfl, rfl⟩

theorem default_unlocated (withHost : Bool) : (default_ withHost).rlocs = [] := by
  apply unrole_eq_nil
  have : StIn [] (default_ withHost) := by
    refine ⟨⟨?_, ?_⟩, ?_, ?_⟩
    · intro i f hf kv hkv
      have hfr := (default_store withHost).1
      rw [hfr] at hf
      have : f = { parent := none, defs := [] } := by
        rcases i with _ | i <;> simp at hf
        exact hf.symm
      subst this; simp at hkv
    · intro i c hc
      have hv := (default_store withHost).2.1
      rw [hv] at hc; simp at hc
    · intro p hp
      have hi := (default_store withHost).2.2
      rw [hi] at hp; simp at hp
    · intro p hp
      obtain ⟨b, w, hfac⟩ := default_factories withHost
      rw [hfac] at hp
      simp only [List.mem_append, List.mem_cons, List.not_mem_nil, or_false] at hp
      have hnat : ∀ (bs : List Builtin) (f : Builtin → String),
          (Factory.native (bs.map (fun b => (f b, .builtin b)))).rlocs ⊆ [] := by
        intro bs f x hx
        simp only [Factory.rlocs, List.mem_flatMap, List.mem_map] at hx
        obtain ⟨kv, ⟨b, -, rfl⟩, hx⟩ := hx
        simp [Value.rlocs] at hx
      have hmk : ∀ n t, ∀ p ∈ (match factoryOfText n t with | .ok f => [(n, f)] | .error _ => []),
          p.2.rlocs ⊆ [] := by
        intro n t p hp
        split at hp
        · rename_i f hf
          simp only [List.mem_singleton] at hp; subst hp
          rw [factoryOfText_clean n t f hf]; simp
        · simp at hp
      rcases hp with (((rfl | rfl) | hp) | hp) | hp
      · exact hnat Builtin.baseList Builtin.name
      · intro x hx; simp [Factory.rlocs, nativeWrite, Value.rlocs] at hx
      · exact hmk _ _ p hp
      · exact hmk _ _ p hp
      · split at hp
        · simp only [List.mem_singleton] at hp; subst hp
          intro x hx; simp [Factory.rlocs, nativeHost, Value.rlocs] at hx
        · simp at hp
  intro l hl
  exact absurd (stIn_iff.1 this (mem_unrole.1 hl).choose_spec) (by simp)

/-- an interpreter that has loaded the standard library holds no position at all -/
theorem withStdlib_unlocated (fuel : Nat) (withHost : Bool) : (withStdlib fuel withHost).rlocs = [] := by
  apply unrole_eq_nil
  unfold withStdlib
  have h0 : StIn [] (default_ withHost) := stIn_iff.2 (by rw [default_unlocated]; simp)
  have i := (interpAt (T := []) factoryOfText_clean fuel).import_
    (st := default_ withHost) (sets := [.direct libSchemeBase none, .direct libSchemeWrite none])
    (ρ := (default_ withHost).env) (r := _) (st' := _) rfl h0
    (by simp [ImportSet.rlocsList, ImportSet.locs])
  exact unrole_subset (stIn_iff.1 i.1)

end ProgLoc

/-! ## every element of the data carries a position (`Datum.HL`) -/

namespace HLoc

theorem hl_loc {d : Datum} (h : d.HL) : d.loc ≠ none := by
  cases d <;> simp only [Datum.HL] at h <;> simp only [Datum.loc] <;> first | exact h | exact h.1

theorem hl_tl {d : Datum} (h : d.HL) : d.TL := by
  cases d <;> simp only [Datum.HL] at h <;> simp only [Datum.TL] <;> first | exact h | exact h.2 | trivial

theorem hls_iff {xs : List Datum} : Datum.HLs xs ↔ ∀ x ∈ xs, x.HL := by
  induction xs with
  | nil => simp [Datum.HLs]
  | cons x xs ih => simp [Datum.HLs, ih]

/-- a rest of a list given a position is head-located -/
theorem tl_withLoc {d : Datum} (h : d.TL) {l : Loc} (hl : l ≠ none) : (d.withLoc l).HL := by
  cases d <;> simp only [Datum.TL] at h <;> simp only [Datum.withLoc, Datum.HL] <;>
    first | exact hl | exact ⟨hl, h⟩ | exact ⟨hl, h.2⟩

/-- the elements of a list rest: cars and improper tail -/
theorem tl_spine : ∀ {d : Datum}, d.TL → (∀ x ∈ d.spine.1, x.HL) ∧ (∀ t, d.spine.2 = some t → t.HL)
  | .pair a d l, h => by
    simp only [Datum.TL] at h
    have ih := tl_spine h.2
    simp only [Datum.spine]
    refine ⟨fun x hx => ?_, ih.2⟩
    rcases List.mem_cons.1 hx with rfl | hx
    · exact h.1
    · exact ih.1 x hx
  | .nil _, _ => by simp [Datum.spine]
  | .prim p l, h => by simp only [Datum.TL] at h; simp [Datum.spine, Datum.HL, h]
  | .sym p l, h => by simp only [Datum.TL] at h; simp [Datum.spine, Datum.HL, h]
  | .vec xs l, h => by simp only [Datum.TL] at h; simp [Datum.spine, Datum.HL, h]

theorem tl_ofList_none : ∀ {xs : List Datum}, (∀ x ∈ xs, x.HL) → (Datum.ofList none xs).TL
  | [], _ => by simp [Datum.ofList, Datum.TL]
  | x :: xs, h => by
    simp only [Datum.ofList, Datum.TL]
    exact ⟨h x (by simp), tl_ofList_none (fun y hy => h y (by simp [hy]))⟩

theorem hl_ofList {l : Loc} (hl : l ≠ none) {xs : List Datum} (h : ∀ x ∈ xs, x.HL) :
    (Datum.ofList l xs).HL := by
  cases xs with
  | nil => simpa [Datum.ofList, Datum.HL] using hl
  | cons x xs =>
    simp only [Datum.ofList, Datum.HL]
    exact ⟨hl, h x (by simp), tl_ofList_none (fun y hy => h y (by simp [hy]))⟩

/-! ### macro expansion keeps data head-located -/

open Macro

/-- every datum bound in the substitution table satisfies `P` -/
def SubstAll (P : Datum → Prop) (σ : Subst) : Prop :=
  ∀ e ∈ σ, P e.2.1 ∧ ∀ m ∈ e.2.2, P m

variable {P : Datum → Prop}

theorem SubstAll.nil : SubstAll P [] := by simp [SubstAll]

theorem SubstAll.insert {σ : Subst} (h : SubstAll P σ) (v : String) {d : Datum} (hd : P d) :
    SubstAll P (σ.insert v (d, [])) := by
  induction σ with
  | nil => simp [Subst.insert, SubstAll, hd]
  | cons e rest ih =>
    obtain ⟨k, y⟩ := e
    simp only [Subst.insert]
    have hr : SubstAll P rest := fun e he => h e (List.mem_cons_of_mem _ he)
    split
    · intro e he
      rcases List.mem_cons.1 he with rfl | he
      · simp [hd]
      · exact hr e he
    · intro e he
      rcases List.mem_cons.1 he with rfl | he
      · exact h _ (List.mem_cons_self ..)
      · exact ih hr e he

theorem SubstAll.push {σ σ' : Subst} (h : SubstAll P σ) {v : String} {d : Datum} (hd : P d)
    (hp : σ.push? v d = some σ') : SubstAll P σ' := by
  induction σ generalizing σ' with
  | nil => simp [Subst.push?] at hp
  | cons e rest ih =>
    obtain ⟨k, f, more⟩ := e
    have hr : SubstAll P rest := fun e he => h e (List.mem_cons_of_mem _ he)
    have h0 := h _ (List.mem_cons_self ..)
    simp only [Subst.push?] at hp
    split at hp
    · cases hp
      intro e he
      rcases List.mem_cons.1 he with rfl | he
      · refine ⟨h0.1, fun m hm => ?_⟩
        rcases List.mem_append.1 hm with hm | hm
        · exact h0.2 m hm
        · simp only [List.mem_singleton] at hm; subst hm; exact hd
      · exact hr e he
    · cases hq : Subst.push? rest v d with
      | none => simp [hq] at hp
      | some r =>
        simp only [hq, Option.map_some, Option.some.injEq] at hp
        subst hp
        intro e he
        rcases List.mem_cons.1 he with rfl | he
        · exact h0
        · exact ih hr hq e he

theorem SubstAll.pushAll {τ : Subst} (hτ : SubstAll P τ) :
    ∀ {acc : Option Subst} {σ' : Subst}, (∀ s, acc = some s → SubstAll P s) →
      τ.foldl (fun acc (x : String × Datum × List Datum) =>
        acc.bind (fun s => Subst.push? s x.1 x.2.1)) acc = some σ' → SubstAll P σ' := by
  induction τ with
  | nil => intro acc σ' ha h; exact ha _ h
  | cons e rest ih =>
    intro acc σ' ha h
    simp only [List.foldl_cons] at h
    refine ih (fun e he => hτ e (List.mem_cons_of_mem _ he)) ?_ h
    intro s hs
    cases acc with
    | none => simp at hs
    | some a =>
      simp only [Option.bind_some] at hs
      exact (ha a rfl).push (hτ e (List.mem_cons_self ..)).1 hs

theorem SubstAll.get {σ : Subst} (h : SubstAll P σ) {v : String} {x : Datum × List Datum}
    (hg : σ.get? v = some x) : P x.1 ∧ ∀ m ∈ x.2, P m := by
  induction σ with
  | nil => simp [Subst.get?] at hg
  | cons e rest ih =>
    obtain ⟨k, y⟩ := e
    simp only [Subst.get?] at hg
    split at hg
    · cases hg; exact h _ (List.mem_cons_self ..)
    · exact ih (fun e he => h e (List.mem_cons_of_mem _ he)) hg

/-- what `P` must satisfy for the matcher to keep it: the elements of a list or vector satisfying
`P` satisfy `P` -/
structure ElemClosed (P : Datum → Prop) : Prop where
  spine : ∀ d, d.isListy = true → P d → (∀ x ∈ d.spine.1, P x) ∧ ∀ t, d.spine.2 = some t → P t
  vec : ∀ xs l, P (.vec xs l) → ∀ x ∈ xs, P x

theorem match_all_aux (hP : ElemClosed P) (lits : List String) : ∀ n,
    (∀ p d σ r, matchDatum n lits p d σ = .ok r → P d → SubstAll P σ → SubstAll P r.2) ∧
    (∀ ps ds mm σ r, matchStream n lits ps ds mm σ = .ok r → (∀ d ∈ ds, P d) → SubstAll P σ →
      SubstAll P r.2) := by
  intro n
  induction n with
  | zero => constructor <;> intros <;> simp_all
  | succ n ih =>
    obtain ⟨ihD, ihS⟩ := ih
    constructor
    · intro p d σ r h hd hσ
      cases hp : p.isListy
      · cases p <;> simp [Pat.isListy] at hp
        · simp at h; subst h; exact hσ
        · simp at h; subst h; exact hσ
        · rw [matchDatum_vec] at h
          cases d <;> simp at h <;> try (subst h; exact hσ)
          rename_i ps ds loc
          exact ihS _ _ _ _ _ h (hP.vec _ _ hd) hσ
        · rename_i v
          rw [matchDatum_ident] at h
          split at h <;> cases h
          · exact hσ
          · exact hσ.insert v hd
        · rw [matchDatum_prim] at h; cases h; exact hσ
      · cases hdl : d.isListy
        · rw [matchDatum_listy_atom hp hdl] at h; cases h; exact hσ
        · rw [matchDatum_listy hp hdl] at h
          have hsp := hP.spine d hdl hd
          have h1 := ihS p.spine.1 d.spine.1 none σ
          split at h
          · cases h
          · rename_i σ1 he; cases h
            exact h1 _ he hsp.1 hσ
          · rename_i σ1 he
            have hσ1 := h1 _ he hsp.1 hσ
            split at h
            · rename_i lp ld hlp hld
              exact ihD _ _ _ _ h (hsp.2 _ hld) hσ1
            · cases h; exact hσ1
            · cases h; exact hσ1
    · intro ps ds mm σ r h hds hσ
      cases ps with
      | nil => cases ds <;> simp at h <;> subst h <;> exact hσ
      | cons p ps =>
        cases ds with
        | nil =>
          cases hp : p.isEllipsis
          · rw [matchStream_cons_nil_ne hp] at h; cases h; exact hσ
          · cases p <;> simp [Pat.isEllipsis] at hp
            cases mm with
            | none => simp at h; subst h; exact hσ
            | some mp =>
              rw [matchStream_ell_nil_some] at h
              exact ihS _ _ _ _ _ h hds hσ
        | cons d ds =>
          have hd : P d := hds d (List.mem_cons_self ..)
          have hds' : ∀ x ∈ ds, P x := fun x hx => hds x (List.mem_cons_of_mem _ hx)
          cases hp : p.isEllipsis
          · rw [matchStream_step_ne hp] at h
            split at h
            · cases h
            · rename_i σ1 he; cases h; exact ihD _ _ _ _ he hd hσ
            · rename_i σ1 he
              exact ihS _ _ _ _ _ h hds' (ihD _ _ _ _ he hd hσ)
          · cases p <;> simp [Pat.isEllipsis] at hp
            cases n with
            | zero => rw [matchStream_ell_one] at h; cases h
            | succ n =>
              cases mm with
              | none => rw [matchStream_ell_none] at h; cases h
              | some mp =>
                rw [matchStream_step_ell] at h
                split at h
                · cases h
                · cases h; exact hσ
                · rename_i τ he
                  have hτ := ihD _ _ _ _ he hd SubstAll.nil
                  split at h
                  · cases h
                  · rename_i σ2 hpush
                    have hσ2 : SubstAll P σ2 :=
                      SubstAll.pushAll hτ (fun s hs => by cases hs; exact hσ) hpush
                    split at h
                    · cases h
                    · rename_i σ3 he2; cases h; exact ihS _ _ _ _ _ he2 hds' hσ2
                    · rename_i σ3 he2
                      exact ihS _ _ _ _ _ h hds' (ihS _ _ _ _ _ he2 hds' hσ2)

theorem hl_elemClosed : ElemClosed Datum.HL where
  spine := fun d _ hd => tl_spine (hl_tl hd)
  vec := fun xs l h => by simp only [Datum.HL] at h; exact hls_iff.1 h.2

theorem hl_vec {l : Loc} (hl : l ≠ none) {xs : List Datum} (h : ∀ x ∈ xs, x.HL) : (Datum.vec xs l).HL := by
  simp only [Datum.HL]; exact ⟨hl, hls_iff.2 h⟩

mutual
theorem substItem_hl : ∀ (t : Tmpl) (σ : Subst) (i : Nat) (loc : Loc) (d : Datum),
    SubstAll Datum.HL σ → loc ≠ none → substItem t σ i loc = some d → d.HL
  | .list es, σ, i, loc, d, hσ, hl, h => by
    rw [substItem] at h
    cases hs : substItems es σ i loc with
    | none => simp [hs] at h
    | some ds =>
      simp only [hs, Option.map_some, Option.some.injEq] at h; subst h
      exact hl_ofList hl (substItems_hl es σ i loc ds hσ hl hs)
  | .vec es, σ, i, loc, d, hσ, hl, h => by
    rw [substItem] at h
    cases hs : substItems es σ i loc with
    | none => simp [hs] at h
    | some ds =>
      simp only [hs, Option.map_some, Option.some.injEq] at h; subst h
      exact hl_vec hl (substItems_hl es σ i loc ds hσ hl hs)
  | .ident v, σ, i, loc, d, hσ, hl, h => by
    rw [substItem] at h
    split at h
    · rename_i f more hg
      split at h
      · cases h
      · exact (hσ.get hg).2 d (List.mem_of_getElem? h)
    · cases h; simpa [Datum.HL] using hl
  | .prim p, σ, i, loc, d, hσ, hl, h => by
    rw [substItem] at h; cases h; simpa [Datum.HL] using hl
theorem substItems_hl : ∀ (es : List (Tmpl × Bool)) (σ : Subst) (i : Nat) (loc : Loc)
    (ds : List Datum), SubstAll Datum.HL σ → loc ≠ none → substItems es σ i loc = some ds →
    ∀ x ∈ ds, x.HL
  | [], σ, i, loc, ds, hσ, hl, h => by
    rw [substItems] at h; cases h; simp
  | (t, b) :: rest, σ, i, loc, ds, hσ, hl, h => by
    rw [substItems] at h
    split at h
    · cases h
    · rename_i d hd
      cases hs : substItems rest σ i loc with
      | none => simp [hs] at h
      | some r =>
        simp only [hs, Option.map_some, Option.some.injEq] at h; subst h
        intro x hx
        rcases List.mem_cons.1 hx with rfl | hx
        · exact substItem_hl t σ i loc _ hσ hl hd
        · exact substItems_hl rest σ i loc r hσ hl hs x hx
end

theorem substItemLoop_hl {t : Tmpl} {σ : Subst} {loc : Loc} (hσ : SubstAll Datum.HL σ)
    (hl : loc ≠ none) : ∀ (fuel i : Nat) (ds : List Datum),
    substItemLoop fuel t σ i loc = some ds → ∀ x ∈ ds, x.HL
  | 0, i, ds, h => by simp [substItemLoop] at h
  | fuel + 1, i, ds, h => by
    rw [substItemLoop] at h
    split at h
    · cases h; simp
    · rename_i d hd
      cases hs : substItemLoop fuel t σ (i + 1) loc with
      | none => simp [hs] at h
      | some r =>
        simp only [hs, Option.map_some, Option.some.injEq] at h; subst h
        intro x hx
        rcases List.mem_cons.1 hx with rfl | hx
        · exact substItem_hl t σ i loc _ hσ hl hd
        · exact substItemLoop_hl hσ hl fuel (i + 1) r hs x hx

mutual
theorem subst_hl (fuel : Nat) : ∀ (t : Tmpl) (σ : Subst) (loc : Loc) (d : Datum),
    SubstAll Datum.HL σ → loc ≠ none → subst fuel t σ loc = some d → d.HL
  | .list es, σ, loc, d, hσ, hl, h => by
    rw [subst] at h
    cases hs : substElems fuel es σ loc with
    | none => simp [hs] at h
    | some ds =>
      simp only [hs, Option.map_some, Option.some.injEq] at h; subst h
      exact hl_ofList hl (substElems_hl fuel es σ loc ds hσ hl hs)
  | .vec es, σ, loc, d, hσ, hl, h => by
    rw [subst] at h
    cases hs : substElems fuel es σ loc with
    | none => simp [hs] at h
    | some ds =>
      simp only [hs, Option.map_some, Option.some.injEq] at h; subst h
      exact hl_vec hl (substElems_hl fuel es σ loc ds hσ hl hs)
  | .ident v, σ, loc, d, hσ, hl, h => by
    rw [subst] at h
    split at h
    · rename_i f more hg; cases h; exact (hσ.get hg).1
    · cases h; simpa [Datum.HL] using hl
  | .prim p, σ, loc, d, hσ, hl, h => by
    rw [subst] at h; cases h; simpa [Datum.HL] using hl
theorem substElems_hl (fuel : Nat) : ∀ (es : List (Tmpl × Bool)) (σ : Subst) (loc : Loc)
    (ds : List Datum), SubstAll Datum.HL σ → loc ≠ none → substElems fuel es σ loc = some ds →
    ∀ x ∈ ds, x.HL
  | [], σ, loc, ds, hσ, hl, h => by
    rw [substElems] at h; cases h; simp
  | (t, true) :: rest, σ, loc, ds, hσ, hl, h => by
    rw [substElems] at h
    split at h
    · rename_i first more r h1 h2 h3
      cases h
      intro x hx
      simp only [List.cons_append, List.mem_cons, List.mem_append] at hx
      rcases hx with rfl | hx | hx
      · exact subst_hl fuel t σ loc _ hσ hl h1
      · exact substItemLoop_hl hσ hl fuel 0 more h2 x hx
      · exact substElems_hl fuel rest σ loc r hσ hl h3 x hx
    · cases h
  | (t, false) :: rest, σ, loc, ds, hσ, hl, h => by
    rw [substElems] at h
    split at h
    · rename_i d r h1 h3
      cases h
      intro x hx
      rcases List.mem_cons.1 hx with rfl | hx
      · exact subst_hl fuel t σ loc _ hσ hl h1
      · exact substElems_hl fuel rest σ loc r hσ hl h3 x hx
    · cases h
end

/-- the expansion of a head-located macro use is head-located -/
theorem transformRules_hl {fuel : Nat} {lits : List String} {use : Datum} (hu : use.HL) :
    ∀ (rules : List (Pat × Tmpl)) (d : Datum), transformRules fuel lits rules use = .ok d → d.HL
  | [], d, h => by simp [transformRules] at h
  | (p, t) :: rest, d, h => by
    rw [transformRules] at h
    cases hm : matchDatum fuel lits p use [] with
    | error e => simp [hm, bind, Except.bind] at h
    | ok r =>
      obtain ⟨ok, σ⟩ := r
      simp only [hm, bind, Except.bind] at h
      have hσ : SubstAll Datum.HL σ :=
        (match_all_aux hl_elemClosed lits fuel).1 _ _ _ _ hm hu SubstAll.nil
      split at h
      · split at h
        · cases h
        · split at h
          · rename_i d' hs
            simp only [pure, Except.pure, Except.ok.injEq] at h; subst h
            exact subst_hl fuel t σ use.loc d' hσ (hl_loc hu) hs
          · cases h
      · exact transformRules_hl hu rest d h

/-! ### the statement made from a head-located datum has a position -/

open Xform XformLoc

theorem xo_lift {α} {x : Except SErr α} {P : α → Prop} (h : ∀ a, x = .ok a → P a) : XOk (Xform.lift x) P :=
  fun _ a ha => h a ha

theorem stmt_loc_some : ∀ (n : Nat) (d : Datum), d.HL → XOk (toStatement n d) (fun s => s.loc ≠ none)
  | 0, d, _ => by rw [toStatement]; exact xo_fail
  | n + 1, d, hd => by
    have hl := hl_loc hd
    unfold toStatement
    split
    · exact xo_pure (by simpa [Statement.loc, Expr.loc, Datum.loc] using hl)
    · exact xo_pure (by simpa [Statement.loc, Expr.loc, Datum.loc] using hl)
    · exact xo_pure (by simpa [Statement.loc, Expr.loc, Datum.loc] using hl)
    · exact xo_fail
    · rename_i a b l
      simp only [Datum.loc] at hl ⊢
      refine xo_bind' (P := fun o => ∀ f r, o = some (f, r) → f = a ∧ r = b)
        (xo_lift fun o ho f r hfr => ?_) fun o ho => ?_
      · subst hfr
        obtain ⟨l', hl'⟩ := Macro.popProper_ok ho
        cases hl'; exact ⟨rfl, rfl⟩
      · split
        · exact xo_fail
        · rename_i first rest
          obtain ⟨rfl, rfl⟩ := ho first rest rfl
          simp only [Datum.HL] at hd
          split
          · rename_i kw lk
            split
            · exact xo_bind fun _ => xo_pure (by simpa [Statement.loc] using hl)
            split
            · exact fun env s hs => by
                show s.loc ≠ none
                rw [toLibrary_loc _ _ _ env s hs]; exact hl
            split
            · exact xo_bind fun _ => xo_pure (by simpa [Statement.loc, Expr.loc] using hl)
            split
            · refine xo_bind fun _ => xo_bind fun _ => xo_bind fun _ => xo_bind fun _ => ?_
              split
              · exact xo_bind fun _ => xo_bind fun _ => xo_pure (by simpa [Statement.loc, Expr.loc] using hl)
              · exact xo_bind fun _ => xo_pure (by simpa [Statement.loc, Expr.loc] using hl)
            split
            · exact xo_bind fun _ => xo_pure (by simpa [Statement.loc] using hl)
            split
            · exact xo_bind fun _ => xo_pure (by simpa [Statement.loc, Expr.loc] using hl)
            split
            · refine xo_bind fun target => ?_
              split
              · rename_i name tl
                refine xo_bind fun _ => xo_bind fun _ => xo_pure ?_
                simp only [Statement.loc, Expr.loc]
                cases tl <;> simp [hl]
              · exact xo_fail
            split
            · exact xo_bind fun _ => xo_bind fun _ => xo_bind fun _ => xo_bind fun _ =>
                xo_bind fun _ => xo_pure (by simpa [Statement.loc] using hl)
            · refine xo_bind fun env => ?_
              split
              · rename_i rules hr
                refine xo_bind' (P := fun expanded => expanded.HL) (xo_lift fun expanded hex => ?_)
                  fun expanded hexp => stmt_loc_some n expanded hexp
                exact transformRules_hl (tl_withLoc hd.2.2 hl) _ _ hex
              · exact xo_bind' (P := fun e => e.loc = l) (toCall_loc _ _ _ _)
                  fun c hc => xo_pure (by simpa [Statement.loc, hc] using hl)
          · exact xo_bind' (P := fun e => e.loc = l) (toCall_loc _ _ _ _)
              fun c hc => xo_pure (by simpa [Statement.loc, hc] using hl)

/-! ### the reader delivers head-located data when every token has a position -/

open Read

def TokLoc (s : PState) : Prop := ∀ t ∈ s.toks, t.loc ≠ none
def CurOK (s : PState) : Prop := ∀ t, s.cur = some t → t.loc ≠ none ∧ s.loc ≠ none

theorem advance_hl {s s' : PState} (h : advance s = .ok s') (ht : TokLoc s) : TokLoc s' ∧ CurOK s' := by
  unfold advance at h
  cases hk : s.toks with
  | cons t rest =>
    simp only [hk] at h; cases h
    have htl : t.loc ≠ none := ht t (by simp [hk])
    exact ⟨fun x hx => ht x (by simp [hk, hx]), fun x hx => by simp at hx; subst hx; exact ⟨htl, htl⟩⟩
  | nil =>
    simp only [hk] at h
    split at h <;> cases h
    exact ⟨fun x hx => by simp at hx, fun x hx => by simp at hx⟩

theorem advanceUnwrap_hl {s s' : PState} {t : LToken} (h : advanceUnwrap s = .ok (t, s')) (ht : TokLoc s) :
    TokLoc s' ∧ CurOK s' ∧ s'.cur = some t := by
  unfold advanceUnwrap at h
  cases ha : advance s with
  | error e => simp [ha, bind, Except.bind] at h
  | ok s1 =>
    simp only [ha, bind, Except.bind] at h
    split at h
    · rename_i t' ht'
      simp only [pure, Except.pure, Except.ok.injEq, Prod.mk.injEq] at h
      obtain ⟨rfl, rfl⟩ := h
      exact ⟨(advance_hl ha ht).1, (advance_hl ha ht).2, ht'⟩
    · cases h

theorem tl_snoc : ∀ {acc x : Datum}, acc.TL → x.HL → (snoc acc x).TL
  | .pair a d l, x, h, hx => by
    simp only [Datum.TL] at h
    simp only [snoc, Datum.TL]
    exact ⟨h.1, tl_snoc h.2 hx⟩
  | .nil _, x, _, hx => by simp [snoc, Datum.TL, hx]
  | .prim _ _, x, _, hx => by simp [snoc, Datum.TL, hx]
  | .sym _ _, x, _, hx => by simp [snoc, Datum.TL, hx]
  | .vec _ _, x, _, hx => by simp [snoc, Datum.TL, hx]

theorem tl_setTail : ∀ {acc t : Datum}, acc.TL → t.HL → (setTail acc t).TL
  | .pair a d l, t, h, ht => by
    simp only [Datum.TL] at h
    simp only [setTail, Datum.TL]
    exact ⟨h.1, tl_setTail h.2 ht⟩
  | .nil _, t, _, ht => by simpa [setTail] using hl_tl ht
  | .prim _ _, t, _, ht => by simpa [setTail] using hl_tl ht
  | .sym _ _, t, _, ht => by simpa [setTail] using hl_tl ht
  | .vec _ _, t, _, ht => by simpa [setTail] using hl_tl ht

theorem hl_mkQuote {l : Loc} (hl : l ≠ none) {inner : Datum} (hi : inner.HL) : (mkQuote l inner).HL := by
  simp [mkQuote, Datum.HL, Datum.TL, hl, hi]

/-- the invariant for the reader's mutual block at one amount of fuel -/
structure HAt (fuel : Nat) : Prop where
  cur : ∀ s od s', currentDatum fuel s = .ok (od, s') → TokLoc s → CurOK s →
    TokLoc s' ∧ ∀ d, od = some d → d.HL
  loop : ∀ s listLoc acc dot d s', listLoop fuel s listLoc acc dot = .ok (d, s') → TokLoc s →
    listLoc ≠ none → acc.TL → TokLoc s' ∧ d.HL
  rep : ∀ s acc xs s', repeatDatum fuel s acc = .ok (xs, s') → TokLoc s → (∀ x ∈ acc, x.HL) →
    TokLoc s' ∧ (∀ x ∈ xs, x.HL) ∧ s'.loc ≠ none
  datum : ∀ s d s', datum fuel s = .ok (d, s') → TokLoc s → CurOK s → TokLoc s' ∧ d.HL
  quoted : ∀ s d s', parseQuoted fuel s = .ok (d, s') → TokLoc s → CurOK s → TokLoc s' ∧ d.HL

theorem hAt_zero : HAt 0 := by
  constructor
  · intro s od s' h; simp [currentDatum] at h
  · intro s listLoc acc dot d s' h; simp [listLoop] at h
  · intro s acc xs s' h; simp [repeatDatum] at h
  · intro s d s' h; simp [Read.datum] at h
  · intro s d s' h; simp [parseQuoted] at h

section succ
variable {fuel : Nat} (ih : HAt fuel)
include ih

theorem h_listOrPair {s d s'} (h : listOrPair fuel s = .ok (d, s')) (ht : TokLoc s) (hl : s.loc ≠ none) :
    TokLoc s' ∧ d.HL := by
  unfold listOrPair at h
  exact ih.loop _ _ _ _ _ _ h ht hl (by simp [Datum.TL])

theorem h_cur {s od s'} (h : currentDatum (fuel + 1) s = .ok (od, s')) (ht : TokLoc s) (hc : CurOK s) :
    TokLoc s' ∧ ∀ d, od = some d → d.HL := by
  rw [currentDatum] at h
  split at h
  · cases h; exact ⟨ht, by simp⟩
  · rename_i t hcur
    obtain ⟨htl, hsl⟩ := hc t hcur
    have ht0 : TokLoc { s with cur := none } := ht
    simp only at h
    split at h
    · cases h; exact ⟨ht, fun d hd => by cases hd; simpa [Datum.HL] using htl⟩
    · cases h; exact ⟨ht, fun d hd => by cases hd; simpa [Datum.HL] using htl⟩
    · cases hl : listOrPair fuel { s with cur := none } with
      | error e => simp [hl, bind, Except.bind] at h
      | ok r =>
        obtain ⟨d, s1⟩ := r
        simp only [hl, bind, Except.bind, pure, Except.pure, Except.ok.injEq, Prod.mk.injEq] at h
        obtain ⟨rfl, rfl⟩ := h
        have := h_listOrPair ih hl ht0 hsl
        exact ⟨this.1, fun d' hd' => by cases hd'; exact this.2⟩
    · cases h
    · cases hl : repeatDatum fuel { s with cur := none } [] with
      | error e => simp [hl, bind, Except.bind] at h
      | ok r =>
        obtain ⟨xs, s1⟩ := r
        simp only [hl, bind, Except.bind, pure, Except.pure, Except.ok.injEq, Prod.mk.injEq] at h
        obtain ⟨rfl, rfl⟩ := h
        have := ih.rep _ _ _ _ hl ht0 (by simp)
        exact ⟨this.1, fun d' hd' => by cases hd'; exact hl_vec this.2.2 this.2.1⟩
    · cases ha : advance { s with cur := none } with
      | error e => simp [ha, bind, Except.bind] at h
      | ok s1 =>
        simp only [ha, bind, Except.bind] at h
        cases hq : parseQuoted fuel s1 with
        | error e => simp [hq] at h
        | ok r =>
          obtain ⟨d, s2⟩ := r
          simp only [hq, pure, Except.pure, Except.ok.injEq, Prod.mk.injEq] at h
          obtain ⟨rfl, rfl⟩ := h
          have h1 := advance_hl ha ht0
          have := ih.quoted _ _ _ hq h1.1 h1.2
          exact ⟨this.1, fun d' hd' => by cases hd'; exact this.2⟩
    · cases h

theorem h_quoted {s d s'} (h : parseQuoted (fuel + 1) s = .ok (d, s')) (ht : TokLoc s) (hc : CurOK s) :
    TokLoc s' ∧ d.HL := by
  rw [parseQuoted] at h
  cases hq : Read.datum fuel s with
  | error e => simp [hq, bind, Except.bind] at h
  | ok r =>
    obtain ⟨inner, s1⟩ := r
    simp only [hq, bind, Except.bind, pure, Except.pure, Except.ok.injEq, Prod.mk.injEq] at h
    obtain ⟨rfl, rfl⟩ := h
    have := ih.datum _ _ _ hq ht hc
    refine ⟨this.1, hl_mkQuote ?_ this.2⟩
    -- `datum` succeeded, so there was a current token
    cases hcur : s.cur with
    | none =>
      cases fuel with
      | zero => simp [Read.datum] at hq
      | succ n => rw [Read.datum] at hq; simp [hcur] at hq
    | some t => exact (hc t hcur).2

theorem h_datum {s d s'} (h : Read.datum (fuel + 1) s = .ok (d, s')) (ht : TokLoc s) (hc : CurOK s) :
    TokLoc s' ∧ d.HL := by
  rw [Read.datum] at h
  simp only at h
  split at h
  · cases h
  · rename_i t hcur
    obtain ⟨htl, hsl⟩ := hc t hcur
    split at h
    · exact h_listOrPair ih h ht hsl
    · cases hl : repeatDatum fuel s [] with
      | error e => simp [hl, bind, Except.bind] at h
      | ok r =>
        obtain ⟨xs, s1⟩ := r
        simp only [hl, bind, Except.bind, pure, Except.pure, Except.ok.injEq, Prod.mk.injEq] at h
        obtain ⟨rfl, rfl⟩ := h
        have := ih.rep _ _ _ _ hl ht (by simp)
        exact ⟨this.1, hl_vec hsl this.2.1⟩
    · cases h; exact ⟨ht, by simpa [Datum.HL] using hsl⟩
    · cases h; exact ⟨ht, by simpa [Datum.HL] using hsl⟩
    · cases ha : advance s with
      | error e => simp [ha, bind, Except.bind] at h
      | ok s1 =>
        simp only [ha, bind, Except.bind] at h
        have h1 := advance_hl ha ht
        exact ih.quoted _ _ _ h h1.1 h1.2
    · cases h

theorem h_rep {s acc xs s'} (h : repeatDatum (fuel + 1) s acc = .ok (xs, s')) (ht : TokLoc s)
    (hacc : ∀ x ∈ acc, x.HL) : TokLoc s' ∧ (∀ x ∈ xs, x.HL) ∧ s'.loc ≠ none := by
  rw [repeatDatum] at h
  cases hp : peek s with
  | error e => simp [hp, bind, Except.bind] at h
  | ok o =>
    simp only [hp, bind, Except.bind] at h
    split at h
    · cases h
    · rename_i t
      have hpk : ∃ rest, s.toks = t :: rest := by
        unfold peek at hp
        split at hp
        · rename_i t' rest hk; cases hp; exact ⟨rest, hk⟩
        · split at hp <;> cases hp
      obtain ⟨rest, hk⟩ := hpk
      have hadv : ∀ s1, advance s = .ok s1 → s1.loc ≠ none := by
        intro s1 ha
        unfold advance at ha
        simp only [hk] at ha
        cases ha
        exact ht t (by simp [hk])
      split at h
      · cases ha : advance s with
        | error e => simp [ha] at h
        | ok s1 =>
          simp only [ha, pure, Except.pure, Except.ok.injEq, Prod.mk.injEq] at h
          obtain ⟨rfl, rfl⟩ := h
          exact ⟨(advance_hl ha ht).1, fun x hx => hacc x (List.mem_reverse.1 hx), hadv _ ha⟩
      · cases ha : advance s with
        | error e => simp [ha] at h
        | ok s1 =>
          simp only [ha] at h
          cases hd : Read.datum fuel s1 with
          | error e => simp [hd] at h
          | ok r =>
            obtain ⟨d, s2⟩ := r
            simp only [hd] at h
            have h1 := advance_hl ha ht
            have h2 := ih.datum _ _ _ hd h1.1 h1.2
            refine ih.rep _ _ _ _ h h2.1 ?_
            intro x hx
            rcases List.mem_cons.1 hx with rfl | hx
            · exact h2.2
            · exact hacc x hx

theorem h_loop {s listLoc acc dot d s'} (h : listLoop (fuel + 1) s listLoc acc dot = .ok (d, s'))
    (ht : TokLoc s) (hl : listLoc ≠ none) (hacc : acc.TL) : TokLoc s' ∧ d.HL := by
  rw [listLoop] at h
  cases ha : advanceUnwrap s with
  | error e => simp [ha, bind, Except.bind] at h
  | ok r =>
    obtain ⟨t, s1⟩ := r
    simp only [ha, bind, Except.bind] at h
    obtain ⟨ht1, hc1, -⟩ := advanceUnwrap_hl ha ht
    split at h
    · split at h
      · cases h
      · exact ih.loop _ _ _ _ _ _ h ht1 hl hacc
    · simp only [pure, Except.pure, Except.ok.injEq, Prod.mk.injEq] at h
      obtain ⟨rfl, rfl⟩ := h
      exact ⟨ht1, tl_withLoc hacc hl⟩
    · cases hcd : currentDatum fuel s1 with
      | error e => simp [hcd] at h
      | ok r =>
        obtain ⟨od, s2⟩ := r
        simp only [hcd] at h
        have h2 := ih.cur _ _ _ hcd ht1 hc1
        split at h
        · cases h
        · rename_i element
          have hel := h2.2 element rfl
          split at h
          · rename_i ca cd cl
            split at h
            · cases ha2 : advanceUnwrap s2 with
              | error e => simp [ha2] at h
              | ok r2 =>
                obtain ⟨t2, s3⟩ := r2
                simp only [ha2] at h
                obtain ⟨ht3, -, -⟩ := advanceUnwrap_hl ha2 h2.1
                split at h
                · simp only [pure, Except.pure, Except.ok.injEq, Prod.mk.injEq] at h
                  obtain ⟨rfl, rfl⟩ := h
                  exact ⟨ht3, tl_withLoc (tl_setTail hacc hel) hl⟩
                · cases h
            · exact ih.loop _ _ _ _ _ _ h h2.1 hl (tl_snoc hacc hel)
          · exact ih.loop _ _ _ _ _ _ h h2.1 hl (by simp [Datum.TL, hel])

end succ

theorem hAt : ∀ fuel, HAt fuel
  | 0 => hAt_zero
  | fuel + 1 =>
    have ih := hAt fuel
    ⟨fun _ _ _ => h_cur ih, fun _ _ _ _ _ _ => h_loop ih, fun _ _ _ _ => h_rep ih,
     fun _ _ _ => h_datum ih, fun _ _ _ => h_quoted ih⟩

/-- `Parser::parse` on a stream of located tokens delivers a head-located datum -/
theorem nextDatum_hl {s s' : PState} {d : Datum} (h : nextDatum s = .ok (some d, s')) (ht : TokLoc s) :
    d.HL ∧ TokLoc s' := by
  unfold nextDatum at h
  cases ha : advance s with
  | error e => simp [ha, bind, Except.bind] at h
  | ok s1 =>
    simp only [ha, bind, Except.bind] at h
    have h1 := advance_hl ha ht
    have := (hAt _).cur _ _ _ h h1.1 h1.2
    exact ⟨this.2 d rfl, this.1⟩

/-- every token the lexer delivers has a position -/
theorem allAux_tokLoc : ∀ (fuel : Nat) (cs : List Char) (p : Lex.Pos) (acc : List LToken),
    (∀ t ∈ acc, t.loc ≠ none) → ∀ t ∈ (Lex.allAux fuel cs p acc).1, t.loc ≠ none
  | 0, cs, p, acc, ha => by simpa [Lex.allAux] using ha
  | fuel + 1, cs, p, acc, ha => by
    rw [Lex.allAux]
    split
    · simpa using ha
    · simpa using ha
    · refine allAux_tokLoc fuel _ _ _ ?_
      intro t ht
      rcases List.mem_cons.1 ht with rfl | ht
      · simp
      · exact ha t ht

theorem ofText_tokLoc (cs : List Char) : TokLoc (Read.ofText cs) := by
  intro t ht
  exact allAux_tokLoc _ cs (1, 1) [] (by simp) t (by simpa [Read.ofText, Lex.all] using ht)

/-! ### a run-time error always has a position -/

open Interp InterpLoc

/-- `eval_ast` on a statement that has a position reports a position -/
theorem evalAst_located {fuel : Nat} {st st' : State} {s : Statement} {k : Err} {loc : Loc}
    (h : evalAst fuel st s = (.error (k, loc), st')) (hs : s.loc ≠ none) : loc ≠ none := by
  have i := evalAst_in (T := st.rlocs ++ s.rlocs) factoryOfText_clean h
    (stIn_iff.2 (List.subset_append_left _ _)) (List.subset_append_right _ _)
  obtain ⟨loc0, -, rfl⟩ := i.2 k loc rfl
  cases loc0 with
  | none => cases hsl : s.loc with
    | none => exact absurd hsl hs
    | some p => simp
  | some l => simp

/-- an error without a position was raised while reading or transforming a form (a syntax error),
never while evaluating one -/
def SyntaxStage (k : Err) : Prop :=
  (∃ s : PState, nextDatum s = .error (k, none)) ∨
  (∃ d env env', toStatement (xformFuel d) d env = (.error (k, none), env'))

theorem evalText_go_located (fuel : Nat) : ∀ (n : Nat) (s : PState) (st : State) (last : Option Value)
    (k : Err) (st' : State), TokLoc s → evalText.go fuel n s st last = (.error (k, none), st') →
    k = .fuel ∨ SyntaxStage k
  | 0, s, st, last, k, st', _, h => by
    rw [evalText.go] at h; cases h; exact Or.inl rfl
  | n + 1, s, st, last, k, st', ht, h => by
    rw [evalText.go] at h
    split at h
    · rename_i e he
      cases h
      exact Or.inr (Or.inl ⟨s, he⟩)
    · cases h
    · rename_i d s' hd
      obtain ⟨hdl, ht'⟩ := nextDatum_hl hd ht
      split at h
      · rename_i e syn hx
        cases h
        exact Or.inr (Or.inr ⟨d, _, _, hx⟩)
      · rename_i stmt syn hx
        have hsl : stmt.loc ≠ none := stmt_loc_some _ d hdl st.syn stmt (by rw [hx])
        split at h
        · rename_i e st1 hev
          cases h
          exact absurd rfl (evalAst_located hev hsl)
        · exact evalText_go_located fuel n s' _ _ k st' ht' h

end HLoc

end Ruschm

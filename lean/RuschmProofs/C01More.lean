/-
Property C01, the glue in front of it — the parser's transformer builds the RIGHT tree.

The C01/C03/C08 theorems speak about the evaluator on already-transformed code (`Expr`/`Statement`).
Here: the datum → tree transformer (`RuschmModel/Xform.lean`, Rust `transform_to_statement`,
`transform_definition`, `transform_lambda`, `transform_procedure_body`, `transform_formals`,
`transform_condition`, `transform_assignment`, `transform_quote`, `transform_procedure_call`)
against the surface syntax of the core forms written down from R7RS in `RuschmSpec/CoreSyntax.lean`
(`render : Expr → Datum`, `renderStmt : Statement → Datum`).

1. ROUND TRIP (`transform_render*`): every core tree is what the transformer makes of its printed
   form, up to source locations — all arities, all nesting, by structural induction.
2. REJECTION (`*_rejected`, `*_missing`, …): malformed special forms are syntax errors, never a tree.
   Where the code ACCEPTS what R7RS calls malformed (surplus operands are dropped: `(if c a b d)`,
   `(quote a b)`) the theorem says that (`*_surplus_ignored`).
3. COMPOSITION with `C01.model_refines_ref`: evaluating what the transformer makes of the printed form
   of `e` is evaluating `e` (`eval_of_rendered`, `rendered_value_iff_ref`).

Helper lemmas: `RuschmProofs/CoreSyntaxLemmas.lean`.
-/
import RuschmProofs.CoreSyntaxLemmas
import RuschmProofs.C01
import RuschmProofs.UnlocLemmas
import RuschmProofs.C06

set_option linter.unusedSimpArgs false
set_option linter.unusedVariables false

namespace Ruschm.C01More
open Ruschm Ruschm.Xform Ruschm.CoreSyntax Ruschm.Eval Ruschm.Ref Ruschm.Text

/-! ## the side condition: which identifiers are macro keywords -/

/-- the macro keywords of the syntax environment `s` -/
def macroOf (s : SynEnv) : String → Bool := fun k => (s.get? k).isSome

/-- the keywords of the nine bundled derived forms (`grammar.sld`) -/
def stdMacros : List String := ["begin", "let", "let*", "cond", "case", "and", "or", "when", "unless"]

/-- `k` is the keyword of a bundled derived form -/
def isStdMacro (k : String) : Bool := stdMacros.contains k

private theorem lookup_isSome {β} (k : String) : ∀ (l : List (String × β)), (l.lookup k).isSome = (l.map Prod.fst).contains k
  | [] => rfl
  | (k', v) :: l => by
    simp only [List.lookup, List.map_cons, List.contains_cons]
    by_cases h : k = k'
    · subst h; simp
    · have : (k == k') = false := by simpa using h
      simp only [this, Bool.false_or]
      exact lookup_isSome k l

set_option maxRecDepth 100000 in
private theorem grammarScope_names : Interp.grammarScope.map Prod.fst = stdMacros := by rfl

/-- In the interpreter's own syntax environment (`Interpreter::new`, before any `define-syntax` of the
user) the macro keywords are exactly the nine bundled derived forms. -/
theorem std_macros (k : String) : macroOf [[], Interp.grammarScope] k = isStdMacro k := by
  have : SynEnv.get? [[], Interp.grammarScope] k = Interp.grammarScope.lookup k := by
    simp only [SynEnv.get?, List.lookup]
    cases Interp.grammarScope.lookup k <;> rfl
  simp only [macroOf, this, lookup_isSome, grammarScope_names, isStdMacro]

/-! ## 1. ROUND TRIP -/

/-- ROUND TRIP, expressions.  Let `e` be any expression over the core forms — variables, literals,
quotations, one- and two-armed `if`, `set!`, calls of any arity, `lambda` with fixed, rest-only and
fixed+rest parameters, any number of internal definitions and body expressions, nested to any
depth — in which no call has as its operator a variable spelled like a special-form keyword or like
a macro keyword of the syntax environment `s` (`core (macroOf s) e`).  Then the transformer, run in
`s` on the printed form `render e` with any fuel of at least twice the size of that datum, returns
exactly `e` (with every location erased: the printed form has none) and leaves `s` as it was. -/
theorem transform_render_expr (e : Expr) (s : SynEnv) (n : Nat) (hc : core (macroOf s) e = true)
    (hn : 2 * (render e).size ≤ n) :
    toStatement n (render e) s = (.ok (.expr e.unloc), s) :=
  rt_expr e s n (fun _ => rfl) hc hn

/-- `((lambda (x . r) (define y (if x 1)) (set! y 'a) (f y r)) 1 2)` in the interpreter's own
environment: the hypotheses hold -/
private def sampleExpr : Expr :=
  .call (.lambda (.mk ⟨["x"], some "r"⟩
      [.mk "y" (.cond (.sym "x" none) (.prim (.int 1) none) none none) none]
      [.assign "y" (.quote (.sym "a" none) none) none,
       .call (.sym "f" none) [.sym "y" none, .sym "r" none] none]) none)
    [.prim (.int 1) none, .prim (.int 2) none] none

example : core isStdMacro sampleExpr = true ∧ 2 * (render sampleExpr).size ≤ 200 := by decide

/-- ROUND TRIP, top-level forms: the same for a top-level expression or `(define x e)`. -/
theorem transform_render (st : Statement) (s : SynEnv) (n : Nat) (hc : coreStmt (macroOf s) st = true)
    (hn : 2 * (renderStmt st).size ≤ n) :
    toStatement n (renderStmt st) s = (.ok st.unloc, s) := by
  cases st with
  | expr e => exact transform_render_expr e s n hc hn
  | definition d =>
    obtain ⟨x, e, l⟩ := d
    simp only [renderStmt, renderDef, defineD, size_lst, Datum.sizeList, List.length_cons, List.length_nil] at hn
    obtain ⟨k, rfl⟩ : ∃ k, n = k + 3 := ⟨n - 3, by omega⟩
    have he := transform_render_expr e s k hc (by omega)
    simp only [renderStmt, renderDef, defineD, ident, lst_cons, step_define none none none none x [] he]
    rfl
  | importDecl _ _ => simp [coreStmt] at hc
  | syntaxDef _ _ _ => simp [coreStmt] at hc
  | libraryDef _ _ _ => simp [coreStmt] at hc

example : coreStmt isStdMacro (.definition (.mk "g" sampleExpr none)) = true ∧
    2 * (renderStmt (.definition (.mk "g" sampleExpr none))).size ≤ 200 := by decide

/-- … with the fuel the interpreter actually uses for a top-level datum (`xformFuel`). -/
theorem transform_render_fuel (st : Statement) (s : SynEnv) (hc : coreStmt (macroOf s) st = true) :
    toStatement (xformFuel (renderStmt st)) (renderStmt st) s = (.ok st.unloc, s) :=
  transform_render st s _ hc (by simp only [xformFuel]; omega)

/-- … in a syntax environment without macros (no bundled forms, no user `define-syntax`), the side
condition is about the eight special-form keywords only. -/
theorem transform_render_no_macros (st : Statement) (s : SynEnv) (hs : ∀ k, s.get? k = none)
    (hc : coreStmt (fun _ => false) st = true) :
    toStatement (xformFuel (renderStmt st)) (renderStmt st) s = (.ok st.unloc, s) := by
  have : macroOf s = fun _ => false := funext fun k => by simp [macroOf, hs k]
  exact transform_render_fuel st s (this ▸ hc)

example : (∀ k, SynEnv.get? [[]] k = none) ∧ coreStmt (fun _ => false) (.expr sampleExpr) = true :=
  ⟨fun _ => rfl, by decide⟩

/-- … in the interpreter's own syntax environment (the nine bundled derived forms): the side
condition is the decidable `coreStmt isStdMacro` — no operator is a variable named like one of the
eight special forms or the nine derived forms. -/
theorem transform_render_std (st : Statement) (hc : coreStmt isStdMacro st = true) :
    toStatement (xformFuel (renderStmt st)) (renderStmt st) [[], Interp.grammarScope] =
      (.ok st.unloc, [[], Interp.grammarScope]) := by
  have : macroOf [[], Interp.grammarScope] = isStdMacro := funext std_macros
  exact transform_render_fuel st _ (this ▸ hc)

example : coreStmt isStdMacro (.expr sampleExpr) = true := by decide

/-- The side condition is needed: a call whose operator is the VARIABLE `if` prints as `(if 1 2)`,
which is read as a conditional. -/
example : core isStdMacro (.call (.sym "if" none) [.prim (.int 1) none, .prim (.int 2) none] none) = false ∧
    toStatement 100 (render (.call (.sym "if" none) [.prim (.int 1) none, .prim (.int 2) none] none)) [[]] =
      (.ok (.expr (.cond (.prim (.int 1) none) (.prim (.int 2) none) none none)), [[]]) :=
  ⟨by decide, by with_unfolding_all rfl⟩

/-- ROUND TRIP, the other spelling of a procedure definition.  For every core procedure `lam` (any
formals, internal definitions, body), `(define (x . formals) def… body…)` is transformed into the
definition of `x` as that procedure — the very statement `(define x (lambda formals def… body…))`
gives (`transform_render`), up to locations. -/
theorem transform_define_sugar (x : String) (lam : Lambda) (l l' : Loc) (s : SynEnv) (n : Nat)
    (hc : coreLambda (macroOf s) lam = true) (hn : 2 * (defineSugarD x lam).size ≤ n) :
    toStatement n (defineSugarD x lam) s = (.ok (Statement.definition (.mk x (.lambda lam l) l')).unloc, s) := by
  obtain ⟨fm, defs, body⟩ := lam
  simp only [defineSugarD, size_lst, Datum.sizeList, Datum.size, List.length_cons, length_renderDefs,
    length_renderList, sizeList_renderDefs defs (renderList body)] at hn
  obtain ⟨m, rfl⟩ : ∃ m, n = (m + defs.length) + 2 := ⟨n - 2 - defs.length, by omega⟩
  simp only [coreLambda, Bool.and_eq_true, Bool.not_eq_true', List.isEmpty_eq_false_iff] at hc
  have hd := rt_defs defs (renderList body) [] s m (fun _ => rfl) hc.1.1 (by omega)
  have hb := rt_body body (Def.unlocList defs).reverse [] s m (fun _ => rfl) hc.1.2 (.inr hc.2) (by omega)
  simp only [List.append_nil] at hd
  rw [hb] at hd
  simp only [defineSugarD, ident, lst_cons]
  rw [toStatement]
  simp (config := {decide := true}) only [XM.bind_def, lift, popProper_ofList, CoreSyntax.elems_ofList, Datum.loc, if_true, if_false]
  rw [toDefinition_sugar]
  simp only [XM.bind_def, XM.pure_def, toFormals_formalsD, hd]
  simp [Statement.unloc, Def.unloc, Expr.unloc, Lambda.unloc]

/-- `(define (g x . r) (define y 1) (f y r))` -/
private def sampleLambda : Lambda :=
  .mk ⟨["x"], some "r"⟩ [.mk "y" (.prim (.int 1) none) none] [.call (.sym "f" none) [.sym "y" none, .sym "r" none] none]

example : coreLambda (macroOf [[]]) sampleLambda = true ∧ 2 * (defineSugarD "g" sampleLambda).size ≤ 100 := by decide

/-- … so the two spellings give the same statement (with the fuel the interpreter uses). -/
theorem define_sugar_same_tree (x : String) (lam : Lambda) (l l' : Loc) (s : SynEnv)
    (hc : coreLambda (macroOf s) lam = true) :
    toStatement (xformFuel (defineSugarD x lam)) (defineSugarD x lam) s =
      toStatement (xformFuel (renderStmt (.definition (.mk x (.lambda lam l) l'))))
        (renderStmt (.definition (.mk x (.lambda lam l) l'))) s := by
  rw [transform_define_sugar x lam l l' s _ hc (by simp only [xformFuel]; omega),
    transform_render_fuel _ s (by simpa [coreStmt, coreDef, core] using hc)]

example : coreLambda (macroOf [[], Interp.grammarScope]) sampleLambda = true := by
  rw [show macroOf [[], Interp.grammarScope] = isStdMacro from funext std_macros]; decide

/-- The printed forms carry no source location. -/
theorem render_location_free (st : Statement) : (renderStmt st).strip = renderStmt st := by
  cases st with
  | expr e => exact strip_render e
  | definition d =>
    obtain ⟨x, e, l⟩ := d
    simp [renderStmt, renderDef, defineD, lst, strip_ofList_none, ident, Datum.strip, strip_render e]
  | _ => rfl

/-- ROUND TRIP on data WITH locations (what the reader delivers): if `d` is, up to locations, the
printed form of the core statement `st`, the transformer turns `d` into a statement that is `st` up to
locations, and leaves the syntax environment as it was.  (With C06 `read_render`: the text of the
printed form, under any layout, is read as such a `d`.) -/
theorem transform_render_located (st : Statement) (d : Datum) (s : SynEnv) (n : Nat)
    (hc : coreStmt (macroOf s) st = true) (hd : d.strip = renderStmt st) (hn : 2 * d.size ≤ n) :
    ∃ st', toStatement n d s = (.ok st', s) ∧ st'.unloc = st.unloc := by
  have h1 := toStatement_strip n d s
  rw [hd, transform_render st s n hc (by rw [← hd, Datum.strip_size]; exact hn)] at h1
  generalize toStatement n d s = x at h1
  obtain ⟨r, s'⟩ := x
  simp only [Prod.mk.injEq] at h1
  obtain ⟨h2, rfl⟩ := h1
  cases r with
  | error er => simp at h2
  | ok st' => exact ⟨st', rfl, by simpa using h2.symm⟩

/-- `(define g (+ x 1))` as read from a text: the data carry positions -/
private def sampleDefStmt : Statement :=
  .definition (.mk "g" (.call (.sym "+" none) [.sym "x" none, .prim (.int 1) none] none) none)
private def sampleDefDatum : Datum :=
  .pair (.sym "define" (some (1, 2))) (.pair (.sym "g" (some (1, 9))) (.pair
    (.pair (.sym "+" (some (1, 12))) (.pair (.sym "x" (some (1, 14))) (.pair (.prim (.int 1) (some (1, 16)))
      (.nil none) none) none) (some (1, 11))) (.nil none) none) none) (some (1, 1))

example : coreStmt isStdMacro sampleDefStmt = true ∧ sampleDefDatum.strip = renderStmt sampleDefStmt ∧
    2 * sampleDefDatum.size ≤ 100 := ⟨by decide, rfl, by decide⟩

/-- ROUND TRIP on TEXT (with C06 `read_render_datum`): the written form of the printed datum of a core
statement `st`, under any valid layout (spaces, line breaks, comments between the tokens), is read as
exactly one datum, and the transformer — with the fuel the interpreter uses — turns that datum into
`st` up to locations.  (`SupportedD`: the literals are ones the lexer can spell — integers in the i32
range etc.) -/
theorem transform_render_text (st : Statement) (s : SynEnv) (hc : coreStmt (macroOf s) st = true)
    (hs : SupportedD (renderStmt st)) (layout : List (List Char))
    (hl : ValidLayout (Syn.ofDatum (renderStmt st)).toks layout) :
    ∃ d, Read.all (renderDatum (renderStmt st) layout) = ([d], none) ∧
      ∃ st', toStatement (xformFuel d) d s = (.ok st', s) ∧ st'.unloc = st.unloc := by
  obtain ⟨h1, h2⟩ := C06.read_render_datum (renderStmt st) hs layout hl
  rw [render_location_free] at h1
  generalize Read.all (renderDatum (renderStmt st) layout) = x at h1 h2
  obtain ⟨ds, er⟩ := x
  simp only at h1 h2
  subst h2
  match ds, h1 with
  | [], h1 => simp at h1
  | [d], h1 =>
    simp only [List.map_cons, List.map_nil, List.cons.injEq, and_true] at h1
    exact ⟨d, rfl, transform_render_located st d s _ hc h1 (by simp only [xformFuel]; omega)⟩
  | _ :: _ :: _, h1 => simp at h1

/-- the text `(f x)` followed by a line break -/
private def sampleFx : Statement := .expr (.call (.sym "f" none) [.sym "x" none] none)
example : renderDatum (renderStmt sampleFx) [[], [], [' '], [], ['\n']] = "(f x)\n".toList := by decide
example : coreStmt (macroOf [[]]) sampleFx = true ∧ SupportedD (renderStmt sampleFx) ∧
    ValidLayout (Syn.ofDatum (renderStmt sampleFx)).toks [[], [], [' '], [], ['\n']] :=
  ⟨by decide, ⟨.inl (by decide), .inl (by decide), trivial⟩, by decide⟩

/-! ## 2. REJECTION: malformed special forms are syntax errors (and where the code accepts them) -/

/-- `(if)`: a conditional without operands is a syntax error (`UnexpectedEnd`, unlocated), in every
syntax environment, wherever it stands, with any fuel. -/
theorem if_missing_operands (k : Nat) (kl l l' : Loc) (s : SynEnv) :
    toStatement (k+1) (.pair (.sym "if" kl) (.nil l') l) s = (.error (.syntax, none), s) := by
  rw [toStatement]
  simp (config := {decide := true}) only [XM.bind_def, lift, popProper_pair_nil, elems_nil, if_true, if_false, need,
    List.head?_nil, fail]

/-- `(if c)`: a conditional without consequent never yields a tree — it is the error of transforming
`c` if that fails, else `UnexpectedEnd` — for every test `c` and every fuel. -/
theorem if_missing_consequent (n : Nat) (kl l l' l'' : Loc) (c : Datum) (s : SynEnv) :
    ∃ er s', toStatement n (.pair (.sym "if" kl) (.pair c (.nil l'') l') l) s = (.error er, s') := by
  cases n with
  | zero => exact ⟨_, _, by rw [toStatement]; rfl⟩
  | succ k =>
    rw [toStatement]
    simp (config := {decide := true}) only [XM.bind_def, lift, popProper_pair2, elems_pair, elems_nil, if_true, if_false, need,
      List.head?_cons, XM.pure_def, List.drop_succ_cons, List.drop_zero, List.head?_nil, fail]
    generalize toExpr k c s = x
    obtain ⟨r, s'⟩ := x
    cases r with
    | error e => exact ⟨_, _, rfl⟩
    | ok t => exact ⟨_, _, rfl⟩

/-- … and when the test transforms, the error is the unlocated syntax error. -/
theorem if_missing_consequent_syntax {k : Nat} {c : Datum} {t : Expr} {s s' : SynEnv} (kl l l' l'' : Loc)
    (hc : toExpr k c s = (.ok t, s')) :
    toStatement (k+1) (.pair (.sym "if" kl) (.pair c (.nil l'') l') l) s = (.error (.syntax, none), s') := by
  rw [toStatement]
  simp (config := {decide := true}) only [XM.bind_def, lift, popProper_pair2, elems_pair, elems_nil, if_true, if_false, need,
    List.head?_cons, XM.pure_def, List.drop_succ_cons, List.drop_zero, List.head?_nil, fail, hc]

example : toExpr 5 (.sym "x" none) [[]] = (.ok (.sym "x" none), [[]]) := rfl

/-- `(if c a b d …)` is NOT rejected (R7RS: a syntax error): whatever follows the alternative — more
operands, even a dotted tail — is dropped; the form is transformed exactly as `(if c a b)`.
(Rust `transform_condition` takes three items from the iterator and never looks for a fourth.) -/
theorem if_surplus_ignored (k : Nat) (kl l l₁ l₂ l₃ l₄ : Loc) (c a b extra : Datum) (s : SynEnv) :
    toStatement (k+1) (.pair (.sym "if" kl) (.pair c (.pair a (.pair b extra l₃) l₂) l₁) l) s =
    toStatement (k+1) (.pair (.sym "if" kl) (.pair c (.pair a (.pair b (.nil l₄) l₃) l₂) l₁) l) s := by
  rw [toStatement, toStatement]
  simp (config := {decide := true}) only [XM.bind_def, lift, popProper_pair2, elems_pair, elems_nil, if_true, if_false, need,
    List.head?_cons, XM.pure_def, List.drop_succ_cons, List.drop_zero, Datum.loc]

/-- `(lambda)`: no formals — a syntax error. -/
theorem lambda_missing_formals (k : Nat) (kl l l' : Loc) (s : SynEnv) :
    toStatement (k+2) (.pair (.sym "lambda" kl) (.nil l') l) s = (.error (.syntax, none), s) := by
  rw [toStatement]
  simp (config := {decide := true}) only [XM.bind_def, lift, popProper_pair_nil, elems_nil, if_true, if_false]
  rw [toLambda]
  simp only [XM.bind_def, need, List.head?_nil, fail]

/-- `(lambda formals)`: no body — a syntax error for EVERY datum in the formals position (at the
offending formal if the formals are malformed, else the unlocated `LambdaBodyNoExpression`). -/
theorem lambda_missing_body (k : Nat) (kl l l' l'' : Loc) (F : Datum) (s : SynEnv) :
    ∃ loc, toStatement (k+3) (.pair (.sym "lambda" kl) (.pair F (.nil l'') l') l) s = (.error (.syntax, loc), s) := by
  rw [toStatement]
  simp (config := {decide := true}) only [XM.bind_def, lift, popProper_pair2, elems_pair, elems_nil, if_true, if_false]
  rw [toLambda]
  simp only [XM.bind_def, need, List.head?_cons, XM.pure_def, List.drop_succ_cons, List.drop_zero]
  rcases toFormals_kind F s with ⟨f, hf⟩ | ⟨loc, hf⟩
  · simp only [hf, inChild, body_nil_err]
    exact ⟨_, rfl⟩
  · simp only [hf]
    exact ⟨_, rfl⟩

/-- `(lambda formals (define x e) …)`: a body made of definitions only, however many, has no
expression — a syntax error (`LambdaBodyNoExpression`).  Stated for well-formed formals and core
definitions, with enough fuel to transform every definition. -/
theorem lambda_only_definitions (fixed : List String) (rest : Option String) (ds : List Def) (s : SynEnv) (n : Nat)
    (hc : coreDefs (macroOf s) ds = true)
    (hn : 2 * Datum.sizeList (renderDefs ds []) + ds.length + 5 ≤ n) :
    toStatement n (lst (ident "lambda" :: formalsD fixed rest :: renderDefs ds [])) s = (.error (.syntax, none), s) := by
  obtain ⟨m, rfl⟩ : ∃ m, n = ((m + 1) + ds.length) + 2 := ⟨n - 3 - ds.length, by omega⟩
  have hM' : ∀ k, macroOf s k = (SynEnv.get? ([] :: s) k).isSome := fun k => rfl
  have hd := rt_defs ds [] [] ([] :: s) (m + 1) hM' hc (by omega)
  rw [body_nil_err] at hd
  simp only [ident, lst_cons]
  rw [toStatement]
  simp (config := {decide := true}) only [XM.bind_def, lift, popProper_ofList, CoreSyntax.elems_ofList, Datum.loc, if_true, if_false]
  rw [toLambda]
  simp only [XM.bind_def, need, List.head?_cons, XM.pure_def, List.drop_succ_cons, List.drop_zero,
    toFormals_formalsD, inChild, hd]

/-- `(lambda (x) (define y 1))` -/
example : coreDefs (macroOf [[]]) [.mk "y" (.prim (.int 1) none) none] = true ∧
    2 * Datum.sizeList (renderDefs [.mk "y" (.prim (.int 1) none) none] []) + 1 + 5 ≤ 40 := by decide

/-- `(lambda (x 1) x)`, `(lambda (x . "r") x)`, `(lambda ((a b)) a)`: a formals LIST in which some
element (or the dotted tail) is not an identifier is a syntax error located at the first such
element, whatever the body.  `b` is that element. -/
theorem lambda_formal_not_identifier {k : Nat} {a d : Datum} {b : Datum} (kl l l' lF : Loc) (body : Datum) (s : SynEnv)
    (hb : ((Datum.pair a d lF).spine.1 ++ (Datum.pair a d lF).spine.2.toList).find?
      (fun x => match x with | .sym _ _ => false | _ => true) = some b) :
    toStatement (k+2) (.pair (.sym "lambda" kl) (.pair (.pair a d lF) body l') l) s = (.error (.syntax, b.loc), s) := by
  have hF := toFormals_bad s hb
  rw [toStatement]
  simp (config := {decide := true}) only [XM.bind_def, lift, popProper_pair2, elems_pair, elems_nil, if_true, if_false]
  rw [toLambda]
  simp only [XM.bind_def, need, List.head?_cons, XM.pure_def, List.drop_succ_cons, List.drop_zero, hF]

/-- `(x 1)`: the offending formal is `1` -/
example : ((Datum.pair (.sym "x" none) (.pair (.prim (.int 1) (some (1, 12))) (.nil none) none) none).spine.1 ++
      (Datum.pair (.sym "x" none) (.pair (.prim (.int 1) (some (1, 12))) (.nil none) none) none).spine.2.toList).find?
      (fun x => match x with | .sym _ _ => false | _ => true) = some (.prim (.int 1) (some (1, 12))) := rfl

/-- `(lambda 1 x)`, `(lambda #(a) x)`: formals that are neither a list nor an identifier — a syntax
error located at them. -/
theorem lambda_formals_not_list {k : Nat} {F : Datum} (kl l l' : Loc) (body : Datum) (s : SynEnv)
    (hF : match F with | .prim _ _ => True | .vec _ _ => True | _ => False) :
    toStatement (k+2) (.pair (.sym "lambda" kl) (.pair F body l') l) s = (.error (.syntax, F.loc), s) := by
  have hF := toFormals_atom F s hF
  rw [toStatement]
  simp (config := {decide := true}) only [XM.bind_def, lift, popProper_pair2, elems_pair, elems_nil, if_true, if_false]
  rw [toLambda]
  simp only [XM.bind_def, need, List.head?_cons, XM.pure_def, List.drop_succ_cons, List.drop_zero, hF]

example : (match Datum.prim (.int 1) none with | .prim _ _ => True | .vec _ _ => True | _ => False) := trivial

/-- `(define)` and `(define x)`: a syntax error (`UnexpectedEnd`). -/
theorem define_missing_operands (k : Nat) (kl l l' l'' xl : Loc) (x : String) (s : SynEnv) :
    toStatement (k+2) (.pair (.sym "define" kl) (.nil l') l) s = (.error (.syntax, none), s) ∧
    toStatement (k+2) (.pair (.sym "define" kl) (.pair (.sym x xl) (.nil l'') l') l) s = (.error (.syntax, none), s) := by
  constructor
  · rw [toStatement]
    simp (config := {decide := true}) only [XM.bind_def, lift, popProper_pair_nil, elems_nil, if_true, if_false]
    rw [toDefinition]
    simp only [XM.bind_def, need, List.head?_nil, fail]
  · rw [toStatement]
    simp (config := {decide := true}) only [XM.bind_def, lift, popProper_pair2, elems_pair, elems_nil, if_true, if_false]
    rw [toDefinition]
    simp only [XM.bind_def, need, List.head?_cons, XM.pure_def, List.drop_succ_cons, List.drop_zero, List.head?_nil, fail]

/-- `(define 1 2)`, `(define "s" …)`, `(define #(a) …)`, `(define () …)`: the defined thing is neither
an identifier nor a `(name . formals)` pair — a syntax error located at it, whatever follows. -/
theorem define_target_not_identifier (k : Nat) (kl l l' : Loc) (t rest : Datum) (s : SynEnv)
    (ht : match t with | .sym _ _ => False | .pair _ _ _ => False | _ => True) :
    toStatement (k+2) (.pair (.sym "define" kl) (.pair t rest l') l) s = (.error (.syntax, t.loc), s) := by
  rw [toStatement]
  simp (config := {decide := true}) only [XM.bind_def, lift, popProper_pair2, elems_pair, elems_nil, if_true, if_false]
  rw [toDefinition]
  simp only [XM.bind_def, need, List.head?_cons, XM.pure_def]
  cases t <;> first | exact absurd ht id | rfl

example : (match Datum.prim (.int 1) none with | .sym _ _ => False | .pair _ _ _ => False | _ => True) := trivial

/-- `(set!)` and `(set! x)`: a syntax error (`UnexpectedEnd`). -/
theorem set_missing_operands (k : Nat) (kl l l' l'' xl : Loc) (x : String) (s : SynEnv) :
    toStatement (k+1) (.pair (.sym "set!" kl) (.nil l') l) s = (.error (.syntax, none), s) ∧
    toStatement (k+1) (.pair (.sym "set!" kl) (.pair (.sym x xl) (.nil l'') l') l) s = (.error (.syntax, none), s) := by
  constructor
  · rw [toStatement]
    simp (config := {decide := true}) only [XM.bind_def, lift, popProper_pair_nil, elems_nil, if_true, if_false, need,
      List.head?_nil, fail]
  · rw [toStatement]
    simp (config := {decide := true}) only [XM.bind_def, lift, popProper_pair2, elems_pair, elems_nil, if_true, if_false, need,
      List.head?_cons, XM.pure_def, List.drop_succ_cons, List.drop_zero, List.head?_nil, fail]

/-- `(set! 1 2)`, `(set! (f) 2)`, `(set! "x" …)`: the assigned thing is not an identifier — a syntax
error (unlocated), whatever follows (the value expression is not even looked at). -/
theorem set_target_not_identifier (k : Nat) (kl l l' : Loc) (t rest : Datum) (s : SynEnv)
    (ht : match t with | .sym _ _ => False | _ => True) :
    toStatement (k+1) (.pair (.sym "set!" kl) (.pair t rest l') l) s = (.error (.syntax, none), s) := by
  rw [toStatement]
  simp (config := {decide := true}) only [XM.bind_def, lift, popProper_pair2, elems_pair, elems_nil, if_true, if_false, need,
    List.head?_cons, XM.pure_def]
  cases t <;> first | exact absurd ht id | rfl

example : (match Datum.prim (.int 1) none with | .sym _ _ => False | _ => True) := trivial

/-- `(set! x e d …)` and `(define x e d …)` are NOT rejected (R7RS: syntax errors): whatever follows
the value expression is dropped. -/
theorem set_define_surplus_ignored (k : Nat) (kl l l₁ l₂ l₃ xl : Loc) (x : String) (v extra : Datum) (s : SynEnv) :
    toStatement (k+1) (.pair (.sym "set!" kl) (.pair (.sym x xl) (.pair v extra l₂) l₁) l) s =
      toStatement (k+1) (.pair (.sym "set!" kl) (.pair (.sym x xl) (.pair v (.nil l₃) l₂) l₁) l) s ∧
    toStatement (k+2) (.pair (.sym "define" kl) (.pair (.sym x xl) (.pair v extra l₂) l₁) l) s =
      toStatement (k+2) (.pair (.sym "define" kl) (.pair (.sym x xl) (.pair v (.nil l₃) l₂) l₁) l) s := by
  constructor
  · rw [toStatement, toStatement]
    simp (config := {decide := true}) only [XM.bind_def, lift, popProper_pair2, elems_pair, elems_nil, if_true, if_false, need,
      List.head?_cons, XM.pure_def, List.drop_succ_cons, List.drop_zero, Datum.loc]
  · rw [toStatement, toStatement]
    simp (config := {decide := true}) only [XM.bind_def, lift, popProper_pair2, elems_pair, elems_nil, if_true, if_false, Datum.loc]
    rw [toDefinition, toDefinition]
    simp only [XM.bind_def, need, List.head?_cons, XM.pure_def, List.drop_succ_cons, List.drop_zero]
/-- `(quote)`: a syntax error (`UnexpectedEnd`). -/
theorem quote_missing_operand (k : Nat) (kl l l' : Loc) (s : SynEnv) :
    toStatement (k+1) (.pair (.sym "quote" kl) (.nil l') l) s = (.error (.syntax, none), s) := by
  rw [toStatement]
  simp (config := {decide := true}) only [XM.bind_def, lift, popProper_pair_nil, elems_nil, if_true, if_false, need,
    List.head?_nil, fail]

/-- `(quote a b …)` is NOT rejected (R7RS: a syntax error): whatever follows the first operand — more
operands, a dotted tail — is dropped; the form is the quotation of `a`.  (Rust `transform_quote`
takes one item from the iterator.) -/
theorem quote_surplus_ignored (k : Nat) (kl l l' : Loc) (d extra : Datum) (s : SynEnv) :
    toStatement (k+1) (.pair (.sym "quote" kl) (.pair d extra l') l) s = (.ok (.expr (.quote d l)), s) := by
  rw [toStatement]
  simp (config := {decide := true}) only [XM.bind_def, lift, popProper_pair2, elems_pair, elems_nil, if_true, if_false, need,
    List.head?_cons, XM.pure_def, Datum.loc]

/-- An improper form `(f . a)` — the cdr of the first cell is an atom — is a syntax error, whatever
`f` is (a variable, a keyword, a macro keyword, any datum) and in every syntax environment. -/
theorem improper_form_rejected (k : Nat) (f a : Datum) (l : Loc) (s : SynEnv)
    (ha : match a with | .pair _ _ _ => False | .nil _ => False | _ => True) :
    toStatement (k+1) (.pair f a l) s = (.error (.syntax, none), s) := by
  rw [toStatement]
  cases a <;> first | exact absurd ha id | rfl

example : (match Datum.sym "a" none with | .pair _ _ _ => False | .nil _ => False | _ => True) := trivial

/-- A dotted tail FURTHER DOWN a call is not rejected either: `(f a . b)` (with `b` an atom and `f` an
ordinary operator) is transformed exactly as `(f a b)` — the Rust iterator over the operands delivers
the improper tail as a last element (`(+ 1 . 2)` ⇒ `3`). -/
theorem call_dotted_tail_flattened (k : Nat) (F a b : Datum) (l l₁ l₂ l₃ : Loc) (s : SynEnv)
    (hhead : ∀ kw kl, F = .sym kw kl → kw ∉ keywords ∧ s.get? kw = none)
    (hb : match b with | .pair _ _ _ => False | .nil _ => False | _ => True) :
    toStatement (k+1) (.pair F (.pair a b l₁) l) s =
    toStatement (k+1) (.pair F (.pair a (.pair b (.nil l₃) l₂) l₁) l) s := by
  have he : (Datum.pair a b l₁).elems = [a, b] := by
    cases b <;> first | exact absurd hb id | rfl
  rw [toStatement, toStatement]
  simp only [XM.bind_def, lift, popProper_pair2, elems_pair, elems_nil, Datum.loc, he]
  cases F with
  | sym kw kl =>
    obtain ⟨hk, hg⟩ := hhead kw kl rfl
    simp only [keywords, List.mem_cons, List.mem_nil_iff, or_false, not_or] at hk
    obtain ⟨h1, h2, h3, h4, h5, h6, h7, h8⟩ := hk
    simp only [h1, h2, h3, h4, h5, h6, h7, h8, if_false, XM.bind_def, getEnv, hg]
  | _ => rfl

example : (∀ kw kl, Datum.sym "+" none = .sym kw kl → kw ∉ keywords ∧ SynEnv.get? [[]] kw = none) ∧
    (match Datum.prim (.int 2) none with | .pair _ _ _ => False | .nil _ => False | _ => True) := by
  refine ⟨fun kw kl h => ?_, trivial⟩
  cases h
  exact ⟨by decide, rfl⟩

/-- The empty form `()` is a syntax error (`EmptyCall`). -/
theorem empty_form_rejected (k : Nat) (l : Loc) (s : SynEnv) :
    toStatement (k+1) (.nil l) s = (.error (.syntax, none), s) := by
  rw [toStatement]; rfl

/-! ## 3. the C01 theorems speak about program data -/

/-- COMPOSITION.  Let `d` be (up to locations) the printed form of the core expression `e` — e.g. the
datum the reader delivers for its text.  The transformer turns `d` into an expression `e'` such that
(a) `e'` is `e` up to locations; (b) evaluating `e'` is evaluating `e`: with the same fuel, in the same
store and frame, the two runs agree up to the locations stored in closures and errors (both are the
run of the location-free `e` in the location-free store); (c) every outcome of evaluating `e'` that is
not the fuel error is the outcome the reference semantics (`Ref.eval`, written from the R7RS rules)
assigns to `e'`, with the same final store — `C01.model_refines_ref`. -/
theorem eval_of_rendered (e : Expr) (d : Datum) (s : SynEnv) (n : Nat)
    (hc : core (macroOf s) e = true) (hd : d.strip = render e) (hn : 2 * d.size ≤ n) :
    ∃ e', toStatement n d s = (.ok (.expr e'), s) ∧ e'.unloc = e.unloc ∧
      (∀ m σ ρ, Res.unloc Value.unloc (evalExpr m σ ρ e') = Res.unloc Value.unloc (evalExpr m σ ρ e)) ∧
      (∀ m σ ρ r σ', evalExpr m σ ρ e' = (r, σ') → NotFuel r →
        ∃ m' r', Ref.eval m' σ.erase ρ e' = (r', σ'.erase) ∧ Agree r r') := by
  obtain ⟨st', h1, h2⟩ := transform_render_located (.expr e) d s n hc hd hn
  cases st' with
  | expr e' =>
    simp only [Statement.unloc, Statement.expr.injEq] at h2
    refine ⟨e', h1, h2, fun m σ ρ => ?_, fun m σ ρ r σ' h hr => C01.model_refines_ref h hr⟩
    rw [← evalExpr_unloc, ← evalExpr_unloc, h2]
  | _ => simp [Statement.unloc] at h2

/-- the hypotheses on `(+ x 1)` as read from a text -/
private def sampleCall : Expr := .call (.sym "+" none) [.sym "x" none, .prim (.int 1) none] none
private def sampleCallDatum : Datum :=
  .pair (.sym "+" (some (1, 2))) (.pair (.sym "x" (some (1, 4))) (.pair (.prim (.int 1) (some (1, 6)))
    (.nil none) none) none) (some (1, 1))

example : core (macroOf [[]]) sampleCall = true ∧ sampleCallDatum.strip = render sampleCall ∧
    2 * sampleCallDatum.size ≤ 100 := ⟨by decide, rfl, by decide⟩

/-- … for values, as an equivalence, on the printed form itself: the transformer's output on
`render e` has the value `v` (final store `τ`, activation counters erased) in the model exactly when the
reference semantics assigns `v` (and `τ`) to the location-free `e`. -/
theorem rendered_value_iff_ref (e : Expr) (s : SynEnv) (n : Nat) (hc : core (macroOf s) e = true)
    (hn : 2 * (render e).size ≤ n) (σ : Store) (ρ : Nat) (v : Value) (τ : Store) :
    (∃ e', toStatement n (render e) s = (.ok (.expr e'), s) ∧
        ∃ k σ', evalExpr k σ ρ e' = (.ok v, σ') ∧ σ'.erase = τ) ↔
      ∃ m, Ref.eval m σ.erase ρ e.unloc = (.ok v, τ) := by
  rw [transform_render_expr e s n hc hn]
  constructor
  · rintro ⟨e', h, hv⟩
    cases h
    exact C01.model_iff_ref_value.mp hv
  · intro h
    exact ⟨_, rfl, C01.model_iff_ref_value.mpr h⟩

example : core (macroOf [[]]) sampleExpr = true ∧ 2 * (render sampleExpr).size ≤ 200 := by decide

/-- Top-level forms: the statement the transformer makes of the printed form of a core expression or
definition `st`, evaluated by `eval_expression_or_definition`, yields what the reference semantics
prescribes for `st` (location-free): the value of an expression, the binding made by a definition. -/
theorem rendered_toplevel_refines_ref (st : Statement) (s : SynEnv) (hc : coreStmt (macroOf s) st = true)
    {k : Nat} {ist ist' : Interp.State} {ρ : Nat} {r : Except SErr (Option Value)} :
    ∃ st', toStatement (xformFuel (renderStmt st)) (renderStmt st) s = (.ok st', s) ∧ st' = st.unloc ∧
      (Interp.evalExprOrDef k ist st' ρ = (r, ist') → NotFuel r →
        ∃ m r', Ref.evalTop m ist.store.erase ρ st.unloc = (r', ist'.store.erase) ∧ Agree r r' ∧
          ist' = { ist with store := ist'.store }) := by
  refine ⟨st.unloc, transform_render_fuel st s hc, rfl, fun h hr => ?_⟩
  refine C01.toplevel_refines_ref ?_ h hr
  cases st with
  | expr e => exact .inl ⟨_, rfl⟩
  | definition d => exact .inr ⟨_, rfl⟩
  | importDecl _ _ => simp [coreStmt] at hc
  | syntaxDef _ _ _ => simp [coreStmt] at hc
  | libraryDef _ _ _ => simp [coreStmt] at hc

end Ruschm.C01More

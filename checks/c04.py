"""C04 — syntax-rules expansion selects the first matching rule and fills its template.
Theorems: lean/RuschmProofs/C04.lean (first-match decision logic for ALL rule sets; the matcher
equals the declarative R7RS matcher and instantiation equals the declarative one for the supported
class; never a panic; termination). Tie: random rule sets (1-3 rules, nested list/vector patterns,
literals, literal data, final ellipses) with uses derived from their own patterns and mutations of
them, real expander (Transformer::transform through a define-syntax parsed by the real parser) vs
model. Oracle on the implementation alone, for rule sets inside the supported class: an
independent Python implementation of R7RS matching (one-or-more items per ellipsis) and template
instantiation predicts the expansion or the syntax error."""
import random, re
from . import common as C, macrogen as M, sexp

PROP = "C04"
MODULES = ["RuschmProofs.C04", "RuschmProofs.C04More", "RuschmProofs.C04Program", "RuschmProofs.C04Storm"]
def is_var(x, lits):
    """an identifier that is not a literal, `_` or `...` is a pattern variable"""
    return (isinstance(x, str) and x not in lits and x not in ("_", "...") and x not in ("#t", "#f")
            and not re.fullmatch(r"-?\d+(/\d+|\.\d+)?", x) and not x.startswith('"'))



def canon(x):
    """canonical text of a python datum, as the harness prints data"""
    if isinstance(x, list):
        out, i = [], 0
        items = x
        if len(items) >= 3 and items[-2] is sexp.DOT:
            head = " ".join(canon(y) for y in items[:-2])
            return "(" + head + " . " + canon(items[-1]) + ")"
        return "(" + " ".join(canon(y) for y in items) + ")"
    if isinstance(x, tuple):
        return "#(" + " ".join(canon(y) for y in x[1]) + ")"
    if x in ("#t", "#f"):
        return x
    if re.fullmatch(r"-?\d+", x):
        return "i:" + x
    if re.fullmatch(r"-?\d+/\d+", x):
        return "q:" + x
    if re.fullmatch(r"-?\d+\.\d+", x):
        return "R:" + x
    if x.startswith('"'):
        return 's:"%s"' % x[1:-1]
    return "y:" + x


def supported_pat(p, lits, seen, under_ellipsis=False):
    """proper list/vector patterns, final ellipsis only, depth 1, distinct variables"""
    if isinstance(p, tuple):
        if any(y is sexp.DOT for y in p[1]):
            return False
        return supported_seq(p[1], lits, seen, under_ellipsis)
    if isinstance(p, list):
        if any(y is sexp.DOT for y in p):
            return False
        return supported_seq(p, lits, seen, under_ellipsis)
    if p == "...":
        return False
    if is_var(p, lits):
        if p in seen:
            return False
        seen.add(p)
    return True


def supported_seq(items, lits, seen, under):
    n = len(items)
    for i, y in enumerate(items):
        if y == "...":
            if i != n - 1 or i == 0 or under:
                return False
            continue
        nxt_is_ell = i + 1 < n and items[i + 1] == "..."
        if nxt_is_ell:
            if isinstance(y, str) and (y in lits or y == "_" and False):
                return False
            if isinstance(y, str) and y in lits:
                return False
            if not supported_pat(y, lits, seen, True):
                return False
        elif not supported_pat(y, lits, seen, under):
            return False
    return True


def pat_vars(p, lits, under, out):
    """variable -> is it under an ellipsis"""
    if isinstance(p, tuple):
        items = p[1]
    elif isinstance(p, list):
        items = p
    else:
        if is_var(p, lits):
            out[p] = under
        return
    for i, y in enumerate(items):
        if y == "...":
            continue
        ell = i + 1 < len(items) and items[i + 1] == "..."
        pat_vars(y, lits, under or ell, out)


def supported_tmpl(t, pv):
    """ellipsis only after an element whose variables are all ellipsis variables (at least one);
    other elements mention only non-ellipsis variables; no nested ellipsis"""
    if isinstance(t, (list, tuple)):
        items = t[1] if isinstance(t, tuple) else t
        if any(y is sexp.DOT for y in items):
            return False
        for i, y in enumerate(items):
            if y == "...":
                if i == 0 or items[i - 1] == "...":
                    return False
                continue
            ell = i + 1 < len(items) and items[i + 1] == "..."
            vs = tmpl_vars(y, pv)
            if "..." in flat(y) and ell:
                return False
            if ell:
                if not vs or not all(pv[v] for v in vs):
                    return False
                if "..." in flat(y):
                    return False
            else:
                if isinstance(y, (list, tuple)):
                    if not supported_tmpl(y, pv):
                        return False
                elif y in pv and pv[y]:
                    return False
        return True
    return not (t in pv and pv[t]) and t != "..."


def flat(t):
    if isinstance(t, tuple):
        return [z for y in t[1] for z in flat(y)]
    if isinstance(t, list):
        return [z for y in t for z in flat(y)]
    return [t]


def tmpl_vars(t, pv):
    return [x for x in flat(t) if x in pv]


def match(p, d, lits, b):
    """R7RS matching, one-or-more per ellipsis; b: var -> datum or list of data"""
    if isinstance(p, (list, tuple)):
        if isinstance(p, tuple) != isinstance(d, tuple) or not isinstance(d, (list, tuple)):
            return False
        ps = p[1] if isinstance(p, tuple) else p
        ds = d[1] if isinstance(d, tuple) else d
        if any(y is sexp.DOT for y in ds):
            return False
        if ps and ps[-1] == "...":
            fixed, rep = ps[:-2], ps[-2]
            if len(ds) < len(fixed) + 1:
                return False
            for q, x in zip(fixed, ds):
                if not match(q, x, lits, b):
                    return False
            runs = []
            for x in ds[len(fixed):]:
                bb = {}
                if not match(rep, x, lits, bb):
                    return False
                runs.append(bb)
            for v in runs[0]:
                b[v] = [r[v] for r in runs]
            return True
        if len(ps) != len(ds):
            return False
        return all(match(q, x, lits, b) for q, x in zip(ps, ds))
    if p == "_":
        return True
    if p in lits:
        return d == p
    if is_var(p, lits):
        b[p] = d
        return True
    return (not isinstance(d, (list, tuple))) and canon(d) == canon(p)


def inst(t, b, pv, idx=None):
    if isinstance(t, (list, tuple)):
        items = t[1] if isinstance(t, tuple) else t
        out = []
        i = 0
        while i < len(items):
            y = items[i]
            if i + 1 < len(items) and items[i + 1] == "...":
                vs = tmpl_vars(y, pv)
                n = len(b[vs[0]])
                for k in range(n):
                    out.append(inst(y, b, pv, k))
                i += 2
                continue
            out.append(inst(y, b, pv, idx))
            i += 1
        return ("vec", out) if isinstance(t, tuple) else out
    if t in b:
        return b[t][idx] if pv.get(t) else b[t]
    return t


def spec_expand(defs, use):
    """-> ('D', canon) | ('E',) | None when some rule is outside the supported class"""
    form = sexp.parse_all(defs)[0]
    spec = form[2]
    lits = set(spec[1])
    rules = spec[2:]
    u = sexp.parse_all(use)[0]
    args = u[1:]
    for r in rules:
        p, t = r[0][1:], r[1]
        if not supported_pat(p, lits, set()):
            return None
        pv = {}
        pat_vars(p, lits, False, pv)
        if not supported_tmpl(t, pv) if isinstance(t, (list, tuple)) else (t in pv and pv[t]):
            return None
    for r in rules:
        p, t = r[0][1:], r[1]
        pv = {}
        pat_vars(p, lits, False, pv)
        b = {}
        if match(p, args, lits, b):
            return ("D", canon(inst(t, b, pv)))
    return ("E",)


def run(rep, tier, rng):
    n = 6000 if tier == "quick" else 150000
    cases = []
    e2e = []
    for i in range(n):
        d, u = M.gen_case(rng)
        cases.append(("m%d" % i, "expand", [d, u]))
        if i < (2000 if tier == "quick" else 40000):
            e2e.append(("q%d" % i, "prog", ["std", M.gen_case.quoted, u]))
    impl = C.run_hx(cases + e2e)
    model = C.run_driver(cases)
    # end to end: the rules with quoted templates, the use EVALUATED: the value is the instantiated template
    checked = 0
    for cid, _, f in e2e:
        r = impl.get(cid, [])
        try:
            sp = spec_expand(cases[int(cid[1:])][2][0], f[2])
        except Exception:
            sp = None
        if sp is None or len(r) != 2 or r[0] != "N":
            continue
        if sp[0] == "D":
            if "R:" in sp[1] or "q:" in sp[1]:
                continue
            want = "V " + sp[1].replace("#(", "#i(")
        else:
            want = "E syntax"
        checked += 1
        rep.count()
        if not (r[1] == want or (want == "E syntax" and r[1].startswith("E syntax"))):
            rep.violation({"what": "a macro use evaluated through the whole front end does not yield the first matching rule's template "
                                   "filled in with the sub-forms AS WRITTEN (or is not rejected when no rule matches)",
                           "definition": f[1], "use": f[2], "expected": want, "implementation": r[1]})
    rep.extra["uses_evaluated_end_to_end"] = checked
    in_class = matched = errors = 0
    for cid, _, f in cases:
        rep.count()
        a, b = impl.get(cid), model.get(cid)
        if a and a[0].startswith("D "):
            rep.nontrivial((f[0], f[1]))
        if len(rep.cov["samples"]) < 5 and a and a[0].startswith("D ") and "..." in f[0]:
            rep.sample({"definition": f[0], "use": f[1], "expansion": a[0]})
        try:
            sp = spec_expand(f[0], f[1])
        except Exception as e:
            sp = None
        if sp is not None and a:
            in_class += 1
            if sp[0] == "D":
                matched += 1
                if a[0] != "D " + sp[1]:
                    rep.violation({"what": "the expansion is not the first matching rule's template filled in (R7RS semantics)",
                                   "definition": f[0], "use": f[1], "expected": "D " + sp[1], "implementation": a[0]})
                    continue
            else:
                errors += 1
                if not a[0].startswith("E syntax"):
                    rep.violation({"what": "a use that matches no rule is not a syntax error (silent mis-expansion)",
                                   "definition": f[0], "use": f[1], "implementation": a[0]})
                    continue
        if a != b and not (b and "FUEL" in b[0]):
            rep.violation({"broken": "correspondence RuschmModel/Macro.lean <-> macros.rs", "definition": f[0], "use": f[1],
                           "implementation": a, "model": b}, no_input=True)
    rep.extra["in_supported_class"] = in_class
    rep.extra["of_which_matched"] = matched
    rep.extra["of_which_no_rule_matches"] = errors


def macro_storm(rep, tier, rng):
    """hundreds of uses that match NO rule (and uses whose expansion is itself rejected), nested in other macro uses or not, on ONE
    interpreter (one thread) - and afterwards every use still selects its first matching rule, the bundled forms included"""
    defs = ["(define-syntax pick (syntax-rules (k) ((pick k a) (quote (first a))) ((pick a) (quote (second a))) ((pick a b c) (quote (third a b c)))))",
            "(define-syntax wrap (syntax-rules () ((wrap e) (list e))))"]
    good = [("(pick k 1)", "V (y:first i:1)"), ("(pick 7)", "V (y:second i:7)"), ("(pick 3 4 5)", "V (y:third i:3 i:4 i:5)"),
            ("(let ((t 1)) (cond ((= t 1) (car (wrap 2))) (else 0)))", "V i:2"), ("(wrap (pick 9))", "V ((y:second i:9))")]
    bad = ["(pick 1 2)", "(pick)", "(pick 1 2 3 4)", "(wrap)", "(wrap (pick 1 2))", "(let ((t (pick 1 2))) t)", "(wrap (wrap (pick)))", "(cond)", "(let ((x)) x)"]
    n = 400 if tier == "quick" else 3000
    forms, want = list(defs), ["N", "N"]
    for f, w in good:
        forms.append(f); want.append(w)
    for i in range(n):
        forms.append(bad[i % len(bad)] if i < 30 else rng.choice(bad)); want.append("E syntax")
    for f, w in good:
        forms.append(f); want.append(w)
    # USES that print alike but are different forms (a string / character against the number or identifier of the same spelling), one
    # after the other on the same interpreter: each selects its rule and fills its template from ITS OWN data
    tdefs = ["(define-syntax kind (syntax-rules () ((kind 1) (quote one)) ((kind a) (quote other))))",
             "(define-syntax q2 (syntax-rules () ((q2 x y) (quote (x y)))))", "(define-syntax only7 (syntax-rules () ((only7 7 x) x)))"]
    tuses = [("(kind 1)", "V y:one"), ('(kind "1")', "V y:other"), ("(kind 1)", "V y:one"), ("(q2 a b)", "V (y:a y:b)"), ('(q2 "a" "b")', 'V (s:"a" s:"b")'),
             ("(q2 #\\a b)", "V (c:97 y:b)"), ("(only7 7 3)", "V i:3"), ('(only7 "7" 3)', "E syntax"), ("(only7 7 4)", "V i:4")]
    tgot = C.run_hx([("twins", "prog", ["std"] + tdefs + [u for u, _ in tuses])]).get("twins", [])[len(tdefs):]
    rep.count(len(tuses)); rep.nontrivial(("use-twins",))
    tg2 = [x if not x.startswith("E ") else "E " + x.split(" ")[1] for x in tgot]
    if tg2 != [w for _, w in tuses]:
        j = next((j for j in range(min(len(tg2), len(tuses))) if tg2[j] != tuses[j][1]), None)
        rep.violation({"what": "a macro use is not expanded from its own data: an earlier use that PRINTS alike (a string or character against the "
                               "number or identifier of the same spelling) decided its expansion", "definitions": tdefs,
                       "uses": [u for u, _ in tuses], "use": tuses[j][0] if j is not None else None, "expected": [w for _, w in tuses], "implementation": tgot})
    got = C.run_hx([("storm", "prog", ["std"] + forms)]).get("storm", [])
    rep.count(len(forms)); rep.nontrivial(("macro-storm", n))
    g2 = [x if not x.startswith("E ") else "E " + x.split(" ")[1] for x in got]
    if g2 != want:
        j = next((j for j in range(min(len(g2), len(want))) if g2[j] != want[j]), min(len(g2), len(want)))
        rep.violation({"what": "after many rejected macro uses on one interpreter a use no longer expands by its first matching rule",
                       "definitions": defs, "rejected_uses_before": max(0, j - len(defs) - len(good)), "use": forms[j] if j < len(forms) else None,
                       "expected": want[j] if j < len(want) else None, "implementation": got[j] if j < len(got) else "(missing)"})


def main(tier, seed):
    rep = C.Report(PROP, tier, seed)
    rng = random.Random(seed)
    rep.cov["rule"] = ("random syntax-rules definitions (1-3 rules; patterns with nested lists and vectors, literal identifier k, "
                       "literal data, _, final ellipses, occasionally dotted or duplicate-variable patterns outside the class) and a "
                       "use derived from one of the patterns with repetitions and mutations; distinct = distinct (definition, use) "
                       "pairs that expand")
    ok = C.standard_proof_phase(rep, MODULES, directed_search=lambda r: run(r, tier, rng))
    if ok:
        run(rep, tier, rng)
        macro_storm(rep, tier, rng)
    return rep.finish("cd lean && lake build RuschmProofs.C04 && lake env lean <#print axioms of every theorem in RuschmProofs/C04.lean>")

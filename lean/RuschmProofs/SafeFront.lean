/-
Helper lemmas for C07 (1), the front end: the lexer never produces a rational literal `n/0`; the
reader never panics and produces `n/0`-free data; the pattern/template builders and the
transformer never panic; `Xform.toStatement` never panics.
-/
import RuschmSpec.Safe
import RuschmProofs.C04

namespace Ruschm
open Ruschm

/-! ## vocabulary: non-panic errors -/

theorem noPanic_iff {α} {r : Except SErr α} : NoPanic r ↔ ∀ e, r = .error e → SErr.NP e := by
  constructor
  · intro h e he s hs
    obtain ⟨k, l⟩ := e
    simp only at hs
    subst hs
    exact h s l he
  · intro h s l he
    exact h _ he s rfl

@[simp] theorem np_syntax {l} : SErr.NP (.syntax, l) := by intro s h; cases h
@[simp] theorem np_fuel {l} : SErr.NP (.fuel, l) := by intro s h; cases h

/-! ## the lexer rejects `n/0` -/

namespace Lex

theorem integerToken_ratOk {lit cs p t rest p'} (h : integerToken lit cs p = .ok (t, rest, p')) :
    t.ratOk = true := by
  unfold integerToken at h; split at h <;> simp at h
  obtain ⟨rfl, _⟩ := h; rfl

theorem realToken_ratOk {lit cs p t rest p'} (h : realToken lit cs p = .ok (t, rest, p')) :
    t.ratOk = true := by
  unfold realToken at h; split at h <;> simp at h
  obtain ⟨rfl, _⟩ := h; rfl

theorem number_ratOk {first cs p t rest p'} (h : number first cs p = .ok (t, rest, p')) :
    t.ratOk = true := by
  unfold number at h
  have := @integerToken_ratOk
  have := @realToken_ratOk
  simp only [bind, Except.bind, pure, Except.pure] at h
  repeat' split at h
  all_goals first | (cases h; done) | grind [Token.ratOk, Prim.ratOk]

theorem normalIdentifier_ratOk {first cs p t rest p'}
    (h : normalIdentifier first cs p = .ok (t, rest, p')) : t.ratOk = true := by
  unfold normalIdentifier at h
  simp only [bind, Except.bind, pure, Except.pure] at h
  repeat' split at h
  all_goals first | (cases h; done) | grind [Token.ratOk]

theorem peculiarIdentifier_ratOk {first cs p t rest p'}
    (h : peculiarIdentifier first cs p = .ok (t, rest, p')) : t.ratOk = true := by
  unfold peculiarIdentifier at h
  simp only [bind, Except.bind, pure, Except.pure] at h
  repeat' split at h
  all_goals first | (cases h; done) | grind [Token.ratOk]

theorem quotedIdentifier_ratOk {cs p acc t rest p'}
    (h : quotedIdentifier cs p acc = .ok (t, rest, p')) : t.ratOk = true := by
  induction cs generalizing p acc with
  | nil => simp [quotedIdentifier] at h
  | cons c cs ih =>
    unfold quotedIdentifier at h
    split at h
    · cases h; rfl
    · exact ih h

theorem string_ratOk {cs p acc t rest p'}
    (h : Lex.string cs p acc = .ok (t, rest, p')) : t.ratOk = true := by
  fun_induction Lex.string cs p acc <;> first | (cases h; done) | (cases h; rfl) | grind [Token.ratOk, Prim.ratOk]

theorem character_ratOk {first cs p t rest p'}
    (h : character first cs p = .ok (t, rest, p')) : t.ratOk = true := by
  unfold character at h
  simp only [bind, Except.bind, pure, Except.pure] at h
  repeat' split at h
  all_goals first | (cases h; done) | grind [Token.ratOk, Prim.ratOk]

def OkR (r : Except LexErr (Option (Token × List Char × Pos))) : Prop :=
  ∀ t rest p', r = .ok (some (t, rest, p')) → t.ratOk = true

theorem okR_map {x : Scan} (h : ∀ t rest p', x = .ok (t, rest, p') → t.ratOk = true) : OkR (x.map some) := by
  intro t rest p' e
  cases x with
  | error _ => cases e
  | ok v => obtain ⟨a, b, c⟩ := v; cases e; exact h _ _ _ rfl

theorem okR_err {e} : OkR (.error e) := by intro _ _ _ h; cases h
theorem okR_none : OkR (.ok none) := by intro _ _ _ h; cases h
theorem okR_some {t r p} (h : t.ratOk = true) : OkR (.ok (some (t, r, p))) := by
  intro _ _ _ e; cases e; exact h

theorem okR_ite {c : Prop} [Decidable c] {a b} (ha : c → OkR a) (hb : ¬ c → OkR b) : OkR (if c then a else b) := by
  by_cases h : c
  · rw [if_pos h]; exact ha h
  · rw [if_neg h]; exact hb h

theorem token_okR (cs p) : OkR (token cs p) := by
  unfold token
  repeat' (first | (apply okR_ite <;> intro _) | split | (dsimp only [bind, Except.bind, pure, Except.pure]))
  all_goals first
    | exact okR_err
    | exact okR_none
    | exact okR_some rfl
    | exact okR_map (fun _ _ _ h => number_ratOk h)
    | exact okR_map (fun _ _ _ h => normalIdentifier_ratOk h)
    | exact okR_map (fun _ _ _ h => peculiarIdentifier_ratOk h)
    | exact okR_map (fun _ _ _ h => quotedIdentifier_ratOk h)
    | exact okR_map (fun _ _ _ h => string_ratOk h)
    | exact okR_map (fun _ _ _ h => character_ratOk h)
    | skip

theorem next_ratOk {cs p t rest p'} (h : next cs p = .ok (some (t, rest, p'))) : t.ratOk = true := by
  unfold next at h
  exact token_okR _ _ _ _ _ h

theorem allAux_ratOk : ∀ (fuel : Nat) (cs : List Char) (p : Pos) (acc : List LToken),
    (∀ t ∈ acc, t.tok.ratOk = true) → ∀ t ∈ (allAux fuel cs p acc).1, t.tok.ratOk = true
  | 0, cs, p, acc, hacc => by simpa [allAux] using hacc
  | fuel + 1, cs, p, acc, hacc => by
    rw [allAux]
    split
    · simpa using hacc
    · simpa using hacc
    · rename_i t cs1 p1 hn
      apply allAux_ratOk fuel cs1 p1
      intro t' ht'
      rcases List.mem_cons.1 ht' with rfl | h
      · exact next_ratOk hn
      · exact hacc _ h

/-- every token the lexer delivers is free of `n/0` -/
theorem all_ratOk (cs : List Char) : ∀ t ∈ (all cs).1, t.tok.ratOk = true :=
  allAux_ratOk _ _ _ _ (by simp)

end Lex

/-! ## the reader -/

@[simp] theorem Datum.ratOk_withLoc (l : Loc) (d : Datum) : (d.withLoc l).ratOk = d.ratOk := by
  cases d <;> simp [Datum.withLoc, Datum.ratOk]

theorem Datum.ratOkList_iff {xs : List Datum} : Datum.ratOkList xs = true ↔ ∀ x ∈ xs, x.ratOk = true := by
  induction xs with
  | nil => simp [Datum.ratOkList]
  | cons x xs ih => simp [Datum.ratOkList, ih]

namespace Read

theorem snoc_ratOk : ∀ (acc x : Datum), acc.ratOk = true → x.ratOk = true → (snoc acc x).ratOk = true
  | .pair a d l, x, h, hx => by
    simp only [snoc, Datum.ratOk, Bool.and_eq_true] at h ⊢
    exact ⟨h.1, snoc_ratOk d x h.2 hx⟩
  | .prim _ _, x, _, hx => by simp [snoc, Datum.ratOk, hx]
  | .sym _ _, x, _, hx => by simp [snoc, Datum.ratOk, hx]
  | .nil _, x, _, hx => by simp [snoc, Datum.ratOk, hx]
  | .vec _ _, x, _, hx => by simp [snoc, Datum.ratOk, hx]

theorem setTail_ratOk : ∀ (acc x : Datum), acc.ratOk = true → x.ratOk = true → (setTail acc x).ratOk = true
  | .pair a d l, x, h, hx => by
    simp only [setTail, Datum.ratOk, Bool.and_eq_true] at h ⊢
    exact ⟨h.1, setTail_ratOk d x h.2 hx⟩
  | .prim _ _, x, _, hx => by simp [setTail, hx]
  | .sym _ _, x, _, hx => by simp [setTail, hx]
  | .nil _, x, _, hx => by simp [setTail, hx]
  | .vec _ _, x, _, hx => by simp [setTail, hx]

theorem mkQuote_ratOk (l : Loc) (d : Datum) (h : d.ratOk = true) : (mkQuote l d).ratOk = true := by
  simp [mkQuote, Datum.ratOk, h]

/-- every token still to be read, and the current one, is free of `n/0` -/
structure PState.RatOK (s : PState) : Prop where
  toks : ∀ t ∈ s.toks, t.tok.ratOk = true
  cur : ∀ t, s.cur = some t → t.tok.ratOk = true

theorem advance_ratOk {s s'} (h : advance s = .ok s') (hs : s.RatOK) : s'.RatOK := by
  unfold advance at h
  repeat' split at h
  all_goals first | (cases h; done) | skip
  · rename_i t rest ht
    cases h
    have := hs.toks
    constructor
    · intro t' h'; exact this t' (by simp [ht, h'])
    · intro t' h'; cases h'; exact this _ (by simp [ht])
  · cases h
    exact ⟨hs.toks, by simp⟩

theorem advanceUnwrap_ratOk {s v} (h : advanceUnwrap s = .ok v) (hs : s.RatOK) :
    v.2.RatOK ∧ v.1.tok.ratOk = true := by
  obtain ⟨t, s'⟩ := v
  unfold advanceUnwrap at h
  simp only [bind, Except.bind, pure, Except.pure] at h
  split at h
  · cases h
  · rename_i s1 h1
    have r1 := advance_ratOk h1 hs
    split at h
    · rename_i t' ht; cases h; exact ⟨r1, r1.cur _ ht⟩
    · cases h

theorem peek_ratOk {s t} (h : peek s = .ok (some t)) (hs : s.RatOK) : t.tok.ratOk = true := by
  unfold peek at h
  repeat' split at h
  all_goals first | (cases h; done) | skip
  rename_i t' rest ht
  cases h
  exact hs.toks _ (by simp [ht])

theorem ratOK_clearCur {s : PState} (hs : s.RatOK) : PState.RatOK { s with cur := none } :=
  ⟨hs.toks, by simp⟩

structure RatAt (fuel : Nat) : Prop where
  cur : ∀ s v, currentDatum fuel s = .ok v → s.RatOK → v.2.RatOK ∧ ∀ d, v.1 = some d → d.ratOk = true
  loop : ∀ s l acc dot v, listLoop fuel s l acc dot = .ok v → s.RatOK → acc.ratOk = true →
    v.2.RatOK ∧ v.1.ratOk = true
  lp : ∀ s v, listOrPair fuel s = .ok v → s.RatOK → v.2.RatOK ∧ v.1.ratOk = true
  rep : ∀ s acc v, repeatDatum fuel s acc = .ok v → s.RatOK → (∀ d ∈ acc, d.ratOk = true) →
    v.2.RatOK ∧ ∀ d ∈ v.1, d.ratOk = true
  dat : ∀ s v, datum fuel s = .ok v → s.RatOK → v.2.RatOK ∧ v.1.ratOk = true
  quo : ∀ s v, parseQuoted fuel s = .ok v → s.RatOK → v.2.RatOK ∧ v.1.ratOk = true

theorem ratAt_zero : RatAt 0 := by
  constructor
  · intro s v h; simp [currentDatum] at h
  · intro s l acc dot v h; simp [listLoop] at h
  · intro s v h; simp [listOrPair, listLoop] at h
  · intro s acc v h; simp [repeatDatum] at h
  · intro s v h; simp [datum] at h
  · intro s v h; simp [parseQuoted] at h

theorem ratAt_succ {fuel} (ih : RatAt fuel) : RatAt (fuel + 1) := by
  have hl : ∀ s l acc dot v, listLoop (fuel + 1) s l acc dot = .ok v → s.RatOK → acc.ratOk = true →
      v.2.RatOK ∧ v.1.ratOk = true := by
    intro s l acc dot v h hs hacc
    rw [listLoop] at h
    simp only [bind, Except.bind, pure, Except.pure] at h
    have := ih.cur; have := ih.loop; have := @advanceUnwrap_ratOk
    repeat' split at h
    all_goals first | (cases h; done) | grind [Datum.ratOk, snoc_ratOk, setTail_ratOk, Datum.ratOk_withLoc]
  constructor
  · intro s v h hs
    rw [currentDatum] at h
    simp only [bind, Except.bind, pure, Except.pure] at h
    have := ih.lp; have := ih.rep; have := ih.quo; have := @advance_ratOk
    have := @ratOK_clearCur; have := hs.cur; have := @Datum.ratOkList_iff
    repeat' split at h
    all_goals first | (cases h; done) | grind [Datum.ratOk, Token.ratOk]
  · exact hl
  · intro s v h hs; unfold listOrPair at h; exact hl _ _ _ _ _ h hs rfl
  · intro s acc v h hs hacc
    rw [repeatDatum] at h
    simp only [bind, Except.bind, pure, Except.pure] at h
    have := ih.rep; have := ih.dat; have := @advance_ratOk
    repeat' split at h
    all_goals first | (cases h; done) | grind
  · intro s v h hs
    rw [datum] at h
    simp only [bind, Except.bind, pure, Except.pure] at h
    have := ih.lp; have := ih.rep; have := ih.quo; have := @advance_ratOk
    have := hs.cur; have := @Datum.ratOkList_iff
    repeat' split at h
    all_goals first | (cases h; done) | grind [Datum.ratOk, Token.ratOk]
  · intro s v h hs
    rw [parseQuoted] at h
    simp only [bind, Except.bind, pure, Except.pure] at h
    have := ih.dat; have := mkQuote_ratOk
    repeat' split at h
    all_goals first | (cases h; done) | grind


theorem ratAt : ∀ fuel, RatAt fuel
  | 0 => ratAt_zero
  | n + 1 => ratAt_succ (ratAt n)

/-! ### the reader never panics -/

theorem advance_np {s e} (h : advance s = .error e) : e.NP := by
  unfold advance at h
  repeat' split at h
  all_goals first | (cases h; done) | (cases h; simp)

theorem advanceUnwrap_np {s e} (h : advanceUnwrap s = .error e) : e.NP := by
  unfold advanceUnwrap at h
  simp only [bind, Except.bind, pure, Except.pure] at h
  have := @advance_np
  repeat' split at h
  all_goals first | (cases h; done) | (cases h; simp; done) | grind

theorem peek_np {s e} (h : peek s = .error e) : e.NP := by
  unfold peek at h
  repeat' split at h
  all_goals first | (cases h; done) | (cases h; simp)

structure NPAt (fuel : Nat) : Prop where
  cur : ∀ s e, currentDatum fuel s = .error e → e.NP
  loop : ∀ s l acc dot e, listLoop fuel s l acc dot = .error e → e.NP
  lp : ∀ s e, listOrPair fuel s = .error e → e.NP
  rep : ∀ s acc e, repeatDatum fuel s acc = .error e → e.NP
  dat : ∀ s e, datum fuel s = .error e → e.NP
  quo : ∀ s e, parseQuoted fuel s = .error e → e.NP

theorem npAt_zero : NPAt 0 := by
  have hl : ∀ s l acc dot e, listLoop 0 s l acc dot = .error e → e.NP := by
    intro s l acc dot e h; simp [listLoop] at h; subst h; simp
  constructor
  · intro s e h; simp [currentDatum] at h; subst h; simp
  · exact hl
  · intro s e h; unfold listOrPair at h; exact hl _ _ _ _ _ h
  · intro s acc e h; simp [repeatDatum] at h; subst h; simp
  · intro s e h; simp [datum] at h; subst h; simp
  · intro s e h; simp [parseQuoted] at h; subst h; simp

theorem npAt_succ {fuel} (ih : NPAt fuel) : NPAt (fuel + 1) := by
  have hl : ∀ s l acc dot e, listLoop (fuel + 1) s l acc dot = .error e → e.NP := by
    intro s l acc dot e h
    rw [listLoop] at h
    simp only [bind, Except.bind, pure, Except.pure] at h
    have := ih.cur; have := ih.loop; have := @advanceUnwrap_np
    repeat' split at h
    all_goals first | (cases h; done) | (cases h; simp; done) | grind
  constructor
  · intro s e h
    rw [currentDatum] at h
    simp only [bind, Except.bind, pure, Except.pure] at h
    have := ih.lp; have := ih.rep; have := ih.quo; have := @advance_np
    repeat' split at h
    all_goals first | (cases h; done) | (cases h; simp; done) | grind
  · exact hl
  · intro s e h; unfold listOrPair at h; exact hl _ _ _ _ _ h
  · intro s acc e h
    rw [repeatDatum] at h
    simp only [bind, Except.bind, pure, Except.pure] at h
    have := ih.rep; have := ih.dat; have := @advance_np; have := @peek_np
    repeat' split at h
    all_goals first | (cases h; done) | (cases h; simp; done) | grind
  · intro s e h
    rw [datum] at h
    simp only [bind, Except.bind, pure, Except.pure] at h
    have := ih.lp; have := ih.rep; have := ih.quo; have := @advance_np
    repeat' split at h
    all_goals first | (cases h; done) | (cases h; simp; done) | grind
  · intro s e h
    rw [parseQuoted] at h
    simp only [bind, Except.bind, pure, Except.pure] at h
    have := ih.dat
    repeat' split at h
    all_goals first | (cases h; done) | (cases h; simp; done) | grind

theorem npAt : ∀ fuel, NPAt fuel
  | 0 => npAt_zero
  | n + 1 => npAt_succ (npAt n)

theorem nextDatum_np {s e} (h : nextDatum s = .error e) : e.NP := by
  unfold nextDatum at h
  simp only [bind, Except.bind] at h
  split at h
  · cases h; rename_i h; exact advance_np h
  · exact (npAt _).cur _ _ h


theorem ofText_ratOK (cs : List Char) : (ofText cs).RatOK := by
  unfold ofText
  exact ⟨Lex.all_ratOk cs, by simp⟩

theorem nextDatum_ratOk {s v} (h : nextDatum s = .ok v) (hs : s.RatOK) :
    v.2.RatOK ∧ ∀ d, v.1 = some d → d.ratOk = true := by
  unfold nextDatum at h
  simp only [bind, Except.bind] at h
  split at h
  · cases h
  · rename_i s1 h1
    exact (ratAt _).cur _ _ h (advance_ratOk h1 hs)

theorem allAux_ratOk : ∀ (fuel : Nat) (s : PState) (acc : List Datum), s.RatOK →
    (∀ d ∈ acc, d.ratOk = true) → ∀ d ∈ (allAux fuel s acc).1, d.ratOk = true
  | 0, s, acc, _, hacc => by simpa [allAux] using hacc
  | fuel + 1, s, acc, hs, hacc => by
    rw [allAux]
    split
    · simpa using hacc
    · simpa using hacc
    · rename_i d s' hn
      have := nextDatum_ratOk hn hs
      apply allAux_ratOk fuel s' _ this.1
      intro d' hd'
      rcases List.mem_cons.1 hd' with rfl | h
      · exact this.2 _ rfl
      · exact hacc _ h

theorem all_ratOk (cs : List Char) : ∀ d ∈ (all cs).1, d.ratOk = true :=
  allAux_ratOk _ _ _ (ofText_ratOK cs) (by simp)

theorem allAux_np : ∀ (fuel : Nat) (s : PState) (acc : List Datum) (e : SErr),
    (allAux fuel s acc).2 = some e → e.NP
  | 0, s, acc, e, h => by simp [allAux] at h
  | fuel + 1, s, acc, e, h => by
    rw [allAux] at h
    split at h
    · rename_i e' he; cases h; exact nextDatum_np he
    · cases h
    · exact allAux_np fuel _ _ e h

end Read

/-! ## the builders of patterns and templates never panic -/

/-- every error of the computation is a non-panic -/
structure ENP {α} (x : Except SErr α) : Prop where
  np : ∀ e, x = .error e → e.NP

theorem ENP.ok {α} (a : α) : ENP (.ok a : Except SErr α) := ⟨by intro e h; cases h⟩
theorem ENP.pure {α} (a : α) : ENP (pure a : Except SErr α) := ⟨by intro e h; cases h⟩
theorem ENP.syntax {α l} : ENP (.error (.syntax, l) : Except SErr α) := ⟨by intro e h; cases h; simp⟩
theorem ENP.fuel {α l} : ENP (.error (.fuel, l) : Except SErr α) := ⟨by intro e h; cases h; simp⟩
theorem ENP.bind {α β} {x : Except SErr α} {f : α → Except SErr β} (hx : ENP x) (hf : ∀ a, ENP (f a)) :
    ENP (x >>= f) := by
  cases x with
  | error e => exact ⟨by intro e' h; cases h; exact hx.np _ rfl⟩
  | ok a => exact hf a

theorem ENP.mapM {α β} {f : α → Except SErr β} (hf : ∀ a, ENP (f a)) (l : List α) : ENP (l.mapM f) := by
  induction l with
  | nil => simp only [List.mapM_nil]; exact ENP.pure _
  | cons a l ih => simp only [List.mapM_cons]; exact ENP.bind (hf a) fun b => ENP.bind ih fun _ => ENP.pure _

syntax "enp_close" : tactic
macro_rules
  | `(tactic| enp_close) => `(tactic| first
      | with_reducible exact ENP.ok _ | with_reducible exact ENP.pure _ | with_reducible exact ENP.syntax | with_reducible exact ENP.fuel)

namespace Macro



theorem tmpl_np_all :
    (∀ d, ENP (toTmpl d)) ∧ (∀ ds last, ENP (collectElems ds last)) ∧ (∀ d last, ENP (collectSpine d last)) := by
  apply toTmpl.mutual_induct (motive_1 := fun d => ENP (toTmpl d))
    (motive_2 := fun ds last => ENP (collectElems ds last))
    (motive_3 := fun d last => ENP (collectSpine d last))
  all_goals intros
  all_goals (try (first | rw [toTmpl] | rw [collectSpine] | rw [collectElems] | unfold collectSpine | unfold collectElems))
  all_goals repeat (first | enp_close | with_reducible assumption | (exact ‹∀ t : Tmpl, ENP (collectSpine _ (some t))› _) | (exact ‹∀ t : Tmpl, ENP (collectElems _ (some t))› _) | (with_reducible apply ENP.bind) | intro _ | split)

theorem toTmpl_np (d : Datum) : ENP (toTmpl d) := tmpl_np_all.1 d

theorem expectList_np (d : Datum) : ENP (expectList d) := by
  unfold expectList; split <;> enp_close

theorem identOf_np (d : Datum) : ENP (identOf d) := by
  unfold identOf; split <;> enp_close

theorem popProper_np (d : Datum) : ENP (popProper d) := by
  unfold popProper; split <;> enp_close

theorem toRule_np (k : String) (d : Datum) : ENP (toRule k d) := by
  unfold toRule
  repeat (first | enp_close | exact expectList_np _ | exact popProper_np _ | exact toTmpl_np _
                | (with_reducible apply ENP.bind) | intro _ | split)

theorem toRules_np (k : String) (d : Datum) : ENP (toRules k d) := by
  unfold toRules
  repeat (first | enp_close | exact expectList_np _ | exact ENP.mapM identOf_np _
                | exact ENP.mapM (toRule_np _) _
                | (with_reducible apply ENP.bind) | intro _ | split | dsimp only)

theorem transformRules_np (fuel : Nat) (lits : List String) :
    ∀ (rules : List (Pat × Tmpl)) (use : Datum), ENP (transformRules fuel lits rules use)
  | [], use => by rw [transformRules]; enp_close
  | (p, t) :: rest, use => by
    rw [transformRules]
    have hm : ENP (matchDatum fuel lits p use []) :=
      ⟨fun e he s hs => by
        obtain ⟨k, l⟩ := e
        simp only at hs; subst hs
        exact C04.match_no_panic he⟩
    have := transformRules_np fuel lits rest use
    repeat (first | enp_close | with_reducible assumption
                  | (with_reducible apply ENP.bind) | intro _ | split | dsimp only)

theorem transform_np (fuel : Nat) (r : Rules) (use : Datum) : ENP (transform fuel r use) :=
  transformRules_np _ _ _ _

end Macro


/-! ## `Xform.toStatement` never panics -/

namespace Xform

theorem bind_def' {α β} (m : XM α) (f : α → XM β) (s : SynEnv) :
    (m >>= f) s = match m s with
      | (.ok a, s') => f a s'
      | (.error e, s') => (.error e, s') := rfl
theorem pure_def' {α} (a : α) (s : SynEnv) : (pure a : XM α) s = (.ok a, s) := rfl

/-- no error of the computation is a panic, whatever the syntax environment -/
structure XNP {α} (m : XM α) : Prop where
  np : ∀ s e, (m s).1 = .error e → e.NP

theorem XNP.pure {α} (a : α) : XNP (pure a : XM α) := ⟨fun _ _ h => by cases h⟩
theorem XNP.failSyntax {α l} : XNP (fail (.syntax, l) : XM α) := ⟨fun _ _ h => by cases h; simp⟩
theorem XNP.failFuel {α l} : XNP (fail (.fuel, l) : XM α) := ⟨fun _ _ h => by cases h; simp⟩
theorem XNP.lift {α} {x : Except SErr α} (h : ENP x) : XNP (lift x) := ⟨fun _ _ he => h.np _ he⟩
theorem XNP.need {α} (x : Option α) : XNP (need x) := by
  cases x
  · exact XNP.failSyntax
  · exact XNP.pure _
theorem XNP.identOf (d : Datum) : XNP (identOf d) := XNP.lift (Macro.identOf_np d)
theorem XNP.expectList (d : Datum) : XNP (expectList d) := XNP.lift (Macro.expectList_np d)
theorem XNP.getEnv : XNP getEnv := ⟨fun _ _ h => by cases h⟩
theorem XNP.defineSyntax (k r) : XNP (defineSyntax k r) := ⟨fun _ _ h => by cases h⟩

theorem XNP.bind {α β} {m : XM α} {f : α → XM β} (hm : XNP m) (hf : ∀ a, XNP (f a)) : XNP (m >>= f) := by
  refine ⟨fun s e h => ?_⟩
  rw [bind_def'] at h
  have := hm.np s
  generalize m s = x at h this
  obtain ⟨r, s'⟩ := x
  cases r with
  | error e' => simp only at h; cases h; exact this _ rfl
  | ok a => exact (hf a).np _ _ h

theorem XNP.inChild {α} {m : XM α} (hm : XNP m) : XNP (inChild m) := by
  refine ⟨fun s e h => ?_⟩
  have := hm.np ([] :: s)
  simp only [Xform.inChild] at h
  generalize m ([] :: s) = x at h this
  obtain ⟨r, s'⟩ := x
  cases s' <;> exact this _ h

theorem XNP.mapM_loop {α β} {f : α → XM β} (hf : ∀ a, XNP (f a)) (l : List α) (acc : List β) :
    XNP (List.mapM.loop f l acc) := by
  induction l generalizing acc with
  | nil => simp only [List.mapM.loop]; exact XNP.pure _
  | cons a l ih =>
    simp only [List.mapM.loop]
    exact XNP.bind (hf a) fun b => ih _

theorem XNP.mapM {α β} {f : α → XM β} (hf : ∀ a, XNP (f a)) (l : List α) : XNP (l.mapM f) :=
  XNP.mapM_loop hf l []

syntax "xnp_close" : tactic
macro_rules
  | `(tactic| xnp_close) => `(tactic| first
      | exact XNP.failSyntax | exact XNP.failFuel | exact XNP.pure _ | exact XNP.need _ | exact XNP.identOf _
      | exact XNP.expectList _ | exact XNP.defineSyntax _ _ | exact XNP.getEnv
      | exact XNP.lift (Macro.popProper_np _) | exact XNP.lift (Macro.toRules_np _ _)
      | exact XNP.lift (Macro.transform_np _ _ _))

theorem XNP.toFormals (d : Datum) : XNP (toFormals d) := by
  unfold Xform.toFormals
  split
  · simp only; split <;> xnp_close
  · simp only; split <;> xnp_close
  · xnp_close
  · xnp_close

theorem XNP.toLibName (ds : List Datum) : XNP (toLibName ds) := by
  unfold Xform.toLibName
  apply XNP.mapM
  intro d
  split
  · xnp_close
  · split <;> xnp_close
  · xnp_close

theorem XNP.toExportSpec (d : Datum) : XNP (toExportSpec d) := by
  unfold Xform.toExportSpec
  repeat (first | xnp_close | apply XNP.bind | intro _ | split | dsimp only)

theorem XNP.toImportSet (n : Nat) (d : Datum) : XNP (toImportSet n d) := by
  induction n generalizing d with
  | zero => rw [Xform.toImportSet]; xnp_close
  | succ n ih =>
    rw [Xform.toImportSet]
    repeat (first | xnp_close | exact ih _ | exact XNP.toLibName _ | apply XNP.bind | apply XNP.mapM | intro _ | split | dsimp only)

structure NPAll (n : Nat) : Prop where
  stmt : ∀ d, XNP (toStatement n d)
  expr : ∀ d, XNP (toExpr n d)
  call : ∀ first args loc, XNP (toCall n first args loc)
  exprs : ∀ ds, XNP (toExprs n ds)
  defn : ∀ args, XNP (toDefinition n args)
  lam : ∀ args, XNP (toLambda n args)
  body : ∀ ds defs exprs, XNP (toBody n ds defs exprs)
  lib : ∀ args loc, XNP (toLibrary n args loc)
  decls : ∀ ds, XNP (toLibDecls n ds)
  decl : ∀ d, XNP (toLibDecl n d)
  stmts : ∀ ds, XNP (toStatements n ds)

syntax "xnp_all" term : tactic
macro_rules
  | `(tactic| xnp_all $ih) => `(tactic| repeat (first
      | xnp_close
      | exact NPAll.stmt $ih _ | exact NPAll.expr $ih _ | exact NPAll.call $ih _ _ _ | exact NPAll.exprs $ih _
      | exact NPAll.defn $ih _ | exact NPAll.lam $ih _ | exact NPAll.body $ih _ _ _ | exact NPAll.lib $ih _ _
      | exact NPAll.decls $ih _ | exact NPAll.decl $ih _ | exact NPAll.stmts $ih _
      | exact XNP.toFormals _ | exact XNP.toImportSet _ _ | exact XNP.toLibName _ | exact XNP.toExportSpec _
      | apply XNP.inChild | apply XNP.bind | apply XNP.mapM | intro _ | split | dsimp only))

section
variable {n : Nat} (ih : NPAll n)
include ih

theorem np_expr (d : Datum) : XNP (toExpr (n+1) d) := by
  rw [toExpr]; xnp_all ih
theorem np_call (first args loc) : XNP (toCall (n+1) first args loc) := by
  rw [toCall]; xnp_all ih
theorem np_exprs (ds) : XNP (toExprs (n+1) ds) := by
  cases ds <;> rw [toExprs] <;> xnp_all ih
theorem np_defn (args) : XNP (toDefinition (n+1) args) := by
  rw [toDefinition]; xnp_all ih
theorem np_lam (args) : XNP (toLambda (n+1) args) := by
  rw [toLambda]; xnp_all ih
theorem np_body (ds defs exprs) : XNP (toBody (n+1) ds defs exprs) := by
  cases ds <;> rw [toBody] <;> xnp_all ih
theorem np_lib (args loc) : XNP (toLibrary (n+1) args loc) := by
  rw [toLibrary]; xnp_all ih
theorem np_decls (ds) : XNP (toLibDecls (n+1) ds) := by
  cases ds <;> rw [toLibDecls] <;> xnp_all ih
theorem np_decl (d) : XNP (toLibDecl (n+1) d) := by
  rw [toLibDecl]; xnp_all ih
theorem np_stmts (ds) : XNP (toStatements (n+1) ds) := by
  cases ds <;> rw [toStatements] <;> xnp_all ih
theorem np_stmt (d : Datum) : XNP (toStatement (n+1) d) := by
  unfold toStatement; xnp_all ih
end

theorem npAll : ∀ n, NPAll n
  | 0 => by
    constructor <;> intros <;>
      simp only [toStatement, toExpr, toCall, toExprs, toDefinition, toLambda, toBody, toLibrary, toLibDecls,
        toLibDecl, toStatements] <;> xnp_close
  | n+1 =>
    have ih := npAll n
    ⟨np_stmt ih, np_expr ih, np_call ih, np_exprs ih, np_defn ih, np_lam ih, np_body ih, np_lib ih,
      np_decls ih, np_decl ih, np_stmts ih⟩

/-- `toStatement` never panics: for every datum, syntax environment and fuel -/
theorem toStatement_np (fuel : Nat) (d : Datum) (env : SynEnv) {e : SErr}
    (h : (toStatement fuel d env).1 = .error e) : e.NP :=
  ((npAll fuel).stmt d).np env e h

end Xform

end Ruschm

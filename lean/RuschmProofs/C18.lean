/-
Property C18 — "Text entered at the REPL is evaluated as soon as the lines entered so far close
every list they opened, and not before; each submission prints the value of its last form (nothing
for definitions and unspecified values) or its error message, and the session then continues with
all earlier definitions intact. The transcript is therefore the same however a form is split
across lines, and equals evaluating the same forms one after another on one interpreter."

`Front.replStep` is one iteration of `run_with_interpreter` on a line `readline` returned,
`Front.replRun` a whole session from `Interpreter::new_with_stdlib()`. The bracket counter itself
is related to the reader in `RuschmProofs/C18Bracket.lean` (`bracket_agrees_with_reader`, same
namespace). Spec-side definitions (`submit`, `groups`, `session`, `transcript`) are in
`RuschmSpec/Front.lean`; only property theorems live here, helpers in `FrontLemmas.lean`.
-/
import RuschmProofs.FrontLemmas
import RuschmProofs.UnlocFront
import RuschmProofs.C18Bracket

namespace Ruschm.C18
open Ruschm Ruschm.Interp Ruschm.Front Ruschm.FrontSpec Ruschm.Text

/-- an empty line is ignored: nothing is evaluated, printed or appended to the pending text -/
theorem repl_empty_line_ignored (fuel : Nat) (rs : ReplState) (line : String) (h : line.isEmpty = true) :
    replStep fuel rs line = (rs, {}) := by
  rw [replStep_eq, h]; rfl

/-- A non-empty line: the text entered so far (the pending lines, each followed by a newline, and
this line) is submitted — evaluated through the library interface on the session's interpreter,
the pending text cleared — exactly when the bracket counter finds it closed; otherwise nothing is
evaluated (the interpreter state is unchanged, nothing is printed) and the line and a newline are
appended to the pending text. -/
theorem repl_submits_iff_closed (fuel : Nat) (rs : ReplState) (line : String) (h : line.isEmpty = false) :
    ((replStep fuel rs line).2.submitted = Bracket.closed (rs.pending ++ line).toList) ∧
    (Bracket.closed (rs.pending ++ line).toList = true →
      replStep fuel rs line =
        ({ st := (submit fuel rs.st (rs.pending ++ line)).1, pending := "" },
         (submit fuel rs.st (rs.pending ++ line)).2)) ∧
    (Bracket.closed (rs.pending ++ line).toList = false →
      replStep fuel rs line = ({ st := rs.st, pending := rs.pending ++ line ++ "\n" }, {})) := by
  rw [replStep_eq, h]
  cases hc : Bracket.closed (rs.pending ++ line).toList
  · exact ⟨rfl, ⟨fun h => (by cases h), fun _ => rfl⟩⟩
  · exact ⟨submit_submitted _ _ _, ⟨fun _ => rfl, fun h => (by cases h)⟩⟩

/-- … and "closed" means what the reader means by it: when the text entered so far tokenises, it
is submitted exactly when its tokens contain at least as many `)` as `(`, `#(`, `#u8(` — "the
lines entered so far close every list they opened" (`bracket_agrees_with_reader`). -/
theorem repl_submits_iff_depth (fuel : Nat) (rs : ReplState) (line : String) (h : line.isEmpty = false)
    (ts : List LToken) (hl : Lex.all (rs.pending ++ line).toList = (ts, none)) :
    (replStep fuel rs line).2.submitted = decide (depth (ts.map (·.tok)) ≤ 0) := by
  rw [(repl_submits_iff_closed fuel rs line h).1, bracket_agrees_with_reader _ ts hl]

/-- What a submission prints: the program's output, then — when the text evaluated — the value of
its LAST form in `display` notation and a newline, but nothing for a text whose last form has no
value (a definition, an import, a syntax definition; also an empty text) and nothing for the
unspecified value; when a form failed, the output up to there and the error message only. -/
theorem repl_prints_last_value (fuel : Nat) (st : State) (source : String) :
    let r := evalText fuel (clearOut st) source.toList
    (r.1 = .ok none → (submit fuel st source).2.stdout = outText r.2.store ∧ (submit fuel st source).2.err = none) ∧
    (r.1 = .ok (some .void) →
      (submit fuel st source).2.stdout = outText r.2.store ∧ (submit fuel st source).2.err = none) ∧
    (∀ v, v ≠ .void → r.1 = .ok (some v) →
      (submit fuel st source).2.stdout = outText r.2.store ++ (Prim.display r.2.store 100000 v ++ "\n") ∧
      (submit fuel st source).2.err = none) ∧
    (∀ e loc, r.1 = .error (e, loc) →
      (submit fuel st source).2.stdout = outText r.2.store ∧ (submit fuel st source).2.err = some e) := by
  intro r
  have hr : evalText fuel (clearOut st) source.toList = r := rfl
  unfold submit
  rw [hr]
  obtain ⟨o, st'⟩ := r
  cases o with
  | error e =>
    obtain ⟨e, l⟩ := e
    refine ⟨fun h => (by cases h), ⟨fun h => (by cases h), ⟨fun _ _ h => (by cases h), fun _ _ h => ?_⟩⟩⟩
    cases h; exact ⟨rfl, rfl⟩
  | ok v =>
    refine ⟨fun h => ?_, ⟨fun h => ?_, ⟨fun v' hv h => ?_, fun _ _ h => (by cases h)⟩⟩⟩
    · cases h; simp [echoOf]
    · cases h; simp [echoOf]
    · cases h
      cases v' <;> first | exact absurd rfl hv | exact ⟨rfl, rfl⟩

/-- The session continues, after a value and after an error alike, on the state the library
interface returned: the next line is handled on `(evalText …).2`, in which everything the
submission did before its failing form — definitions included — is kept. -/
theorem repl_continues_after_error (fuel : Nat) (rs : ReplState) (line : String) (h : line.isEmpty = false)
    (hc : Bracket.closed (rs.pending ++ line).toList = true) :
    (replStep fuel rs line).1.st = (evalText fuel (clearOut rs.st) (rs.pending ++ line).toList).2 ∧
    (replStep fuel rs line).1.pending = "" := by
  rw [((repl_submits_iff_closed fuel rs line h).2).1 hc]
  refine ⟨?_, rfl⟩
  simp only [submit]
  generalize evalText fuel (clearOut rs.st) (rs.pending ++ line).toList = r
  obtain ⟨o, st'⟩ := r
  cases o with
  | ok v => rfl
  | error e => obtain ⟨e, l⟩ := e; rfl

/-- A SESSION IS ITS LINE GROUPS. `replRun` evaluates exactly the maximal line groups
(`groups lines`: non-empty lines joined by newlines until the text is closed): the interpreter
ends in the state reached by submitting the groups one after another, the pending text is the
unfinished rest, the submitting steps print what the groups' submissions print, and the other
steps print nothing. -/
theorem repl_groups (fuel : Nat) (lines : List String) :
    (replRun fuel lines).1 =
      { st := (session fuel (withStdlib fuel false) (groups lines)).1, pending := unfinished lines } ∧
    (replRun fuel lines).2.filter (·.submitted) = (session fuel (withStdlib fuel false) (groups lines)).2 ∧
    ∀ o ∈ (replRun fuel lines).2, o.submitted = false → o.stdout = "" ∧ o.err = none := by
  rw [replRun_eq]
  exact replList_groups fuel lines { st := withStdlib fuel false }

/-- THE TRANSCRIPT EQUALS SEQUENTIAL EVALUATION. The final interpreter state, everything written to
standard output and the error messages of a session are those of evaluating the groups' texts
one after another with the library interface on ONE interpreter with the standard library
(`session`: each text from the state the previous one left, with the model's output buffer
cleared so that output is attributed to its submission). -/
theorem repl_eq_sequential (fuel : Nat) (lines : List String) :
    (replRun fuel lines).1.st = (session fuel (withStdlib fuel false) (groups lines)).1 ∧
    transcript (replRun fuel lines).2 = transcript (session fuel (withStdlib fuel false) (groups lines)).2 ∧
    errors (replRun fuel lines).2 = errors (session fuel (withStdlib fuel false) (groups lines)).2 := by
  obtain ⟨h1, h2, h3⟩ := repl_groups fuel lines
  obtain ⟨t1, t2⟩ := transcript_filter _ h3
  rw [h1, ← h2, t1, t2]
  exact ⟨rfl, rfl, rfl⟩

/-! ## splitting a form across lines -/

/-- SPLITTING IS A NEWLINE. Breaking a line in two at a point where the text entered so far is
not closed (both halves non-empty) submits the same groups as entering the line unbroken with a
newline at that point — so a form split across lines differs from the unsplit form only in the
blank between two of its tokens (a newline for whatever was there); empty lines do not count at
all (`repl_empty_line_ignored`). -/
theorem split_is_newline (pre ls : List String) (x y : String)
    (hx : x.isEmpty = false) (hy : y.isEmpty = false)
    (hc : Bracket.closed (unfinished pre ++ x).toList = false) :
    groups (pre ++ x :: y :: ls) = groups (pre ++ (x ++ "\n" ++ y) :: ls) ∧
    unfinished (pre ++ x :: y :: ls) = unfinished (pre ++ (x ++ "\n" ++ y) :: ls) :=
  groups_split pre ls x y hx hy hc

/-- SPLIT INVARIANCE. Two sessions whose groups are, one by one, texts with the same TOKENS — however
the tokens are spread over lines, indented or commented — print the same thing step by step
(each submission's output, echo and error message), hence have the same transcript and the same
error messages, and end in the same interpreter state up to the source positions recorded in
procedures. (`ReplOut` carries no locations; this is `evalText`'s value and error kind being a
function of the token list alone: `C17.outcome_depends_on_tokens_only`.) -/
theorem repl_split_invariance (fuel : Nat) (lines₁ lines₂ : List String)
    (h : SameTokens (groups lines₁) (groups lines₂)) :
    (replRun fuel lines₁).2.filter (·.submitted) = (replRun fuel lines₂).2.filter (·.submitted) ∧
    transcript (replRun fuel lines₁).2 = transcript (replRun fuel lines₂).2 ∧
    errors (replRun fuel lines₁).2 = errors (replRun fuel lines₂).2 ∧
    (replRun fuel lines₁).1.st.unloc = (replRun fuel lines₂).1.st.unloc := by
  obtain ⟨a0, a1, _⟩ := repl_groups fuel lines₁
  obtain ⟨b0, b1, _⟩ := repl_groups fuel lines₂
  obtain ⟨a1', a2, a3⟩ := repl_eq_sequential fuel lines₁
  obtain ⟨b1', b2, b3⟩ := repl_eq_sequential fuel lines₂
  obtain ⟨c, d⟩ := session_sameTokens fuel _ _ (withStdlib fuel false) (withStdlib fuel false) h rfl
  rw [a1, b1, a2, b2, a3, b3, a1', b1', c]
  exact ⟨rfl, rfl, rfl, d⟩

/-- a form written on one line or split across lines with any valid layout: the groups' texts
have the same tokens (`C06.lex_render`) -/
theorem rendered_same_tokens (ts : List Token) (l₁ l₂ : List (List Char))
    (hs : ∀ t ∈ ts, Text.SupportedTok t) (h₁ : Text.ValidLayout ts l₁) (h₂ : Text.ValidLayout ts l₂) :
    toksOf (String.ofList (Text.interleave ts l₁)).toList = toksOf (String.ofList (Text.interleave ts l₂)).toList := by
  simp only [String.toList_ofList]
  rw [toksOf_interleave ts l₁ hs h₁, toksOf_interleave ts l₂ hs h₂]

/-- SPLIT INVARIANCE, located form: with the same tokens at the same locations (in particular
with the same groups, e.g. sessions differing in empty lines only) the final interpreter states
are equal, not only equal up to recorded positions. -/
theorem repl_split_invariance_located (fuel : Nat) (lines₁ lines₂ : List String)
    (h : SameLocTokens (groups lines₁) (groups lines₂)) :
    (replRun fuel lines₁).1.st = (replRun fuel lines₂).1.st ∧
    transcript (replRun fuel lines₁).2 = transcript (replRun fuel lines₂).2 ∧
    errors (replRun fuel lines₁).2 = errors (replRun fuel lines₂).2 := by
  obtain ⟨a1, a2, a3⟩ := repl_eq_sequential fuel lines₁
  obtain ⟨b1, b2, b3⟩ := repl_eq_sequential fuel lines₂
  rw [a1, a2, a3, b1, b2, b3, session_congr fuel _ _ _ h]
  exact ⟨rfl, rfl, rfl⟩

section Example
/-- the same session with and without an empty line inside a form: same state, same transcript -/
example (fuel : Nat) :
    transcript (replRun fuel ["(car", "", "'(1 2))"]).2 = transcript (replRun fuel ["(car", "'(1 2))"]).2 := by
  have hg : groups ["(car", "", "'(1 2))"] = groups ["(car", "'(1 2))"] := by decide
  exact (repl_split_invariance_located fuel _ _ (by rw [hg]; exact sameLocTokens_refl _)).2.1

/-- `(car '(1 2))` entered on one line, or on two lines with extra blanks: the same transcript -/
example (fuel : Nat) :
    transcript (replRun fuel ["(car", "   '(1 2))"]).2 = transcript (replRun fuel ["(car '(1 2))"]).2 := by
  let ts : List Token := [.lparen, .ident "car", .quote, .lparen, .prim (.int 1), .prim (.int 2), .rparen, .rparen]
  have hs : ∀ t ∈ ts, Text.SupportedTok t := by
    intro t ht
    simp only [ts, List.mem_cons, List.not_mem_nil, or_false] at ht
    rcases ht with rfl | rfl | rfl | rfl | rfl | rfl | rfl | rfl
    · trivial
    · exact Or.inl (by decide)
    · trivial
    · trivial
    · exact (by decide : fitsI32 1 = true)
    · exact (by decide : fitsI32 2 = true)
    · trivial
    · trivial
  have g1 : groups ["(car", "   '(1 2))"] = ["(car\n   '(1 2))"] := by decide
  have g2 : groups ["(car '(1 2))"] = ["(car '(1 2))"] := by decide
  have e1 : String.ofList (Text.interleave ts [[], [], "\n   ".toList, [], [], [' '], [], [], []]) = "(car\n   '(1 2))" := by
    decide
  have e2 : String.ofList (Text.interleave ts [[], [], [' '], [], [], [' '], [], [], []]) = "(car '(1 2))" := by
    decide
  have ht := rendered_same_tokens ts [[], [], "\n   ".toList, [], [], [' '], [], [], []]
    [[], [], [' '], [], [], [' '], [], [], []] hs (by decide) (by decide)
  rw [e1, e2] at ht
  exact (repl_split_invariance fuel _ _ (by rw [g1, g2]; exact ⟨ht, trivial⟩)).2.1

/-- breaking `(define (f x) (* x 2))` after `(define (f x)` -/
example : groups ["(define (f x)", "  (* x 2))", "(f 21)"] = groups ["(define (f x)\n  (* x 2))", "(f 21)"] :=
  (split_is_newline [] ["(f 21)"] "(define (f x)" "  (* x 2))" (by decide) (by decide) (by decide)).1

/-- `(define (f x)` / `` / `  (* x 2))` / `(f 21)`: two groups; the empty line is dropped -/
example : groups ["(define (f x)", "", "  (* x 2))", "(f 21)"] = ["(define (f x)\n  (* x 2))", "(f 21)"] := by
  decide
example : unfinished ["(f 21)", "(g", "1"] = "(g\n1\n" := by decide
end Example

end Ruschm.C18

/-
Property C01 — the core forms evaluate as R7RS prescribes (under construction).
Only property theorems live here; helper lemmas are in `RuschmProofs/EvalLemmas.lean`.
-/
import RuschmSpec.Ref
import RuschmProofs.EvalLemmas

namespace Ruschm.C01
open Ruschm Ruschm.Eval

/-- only `#f` counts as false -/
theorem truthy_iff (v : Value) : v.truthy = false ↔ v = .bool false := by
  cases v <;> simp [Value.truthy]
  rename_i b; cases b <;> simp

example : (Value.num (.int 0)).truthy = true ∧ Value.nil.truthy = true ∧ (Value.str "").truthy = true := ⟨rfl, rfl, rfl⟩

end Ruschm.C01

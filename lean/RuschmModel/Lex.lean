/-
Model of `src/parser/lexer.rs`: `Lexer::try_next` and its scanners, on `List Char`.
Every function mirrors one Rust function; the cursor `Pos` is `Lexer.location`
(`[line, column]`, starting at `[1,1]`, updated by `advance`). A token's location is the cursor
after its last consumed character.
-/
import RuschmModel.Datum
namespace Ruschm.Lex

abbrev Pos := Nat × Nat

/-- `Lexer::advance` on one character -/
def adv (c : Char) (p : Pos) : Pos := if c = '\n' then (p.1 + 1, 1) else (p.1, p.2 + 1)

def isWs (c : Char) : Bool := c = ' ' || c = '\t' || c = '\n' || c = '\r'

/-- the delimiter set of `test_delimiter` -/
def isDelimiter (c : Char) : Bool :=
  isWs c || c = '(' || c = ')' || c = '"' || c = ';' || c = '|'

def isDigit (c : Char) : Bool := decide ('0' ≤ c) && decide (c ≤ '9')

def isLetter (c : Char) : Bool :=
  (decide ('a' ≤ c) && decide (c ≤ 'z')) || (decide ('A' ≤ c) && decide (c ≤ 'Z'))

/-- `is_identifier_initial` -/
def isInitial (c : Char) : Bool :=
  isLetter c || c = '!' || c = '$' || c = '%' || c = '&' || c = '*' || c = '/' || c = ':' || c = '<'
    || c = '=' || c = '>' || c = '?' || c = '@' || c = '^' || c = '_' || c = '~'

/-- the characters an identifier may continue with -/
def isSubsequent (c : Char) : Bool :=
  isInitial c || isDigit c || c = '+' || c = '-' || c = '.' || c = '@'

/-- `char::is_ascii_alphanumeric` -/
def isAsciiAlnum (c : Char) : Bool := isLetter c || isDigit c

/-- a lexer error: always a `SyntaxError`, with the cursor where it was detected -/
abbrev LexErr := Pos

/-- result of scanning one token: the token, the remaining input and the cursor -/
abbrev Scan := Except LexErr (Token × List Char × Pos)

/-- `test_delimiter(location, c)` -/
def testDelimiter (p : Pos) (c : Char) : Except LexErr Unit :=
  if isDelimiter c then .ok () else .error p

/-- `end_of_token`: the next character must be a delimiter, or the input ends -/
def endOfToken (cs : List Char) (p : Pos) : Except LexErr Unit :=
  match cs with
  | [] => .ok ()
  | c :: _ => testDelimiter p c

/-- `end_of_sharp_token`: a boolean or character may also be followed by `#` -/
def endOfSharpToken (cs : List Char) (p : Pos) : Except LexErr Unit :=
  match cs with
  | '#' :: _ => .ok ()
  | _ => endOfToken cs p

/-- skip blanks and `;` comments (`atmosphere` / `comment` re-entering `try_next`).
A comment ends before `\n` or `\r`. -/
def skipAtmosphere : Bool → List Char → Pos → List Char × Pos
  | _, [], p => ([], p)
  | false, c :: cs, p =>
    if isWs c then skipAtmosphere false cs (adv c p)
    else if c = ';' then skipAtmosphere true cs (adv c p)
    else (c :: cs, p)
  | true, c :: cs, p =>
    if c = '\n' || c = '\r' then skipAtmosphere false (c :: cs) p
    else skipAtmosphere true cs (adv c p)
termination_by b cs _ => (cs.length, if b then 1 else 0)
decreasing_by all_goals simp_wf <;> first | omega | (simp [Prod.lex_def]; omega) | (apply Prod.Lex.left; simp) | (apply Prod.Lex.right; simp)

/-- consume a run of characters satisfying `f` (`digital10`, identifier continuation, …) -/
def takeRun (f : Char → Bool) : List Char → Pos → List Char → List Char × List Char × Pos
  | [], p, acc => (acc.reverse, [], p)
  | c :: cs, p, acc => if f c then takeRun f cs (adv c p) (c :: acc) else (acc.reverse, c :: cs, p)

def digitsVal (ds : List Char) : Nat := ds.foldl (fun a c => a * 10 + (c.toNat - '0'.toNat)) 0

/-- `str::parse::<i32>()` of `sign? digits+`: the value if it is in range -/
def parseI32? (text : List Char) : Option Int :=
  let (neg, ds) := match text with
    | '-' :: r => (true, r)
    | '+' :: r => (false, r)
    | r => (false, r)
  if ds.isEmpty || !(ds.all isDigit) then none else
  let v : Int := digitsVal ds
  let v := if neg then -v else v
  if fitsI32 v then some v else none

/-- `str::parse::<u32>()` of `digits*` -/
def parseU32? (ds : List Char) : Option Nat :=
  if ds.isEmpty || !(ds.all isDigit) then none else
  let v := digitsVal ds
  if v ≤ 4294967295 then some v else none

/-- does `str::parse::<f64>()` accept this text? The lexer only builds
`sign? digits* ('.' digits*)? ('e' sign? digits*)?`; Rust accepts it iff the mantissa has a digit
and the exponent, when present, has a digit. -/
def validReal (text : List Char) : Bool :=
  let t := match text with
    | '-' :: r => r
    | '+' :: r => r
    | r => r
  let ip := t.takeWhile isDigit
  let t := t.dropWhile isDigit
  let (fp, t) := match t with
    | '.' :: r => (r.takeWhile isDigit, r.dropWhile isDigit)
    | r => ([], r)
  let mantOk := !(ip.isEmpty && fp.isEmpty)
  match t with
  | [] => mantOk
  | 'e' :: r =>
    let r := match r with
      | '-' :: r' => r'
      | '+' :: r' => r'
      | r' => r'
    mantOk && !r.isEmpty && r.all isDigit
  | _ => false

/-- `u32::from_str_radix(s, 16)` then `char::from_u32`: optional leading `+`, hex digits, at
least one, value a Unicode scalar value -/
def hexScalar? (s : List Char) : Option Char :=
  let ds := match s with
    | '+' :: r => r
    | r => r
  if ds.isEmpty then none else
  match Proto.hexVal ds with
  | none => none
  | some n =>
    if n ≤ 4294967295 ∧ (n < 0xD800 ∨ (0xDFFF < n ∧ n ≤ 0x10FFFF)) then some (Char.ofNat n) else none

def realToken (text : List Char) (rest : List Char) (p : Pos) : Scan :=
  if validReal text then .ok (.prim (.real (String.ofList text)), rest, p) else .error p

def integerToken (text : List Char) (rest : List Char) (p : Pos) : Scan :=
  match parseI32? text with
  | some i => .ok (.prim (.int i), rest, p)
  | none => .error p

/-- `number_suffix`: the `e` is the next character; consumes `e`, an optional sign, a digit run -/
def numberSuffix (lit : List Char) (cs : List Char) (p : Pos) : List Char × List Char × Pos :=
  match cs with
  | e :: cs1 =>
    let p1 := adv e p
    let lit := lit ++ ['e']
    let (lit, cs2, p2) := match cs1 with
      | s :: cs2 => if s = '+' || s = '-' then (lit ++ [s], cs2, adv s p1) else (lit, cs1, p1)
      | [] => (lit, cs1, p1)
    let (ds, cs3, p3) := takeRun isDigit cs2 p2 []
    (lit ++ ds, cs3, p3)
  | [] => (lit, cs, p)

/-- `real`: the `.` is the next character -/
def real (lit : List Char) (cs : List Char) (p : Pos) : Except LexErr (List Char × List Char × Pos) :=
  match cs with
  | dot :: cs1 =>
    let lit := lit ++ ['.']
    let p1 := adv dot p
    match cs1 with
    | [] => .ok (lit, cs1, p1)
    | nc :: _ =>
      if nc = 'e' then
        let (lit, cs2, p2) := numberSuffix lit cs1 p1
        do endOfToken cs2 p2; pure (lit, cs2, p2)
      else if isDigit nc then
        let (ds, cs2, p2) := takeRun isDigit cs1 p1 []
        let lit := lit ++ ds
        match cs2 with
        | [] => .ok (lit, cs2, p2)
        | nnc :: _ =>
          if nnc = 'e' then
            let (lit, cs3, p3) := numberSuffix lit cs2 p2
            do endOfToken cs3 p3; pure (lit, cs3, p3)
          else do testDelimiter p2 nnc; pure (lit, cs2, p2)
      else do testDelimiter p1 nc; pure (lit, cs1, p1)
  | [] => .ok (lit, cs, p)

/-- `number`: `first` (a sign or a digit) has been consumed -/
def number (first : Char) (cs : List Char) (p : Pos) : Scan :=
  -- the loop only ever consumes digit runs before it leaves, so one run is the whole loop
  let (ds, cs1, p1) := takeRun isDigit cs p []
  let lit := first :: ds
  match cs1 with
  | [] => integerToken lit cs1 p1
  | nc :: rest =>
    if nc = 'e' then
      let (lit, cs2, p2) := numberSuffix lit cs1 p1
      do endOfToken cs2 p2; realToken lit cs2 p2
    else if nc = '.' then
      do let (lit, cs2, p2) ← real lit cs1 p1; realToken lit cs2 p2
    else if nc = '/' then
      let p2 := adv nc p1
      let (den, cs3, p3) := takeRun isDigit rest p2 []
      do
        endOfToken cs3 p3
        match parseI32? lit, parseU32? den with
        | some _, some 0 => .error p3
        | some a, some b => pure (.prim (.rat a b), cs3, p3)
        | _, _ => .error p3
    else do testDelimiter p1 nc; integerToken lit cs1 p1

/-- `normal_identifier`: `first` has been consumed -/
def normalIdentifier (first : Char) (cs : List Char) (p : Pos) : Scan :=
  let (run, cs1, p1) := takeRun isSubsequent cs p []
  match cs1 with
  | [] => .ok (.ident (String.ofList (first :: run)), cs1, p1)
  | nc :: _ => do testDelimiter p1 nc; pure (.ident (String.ofList (first :: run)), cs1, p1)

/-- `dot_subsequent` -/
def dotSubsequent (acc : List Char) (cs : List Char) (p : Pos) :
    Except LexErr (List Char × List Char × Pos) :=
  match cs with
  | [] => .ok (acc, cs, p)
  | c :: _ =>
    if c = '+' || c = '-' || c = '.' || c = '@' || isInitial c then
      let (run, cs1, p1) := takeRun isSubsequent cs p []
      match cs1 with
      | [] => .ok (acc ++ run, cs1, p1)
      | nc :: _ => do testDelimiter p1 nc; pure (acc ++ run, cs1, p1)
    else do testDelimiter p c; pure (acc, cs, p)

/-- `percular_identifier`: `first ∈ {+, -, .}` has been consumed -/
def peculiarIdentifier (first : Char) (cs : List Char) (p : Pos) : Scan :=
  if first = '+' || first = '-' then
    match cs with
    | [] => .ok (.ident (String.ofList [first]), cs, p)
    | c :: cs1 =>
      if c = '.' then do
        let (s, cs2, p2) ← dotSubsequent [first, '.'] cs1 (adv c p)
        pure (.ident (String.ofList s), cs2, p2)
      else do
        let (s, cs2, p2) ← dotSubsequent [first] cs p
        pure (.ident (String.ofList s), cs2, p2)
  else do
    let (s, cs2, p2) ← dotSubsequent [first] cs p
    pure (.ident (String.ofList s), cs2, p2)

/-- `quoted_identifier`: everything up to the next `|` -/
def quotedIdentifier : List Char → Pos → List Char → Scan
  | [], p, _ => .error p
  | c :: cs, p, acc =>
    if c = '|' then .ok (.ident (String.ofList acc.reverse), cs, adv c p)
    else quotedIdentifier cs (adv c p) (c :: acc)

/-- the `\x<hex>;` escape: characters up to `;` -/
def hexEscape : List Char → Pos → List Char → Except LexErr (List Char × List Char × Pos)
  | [], p, _ => .error p
  | c :: cs, p, acc =>
    if c = ';' then .ok (acc.reverse, cs, adv c p) else hexEscape cs (adv c p) (c :: acc)

theorem hexEscape_length {cs p acc h cs' p'} (e : hexEscape cs p acc = .ok (h, cs', p')) :
    cs'.length < cs.length := by
  induction cs generalizing p acc with
  | nil => simp [hexEscape] at e
  | cons c cs ih =>
    unfold hexEscape at e
    split at e
    · cases e; simp
    · have := ih e; simp; omega

/-- `string`: the opening quote has been consumed -/
def string : List Char → Pos → List Char → Scan
  | [], p, _ => .error p
  | c :: cs, p, acc =>
    let p1 := adv c p
    if c = '"' then .ok (.prim (.str (String.ofList acc.reverse)), cs, p1)
    else if c = '\\' then
      match cs with
      | [] => .error p1
      | ec :: cs1 =>
        let p2 := adv ec p1
        if ec = 'a' then string cs1 p2 ('\x07' :: acc)
        else if ec = 'b' then string cs1 p2 ('\x08' :: acc)
        else if ec = 't' then string cs1 p2 ('\t' :: acc)
        else if ec = 'n' then string cs1 p2 ('\n' :: acc)
        else if ec = 'r' then string cs1 p2 ('\r' :: acc)
        else if ec = '"' then string cs1 p2 ('"' :: acc)
        else if ec = '\\' then string cs1 p2 ('\\' :: acc)
        else if ec = '|' then string cs1 p2 ('|' :: acc)
        else if ec = ' ' then string cs1 p2 acc
        else if ec = 'x' then
          match h : hexEscape cs1 p2 [] with
          | .error e => .error e
          | .ok (hex, cs2, p3) =>
            match hexScalar? hex with
            | some ch => string cs2 p3 (ch :: acc)
            | none => .error p3
        else .error p2
    else string cs p1 (c :: acc)
termination_by cs => cs.length
decreasing_by
  all_goals simp_wf
  all_goals first | omega | (have := hexEscape_length h; simp at this ⊢; omega)

/-- the character names of `Lexer::character` -/
def charName? (name : List Char) : Option Char :=
  match String.ofList name with
  | "alarm" => some '\x07'
  | "backspace" => some '\x08'
  | "delete" => some '\x7f'
  | "escape" => some '\x1b'
  | "newline" => some '\n'
  | "null" => some '\x00'
  | "return" => some '\r'
  | "space" => some ' '
  | "tab" => some '\t'
  | _ => none

/-- `character`: `#\` and `first` have been consumed -/
def character (first : Char) (cs : List Char) (p : Pos) : Scan :=
  let (run, cs1, p1) := takeRun isAsciiAlnum cs p []
  do
    endOfSharpToken cs1 p1
    if run.isEmpty then pure (.prim (.chr first), cs1, p1) else
    match charName? (first :: run) with
    | some c => pure (.prim (.chr c), cs1, p1)
    | none =>
      if first = 'x' then
        match hexScalar? run with
        | some c => if run.head? = some '+' then .error p1 else pure (.prim (.chr c), cs1, p1)
        | none => .error p1
      else .error p1

/-- `try_next` once blanks and comments are skipped: `none` is the end of input.
(`,` as the very last character also ends the input silently, as in the Rust.) -/
def token (cs : List Char) (p : Pos) : Except LexErr (Option (Token × List Char × Pos)) :=
  match cs with
  | [] => .ok none
  | c :: cs1 =>
    let p1 := adv c p
    if c = '(' then .ok (some (.lparen, cs1, p1))
    else if c = ')' then .ok (some (.rparen, cs1, p1))
    else if c = '\'' then .ok (some (.quote, cs1, p1))
    else if c = '`' then .ok (some (.quasiquote, cs1, p1))
    else if c = '#' then
      match cs1 with
      | [] => .error p1
      | cn :: cs2 =>
        let p2 := adv cn p1
        if cn = '(' then .ok (some (.vecIntro, cs2, p2))
        else if cn = 't' || cn = 'f' then do
          endOfSharpToken cs2 p2
          pure (some (.prim (.bool (cn = 't')), cs2, p2))
        else if cn = '\\' then
          match cs2 with
          | [] => .error p2
          | cnn :: cs3 => (character cnn cs3 (adv cnn p2)).map some
        else if cn = 'u' then
          match cs2 with
          | [] => .error p2
          | c8 :: cs3 =>
            let p3 := adv c8 p2
            if c8 = '8' then
              match cs3 with
              | [] => .error p3
              | cp :: cs4 => if cp = '(' then .ok (some (.byteVecIntro, cs4, adv cp p3)) else .error (adv cp p3)
            else .error p3
        else .error p2
    else if c = ',' then
      match cs1 with
      | [] => .ok none
      | nc :: cs2 => if nc = '@' then .ok (some (.unquoteSplicing, cs2, adv nc p1)) else .ok (some (.unquote, cs1, p1))
    else if c = '.' then
      match cs1 with
      | [] => .ok (some (.period, cs1, p1))
      | nc :: _ => if isDelimiter nc then .ok (some (.period, cs1, p1)) else (peculiarIdentifier c cs1 p1).map some
    else if c = '+' || c = '-' then
      match cs1 with
      | nc :: _ => if isDigit nc || nc = '.' then (number c cs1 p1).map some else (peculiarIdentifier c cs1 p1).map some
      | [] => (peculiarIdentifier c cs1 p1).map some
    else if c = '"' then (string cs1 p1 []).map some
    else if isDigit c then (number c cs1 p1).map some
    else if c = '|' then (quotedIdentifier cs1 p1 []).map some
    else (normalIdentifier c cs1 p1).map some

/-- `try_next`: skip the atmosphere, then one token -/
def next (cs : List Char) (p : Pos) : Except LexErr (Option (Token × List Char × Pos)) :=
  let (cs1, p1) := skipAtmosphere false cs p
  token cs1 p1

/-- the whole token stream (`Lexer` as an iterator, collected): tokens with their locations, and
the error that ended the stream if there was one. Fuel = number of characters + 1 always
suffices because every token consumes a character. -/
def allAux : Nat → List Char → Pos → List LToken → List LToken × Option LexErr
  | 0, _, _, acc => (acc.reverse, none)
  | fuel + 1, cs, p, acc =>
    match next cs p with
    | .error e => (acc.reverse, some e)
    | .ok none => (acc.reverse, none)
    | .ok (some (t, cs1, p1)) => allAux fuel cs1 p1 (⟨t, some p1⟩ :: acc)

def all (cs : List Char) : List LToken × Option LexErr := allAux (cs.length + 1) cs (1, 1) []

end Ruschm.Lex

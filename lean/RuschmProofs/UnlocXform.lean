/-
Location erasure commutes with the transformer (`transform_to_statement` and its helpers):
continuation of `UnlocText.lean`.
-/
import RuschmProofs.UnlocText
import RuschmProofs.EvalLemmas
set_option linter.unusedSimpArgs false
set_option linter.unusedVariables false
namespace Ruschm
open Xform Macro

/-- `m'` (run on data without locations) computes what `m` computes, without locations; the
syntax environment (which holds no locations) is the same -/
def XComm {α β} (f : α → β) (m' : XM β) (m : XM α) : Prop := ∀ s, m' s = (mapE f (m s).1, (m s).2)

theorem XComm.pure {α β} (f : α → β) (a : α) : XComm f (Pure.pure (f a) : XM β) (Pure.pure a) := fun _ => rfl
theorem XComm.pure' {α β} (f : α → β) (a : α) (b : β) (h : b = f a) : XComm f (Pure.pure b : XM β) (Pure.pure a) :=
  h ▸ fun _ => rfl
theorem XComm.fail {α β} (f : α → β) (e : SErr) : XComm f (Xform.fail e.unloc : XM β) (Xform.fail e) := fun _ => rfl
theorem XComm.fail' {α β} (f : α → β) (k : Err) (l : Loc) : XComm f (Xform.fail (k, none) : XM β) (Xform.fail (k, l)) :=
  fun _ => rfl
theorem XComm.lift {α β} (f : α → β) {x' : Except SErr β} {x : Except SErr α} (h : x' = mapE f x) :
    XComm f (Xform.lift x') (Xform.lift x) := fun _ => by simp [Xform.lift, h]
theorem XComm.need {α β} (f : α → β) (x : Option α) : XComm f (Xform.need (x.map f)) (Xform.need x) := by
  cases x
  · exact XComm.fail' f _ _
  · exact XComm.pure f _

theorem XComm.bind {α β γ δ} {f : α → β} {h : γ → δ} {m' : XM β} {m : XM α} {g' : β → XM δ} {g : α → XM γ}
    (hm : XComm f m' m) (hg : ∀ a, XComm h (g' (f a)) (g a)) : XComm h (m' >>= g') (m >>= g) := by
  intro s
  simp only [XM.bind_def, hm s]
  rcases m s with ⟨_ | a, s1⟩
  · rfl
  · exact hg a s1

theorem XComm.getEnv_bind {γ δ} {h : γ → δ} {g' : SynEnv → XM δ} {g : SynEnv → XM γ}
    (hg : ∀ env, XComm h (g' env) (g env)) : XComm h (getEnv >>= g') (getEnv >>= g) := by
  intro s
  simp only [XM.bind_def, getEnv]
  exact hg s s

theorem XComm.defineSyntax {β} (k : String) (r : Rules) (u : Unit → β) :
    XComm u (do Xform.defineSyntax k r; Pure.pure (u ())) (Xform.defineSyntax k r) := fun _ => rfl

theorem XComm.inChild {α β} {f : α → β} {m' : XM β} {m : XM α} (hm : XComm f m' m) :
    XComm f (Xform.inChild m') (Xform.inChild m) := by
  intro s
  simp only [Xform.inChild, hm ([] :: s)]
  rcases m ([] :: s) with ⟨r, _ | ⟨c, s1⟩⟩ <;> rfl

theorem XComm.mapM_loop {α β γ δ} {f : α → β} {h : γ → δ} {g' : β → XM δ} {g : α → XM γ}
    (hg : ∀ a, XComm h (g' (f a)) (g a)) : ∀ (l : List α) (acc : List γ),
    XComm (List.map h) (List.mapM.loop g' (l.map f) (acc.map h)) (List.mapM.loop g l acc)
  | [], acc => by
    simp only [List.map_nil, List.mapM.loop, ← List.map_reverse]
    exact XComm.pure (List.map h) acc.reverse
  | a :: l, acc => by
    simp only [List.map_cons, List.mapM.loop]
    refine XComm.bind (hg a) (fun b => ?_)
    exact XComm.mapM_loop hg l (b :: acc)

theorem XComm.mapM {α β γ δ} {f : α → β} {h : γ → δ} {g' : β → XM δ} {g : α → XM γ}
    (hg : ∀ a, XComm h (g' (f a)) (g a)) (l : List α) : XComm (List.map h) ((l.map f).mapM g') (l.mapM g) :=
  XComm.mapM_loop hg l []

theorem xc_identOf (d : Datum) : XComm id (Xform.identOf d.strip) (Xform.identOf d) :=
  XComm.lift id (identOf_strip d)
theorem xc_expectList (d : Datum) : XComm Datum.strip (Xform.expectList d.strip) (Xform.expectList d) :=
  XComm.lift _ (expectList_strip d)

theorem find?_strip (p : Datum → Bool) (hp : ∀ x, p x.strip = p x) (l : List Datum) :
    (l.map Datum.strip).find? p = (l.find? p).map Datum.strip := by
  induction l with
  | nil => rfl
  | cons x xs ih => simp only [List.map_cons, List.find?_cons, hp x]; cases p x <;> simp [ih]

theorem xc_toFormals (d : Datum) : XComm id (toFormals d.strip) (toFormals d) := by
  have hbad : ∀ x : Datum, (match x.strip with | .sym _ _ => false | _ => true) = (match x with | .sym _ _ => false | _ => true) := by
    intro x; cases x <;> rfl
  have hname : ∀ x : Datum, (match x.strip with | .sym s _ => s | _ => "") = (match x with | .sym s _ => s | _ => "") := by
    intro x; cases x <;> rfl
  have main : ∀ d : Datum, (∃ a b l, d = .pair a b l) ∨ (∃ l, d = .nil l) →
      XComm id (toFormals d.strip) (toFormals d) := by
    intro d hd
    have e1 : toFormals d = (let (cars, tail) := d.spine
        let bad := (cars ++ tail.toList).find? (fun x => match x with | .sym _ _ => false | _ => true)
        match bad with
        | some b => Xform.fail (.syntax, b.loc)
        | none =>
          let name := fun (x : Datum) => match x with | .sym s _ => s | _ => ""
          Pure.pure { fixed := cars.map name, rest := tail.map name }) := by
      rcases hd with ⟨a, b, l, rfl⟩ | ⟨l, rfl⟩ <;> rfl
    have e2 : toFormals d.strip = (let (cars, tail) := d.strip.spine
        let bad := (cars ++ tail.toList).find? (fun x => match x with | .sym _ _ => false | _ => true)
        match bad with
        | some b => Xform.fail (.syntax, b.loc)
        | none =>
          let name := fun (x : Datum) => match x with | .sym s _ => s | _ => ""
          Pure.pure { fixed := cars.map name, rest := tail.map name }) := by
      rcases hd with ⟨a, b, l, rfl⟩ | ⟨l, rfl⟩ <;> rfl
    rw [e1, e2, Datum.strip_spine]
    simp only
    have e3 : d.spine.1.map Datum.strip ++ (d.spine.2.map Datum.strip).toList = (d.spine.1 ++ d.spine.2.toList).map Datum.strip := by
      cases d.spine.2 <;> simp
    rw [e3, find?_strip _ hbad]
    cases (d.spine.1 ++ d.spine.2.toList).find? _ with
    | some b => simp only [Option.map_some, Datum.strip_loc]; exact XComm.fail' id _ _
    | none =>
      simp only [Option.map_none, List.map_map, Option.map_map]
      have e4 : ((fun x : Datum => match x with | .sym s _ => s | _ => "") ∘ Datum.strip) =
          (fun x : Datum => match x with | .sym s _ => s | _ => "") := funext hname
      rw [e4]
      exact XComm.pure id _
  cases d with
  | pair a b l => exact main _ (.inl ⟨a, b, l, rfl⟩)
  | nil l => exact main _ (.inr ⟨l, rfl⟩)
  | sym s l => exact XComm.pure id _
  | prim p l => exact XComm.fail' id _ _
  | vec xs l => exact XComm.fail' id _ _


theorem XComm.congr {α β} {f f' : α → β} {m' : XM β} {m : XM α} (h : XComm f m' m) (hf : f = f') : XComm f' m' m :=
  hf ▸ h

theorem xc_toLibName (ds : List Datum) : XComm id (toLibName (ds.map Datum.strip)) (toLibName ds) := by
  unfold toLibName
  refine XComm.congr (XComm.mapM (h := id) (fun d => ?_) ds) (by funext l; simp)
  cases d with
  | sym s l => exact XComm.pure id _
  | prim p l =>
    cases p <;> simp only [Datum.strip] <;> try exact XComm.fail' id _ _
    split
    · exact XComm.pure id _
    · exact XComm.fail' id _ _
  | _ => exact XComm.fail' id _ _

theorem xc_toExportSpec (d : Datum) : XComm ExportSpec.unloc (toExportSpec d.strip) (toExportSpec d) := by
  have main : ∀ d : Datum, XComm ExportSpec.unloc
      (do let es := d.strip.elems
          let h ← Xform.need es.head?
          match h with
          | .sym "rename" _ => do
            let a ← Xform.need (es.drop 1).head?
            let a ← Xform.identOf a
            let b ← Xform.need (es.drop 2).head?
            let b ← Xform.identOf b
            Pure.pure (ExportSpec.rename a b d.strip.loc)
          | _ => Xform.fail (.syntax, none))
      (do let es := d.elems
          let h ← Xform.need es.head?
          match h with
          | .sym "rename" _ => do
            let a ← Xform.need (es.drop 1).head?
            let a ← Xform.identOf a
            let b ← Xform.need (es.drop 2).head?
            let b ← Xform.identOf b
            Pure.pure (ExportSpec.rename a b d.loc)
          | _ => Xform.fail (.syntax, none)) := by
    intro d
    simp only [Datum.strip_elems, List.head?_map, ← List.map_drop, Datum.strip_loc]
    refine XComm.bind (XComm.need Datum.strip _) (fun h => ?_)
    cases h with
    | sym s l =>
      simp only [Datum.strip]
      by_cases hs : s = "rename"
      · subst hs
        simp only
        refine XComm.bind (XComm.need Datum.strip _) (fun a => ?_)
        refine XComm.bind (xc_identOf a) (fun a' => ?_)
        refine XComm.bind (XComm.need Datum.strip _) (fun b => ?_)
        refine XComm.bind (xc_identOf b) (fun b' => ?_)
        exact XComm.pure' ExportSpec.unloc _ _ rfl
      · have e : ∀ {γ} (x y : γ) (l : Loc), (match Datum.sym s l with | .sym "rename" _ => x | _ => y) = y := by
          intro γ x y l; split
          · rename_i heq; cases heq; exact absurd rfl hs
          · rfl
        rw [e, e]
        exact XComm.fail' _ _ _
    | _ => exact XComm.fail' _ _ _
  cases d with
  | sym s l => simp only [Datum.strip, toExportSpec]; exact XComm.pure' ExportSpec.unloc _ _ rfl
  | pair a b l => exact main _
  | nil l => exact main _
  | prim p l => exact XComm.fail' _ _ _
  | vec xs l => exact XComm.fail' _ _ _


theorem xc_mapM_identOf (l : List Datum) : XComm id ((l.map Datum.strip).mapM Xform.identOf) (l.mapM Xform.identOf) :=
  XComm.congr (XComm.mapM (h := id) (fun d => xc_identOf d) l) (by funext l; simp)

theorem xc_toImportSet : ∀ (n : Nat) (d : Datum), XComm ImportSet.unloc (toImportSet n d.strip) (toImportSet n d)
  | 0, d => by rw [toImportSet, toImportSet]; exact XComm.fail' _ _ _
  | n + 1, d => by
    rw [toImportSet, toImportSet]
    refine XComm.bind (xc_expectList d) (fun d1 => ?_)
    simp only [Datum.strip_elems, List.head?_map, ← List.map_drop]
    refine XComm.bind (XComm.need Datum.strip _) (fun first => ?_)
    refine XComm.bind (xc_identOf first) (fun spec => ?_)
    simp only [id, Datum.strip_loc]
    split
    · refine XComm.bind (XComm.need Datum.strip _) (fun s0 => XComm.bind (xc_toImportSet n s0) (fun s => ?_))
      refine XComm.bind (xc_mapM_identOf _) (fun ids => ?_)
      exact XComm.pure' _ _ _ rfl
    · split
      · refine XComm.bind (XComm.need Datum.strip _) (fun s0 => XComm.bind (xc_toImportSet n s0) (fun s => ?_))
        refine XComm.bind (xc_mapM_identOf _) (fun ids => ?_)
        exact XComm.pure' _ _ _ rfl
      · split
        · refine XComm.bind (XComm.need Datum.strip _) (fun s0 => XComm.bind (xc_toImportSet n s0) (fun s => ?_))
          refine XComm.bind (XComm.need Datum.strip _) (fun p => ?_)
          refine XComm.bind (xc_identOf p) (fun p' => ?_)
          exact XComm.pure' _ _ _ rfl
        · split
          · refine XComm.bind (XComm.need Datum.strip _) (fun s0 => XComm.bind (xc_toImportSet n s0) (fun s => ?_))
            refine XComm.bind (f := id) (XComm.congr (XComm.mapM (h := id) (fun pd => ?_) _) (by funext l; simp)) (fun ps => ?_)
            · refine XComm.bind (xc_expectList pd) (fun pd1 => ?_)
              simp only [Datum.strip_elems, List.head?_map, ← List.map_drop]
              refine XComm.bind (XComm.need Datum.strip _) (fun a => ?_)
              refine XComm.bind (xc_identOf a) (fun a' => ?_)
              refine XComm.bind (XComm.need Datum.strip _) (fun b => ?_)
              refine XComm.bind (xc_identOf b) (fun b' => ?_)
              exact XComm.pure' _ _ _ rfl
            · exact XComm.pure' _ _ _ rfl
          · refine XComm.bind (xc_toLibName _) (fun name => ?_)
            exact XComm.pure' _ _ _ rfl


theorem Expr.unlocList_eq_map (es : List Expr) : Expr.unlocList es = es.map Expr.unloc := by
  induction es with
  | nil => rfl
  | cons e es ih => simp [Expr.unlocList, ih]
theorem Def.unlocList_eq_map (es : List Def) : Def.unlocList es = es.map Def.unloc := by
  induction es with
  | nil => rfl
  | cons e es ih => simp [Def.unlocList, ih]
theorem Statement.unlocList_eq_map (es : List Statement) : Statement.unlocList es = es.map Statement.unloc := by
  induction es with
  | nil => rfl
  | cons e es ih => simp [Statement.unlocList, ih]
theorem LibDecl.unlocList_eq_map (es : List LibDecl) : LibDecl.unlocList es = es.map LibDecl.unloc := by
  induction es with
  | nil => rfl
  | cons e es ih => simp [LibDecl.unlocList, ih]

@[simp] theorem matchFuel_strip (d : Datum) : matchFuel d.strip = matchFuel d := by
  simp [matchFuel, Datum.strip_size]
@[simp] theorem xformFuel_strip (d : Datum) : xformFuel d.strip = xformFuel d := by
  simp [xformFuel, Datum.strip_size]

structure XAll (n : Nat) : Prop where
  stmt : ∀ d, XComm Statement.unloc (toStatement n d.strip) (toStatement n d)
  expr : ∀ d, XComm Expr.unloc (toExpr n d.strip) (toExpr n d)
  call : ∀ first args loc, XComm Expr.unloc (toCall n first.strip (args.map Datum.strip) none) (toCall n first args loc)
  exprs : ∀ ds, XComm (List.map Expr.unloc) (toExprs n (ds.map Datum.strip)) (toExprs n ds)
  defn : ∀ args, XComm (fun p : String × Expr => (p.1, p.2.unloc)) (toDefinition n (args.map Datum.strip)) (toDefinition n args)
  lam : ∀ args, XComm Lambda.unloc (toLambda n (args.map Datum.strip)) (toLambda n args)
  body : ∀ ds defs exprs, XComm (fun p : List Def × List Expr => (p.1.map Def.unloc, p.2.map Expr.unloc))
    (toBody n (ds.map Datum.strip) (defs.map Def.unloc) (exprs.map Expr.unloc)) (toBody n ds defs exprs)
  lib : ∀ args loc, XComm Statement.unloc (toLibrary n (args.map Datum.strip) none) (toLibrary n args loc)
  decls : ∀ ds, XComm (List.map LibDecl.unloc) (toLibDecls n (ds.map Datum.strip)) (toLibDecls n ds)
  decl : ∀ d, XComm LibDecl.unloc (toLibDecl n d.strip) (toLibDecl n d)
  stmts : ∀ ds, XComm (List.map Statement.unloc) (toStatements n (ds.map Datum.strip)) (toStatements n ds)

theorem xAll_zero : XAll 0 := by
  constructor <;> intros <;>
    simp only [toStatement, toExpr, toCall, toExprs, toDefinition, toLambda, toBody, toLibrary, toLibDecls,
      toLibDecl, toStatements] <;> exact XComm.fail' _ _ _

section succ
variable {n : Nat} (ih : XAll n)
include ih

theorem x_expr (d : Datum) : XComm Expr.unloc (toExpr (n + 1) d.strip) (toExpr (n + 1) d) := by
  rw [toExpr, toExpr]
  refine XComm.bind (ih.stmt d) (fun s => ?_)
  cases s <;> first | exact XComm.fail' _ _ _ | exact XComm.pure' _ _ _ rfl

theorem x_call (first args loc) :
    XComm Expr.unloc (toCall (n + 1) first.strip (args.map Datum.strip) none) (toCall (n + 1) first args loc) := by
  rw [toCall, toCall]
  refine XComm.bind (ih.expr first) (fun f => ?_)
  refine XComm.bind (ih.exprs args) (fun as => ?_)
  exact XComm.pure' _ _ _ (by simp [Expr.unloc, Expr.unlocList_eq_map])

theorem x_exprs (ds) : XComm (List.map Expr.unloc) (toExprs (n + 1) (ds.map Datum.strip)) (toExprs (n + 1) ds) := by
  cases ds with
  | nil => simp only [List.map_nil, toExprs]; exact XComm.pure' _ _ _ rfl
  | cons d ds =>
    simp only [List.map_cons, toExprs]
    refine XComm.bind (ih.expr d) (fun e => ?_)
    refine XComm.bind (ih.exprs ds) (fun es => ?_)
    exact XComm.pure' _ _ _ rfl

theorem x_stmts (ds) : XComm (List.map Statement.unloc) (toStatements (n + 1) (ds.map Datum.strip)) (toStatements (n + 1) ds) := by
  cases ds with
  | nil => simp only [List.map_nil, toStatements]; exact XComm.pure' _ _ _ rfl
  | cons d ds =>
    simp only [List.map_cons, toStatements]
    refine XComm.bind (ih.stmt d) (fun e => ?_)
    refine XComm.bind (ih.stmts ds) (fun es => ?_)
    exact XComm.pure' _ _ _ rfl

theorem x_decls (ds) : XComm (List.map LibDecl.unloc) (toLibDecls (n + 1) (ds.map Datum.strip)) (toLibDecls (n + 1) ds) := by
  cases ds with
  | nil => simp only [List.map_nil, toLibDecls]; exact XComm.pure' _ _ _ rfl
  | cons d ds =>
    simp only [List.map_cons, toLibDecls]
    refine XComm.bind (ih.decl d) (fun e => ?_)
    refine XComm.bind (ih.decls ds) (fun es => ?_)
    exact XComm.pure' _ _ _ rfl

theorem x_lam (args) : XComm Lambda.unloc (toLambda (n + 1) (args.map Datum.strip)) (toLambda (n + 1) args) := by
  rw [toLambda, toLambda]
  simp only [List.head?_map, ← List.map_drop]
  refine XComm.bind (XComm.need Datum.strip _) (fun f => ?_)
  refine XComm.bind (xc_toFormals f) (fun formals => ?_)
  refine XComm.bind (XComm.inChild (ih.body _ [] [])) (fun p => ?_)
  obtain ⟨defs, body⟩ := p
  exact XComm.pure' _ _ _ (by simp [Lambda.unloc, Expr.unlocList_eq_map, Def.unlocList_eq_map])

theorem x_body (ds defs exprs) : XComm (fun p : List Def × List Expr => (p.1.map Def.unloc, p.2.map Expr.unloc))
    (toBody (n + 1) (ds.map Datum.strip) (defs.map Def.unloc) (exprs.map Expr.unloc)) (toBody (n + 1) ds defs exprs) := by
  cases ds with
  | nil =>
    simp only [List.map_nil, toBody, List.isEmpty_map]
    split
    · exact XComm.fail' _ _ _
    · exact XComm.pure' _ _ _ (by simp)
  | cons d ds =>
    simp only [List.map_cons, toBody, List.isEmpty_map]
    refine XComm.bind (ih.stmt d) (fun s => ?_)
    cases s with
    | definition df =>
      simp only [Statement.unloc]
      split
      · exact ih.body ds (df :: defs) exprs
      · cases df; exact XComm.fail' _ _ _
    | expr e => exact ih.body ds defs (e :: exprs)
    | _ => simp only [Statement.unloc, Datum.strip_loc]; exact XComm.fail' _ _ _


theorem x_defn (args) : XComm (fun p : String × Expr => (p.1, p.2.unloc))
    (toDefinition (n + 1) (args.map Datum.strip)) (toDefinition (n + 1) args) := by
  rw [toDefinition, toDefinition]
  simp only [List.head?_map, ← List.map_drop]
  refine XComm.bind (XComm.need Datum.strip _) (fun first => ?_)
  cases first with
  | sym s l =>
    simp only [Datum.strip]
    refine XComm.bind (XComm.need Datum.strip _) (fun b => ?_)
    refine XComm.bind (ih.expr b) (fun b' => ?_)
    exact XComm.pure' _ _ _ rfl
  | pair nameD formalsD l =>
    simp only [Datum.strip, Datum.strip_loc]
    refine XComm.bind (xc_identOf nameD) (fun name => ?_)
    refine XComm.bind (xc_toFormals formalsD) (fun formals => ?_)
    refine XComm.bind (ih.body _ [] []) (fun p => ?_)
    obtain ⟨defs, body⟩ := p
    exact XComm.pure' _ _ _ (by simp [Expr.unloc, Lambda.unloc, Expr.unlocList_eq_map, Def.unlocList_eq_map])
  | nil l => exact XComm.fail' _ _ _
  | prim p l => exact XComm.fail' _ _ _
  | vec xs l => exact XComm.fail' _ _ _

theorem x_lib (args loc) : XComm Statement.unloc (toLibrary (n + 1) (args.map Datum.strip) none) (toLibrary (n + 1) args loc) := by
  rw [toLibrary, toLibrary]
  simp only [List.head?_map, ← List.map_drop]
  refine XComm.bind (XComm.need Datum.strip _) (fun nd => ?_)
  refine XComm.bind (xc_expectList nd) (fun nd1 => ?_)
  rw [Datum.strip_elems]
  refine XComm.bind (xc_toLibName _) (fun name => ?_)
  refine XComm.bind (ih.decls _) (fun decls => ?_)
  exact XComm.pure' _ _ _ (by simp [Statement.unloc, LibDecl.unlocList_eq_map])

theorem x_decl (d) : XComm LibDecl.unloc (toLibDecl (n + 1) d.strip) (toLibDecl (n + 1) d) := by
  rw [toLibDecl, toLibDecl]
  refine XComm.bind (xc_expectList d) (fun d1 => ?_)
  simp only [Datum.strip_elems, List.head?_map, ← List.map_drop]
  refine XComm.bind (XComm.need Datum.strip _) (fun first => ?_)
  have himp : XComm LibDecl.unloc
      (do let sets ← ((d1.elems.drop 1).map Datum.strip).mapM (toImportSet n); Pure.pure (LibDecl.importDecl sets))
      (do let sets ← (d1.elems.drop 1).mapM (toImportSet n); Pure.pure (LibDecl.importDecl sets)) := by
    refine XComm.bind (XComm.mapM (fun x => xc_toImportSet n x) _) (fun sets => ?_)
    exact XComm.pure' _ _ _ rfl
  cases first with
  | sym s l =>
    simp only [Datum.strip]
    by_cases h1 : s = "export"
    · subst h1
      simp only
      refine XComm.bind (XComm.mapM (fun x => xc_toExportSpec x) _) (fun specs => ?_)
      exact XComm.pure' _ _ _ rfl
    · by_cases h2 : s = "begin"
      · subst h2
        simp only
        refine XComm.bind (ih.stmts _) (fun body => ?_)
        exact XComm.pure' _ _ _ (by simp [LibDecl.unloc, Statement.unlocList_eq_map])
      · split
        · rename_i heq; simp at heq; exact absurd heq.1 h1
        · rename_i heq; simp at heq; exact absurd heq.1 h2
        · split
          · rename_i heq; simp at heq; exact absurd heq.1 h1
          · rename_i heq; simp at heq; exact absurd heq.1 h2
          · exact himp
  | _ => exact himp


theorem x_stmt (d : Datum) : XComm Statement.unloc (toStatement (n + 1) d.strip) (toStatement (n + 1) d) := by
  cases d with
  | prim p l => simp only [Datum.strip, toStatement]; exact XComm.pure' _ _ _ rfl
  | sym s l => simp only [Datum.strip, toStatement]; exact XComm.pure' _ _ _ rfl
  | vec xs l => simp only [Datum.strip, toStatement]; exact XComm.pure' _ _ _ (by simp [Statement.unloc, Expr.unloc, Datum.strip, Datum.loc])
  | nil l => simp only [Datum.strip, toStatement]; exact XComm.fail' _ _ _
  | pair a b l =>
    have hs : (Datum.pair a b l).strip = Datum.pair a.strip b.strip none := by simp [Datum.strip]
    rw [hs]
    simp only [toStatement]
    rw [← hs]
    refine XComm.bind (XComm.lift _ (popProper_strip _)) (fun o => ?_)
    cases o with
    | none => exact XComm.fail' _ _ _
    | some p =>
      obtain ⟨first, rest⟩ := p
      simp only [Option.map_some, Datum.strip_elems, Datum.loc, List.head?_map, ← List.map_drop]
      have hcall : XComm Statement.unloc
          (do let c ← toCall n first.strip (rest.elems.map Datum.strip) none; Pure.pure (Statement.expr c))
          (do let c ← toCall n first rest.elems l; Pure.pure (Statement.expr c)) := by
        refine XComm.bind (ih.call first rest.elems l) (fun c => ?_)
        exact XComm.pure' _ _ _ rfl
      cases first with
      | sym kw lk =>
        simp only [Datum.strip]
        by_cases h1 : kw = "define"
        · simp only [h1, if_true]
          refine XComm.bind (ih.defn _) (fun p => ?_)
          exact XComm.pure' _ _ _ rfl
        simp only [h1, if_false]
        by_cases h2 : kw = "define-library"
        · simp only [h2, if_true]
          exact ih.lib _ _
        simp only [h2, if_false]
        by_cases h3 : kw = "lambda"
        · simp only [h3, if_true]
          refine XComm.bind (ih.lam _) (fun lam => ?_)
          exact XComm.pure' _ _ _ rfl
        simp only [h3, if_false]
        by_cases h4 : kw = "if"
        · simp only [h4, if_true]
          refine XComm.bind (XComm.need Datum.strip _) (fun t => ?_)
          refine XComm.bind (ih.expr t) (fun t' => ?_)
          refine XComm.bind (XComm.need Datum.strip _) (fun c => ?_)
          refine XComm.bind (ih.expr c) (fun c' => ?_)
          cases (rest.elems.drop 2).head? with
          | none => exact XComm.pure' _ _ _ rfl
          | some ad =>
            simp only [Option.map_some]
            refine XComm.bind (ih.expr ad) (fun a' => ?_)
            exact XComm.pure' _ _ _ rfl
        simp only [h4, if_false]
        by_cases h5 : kw = "import"
        · simp only [h5, if_true]
          refine XComm.bind (XComm.mapM (fun x => xc_toImportSet n x) _) (fun sets => ?_)
          exact XComm.pure' _ _ _ rfl
        simp only [h5, if_false]
        by_cases h6 : kw = "quote"
        · simp only [h6, if_true]
          refine XComm.bind (XComm.need Datum.strip _) (fun q => ?_)
          exact XComm.pure' _ _ _ rfl
        simp only [h6, if_false]
        by_cases h7 : kw = "set!"
        · simp only [h7, if_true]
          refine XComm.bind (XComm.need Datum.strip _) (fun target => ?_)
          cases target with
          | sym name ln =>
            simp only [Datum.strip]
            refine XComm.bind (XComm.need Datum.strip _) (fun v => ?_)
            refine XComm.bind (ih.expr v) (fun v' => ?_)
            exact XComm.pure' _ _ _ rfl
          | _ => exact XComm.fail' _ _ _
        simp only [h7, if_false]
        by_cases h8 : kw = "define-syntax"
        · simp only [h8, if_true]
          refine XComm.bind (XComm.need Datum.strip _) (fun k => ?_)
          refine XComm.bind (xc_identOf k) (fun k' => ?_)
          refine XComm.bind (XComm.need Datum.strip _) (fun spec => ?_)
          refine XComm.bind (XComm.lift id (toRules_strip _ spec)) (fun rules => ?_)
          refine XComm.bind (f := id) (fun s => rfl) (fun u => ?_)
          exact XComm.pure' _ _ _ rfl
        simp only [h8, if_false]
        refine XComm.getEnv_bind (fun env => ?_)
        cases env.get? kw with
        | none => exact hcall
        | some rules =>
          simp only
          refine XComm.bind (XComm.lift Datum.strip ?_) (fun expanded => ih.stmt expanded)
          have hf : matchFuel (Datum.pair a.strip b.strip none) = matchFuel (Datum.pair a b l) := by
            rw [← hs, matchFuel_strip]
          rw [hf, ← transform_strip]
          congr 1
          rw [Text.strip_withLoc]
          exact strip_withLoc_none rest
      | _ => exact hcall

end succ

theorem xAll : ∀ n, XAll n
  | 0 => xAll_zero
  | n + 1 =>
    have ih := xAll n
    ⟨x_stmt ih, x_expr ih, x_call ih, x_exprs ih, x_defn ih, x_lam ih, x_body ih, x_lib ih, x_decls ih,
      x_decl ih, x_stmts ih⟩

theorem toStatement_strip (n : Nat) (d : Datum) (env : SynEnv) :
    toStatement n d.strip env = (mapE Statement.unloc (toStatement n d env).1, (toStatement n d env).2) :=
  (xAll n).stmt d env

end Ruschm

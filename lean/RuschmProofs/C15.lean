/-
Property C15: reported error locations point into the form that failed.

  "Every run-time error reported for a program carries a source location, and that line and
   column lie within the text of the top-level form whose evaluation failed - at the offending
   identifier or operator when the fault is an unbound variable or a non-procedure, otherwise
   anywhere in the form - never in another form, beyond the end of the file, or in the
   interpreter's own bundled sources. Syntax errors that carry a location point at or before the
   offending token."

The vocabulary (`locs`, `rlocs`, `LocsIn`, the roles `ident` / `operator` of a position) is in
`RuschmSpec/Loc.lean`; the helper lemmas are in `RuschmProofs/LocLemmas.lean`. The theorems follow
the pipeline: the lexer (1), the reader (2), macro expansion (3), the transformer (4), the
evaluator (5), library sources (6), `eval_ast` (7, 8), whole programs, and "every run-time error
carries a position".

Known residue (stated, not hidden): an error raised while READING a library source
(`LibReadErr`: in the Rust only the lexer's own errors are still located there, because
`Lexer::without_locations` strips the tokens but not the lexer errors) carries a position of the
library text, not of the program.
-/
import RuschmProofs.LocLemmas

namespace Ruschm.C15
open Ruschm Eval Interp

/-! ## 1. the lexer: token and error positions are cursors inside the text -/

/-- Every token position `Lex.all` reports is the cursor reached (from line 1, column 1) after
consuming a NON-EMPTY prefix of the text — the position just after the token's last character —,
hence never beyond the end of the text; and the position of a lexical error is the cursor reached
after some prefix of the text (possibly all of it): at or before the offending character. -/
theorem token_locs_in_text {cs : List Char} {ts : List LToken} {e : Option Lex.LexErr}
    (h : Lex.all cs = (ts, e)) :
    (∀ t ∈ ts, ∃ pre, pre ≠ [] ∧ pre <+: cs ∧ t.loc = some (Text.advs pre (1, 1))) ∧
    (∀ pe, e = some pe → ∃ pre, pre <+: cs ∧ pe = Text.advs pre (1, 1)) := by
  have := ProgLoc.all_cursors cs
  rw [h] at this
  exact ⟨fun t ht => this.1.mem t ht, this.2⟩

/-- The tokens lie one after the other in the text: the cursor of each token is reached after a
further non-empty chunk of text behind the previous token's cursor (`LexLoc.TokCursors`). So the
tokens of two different top-level forms occupy disjoint, consecutive segments of the text. -/
theorem token_cursors_consecutive (cs : List Char) : LexLoc.TokCursors cs (1, 1) (Lex.all cs).1 :=
  (ProgLoc.all_cursors cs).1

/-- `()`: the tokens are located at 1:2 and 1:3, the cursors after `(` and after `()` -/
example : Lex.all ['(', ')'] = ([⟨.lparen, some (1, 2)⟩, ⟨.rparen, some (1, 3)⟩], none) ∧
    Text.advs ['('] (1, 1) = (1, 2) ∧ Text.advs ['(', ')'] (1, 1) = (1, 3) := by
  refine ⟨?_, by decide, by decide⟩
  simp [Lex.all, Lex.allAux, Lex.next, Lex.skipAtmosphere, Lex.token, Lex.adv, Lex.isWs]

/-- a lexical error: `#` at the end of the text is reported at the cursor after it -/
example : Lex.all ['#'] = ([], some (1, 2)) := by
  simp [Lex.all, Lex.allAux, Lex.next, Lex.skipAtmosphere, Lex.token, Lex.adv, Lex.isWs]

/-- the cursors along `a\nbc`: after `a` 1:2, after the line break 2:1, after `bc` 2:3 -/
example : Text.advs "a".toList (1, 1) = (1, 2) ∧ Text.advs "a\n".toList (1, 1) = (2, 1) ∧
    Text.advs "a\nbc".toList (1, 1) = (2, 3) := by decide

/-! ## 2. the reader: data take their positions from the tokens consumed -/

/-- Every position inside a datum returned by `Read.nextDatum` is the position of one of the tokens
consumed for that datum (`used`, a contiguous piece of the token stream): it lies within the extent
of the form, between its first and its last token. -/
theorem reader_locs_from_tokens {s s' : Read.PState} {od : Option Datum}
    (h : Read.nextDatum s = .ok (od, s')) :
    ∃ used : List LToken, s.toks = used ++ s'.toks ∧ ∀ d, od = some d → LocsIn (locs used) d := by
  obtain ⟨used, hs, -, hd⟩ := ProgLoc.nextDatum_steps h
  exact ⟨used, hs.toks, fun d hd' l hl => hd d hd' hl⟩

/-- The same for `currentDatum` (the datum that starts at the current token): the positions are
those of the current token / the parser's current position and of the tokens consumed. -/
theorem reader_locs_from_tokens_current {fuel : Nat} {s s' : Read.PState} {od : Option Datum}
    (h : Read.currentDatum fuel s = .ok (od, s')) :
    ∃ used : List LToken, s.toks = used ++ s'.toks ∧
      ∀ d, od = some d → LocsIn (ReadLoc.here s ++ locs used) d := by
  obtain ⟨used, hs, hd⟩ := (ReadLoc.readAt fuel).cur_ok _ _ _ h
  exact ⟨used, hs.toks, fun d hd' l hl => hd d hd' hl⟩

/-- A located reader error is located at the parser's current position (the last token pulled:
"unexpected end"), at a token of the rest of the stream (the offending token), or where the lexer
failed. -/
theorem reader_error_loc {s : Read.PState} {k : Err} {l : Pos}
    (h : Read.nextDatum s = .error (k, some l)) :
    l ∈ ReadLoc.here s ∨ l ∈ locs s.toks ∨ s.lexErr = some l := by
  have := ReadLoc.nextDatum_err h (a := l) (by simp)
  simp only [ReadLoc.errs, List.mem_append] at this
  rcases this with h | h | h
  · exact Or.inl h
  · exact Or.inr (Or.inl h)
  · exact Or.inr (Or.inr (by simpa using h))

/-- reading `(a b)` from its tokens (located 1:2, 1:3, 1:5, 1:6) -/
example : ∃ d s', Read.nextDatum { toks := [⟨.lparen, some (1, 2)⟩, ⟨.ident "a", some (1, 3)⟩,
      ⟨.ident "b", some (1, 5)⟩, ⟨.rparen, some (1, 6)⟩], lexErr := none } = .ok (some d, s') ∧
    locs d = [(1, 2), (1, 3), (1, 5)] ∧ s'.toks = [] := by
  simp [Read.nextDatum, Read.advance, Read.currentDatum, Read.listOrPair, Read.listLoop,
    Read.advanceUnwrap, Read.fuelFor, Read.snoc, Datum.withLoc, bind, Except.bind, pure, Except.pure]
  exact ⟨_, _, ⟨rfl, rfl⟩, rfl, rfl⟩

/-- an unexpected `)` is reported at that token -/
example : Read.nextDatum { toks := [⟨.rparen, some (1, 2)⟩], lexErr := none } =
    .error (.syntax, some (1, 2)) := by
  simp [Read.nextDatum, Read.advance, Read.currentDatum, Read.fuelFor, bind, Except.bind]

/-! ## 3. macro expansion: every position of an expansion is a position of the macro use -/

/-- The bindings produced by matching a pattern against the macro use are sub-data of the use:
every position inside a bound datum (first match or further ellipsis match) is a position inside
the use. -/
theorem match_bindings_locs {fuel : Nat} {lits : List String} {p : Macro.Pat} {use : Datum} {b : Bool}
    {σ : Macro.Subst} (h : Macro.matchDatum fuel lits p use [] = .ok (b, σ)) :
    ∀ v d more, (v, d, more) ∈ σ → LocsIn (locs use) d ∧ ∀ m ∈ more, LocsIn (locs use) m := by
  intro v d more hm
  have := Macro.matchDatum_locs (T := use.locs) h (fun _ h => h) (Macro.SubstIn.nil _) _ hm
  exact ⟨fun l hl => this.1 hl, fun m hm l hl => this.2 m hm hl⟩

example : ∃ σ, Macro.matchDatum 9 [] (.pair (.ident "x") .nil)
      (.pair (.sym "a" (some (1, 5))) (.nil none) (some (1, 2))) [] = .ok (true, σ) ∧
    σ = [("x", .sym "a" (some (1, 5)), [])] := ⟨_, rfl, rfl⟩

/-- Every datum BUILT from a template is located at `loc` (the position of the macro use); the
data substituted for pattern variables keep their own positions. Hence: if every binding of the
table has its positions in `T` and `loc` is in `T`, so has the instantiated template. -/
theorem expansion_locs {T : List Pos} {fuel : Nat} {t : Macro.Tmpl} {σ : Macro.Subst} {loc : Loc} {d : Datum}
    (hσ : ∀ v x more, (v, x, more) ∈ σ → LocsIn T x ∧ ∀ m ∈ more, LocsIn T m)
    (hl : ∀ l ∈ loc.toList, l ∈ T) (h : Macro.subst fuel t σ loc = some d) : LocsIn T d := by
  intro l hl'
  refine Macro.subst_locs (T := T) fuel t σ loc d ?_ hl h hl'
  intro e he
  exact ⟨fun l hl => (hσ e.1 e.2.1 e.2.2 he).1 l hl, fun m hm l hl => (hσ e.1 e.2.1 e.2.2 he).2 m hm l hl⟩

example : Macro.subst 5 (.list [(.ident "if", false), (.ident "x", false)])
    [("x", .sym "a" (some (1, 5)), [])] (some (1, 2)) =
    some (.pair (.sym "if" (some (1, 2))) (.pair (.sym "a" (some (1, 5))) (.nil none) none) (some (1, 2))) := rfl

/-- `Macro.transform`: every position in the expansion of a macro use is a position of the use —
never a position of the macro definition (`grammar.sld` or an earlier `define-syntax`): the rules
`r` (patterns and templates) carry no positions at all. -/
theorem transform_locs {fuel : Nat} {r : Macro.Rules} {use d : Datum}
    (h : Macro.transform fuel r use = .ok d) : LocsIn (locs use) d := by
  intro l hl
  exact Macro.transformRules_locs (T := use.locs) (fun _ h => h) r.rules d h hl

example : ∃ d, Macro.transform 20 ⟨[], [(.pair (.ident "x") .nil, .list [(.ident "f", false), (.ident "x", false)])]⟩
      (.pair (.sym "a" (some (1, 5))) (.nil none) (some (1, 2))) = .ok d ∧ locs d = [(1, 2), (1, 2), (1, 5)] :=
  ⟨_, rfl, rfl⟩

/-! ## 5. the evaluator -/

/-- A located error of the evaluator carries a position of the expression being evaluated or of the
code of a closure already in the store. -/
theorem eval_error_loc {n : Nat} {σ σ' : Store} {ρ : Nat} {e : Expr} {k : Err} {l : Pos}
    (h : evalExpr n σ ρ e = (.error (k, some l), σ')) : l ∈ locs e ∨ l ∈ locs σ := by
  have := (EvalLoc.evalExpr_post h).2.2 _ rfl l rfl
  have key : ∀ r, (r, l) ∈ σ.rlocs ++ e.rlocs → l ∈ locs e ∨ l ∈ locs σ := by
    intro r hr
    rcases List.mem_append.1 hr with hr | hr
    · exact Or.inr (mem_unrole.2 ⟨r, hr⟩)
    · exact Or.inl (mem_unrole.2 ⟨r, hr⟩)
  rcases this with ⟨-, h⟩ | ⟨-, h⟩ <;> exact key _ h

/-- a store holding a procedure `f` defined by an earlier form at line 1: `(define (f) y)` -/
def demoStore : Store :=
  { frames := #[{ parent := none,
                  defs := [("f", .closure (.mk ⟨[], none⟩ [] [.sym "y" (some (1, 13))]) 0)] }] }

/-- `(f)` at line 2 fails inside `f`: the error is located at the `y` of line 1 — a position of the
store (an earlier form), not of the expression -/
example : (evalExpr 9 demoStore 0 (.call (.sym "f" (some (2, 3))) [] (some (2, 2)))).1 =
      .error (.unbound, some (1, 13)) ∧
    (Role.ident, ((1, 13) : Pos)) ∈ demoStore.rlocs ∧ ((1, 13) : Pos) ∈ locs demoStore := by
  refine ⟨?_, by decide, by decide⟩
  simp [evalExpr, evalArgs, applyProcedure, applyLoop, applyScheme, evalDefs, evalBody, evalTail,
    bindFixed, procArity, demoStore, Store.lookup, Store.lookupAux, arityOk, Lambda.formals,
    Store.newFrame, enter, leave, Lambda.defs, Lambda.body, List.lookup]

/-- `(1)` at 2:2 — the operator `1` is at 2:3 -/
example : (evalExpr 9 demoStore 0 (.call (.prim (.int 1) (some (2, 3))) [] (some (2, 2)))).1 =
      .error (.nonProcedure, some (2, 3)) ∧
    (Role.operator, ((2, 3) : Pos)) ∈ (Expr.call (.prim (.int 1) (some (2, 3))) [] (some (2, 2))).rlocs := by
  refine ⟨?_, by decide⟩
  simp [evalExpr, evalArgs, evalPrim, procArity, Expr.loc]

/-- other faults are not located by the evaluator: `((lambda (x) x))`, an arity error -/
example : (evalExpr 9 demoStore 0 (.call (.lambda (.mk ⟨["x"], none⟩ [] [.sym "x" (some (2, 14))])
    (some (2, 3))) [] (some (2, 2)))).1 = .error (.arity, none) := by
  simp [evalExpr, evalArgs, applyProcedure, applyLoop, procArity, arityOk, Lambda.formals]

/-- Only unbound variables and non-procedures are ever located by the evaluator; every other
error (type, arity, division by zero, vector index, …) leaves `evalExpr` without a location. -/
theorem located_only_unbound_nonproc {n : Nat} {σ σ' : Store} {ρ : Nat} {e : Expr} {k : Err} {l : Pos}
    (h : evalExpr n σ ρ e = (.error (k, some l), σ')) : k = .unbound ∨ k = .nonProcedure := by
  rcases (EvalLoc.evalExpr_post h).2.2 _ rfl l rfl with ⟨h, -⟩ | ⟨h, -⟩
  · exact Or.inl h
  · exact Or.inr h

/-- The position reported for an unbound variable is the position of an identifier: a variable
reference `x`, or the target of a `(set! x …)` (role `ident`), in the expression or in the code of
a closure of the store. -/
theorem unbound_loc_is_identifier {n : Nat} {σ σ' : Store} {ρ : Nat} {e : Expr} {l : Pos}
    (h : evalExpr n σ ρ e = (.error (.unbound, some l), σ')) :
    (Role.ident, l) ∈ e.rlocs ∨ (Role.ident, l) ∈ σ.rlocs := by
  rcases (EvalLoc.evalExpr_post h).2.2 _ rfl l rfl with ⟨-, h⟩ | ⟨h, -⟩
  · exact (List.mem_append.1 h).symm
  · cases h

/-- The position reported for a non-procedure is the position of the operator expression of a
call (role `operator`; direct calls and trampolined tail calls alike). -/
theorem nonproc_loc_is_operator {n : Nat} {σ σ' : Store} {ρ : Nat} {e : Expr} {l : Pos}
    (h : evalExpr n σ ρ e = (.error (.nonProcedure, some l), σ')) :
    (Role.operator, l) ∈ e.rlocs ∨ (Role.operator, l) ∈ σ.rlocs := by
  rcases (EvalLoc.evalExpr_post h).2.2 _ rfl l rfl with ⟨h, -⟩ | ⟨-, h⟩
  · cases h
  · exact (List.mem_append.1 h).symm

/-- the three places where the evaluator attaches a position, exactly -/
theorem unbound_at_the_symbol {n : Nat} {σ : Store} {ρ : Nat} {s : String} {loc : Loc}
    (h : σ.lookup ρ s = none) : evalExpr (n + 1) σ ρ (.sym s loc) = (.error (.unbound, loc), σ) := by
  simp [evalExpr, h]

theorem unbound_at_the_assigned_identifier {n : Nat} {σ σ₁ : Store} {ρ : Nat} {x : String} {e : Expr}
    {v : Value} {loc : Loc} (he : evalExpr n σ ρ e = (.ok v, σ₁)) (h : σ₁.resolve ρ x = none) :
    evalExpr (n + 1) σ ρ (.assign x e loc) = (.error (.unbound, loc), σ₁) := by
  simp [evalExpr, he, Store.set, h]

theorem nonproc_at_the_operator {n : Nat} {σ σ₁ σ₂ : Store} {ρ : Nat} {f : Expr} {args : List Expr}
    {v : Value} {vs : List Value} {loc : Loc} (hf : evalExpr n σ ρ f = (.ok v, σ₁))
    (ha : evalArgs n σ₁ ρ args = (.ok vs, σ₂)) (hv : procArity v = none) :
    evalExpr (n + 1) σ ρ (.call f args loc) = (.error (.nonProcedure, f.loc), σ₂) := by
  simp [evalExpr, hf, ha, hv]

/-- `(set! x 1)` with `x` unbound, the assignment located at `x` (1:7) -/
example : (evalExpr 2 {} 0 (.assign "x" (.prim (.int 1) (some (1, 9))) (some (1, 7)))).1 =
    .error (.unbound, some (1, 7)) := by
  simp [evalExpr, evalPrim, Store.set, Store.resolve, Store.resolveAux]

/-- Values created while evaluating `e` carry only code positions (with their roles) from `e` or
from the closures that were already in the store. -/
theorem store_locs_grow {n : Nat} {σ σ' : Store} {ρ : Nat} {e : Expr} {r : Except SErr Value}
    (h : evalExpr n σ ρ e = (r, σ')) :
    (∀ x ∈ σ'.rlocs, x ∈ σ.rlocs ∨ x ∈ e.rlocs) ∧ (∀ l ∈ locs σ', l ∈ locs σ ∨ l ∈ locs e) ∧
      ∀ v, r = .ok v → ∀ l ∈ locs v, l ∈ locs σ ∨ l ∈ locs e := by
  have hp := EvalLoc.evalExpr_post h
  have h1 : ∀ x ∈ σ'.rlocs, x ∈ σ.rlocs ∨ x ∈ e.rlocs :=
    fun x hx => List.mem_append.1 (sIn_iff.1 hp.1 hx)
  refine ⟨h1, fun l hl => ?_, fun v hv l hl => ?_⟩
  · obtain ⟨r, hr⟩ := mem_unrole.1 hl
    rcases h1 _ hr with h | h
    · exact Or.inl (mem_unrole.2 ⟨r, h⟩)
    · exact Or.inr (mem_unrole.2 ⟨r, h⟩)
  · obtain ⟨r, hr⟩ := mem_unrole.1 hl
    rcases List.mem_append.1 (hp.2.1 v hv hr) with h | h
    · exact Or.inl (mem_unrole.2 ⟨r, h⟩)
    · exact Or.inr (mem_unrole.2 ⟨r, h⟩)

/-! ## 4. the transformer: every position of a statement is a position of its datum -/

/-- Every position in the statement `toStatement` returns — through arbitrarily many macro
expansions — is a position of the datum it was made from. -/
theorem xform_locs {fuel : Nat} {d : Datum} {env env' : Xform.SynEnv} {s : Statement}
    (h : Xform.toStatement fuel d env = (.ok s, env')) : LocsIn (locs d) s := by
  intro l hl
  exact (XformLoc.toStatement_locs (fuel := fuel) (d := d) (env := env)).1 s (by rw [h]) hl

/-- A located syntax error of the transformer is located inside the datum. -/
theorem xform_error_loc {fuel : Nat} {d : Datum} {env env' : Xform.SynEnv} {k : Err} {l : Pos}
    (h : Xform.toStatement fuel d env = (.error (k, some l), env')) : l ∈ locs d :=
  (XformLoc.toStatement_locs (fuel := fuel) (d := d) (env := env)).2 _ (by rw [h]) (by simp)

/-- The statement's own position (the fallback position of `eval_ast`) is a position of the
datum; for a form that is neither `(set! …)` nor a macro use it is the position of the datum
itself (the form's first token); for `(set! x e)` it is the position of `x`. -/
theorem xform_stmt_loc {fuel : Nat} {d : Datum} {env env' : Xform.SynEnv} {s : Statement}
    (h : Xform.toStatement fuel d env = (.ok s, env')) :
    (∀ l, s.loc = some l → l ∈ locs d) ∧
    (XformLoc.isSetOrMacroUse env d = false → s.loc = d.loc) ∧
    (∀ a rest l, d = .pair (.sym "set!" a) rest l →
      ∃ name tl, rest.elems.head? = some (.sym name tl) ∧ s.loc = tl.orElse (fun _ => l)) := by
  refine ⟨fun l hl => ?_, fun hd => XformLoc.toStatement_loc_eq (by rw [h]) hd, ?_⟩
  · apply xform_locs h
    exact mem_unrole.2 ⟨.node, Statement.loc_rlocs s (by simp [hl, Loc.as])⟩
  · rintro a rest l rfl
    exact XformLoc.toStatement_set_loc (by rw [h])

/-- `(let ((x 1)) (car x))` written at 3:1 …: a macro use; every position of the statement is a
position of the use, none of `grammar.sld` -/
example : ∃ s env', Xform.toStatement 100
      (.pair (.sym "my-if" (some (3, 2))) (.pair (.sym "a" (some (3, 8))) (.pair (.sym "b" (some (3, 10)))
        (.nil none) none) none) (some (3, 1)))
      [[("my-if", ⟨[], [(.pair (.ident "x") (.pair (.ident "y") .nil),
          .list [(.ident "if", false), (.ident "x", false), (.ident "y", false)])]⟩)]] = (.ok s, env') ∧
    s = .expr (.cond (.sym "a" (some (3, 8))) (.sym "b" (some (3, 10))) none (some (3, 1))) :=
  ⟨_, _, rfl, rfl⟩

/-- `(set! x 1)` at 1:1 is located at `x`, 1:7 -/
example : ∃ s env', Xform.toStatement 9 (.pair (.sym "set!" (some (1, 2))) (.pair (.sym "x" (some (1, 7)))
      (.pair (.prim (.int 1) (some (1, 9))) (.nil none) none) none) (some (1, 1))) [[]] = (.ok s, env') ∧
    s.loc = some (1, 7) := ⟨_, _, rfl, rfl⟩

/-- `(define 5)`: the syntax error is located at the `5` -/
example : ∃ env', Xform.toStatement 9 (.pair (.sym "define" (some (1, 2))) (.pair (.prim (.int 5) (some (1, 9)))
      (.nil none) none) (some (1, 1))) [[]] = (.error (.syntax, some (1, 9)), env') := ⟨_, rfl⟩

/-! ## 6. library sources carry no positions -/

/-- The code of a library read from a source text (`grammar.sld`-expanded `base.sld`, or a user's
`.sld` file) carries no position at all: the data are stripped before they are transformed. -/
theorem library_code_unlocated {name : LibName} {text : String} {decls : List LibDecl}
    (h : factoryOfText name text = .ok (.ast decls)) : locs decls = [] := by
  have := InterpLoc.factoryOfText_clean name text _ h
  simp only [Factory.rlocs] at this
  show unrole (LibDecl.rlocsList decls) = []
  rw [this]; rfl

/-- Hence instantiating such a library adds no position to the interpreter state: afterwards
every position of the state was there before, and the exported values carry only positions that
were there before (none, for a state built from bundled sources only). -/
theorem library_instance_unlocated {fuel : Nat} {st st' : State} {decls : List LibDecl}
    {r : Except SErr (List (String × Value))} (hd : locs decls = [])
    (h : evalLibraryDef fuel st decls = (r, st')) :
    (∀ l ∈ locs st', l ∈ locs st) ∧ (∀ defs, r = .ok defs → ∀ kv ∈ defs, ∀ l ∈ locs kv.2, l ∈ locs st) := by
  have hd' : LibDecl.rlocsList decls ⊆ st.rlocs := by
    rw [unrole_eq_nil (L := LibDecl.rlocsList decls) (by rw [show unrole _ = locs decls from rfl, hd]; simp)]
    simp
  have i := (InterpLoc.interpAt (T := st.rlocs) InterpLoc.factoryOfText_clean fuel).libraryDef h
    (InterpLoc.stIn_iff.2 (fun _ h => h)) hd'
  refine ⟨fun l hl => unrole_subset (InterpLoc.stIn_iff.1 i.1) hl, fun defs hr kv hkv l hl => ?_⟩
  exact unrole_subset (i.2.1 defs hr kv hkv) hl

/-- a library source that `factoryOfText` accepts: `(define-library (m))` -/
example : factoryOfText [.ident "m"] "(define-library (m))" = .ok (.ast []) := by
  have lex_lib : Lex.all "(define-library (m))".toList =
      ([⟨.lparen, some (1, 2)⟩, ⟨.ident "define-library", some (1, 16)⟩, ⟨.lparen, some (1, 18)⟩,
        ⟨.ident "m", some (1, 19)⟩, ⟨.rparen, some (1, 20)⟩, ⟨.rparen, some (1, 21)⟩], none) := by
    simp [Lex.all, Lex.allAux, Lex.next, Lex.skipAtmosphere, Lex.token, Lex.adv, Lex.isWs,
      Lex.normalIdentifier, Lex.takeRun, Lex.isDigit, Except.map, Lex.isSubsequent, Lex.isInitial,
      Lex.isLetter, Lex.testDelimiter, Lex.isDelimiter, bind, Except.bind, pure, Except.pure]
  have read_lib : ∃ s', Read.nextDatum { toks := [⟨.lparen, none⟩, ⟨.ident "define-library", none⟩,
        ⟨.lparen, none⟩, ⟨.ident "m", none⟩, ⟨.rparen, none⟩, ⟨.rparen, none⟩], lexErr := none } =
      .ok (some (.pair (.sym "define-library" none) (.pair (.pair (.sym "m" none) (.nil none) none)
        (.nil none) none) none), s') := by
    simp [Read.nextDatum, Read.advance, Read.currentDatum, Read.fuelFor, Read.listOrPair, Read.listLoop,
      Read.advanceUnwrap, Read.snoc, Datum.withLoc, bind, Except.bind, pure, Except.pure]
  have xform_lib : ∀ env, Xform.toStatement 4056 (.pair (.sym "define-library" none)
        (.pair (.pair (.sym "m" none) (.nil none) none) (.nil none) none) none) env =
      (.ok (.libraryDef [.ident "m"] [] none), env) := fun _ => rfl
  obtain ⟨s', h1⟩ := read_lib
  unfold factoryOfText
  simp only [Read.ofText, lex_lib, List.map, List.length]
  rw [factoryOfText.go]
  simp [h1, Datum.strip, Xform.xformFuel, Datum.size, xform_lib]

/-- the mechanism on the datum of `(define-library (m) (begin (define (f) y)))` as the reader
delivers it for a text at line 1: stripped, then transformed — no position is left -/
example : ∃ n decls l env', Xform.toStatement 100
      (Datum.strip (.pair (.sym "define-library" (some (1, 16))) (.pair (.pair (.sym "m" (some (1, 19))) (.nil none) (some (1, 18)))
        (.pair (.pair (.sym "begin" (some (1, 27))) (.pair (.pair (.sym "define" (some (1, 35)))
          (.pair (.pair (.sym "f" (some (1, 38))) (.nil none) (some (1, 37))) (.pair (.sym "y" (some (1, 41))) (.nil none) none) none)
          (some (1, 29))) (.nil none) none) (some (1, 22))) (.nil none) none) none) (some (1, 2)))) [[]] =
      (.ok (.libraryDef n decls l), env') ∧ locs decls = [] :=
  ⟨_, _, _, _, rfl, rfl⟩

/-- instantiating the empty library -/
example : (evalLibraryDef 2 {} []).1 = .ok [] := by
  simp [evalLibraryDef, evalLibDecls, Store.newFrame]; rfl

/-! ## 7–8. `eval_ast`: the position reported for a failing top-level form -/

/-- an error that arose while READING a library source (`factoryOfText`): its position, if any,
refers to the library text — the one kind of position that is not a position of the program.
(With `Lexer::without_locations` only the lexer's own errors are still located.) -/
abbrev LibReadErr (e : SErr) : Prop := InterpLoc.LibReadErr e

/-- The exact shape of every error `eval_ast` reports for a statement `s`: either it carries the
statement's own position `s.loc` (the fallback for errors that had none), or a position `l` that
 * for an unbound variable is the position of an identifier (`ident`) of `s` or of code already in
   the state, or of an export spec of a library definition in the state,
 * for a non-procedure is the position of an operator of `s` or of code already in the state,
 * for a cyclic import or a missing library is the position of a library name in an import
   declaration of `s` or of a library definition in the state,
or it is an error from reading a library source. -/
theorem error_kind_and_position {fuel : Nat} {st st' : State} {s : Statement} {k : Err} {loc : Loc}
    (h : evalAst fuel st s = (.error (k, loc), st')) :
    loc = s.loc ∨ ∃ l, loc = some l ∧
      ((k = .unbound ∧ ((Role.ident, l) ∈ st.rlocs ++ s.rlocs ∨ (Role.export, l) ∈ st.rlocs ++ s.rlocs)) ∨
       (k = .nonProcedure ∧ (Role.operator, l) ∈ st.rlocs ++ s.rlocs) ∨
       ((k = .cyclic ∨ k = .libNotFound) ∧ (Role.libname, l) ∈ st.rlocs ++ s.rlocs) ∨
       LibReadErr (k, some l)) := by
  have i := InterpLoc.evalAst_in (T := st.rlocs ++ s.rlocs) InterpLoc.factoryOfText_clean h
    (InterpLoc.stIn_iff.2 (List.subset_append_left _ _)) (List.subset_append_right _ _)
  obtain ⟨loc0, hk, rfl⟩ := i.2 k loc rfl
  cases loc0 with
  | none => left; cases s.loc <;> rfl
  | some l => right; exact ⟨l, rfl, hk l rfl⟩

/-- `located_errors_are_in_form_for_other_kinds`: an error of any kind other than unbound
variable, non-procedure, cyclic import or missing library (and not raised while reading a library
source) is reported exactly at the statement's own position — the position of the form. -/
theorem located_errors_are_in_form_for_other_kinds {fuel : Nat} {st st' : State} {s : Statement}
    {k : Err} {loc : Loc} (h : evalAst fuel st s = (.error (k, loc), st'))
    (h1 : k ≠ .unbound) (h2 : k ≠ .nonProcedure) (h3 : k ≠ .cyclic) (h4 : k ≠ .libNotFound)
    (h5 : ∀ l, ¬ LibReadErr (k, some l)) : loc = s.loc := by
  rcases error_kind_and_position h with h | ⟨l, -, h | h | h | h⟩
  · exact h
  · exact absurd h.1 h1
  · exact absurd h.1 h2
  · rcases h.1 with h | h
    · exact absurd h h3
    · exact absurd h h4
  · exact absurd h (h5 l)

/-- `(vector-ref (vector) 1)`-like faults: here `((lambda (x) x))` at 2:2, an arity error — reported
at the form -/
example : (evalAst 9 { store := demoStore } (.expr (.call (.lambda (.mk ⟨["x"], none⟩ [] [.sym "x" (some (2, 14))])
    (some (2, 3))) [] (some (2, 2))))).1 = .error (.arity, some (2, 2)) := by
  simp [evalAst, evalExprOrDef, evalExpr, evalArgs, applyProcedure, applyLoop, procArity, arityOk,
    Lambda.formals, Statement.loc, Expr.loc]

/-- MAIN. Let `s` be the statement made from a top-level datum `d` of the program, evaluated in a
state all of whose code positions are in `T` (the positions of the EARLIER forms of the same text;
bundled and user libraries contribute none, `library_code_unlocated`). If `eval_ast` fails with
`(k, loc)` then
 * every reported position is a position of the failing form `d`, or of an earlier form (`T`) —
   or the error arose while reading a library source;
 * a position is reported whenever the statement has one (`xform_stmt_loc`: `s.loc = d.loc`,
   the form's first token, unless `d` is a `set!` or a macro use);
 * the state afterwards holds positions of `T` and of `d` only — the hypothesis for the next form. -/
theorem error_loc_in_failing_form {T : List Pos} {fuel₀ fuel : Nat} {d : Datum}
    {env env' : Xform.SynEnv} {s : Statement} {st st' : State} {k : Err} {loc : Loc}
    (hx : Xform.toStatement fuel₀ d env = (.ok s, env')) (hst : LocsIn T st)
    (h : evalAst fuel st s = (.error (k, loc), st')) :
    (∀ l, loc = some l → l ∈ locs d ∨ l ∈ T ∨ LibReadErr (k, some l)) ∧
    (s.loc ≠ none → loc ≠ none) ∧
    LocsIn (T ++ locs d) st' := by
  have hs : unrole s.rlocs ⊆ locs d := xform_locs hx
  have hsub : unrole (st.rlocs ++ s.rlocs) ⊆ T ++ locs d := by
    rw [unrole_append]
    exact List.append_subset.2 ⟨fun l hl => List.mem_append_left _ (hst l hl),
      fun l hl => List.mem_append_right _ (hs hl)⟩
  have i := InterpLoc.evalAst_in (T := st.rlocs ++ s.rlocs) InterpLoc.factoryOfText_clean h
    (InterpLoc.stIn_iff.2 (List.subset_append_left _ _)) (List.subset_append_right _ _)
  refine ⟨fun l hl => ?_, fun hne => ?_, fun l hl => hsub (unrole_subset (InterpLoc.stIn_iff.1 i.1) hl)⟩
  · subst hl
    have key : ∀ r, (r, l) ∈ st.rlocs ++ s.rlocs → l ∈ locs d ∨ l ∈ T ∨ LibReadErr (k, some l) := by
      intro r hr
      rcases List.mem_append.1 (hsub (mem_unrole.2 ⟨r, hr⟩)) with h | h
      · exact Or.inr (Or.inl h)
      · exact Or.inl h
    rcases error_kind_and_position h with h | ⟨l', hl', h⟩
    · exact Or.inl ((xform_stmt_loc hx).1 l h.symm)
    · cases hl'
      rcases h with ⟨-, h | h⟩ | ⟨-, h⟩ | ⟨-, h⟩ | h
      · exact key _ h
      · exact key _ h
      · exact key _ h
      · exact key _ h
      · exact Or.inr (Or.inr h)
  · obtain ⟨loc0, -, rfl⟩ := i.2 k loc rfl
    cases loc0 with
    | none => cases hsl : s.loc with
      | none => exact absurd hsl hne
      | some p => simp
    | some l => simp

/-- A position OUTSIDE the failing form is reported only for an unbound variable or a non-procedure
inside a procedure defined by an earlier form (or, through library definitions held by the state,
for a cyclic / missing library or an error from reading a library source): every other fault is
reported inside the form that failed. -/
theorem outside_form_only_unbound_nonproc {fuel₀ fuel : Nat} {d : Datum} {env env' : Xform.SynEnv}
    {s : Statement} {st st' : State} {k : Err} {l : Pos}
    (hx : Xform.toStatement fuel₀ d env = (.ok s, env'))
    (h : evalAst fuel st s = (.error (k, some l), st')) (hl : l ∉ locs d) :
    k = .unbound ∨ k = .nonProcedure ∨ k = .cyclic ∨ k = .libNotFound ∨ LibReadErr (k, some l) := by
  rcases error_kind_and_position h with h | ⟨l', hl', h⟩
  · exact absurd ((xform_stmt_loc hx).1 l h.symm) hl
  · cases hl'
    rcases h with ⟨h, -⟩ | ⟨h, -⟩ | ⟨h | h, -⟩ | h
    · exact Or.inl h
    · exact Or.inr (Or.inl h)
    · exact Or.inr (Or.inr (Or.inl h))
    · exact Or.inr (Or.inr (Or.inr (Or.inl h)))
    · exact Or.inr (Or.inr (Or.inr (Or.inr h)))

/-- a fault inside a procedure defined by an earlier form: `(f)` at line 2, `f` defined at line 1
as `(define (f) y)`; the position reported, 1:13, is a position of the state (`T`), i.e. of the
earlier form of the same text -/
example : (evalAst 9 { store := demoStore } (.expr (.call (.sym "f" (some (2, 3))) [] (some (2, 2))))).1 =
    .error (.unbound, some (1, 13)) := by
  simp [evalAst, evalExprOrDef, evalExpr, evalArgs, applyProcedure, applyLoop, applyScheme, evalDefs,
    evalBody, evalTail, bindFixed, procArity, demoStore, Store.lookup, Store.lookupAux, arityOk,
    Lambda.formals, Store.newFrame, enter, leave, Lambda.defs, Lambda.body, List.lookup]

/-! ## whole programs -/

/-- `Interpreter::eval` on a program text, form after form: a reported position is a position of
code the state already held (none after `new_with_stdlib`, see below), or the cursor reached after
some prefix of the PROGRAM TEXT — never beyond the end of the file —, or the error arose while
reading a library source. Syntax errors (lexer, reader, transformer) are included. -/
theorem program_error_loc {fuel : Nat} {st st' : State} {text : List Char} {k : Err} {l : Pos}
    (h : evalText fuel st text = (.error (k, some l), st')) :
    l ∈ locs st ∨ (∃ pre, pre <+: text ∧ l = Text.advs pre (1, 1)) ∨ LibReadErr (k, some l) :=
  ProgLoc.evalText_loc h

/-- the program `⏎x` (an unbound variable on line 2) in an interpreter without bindings: the error is
reported at 2:2, the cursor after the whole text -/
example : (evalText 9 {} ['\n', 'x']).1 = .error (.unbound, some (2, 2)) ∧
    Text.advs ['\n', 'x'] (1, 1) = (2, 2) := by
  have lex_x : Lex.all ['\n', 'x'] = ([⟨.ident "x", some (2, 2)⟩], none) := by
    simp [Lex.all, Lex.allAux, Lex.next, Lex.skipAtmosphere, Lex.token, Lex.adv, Lex.isWs,
      Lex.normalIdentifier, Lex.takeRun, Lex.isDigit, Except.map]
  refine ⟨?_, by decide⟩
  simp [evalText, evalText.go, Read.ofText, lex_x, Read.nextDatum, Read.advance, Read.currentDatum,
    Read.fuelFor, Xform.toStatement, Xform.xformFuel, evalAst, evalExprOrDef, Eval.evalExpr, Store.lookup,
    Store.lookupAux, bind, Except.bind, pure, Statement.loc, Expr.loc, Datum.loc]

/-- For the interpreter as the CLI and the harness build it (`default()` or `new_with_stdlib()`):
its state holds no position at all, so every position it reports for a program is a cursor inside
the program text (or stems from reading a user library source). -/
theorem stdlib_program_error_loc {fuel f : Nat} {withHost : Bool} {st' : State} {text : List Char}
    {k : Err} {l : Pos}
    (h : evalText fuel (withStdlib f withHost) text = (.error (k, some l), st')) :
    (∃ pre, pre <+: text ∧ l = Text.advs pre (1, 1)) ∨ LibReadErr (k, some l) := by
  rcases program_error_loc h with h | h
  · have : locs (withStdlib f withHost) = [] := by
      show unrole (withStdlib f withHost).rlocs = []
      rw [ProgLoc.withStdlib_unlocated]; rfl
    rw [this] at h; cases h
  · exact h

/-- the same program `⏎x` in `Interpreter::default()` (`withStdlib 0` = nothing imported yet) -/
example : (evalText 9 (withStdlib 0 false) ['\n', 'x']).1 = .error (.unbound, some (2, 2)) := by
  have lex_x : Lex.all ['\n', 'x'] = ([⟨.ident "x", some (2, 2)⟩], none) := by
    simp [Lex.all, Lex.allAux, Lex.next, Lex.skipAtmosphere, Lex.token, Lex.adv, Lex.isWs,
      Lex.normalIdentifier, Lex.takeRun, Lex.isDigit, Except.map]
  have hw : withStdlib 0 false = default_ false := by simp [withStdlib, evalImport]
  have hd : (default_ false).importEnd = false ∧ (default_ false).env = 0 ∧
      (default_ false).store.frames = #[{ parent := none, defs := [] }] := by
    unfold default_
    generalize Gen.baseLibText = b
    generalize Gen.writeLibText = w
    exact ⟨rfl, rfl, rfl⟩
  obtain ⟨h1, h2, h3⟩ := hd
  rw [hw]
  simp [evalText, evalText.go, Read.ofText, lex_x, Read.nextDatum, Read.advance, Read.currentDatum,
    Read.fuelFor, Xform.toStatement, Xform.xformFuel, evalAst, evalExprOrDef, Eval.evalExpr, Store.lookup,
    Store.lookupAux, bind, Except.bind, pure, Statement.loc, Expr.loc, Datum.loc, h1, h2, h3]


theorem default_state_unlocated (withHost : Bool) (f : Nat) :
    locs (default_ withHost) = [] ∧ locs (withStdlib f withHost) = [] := by
  constructor
  · show unrole (default_ withHost).rlocs = []
    rw [ProgLoc.default_unlocated]; rfl
  · show unrole (withStdlib f withHost).rlocs = []
    rw [ProgLoc.withStdlib_unlocated]; rfl

/-! ## every run-time error carries a position -/

/-- The reader gives a position to every datum it reads and to every element inside it
(`Datum.HL`: every car, improper tail and vector element, recursively; only the inner cells of a
list's spine have none), provided every token has one — and every token of `Lex.all` has. -/
theorem reader_data_located {s s' : Read.PState} {d : Datum} (h : Read.nextDatum s = .ok (some d, s'))
    (ht : ∀ t ∈ s.toks, t.loc ≠ none) : d.HL ∧ ∀ t ∈ s'.toks, t.loc ≠ none :=
  HLoc.nextDatum_hl h ht

theorem lexer_tokens_located (cs : List Char) : ∀ t ∈ (Read.ofText cs).toks, t.loc ≠ none :=
  HLoc.ofText_tokLoc cs

/-- Macro expansion keeps data located: the expansion of a located macro use is located (built data
take the position of the use, substituted data are elements of the use). -/
theorem expansion_located {fuel : Nat} {r : Macro.Rules} {use d : Datum}
    (h : Macro.transform fuel r use = .ok d) (hu : use.HL) : d.HL :=
  HLoc.transformRules_hl hu r.rules d h

/-- The statement made from a located datum — through any number of expansions — has a position. -/
theorem stmt_located {fuel : Nat} {d : Datum} {env env' : Xform.SynEnv} {s : Statement}
    (h : Xform.toStatement fuel d env = (.ok s, env')) (hd : d.HL) : s.loc ≠ none :=
  HLoc.stmt_loc_some fuel d hd env s (by rw [h])

/-- EVERY run-time error carries a position: one round of `Interpreter::eval` — read a datum from
located tokens, transform it, evaluate the statement — never fails in the evaluator without
reporting a line and a column. -/
theorem runtime_error_is_located {s s' : Read.PState} {d : Datum} {fuel₀ fuel : Nat}
    {env env' : Xform.SynEnv} {stmt : Statement} {st st' : State} {k : Err} {loc : Loc}
    (ht : ∀ t ∈ s.toks, t.loc ≠ none) (hr : Read.nextDatum s = .ok (some d, s'))
    (hx : Xform.toStatement fuel₀ d env = (.ok stmt, env'))
    (h : evalAst fuel st stmt = (.error (k, loc), st')) : ∃ l, loc = some l := by
  have hl := HLoc.evalAst_located h (stmt_located hx (reader_data_located hr ht).1)
  cases loc with
  | none => exact absurd rfl hl
  | some l => exact ⟨l, rfl⟩

/-- one round on the token `x` located at 2:2 -/
example : ∃ d stmt env',
    (Read.nextDatum { toks := [⟨.ident "x", some (2, 2)⟩], lexErr := none }).toOption.map (·.1) = some (some d) ∧
    Xform.toStatement 9 d [[]] = (.ok stmt, env') ∧
    (evalAst 9 {} stmt).1 = .error (.unbound, some (2, 2)) := by
  refine ⟨.sym "x" (some (2, 2)), _, _, ?_, rfl, ?_⟩
  · simp [Read.nextDatum, Read.advance, Read.currentDatum, Read.fuelFor, bind, Except.bind, Except.toOption]
  · simp [evalAst, evalExprOrDef, Eval.evalExpr, Store.lookup, Store.lookupAux, Datum.loc]

/-- For a whole program: if `Interpreter::eval` reports an error WITHOUT a position, the error was
raised by the reader or by the transformer (a syntax error; or the model ran out of fuel) — never by
the evaluation of a form. -/
theorem unlocated_error_is_syntax_stage {fuel : Nat} {st st' : State} {text : List Char} {k : Err}
    (h : evalText fuel st text = (.error (k, none), st')) : k = .fuel ∨ HLoc.SyntaxStage k := by
  unfold evalText at h
  exact HLoc.evalText_go_located fuel _ _ _ _ k st' (HLoc.ofText_tokLoc text) h

/-- the program `()`: an error without position — raised by the transformer (`EmptyCall`) -/
example : (evalText 9 {} ['(', ')']).1 = .error (.syntax, none) := by
  have lex_p : Lex.all ['(', ')'] = ([⟨.lparen, some (1, 2)⟩, ⟨.rparen, some (1, 3)⟩], none) := by
    simp [Lex.all, Lex.allAux, Lex.next, Lex.skipAtmosphere, Lex.token, Lex.adv, Lex.isWs]
  simp [evalText, evalText.go, Read.ofText, lex_p, Read.nextDatum, Read.advance, Read.currentDatum,
    Read.fuelFor, Read.listOrPair, Read.listLoop, Read.advanceUnwrap, Datum.withLoc, Xform.toStatement,
    Xform.xformFuel, Xform.fail, bind, Except.bind, pure, Except.pure]

/-- the data the reader delivers for `(a . (b))`-like texts are located at every element; a bare
spine cell is not: `(x y)` located at its head only is head-located, its tail `(y)` is not -/
example : (Datum.pair (.sym "x" (some (1, 2))) (.pair (.sym "y" (some (1, 4))) (.nil none) none) (some (1, 1))).HL ∧
    ¬ (Datum.pair (.sym "y" (some (1, 4))) (.nil none) none).HL := by
  simp [Datum.HL, Datum.TL]

end Ruschm.C15

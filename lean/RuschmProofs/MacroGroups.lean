/-
Helper lemmas for C04 (4): in the supported class the number of copies of an ellipsis
sub-template is unambiguous — all variables under one ellipsis of the pattern matched the same
number of items.
-/
import RuschmProofs.MacroSubst

namespace Ruschm.Macro
open Ruschm

theorem lookup_zipB (β β' : Bindings) (v : String) :
    (zipB β β').lookup v = (β.lookup v).map fun ms => ms ++ (β'.lookup v).getD [] := by
  induction β with
  | nil => rfl
  | cons e β ih =>
    obtain ⟨k, ms⟩ := e
    simp only [zipB, List.map_cons, List.lookup_cons] at ih ⊢
    by_cases hk : v = k
    · subst hk; simp
    · have : (v == k) = false := by simp [beq_eq_false_iff_ne, hk]
      simp only [this]
      exact ih

theorem lookup_of_mem_keys {β : Bindings} {v} (h : v ∈ β.map Prod.fst) :
    ∃ ms, β.lookup v = some ms ∧ (v, ms) ∈ β := by
  induction β with
  | nil => simp at h
  | cons e β ih =>
    obtain ⟨k, ms⟩ := e
    simp only [List.lookup_cons]
    by_cases hk : v = k
    · subst hk; exact ⟨ms, by simp, by simp⟩
    · have : (v == k) = false := by simp [beq_eq_false_iff_ne, hk]
      simp only [this]
      simp only [List.map_cons, List.mem_cons] at h
      rcases h with h | h
      · exact absurd h hk
      · obtain ⟨ms', h1, h2⟩ := ih h
        exact ⟨ms', h1, by simp [h2]⟩

theorem lookup_none_of_not_mem_keys {β : Bindings} {v} (h : v ∉ β.map Prod.fst) :
    β.lookup v = none := by
  induction β with
  | nil => rfl
  | cons e β ih =>
    obtain ⟨k, ms⟩ := e
    simp only [List.map_cons, List.mem_cons, not_or] at h
    have : (v == k) = false := by simp [beq_eq_false_iff_ne, h.1]
    simp only [List.lookup_cons, this]
    exact ih h.2

theorem lookup_append_left {β₁ β₂ : Bindings} {v} (h : v ∈ β₁.map Prod.fst) :
    (β₁ ++ β₂).lookup v = β₁.lookup v := by
  induction β₁ with
  | nil => simp at h
  | cons e β ih =>
    obtain ⟨k, ms⟩ := e
    simp only [List.cons_append, List.lookup_cons]
    by_cases hk : v = k
    · subst hk; simp
    · have : (v == k) = false := by simp [beq_eq_false_iff_ne, hk]
      simp only [this]
      simp only [List.map_cons, List.mem_cons] at h
      exact ih (h.resolve_left hk)

theorem lookup_append_right {β₁ β₂ : Bindings} {v} (h : v ∉ β₁.map Prod.fst) :
    (β₁ ++ β₂).lookup v = β₂.lookup v := by
  induction β₁ with
  | nil => rfl
  | cons e β ih =>
    obtain ⟨k, ms⟩ := e
    simp only [List.map_cons, List.mem_cons, not_or] at h
    have : (v == k) = false := by simp [beq_eq_false_iff_ne, h.1]
    simp only [List.cons_append, List.lookup_cons, this]
    exact ih h.2

/-- the length of the sequence of `v` after a run: one more item per further match -/
theorem foldl_zipB_length {K : List String} {v} (hv : v ∈ K) :
    ∀ (βs : List Bindings) (acc : Bindings),
      (∀ β ∈ βs, β.map Prod.fst = K ∧ β.Single) → acc.map Prod.fst = K →
      ((βs.foldl zipB acc).lookup v).map List.length =
        (acc.lookup v).map fun ms => ms.length + βs.length := by
  intro βs
  induction βs with
  | nil => intro acc _ _; simp
  | cons b bs ih =>
    intro acc hb hacc
    simp only [List.foldl_cons]
    rw [ih (zipB acc b) (fun β hβ => hb β (by simp [hβ])) (by simpa using hacc), lookup_zipB]
    obtain ⟨hbk, hbs⟩ := hb b (by simp)
    obtain ⟨ms, h1, h2⟩ := lookup_of_mem_keys (β := b) (hbk ▸ hv)
    obtain ⟨m, hm⟩ := hbs _ h2
    simp only at hm; subst hm
    cases acc.lookup v with
    | none => rfl
    | some ms' => simp [h1]; omega

theorem mapOpt_all {α β : Type} {f : α → Option β} {xs ys} (h : mapOpt f xs = some ys) :
    ∀ y ∈ ys, ∃ x ∈ xs, f x = some y := by
  induction xs generalizing ys with
  | nil => simp [mapOpt] at h; subst h; simp
  | cons x xs ih =>
    obtain ⟨y, ys', hy, hys, rfl⟩ := mapOpt_cons_some.1 h
    intro y' hy'
    simp only [List.mem_cons] at hy'
    rcases hy' with rfl | hy'
    · exact ⟨x, by simp, hy⟩
    · obtain ⟨x', hx', hfx⟩ := ih hys y' hy'
      exact ⟨x', by simp [hx'], hfx⟩

theorem Pat.okTail_ok {lits p} (h : Pat.okTail lits p = true) : Pat.ok lits p = true := by
  cases p <;> simp_all [Pat.okTail, Pat.ok]

/-- every group consists of variables of the pattern -/
theorem Pat.ellGroups_subset (lits : List String) :
    (∀ p, ∀ g ∈ Pat.ellGroups lits p, ∀ v ∈ g, v ∈ p.vars lits) ∧
    (∀ ps, ∀ g ∈ Pat.ellGroupsList lits ps, ∀ v ∈ g, v ∈ Pat.varsList lits ps) := by
  apply Pat.ind
  · intro g hg; simp [Pat.ellGroups] at hg
  · intro g hg; simp [Pat.ellGroups] at hg
  · intro a r iha ihr g hg v hv
    simp only [Pat.ellGroups] at hg
    simp only [Pat.vars, List.mem_append]
    split at hg
    · simp only [List.mem_singleton] at hg; subst hg; exact .inl hv
    · rcases List.mem_append.1 hg with h | h
      · exact .inl (iha g h v hv)
      · exact .inr (ihr g h v hv)
  · intro g hg; simp [Pat.ellGroups] at hg
  · intro xs ih g hg v hv
    simp only [Pat.ellGroups] at hg
    simpa [Pat.vars] using ih g hg v hv
  · intro s g hg; simp [Pat.ellGroups] at hg
  · intro q g hg; simp [Pat.ellGroups] at hg
  · intro g hg; simp [Pat.ellGroupsList] at hg
  · intro p ps ihp ihps g hg v hv
    simp only [Pat.ellGroupsList] at hg
    simp only [Pat.varsList, List.mem_append]
    split at hg
    · simp only [List.mem_singleton] at hg; subst hg; exact .inl hv
    · rcases List.mem_append.1 hg with h | h
      · exact .inl (ihp g h v hv)
      · exact .inr (ihps g h v hv)

/-- the variables of one group all matched the same number of items -/
def GroupsOk (groups : List (List String)) (β : Bindings) : Prop :=
  ∀ g ∈ groups, ∃ n, ∀ v ∈ g, (β.lookup v).map List.length = some n

theorem specMatch_groups_aux (lits : List String) :
    (∀ p, ∀ d β, Pat.ok lits p = true → (p.vars lits).Nodup → specMatch lits p d = some β →
      GroupsOk (p.ellGroups lits) β) ∧
    (∀ ps, ∀ ds β, Pat.okList lits ps = true → (Pat.varsList lits ps).Nodup →
      specMatchList lits ps ds = some β → GroupsOk (Pat.ellGroupsList lits ps) β) := by
  have hrun : ∀ {a : Pat} {ds β}, Pat.ok lits a = true → a.ellFree = true →
      specRun (specMatch lits a) (some ds) = some β → GroupsOk [a.vars lits] β := by
    intro a ds β _ hef h g hg
    simp only [List.mem_singleton] at hg; subst hg
    obtain ⟨d1, ds', β1, βs, rfl, h1, h2, rfl⟩ := specRun_some h
    refine ⟨1 + βs.length, fun v hv => ?_⟩
    have hall : ∀ β ∈ βs, β.map Prod.fst = a.vars lits ∧ β.Single := by
      intro β hβ
      obtain ⟨x, _, hx⟩ := mapOpt_all h2 β hβ
      exact ⟨specMatch_keys hx, specMatch_single hx hef⟩
    rw [foldl_zipB_length hv βs β1 hall (specMatch_keys h1)]
    obtain ⟨ms, hl, hmem⟩ := lookup_of_mem_keys (β := β1) (specMatch_keys h1 ▸ hv)
    obtain ⟨m, hm⟩ := specMatch_single h1 hef _ hmem
    simp only at hm; subst hm
    simp [hl]
  have happ : ∀ {β₁ β₂ : Bindings} {g1 g2 : List (List String)} {v1 v2 : List String},
      β₁.map Prod.fst = v1 → (v1 ++ v2).Nodup →
      (∀ g ∈ g1, ∀ v ∈ g, v ∈ v1) → (∀ g ∈ g2, ∀ v ∈ g, v ∈ v2) →
      GroupsOk g1 β₁ → GroupsOk g2 β₂ → GroupsOk (g1 ++ g2) (β₁ ++ β₂) := by
    intro β₁ β₂ g1 g2 v1 v2 hk hnd hs1 hs2 h1 h2 g hg
    rw [List.nodup_append] at hnd
    rcases List.mem_append.1 hg with hg | hg
    · obtain ⟨n, hn⟩ := h1 g hg
      exact ⟨n, fun v hv => by rw [lookup_append_left (hk ▸ hs1 g hg v hv)]; exact hn v hv⟩
    · obtain ⟨n, hn⟩ := h2 g hg
      refine ⟨n, fun v hv => ?_⟩
      rw [lookup_append_right]
      · exact hn v hv
      · rw [hk]; intro h; exact hnd.2.2 v h v (hs2 g hg v hv) rfl
  apply Pat.ind
  · intro d β _ _ _ g hg; simp [Pat.ellGroups] at hg
  · intro d β _ _ _ g hg; simp [Pat.ellGroups] at hg
  · intro a r iha ihr d β hok hnd h
    simp only [specMatch] at h
    simp only [Pat.ok] at hok
    simp only [Pat.ellGroups]
    simp only [Pat.vars] at hnd
    by_cases he : r.isEllTail = true
    · simp only [he, if_true, Bool.and_eq_true] at hok h ⊢
      rw [properElems_eq_spine] at h
      cases hd : d.spine.2 with
      | some _ => simp [hd, specRun] at h
      | none =>
        simp only [hd] at h
        exact hrun hok.1.1 hok.1.2 h
    · simp only [he, Bool.false_eq_true, if_false, Bool.and_eq_true] at hok h ⊢
      cases d <;> simp at h
      rename_i x y l
      cases h1 : specMatch lits a x <;> cases h2 : specMatch lits r y <;> simp [h1, h2] at h
      subst h
      have hnd' := List.nodup_append.1 hnd
      exact happ (specMatch_keys h1) hnd ((Pat.ellGroups_subset lits).1 a)
        ((Pat.ellGroups_subset lits).1 r) (iha _ _ hok.1 hnd'.1 h1)
        (ihr _ _ (Pat.okTail_ok hok.2) hnd'.2.1 h2)
  · intro d β _ _ _ g hg; simp [Pat.ellGroups] at hg
  · intro xs ih d β hok hnd h
    cases d <;> simp [specMatch] at h
    simp only [Pat.ok] at hok
    simp only [Pat.vars] at hnd
    simpa [Pat.ellGroups] using ih _ _ hok hnd h
  · intro s d β _ _ _ g hg; simp [Pat.ellGroups] at hg
  · intro q d β _ _ _ g hg; simp [Pat.ellGroups] at hg
  · intro ds β _ _ _ g hg; simp [Pat.ellGroupsList] at hg
  · intro p ps ihp ihps ds β hok hnd h
    simp only [specMatchList] at h
    simp only [Pat.okList] at hok
    simp only [Pat.ellGroupsList]
    simp only [Pat.varsList] at hnd
    by_cases he : Pat.isEllOnly ps = true
    · simp only [he, if_true, Bool.and_eq_true] at hok h ⊢
      exact hrun hok.1.1 hok.1.2 h
    · simp only [he, Bool.false_eq_true, if_false, Bool.and_eq_true] at hok h ⊢
      cases ds <;> simp at h
      rename_i x y
      cases h1 : specMatch lits p x <;> cases h2 : specMatchList lits ps y <;> simp [h1, h2] at h
      subst h
      have hnd' := List.nodup_append.1 hnd
      exact happ (specMatch_keys h1) hnd ((Pat.ellGroups_subset lits).1 p)
        ((Pat.ellGroups_subset lits).2 ps) (ihp _ _ hok.1 hnd'.1 h1) (ihps _ _ hok.2 hnd'.2.1 h2)

theorem foldl_zipB_lookup (v : String) :
    ∀ (βs : List Bindings) (acc : Bindings),
      (βs.foldl zipB acc).lookup v =
        (acc.lookup v).map fun ms => ms ++ βs.flatMap fun b => (b.lookup v).getD [] := by
  intro βs
  induction βs with
  | nil => intro acc; simp
  | cons b bs ih =>
    intro acc
    simp only [List.foldl_cons, ih, lookup_zipB, Option.map_map, List.flatMap_cons]
    cases acc.lookup v <;> simp

/-- the bindings of a run: every variable of the first item's bindings is bound to the sequence
of its matches in all the items, in order -/
theorem combine_lookup {βs : List Bindings} {β : Bindings} (h : combine βs = some β) :
    ∃ β1 rest, βs = β1 :: rest ∧ β.map Prod.fst = β1.map Prod.fst ∧
      ∀ v ∈ β1.map Prod.fst, β.lookup v = some (βs.flatMap fun b => (b.lookup v).getD []) := by
  cases βs with
  | nil => simp [combine] at h
  | cons β1 rest =>
    simp only [combine, Option.some.injEq] at h
    subst h
    refine ⟨β1, rest, rfl, foldl_zipB_keys, fun v hv => ?_⟩
    obtain ⟨ms, hl, -⟩ := lookup_of_mem_keys hv
    rw [foldl_zipB_lookup, hl]
    simp [hl]

theorem minLen_const {ls : List Nat} {n} (hne : ls ≠ []) (h : ∀ l ∈ ls, l = n) : minLen ls = n := by
  induction ls with
  | nil => exact absurd rfl hne
  | cons x xs ih =>
    have hx : x = n := h x (by simp)
    cases xs with
    | nil => simp [minLen, hx]
    | cons y ys =>
      have := ih (by simp) (fun l hl => h l (by simp [hl]))
      simp only [minLen] at this ⊢
      rw [this, hx]; simp

/-- **the number of copies is unambiguous in the supported class**: every pattern variable that an
ellipsis sub-template of a supported rule mentions matched exactly `copies` items -/
theorem copies_eq_length {lits p d β u} (hs : Supported lits p = true)
    (hm : specMatch lits p d = some β)
    (hu : Tmpl.ellOk (p.vars lits) (p.ellGroups lits) u = true) :
    ∀ v ∈ u.vars, ∀ ms, β.lookup v = some ms → ms.length = copies β u := by
  simp only [Supported, Bool.and_eq_true, decide_eq_true_eq] at hs
  simp only [Tmpl.ellOk, Bool.and_eq_true, Bool.not_eq_true', List.any_eq_true,
    List.all_eq_true, List.contains_iff_mem] at hu
  obtain ⟨⟨-, hbne⟩, g, hg, hsub⟩ := hu
  obtain ⟨n, hn⟩ := (specMatch_groups_aux lits).1 p d β hs.1 hs.2 hm g hg
  have hkeys := specMatch_keys hm
  -- a bound variable of `u` is in the group
  have hbound : ∀ v ∈ u.vars, ∀ ms, β.lookup v = some ms → ms.length = n := by
    intro v hv ms hl
    have hvk : v ∈ β.map Prod.fst := by
      by_cases h : v ∈ β.map Prod.fst
      · exact h
      · rw [lookup_none_of_not_mem_keys h] at hl; cases hl
    have hvb : v ∈ u.boundVars (p.vars lits) := by
      simp only [Tmpl.boundVars, List.mem_filter, List.contains_iff_mem]
      exact ⟨hv, hkeys ▸ hvk⟩
    have := hn v (hsub v hvb)
    simpa [hl] using this
  have hcop : copies β u = n := by
    unfold copies
    apply minLen_const
    · simp only [List.isEmpty_eq_false_iff_exists_mem] at hbne
      obtain ⟨v0, hv0⟩ := hbne
      simp only [Tmpl.boundVars, List.mem_filter, List.contains_iff_mem] at hv0
      obtain ⟨ms, hl, -⟩ := lookup_of_mem_keys (β := β) (hkeys ▸ hv0.2)
      intro h
      have : ms.length ∈ seqLens β u := by
        simp only [seqLens, List.mem_filterMap]
        exact ⟨v0, hv0.1, by simp [hl]⟩
      simp [h] at this
    · intro l hl
      simp only [seqLens, List.mem_filterMap, Option.map_eq_some_iff] at hl
      obtain ⟨v, hv, ms, hms, rfl⟩ := hl
      exact hbound v hv ms hms
  intro v hv ms hl
  rw [hcop]; exact hbound v hv ms hl

end Ruschm.Macro

"""Generators for syntax-rules rule sets and uses (C04)."""
import itertools, random

# literal data that are numerically or textually CLOSE but not equal (1 / 1.0 / "1", 1/2 / 0.5, #t / t, "s" / s):
# a literal datum matches only an equal datum
PAT_ATOMS = ["a", "b", "c", "k", "_", "1", "2", "#t", '"s"', "1.0", "1/2", "0.5"]
USE_ATOMS = ["1", "2", "k", "j", "#t", '"s"', "x", "1.0", "1/2", "0.5", '"1"', "s", "t", "2.0", "#f"]


def gen_pat(rng, depth, top=False):
    """a pattern (list of elements as text); ellipsis only in final position"""
    n = rng.randrange(0, 4)
    elems = []
    for i in range(n):
        r = rng.random()
        if depth > 0 and r < 0.25:
            elems.append(gen_pat(rng, depth - 1))
        elif depth > 0 and r < 0.33:
            elems.append("#" + gen_pat(rng, depth - 1))
        else:
            elems.append(rng.choice(PAT_ATOMS))
    if elems and rng.random() < 0.45:
        elems.append("...")
    s = "(" + " ".join(elems)
    if elems and elems[-1] != "..." and not top and rng.random() < 0.1:
        s += " . " + rng.choice(["a", "b", "c"])
    return s + ")"


def pat_vars(p):
    import re
    return [t for t in re.findall(r"[a-z_]+|\.\.\.", p) if t in ("a", "b", "c")]


def gen_tmpl(rng, vars_, depth):
    atoms = list(vars_) + ["x", "1", "if", "k", "_"]        # `_` in a template is an ordinary symbol, copied as it stands
    n = rng.randrange(0, 4)
    elems = []
    for i in range(n):
        r = rng.random()
        if depth > 0 and r < 0.3:
            e = gen_tmpl(rng, vars_, depth - 1)
        elif depth > 0 and r < 0.36:
            e = "#" + gen_tmpl(rng, vars_, depth - 1)
        else:
            e = rng.choice(atoms)
        elems.append(e)
        # an ellipsis only after something that mentions a pattern variable (otherwise the
        # expander's copy loop does not terminate)
        if any(v in e for v in vars_) and vars_ and rng.random() < 0.35:
            elems.append("...")
    return "(" + " ".join(elems) + ")"


def gen_use_from_pat(rng, p, depth=2):
    """a use derived from the pattern text: variables replaced by data, ellipsis by repetition,
    then possibly mutated"""
    import re
    toks = re.findall(r'#\(|\(|\)|\.\.\.|[^\s()]+', p)
    def datum(d):
        if d > 0 and rng.random() < 0.25:
            items = [datum(d - 1) for _ in range(rng.randrange(0, 3))]
            if rng.random() < 0.3:
                # an argument that is itself a macro use (of a bundled form, or of m): it is matched and substituted AS WRITTEN
                items = [rng.choice(["or", "and", "let", "when", "m", "begin"])] + items
            return "(" + " ".join(items) + ")"
        return rng.choice(USE_ATOMS)
    prev_start = None
    stack = []
    res = []
    for t in toks:
        if t == "...":
            # repeat the previous element 0-2 more times
            last = res[prev_start:] if prev_start is not None else []
            for _ in range(rng.randrange(0, 3)):
                res.extend(mutate_elem(rng, last, datum))
            continue
        if t in ("(", "#("):
            stack.append(len(res)); res.append(t); continue
        if t == ")":
            res.append(")"); prev_start = stack.pop() if stack else None
            continue
        if t == ".":
            res.append("."); continue
        prev_start = len(res)
        if t in ("a", "b", "c", "_"):
            res.append(datum(depth))
        else:
            res.append(t if rng.random() < 0.85 else rng.choice(USE_ATOMS))
    return " ".join(res)


def mutate_elem(rng, toks, datum):
    """a further item of an ellipsis run, modelled on the first: atoms replaced by other data; now and then an element too
    many or too few inside a list/vector item (such an item does not match the sub-pattern)"""
    out = []
    for t in toks:
        if t in ("(", ")", "#(", "."):
            out.append(t)
        elif rng.random() < 0.8:
            out.append(datum(1))
        else:
            out.append(t)
    if len(out) >= 2 and out[0] in ("(", "#(") and rng.random() < 0.25:
        inner = [i for i in range(1, len(out) - 1)]
        if inner and rng.random() < 0.5:
            i = rng.choice(inner)
            if out[i] not in ("(", ")", "#(", "."):
                del out[i]                                   # one element fewer
        else:
            out.insert(len(out) - 1, datum(0))                # one element more
    return out


# rules INSIDE the supported class by construction: every variable under the pattern's ellipsis, templates whose ellipsis sub-templates
# mention those variables once, TWICE or more, in either order, in lists and vectors, several sub-templates over the same run
DIRECTED = [
    ("(a ...)", ["((a a) ...)", "(a ... a ...)", "(#(a x a) ...)", "((a (a)) ... k)", "((a) ... (a a a) ...)", "(x (a a) ...)"]),
    ("((a b) ...)", ["((a b a) ...)", "((b a) ... (a a b b) ...)", "(a ... b ... a ...)", "(#(b b) ... (a) ...)", "((a b) ... (b a) ...)"]),
    ("(#(a b) ...)", ["((a a b) ...)", "(#(b a b) ...)"]),
    ("(c (a b) ...)", ["(c (a a) ... c)", "((b a b) ... c (a) ...)"]),
    ("((a b c) ...)", ["((c b a c) ...)", "((a (b (c a))) ...)"]),
]


# rule sets whose patterns PRINT alike but are different patterns: a string / a character / a number against the identifier or the
# string of the same spelling (a pattern is its data, not its printed form): each is a rule of its own
TWINS = [
    [('("x")', "(str)"), ("(a)", "(other a)")],
    [("(1 a)", "(int a)"), ('("1" a)', "(str a)")],
    [('(#t a)', "(tru a)"), ('("#t" a)', "(str a)")],
    [('(#("s" a))', "(vs a)"), ("(#(s a))", "(vv s a)")],
    [("(1/2)", "(ratio)"), ("(0.5)", "(real)"), ('("1/2")', "(str)")],
]
TWIN_USES = ['(m "x")', "(m x)", "(m 5)", "(m 1 2)", '(m "1" 2)', "(m (q 1))", "(m #t 3)", '(m "#t" 3)', '(m #("s" 4))', "(m #(7 4))",
             "(m 1/2)", "(m 0.5)", '(m "1/2")', "(m (a 1))"]


def gen_case(rng):
    if rng.random() < 0.06:
        rs = rng.choice(TWINS)
        if rng.random() < 0.5:
            rs = list(reversed(rs))
        defs = "(define-syntax m (syntax-rules (k) %s))" % " ".join("((m %s %s)" % (p[1:], t) for p, t in rs)
        gen_case.quoted = "(define-syntax m (syntax-rules (k) %s))" % " ".join("((m %s (quote %s))" % (p[1:], t) for p, t in rs)
        return defs, rng.choice(TWIN_USES)
    nrules = rng.randrange(1, 4)
    rules, rules_q = [], []
    pats = []
    directed = rng.random() < 0.15
    for _ in range(nrules):
        if directed:
            p, ts = rng.choice(DIRECTED)
            vs = sorted(set(pat_vars(p)))
            t = rng.choice(ts)
        else:
            p = gen_pat(rng, 2, top=True)
            vs = sorted(set(pat_vars(p)))
            t = gen_tmpl(rng, vs, 2) if rng.random() < 0.9 else rng.choice(vs + ["1", "x"])
        rules.append("((m %s %s)" % (p[1:], t) if p != "()" else "((m) %s)" % t)
        rules_q.append("((m %s (quote %s))" % (p[1:], t) if p != "()" else "((m) (quote %s))" % t)
        pats.append(p)
    lits = "(k)" if rng.random() < 0.7 else "()"
    defs = "(define-syntax m (syntax-rules %s %s))" % (lits, " ".join(rules))
    # the same rules with every template QUOTED: evaluating a use then yields the instantiated template as a value, through the
    # whole front end (reader, use-site handling in the parser, expander, evaluator)
    gen_case.quoted = "(define-syntax m (syntax-rules %s %s))" % (lits, " ".join(rules_q))
    base = rng.choice(pats)
    u = gen_use_from_pat(rng, base)
    use = "(m " + u.strip()[1:].strip() if u.strip().startswith("(") else "(m)"
    return defs, use

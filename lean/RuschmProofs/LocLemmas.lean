/-
Helper lemmas for property C15 (error locations): which positions occur in the data and code the
pipeline builds (`RuschmSpec/Loc.lean`), stage by stage.
-/
import RuschmSpec.Loc
import RuschmProofs.StoreLemmas

namespace Ruschm

/-! ## data -/

theorem Datum.loc_subset (d : Datum) : d.loc.toList ⊆ d.locs := by
  cases d <;> simp [Datum.loc, Datum.locs]

theorem Datum.locs_withLoc (d : Datum) (l : Loc) : (d.withLoc l).locs ⊆ l.toList ++ d.locs := by
  cases d <;> simp [Datum.withLoc, Datum.locs] <;> grind

theorem Datum.locsList_append (xs ys : List Datum) :
    Datum.locsList (xs ++ ys) = Datum.locsList xs ++ Datum.locsList ys := by
  induction xs with
  | nil => simp [Datum.locsList]
  | cons x xs ih => simp [Datum.locsList, ih]

theorem Datum.locs_subset_locsList {x : Datum} {xs : List Datum} (h : x ∈ xs) :
    x.locs ⊆ Datum.locsList xs := by
  induction xs with
  | nil => cases h
  | cons y ys ih =>
    simp only [Datum.locsList]
    rcases List.mem_cons.1 h with rfl | h
    · exact List.subset_append_left _ _
    · exact (ih h).trans (List.subset_append_right _ _)

theorem Datum.locsList_subset {xs : List Datum} {T : List Pos} :
    Datum.locsList xs ⊆ T ↔ ∀ x ∈ xs, x.locs ⊆ T := by
  induction xs with
  | nil => simp [Datum.locsList]
  | cons y ys ih => simp [Datum.locsList, ih]

theorem Datum.locs_ofList (l : Loc) (xs : List Datum) :
    (Datum.ofList l xs).locs = l.toList ++ Datum.locsList xs := by
  induction xs generalizing l with
  | nil => simp [Datum.ofList, Datum.locs, Datum.locsList]
  | cons x xs ih => simp [Datum.ofList, Datum.locs, Datum.locsList, ih]

theorem Datum.spine_locs : ∀ (d : Datum),
    (∀ x ∈ d.spine.1, x.locs ⊆ d.locs) ∧ (∀ t, d.spine.2 = some t → t.locs ⊆ d.locs)
  | .pair a d l => by
    have ih := Datum.spine_locs d
    simp only [Datum.spine, Datum.locs]
    refine ⟨fun x hx => ?_, fun t ht => ?_⟩
    · rcases List.mem_cons.1 hx with rfl | hx
      · intro p hp; simp [hp]
      · intro p hp; have := ih.1 x hx hp; simp [this]
    · intro p hp; have := ih.2 t ht hp; simp [this]
  | .nil _ => by simp [Datum.spine]
  | .prim _ _ => by simp [Datum.spine]
  | .sym _ _ => by simp [Datum.spine]
  | .vec _ _ => by simp [Datum.spine]

theorem Datum.elems_locs {d x : Datum} (h : x ∈ d.elems) : x.locs ⊆ d.locs := by
  have hs := Datum.spine_locs d
  unfold Datum.elems at h
  split at h
  · rename_i xs he; rw [he] at hs; exact hs.1 x h
  · rename_i xs t he; rw [he] at hs
    rcases List.mem_append.1 h with h | h
    · exact hs.1 x h
    · simp only [List.mem_singleton] at h; subst h; exact hs.2 _ rfl

/-! ## macro expansion -/

namespace Macro

/-- every datum bound in the substitution table has its positions in `T` -/
def SubstIn (T : List Pos) (σ : Subst) : Prop :=
  ∀ e ∈ σ, e.2.1.locs ⊆ T ∧ ∀ m ∈ e.2.2, m.locs ⊆ T

theorem SubstIn.nil (T : List Pos) : SubstIn T [] := by simp [SubstIn]

theorem SubstIn.insert {T : List Pos} {σ : Subst} (h : SubstIn T σ) (v : String) {d : Datum}
    (hd : d.locs ⊆ T) : SubstIn T (σ.insert v (d, [])) := by
  induction σ with
  | nil => simp [Subst.insert, SubstIn, hd]
  | cons e rest ih =>
    obtain ⟨k, y⟩ := e
    simp only [Subst.insert]
    have hr : SubstIn T rest := fun e he => h e (List.mem_cons_of_mem _ he)
    split
    · intro e he
      rcases List.mem_cons.1 he with rfl | he
      · simp [hd]
      · exact hr e he
    · intro e he
      rcases List.mem_cons.1 he with rfl | he
      · exact h _ (List.mem_cons_self ..)
      · exact ih hr e he

theorem SubstIn.push {T : List Pos} {σ σ' : Subst} (h : SubstIn T σ) {v : String} {d : Datum}
    (hd : d.locs ⊆ T) (hp : σ.push? v d = some σ') : SubstIn T σ' := by
  induction σ generalizing σ' with
  | nil => simp [Subst.push?] at hp
  | cons e rest ih =>
    obtain ⟨k, f, more⟩ := e
    have hr : SubstIn T rest := fun e he => h e (List.mem_cons_of_mem _ he)
    have h0 := h _ (List.mem_cons_self ..)
    simp only [Subst.push?] at hp
    split at hp
    · cases hp
      intro e he
      rcases List.mem_cons.1 he with rfl | he
      · refine ⟨h0.1, fun m hm => ?_⟩
        rcases List.mem_append.1 hm with hm | hm
        · exact h0.2 m hm
        · simp only [List.mem_singleton] at hm; subst hm; exact hd
      · exact hr e he
    · cases hq : Subst.push? rest v d with
      | none => simp [hq] at hp
      | some r =>
        simp only [hq, Option.map_some, Option.some.injEq] at hp
        subst hp
        intro e he
        rcases List.mem_cons.1 he with rfl | he
        · exact h0
        · exact ih hr hq e he

theorem SubstIn.pushAll {T : List Pos} {τ : Subst} (hτ : SubstIn T τ) :
    ∀ {acc : Option Subst} {σ' : Subst}, (∀ s, acc = some s → SubstIn T s) →
      τ.foldl (fun acc (x : String × Datum × List Datum) =>
        acc.bind (fun s => Subst.push? s x.1 x.2.1)) acc = some σ' → SubstIn T σ' := by
  induction τ with
  | nil => intro acc σ' ha h; exact ha _ h
  | cons e rest ih =>
    intro acc σ' ha h
    simp only [List.foldl_cons] at h
    refine ih (fun e he => hτ e (List.mem_cons_of_mem _ he)) ?_ h
    intro s hs
    cases acc with
    | none => simp at hs
    | some a =>
      simp only [Option.bind_some] at hs
      exact (ha a rfl).push (hτ e (List.mem_cons_self ..)).1 hs

theorem SubstIn.get {T : List Pos} {σ : Subst} (h : SubstIn T σ) {v : String} {x : Datum × List Datum}
    (hg : σ.get? v = some x) : x.1.locs ⊆ T ∧ ∀ m ∈ x.2, m.locs ⊆ T := by
  induction σ with
  | nil => simp [Subst.get?] at hg
  | cons e rest ih =>
    obtain ⟨k, y⟩ := e
    simp only [Subst.get?] at hg
    split at hg
    · cases hg; exact h _ (List.mem_cons_self ..)
    · exact ih (fun e he => h e (List.mem_cons_of_mem _ he)) hg

/-- matching only ever binds sub-data of the datum matched -/
theorem match_locs_aux (T : List Pos) (lits : List String) : ∀ n,
    (∀ p d σ r, matchDatum n lits p d σ = .ok r → d.locs ⊆ T → SubstIn T σ → SubstIn T r.2) ∧
    (∀ ps ds mm σ r, matchStream n lits ps ds mm σ = .ok r → (∀ d ∈ ds, d.locs ⊆ T) → SubstIn T σ →
      SubstIn T r.2) := by
  intro n
  induction n with
  | zero => constructor <;> intros <;> simp_all [matchDatum, matchStream]
  | succ n ih =>
    obtain ⟨ihD, ihS⟩ := ih
    constructor
    · intro p d σ r h hd hσ
      rw [matchDatum] at h
      sorry
    · sorry

end Macro

end Ruschm

/-
The abstract syntax the parser hands to the evaluator: `src/parser/parser.rs`
(`Statement`, `ExpressionBody`, `SchemeProcedure`, `ParameterFormals`, `ImportSetBody`,
`LibraryDeclaration`, `ExportSpec`, `LibraryName`).
-/
import RuschmModel.Macro
namespace Ruschm

/-- `ParameterFormals`, flattened: the fixed names in order and the rest name.
(`transform_formals` only ever builds a list of names with an optional improper tail name.) -/
structure Formals where
  fixed : List String
  rest : Option String
  deriving DecidableEq, Repr, Inhabited

mutual
/-- `Expression = Located<ExpressionBody>` -/
inductive Expr where
  | sym (s : String) (loc : Loc)
  | prim (p : Prim) (loc : Loc)
  | assign (name : String) (e : Expr) (loc : Loc)
  | lambda (l : Lambda) (loc : Loc)
  | call (f : Expr) (args : List Expr) (loc : Loc)
  | cond (test conseq : Expr) (alt : Option Expr) (loc : Loc)
  | quote (d : Datum) (loc : Loc)
  | datum (d : Datum) (loc : Loc)          -- a self-evaluating vector literal
/-- `SchemeProcedure(formals, definitions, expressions)` -/
inductive Lambda where
  | mk (formals : Formals) (defs : List Def) (body : List Expr)
/-- `Definition = Located<DefinitionBody(name, expression)>` -/
inductive Def where
  | mk (name : String) (e : Expr) (loc : Loc)
end

instance : Inhabited Expr := ⟨.prim (.bool false) none⟩
instance : Inhabited Lambda := ⟨.mk ⟨[], none⟩ [] []⟩

def Expr.loc : Expr → Loc
  | .sym _ l | .prim _ l | .assign _ _ l | .lambda _ l | .call _ _ l | .cond _ _ _ l
  | .quote _ l | .datum _ l => l

def Lambda.formals : Lambda → Formals | .mk f _ _ => f
def Lambda.defs : Lambda → List Def | .mk _ d _ => d
def Lambda.body : Lambda → List Expr | .mk _ _ b => b

mutual
/-- `PartialEq` of expressions (derived in Rust; `Located` compares data only) -/
def Expr.beq : Expr → Expr → Bool
  | .sym a _, .sym b _ => a == b
  | .prim a _, .prim b _ => a == b
  | .assign n e _, .assign n' e' _ => n == n' && Expr.beq e e'
  | .lambda l _, .lambda l' _ => Lambda.beq l l'
  | .call f as _, .call f' as' _ => Expr.beq f f' && Expr.beqList as as'
  | .cond t c a _, .cond t' c' a' _ =>
    Expr.beq t t' && Expr.beq c c' &&
      (match a, a' with
       | none, none => true
       | some x, some y => Expr.beq x y
       | _, _ => false)
  | .quote d _, .quote d' _ => Datum.beq d d'
  | .datum d _, .datum d' _ => Datum.beq d d'
  | _, _ => false
def Expr.beqList : List Expr → List Expr → Bool
  | [], [] => true
  | x :: xs, y :: ys => Expr.beq x y && Expr.beqList xs ys
  | _, _ => false
def Lambda.beq : Lambda → Lambda → Bool
  | .mk f d b, .mk f' d' b' => decide (f = f') && Def.beqList d d' && Expr.beqList b b'
def Def.beq : Def → Def → Bool
  | .mk n e _, .mk n' e' _ => n == n' && Expr.beq e e'
def Def.beqList : List Def → List Def → Bool
  | [], [] => true
  | x :: xs, y :: ys => Def.beq x y && Def.beqList xs ys
  | _, _ => false
end

/-- `LibraryNameElement` -/
inductive LibElem where
  | ident (s : String)
  | int (n : Nat)
  deriving DecidableEq, Repr, Inhabited

abbrev LibName := List LibElem

def LibElem.toString : LibElem → String
  | .ident s => s
  | .int n => ToString.toString n

/-- `ImportSetBody` -/
inductive ImportSet where
  | direct (name : LibName) (loc : Loc)
  | only (s : ImportSet) (ids : List String)
  | except (s : ImportSet) (ids : List String)
  | prefix (s : ImportSet) (p : String)
  | rename (s : ImportSet) (pairs : List (String × String))
  deriving Repr, Inhabited

inductive ExportSpec where
  | direct (name : String) (loc : Loc)
  | rename (from_ to : String) (loc : Loc)
  deriving Repr, Inhabited

mutual
/-- `Statement` -/
inductive Statement where
  | importDecl (sets : List ImportSet) (loc : Loc)
  | definition (d : Def)
  | syntaxDef (name : String) (rules : Macro.Rules) (loc : Loc)
  | expr (e : Expr)
  | libraryDef (name : LibName) (decls : List LibDecl) (loc : Loc)
/-- `LibraryDeclaration` -/
inductive LibDecl where
  | importDecl (sets : List ImportSet)
  | export (specs : List ExportSpec)
  | begin_ (body : List Statement)
end

instance : Inhabited Statement := ⟨.expr default⟩

def Statement.loc : Statement → Loc
  | .importDecl _ l => l
  | .definition (.mk _ _ l) => l
  | .syntaxDef _ _ l => l
  | .expr e => e.loc
  | .libraryDef _ _ l => l

end Ruschm

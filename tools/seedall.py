#!/usr/bin/env python3
"""regression over every stored seeded change: apply, run the property's check, undo; writes seeded/RESULTS.json"""
import glob, json, os, subprocess, sys
out = {}
for d in sorted(glob.glob("/verif/seeded/C*")):
    name = os.path.basename(d)
    pid = name.split("-")[0]
    r = subprocess.run([sys.executable, "/verif/tools/seedtest.py", "detect", d, pid], stdout=subprocess.PIPE, text=True).stdout
    try:
        res = json.loads(r)[pid]
        out[name] = {"exit": res["exit"], "first_line": (res.get("lines") or [""])[0], "what": res.get("what")}
    except Exception:
        out[name] = {"error": r[-300:]}
    print(name, out[name].get("exit"), (out[name].get("what") or out[name].get("error") or "")[:90], flush=True)
    json.dump(out, open("/verif/seeded/RESULTS.json", "w"), indent=1)

"""C13 — libraries are encapsulated and loaded once per program.
Theorems: lean/RuschmProofs/C13.lean (exports_exact, lib_env_is_fresh_root,
importer_redefinition_harmless, single_instance, instances_only_grow). Tie: random programs over
generated library files — a stateful counter library, re-exporting libraries that import it (and
each other), exports with and without rename, unexported helpers, importers that define, redefine
and reference colliding names — on the real interpreter (files under a program directory) and on
the model. Oracle on the implementation alone: a Python simulation with ONE shared counter per
stateful library predicts every call, unexported and renamed-away names are unbound in the
importer, importer definitions are invisible to library code."""
import random
from . import common as C, progrun as R

PROP = "C13"
MODULES = ["RuschmProofs.C13", "RuschmProofs.C13More", "RuschmProofs.C13Sharing"]


def scenario(rng):
    """-> (fields (files + submissions), expected results)"""
    nstate = rng.randrange(1, 3)
    files, libs = [], {}
    # stateful libraries sK: exports (next-K) and a renamed reader
    for k in range(nstate):
        ext_peek = rng.choice(["look%d" % k, "peek%d" % k])
        # one internal binding may be exported under SEVERAL external names (plainly and renamed, or renamed twice);
        # the export specs come in any order, in one or two export declarations
        specs = ["next%d" % k, "probe%d" % k, "(rename peek%d %s)" % (k, ext_peek)]
        step = None
        if rng.random() < 0.5:
            step = "step%d" % k
            specs.append("(rename next%d %s)" % (k, step))
        peek_names = [ext_peek]
        if rng.random() < 0.3:
            other = rng.choice([n for n in ("look%d" % k, "peek%d" % k, "read%d" % k) if n != ext_peek])
            specs.append("peek%d" % k if other == "peek%d" % k else "(rename peek%d %s)" % (k, other))
            peek_names.append(other)
        # an EXTERNAL name that is also the name of a different, unexported binding inside the library: exporting under that name
        # must not touch the internal binding (the library's own procedures keep using theirs)
        aux_alias = rng.random() < 0.4
        specs.append("get-aux%d" % k)
        if aux_alias:
            specs.append("(rename peek%d aux%d)" % (k, k))
            peek_names.append("aux%d" % k)
        rng.shuffle(specs)
        cut = rng.choice([len(specs), len(specs), rng.randrange(1, len(specs))])
        exports = "(export %s)" % " ".join(specs[:cut]) + (" (export %s)" % " ".join(specs[cut:]) if cut < len(specs) else "")
        # the exported value of a name is the one it has when the WHOLE body has run: `phase` is defined in a first begin block,
        # exported by a declaration standing in the middle (or first, or last), and assigned by a later block
        phase_decl = "(export phase%d)" % k
        where = rng.randrange(3)
        exports = {0: phase_decl + " " + exports, 1: exports, 2: exports}[where]
        mid = phase_decl if where == 1 else ""
        tail = phase_decl if where == 2 else ""
        files.append(("Fs%d.sld=(define-library (s%d) (import (scheme base)) (begin (define phase%d 0)) " % (k, k, k)) + mid + " %s "
                     "(begin (define n 0) (define (helper) (quote hidden%d)) (define (next%d) (set! n (+ n 1)) n) "
                     "(define (peek%d) n) (define (probe%d) importer-secret) (define aux%d 77) (define (get-aux%d) aux%d)) (begin (set! phase%d (+ phase%d 2))) %s)" % (exports, k, k, k, k, k, k, k, k, k, tail))
        libs["s%d" % k] = {"peek": ext_peek, "peeks": peek_names, "step": step}
    # a library that ASSIGNS a name it imported, for its own use (s0: `max`/`min` clamped), next to libraries with exactly the same
    # import declaration that USE that name (s1 if there is one, and `(pl)`): each library's environment is made of its OWN copy of
    # its imports, so the assignment is seen by s0's procedures only - not by the other libraries, not by the program
    patched = None
    if rng.random() < 0.5:
        patched = rng.choice(["max", "min"])
        files[0] = files[0][:-1] + " (export big0) (begin (define old-op %s) (set! %s (lambda (a b) (old-op 100 (old-op a b)))) (define (big0 a b) (%s a b))))" % (patched, patched, patched)
        if nstate > 1:
            files[1] = files[1][:-1] + " (export big1) (begin (define (big1 a b) (%s a b))))" % patched
        files.append("Fpl.sld=(define-library (pl) (import (scheme base)) (export plain-big) (begin (define (plain-big a b) (%s a b))))" % patched)
    # a library-level MACRO in the body of s0 (used by one of its exported procedures): its keyword is private to that body - the
    # importing program and a library FILE loaded afterwards use the same identifier as an ordinary procedure of their own
    libmacro = rng.random() < 0.5
    if libmacro:
        # the keyword is defined in one begin declaration and used in the same or in a LATER one: a library body is one body
        if rng.random() < 0.5:
            files[0] = files[0][:-1] + " (export area0) (begin (define-syntax sq (syntax-rules () ((sq a) (* a a)))) (define (area0 r) (sq r))))"
        else:
            files[0] = files[0][:-1] + " (begin (define-syntax sq (syntax-rules () ((sq a) (* a a))))) (export area0) (begin (define one-zz 1)) (begin (define (area0 r) (* one-zz (sq r)))))"
        files.append("Fld.sld=(define-library (ld) (import (scheme base)) (export bump-sq) (begin (define (sq a) (+ a 1)) (define (bump-sq a) (sq a))))")
    # a library (mx) that EXPORTS a macro, imported by library (bx) only: the program imports (bx) alone - the keyword is nothing to
    # the program, which uses that identifier as a procedure of its own (or not at all: unbound)
    expmacro = rng.random() < 0.4
    if expmacro:
        files.append("Fmx.sld=(define-library (mx) (import (scheme base)) (export scale) (begin (define-syntax scale (syntax-rules () ((scale e) (* 10 e))))))")
        files.append("Fbx.sld=(define-library (bx) (import (scheme base) (mx)) (export tenfold) (begin (define (tenfold q) (scale q))))")
    # wrapper libraries wJ importing some state libs (and earlier wrappers), exporting bumpers
    nwrap = rng.randrange(0, 3)
    wrappers = []
    for j in range(nwrap):
        target = rng.randrange(nstate)
        via = rng.choice([None] + [w for w in wrappers if w[1] == target])
        imports = "(s%d)" % target if via is None else "(w%d)" % via[0]
        call = "(next%d)" % target if via is None else "(bump%d)" % via[0]
        extra_export = "" if via is not None else ""
        files.append("Fw%d.sld=(define-library (w%d) (import (scheme base) %s) (export bump%d) "
                     "(begin (define n 1000) (define (bump%d) %s)))" % (j, j, imports, j, j, call))
        wrappers.append((j, target))
    count = [0] * nstate
    forms, expect = [], []
    imported_direct = [k for k in range(nstate) if rng.random() < 0.8]
    if patched or libmacro:
        imported_direct = list(range(nstate))
    imp = ["(scheme base)"] + ["(s%d)" % k for k in imported_direct] + ["(w%d)" % j for j, _ in wrappers] + (["(pl)"] if patched else []) + (["(ld)"] if libmacro else []) + (["(bx)"] if expmacro else [])
    rng.shuffle(imp)
    imp = ["(scheme base)"] + [x for x in imp if x != "(scheme base)"]
    if libmacro and "(ld)" in imp and "(s0)" in imp and imp.index("(ld)") < imp.index("(s0)"):
        i, j = imp.index("(ld)"), imp.index("(s0)")
        imp[i], imp[j] = imp[j], imp[i]          # (ld) is loaded AFTER the library whose body defines the macro
    forms.append("(import %s)" % " ".join(imp)); expect.append("N")
    redefined = set()
    sq_defined = [False]
    scale_defined = [False]
    helper_defined = False
    for _ in range(rng.randrange(6, 20)):
        op = rng.random()
        if expmacro and rng.random() < 0.25:
            a = rng.randrange(2, 30)
            which = rng.choice(["tenfold", "own-define", "own-call"])
            if which == "tenfold":
                # this implementation does not import KEYWORDS: inside (bx) `scale` is the transformer as a value, and calling it fails -
                # what matters here is that the keyword never reaches the PROGRAM
                forms.append("(tenfold %d)" % a); expect.append("E nonProcedure")
            elif which == "own-define" or not scale_defined[0]:
                if not scale_defined[0] and rng.random() < 0.3:
                    forms.append("(scale %d)" % a); expect.append("E unbound")
                forms.append("(define (scale q) (+ q 1))"); expect.append("N"); scale_defined[0] = True
            else:
                forms.append("(scale %d)" % a); expect.append("V i:%d" % (a + 1))
            continue
        if libmacro and rng.random() < 0.25:
            a = rng.randrange(2, 30)
            which = rng.choice(["area0", "bump-sq", "own-define", "own-call"])
            if which == "area0":
                forms.append("(area0 %d)" % a); expect.append("V i:%d" % (a * a))
            elif which == "bump-sq":
                forms.append("(bump-sq %d)" % a); expect.append("V i:%d" % (a + 1))
            elif which == "own-define" or not sq_defined[0]:
                forms.append("(define (sq a) (+ a 1000))"); expect.append("N"); sq_defined[0] = True
            else:
                forms.append("(sq %d)" % a); expect.append("V i:%d" % (a + 1000))
            continue
        if patched and rng.random() < 0.25:
            a, b = rng.randrange(-50, 300), rng.randrange(-50, 300)
            pyop = max if patched == "max" else min
            which = rng.choice(["big0", "plain-big", "program"] + (["big1"] if nstate > 1 else []))
            if which == "big0":
                forms.append("(big0 %d %d)" % (a, b)); expect.append("V i:%d" % pyop(100, pyop(a, b)))
            elif which == "program":
                forms.append("(%s %d %d)" % (patched, a, b)); expect.append("V i:%d" % pyop(a, b))
            else:
                forms.append("(%s %d %d)" % (which, a, b)); expect.append("V i:%d" % pyop(a, b))
            continue
        if op < 0.12 and imported_direct and any(libs["s%d" % k]["step"] for k in imported_direct):
            # the second external name of the counter: the same binding, untouched by the importer's redefinition of the first
            k = rng.choice([k for k in imported_direct if libs["s%d" % k]["step"]])
            count[k] += 1
            forms.append("(%s)" % libs["s%d" % k]["step"]); expect.append("V i:%d" % count[k])
        elif op < 0.3 and imported_direct:
            k = rng.choice(imported_direct)
            if ("next", k) in redefined:
                forms.append("(next%d)" % k); expect.append("V y:mine")
            else:
                count[k] += 1
                forms.append("(next%d)" % k); expect.append("V i:%d" % count[k])
        elif op < 0.55 and wrappers:
            j, t = rng.choice(wrappers)
            count[t] += 1
            forms.append("(bump%d)" % j); expect.append("V i:%d" % count[t])
        elif op < 0.65 and imported_direct:
            k = rng.choice(imported_direct)
            forms.append("(%s)" % rng.choice(libs["s%d" % k]["peeks"])); expect.append("V i:%d" % count[k])
        elif op < 0.72:
            k = rng.randrange(nstate)
            which = rng.choice(["helper", "peek", "probe"])
            if which == "helper" or (which == "peek" and "peek%d" % k in libs["s%d" % k]["peeks"]) or \
               (which == "probe" and k not in imported_direct):
                forms.append("helper"); expect.append("V <proc>" if helper_defined else "E unbound")
            elif which == "peek":
                forms.append("peek%d" % k); expect.append("E unbound")       # exported under another name only
            else:
                # library code never sees the importer's definitions
                forms.append("(probe%d)" % k); expect.append("E unbound")
        elif op < 0.74 and imported_direct:
            k = rng.choice(imported_direct)
            forms.append("phase%d" % k); expect.append("V i:2")           # the value after the whole library body
        elif op < 0.76 and imported_direct:
            k = rng.choice(imported_direct)
            forms.append("(get-aux%d)" % k); expect.append("V i:77")      # the library's own aux, whatever is exported as aux<k>
        elif op < 0.8:
            forms.append("(define n %d)" % rng.randrange(5000, 6000)); expect.append("N")
        elif op < 0.86 and imported_direct:
            k = rng.choice(imported_direct)
            forms.append("(define (next%d) (quote mine))" % k); expect.append("N")
            redefined.add(("next", k))
        elif op < 0.92:
            forms.append("(define importer-secret 42)"); expect.append("N")
        else:
            forms.append("(define (helper) (quote importer-helper))"); expect.append("N")
            helper_defined = True
    return ["nostd"] + files + [">" + f for f in forms], forms, expect


def run(rep, tier, rng):
    n = 300 if tier == "quick" else 6000
    cases, meta = [], {}
    for i in range(n):
        fields, forms, expect = scenario(rng)
        cases.append(("s%d" % i, "libs", fields))
        meta["s%d" % i] = (forms, expect)
    impl = C.run_hx(cases)
    model = C.run_driver(cases)
    for cid, _, f in cases:
        forms, expect = meta[cid]
        a, b = impl.get(cid, []), model.get(cid, [])
        rep.count()
        rep.nontrivial(tuple(f))
        if len(rep.cov["samples"]) < 3:
            rep.sample({"files": [x for x in f if x.startswith("F")], "program": forms[:8], "implementation": a[:8]})
        bad = False
        for k, (g, e) in enumerate(zip(a, expect)):
            if not (g == e or (e.startswith("E ") and g.startswith(e + " "))):
                rep.violation({"what": "library encapsulation / single-instance semantics violated", "fields": f,
                               "form": forms[k], "form_index": k, "expected": e, "implementation": g})
                bad = True
                break
        if not bad and [R.norm_result(x) for x in a] != [R.norm_result(x) for x in b]:
            rep.violation({"broken": "correspondence Interp (libraries) <-> interpreter.rs", "fields": f,
                           "implementation": a, "model": b}, no_input=True)


def library_soup(rep, tier, rng):
    """LIBRARY SOUP (checks/pylib.py): a DAG of two to four stateful libraries importing one another through every kind of import
    set, a program that imports some of them and calls what it sees - judged by an independent reference module system in Python"""
    from . import pylib
    pylib.soup_phase(rep, rng, 150 if tier == "quick" else 3000, C, R)


def main(tier, seed):
    rep = C.Report(PROP, tier, seed)
    rng = random.Random(seed)
    rep.cov["rule"] = ("random scenarios: 1-2 stateful counter libraries (exports with and without rename, one binding under several external names, specs in any order over one or two export declarations, unexported helper, a "
                       "procedure that refers to an importer variable; in half of the scenarios a library body defines a macro whose keyword the program and a later-loaded library file use as a procedure; in half one library assigns a name it imported while libraries with the same import declaration use that name), 0-2 wrapper libraries importing them directly or through "
                       "another wrapper, an importing program of 6-20 forms that calls, reads, redefines imported names and "
                       "defines colliding names; as files under a program directory; distinct = distinct scenarios")
    ok = C.standard_proof_phase(rep, MODULES, directed_search=lambda r: (run(r, tier, rng), library_soup(r, tier, rng)))
    if ok:
        run(rep, tier, rng)
        library_soup(rep, tier, rng)
    return rep.finish("cd lean && lake build RuschmProofs.C13 && lake env lean <#print axioms of every theorem in RuschmProofs/C13.lean>")

import RuschmModel.Interp
import RuschmModel.DriverText
namespace Ruschm.Driver
open Proto

def evalFuel : Nat := 3000000

def showResult (st : Interp.State) (r : Except SErr (Option Value)) : String :=
  match r with
  | .ok (some v) => "V " ++ Prim.canon st.store 100000 v
  | .ok none => "N"
  | .error e => errStr e

def initState (mode : String) : Interp.State :=
  match mode with
  | "std" => Interp.withStdlib evalFuel false
  | "std+host" | "std+host+sum" => Interp.withStdlib evalFuel true
  | "nostd+host" | "nostd+host+sum" => Interp.default_ true
  | _ => Interp.default_ false

/-- run the submissions one after another on one interpreter -/
def runForms (st : Interp.State) (forms : List String) : List String × Interp.State :=
  forms.foldl (fun (acc : List String × Interp.State) f =>
    let (r, st) := Interp.evalText evalFuel acc.2 (unescape f)
    (acc.1 ++ [showResult st r], st)) ([], st)

/-- `prog`: fields = mode, then one field per submission (each an `Interpreter::eval` call) -/
def prog (fields : List String) : List String :=
  match fields with
  | mode :: forms => (runForms (initState mode) forms).1
  | [] => ["X bad-fields"]

/-- `progx`: like `prog`, followed by the tick trace (`T …`), the text written by
display/newline (`O …`) and the maximum nesting of `apply_procedure` activations (`D n`) -/
def progx (fields : List String) : List String :=
  match fields with
  | mode :: forms =>
    let (rs, st) := runForms (initState mode) forms
    let ticks := st.store.ticks.reverse
    let tline := if mode.endsWith "+sum" then
        "T n=" ++ toString ticks.length ++ " first=" ++ ticks.head?.getD "" ++ " last=" ++ ticks.getLast?.getD ""
      else "T " ++ " ".intercalate ticks
    rs ++ [tline,
           "O " ++ esc (String.join st.store.out.reverse),
           "D " ++ toString st.store.maxDepth]
  | [] => ["X bad-fields"]

end Ruschm.Driver

/-
Property C13, finer facts about `Interp.evalLibraryDef` / `Interp.newLibrary` / `Interp.getLibrary`
of the MODEL (`RuschmProofs/C13.lean` has the five main theorems):

1. `export_under_several_names`  — one internal identifier exported under several names;
2. `rename_export_does_not_touch_library_frame` — exporting never writes to the library frame;
3. `exports_resolved_after_body` — exports are resolved after the whole body, wherever the
   `export` declarations stand;
4. `unbound_export_is_error` — which error, where, and nothing is cached;
5. `library_body_never_sees_importer` — the library frame's lookups stay in the library frame; the
   result does not depend on the importer-side fields of the interpreter (`_partial`: the literal
   statement "the same export table whoever imports it" is FALSE — store addresses differ — see
   `export_table_depends_on_store_addresses`);
6. `instance_cache_only_grows_across_nested_loads` — a dependency instantiated on the way stays
   cached, whatever happens to the library that imported it.

Helpers: `RuschmProofs/LibMoreLemmas.lean` (fuel monotonicity of the interpreter block `imono`,
`stripExports`, `evalLibDecls_strip`, `evalLibraryDef_position`, `exportFold_unbound`, `keepAt`,
`blindAt`, `evalImportSet_ok_cached`).
-/
import RuschmProofs.LibMoreLemmas
import RuschmProofs.C13

namespace Ruschm.C13More
open Ruschm Ruschm.Interp

/-- evaluate a definition and show the names of its table (for the `#eval`-free examples below the
tables are computed by `simp`) -/
def int (n : Int) : Expr := .prim (.int n) none
def defn (x : String) (e : Expr) : Statement := .definition (.mk x e none)

/-! ## 1. one internal identifier, several external names -/

/-- When a library definition evaluates to the table `defs` (frame `ρlib = st.store.frames.size`):
every export spec — whatever `export` declaration it stands in, in whatever order — contributes
its external name; a spec whose external name is not claimed by a spec with another internal
identifier is bound to the value of ITS internal identifier; hence an identifier exported plainly
and renamed, or renamed several times, is in the table under ALL those names with one value. -/
theorem export_under_several_names {fuel : Nat} {st st' : State} {decls : List LibDecl} {defs : S.Bindings}
    (h : evalLibraryDef fuel st decls = (.ok defs, st')) :
    (∀ sp ∈ S.exportSpecs decls, sp.external ∈ defs.map Prod.fst) ∧
    (∀ sp ∈ S.exportSpecs decls,
      (∀ sp' ∈ S.exportSpecs decls, sp'.external = sp.external → sp'.internal = sp.internal) →
      defs.lookup sp.external = st'.store.lookup st.store.frames.size sp.internal ∧
      (defs.lookup sp.external).isSome) ∧
    (∀ sp₁ ∈ S.exportSpecs decls, ∀ sp₂ ∈ S.exportSpecs decls, sp₁.internal = sp₂.internal →
      (∀ sp' ∈ S.exportSpecs decls, sp'.external = sp₁.external → sp'.internal = sp₁.internal) →
      (∀ sp' ∈ S.exportSpecs decls, sp'.external = sp₂.external → sp'.internal = sp₂.internal) →
      defs.lookup sp₁.external = defs.lookup sp₂.external) := by
  obtain ⟨h1, -, h3, h4⟩ := C13.exports_exact h
  have key : ∀ sp ∈ S.exportSpecs decls,
      (∀ sp' ∈ S.exportSpecs decls, sp'.external = sp.external → sp'.internal = sp.internal) →
      defs.lookup sp.external = st'.store.lookup st.store.frames.size sp.internal := by
    intro sp hsp huniq
    rw [h3]
    cases hf : S.exportFor (S.exportSpecs decls) sp.external with
    | none =>
      have := List.find?_eq_none.1 hf sp (List.mem_reverse.2 hsp)
      simp at this
    | some sp' =>
      have hm : sp' ∈ S.exportSpecs decls := List.mem_reverse.1 (List.mem_of_find?_eq_some hf)
      have he : sp'.external = sp.external := by simpa using List.find?_some hf
      simp only [Option.bind_some, huniq sp' hm he]
  refine ⟨fun sp hsp => (h1 _).2 ⟨sp, hsp, rfl⟩, fun sp hsp hu => ⟨key sp hsp hu, ?_⟩, ?_⟩
  · rw [key sp hsp hu]; exact h4 sp hsp
  · intro sp₁ h₁ sp₂ h₂ hi u₁ u₂
    rw [key sp₁ h₁ u₁, key sp₂ h₂ u₂, hi]

/-- `(export a (rename a b)) (begin (define a 7)) (export (rename a c))` -/
def severalNames : List LibDecl :=
  [.export [.direct "a" none, .rename "a" "b" none], .begin_ [defn "a" (int 7)], .export [.rename "a" "c" none]]

example : (evalLibraryDef 6 {} severalNames).1 =
    .ok [("a", .num (.int 7)), ("b", .num (.int 7)), ("c", .num (.int 7))] := by
  simp [evalLibraryDef, severalNames, defn, int, evalLibDecls, evalStatements, evalExprOrDef, Eval.evalExpr,
    Eval.evalPrim, Store.newFrame, Store.define, Store.defsInsert, Store.lookup, Store.lookupAux,
    assocInsert, List.lookup, bind, Except.bind, pure, Except.pure]

/-! ## 2. exporting does not write to the library frame -/

/-- The state in which `evalLibraryDef` ends — in particular the library's own frame — IS the state
in which the evaluation of its body ends, and that is the state the declarations WITHOUT any
`export` declaration end in: neither an `export` declaration nor the final resolution of the specs
(plain or `(rename a b)`) defines, overwrites or removes any binding. An internal `b` keeps its
value when `a` is exported as `b`, and the library's procedures keep seeing it. -/
theorem rename_export_does_not_touch_library_frame {fuel : Nat} {st st' : State} {decls : List LibDecl}
    {r : Except SErr S.Bindings} (h : evalLibraryDef (fuel + 1) st decls = (r, st')) (hr : Eval.NotFuel r) :
    let st0 : State := { st with store := (st.store.newFrame none).2 }
    (∃ rb, evalLibDecls fuel st0 st.store.frames.size decls [] = (rb, st')) ∧
    (∃ rb, evalLibDecls fuel st0 st.store.frames.size (stripExports decls) [] = (rb, st')) := by
  intro st0
  rw [evalLibraryDef_succ_eq] at h
  generalize hd : evalLibDecls fuel _ _ decls [] = res at h
  obtain ⟨x, s⟩ := res
  have hs : s = st' := by cases x <;> exact congrArg Prod.snd h
  subst hs
  have nf : Eval.NotFuel x := by
    cases x with
    | ok _ => simp
    | error e => simp only at h; cases h; exact notFuel_err_cast hr
  obtain ⟨r0, h0, -, -⟩ := evalLibDecls_strip decls fuel _ _ [] [] x s hd nf
  exact ⟨⟨x, rfl⟩, ⟨r0, h0⟩⟩

/-- `(export (rename a b)) (begin (define b 1) (define a 2))`: the table binds `b` to 2, the
library frame still binds `b` to 1 -/
def renameOnto : List LibDecl :=
  [.export [.rename "a" "b" none], .begin_ [defn "b" (int 1), defn "a" (int 2)]]

example : (evalLibraryDef 6 {} renameOnto).1 = .ok [("b", .num (.int 2))] ∧
    (evalLibraryDef 6 {} renameOnto).2.store.lookup 0 "b" = some (.num (.int 1)) := by
  constructor <;>
  simp [evalLibraryDef, renameOnto, defn, int, evalLibDecls, evalStatements, evalExprOrDef, Eval.evalExpr,
    Eval.evalPrim, Store.newFrame, Store.define, Store.defsInsert, Store.lookup, Store.lookupAux,
    assocInsert, List.lookup, bind, Except.bind, pure, Except.pure]

/-! ## 3. exports are resolved after the whole body -/

/-- The table is computed from ALL export specs of the definition (`S.exportSpecs`, in order) by
looking each internal identifier up in the library frame of the FINAL state `st'`, i.e. after every
`begin` block and every import declaration has been evaluated — not at the place where the
`export` declaration stands. Consequently two definitions with the same body declarations in the
same order and the same export specs, differing only in where the `export` declarations stand,
have the same outcome, the same table and the same final state. -/
theorem exports_resolved_after_body :
    (∀ (fuel : Nat) (st st' : State) (decls : List LibDecl) (exports : List ExportSpec),
      evalLibDecls fuel { st with store := (st.store.newFrame none).2 } st.store.frames.size decls [] =
        (.ok exports, st') →
      exports = S.exportSpecs decls ∧
      evalLibraryDef (fuel + 1) st decls =
        ((S.exportSpecs decls).foldlM (exportStep (st'.store.lookup st.store.frames.size)) [], st')) ∧
    (∀ (decls₁ decls₂ : List LibDecl) (n₁ n₂ : Nat) (st st₁ st₂ : State) (r₁ r₂ : Except SErr S.Bindings),
      stripExports decls₁ = stripExports decls₂ → S.exportSpecs decls₁ = S.exportSpecs decls₂ →
      evalLibraryDef n₁ st decls₁ = (r₁, st₁) → Eval.NotFuel r₁ →
      evalLibraryDef n₂ st decls₂ = (r₂, st₂) → Eval.NotFuel r₂ → r₁ = r₂ ∧ st₁ = st₂) := by
  constructor
  · intro fuel st st' decls exports h
    have he := evalLibDecls_exports _ _ _ _ _ _ _ h
    simp only [List.nil_append] at he
    refine ⟨he, ?_⟩
    rw [evalLibraryDef_succ_eq, h, he]
  · intro d₁ d₂ n₁ n₂ st st₁ st₂ r₁ r₂ hs hx h₁ hr₁ h₂ hr₂
    exact evalLibraryDef_position hs hx h₁ hr₁ h₂ hr₂

/-- the `export` first, between or last: `x` is exported with its FINAL value 2 -/
def exportFirst : List LibDecl := [.export [.direct "x" none], .begin_ [defn "x" (int 1)], .begin_ [defn "x" (int 2)]]
def exportBetween : List LibDecl := [.begin_ [defn "x" (int 1)], .export [.direct "x" none], .begin_ [defn "x" (int 2)]]

example : (evalLibraryDef 6 {} exportFirst).1 = .ok [("x", .num (.int 2))] ∧
    evalLibraryDef 6 {} exportBetween = evalLibraryDef 6 {} exportFirst := by
  have h1 : (evalLibraryDef 6 {} exportFirst).1 = .ok [("x", .num (.int 2))] := by
    simp [evalLibraryDef, exportFirst, defn, int, evalLibDecls, evalStatements, evalExprOrDef, Eval.evalExpr,
      Eval.evalPrim, Store.newFrame, Store.define, Store.defsInsert, Store.lookup, Store.lookupAux,
      assocInsert, List.lookup, bind, Except.bind, pure, Except.pure]
  have h2 : Eval.NotFuel (evalLibraryDef 6 {} exportBetween).1 := by
    simp [evalLibraryDef, exportBetween, defn, int, evalLibDecls, evalStatements, evalExprOrDef, Eval.evalExpr,
      Eval.evalPrim, Store.newFrame, Store.define, Store.defsInsert, Store.lookup, Store.lookupAux,
      assocInsert, List.lookup, bind, Except.bind, pure, Except.pure]
  refine ⟨h1, ?_⟩
  have h3 : Eval.NotFuel (evalLibraryDef 6 {} exportFirst).1 := by rw [h1]; simp
  have := exports_resolved_after_body.2 exportBetween exportFirst 6 6 {} _ _ _ _ rfl rfl rfl h2 rfl h3
  exact Prod.ext this.1 this.2

/-! ## 4. an unbound export -/

/-- If, after the body, the internal identifier of some export spec is bound neither by the body
nor by the library's imports (`lookup` in the library frame finds nothing), the definition fails
with `unbound` (`LogicError::UnboundedSymbol`) at the location of the FIRST such spec; and an
import of a library that fails — for this or any other reason — caches no instance for it. -/
theorem unbound_export_is_error :
    (∀ (fuel : Nat) (st st' : State) (decls : List LibDecl) (exports : List ExportSpec) (sp : ExportSpec),
      evalLibDecls fuel { st with store := (st.store.newFrame none).2 } st.store.frames.size decls [] =
        (.ok exports, st') →
      firstUnbound (st'.store.lookup st.store.frames.size) (S.exportSpecs decls) = some sp →
      evalLibraryDef (fuel + 1) st decls = (.error (.unbound, sp.loc), st')) ∧
    (∀ (fuel : Nat) (st st' : State) (name : LibName) (loc : Loc) (e : SErr),
      evalImportSet fuel st (.direct name loc) = (.error e, st') → name ∉ st.inProgress →
      libLookup st.instances name = none → libLookup st'.instances name = none) := by
  constructor
  · intro fuel st st' decls exports sp h hu
    rw [(exports_resolved_after_body.1 fuel st st' decls exports h).2]
    have := exportFold_unbound (st'.store.lookup st.store.frames.size) (S.exportSpecs decls) []
    rw [hu] at this
    rw [this]
  · intro fuel st st' name loc e h hip hi
    cases fuel with
    | zero => rw [evalImportSet] at h; cases h; exact hi
    | succ fuel =>
      rw [evalImportSet_direct_eq hip] at h
      have hs := congrArg Prod.snd h
      have hr := congrArg Prod.fst h
      simp only at hs hr
      rw [← hs]
      show libLookup (getLibrary fuel { st with inProgress := name :: st.inProgress } name loc).2.instances name = none
      generalize hst1 : ({ st with inProgress := name :: st.inProgress } : State) = st1 at hr ⊢
      have hi1 : libLookup st1.instances name = none := by rw [← hst1]; exact hi
      have hip1 : name ∈ st1.inProgress := by rw [← hst1]; simp
      cases fuel with
      | zero => rw [getLibrary]; exact hi1
      | succ fuel =>
        rw [getLibrary_succ_eq, hi1] at hr ⊢
        simp only at hr ⊢
        generalize hff : findFactory st1 name loc = ff at hr ⊢
        obtain ⟨rf, st2⟩ := ff
        obtain ⟨s12, hi2, -, -⟩ := findFactory_step hi1 hff
        cases rf with
        | error e' => exact hi2
        | ok f =>
          simp only [instantiate, cacheInstance] at hr ⊢
          have hk : libLookup (newLibrary fuel st2 f).2.instances name = none := by
            have hip2 : name ∈ st2.inProgress := by rw [s12.base.inProgress]; exact hip1
            unfold newLibrary
            cases f with
            | native defs => exact hi2
            | ast decls =>
              have := (keepAt fuel).libraryDef (st := st2) (decls := decls) (r := _) (st' := _) rfl name hip2 trivial
              rw [this]; exact hi2
          cases hn : (newLibrary fuel st2 f).1 with
          | ok d => rw [hn] at hr; cases hr
          | error e' => exact hk

/-- `(define-library (g) (export ghost) (begin (define real 1)))`, registered -/
def libG : LibName := [.ident "g"]
def ghostState : State :=
  { store := Store.root
    factories := [(libG, .ast [.export [.direct "ghost" (some (3, 4))], .begin_ [defn "real" (int 1)]])] }

example : (evalImportSet 8 ghostState (.direct libG none)).1 = .error (.unbound, some (3, 4)) ∧
    libLookup (evalImportSet 8 ghostState (.direct libG none)).2.instances libG = none := by
  have h1 : (evalImportSet 8 ghostState (.direct libG none)).1 = .error (.unbound, some (3, 4)) := by
    simp [evalImportSet, getLibrary, ghostState, libG, libLookup, evalLibraryDef, defn, int, evalLibDecls,
      evalStatements, evalExprOrDef, Eval.evalExpr, Eval.evalPrim, Store.newFrame, Store.root, Store.define,
      Store.defsInsert, Store.lookup, Store.lookupAux, List.lookup, bind, Except.bind]
  exact ⟨h1, unbound_export_is_error.2 8 ghostState _ libG none _ (Prod.ext h1 rfl)
    (by simp [ghostState]) (by simp [ghostState, libLookup])⟩

/-! ## 5. the library body never sees the importer -/

/-- Whatever the outcome of a library definition: every lookup from the library frame `ρlib` is
answered by that frame alone (`lookup ρlib x = binding ρlib x`: the frame has no parent), the
importing interpreter's global frame `st.env` is not on its chain, and `ρlib` is on the chain of no
frame that existed before. -/
theorem library_body_never_sees_importer (fuel : Nat) (st : State) (decls : List LibDecl)
    (henv : st.env < st.store.frames.size) :
    let ρlib := st.store.frames.size
    let st' := (evalLibraryDef (fuel + 1) st decls).2
    (∀ x, st'.store.lookup ρlib x = st'.store.binding ρlib x) ∧
    st.env ∉ st'.store.chain ρlib ∧ ρlib ∉ st'.store.chain st.env := by
  intro ρlib st'
  obtain ⟨-, -, -, -, hchain, hpre⟩ := C13.lib_env_is_fresh_root fuel st decls
  refine ⟨fun x => ?_, ?_, hpre st.env henv⟩
  · show st'.store.lookup ρlib x = st'.store.binding ρlib x
    rw [Store.lookup_eq_bind, Store.resolve_eq_find, hchain]
    simp only [List.find?_cons, List.find?_nil, Store.definesAt]
    cases hb : st'.store.binding ρlib x with
    | none => simp
    | some v => simpa using hb
  · rw [hchain]
    simp only [List.mem_singleton]
    exact Nat.ne_of_lt henv

/-- the importer defines `a` globally; the library that exports an undefined `a` does not see it -/
example : (evalLibraryDef 6 { store := (Store.root.define 0 "a" (.num (.int 5))) }
    [.export [.direct "a" none]]).1 = .error (.unbound, none) := by
  simp [evalLibraryDef, evalLibDecls, Store.newFrame, Store.root, Store.define, Store.defsInsert,
    Store.lookup, Store.lookupAux, List.lookup, bind, Except.bind]

/-- PARTIAL form of "a library means the same whoever imports it": the evaluation of a library
definition, `getLibrary` and an import never read the importer-side fields of the interpreter —
its global frame pointer `env`, its syntax scope `syn`, its `importEnd` flag — and hand them back
unchanged: with those fields replaced by the ones of any other interpreter `t`, the outcome, the
export table and the rest of the resulting state are the same. (The literal statement for two
importers with different STORES is false: see `export_table_depends_on_store_addresses`.) -/
theorem library_independent_of_importer_partial (fuel : Nat) (t st : State) :
    (∀ decls, evalLibraryDef fuel (withImporter t st) decls =
      ((evalLibraryDef fuel st decls).1, withImporter t (evalLibraryDef fuel st decls).2)) ∧
    (∀ name loc, getLibrary fuel (withImporter t st) name loc =
      ((getLibrary fuel st name loc).1, withImporter t (getLibrary fuel st name loc).2)) ∧
    (∀ s, evalImportSet fuel (withImporter t st) s =
      ((evalImportSet fuel st s).1, withImporter t (evalImportSet fuel st s).2)) :=
  ⟨fun decls => (blindAt fuel).libraryDef t st decls, fun name loc => (blindAt fuel).getLibrary t st (name, loc),
   fun s => (blindAt fuel).importSet t st s⟩

example : (evalLibraryDef 6 { store := Store.root, env := 0, importEnd := true } renameOnto).1 =
    (evalLibraryDef 6 { store := Store.root } renameOnto).1 := by
  have := (library_independent_of_importer_partial 6
    { store := Store.root, env := 0, importEnd := true } { store := Store.root }).1 renameOnto
  have e : withImporter { store := Store.root, env := 0, importEnd := true } { store := Store.root } =
      ({ store := Store.root, env := 0, importEnd := true } : State) := rfl
  rw [e] at this
  rw [this]

/-- `(export f) (begin (define f (lambda () 1)))` -/
def exportsClosure : List LibDecl :=
  [.export [.direct "f" none], .begin_ [defn "f" (.lambda (.mk ⟨[], none⟩ [] [int 1]) none)]]

/-- COUNTEREXAMPLE to the literal statement. The same library evaluated for an importer whose
store has one frame and for one whose store has two frames exports `f` as closures over DIFFERENT
frame numbers (1 and 2): export tables are equal only up to a renaming of store locations. This
is a property of the model's explicit store (in the Rust code: different `Rc` pointers), not a
defect; a proof of equality up to renaming would need a relocation-invariance theorem for the
whole evaluator, which does not exist yet. -/
theorem export_table_depends_on_store_addresses :
    (evalLibraryDef 6 { store := Store.root } exportsClosure).1 =
      .ok [("f", .closure (.mk ⟨[], none⟩ [] [int 1]) 1)] ∧
    (evalLibraryDef 6 { store := (Store.root.newFrame none).2 } exportsClosure).1 =
      .ok [("f", .closure (.mk ⟨[], none⟩ [] [int 1]) 2)] := by
  constructor <;>
  simp [evalLibraryDef, exportsClosure, defn, int, evalLibDecls, evalStatements, evalExprOrDef, Eval.evalExpr,
    Store.newFrame, Store.root, Store.define, Store.defsInsert, Store.lookup, Store.lookupAux,
    assocInsert, List.lookup, bind, Except.bind, pure, Except.pure]

/-! ## 6. what was instantiated on the way stays cached -/

/-- Let library `A` (not yet instantiated; source definition `decls` beginning with an import
declaration whose first set names another library `D = S.leaf s`). Loading `A` evaluates that
import first, in the state `stA` (= `st` with `A`'s factory registered if it came from a file, and
`A`'s fresh frame). If that import succeeds — `D` is instantiated on the way, with export list
`d` — then WHATEVER the outcome of the rest of `A` (further imports, body, exports: ok or any
error), `D ↦ d` is in the instance cache after `getLibrary … A`, and every later `getLibrary`/import
of `D` on a state whose cache has it returns THAT `d` (the same values: closures over the same
frames) without evaluating anything. -/
theorem instance_cache_only_grows_across_nested_loads (k : Nat) (st : State) (A : LibName) (loc : Loc)
    (s : ImportSet) (more : List ImportSet) (rest : List LibDecl)
    (hi : libLookup st.instances A = none)
    (hf : factoryFor st A = some (.ast (.importDecl (s :: more) :: rest))) (hne : S.leaf s ≠ A) :
    let stF := (findFactory st A loc).2
    let stA : State := { stF with store := (stF.store.newFrame none).2 }
    ∀ defs st1, evalImportSet k stA s = (.ok defs, st1) →
      ∃ d, libLookup st1.instances (S.leaf s) = some d ∧ defs = S.transform s d ∧
        libLookup (getLibrary (k + 5) st A loc).2.instances (S.leaf s) = some d ∧
        (∀ (fuel' : Nat) (st'' : State) (loc' : Loc), libLookup st''.instances (S.leaf s) = some d →
          getLibrary (fuel' + 1) st'' (S.leaf s) loc' = (.ok d, st'') ∧
          (S.leaf s ∉ st''.inProgress →
            evalImportSet (fuel' + 2) st'' (.direct (S.leaf s) loc') = (.ok d, st''))) := by
  intro stF stA defs st1 h1
  have hget := getLibrary_via_findFactory (k := k + 4) (loc := loc) hi hf
  obtain ⟨d, hd, hdefs⟩ := evalImportSet_ok_cached s h1
  refine ⟨d, hd, hdefs, ?_, fun fuel' st'' loc' hc => ⟨?_, fun hip => direct_cached hip hc⟩⟩
  · rw [hget]
    simp only [newLibrary]
    have hinv := libraryDef_after_first (k := k) (st := stF) (s := s) (more := more) (rest := rest)
      (r := _) (st' := _) rfl h1
    have h2 := hinv.instances _ _ hd
    unfold cacheInstance
    split
    · simp only [libLookup_libInsert_ne _ _ hne]; exact h2
    · exact h2
  · rw [getLibrary_succ_eq, hc]

/-- `(a)` imports `(b)` (native) and then has a faulting body `(1)`: loading `(a)` fails with
`nonProcedure`, but `(b)` was instantiated on the way and is in the cache afterwards -/
def libA : LibName := [.ident "a"]
def libB : LibName := [.ident "b"]
def nestedState : State :=
  { store := Store.root
    factories := [(libA, .ast [.importDecl [.direct libB none], .begin_ faultyBody]),
                  (libB, .native [("x", .num (.int 1))])] }

example : (getLibrary 9 nestedState libA none).1 = .error (.nonProcedure, none) ∧
    libLookup (getLibrary 9 nestedState libA none).2.instances libB = some [("x", .num (.int 1))] := by
  have hf : factoryFor nestedState libA = some (.ast (.importDecl (.direct libB none :: []) :: [.begin_ faultyBody])) := by
    simp [factoryFor, nestedState, libLookup]
  have hF : (findFactory nestedState libA none).2 = nestedState := by
    simp [findFactory, nestedState, libLookup]
  have h := instance_cache_only_grows_across_nested_loads 4 nestedState libA none
    (.direct libB none) [] [.begin_ faultyBody] (by simp [nestedState, libLookup]) hf
    (by simp [S.leaf, libA, libB])
  simp only [hF] at h
  obtain ⟨d, hd, hdefs, hfinal, -⟩ := h [("x", .num (.int 1))]
    { nestedState with store := (nestedState.store.newFrame none).2,
                       instances := [(libB, [("x", .num (.int 1))])] }
    (by simp [evalImportSet, getLibrary, nestedState, libLookup, libA, libB, libInsert, Store.newFrame])
  have hd' : d = [("x", .num (.int 1))] := by simpa [S.transform] using hdefs.symm
  subst hd'
  refine ⟨?_, hfinal⟩
  rw [getLibrary_succ_eq]
  simp [nestedState, libLookup, libA, libB, findFactory, instantiate, newLibrary, cacheInstance,
    evalLibraryDef, evalLibDecls, evalImport, evalImportSets, evalImportSet, getLibrary, Store.newFrame,
    Store.root, libInsert, assocInsert, faultyBody, evalStatements, evalExprOrDef, Eval.evalExpr,
    Eval.evalPrim, Eval.evalArgs, Eval.procArity, Expr.loc, List.lookup, Store.define]

end Ruschm.C13More

/-
Helper lemmas for the front-end properties C17 (`ruschm FILE`), C18 (REPL), C19 (instances).
-/
import RuschmSpec.Front
import RuschmProofs.LibLemmas
import RuschmProofs.StoreLemmas
-- import RuschmProofs.EvalLemmas
import RuschmProofs.TextLemmas

namespace Ruschm.FrontSpec
open Ruschm Ruschm.Interp Ruschm.Front

/-! ## C19: worlds -/

theorem worldStep_length (fuel : Nat) (w : World) (i : Nat) (text : List Char) :
    (worldStep fuel w i text).2.length = w.length := by
  unfold worldStep
  split <;> simp

theorem worldStep_other (fuel : Nat) (w : World) (i j : Nat) (text : List Char) (h : j ≠ i) :
    (worldStep fuel w i text).2[j]? = w[j]? := by
  unfold worldStep
  split
  · rfl
  · simp [Ne.symm h]

theorem worldStep_self (fuel : Nat) (w : World) (i : Nat) (text : List Char) (st : State)
    (h : w[i]? = some st) :
    (worldStep fuel w i text).1 = some (evalText fuel st text).1 ∧
    (worldStep fuel w i text).2[i]? = some (evalText fuel st text).2 := by
  have hi : i < w.length := by
    rcases Nat.lt_or_ge i w.length with h' | h'
    · exact h'
    · rw [List.getElem?_eq_none h'] at h; cases h
  unfold worldStep
  rw [h]
  simp [hi]

theorem worldStep_none (fuel : Nat) (w : World) (i : Nat) (text : List Char) (h : w[i]? = none) :
    worldStep fuel w i text = (none, w) := by
  unfold worldStep
  simp [h]

theorem runSteps_length (fuel : Nat) (steps : Steps) : ∀ (w : World),
    (runSteps fuel w steps).2.length = w.length := by
  induction steps with
  | nil => intro w; rfl
  | cons s rest ih =>
    intro w
    obtain ⟨i, text⟩ := s
    simp only [runSteps]
    rw [ih, worldStep_length]

theorem runSteps_noninterference (fuel : Nat) (j : Nat) (steps : Steps) : ∀ (w : World) (st : State),
    w[j]? = some st →
    ((runSteps fuel w steps).1.filter (fun r => r.1 = j)).map (·.2)
        = (runAlone fuel st (textsFor j steps)).1.map some ∧
      (runSteps fuel w steps).2[j]? = some (runAlone fuel st (textsFor j steps)).2 := by
  induction steps with
  | nil => intro w st h; exact ⟨rfl, h⟩
  | cons s rest ih =>
    intro w st h
    obtain ⟨i, text⟩ := s
    by_cases hij : i = j
    · subst hij
      obtain ⟨h1, h2⟩ := worldStep_self fuel w i text st h
      obtain ⟨g1, g2⟩ := ih _ _ h2
      have ht : textsFor i ((i, text) :: rest) = text :: textsFor i rest := by
        simp [textsFor]
      rw [ht]
      simp only [runSteps, runAlone, List.filter_cons, decide_true, if_true, List.map_cons]
      exact ⟨by rw [h1, g1], g2⟩
    · have h2 : (worldStep fuel w i text).2[j]? = some st := by
        rw [worldStep_other fuel w i j text (Ne.symm hij)]; exact h
      obtain ⟨g1, g2⟩ := ih _ _ h2
      have ht : textsFor j ((i, text) :: rest) = textsFor j rest := by
        simp [textsFor, hij]
      rw [ht]
      simp only [runSteps, List.filter_cons, hij, decide_false, Bool.false_eq_true, if_false]
      exact ⟨g1, g2⟩

end Ruschm.FrontSpec

/-
Property C08, "the effects completed before an error are kept" — the ORDER of operand evaluation
and the procedure test when the operator of a call is NOT a procedure.

Both call paths of the Rust evaluator evaluate the operator, then the operands left to right, and
only then look at what the operator evaluated to:

* `eval_expression` (a call anywhere but in tail position; model `evalExpr`): ALL operands are
  evaluated up to the first failing one; then a non-procedure operator is reported — even when an
  operand failed (`nonProcedure` wins over the operand's error). The store of the error is the one
  the operands left.
* `eval_procedure_call` (the pending call a user procedure's body handed back to the trampoline;
  model: the `tailCall` arm of `applyLoop`): the operands are evaluated; a failing operand IS the
  outcome (`?` on the collected result); only when all of them gave values is the operator tested.
  Again the store of the `nonProcedure` error is the one the operands left — not the store after
  the operator.

(A seeded change that tested the operator of a tail call BEFORE its operands — the operands'
effects missing from the error store — was at first not noticed by the differential check; these
theorems pin the order down in the model.)

The theorems are stated on the fuel-free judgements of `EvalLemmas.lean` (`Applies` = a run of the
trampoline loop `applyLoop`, `Evals`, `EvalsArgs`, `AppliesScheme`) AND on the fuel-indexed
functions themselves: every run that does not stop for lack of fuel returns exactly this outcome.
They build on `C08.fault_nonprocedure_tail`, `C08.fault_nonprocedure_direct`, `C08.two_faults_order`,
`C08.error_propagates_direct_call`.
-/
import RuschmProofs.C08
import RuschmProofs.StoreLemmas

namespace Ruschm.C08Order
open Ruschm Ruschm.Eval Ruschm.Prim

/-! ## data of the closed examples -/

/-- a root frame in which `e` is `0` -/
private def σe : Store := { frames := #[{ parent := none, defs := [("e", .num (.int 0))] }] }

/-- `(5 (set! e 1))`, the operator located at line 1, column 2 -/
private def badCall : Expr :=
  .call (.prim (.int 5) (some (1, 2))) [.assign "e" (.prim (.int 1) none) none] none

/-- `(lambda () (5 (set! e 1)))`: the bad call stands in TAIL position of the body -/
private def badLam : Lambda := .mk ⟨[], none⟩ [] [badCall]

/-! ## 1. the tail path (`eval_procedure_call` in the trampoline) -/

/-- TAIL POSITION. A user procedure (accepting its arguments) whose body ended in the pending call
`(f targs…)` (`hs`; `σ₀` is the store the body left). The operator evaluates to `fv`, leaving `σ₁`
(`hf`); the operands, evaluated from `σ₁` — the store AFTER THE OPERATOR —, all yield values and
leave `σ₂` (`hargs`); `fv` is not a procedure. Then the trampoline run is stopped with
`nonProcedure`, located at the operator, and the store of the error is `σ₂`: everything the operands
did is there. And this is the outcome of EVERY run of `applyLoop` that has enough fuel (`n`
arbitrary, outcome not the fuel error). -/
theorem tail_nonprocedure_after_operands {σ lam cenv args env f targs tenv σ₀ fv σ₁ vs σ₂}
    (ha : arityOk lam.formals.fixed.length lam.formals.rest.isSome args.length = true)
    (hs : AppliesScheme σ lam cenv args (.ok (.tailCall f targs tenv)) σ₀)
    (hf : Evals σ₀ tenv f (.ok fv) σ₁) (hargs : EvalsArgs σ₁ tenv targs (.ok vs) σ₂)
    (hp : procArity fv = none) :
    Applies σ (.closure lam cenv) args env (.error (.nonProcedure, f.loc)) σ₂ ∧
    ∀ n r σ', applyLoop n σ (.closure lam cenv) args env = (r, σ') → NotFuel r →
      r = .error (.nonProcedure, f.loc) ∧ σ' = σ₂ := by
  have h := C08.fault_nonprocedure_tail (env := env) ha hs hf hargs hp
  exact ⟨h, fun n r σ' hrun hr => Stable.unique (Applies.intro hrun hr) h⟩

/-- `(lambda () (5 (set! e 1)))` applied: the hypotheses hold, with `σ₂` the store in which the
assignment has been made -/
example : ∃ σ₀ σ₂, AppliesScheme σe badLam 0 [] (.ok (.tailCall (.prim (.int 5) (some (1, 2)))
      [.assign "e" (.prim (.int 1) none) none] 1)) σ₀ ∧
    Evals σ₀ 1 (.prim (.int 5) (some (1, 2))) (.ok (.num (.int 5))) σ₀ ∧
    EvalsArgs σ₀ 1 [.assign "e" (.prim (.int 1) none) none] (.ok [.void]) σ₂ ∧
    procArity (.num (.int 5)) = none :=
  ⟨_, _, AppliesScheme.intro_ok rfl EvalsDefs.nil (EvalsBody.last EvalsTail.call), Evals.prim rfl,
    EvalsArgs.cons (Evals.assign (Evals.prim rfl) rfl) EvalsArgs.nil, rfl⟩

/-- TAIL POSITION, the whole picture for a non-procedure operator: whatever the operands give — a
list of values or the first operand error `er` — the trampoline run is stopped in the store `σ₂`
the operands left; with `nonProcedure` after values, with the OPERAND'S error `er` after a failing
operand (the operand error comes first on this path). -/
theorem tail_nonprocedure_order {σ lam cenv args env f targs tenv σ₀ fv σ₁ ra σ₂}
    (ha : arityOk lam.formals.fixed.length lam.formals.rest.isSome args.length = true)
    (hs : AppliesScheme σ lam cenv args (.ok (.tailCall f targs tenv)) σ₀)
    (hf : Evals σ₀ tenv f (.ok fv) σ₁) (hargs : EvalsArgs σ₁ tenv targs ra σ₂)
    (hp : procArity fv = none) :
    Applies σ (.closure lam cenv) args env
      (match ra with
       | .ok _ => .error (.nonProcedure, f.loc)
       | .error er => .error er) σ₂ := by
  cases ra with
  | ok vs => exact C08.fault_nonprocedure_tail ha hs hf hargs hp
  | error er => exact (C08.two_faults_order (l := none) hf hargs hp).2 σ lam cenv args env ha hs

/-- `(lambda () (5 zz))`: the operand `zz` is unbound; in tail position that is the outcome -/
example : Applies {} (.closure (.mk ⟨[], none⟩ [] [.call (.prim (.int 5) none) [.sym "zz" (some (1, 4))] none]) 0) [] 0
    (.error (.unbound, some (1, 4))) (({} : Store).newFrame (some 0)).2 :=
  tail_nonprocedure_order (ra := .error (.unbound, some (1, 4))) rfl
    (AppliesScheme.intro_ok rfl EvalsDefs.nil (EvalsBody.last EvalsTail.call))
    (Evals.prim rfl) (EvalsArgs.cons_err (Evals.sym_unbound rfl)) rfl

/-! ## 2. the non-tail path (`eval_expression` on a call) -/

/-- NOT IN TAIL POSITION. The operator of the call expression evaluates to `fv`, leaving `σ₁`; the
operands are evaluated from `σ₁` left to right up to the first failing one, with result `ra` — the
values, or that operand's error — and store `σ₂`; `fv` is not a procedure. Then the call is
`nonProcedure`, located at the operator, IN BOTH CASES (here the procedure test comes before the
look at the operands' result), and the store of the error is `σ₂`: the operands have been
evaluated, their effects are kept. This is the outcome of every run of `evalExpr` with enough
fuel. -/
theorem direct_nonprocedure_after_operands {σ ρ f args l fv σ₁ ra σ₂}
    (hf : Evals σ ρ f (.ok fv) σ₁) (hargs : EvalsArgs σ₁ ρ args ra σ₂) (hp : procArity fv = none) :
    Evals σ ρ (.call f args l) (.error (.nonProcedure, f.loc)) σ₂ ∧
    ∀ n r σ', evalExpr n σ ρ (.call f args l) = (r, σ') → NotFuel r →
      r = .error (.nonProcedure, f.loc) ∧ σ' = σ₂ := by
  have h := C08.fault_nonprocedure_direct (l := l) hf hargs hp
  exact ⟨h, fun n r σ' hrun hr => h.run_eq hrun hr⟩

/-- `(5 (set! e 1))` at top level: operator, then the operand -/
example : ∃ σ₂, Evals σe 0 (.prim (.int 5) (some (1, 2))) (.ok (.num (.int 5))) σe ∧
    EvalsArgs σe 0 [.assign "e" (.prim (.int 1) none) none] (.ok [.void]) σ₂ ∧
    procArity (.num (.int 5)) = none :=
  ⟨_, Evals.prim rfl, EvalsArgs.cons (Evals.assign (Evals.prim rfl) rfl) EvalsArgs.nil, rfl⟩

/-- … and `(5 (set! e 1) zz)`: the first operand is evaluated, the second fails; the call is still
`nonProcedure` and the assignment is in the error store -/
example : ∃ σ₂, Evals σe 0 (.call (.prim (.int 5) (some (1, 2)))
      [.assign "e" (.prim (.int 1) none) none, .sym "zz" none] none) (.error (.nonProcedure, some (1, 2))) σ₂ ∧
    σ₂.lookup 0 "e" = some (.num (.int 1)) :=
  ⟨_, (direct_nonprocedure_after_operands (Evals.prim rfl)
    (EvalsArgs.cons_tail_err (Evals.assign (Evals.prim rfl) rfl) (EvalsArgs.cons_err (Evals.sym_unbound rfl))) rfl).1,
    rfl⟩

/-! ## 3. a call expression whose callee ends in such a tail call -/

/-- THE CALL EXPRESSION AROUND IT. `(g gargs…)` where `g` evaluates to a user procedure accepting
the arguments, whose body (run one activation deeper, from `enter σb`) hands back the pending call
`(f targs…)` with a non-procedure operator and operands that all evaluate (to `σ₂`): the call
expression is `nonProcedure` at `f`'s location and its store is `σ₂` with the activation closed
(`leave` only restores the depth counter): the operands' effects reach the caller. -/
theorem call_of_tail_nonprocedure {σ ρ g gargs l lam cenv σa gvs σb f targs tenv σ₀ fv σ₁ vs σ₂}
    (hg : Evals σ ρ g (.ok (.closure lam cenv)) σa) (hgargs : EvalsArgs σa ρ gargs (.ok gvs) σb)
    (ha : arityOk lam.formals.fixed.length lam.formals.rest.isSome gvs.length = true)
    (hs : AppliesScheme (enter σb) lam cenv gvs (.ok (.tailCall f targs tenv)) σ₀)
    (hf : Evals σ₀ tenv f (.ok fv) σ₁) (hargs : EvalsArgs σ₁ tenv targs (.ok vs) σ₂)
    (hp : procArity fv = none) :
    Evals σ ρ (.call g gargs l) (.error (.nonProcedure, f.loc)) (leave σ₂) ∧
    (leave σ₂).frames = σ₂.frames ∧ (leave σ₂).vecs = σ₂.vecs ∧ (leave σ₂).out = σ₂.out :=
  ⟨(C08.error_propagates_direct_call hg hgargs rfl
      (tail_nonprocedure_after_operands (env := ρ) ha hs hf hargs hp).1).2, rfl, rfl, rfl⟩

/-! ## 4. a concrete effect: an assignment among the operands is visible in the error store -/

/-- the operand `(set! x e)` of a call whose operator is not a procedure — `e` evaluates to `v`
(`he`), `x` is bound (`hset`: the assignment succeeds, leaving `σ₂`) —: on BOTH paths the error is
`nonProcedure` in the store `σ₂`, and in `σ₂` the variable `x`, looked up from the frame of the
call, has the NEW value `v`. -/
theorem assignment_operand_visible {ρ f x e lx fv v} {σ₀ σ₁ σe' σ₂ : Store}
    (hf : Evals σ₀ ρ f (.ok fv) σ₁) (hp : procArity fv = none)
    (he : Evals σ₁ ρ e (.ok v) σe') (hset : σe'.set ρ x v = (true, σ₂)) :
    σ₂.lookup ρ x = some v ∧
    (∀ l, Evals σ₀ ρ (.call f [.assign x e lx] l) (.error (.nonProcedure, f.loc)) σ₂) ∧
    (∀ σ lam cenv args env,
      arityOk lam.formals.fixed.length lam.formals.rest.isSome args.length = true →
      AppliesScheme σ lam cenv args (.ok (.tailCall f [.assign x e lx] ρ)) σ₀ →
      Applies σ (.closure lam cenv) args env (.error (.nonProcedure, f.loc)) σ₂) := by
  have hargs : EvalsArgs σ₁ ρ [.assign x e lx] (.ok [.void]) σ₂ :=
    EvalsArgs.cons (Evals.assign he hset) EvalsArgs.nil
  exact ⟨((Store.lookup_after_set hset ρ x).2.1 ⟨rfl, rfl⟩),
    fun l => (direct_nonprocedure_after_operands (l := l) hf hargs hp).1,
    fun σ lam cenv args env ha hs => (tail_nonprocedure_after_operands (env := env) ha hs hf hargs hp).1⟩

example : ∃ σ₂, Evals σe 0 (.prim (.int 1) none) (.ok (.num (.int 1))) σe ∧
    σe.set 0 "e" (.num (.int 1)) = (true, σ₂) := ⟨_, Evals.prim rfl, rfl⟩

/-- CLOSED EXAMPLE, tail position: `e` is `0`; `((lambda () (5 (set! e 1))))`'s trampoline run
stops with `nonProcedure` at the `5`, and in the store of the error `e` is `1` (seen from the root
frame), while before the run it was `0`. -/
example : ∃ σ', Applies σe (.closure badLam 0) [] 0 (.error (.nonProcedure, some (1, 2))) σ' ∧
    σ'.lookup 0 "e" = some (.num (.int 1)) ∧ σe.lookup 0 "e" = some (.num (.int 0)) :=
  ⟨_, (tail_nonprocedure_after_operands rfl
      (AppliesScheme.intro_ok rfl EvalsDefs.nil (EvalsBody.last EvalsTail.call))
      (Evals.prim rfl) (EvalsArgs.cons (Evals.assign (Evals.prim rfl) rfl) EvalsArgs.nil) rfl).1,
    rfl, rfl⟩

/-- CLOSED EXAMPLE, the same as a call expression evaluated at top level: `((lambda () (5 (set! e 1))))` -/
example : ∃ σ', Evals σe 0 (.call (.lambda badLam none) [] none) (.error (.nonProcedure, some (1, 2))) σ' ∧
    σ'.lookup 0 "e" = some (.num (.int 1)) :=
  ⟨_, (call_of_tail_nonprocedure Evals.lambda EvalsArgs.nil rfl
      (AppliesScheme.intro_ok rfl EvalsDefs.nil (EvalsBody.last EvalsTail.call))
      (Evals.prim rfl) (EvalsArgs.cons (Evals.assign (Evals.prim rfl) rfl) EvalsArgs.nil) rfl).1,
    rfl⟩

/-- CLOSED EXAMPLE, not in tail position: `(5 (set! e 1))` -/
example : ∃ σ', Evals σe 0 badCall (.error (.nonProcedure, some (1, 2))) σ' ∧
    σ'.lookup 0 "e" = some (.num (.int 1)) :=
  ⟨_, (direct_nonprocedure_after_operands (Evals.prim rfl)
      (EvalsArgs.cons (Evals.assign (Evals.prim rfl) rfl) EvalsArgs.nil) rfl).1, rfl⟩

end Ruschm.C08Order

/-
Abstract store for property C03 ("bindings and vectors are shared by reference").

This is the *specification* the model's `Store` (`RuschmModel/Value.lean`) is compared with in
`RuschmProofs/C03More.lean`. It is deliberately naive - the "objects with identity" picture of
R7RS, with no arrays of frames, no association lists of values, no fuel:

* a **binding** is a location with an abstract id (`BId`, handed out by a counter); the binding
  store `vals` is a function from binding ids to values;
* a **vector** is an object with an abstract id (`OId`, handed out by a second counter); the object
  store `vecs` is a finite map from object ids to (mutable flag, list of items);
* a **scope** (one per `newFrame`/procedure call) has its own names - a list of (name, binding id) -
  and remembers the scopes around it, innermost first; the **environment** of a scope is the list
  of (name, binding id) obtained by putting these lists one after the other, innermost first, and a
  name means the FIRST binding id the environment lists for it;
* values are the model's `Value`s: a closure value carries the id of its scope, a vector value
  the id of its object (both kinds of ids are 0, 1, 2, … in order of creation).

Operations: `define`, `assign` (`set!`), `lookup`, `extend` (a new scope), `allocVec`, `vecRef`,
`vecSet`, `makeVector`, with their error outcomes. Histories: `Op`, `step`, `runSpec`.
-/
import RuschmModel.Value

namespace Ruschm.AbsStore

/-- abstract binding id -/
abbrev BId := Nat
/-- abstract object id of a vector -/
abbrev OId := Nat
/-- an environment: (name, binding id), innermost first; the first entry for a name counts -/
abbrev Env := List (String × BId)

/-- a scope: the scopes around it (innermost first) and the names it defines itself -/
structure Scope where
  outer : List Nat
  names : Env

/-- the abstract state -/
structure State where
  /-- binding id ↦ value (ids `≥ nextB` are not in use) -/
  vals : BId → Value := fun _ => .void
  nextB : Nat := 0
  /-- object id ⇀ (mutable?, items) -/
  vecs : OId → Option (Bool × List Value) := fun _ => none
  nextV : Nat := 0
  /-- scope id ↦ scope -/
  scopes : List Scope := []

/-- point update of a map -/
def upd {α : Type} (m : Nat → α) (i : Nat) (a : α) : Nat → α := fun j => if j = i then a else m j

/-- the state of a fresh interpreter: one (global) scope without names, no vectors -/
def init : State := { scopes := [{ outer := [], names := [] }] }

/-- scope `ρ` and the scopes around it, innermost first (`[]` if there is no scope `ρ`) -/
def scopeChain (s : State) (ρ : Nat) : List Nat :=
  match s.scopes[ρ]? with
  | some sc => ρ :: sc.outer
  | none => []

/-- the names scope `r` defines itself -/
def ownNames (s : State) (r : Nat) : Env :=
  match s.scopes[r]? with
  | some sc => sc.names
  | none => []

/-- the environment of scope `ρ`: its own names, then those of the scopes around it -/
def env (s : State) (ρ : Nat) : Env := (scopeChain s ρ).flatMap (ownNames s)

/-! ## operations on bindings -/

/-- variable reference: the value of the binding the environment gives for `x` -/
def lookup (s : State) (ρ : Nat) (x : String) : Except Err Value :=
  match (env s ρ).lookup x with
  | some b => .ok (s.vals b)
  | none => .error .unbound

/-- `set!`: overwrite the binding the environment gives for `x`; `unbound` (nothing changes) if
there is none -/
def assign (s : State) (ρ : Nat) (x : String) (v : Value) : Except Err Unit × State :=
  match (env s ρ).lookup x with
  | some b => (.ok (), { s with vals := upd s.vals b v })
  | none => (.error .unbound, s)

/-- `define` in scope `ρ`: a name the scope already defines ITSELF keeps its binding, which gets the
new value; otherwise a fresh binding is made and the scope gets the name - whatever the scopes
around it define. (No scope `ρ`: nothing happens.) -/
def define (s : State) (ρ : Nat) (x : String) (v : Value) : State :=
  match s.scopes[ρ]? with
  | none => s
  | some sc =>
    match sc.names.lookup x with
    | some b => { s with vals := upd s.vals b v }
    | none =>
      { s with vals := upd s.vals s.nextB v, nextB := s.nextB + 1,
               scopes := s.scopes.set ρ { sc with names := (x, s.nextB) :: sc.names } }

/-- a new scope inside `parent` (`none`, or a scope that does not exist: a scope with nothing
around it). Returns the id of the new scope. -/
def extend (s : State) (parent : Option Nat) : Nat × State :=
  (s.scopes.length,
   { s with scopes := s.scopes ++
      [{ outer := match parent with
                  | some p => scopeChain s p
                  | none => [],
         names := [] }] })

/-! ## operations on vectors -/

/-- a new vector object. Returns its id. -/
def allocVec (s : State) (m : Bool) (items : List Value) : OId × State :=
  (s.nextV, { s with vecs := upd s.vecs s.nextV (some (m, items)), nextV := s.nextV + 1 })

/-- the error for a vector value whose object does not exist (cannot arise in the Rust code, where
a reference keeps its target alive; the model reports it as a panic of this name) -/
def dangling : Err := .panic "dangling vector"

/-- read item `n` of object `id` -/
def vecRef (s : State) (id : OId) (n : Int) : Except Err Value :=
  match s.vecs id with
  | none => .error dangling
  | some (_, items) =>
    if n < 0 then .error .vectorIndex
    else match items[n.toNat]? with
      | some x => .ok x
      | none => .error .vectorIndex

/-- write item `n` of object `id`: `immutable` for an immutable object, `vectorIndex` outside the
range; in both cases nothing changes -/
def vecSet (s : State) (id : OId) (n : Int) (obj : Value) : Except Err Unit × State :=
  match s.vecs id with
  | none => (.error dangling, s)
  | some (m, items) =>
    if m = false then (.error .immutable, s)
    else if n < 0 ∨ items.length ≤ n.toNat then (.error .vectorIndex, s)
    else (.ok (), { s with vecs := upd s.vecs id (some (m, items.set n.toNat obj)) })

/-- `(vector-ref v k)` on values: both operands are type-checked first -/
def vecRefV (s : State) (v k : Value) : Except Err Value :=
  match v, k with
  | .vec id, .num (.int n) => vecRef s id n
  | _, _ => .error .type

/-- `(vector-set! v k obj)` on values -/
def vecSetV (s : State) (v k obj : Value) : Except Err Unit × State :=
  match v, k with
  | .vec id, .num (.int n) => vecSet s id n obj
  | _, _ => (.error .type, s)

/-- `(make-vector k fill)` on values: ONE value `fill` in every slot (a vector given as `fill` is
not copied: every slot refers to the same object) -/
def makeVectorV (s : State) (k fill : Value) : Except Err OId × State :=
  match k with
  | .num (.int n) =>
    if n < 0 then (.error .negativeLength, s)
    else
      let (id, s') := allocVec s true (List.replicate n.toNat fill)
      (.ok id, s')
  | _ => (.error .type, s)

/-! ## histories -/

/-- what one operation of a history shows -/
inductive Out where
  | done
  | val (v : Value)
  | frame (id : Nat)
  | err (e : Err)
  /-- the operation refers to the result of an operation that did not produce a value -/
  | illFormed

/-- an operand of an operation -/
inductive Src where
  /-- a given value (it may mention any scope or object id) -/
  | const (v : Value)
  /-- the value of variable `x` seen from scope `ρ` -/
  | var (ρ : Nat) (x : String)
  /-- the value the `k`-th operation of the history produced (0 = the first) -/
  | res (k : Nat)

/-- the operations of a history. Scope ids are those the history's `newFrame`/`callFrame` operations
show (0 is the global scope). -/
inductive Op where
  /-- a new scope inside `parent` -/
  | newFrame (parent : Option Nat)
  /-- the scope made for a call of the closure `f`: a new scope inside the closure's scope -/
  | callFrame (f : Src)
  /-- `(define x v)` evaluated in scope `ρ` -/
  | define (ρ : Nat) (x : String) (v : Src)
  /-- `(set! x v)` evaluated in scope `ρ` -/
  | assign (ρ : Nat) (x : String) (v : Src)
  /-- probe: `x` evaluated in scope `ρ` -/
  | lookup (ρ : Nat) (x : String)
  /-- a new vector: `(vector item …)` (`m = true`) or a vector literal (`m = false`) -/
  | allocVec (m : Bool) (items : List Src)
  /-- `(make-vector k fill)` -/
  | makeVector (k fill : Src)
  /-- probe: `(vector-ref v k)` -/
  | vecRef (v k : Src)
  /-- `(vector-set! v k obj)` -/
  | vecSet (v k obj : Src)

/-- the value of an earlier result -/
def resValue (outs : List Out) (k : Nat) : Except Out Value :=
  match outs[k]? with
  | some (.val v) => .ok v
  | _ => .error .illFormed

/-- evaluate an operand; the error is what the operation then shows -/
def evalSrc (s : State) (outs : List Out) : Src → Except Out Value
  | .const v => .ok v
  | .var ρ x =>
    match lookup s ρ x with
    | .ok v => .ok v
    | .error e => .error (.err e)
  | .res k => resValue outs k

/-- evaluate operands left to right; the first error wins -/
def evalSrcs (s : State) (outs : List Out) : List Src → Except Out (List Value)
  | [] => .ok []
  | a :: as =>
    match evalSrc s outs a with
    | .error o => .error o
    | .ok v =>
      match evalSrcs s outs as with
      | .error o => .error o
      | .ok vs => .ok (v :: vs)

/-- one operation: what it shows and the state after it. An operation whose operand fails shows
that failure and changes nothing. -/
def step (s : State) (outs : List Out) : Op → Out × State
  | .newFrame p =>
    let (id, s') := extend s p
    (.frame id, s')
  | .callFrame f =>
    match evalSrc s outs f with
    | .error o => (o, s)
    | .ok (.closure _ scope) =>
      let (id, s') := extend s (some scope)
      (.frame id, s')
    | .ok _ => (.err .nonProcedure, s)
  | .define ρ x e =>
    match evalSrc s outs e with
    | .error o => (o, s)
    | .ok v => (.done, define s ρ x v)
  | .assign ρ x e =>
    match evalSrc s outs e with
    | .error o => (o, s)
    | .ok v =>
      match assign s ρ x v with
      | (.ok _, s') => (.done, s')
      | (.error e, s') => (.err e, s')
  | .lookup ρ x =>
    match lookup s ρ x with
    | .ok v => (.val v, s)
    | .error e => (.err e, s)
  | .allocVec m items =>
    match evalSrcs s outs items with
    | .error o => (o, s)
    | .ok vs =>
      let (id, s') := allocVec s m vs
      (.val (.vec id), s')
  | .makeVector k fill =>
    match evalSrc s outs k with
    | .error o => (o, s)
    | .ok kv =>
      match evalSrc s outs fill with
      | .error o => (o, s)
      | .ok fv =>
        match makeVectorV s kv fv with
        | (.ok id, s') => (.val (.vec id), s')
        | (.error e, s') => (.err e, s')
  | .vecRef v k =>
    match evalSrc s outs v with
    | .error o => (o, s)
    | .ok vv =>
      match evalSrc s outs k with
      | .error o => (o, s)
      | .ok kv =>
        match vecRefV s vv kv with
        | .ok x => (.val x, s)
        | .error e => (.err e, s)
  | .vecSet v k obj =>
    match evalSrc s outs v with
    | .error o => (o, s)
    | .ok vv =>
      match evalSrc s outs k with
      | .error o => (o, s)
      | .ok kv =>
        match evalSrc s outs obj with
        | .error o => (o, s)
        | .ok ov =>
          match vecSetV s vv kv ov with
          | (.ok _, s') => (.done, s')
          | (.error e, s') => (.err e, s')

/-- run a history from a state, appending what each operation shows to `outs` -/
def runFrom (s : State) (outs : List Out) : List Op → List Out × State
  | [] => (outs, s)
  | op :: ops => runFrom (step s outs op).2 (outs ++ [(step s outs op).1]) ops

/-- a history run by a fresh interpreter -/
def runSpec (ops : List Op) : List Out × State := runFrom init [] ops

/-- the observation: what the operations showed, in order -/
def observe {α : Type} (r : List Out × α) : List Out := r.1

end Ruschm.AbsStore

/-
THE OUTPUT BUFFER IS A WRITE-ONLY LOG (helper lemmas for `RuschmProofs/C18Full.lean`).

`Store.out` is pushed onto by `display` and `newline` (`RuschmModel/Prim.lean`) and is read by nothing in
`RuschmModel/Eval.lean` and `RuschmModel/Interp.lean`.  Stated as an equation that can be rewritten with:
with the text `o` BELOW everything in the buffer (`Store.addOut σ o`: `out := σ.out ++ o`, the buffer is most
recent first) every evaluator function returns the same outcome and the same store with `o` still below
(`AO o`), and likewise for the interpreter functions on `State` (`State.addOut`, `IAO`).  Proved by the
mutual induction on fuel of `UnlocLemmas.lean` / `UnlocInterp.lean` (`OBAt`, `IOBAt`).

From the equation: the relation `SameButOut` (`sameButOut_of_addOut`): running from `σ` and from
`σ.withOut o'` (ANY other buffer) gives the same outcome and the same store but for the buffers, which
are `pushed ++ σ.out` and `pushed ++ o'` for the same `pushed`.
-/
import RuschmProofs.LibLemmas

set_option linter.unusedSimpArgs false
set_option linter.unusedVariables false
set_option linter.unusedSectionVars false

namespace Ruschm
open Interp Eval Prim

/-! ## vocabulary -/

/-- the store with the text `o` below everything in the output buffer (`out` is most recent first) -/
def Store.addOut (σ : Store) (o : List String) : Store := { σ with out := σ.out ++ o }

/-- the store with the output buffer replaced -/
def Store.withOut (σ : Store) (o : List String) : Store := { σ with out := o }

/-- a result whose store has `o` below everything in the output buffer -/
def AO {ε α : Type} (o : List String) (r : Except ε α × Store) : Except ε α × Store := (r.1, r.2.addOut o)

def Interp.State.addOut (st : State) (o : List String) : State := { st with store := st.store.addOut o }
def Interp.State.withOut (st : State) (o : List String) : State := { st with store := st.store.withOut o }

def IAO {ε α : Type} (o : List String) (r : Except ε α × State) : Except ε α × State := (r.1, r.2.addOut o)

/-- THE SAME BUT FOR THE OUTPUT BUFFER, WHICH LOGGED THE SAME TEXT.  `r` is a result of a run that started
with the buffer `o`, `r'` of a run that started with the buffer `o'`: same outcome (value or error), same
final store in every component other than `out`, and there is ONE list `pushed` — what the run wrote, most
recent first — such that the final buffers are `pushed ++ o` and `pushed ++ o'`. -/
def SameButOut {ε α : Type} (o o' : List String) (r r' : Except ε α × Store) : Prop :=
  ∃ pushed : List String, r'.1 = r.1 ∧ r.2.out = pushed ++ o ∧ r'.2 = r.2.withOut (pushed ++ o')

/-- `SameButOut` for results that carry an interpreter state -/
def SameButOutS {ε α : Type} (o o' : List String) (r r' : Except ε α × State) : Prop :=
  ∃ pushed : List String, r'.1 = r.1 ∧ r.2.store.out = pushed ++ o ∧ r'.2 = r.2.withOut (pushed ++ o')

@[simp] theorem AO_ok {ε α : Type} (o : List String) (a : α) (σ : Store) :
    AO o ((.ok a, σ) : Except ε α × Store) = (.ok a, σ.addOut o) := rfl
@[simp] theorem AO_error {ε α : Type} (o : List String) (e : ε) (σ : Store) :
    AO o ((.error e, σ) : Except ε α × Store) = (.error e, σ.addOut o) := rfl
@[simp] theorem IAO_ok {ε α : Type} (o : List String) (a : α) (st : State) :
    IAO o ((.ok a, st) : Except ε α × State) = (.ok a, st.addOut o) := rfl
@[simp] theorem IAO_error {ε α : Type} (o : List String) (e : ε) (st : State) :
    IAO o ((.error e, st) : Except ε α × State) = (.error e, st.addOut o) := rfl

@[simp] theorem Store.addOut_frames (σ : Store) (o : List String) : (σ.addOut o).frames = σ.frames := rfl
@[simp] theorem Store.addOut_vecs (σ : Store) (o : List String) : (σ.addOut o).vecs = σ.vecs := rfl
@[simp] theorem Store.addOut_out (σ : Store) (o : List String) : (σ.addOut o).out = σ.out ++ o := rfl
@[simp] theorem Store.addOut_ticks (σ : Store) (o : List String) : (σ.addOut o).ticks = σ.ticks := rfl
@[simp] theorem Store.addOut_depth (σ : Store) (o : List String) : (σ.addOut o).depth = σ.depth := rfl
@[simp] theorem Store.addOut_maxDepth (σ : Store) (o : List String) : (σ.addOut o).maxDepth = σ.maxDepth := rfl

theorem Store.addOut_nil (σ : Store) : σ.addOut [] = σ := by
  cases σ
  simp [Store.addOut]

theorem Store.withOut_nil_addOut (σ : Store) (o : List String) : (σ.withOut []).addOut o = σ.withOut o := rfl

theorem Store.withOut_out (σ : Store) : σ.withOut σ.out = σ := rfl

@[simp] theorem Interp.State.addOut_store (st : State) (o : List String) : (st.addOut o).store = st.store.addOut o := rfl
@[simp] theorem Interp.State.addOut_env (st : State) (o : List String) : (st.addOut o).env = st.env := rfl
@[simp] theorem Interp.State.addOut_syn (st : State) (o : List String) : (st.addOut o).syn = st.syn := rfl
@[simp] theorem Interp.State.addOut_factories (st : State) (o : List String) : (st.addOut o).factories = st.factories := rfl
@[simp] theorem Interp.State.addOut_instances (st : State) (o : List String) : (st.addOut o).instances = st.instances := rfl
@[simp] theorem Interp.State.addOut_inProgress (st : State) (o : List String) : (st.addOut o).inProgress = st.inProgress := rfl
@[simp] theorem Interp.State.addOut_importEnd (st : State) (o : List String) : (st.addOut o).importEnd = st.importEnd := rfl
@[simp] theorem Interp.State.addOut_files (st : State) (o : List String) : (st.addOut o).files = st.files := rfl
@[simp] theorem Interp.State.addOut_dir (st : State) (o : List String) : (st.addOut o).dir = st.dir := rfl

theorem Interp.State.withOut_nil_addOut (st : State) (o : List String) : (st.withOut []).addOut o = st.withOut o := rfl
theorem Interp.State.withOut_out (st : State) : st.withOut st.store.out = st := rfl

/-! ## from the equation to the relation -/

/-- a store transformer that commutes with `addOut` relates the runs from `σ` and from `σ.withOut o'` -/
theorem sameButOut_of_addOut {ε α : Type} (f : Store → Except ε α × Store)
    (h : ∀ σ o, f (σ.addOut o) = AO o (f σ)) (σ : Store) (o' : List String) :
    SameButOut σ.out o' (f σ) (f (σ.withOut o')) := by
  refine ⟨(f (σ.withOut [])).2.out, ?_, ?_, ?_⟩
  · rw [← Store.withOut_nil_addOut σ o', h]
    conv => rhs; rw [← Store.withOut_out σ, ← Store.withOut_nil_addOut σ σ.out, h]
    rfl
  · conv => lhs; rw [← Store.withOut_out σ, ← Store.withOut_nil_addOut σ σ.out, h]
    rfl
  · rw [← Store.withOut_nil_addOut σ o', h]
    conv => rhs; rw [← Store.withOut_out σ, ← Store.withOut_nil_addOut σ σ.out, h]
    rfl

theorem sameButOutS_of_addOut {ε α : Type} (f : State → Except ε α × State)
    (h : ∀ st o, f (st.addOut o) = IAO o (f st)) (st : State) (o' : List String) :
    SameButOutS st.store.out o' (f st) (f (st.withOut o')) := by
  refine ⟨(f (st.withOut [])).2.store.out, ?_, ?_, ?_⟩
  · rw [← State.withOut_nil_addOut st o', h]
    conv => rhs; rw [← State.withOut_out st, ← State.withOut_nil_addOut st st.store.out, h]
    rfl
  · conv => lhs; rw [← State.withOut_out st, ← State.withOut_nil_addOut st st.store.out, h]
    rfl
  · rw [← State.withOut_nil_addOut st o', h]
    conv => rhs; rw [← State.withOut_out st, ← State.withOut_nil_addOut st st.store.out, h]
    rfl

/-! ## the store operations -/

theorem Store.lookupAux_frames {σ σ' : Store} (h : σ'.frames = σ.frames) : ∀ (n ρ : Nat) (k : String),
    σ'.lookupAux n ρ k = σ.lookupAux n ρ k
  | 0, _, _ => rfl
  | n + 1, ρ, k => by
    simp only [Store.lookupAux, h]
    cases σ.frames[ρ]? with
    | none => rfl
    | some f =>
      simp only
      cases f.defs.lookup k with
      | some v => rfl
      | none =>
        simp only
        cases f.parent with
        | none => rfl
        | some p =>
          simp only
          split
          · exact Store.lookupAux_frames h n p k
          · rfl

theorem Store.resolveAux_frames {σ σ' : Store} (h : σ'.frames = σ.frames) : ∀ (n ρ : Nat) (k : String),
    σ'.resolveAux n ρ k = σ.resolveAux n ρ k
  | 0, _, _ => rfl
  | n + 1, ρ, k => by
    simp only [Store.resolveAux, h]
    cases σ.frames[ρ]? with
    | none => rfl
    | some f =>
      simp only
      split
      · rfl
      · cases f.parent with
        | none => rfl
        | some p =>
          simp only
          split
          · exact Store.resolveAux_frames h n p k
          · rfl

@[simp] theorem Store.addOut_lookup (σ : Store) (o : List String) (ρ : Nat) (k : String) :
    (σ.addOut o).lookup ρ k = σ.lookup ρ k :=
  Store.lookupAux_frames (σ := σ) (σ' := σ.addOut o) rfl _ _ _

@[simp] theorem Store.addOut_resolve (σ : Store) (o : List String) (ρ : Nat) (k : String) :
    (σ.addOut o).resolve ρ k = σ.resolve ρ k :=
  Store.resolveAux_frames (σ := σ) (σ' := σ.addOut o) rfl _ _ _

theorem Store.addOut_define (σ : Store) (o : List String) (ρ : Nat) (k : String) (v : Value) :
    (σ.addOut o).define ρ k v = (σ.define ρ k v).addOut o := by
  by_cases h : ρ < σ.frames.size
  · have h' : ρ < (σ.addOut o).frames.size := h
    rw [Store.define, Store.define, dif_pos h', dif_pos h]; rfl
  · have h' : ¬ ρ < (σ.addOut o).frames.size := h
    rw [Store.define, Store.define, dif_neg h', dif_neg h]

theorem Store.addOut_set (σ : Store) (o : List String) (ρ : Nat) (k : String) (v : Value) :
    (σ.addOut o).set ρ k v = ((σ.set ρ k v).1, (σ.set ρ k v).2.addOut o) := by
  unfold Store.set
  rw [Store.addOut_resolve]
  cases σ.resolve ρ k with
  | none => rfl
  | some r => simp only [Store.addOut_define]

theorem Store.addOut_newFrame (σ : Store) (o : List String) (p : Option Nat) :
    (σ.addOut o).newFrame p = ((σ.newFrame p).1, (σ.newFrame p).2.addOut o) := rfl

theorem Store.addOut_allocVec (σ : Store) (o : List String) (m : Bool) (items : List Value) :
    (σ.addOut o).allocVec m items = ((σ.allocVec m items).1, (σ.allocVec m items).2.addOut o) := rfl

theorem addOut_enter (σ : Store) (o : List String) : enter (σ.addOut o) = (enter σ).addOut o := rfl
theorem addOut_leave (σ : Store) (o : List String) : leave (σ.addOut o) = (leave σ).addOut o := rfl

theorem foldl_define_addOut (ρ : Nat) (defs : List (String × Value)) : ∀ (σ : Store) (o : List String),
    defs.foldl (fun σ p => σ.define ρ p.1 p.2) (σ.addOut o) =
      (defs.foldl (fun σ p => σ.define ρ p.1 p.2) σ).addOut o := by
  induction defs with
  | nil => intro σ o; rfl
  | cons p defs ih =>
    intro σ o
    simp only [List.foldl_cons, Store.addOut_define, ih]

/-! ## functions that read the vectors only -/

theorem display_vecs {σ σ' : Store} (h : σ'.vecs = σ.vecs) : ∀ (n : Nat),
    display σ' n = display σ n ∧ displayTail σ' n = displayTail σ n := by
  intro n
  induction n with
  | zero => exact ⟨funext fun v => by unfold display; rfl, funext fun v => by unfold displayTail; rfl⟩
  | succ n ih =>
    obtain ⟨e1, e2⟩ := ih
    refine ⟨funext fun v => ?_, funext fun v => ?_⟩
    · rw [display.eq_def, display.eq_def]
      try dsimp only
      simp only [h, e1, e2]
    · rw [displayTail.eq_def, displayTail.eq_def]
      try dsimp only
      simp only [h, e1, e2]

@[simp] theorem display_addOut (σ : Store) (o : List String) (n : Nat) (v : Value) :
    display (σ.addOut o) n v = display σ n v :=
  congrFun (display_vecs (σ := σ) (σ' := σ.addOut o) rfl n).1 v

theorem canon_vecs {σ σ' : Store} (h : σ'.vecs = σ.vecs) : ∀ (n : Nat),
    canon σ' n = canon σ n ∧ canonTail σ' n = canonTail σ n := by
  intro n
  induction n with
  | zero => exact ⟨funext fun v => by unfold canon; rfl, funext fun v => by unfold canonTail; rfl⟩
  | succ n ih =>
    obtain ⟨e1, e2⟩ := ih
    refine ⟨funext fun v => ?_, funext fun v => ?_⟩
    · rw [canon.eq_def, canon.eq_def]
      try dsimp only
      simp only [h, e1, e2]
    · rw [canonTail.eq_def, canonTail.eq_def]
      try dsimp only
      simp only [h, e1, e2]

@[simp] theorem canon_addOut (σ : Store) (o : List String) (n : Nat) (v : Value) :
    canon (σ.addOut o) n v = canon σ n v :=
  congrFun (canon_vecs (σ := σ) (σ' := σ.addOut o) rfl n).1 v

theorem derivedEq_vecs {σ σ' : Store} (h : σ'.vecs = σ.vecs) : ∀ (n : Nat),
    derivedEq σ' n = derivedEq σ n ∧ derivedEqList σ' n = derivedEqList σ n := by
  intro n
  induction n with
  | zero =>
    exact ⟨funext fun a => funext fun b => by unfold derivedEq; rfl,
      funext fun a => funext fun b => by unfold derivedEqList; rfl⟩
  | succ n ih =>
    obtain ⟨e1, e2⟩ := ih
    refine ⟨funext fun a => funext fun b => ?_, funext fun a => funext fun b => ?_⟩
    · rw [derivedEq.eq_def, derivedEq.eq_def]
      try dsimp only
      simp only [h, e1, e2]
    · cases a <;> cases b <;> simp only [derivedEqList, e1, e2]

@[simp] theorem derivedEq_addOut (σ : Store) (o : List String) (n : Nat) (a b : Value) :
    derivedEq (σ.addOut o) n a b = derivedEq σ n a b :=
  congrFun (congrFun (derivedEq_vecs (σ := σ) (σ' := σ.addOut o) rfl n).1 a) b

/-! ## literals, parameters -/

mutual
theorem readLiteral_addOut (o : List String) : ∀ (d : Datum) (σ : Store),
    readLiteral (σ.addOut o) d = AO o (readLiteral σ d)
  | .prim p _, σ => by
    simp only [readLiteral]
    cases evalPrim p <;> rfl
  | .sym _ _, σ => rfl
  | .nil _, σ => rfl
  | .pair a d _, σ => by
    simp only [readLiteral, readLiteral_addOut o a σ]
    rcases readLiteral σ a with ⟨_ | va, σ1⟩
    · rfl
    · simp only [AO_ok, readLiteral_addOut o d σ1]
      rcases readLiteral σ1 d with ⟨_ | vd, σ2⟩ <;> rfl
  | .vec xs _, σ => by
    simp only [readLiteral, readLiterals_addOut o xs σ]
    rcases readLiterals σ xs with ⟨_ | vs, σ1⟩ <;> rfl
theorem readLiterals_addOut (o : List String) : ∀ (ds : List Datum) (σ : Store),
    readLiterals (σ.addOut o) ds = AO o (readLiterals σ ds)
  | [], σ => rfl
  | x :: xs, σ => by
    simp only [readLiterals, readLiteral_addOut o x σ]
    rcases readLiteral σ x with ⟨_ | v, σ1⟩
    · rfl
    · simp only [AO_ok, readLiterals_addOut o xs σ1]
      rcases readLiterals σ1 xs with ⟨_ | vs, σ2⟩ <;> rfl
end

theorem bindFixed_addOut (o : List String) : ∀ (names : List String) (args : List Value) (σ : Store) (ρ : Nat),
    bindFixed (σ.addOut o) ρ names args = AO o (bindFixed σ ρ names args)
  | [], _, _, _ => rfl
  | _ :: _, [], _, _ => rfl
  | f :: fs, a :: as, σ, ρ => by
    simp only [bindFixed, Store.addOut_define]
    exact bindFixed_addOut o fs as _ ρ

/-! ## the native procedures: only `display` and `newline` touch the buffer, by pushing -/

theorem lift_addOut {α} (σ : Store) (o : List String) (r : Except Err α) (k : α → Value) :
    lift (σ.addOut o) r k = AO o (lift σ r k) := by
  cases r <;> rfl

theorem num1_addOut (σ : Store) (o : List String) (args b f) :
    num1 (σ.addOut o) args b f = AO o (num1 σ args b f) := by
  unfold num1
  cases args with
  | nil => rfl
  | cons x rest =>
    simp only
    cases expectNumber x with
    | error e => rfl
    | ok n =>
      simp only
      cases f n <;> rfl

theorem num2_addOut (σ : Store) (o : List String) (args b f) :
    num2 (σ.addOut o) args b f = AO o (num2 σ args b f) := by
  unfold num2
  cases args with
  | nil => rfl
  | cons x rest =>
    cases rest with
    | nil => rfl
    | cons y more =>
      simp only
      cases expectNumber x with
      | error e => rfl
      | ok n =>
        simp only
        cases expectNumber y with
        | error e => rfl
        | ok m =>
          simp only
          cases f n m <;> rfl

/-- `newline` and `display` PUSH one string onto the buffer, whatever is in it -/
theorem applyPure_pushes (σ : Store) :
    applyPure σ .newline [] = (.ok .void, { σ with out := "\n" :: σ.out }) ∧
    ∀ x rest, applyPure σ .display (x :: rest) = (.ok .void, { σ with out := display σ 100000 x :: σ.out }) :=
  ⟨rfl, fun _ _ => rfl⟩

/-- THE BASE CASE: every native procedure gives the same result with more text below in the buffer -/
theorem applyPure_addOut (σ : Store) (o : List String) (b : Builtin) (args : List Value) :
    applyPure (σ.addOut o) b args = AO o (applyPure σ b args) := by
  cases b
  case display =>
    simp only [applyPure]
    cases args with
    | nil => rfl
    | cons x rest => simp only [display_addOut]; rfl
  case tick =>
    simp only [applyPure]
    cases args with
    | nil => rfl
    | cons x rest => simp only [canon_addOut]; rfl
  case newline => rfl
  case apply => rfl
  case vector => rfl
  case makeVector =>
    simp only [applyPure]
    cases args with
    | nil => rfl
    | cons k rest =>
      cases rest with
      | nil => rfl
      | cons fill more =>
        cases k <;> try rfl
        rename_i n
        cases n <;> try rfl
        rename_i i
        simp only
        split <;> rfl
  case vectorLength =>
    simp only [applyPure]
    cases args with
    | nil => rfl
    | cons x rest =>
      cases x <;> try rfl
      rename_i id
      simp only [Store.addOut_vecs]
      cases σ.vecs[id]? <;> rfl
  case vectorRef =>
    simp only [applyPure]
    cases args with
    | nil => rfl
    | cons v rest =>
      cases rest with
      | nil => rfl
      | cons k more =>
        cases v <;> try rfl
        rename_i id
        cases k <;> try rfl
        rename_i n
        cases n <;> try rfl
        rename_i i
        simp only [Store.addOut_vecs]
        cases σ.vecs[id]? with
        | none => rfl
        | some cell =>
          simp only
          split
          · rfl
          · cases cell.items[i.toNat]? <;> rfl
  case vectorSet =>
    simp only [applyPure]
    cases args with
    | nil => rfl
    | cons v rest =>
      cases rest with
      | nil => rfl
      | cons k more =>
        cases more with
        | nil => rfl
        | cons obj more' =>
          cases v <;> try rfl
          rename_i id
          cases k <;> try rfl
          rename_i n
          cases n <;> try rfl
          rename_i i
          simp only [Store.addOut_vecs]
          cases σ.vecs[id]? with
          | none => rfl
          | some cell =>
            simp only
            split
            · rfl
            · split
              · rfl
              · cases listSet cell.items i.toNat obj <;> rfl
  case car =>
    simp only [applyPure]
    cases args with
    | nil => rfl
    | cons x rest => cases x <;> rfl
  case cdr =>
    simp only [applyPure]
    cases args with
    | nil => rfl
    | cons x rest => cases x <;> rfl
  case eqv | eq =>
    simp only [applyPure]
    cases args with
    | nil => rfl
    | cons a rest => cases rest <;> rfl
  case cons =>
    simp only [applyPure]
    cases args with
    | nil => rfl
    | cons a rest => cases rest <;> rfl
  case isBoolean | isChar | isNumber | isString | isSymbol | isPair | isProcedure | isVector | not =>
    simp only [applyPure]
    cases args <;> rfl
  all_goals
    simp only [applyPure, realFn, realFn2, num1_addOut, num2_addOut, lift_addOut]

/-! ## the evaluator -/

structure OBAt (fuel : Nat) : Prop where
  expr : ∀ σ o ρ e, evalExpr fuel (Store.addOut σ o) ρ e = AO o (evalExpr fuel σ ρ e)
  args : ∀ σ o ρ es, evalArgs fuel (Store.addOut σ o) ρ es = AO o (evalArgs fuel σ ρ es)
  proc : ∀ σ o p args env, applyProcedure fuel (Store.addOut σ o) p args env = AO o (applyProcedure fuel σ p args env)
  loop : ∀ σ o p args env, applyLoop fuel (Store.addOut σ o) p args env = AO o (applyLoop fuel σ p args env)
  scheme : ∀ σ o lam cenv args, applyScheme fuel (Store.addOut σ o) lam cenv args = AO o (applyScheme fuel σ lam cenv args)
  defs : ∀ σ o ρ ds, evalDefs fuel (Store.addOut σ o) ρ ds = AO o (evalDefs fuel σ ρ ds)
  body : ∀ σ o ρ es, evalBody fuel (Store.addOut σ o) ρ es = AO o (evalBody fuel σ ρ es)
  tail : ∀ σ o ρ e, evalTail fuel (Store.addOut σ o) ρ e = AO o (evalTail fuel σ ρ e)

theorem obAt_zero : OBAt 0 := by
  constructor <;> intros <;>
    simp only [evalExpr, evalArgs, applyProcedure, applyLoop, applyScheme, evalDefs, evalBody, evalTail] <;> rfl

section succ
variable {fuel : Nat} (ih : OBAt fuel)
include ih

theorem ob_expr (σ o ρ e) : evalExpr (fuel + 1) (Store.addOut σ o) ρ e = AO o (evalExpr (fuel + 1) σ ρ e) := by
  cases e with
  | sym s l =>
    simp only [evalExpr, Store.addOut_lookup]
    cases σ.lookup ρ s <;> rfl
  | prim p l =>
    simp only [evalExpr]
    cases evalPrim p <;> rfl
  | assign n e l =>
    simp only [evalExpr, ih.expr]
    rcases evalExpr fuel σ ρ e with ⟨_ | v, σ1⟩
    · rfl
    · simp only [AO_ok, Store.addOut_set]
      rcases σ1.set ρ n v with ⟨_ | _, σ2⟩ <;> rfl
  | lambda lam l => simp only [evalExpr]; rfl
  | call f as l =>
    simp only [evalExpr, ih.expr]
    rcases evalExpr fuel σ ρ f with ⟨_ | first, σ1⟩
    · rfl
    · simp only [AO_ok, ih.args]
      rcases evalArgs fuel σ1 ρ as with ⟨_ | vs, σ2⟩
      · rename_i er
        cases procArity first with
        | none => obtain ⟨k, l⟩ := er; cases k <;> rfl
        | some a => rfl
      · cases procArity first with
        | none => rfl
        | some a => simp only [AO_ok, ih.proc]
  | cond t c a l =>
    simp only [evalExpr, ih.expr]
    rcases evalExpr fuel σ ρ t with ⟨_ | tv, σ1⟩
    · rfl
    · simp only [AO_ok]
      split
      · exact ih.expr _ _ _ _
      · cases a with
        | none => rfl
        | some alt => exact ih.expr _ _ _ _
  | quote d l => simp only [evalExpr, readLiteral_addOut]
  | datum d l => simp only [evalExpr, readLiteral_addOut]

theorem ob_args (σ o ρ es) : evalArgs (fuel + 1) (Store.addOut σ o) ρ es = AO o (evalArgs (fuel + 1) σ ρ es) := by
  cases es with
  | nil => simp only [evalArgs]; rfl
  | cons a as =>
    simp only [evalArgs, ih.expr]
    rcases evalExpr fuel σ ρ a with ⟨_ | v, σ1⟩
    · rfl
    · simp only [AO_ok, ih.args]
      rcases evalArgs fuel σ1 ρ as with ⟨_ | vs, σ2⟩ <;> rfl

theorem ob_proc (σ o p args env) :
    applyProcedure (fuel + 1) (Store.addOut σ o) p args env = AO o (applyProcedure (fuel + 1) σ p args env) := by
  simp only [applyProcedure, addOut_enter, ih.loop]
  rcases applyLoop fuel (enter σ) p args env with ⟨_ | v, σ1⟩ <;> rfl

theorem ob_loop (σ o p args env) :
    applyLoop (fuel + 1) (Store.addOut σ o) p args env = AO o (applyLoop (fuel + 1) σ p args env) := by
  rw [applyLoop.eq_def, applyLoop.eq_def]
  dsimp only
  cases hp : procArity p with
  | none => rfl
  | some a =>
    obtain ⟨fixed, variadic⟩ := a
    simp only
    split
    · rfl
    · cases p with
      | builtin b =>
        cases b
        case apply =>
          simp only
          cases spreadApply args with
          | error e => rfl
          | ok r => obtain ⟨f, args'⟩ := r; exact ih.loop _ _ _ _ _
        all_goals exact applyPure_addOut _ _ _ _
      | closure lam cenv =>
        simp only [ih.scheme]
        rcases applyScheme fuel σ lam cenv args with ⟨_ | t, σ1⟩
        · rfl
        · cases t with
          | value v => rfl
          | tailCall f targs tenv =>
            simp only [AO_ok, ih.expr]
            rcases evalExpr fuel σ1 tenv f with ⟨_ | first, σ2⟩
            · rfl
            · simp only [AO_ok, ih.args]
              rcases evalArgs fuel σ2 tenv targs with ⟨_ | vs, σ3⟩
              · rfl
              · simp only [AO_ok]
                cases procArity first with
                | none => rfl
                | some a => exact ih.loop _ _ _ _ _
      | _ => simp [procArity] at hp

theorem ob_scheme (σ o lam cenv args) :
    applyScheme (fuel + 1) (Store.addOut σ o) lam cenv args = AO o (applyScheme (fuel + 1) σ lam cenv args) := by
  simp only [applyScheme, Store.addOut_newFrame, bindFixed_addOut]
  rcases bindFixed (σ.newFrame (some cenv)).2 (σ.newFrame (some cenv)).1 lam.formals.fixed args with ⟨_ | restArgs, σ1⟩
  · rfl
  · simp only [AO_ok]
    cases lam.formals.rest with
    | none =>
      simp only [ih.defs]
      rcases evalDefs fuel σ1 _ lam.defs with ⟨_ | u, σ2⟩
      · rfl
      · exact ih.body _ _ _ _
    | some r =>
      simp only [Store.addOut_define, ih.defs]
      rcases evalDefs fuel _ _ lam.defs with ⟨_ | u, σ2⟩
      · rfl
      · exact ih.body _ _ _ _

theorem ob_defs (σ o ρ ds) : evalDefs (fuel + 1) (Store.addOut σ o) ρ ds = AO o (evalDefs (fuel + 1) σ ρ ds) := by
  rcases ds with _ | ⟨⟨name, e, l⟩, ds⟩
  · simp only [evalDefs]; rfl
  · simp only [evalDefs, ih.expr]
    rcases evalExpr fuel σ ρ e with ⟨_ | v, σ1⟩
    · rfl
    · simp only [AO_ok, Store.addOut_define]
      exact ih.defs _ _ _ _

theorem ob_tail (σ o ρ e) : evalTail (fuel + 1) (Store.addOut σ o) ρ e = AO o (evalTail (fuel + 1) σ ρ e) := by
  cases e with
  | call f as l => simp only [evalTail]; rfl
  | cond t c a l =>
    simp only [evalTail, ih.expr]
    rcases evalExpr fuel σ ρ t with ⟨_ | tv, σ1⟩
    · rfl
    · simp only [AO_ok]
      split
      · exact ih.tail _ _ _ _
      · cases a with
        | none => rfl
        | some alt => exact ih.tail _ _ _ _
  | _ =>
    simp only [evalTail, ih.expr]
    rcases evalExpr fuel σ ρ _ with ⟨_ | v, σ1⟩ <;> rfl

theorem ob_body (σ o ρ es) : evalBody (fuel + 1) (Store.addOut σ o) ρ es = AO o (evalBody (fuel + 1) σ ρ es) := by
  rcases es with _ | ⟨e, _ | ⟨e', es⟩⟩
  · simp only [evalBody]; rfl
  · simp only [evalBody]; exact ih.tail _ _ _ _
  · simp only [evalBody, ih.expr]
    rcases evalExpr fuel σ ρ e with ⟨_ | v, σ1⟩
    · rfl
    · exact ih.body σ1 o ρ (e' :: es)

end succ

theorem obAt : ∀ fuel, OBAt fuel
  | 0 => obAt_zero
  | n + 1 =>
    have ih := obAt n
    ⟨ob_expr ih, ob_args ih, ob_proc ih, ob_loop ih, ob_scheme ih, ob_defs ih, ob_body ih, ob_tail ih⟩

/-! ## the interpreter around the evaluator -/

theorem evalExprOrDef_addOut (fuel : Nat) (st : State) (o : List String) (s : Statement) (ρ : Nat) :
    evalExprOrDef fuel (st.addOut o) s ρ = IAO o (evalExprOrDef fuel st s ρ) := by
  cases s with
  | expr e =>
    simp only [evalExprOrDef, State.addOut_store, (obAt fuel).expr]
    rcases evalExpr fuel st.store ρ e with ⟨_ | v, σ⟩ <;> rfl
  | definition d =>
    obtain ⟨name, e, l⟩ := d
    simp only [evalExprOrDef, State.addOut_store, (obAt fuel).expr]
    rcases evalExpr fuel st.store ρ e with ⟨_ | v, σ⟩
    · rfl
    · simp only [AO_ok, Store.addOut_define]; rfl
  | syntaxDef name rules l =>
    simp only [evalExprOrDef, State.addOut_store, Store.addOut_define]; rfl
  | importDecl sets l => rfl
  | libraryDef n decls l => rfl

structure IOBAt (fuel : Nat) : Prop where
  importSet : ∀ st o s, evalImportSet fuel (State.addOut st o) s = IAO o (evalImportSet fuel st s)
  getLibrary : ∀ st o name loc, getLibrary fuel (State.addOut st o) name loc = IAO o (getLibrary fuel st name loc)
  import_ : ∀ st o sets ρ, evalImport fuel (State.addOut st o) sets ρ = IAO o (evalImport fuel st sets ρ)
  importSets : ∀ st o sets acc, evalImportSets fuel (State.addOut st o) sets acc = IAO o (evalImportSets fuel st sets acc)
  libraryDef : ∀ st o decls, evalLibraryDef fuel (State.addOut st o) decls = IAO o (evalLibraryDef fuel st decls)
  libDecls : ∀ st o ρ decls acc, evalLibDecls fuel (State.addOut st o) ρ decls acc = IAO o (evalLibDecls fuel st ρ decls acc)
  statements : ∀ st o ρ ss, evalStatements fuel (State.addOut st o) ρ ss = IAO o (evalStatements fuel st ρ ss)

theorem iobAt_zero : IOBAt 0 := by
  constructor <;> intros <;>
    simp only [evalImportSet, Interp.getLibrary, evalImport, evalImportSets, evalLibraryDef, evalLibDecls, evalStatements] <;> rfl

theorem findFactory_addOut (st : State) (o : List String) (name : LibName) (loc : Loc) :
    findFactory (st.addOut o) name loc = IAO o (findFactory st name loc) := by
  unfold findFactory
  simp only [State.addOut_factories, State.addOut_files, State.addOut_dir]
  cases libLookup st.factories name with
  | some f => rfl
  | none =>
    simp only
    cases st.files.lookup (fileKey st.dir (libPath name)) with
    | none => rfl
    | some fe =>
      cases fe with
      | unreadable => rfl
      | text t =>
        simp only
        cases factoryOfText name t <;> rfl

section isucc
variable {fuel : Nat} (ih : IOBAt fuel)
include ih

theorem iob_importSet (st : State) (o : List String) (s : ImportSet) :
    evalImportSet (fuel + 1) (st.addOut o) s = IAO o (evalImportSet (fuel + 1) st s) := by
  cases s with
  | direct name loc =>
    simp only [evalImportSet, State.addOut_inProgress]
    by_cases hc : st.inProgress.contains name = true
    · simp only [hc, if_true]; rfl
    · simp only [hc, if_false]
      have e : ({ st.addOut o with inProgress := name :: st.inProgress } : State) =
          ({ st with inProgress := name :: st.inProgress } : State).addOut o := rfl
      rw [e, ih.getLibrary]
      rcases Interp.getLibrary fuel { st with inProgress := name :: st.inProgress } name loc with ⟨r, st1⟩
      rfl
  | only sub ids =>
    simp only [evalImportSet, ih.importSet]
    rcases evalImportSet fuel st sub with ⟨_ | defs, st1⟩ <;> rfl
  | except sub ids =>
    simp only [evalImportSet, ih.importSet]
    rcases evalImportSet fuel st sub with ⟨_ | defs, st1⟩ <;> rfl
  | «prefix» sub p =>
    simp only [evalImportSet, ih.importSet]
    rcases evalImportSet fuel st sub with ⟨_ | defs, st1⟩ <;> rfl
  | rename sub pairs =>
    simp only [evalImportSet, ih.importSet]
    rcases evalImportSet fuel st sub with ⟨_ | defs, st1⟩ <;> rfl

theorem iob_instantiate (st : State) (o : List String) (f : Factory) (name : LibName) :
    instantiate fuel (st.addOut o) f name = IAO o (instantiate fuel st f name) := by
  unfold instantiate newLibrary cacheInstance
  cases f with
  | native defs => rfl
  | ast decls =>
    simp only [ih.libraryDef]
    rcases evalLibraryDef fuel st decls with ⟨_ | defs, st1⟩ <;> rfl

theorem iob_getLibrary (st : State) (o : List String) (name : LibName) (loc : Loc) :
    Interp.getLibrary (fuel + 1) (st.addOut o) name loc = IAO o (Interp.getLibrary (fuel + 1) st name loc) := by
  rw [getLibrary_succ_eq, getLibrary_succ_eq]
  simp only [State.addOut_instances, findFactory_addOut]
  cases libLookup st.instances name with
  | some defs => rfl
  | none =>
    simp only
    rcases findFactory st name loc with ⟨_ | f, st1⟩
    · rfl
    · exact iob_instantiate ih st1 o f name

theorem iob_import (st : State) (o : List String) (sets : List ImportSet) (ρ : Nat) :
    evalImport (fuel + 1) (st.addOut o) sets ρ = IAO o (evalImport (fuel + 1) st sets ρ) := by
  simp only [evalImport, ih.importSets]
  rcases evalImportSets fuel st sets [] with ⟨_ | defs, st1⟩
  · rfl
  · simp only [IAO_ok, State.addOut_store, foldl_define_addOut]
    rfl

theorem iob_importSets (st : State) (o : List String) (sets : List ImportSet) (acc : List (String × Value)) :
    evalImportSets (fuel + 1) (st.addOut o) sets acc = IAO o (evalImportSets (fuel + 1) st sets acc) := by
  cases sets with
  | nil => rfl
  | cons s rest =>
    simp only [evalImportSets, ih.importSet]
    rcases evalImportSet fuel st s with ⟨_ | defs, st1⟩
    · rfl
    · simp only [IAO_ok, State.addOut_store, derivedEq_addOut]
      generalize List.foldlM (m := Except SErr) _ acc defs = B
      cases B with
      | error e => rfl
      | ok acc' => exact ih.importSets st1 o rest acc'

theorem iob_libraryDef (st : State) (o : List String) (decls : List LibDecl) :
    evalLibraryDef (fuel + 1) (st.addOut o) decls = IAO o (evalLibraryDef (fuel + 1) st decls) := by
  simp only [evalLibraryDef, State.addOut_store, Store.addOut_newFrame]
  have e : ({ st.addOut o with store := (st.store.newFrame none).2.addOut o } : State) =
      ({ st with store := (st.store.newFrame none).2 } : State).addOut o := rfl
  rw [e, ih.libDecls]
  rcases evalLibDecls fuel { st with store := (st.store.newFrame none).2 } (st.store.newFrame none).1 decls []
    with ⟨_ | exports, st1⟩
  · rfl
  · simp only [IAO_ok, State.addOut_store, Store.addOut_lookup]
    rfl

theorem iob_libDecls (st : State) (o : List String) (ρ : Nat) (decls : List LibDecl) (acc : List ExportSpec) :
    evalLibDecls (fuel + 1) (st.addOut o) ρ decls acc = IAO o (evalLibDecls (fuel + 1) st ρ decls acc) := by
  cases decls with
  | nil => rfl
  | cons d ds =>
    cases d with
    | importDecl sets =>
      simp only [evalLibDecls, ih.import_]
      rcases evalImport fuel st sets ρ with ⟨_ | u, st1⟩
      · rfl
      · exact ih.libDecls st1 o ρ ds acc
    | «export» specs =>
      simp only [evalLibDecls]
      exact ih.libDecls st o ρ ds (acc ++ specs)
    | begin_ body =>
      simp only [evalLibDecls, ih.statements]
      rcases evalStatements fuel st ρ body with ⟨_ | u, st1⟩
      · rfl
      · exact ih.libDecls st1 o ρ ds acc

theorem iob_statements (st : State) (o : List String) (ρ : Nat) (ss : List Statement) :
    evalStatements (fuel + 1) (st.addOut o) ρ ss = IAO o (evalStatements (fuel + 1) st ρ ss) := by
  cases ss with
  | nil => rfl
  | cons s ss =>
    simp only [evalStatements, evalExprOrDef_addOut]
    rcases evalExprOrDef fuel st s ρ with ⟨_ | v, st1⟩
    · rfl
    · exact ih.statements st1 o ρ ss

end isucc

theorem iobAt : ∀ fuel, IOBAt fuel
  | 0 => iobAt_zero
  | n + 1 =>
    have ih := iobAt n
    ⟨iob_importSet ih, iob_getLibrary ih, iob_import ih, iob_importSets ih, iob_libraryDef ih, iob_libDecls ih,
      iob_statements ih⟩

/-! ## `eval_ast` and `Interpreter::eval` -/

theorem evalAst_addOut (fuel : Nat) (st : State) (o : List String) (s : Statement) :
    evalAst fuel (st.addOut o) s = IAO o (evalAst fuel st s) := by
  unfold evalAst
  simp only [State.addOut_importEnd, State.addOut_env]
  have hfin : ∀ (x' x : Except SErr (Option Value) × State) (l : Loc), x' = IAO o x →
      (match x'.1 with
        | .ok v => (Except.ok v, x'.2)
        | .error (e, loc) => (.error (e, loc.orElse (fun _ => l)), x'.2)) =
      IAO o (match x.1 with
        | .ok v => (Except.ok v, x.2)
        | .error (e, loc) => (.error (e, loc.orElse (fun _ => l)), x.2)) := by
    intro x' x l hx
    subst hx
    obtain ⟨r, st1⟩ := x
    cases r with
    | ok v => rfl
    | error e => rfl
  by_cases hi : st.importEnd = true
  · simp only [hi, Bool.not_true, Bool.false_eq_true, if_false]
    exact hfin _ _ _ (evalExprOrDef_addOut fuel st o s st.env)
  · simp only [hi, Bool.not_false, if_true]
    cases s with
    | importDecl sets l =>
      refine hfin _ _ _ ?_
      dsimp only
      rw [(iobAt fuel).import_]
      rcases evalImport fuel st sets st.env with ⟨_ | u, st1⟩ <;> rfl
    | libraryDef nm decls l => rfl
    | definition d =>
      exact hfin _ _ _ (evalExprOrDef_addOut fuel { st with importEnd := true } o (.definition d) st.env)
    | syntaxDef nm r l =>
      exact hfin _ _ l (evalExprOrDef_addOut fuel { st with importEnd := true } o (.syntaxDef nm r l) st.env)
    | expr e' =>
      exact hfin _ _ _ (evalExprOrDef_addOut fuel { st with importEnd := true } o (.expr e') st.env)

theorem evalText_go_addOut (fuel : Nat) (o : List String) : ∀ (n : Nat) (s : Read.PState) (st : State) (last : Option Value),
    evalText.go fuel n s (st.addOut o) last = IAO o (evalText.go fuel n s st last)
  | 0, _, _, _ => rfl
  | n + 1, s, st, last => by
    rw [evalText.go, evalText.go]
    cases Read.nextDatum s with
    | error e => rfl
    | ok r =>
      obtain ⟨od, s'⟩ := r
      cases od with
      | none => rfl
      | some d =>
        simp only [State.addOut_syn]
        rcases Xform.toStatement (Xform.xformFuel d) d st.syn with ⟨_ | stmt, syn⟩
        · rfl
        · have e : ({ st.addOut o with syn := syn } : State) = ({ st with syn := syn } : State).addOut o := rfl
          simp only [e, evalAst_addOut]
          rcases evalAst fuel { st with syn := syn } stmt with ⟨_ | v, st1⟩
          · rfl
          · exact evalText_go_addOut fuel o n s' st1 v

theorem evalText_addOut (fuel : Nat) (st : State) (o : List String) (text : List Char) :
    evalText fuel (st.addOut o) text = IAO o (evalText fuel st text) := by
  unfold evalText
  exact evalText_go_addOut fuel o _ _ st none

end Ruschm

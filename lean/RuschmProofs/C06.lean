/-
Property C06 — the text of a program determines its data.

"Source text is split into tokens only at delimiters, and a token sequence denotes the same data
whatever amount and kind of whitespace, line breaks and comments separate the tokens. Every
supported token (identifiers including the peculiar ones and |quoted| ones, booleans, characters,
strings with escapes, signed integers, decimals with exponent, ratios) yields the datum R7RS
assigns to it, and parentheses, dotted tails, vector syntax and the quote abbreviation build
exactly the nested list/vector structure they denote."

Only property theorems live here (each is audited with `#print axioms`); helper lemmas are in
`RuschmProofs/{LexLemmas,TextLemmas,ReadLemmas}.lean`. The vocabulary (`renderTok`, `isAtmos`,
`interleave`, `ValidLayout`, `SupportedTok`, `followOK`, `Syn`, …) is defined in
`RuschmSpec/Text.lean`; the model of the Rust lexer and reader is `RuschmModel/{Lex,Read}.lean`.
-/
import RuschmProofs.ReadLemmas
import RuschmProofs.TextSamples

namespace Ruschm.C06
open Ruschm Ruschm.Lex Ruschm.Text Ruschm.Text.Samples

/-! ## 1. Atmosphere is skipped -/

/-- Blanks, line breaks and (terminated) comments before a token are skipped, whatever their
amount and kind; the cursor advances over them. -/
theorem atmosphere_skipped (a rest : List Char) (p : Pos) (ha : isAtmos false a = true)
    (hr : startsTok rest = true) :
    Lex.skipAtmosphere false (a ++ rest) p = (rest, advs a p) ∧
      Lex.next (a ++ rest) p = Lex.token rest (advs a p) := by
  have h := skipAtmosphere_atmos false a rest p ha hr
  exact ⟨h, by simp [Lex.next, h]⟩

example : Lex.skipAtmosphere false " ; (hi\n\t(x".toList (1, 1) = ("(x".toList, (2, 2)) := by
  have h := (atmosphere_skipped " ; (hi\n\t".toList "(x".toList (1, 1) (by decide) (by decide)).1
  exact h

/-- After the last token the atmosphere may end in an unterminated comment: nothing is left. -/
theorem trailing_atmosphere_skipped (a : List Char) (p : Pos) (ha : isTrail false a = true) :
    ∃ p', Lex.skipAtmosphere false a p = ([], p') ∧ Lex.next a p = .ok none := by
  obtain ⟨p', h⟩ := skipAtmosphere_trail false a p ha
  exact ⟨p', h, by simp [Lex.next, h, Lex.token]⟩

example : Lex.next "  ; no newline".toList (1, 1) = .ok none := by
  obtain ⟨_, _, h⟩ := trailing_atmosphere_skipped "  ; no newline".toList (1, 1) (by decide)
  exact h

/-! ## 2. Every supported token is read back from its text -/

/-- `(` and `)` — followed by anything. -/
theorem lex_one_paren (rest : List Char) (p : Pos) :
    Lex.token ('(' :: rest) p = .ok (some (.lparen, rest, adv '(' p)) ∧
      Lex.token (')' :: rest) p = .ok (some (.rparen, rest, adv ')' p)) :=
  ⟨token_lparen rest p, token_rparen rest p⟩

example : Lex.token "(a".toList (1, 1) = .ok (some (.lparen, ['a'], (1, 2))) := by
  have h := (lex_one_paren ['a'] (1, 1)).1
  exact h

/-- `#(` and `#u8(` — followed by anything. -/
theorem lex_one_vector_intro (rest : List Char) (p : Pos) :
    Lex.token ('#' :: '(' :: rest) p = .ok (some (.vecIntro, rest, advs ['#', '('] p)) ∧
      Lex.token ('#' :: 'u' :: '8' :: '(' :: rest) p
        = .ok (some (.byteVecIntro, rest, advs ['#', 'u', '8', '('] p)) :=
  ⟨token_vecIntro rest p, token_byteVecIntro rest p⟩

example : Lex.token "#(1)".toList (1, 1) = .ok (some (.vecIntro, "1)".toList, (1, 3))) := by
  have h := (lex_one_vector_intro "1)".toList (1, 1)).1
  exact h

/-- `'`, `` ` `` and `,@` — followed by anything; `,` — followed by anything but `@` and the end
of the text. -/
theorem lex_one_quote (rest : List Char) (p : Pos) :
    Lex.token ('\'' :: rest) p = .ok (some (.quote, rest, adv '\'' p)) ∧
      Lex.token ('`' :: rest) p = .ok (some (.quasiquote, rest, adv '`' p)) ∧
      Lex.token (',' :: '@' :: rest) p = .ok (some (.unquoteSplicing, rest, advs [',', '@'] p)) ∧
      (∀ c, c ≠ '@' → Lex.token (',' :: c :: rest) p = .ok (some (.unquote, c :: rest, adv ',' p))) :=
  ⟨token_quote rest p, token_quasiquote rest p, token_unquoteSplicing rest p,
    fun c hc => token_unquote c rest p hc⟩

example : Lex.token "'x".toList (1, 1) = .ok (some (.quote, ['x'], (1, 2))) := by
  have h := (lex_one_quote ['x'] (1, 1)).1
  exact h

/-- `.` followed by a delimiter (or the end of the text) is the dot of a dotted pair. -/
theorem lex_one_period (rest : List Char) (p : Pos) (h : startsDelim rest = true) :
    Lex.token ('.' :: rest) p = .ok (some (.period, rest, adv '.' p)) :=
  token_period rest p h

example : Lex.token ". b)".toList (1, 1) = .ok (some (.period, " b)".toList, (1, 2))) := by
  have h := lex_one_period " b)".toList (1, 1) (by decide)
  exact h

/-- `#t` / `#f`, followed by a delimiter, the end of the text, or `#`. -/
theorem lex_one_bool (b : Bool) (rest : List Char) (p : Pos)
    (h : startsDelim rest = true ∨ startsSharp rest = true) :
    Lex.token (renderTok (.prim (.bool b)) ++ rest) p
      = .ok (some (.prim (.bool b), rest, advs (renderTok (.prim (.bool b))) p)) :=
  token_bool b rest p h

example : Lex.token "#t)".toList (1, 1) = .ok (some (.prim (.bool true), [')'], (1, 3))) := by
  have h := lex_one_bool true [')'] (1, 1) (by decide)
  exact h

/-- `#\c` denotes the character `c` — for *every* character `c`, provided a delimiter, the end
of the text or `#` follows. (When an ASCII letter or digit follows, the lexer reads a character
name such as `#\space` or `#\x41` instead.) -/
theorem lex_one_char (c : Char) (rest : List Char) (p : Pos)
    (h : startsDelim rest = true ∨ startsSharp rest = true) :
    Lex.token ('#' :: '\\' :: c :: rest) p
      = .ok (some (.prim (.chr c), rest, advs ['#', '\\', c] p)) :=
  token_char c rest p h

example : Lex.token "#\\( x".toList (1, 1)
    = .ok (some (.prim (.chr '('), " x".toList, (1, 4))) := by
  have h := lex_one_char '(' " x".toList (1, 1) (by decide)
  exact h

/-- The R7RS character names: `#\\alarm`, `#\\backspace`, `#\\delete`, `#\\escape`, `#\\newline`,
`#\\null`, `#\\return`, `#\\space`, `#\\tab` denote the characters R7RS assigns to them. -/
theorem lex_one_char_name (name : List Char) (c : Char) (hn : (name, c) ∈ charNames)
    (rest : List Char) (p : Pos) (h : startsDelim rest = true ∨ startsSharp rest = true) :
    Lex.token ('#' :: '\\' :: (name ++ rest)) p
      = .ok (some (.prim (.chr c), rest, advs ('#' :: '\\' :: name) p)) := by
  obtain ⟨first, run, h1, h2, h3, h4⟩ := charNames_ok (name, c) hn
  simp only at h1 h4
  subst h1
  exact token_char_run first run rest p c h3 h2 (Or.inl h4) h

example : Lex.token "#\\space)".toList (1, 1) = .ok (some (.prim (.chr ' '), [')'], (1, 8))) := by
  have h := lex_one_char_name "space".toList ' ' (by decide) [')'] (1, 1) (by decide)
  exact h

/-- `#\\x<hex>` denotes the character with that scalar value (the hypotheses are decidable for any
concrete digits). -/
theorem lex_one_char_hex (digits : List Char) (c : Char) (rest : List Char) (p : Pos)
    (hd : ∀ x ∈ digits, isAsciiAlnum x = true) (hne : digits ≠ [])
    (hname : Lex.charName? ('x' :: digits) = none) (hv : Lex.hexScalar? digits = some c)
    (h : startsDelim rest = true ∨ startsSharp rest = true) :
    Lex.token ('#' :: '\\' :: 'x' :: (digits ++ rest)) p
      = .ok (some (.prim (.chr c), rest, advs ('#' :: '\\' :: 'x' :: digits) p)) := by
  refine token_char_run 'x' digits rest p c hd hne (Or.inr ⟨hname, rfl, hv, ?_⟩) h
  intro hp
  cases digits with
  | nil => exact hne rfl
  | cons d ds =>
    simp only [List.head?_cons, Option.some.injEq] at hp
    subst hp
    exact absurd (hd '+' (by simp)) (by decide)

example : Lex.token "#\\x41 ".toList (1, 1) = .ok (some (.prim (.chr 'A'), [' '], (1, 6))) := by
  have h := lex_one_char_hex ['4', '1'] 'A' [' '] (1, 1) (by decide) (by decide) (by decide)
    (by decide) (by decide)
  exact h

/-- A string literal written with any mix of literal characters (anything but `"` and `\`) and
mnemonic escapes `\a \b \t \n \r \" \\ \|` denotes the string of the characters its pieces
denote — followed by anything. -/
theorem lex_one_string (ps : List StrPiece) (rest : List Char) (p : Pos)
    (h : ∀ x ∈ ps, x.valid = true) :
    Lex.token (showPieces ps ++ rest) p
      = .ok (some (.prim (.str (String.ofList (ps.map StrPiece.char))), rest,
          advs (showPieces ps) p)) :=
  token_string ps rest p h

example : Lex.token "\"a\\n\\\"b\nc\"x".toList (1, 1)
    = .ok (some (.prim (.str "a\n\"b\nc"), ['x'], (2, 3))) := by
  have h := lex_one_string [.lit 'a', .esc '\n', .esc '"', .lit 'b', .lit '\n', .lit 'c'] ['x']
    (1, 1) (by decide)
  exact h

/-- Every string `s` is read back from its canonical literal `showStr s`. -/
theorem lex_one_string_canonical (s : String) (rest : List Char) (p : Pos) :
    Lex.token (renderTok (.prim (.str s)) ++ rest) p
      = .ok (some (.prim (.str s), rest, advs (renderTok (.prim (.str s))) p)) :=
  token_render (.prim (.str s)) rest p trivial rfl

example : renderTok (.prim (.str "a\"\\|\t")) = "\"a\\\"\\\\\\|\\t\"".toList := by decide

/-- The round trip of `to_string` and `str::parse::<i32>`. -/
theorem parseI32_roundtrip (i : Int) (h : fitsI32 i = true) :
    Lex.parseI32? (showInt i) = some i :=
  parseI32_showInt i h

example : Lex.parseI32? "-2147483648".toList = some (-2147483648) := by
  have h := parseI32_roundtrip (-2147483648) (by decide)
  exact h

/-- Every `i32` is read back from its decimal text (with `-` for negatives). -/
theorem lex_one_int (i : Int) (rest : List Char) (p : Pos) (h : fitsI32 i = true)
    (hd : startsDelim rest = true) :
    Lex.token (renderTok (.prim (.int i)) ++ rest) p
      = .ok (some (.prim (.int i), rest, advs (renderTok (.prim (.int i))) p)) :=
  token_int i rest p h hd

example : Lex.token "-12)".toList (1, 1) = .ok (some (.prim (.int (-12)), [')'], (1, 4))) := by
  have h := lex_one_int (-12) [')'] (1, 1) (by decide) (by decide)
  exact h

/-- `n/d` with `n` an `i32` and `0 < d ≤ u32::MAX` is the ratio literal `(n, d)`. -/
theorem lex_one_ratio (n : Int) (d : Nat) (rest : List Char) (p : Pos) (h : fitsI32 n = true)
    (hd0 : 0 < d) (hd1 : d ≤ 4294967295) (hd : startsDelim rest = true) :
    Lex.token (renderTok (.prim (.rat n d)) ++ rest) p
      = .ok (some (.prim (.rat n d), rest, advs (renderTok (.prim (.rat n d))) p)) :=
  token_render (.prim (.rat n d)) rest p ⟨h, hd0, hd1⟩ (by simp [followOK, selfDelimiting, hd])

example : Lex.token "-3/4 ".toList (1, 1) = .ok (some (.prim (.rat (-3) 4), [' '], (1, 5))) := by
  have h := lex_one_ratio (-3) 4 [' '] (1, 1) (by decide) (by decide) (by decide) (by decide)
  exact h

/-- A decimal `sign? digits+ ('.' digits*)? ('e' sign? digits+)?` with a fraction or an exponent
is a real literal carrying exactly its text. -/
theorem lex_one_real (r : RealLit) (rest : List Char) (p : Pos) (h : r.wf = true)
    (hd : startsDelim rest = true) :
    Lex.token (r.text ++ rest) p
      = .ok (some (.prim (.real (String.ofList r.text)), rest, advs r.text p)) :=
  token_real r rest p h hd

example : Lex.token "-12.50e+3)".toList (1, 1)
    = .ok (some (.prim (.real "-12.50e+3"), [')'], (1, 10))) := by
  have h := lex_one_real
    { sign := ['-'], ip := ['1', '2'], frac := some ['5', '0'], exp := some (['+'], ['3']) }
    [')'] (1, 1) (by decide) (by decide)
  exact h

/-- `<initial> <subsequent>*` is an identifier. -/
theorem lex_one_ident_normal (c : Char) (cs rest : List Char) (p : Pos)
    (hc : isInitial c = true) (hcs : ∀ x ∈ cs, isSubsequent x = true)
    (hd : startsDelim rest = true) :
    Lex.token (c :: cs ++ rest) p
      = .ok (some (.ident (String.ofList (c :: cs)), rest, advs (c :: cs) p)) :=
  token_plainIdent (c :: cs) rest p (by simpa [isPlainIdent, hc] using hcs) hd

example : Lex.token "list->vector x".toList (1, 1)
    = .ok (some (.ident "list->vector", " x".toList, (1, 13))) := by
  have h := lex_one_ident_normal 'l' "ist->vector".toList " x".toList (1, 1) (by decide)
    (by decide) (by decide)
  exact h

/-- Every identifier of the class `isPlainIdent` — the normal ones and the peculiar ones `+`,
`-`, `+a`, `-x`, `->b`, `...`, `.a` — is read back from its text. -/
theorem lex_one_ident_plain (s rest : List Char) (p : Pos) (h : isPlainIdent s = true)
    (hd : startsDelim rest = true) :
    Lex.token (s ++ rest) p = .ok (some (.ident (String.ofList s), rest, advs s p)) :=
  token_plainIdent s rest p h hd

example : Lex.token "... )".toList (1, 1) = .ok (some (.ident "...", " )".toList, (1, 4))) := by
  have h := lex_one_ident_plain "...".toList " )".toList (1, 1) (by decide) (by decide)
  exact h

example : Lex.token "+".toList (1, 1) = .ok (some (.ident "+", [], (1, 2))) := by
  have h := lex_one_ident_plain ['+'] [] (1, 1) (by decide) (by decide)
  exact h

example : Lex.token "-x+1)".toList (1, 1) = .ok (some (.ident "-x+1", [')'], (1, 5))) := by
  have h := lex_one_ident_plain "-x+1".toList [')'] (1, 1) (by decide) (by decide)
  exact h

/-- `|…|` with any content free of `|` is the identifier with exactly that content — followed by
anything. -/
theorem lex_one_ident_quoted (body rest : List Char) (p : Pos) (h : '|' ∉ body) :
    Lex.token ('|' :: (body ++ '|' :: rest)) p
      = .ok (some (.ident (String.ofList body), rest, advs ('|' :: (body ++ ['|'])) p)) :=
  token_quoted body rest p h

example : Lex.token "|a (b|c".toList (1, 1) = .ok (some (.ident "a (b", ['c'], (1, 7))) := by
  have h := lex_one_ident_quoted "a (b".toList ['c'] (1, 1) (by decide)
  exact h

/-- All classes at once: the text `renderTok t` of a supported token, followed by something that
ends it (`followOK`), is read back as `t`, and the cursor advances over exactly that text. -/
theorem lex_one (t : Token) (rest : List Char) (p : Pos) (hs : SupportedTok t)
    (hf : followOK t rest = true) :
    Lex.token (renderTok t ++ rest) p = .ok (some (t, rest, advs (renderTok t) p)) :=
  token_render t rest p hs hf

example : Lex.token "|hello world|(".toList (1, 1)
    = .ok (some (.ident "hello world", ['('], (1, 14))) := by
  have h := lex_one (.ident "hello world") ['('] (1, 1) (Or.inr (by decide)) (by decide)
  exact h

/-! ## 3. Layout invariance -/

/-- LAYOUT INVARIANCE. A sequence of supported tokens, written down with *any* valid layout —
arbitrary blanks, line breaks and comments before, between and after the tokens; nothing at all
between two tokens where the first ends by itself or the second starts with a delimiter — is read
back as exactly that sequence, without error. -/
theorem lex_render (ts : List Token) (layout : List (List Char))
    (hs : ∀ t ∈ ts, SupportedTok t) (hl : ValidLayout ts layout) :
    (Lex.all (interleave ts layout)).1.map (·.tok) = ts ∧
      (Lex.all (interleave ts layout)).2 = none :=
  all_render ts layout hs hl

/-- The same with the gap condition spelled out separator by separator (`ValidGaps`): a separator
may be empty only after a self-delimiting token, before a token that starts with a delimiter, or
at the very end (but not after a final `,`). -/
theorem lex_render_gaps (ts : List Token) (layout : List (List Char))
    (hs : ∀ t ∈ ts, SupportedTok t) (hl : ValidGaps ts layout) :
    (Lex.all (interleave ts layout)).1.map (·.tok) = ts ∧
      (Lex.all (interleave ts layout)).2 = none :=
  all_render ts layout hs (validLayout_of_gaps ts layout hs hl)

/-- Two valid layouts of the same token sequence are indistinguishable for the lexer. -/
theorem layout_invariance (ts : List Token) (l₁ l₂ : List (List Char))
    (hs : ∀ t ∈ ts, SupportedTok t) (h₁ : ValidLayout ts l₁) (h₂ : ValidLayout ts l₂) :
    (Lex.all (interleave ts l₁)).1.map (·.tok) = (Lex.all (interleave ts l₂)).1.map (·.tok) := by
  rw [(lex_render ts l₁ hs h₁).1, (lex_render ts l₂ hs h₂).1]

section Example
/- `toksA` = `( a . "x)" ) ' -5` with two quite different layouts (`TextSamples.lean`) -/
example : interleave toksA layoutA = " (a ;c\n. \"x)\")\t'-5; end".toList := by decide
example : interleave toksA layoutB = "(\na . \"x)\")'-5".toList := by decide

example : (Lex.all " (a ;c\n. \"x)\")\t'-5; end".toList).1.map (·.tok) = toksA := by
  have h := (lex_render toksA layoutA toksA_supported (by decide)).1
  exact h

example : (Lex.all "(\na . \"x)\")'-5".toList).1.map (·.tok) = toksA := by
  have h := (lex_render_gaps toksA layoutB toksA_supported (by decide)).1
  exact h
end Example

/-! ## 4. Tokens end only at delimiters -/

/-- Apart from punctuation and string literals (which end with their own last character) and
`|quoted|` identifiers (which end at the closing bar), a token ends only where the text ends or a
delimiter follows. Known residue, pinned by the Rust test-suite (`#t#f`): a boolean or character
may also be followed directly by `#`. -/
theorem boundaries_at_delimiters {cs : List Char} {p : Pos} {t : Token} {rest : List Char}
    {p' : Pos} (h : Lex.token cs p = .ok (some (t, rest, p'))) :
    closedTok t = true ∨ cs.head? = some '|' ∨ startsDelim rest = true ∨
      (sharpTok t = true ∧ startsSharp rest = true) :=
  token_boundary h

/-- the residue is real: `#t#f` is two tokens -/
example : Lex.token "#t#f".toList (1, 1)
    = .ok (some (.prim (.bool true), "#f".toList, (1, 3))) := by
  have h := lex_one_bool true "#f".toList (1, 1) (by decide)
  exact h

/-- … and there is no token boundary inside `ab#` -/
example : ∀ t rest p', Lex.token "ab#".toList (1, 1) ≠ .ok (some (t, rest, p')) := by
  intro t rest p' h
  have := boundaries_at_delimiters h
  revert h
  simp [Lex.token, Lex.normalIdentifier, Lex.takeRun, Lex.isSubsequent, Lex.isInitial,
    Lex.isLetter, Lex.isDigit, Lex.testDelimiter, Lex.isDelimiter, Lex.isWs, Except.map, bind,
    Except.bind]

/-- The scanners one by one: each stops at the end of the text or before a delimiter
(`character`: or before `#`). -/
theorem boundary_normalIdentifier {first cs p t rest p'}
    (h : Lex.normalIdentifier first cs p = .ok (t, rest, p')) : startsDelim rest = true := by
  obtain ⟨_, _, _, hd, _⟩ := normalIdentifier_inv h; exact hd

theorem boundary_dotSubsequent {acc cs p s rest p'}
    (h : Lex.dotSubsequent acc cs p = .ok (s, rest, p')) : startsDelim rest = true := by
  obtain ⟨_, _, _, hd, _⟩ := dotSubsequent_inv h; exact hd

theorem boundary_peculiarIdentifier {first cs p t rest p'}
    (h : Lex.peculiarIdentifier first cs p = .ok (t, rest, p')) : startsDelim rest = true := by
  obtain ⟨_, _, _, hd, _⟩ := peculiarIdentifier_inv h; exact hd

theorem boundary_number {first cs p t rest p'}
    (h : Lex.number first cs p = .ok (t, rest, p')) : startsDelim rest = true := by
  obtain ⟨_, _, _, hd, _⟩ := number_inv h; exact hd

theorem boundary_real {lit cs p lit' rest p'}
    (h : Lex.real lit ('.' :: cs) p = .ok (lit', rest, p')) : startsDelim rest = true := by
  obtain ⟨_, _, _, hd⟩ := real_inv h; exact hd

theorem boundary_character {first cs p t rest p'}
    (h : Lex.character first cs p = .ok (t, rest, p')) :
    startsDelim rest = true ∨ startsSharp rest = true := by
  obtain ⟨_, _, _, hd, _⟩ := character_inv h; exact hd

/-! ## 5. Parentheses, dotted tails, vectors and quotes build the structure they denote -/

/-- READ_TOKENS. One step of the reader (`advance`, then `current_datum` with the fuel the model
supplies) on a token stream that starts with the tokens of a supported written datum `x` — atoms,
`( … )`, `( … . tail)`, `#( … )`, `'x`, nested to any depth — returns the datum `x` denotes (up to
source locations) and leaves exactly the tokens after it; a pending lexer error stays pending. -/
theorem read_tokens (x : Syn) (hx : x.Supported) (s : Read.PState) (lts lrest : List LToken)
    (hl : lts.map (·.tok) = x.toks) (hs : s.toks = lts ++ lrest) :
    ∃ d s', Read.nextDatum s = .ok (some d, s') ∧ d.strip = x.denote ∧ s'.toks = lrest ∧
      s'.lexErr = s.lexErr :=
  nextDatum_spec x hx s lts lrest hl hs

/-- READ_RENDER. The text of a supported written datum, under any valid layout, is read as
exactly one datum: the one it denotes. -/
theorem read_render (x : Syn) (hx : x.Supported) (layout : List (List Char))
    (hl : ValidLayout x.toks layout) :
    (Read.all (x.render layout)).1.map Datum.strip = [x.denote] ∧
      (Read.all (x.render layout)).2 = none := by
  have h := readAll_render [x] ⟨hx, trivial⟩ layout (by simpa [Syn.toksL] using hl)
  simpa [Syn.toksL, Syn.render] using h

/-- The same for a whole text: a sequence of written data is read as the sequence of data they
denote, whatever the layout. -/
theorem read_render_many (xs : List Syn) (hxs : Syn.SupportedL xs) (layout : List (List Char))
    (hl : ValidLayout (Syn.toksL xs) layout) :
    (Read.all (interleave (Syn.toksL xs) layout)).1.map Datum.strip = xs.map Syn.denote ∧
      (Read.all (interleave (Syn.toksL xs) layout)).2 = none :=
  readAll_render xs hxs layout hl

section Example
/- `synA` = `(a (b . "s") #(1 'c) . d)` (`TextSamples.lean`) -/
example : synA.render synLayout
    = "(a (b ;the cdr\n. \"s\") #(1 'c) . d)\n".toList := by decide

example : synA.denote
    = .pair (.sym "a" none)
        (.pair (.pair (.sym "b" none) (.prim (.str "s") none) none)
          (.pair (.vec [.prim (.int 1) none,
              .pair (.sym "quote" none) (.pair (.sym "c" none) (.nil none) none) none] none)
            (.sym "d" none) none) none) none := rfl

example : (Read.all "(a (b ;the cdr\n. \"s\") #(1 'c) . d)\n".toList).1.map Datum.strip
    = [synA.denote] := by
  have h := (read_render synA synA_supported synLayout (by decide)).1
  exact h
end Example

/-- READ_RENDER on data. Every datum whose atoms are supported tokens — built from atoms, pairs
(proper lists, dotted tails to any depth: a tail that is itself a list prints as a longer list),
`()` and vectors — is read back, up to source locations, from its written form `renderDatum d`
under any valid layout. (`Syn.ofDatum` writes `(quote x)` in full; the abbreviation `'x` is
covered by `read_render`.) -/
theorem read_render_datum (d : Datum) (hd : SupportedD d) (layout : List (List Char))
    (hl : ValidLayout (Syn.ofDatum d).toks layout) :
    (Read.all (renderDatum d layout)).1.map Datum.strip = [d.strip] ∧
      (Read.all (renderDatum d layout)).2 = none := by
  have h := read_render (Syn.ofDatum d) (ofDatum_supported d hd) layout hl
  rw [ofDatum_denote] at h
  exact h

section Example
/-- `(1 (2 . "x") #(a))`, the tail `(2 . "x")` sitting in a cdr: it prints as `(1 2 . "x")` -/
private def sampleDatum : Datum :=
  .pair (.prim (.int 1) (some (1, 2)))
    (.pair (.prim (.int 2) none) (.prim (.str "x") none) (some (7, 7))) none

example : renderDatum sampleDatum [[], [], [' '], ['\n'], [' '], [], []]
    = "(1 2\n. \"x\")".toList := by decide

example : (Read.all "(1 2\n. \"x\")".toList).1.map Datum.strip = [sampleDatum.strip] := by
  have h := (read_render_datum sampleDatum
    ⟨(by decide : fitsI32 1 = true), (by decide : fitsI32 2 = true), trivial⟩
    [[], [], [' '], ['\n'], [' '], [], []] (by decide)).1
  exact h
end Example

/-! ## 6. The lexer never runs out of fuel -/

/-- Every token consumes at least one character … -/
theorem next_consumes {cs : List Char} {p : Pos} {t : Token} {rest : List Char} {p' : Pos}
    (h : Lex.next cs p = .ok (some (t, rest, p'))) : rest.length < cs.length :=
  next_progress h

/-- … so the fuel `length + 1` of `Lex.all` always suffices: more fuel changes nothing. -/
theorem lex_total (cs : List Char) (k : Nat) :
    Lex.allAux (cs.length + 1 + k) cs (1, 1) [] = Lex.allAux (cs.length + 1) cs (1, 1) [] :=
  allAux_fuel k (cs.length + 1) cs (1, 1) [] (Nat.lt_succ_self _)

/-! ## Where the full statements fail

Three statements one would like to have are false of the model (and of the Rust code it was
validated against). Each is kept as a `def …_full : Prop` and refuted by a closed witness; what
is proved above are the corresponding partial versions, with the weakest side condition found. -/

/-- FULL layout invariance, treating `,` like the other punctuation tokens (it ends by itself,
whatever follows). -/
def lex_render_full : Prop :=
  ∀ (ts : List Token) (layout : List (List Char)), (∀ t ∈ ts, SupportedTok t) →
    ValidGapsNaive ts layout →
    (Lex.all (interleave ts layout)).1.map (·.tok) = ts ∧ (Lex.all (interleave ts layout)).2 = none

/-- It fails: a `,` that is the very last character of the text is dropped silently by
`Lexer::try_next` (the `None => None` arm after `,`). (A second witness: `,` directly followed by
the identifier `@x` is read as `,@` `x`.) Hence `followOK .unquote` in `ValidLayout`. -/
theorem lex_render_full_fails : ¬ lex_render_full := by
  intro h
  have h1 := (h [.unquote] [[], []] (by intro t ht; simp at ht; subst ht; trivial)
    ⟨rfl, rfl, rfl⟩).1
  have h2 : Lex.all (interleave [.unquote] [[], []]) = ([], none) := by
    simp [interleave, renderTok, Lex.all, Lex.allAux, Lex.next, Lex.skipAtmosphere, Lex.token,
      Lex.isWs]
  rw [h2] at h1
  cases h1

/-- the partial version: `lex_render_gaps` (the only extra condition is the one on `,`) -/
theorem lex_render_partial (ts : List Token) (layout : List (List Char))
    (hs : ∀ t ∈ ts, SupportedTok t) (hl : ValidGaps ts layout) :
    (Lex.all (interleave ts layout)).1.map (·.tok) = ts ∧
      (Lex.all (interleave ts layout)).2 = none :=
  lex_render_gaps ts layout hs hl

/-- FULL identifier coverage: every R7RS identifier written without bars. -/
def lex_one_ident_full : Prop :=
  ∀ (s rest : List Char) (p : Pos), isR7rsIdent s = true → startsDelim rest = true →
    Lex.token (s ++ rest) p = .ok (some (.ident (String.ofList s), rest, advs s p))

/-- It fails: after a sign, `.` always starts a number (`Lexer::try_next` tests
`is_ascii_digit() || '.'`), so `+.a` is a syntax error instead of an identifier; the branch
`Some('.')` of `percular_identifier` is unreachable for signs. -/
theorem lex_one_ident_full_fails : ¬ lex_one_ident_full := by
  intro h
  have h1 := h "+.a".toList [] (1, 1) (by decide) (by decide)
  have h2 : Lex.token ("+.a".toList ++ []) (1, 1) = .error (1, 3) := by
    simp [Lex.token, Lex.number, Lex.takeRun, Lex.real, Lex.isDigit, Lex.testDelimiter,
      Lex.isDelimiter, Lex.isWs, bind, Except.bind, Except.map, Lex.adv]
  rw [h2] at h1
  cases h1

/-- the partial version: `lex_one_ident_plain` -/
theorem lex_one_ident_partial (s rest : List Char) (p : Pos) (h : isPlainIdent s = true)
    (hd : startsDelim rest = true) :
    Lex.token (s ++ rest) p = .ok (some (.ident (String.ofList s), rest, advs s p)) :=
  lex_one_ident_plain s rest p h hd

/-- FULL "tokens end only at delimiters", without the `#` residue. -/
def boundaries_at_delimiters_full : Prop :=
  ∀ (cs : List Char) (p : Pos) (t : Token) (rest : List Char) (p' : Pos),
    Lex.token cs p = .ok (some (t, rest, p')) →
    closedTok t = true ∨ cs.head? = some '|' ∨ startsDelim rest = true

/-- It fails: `#t#f` is split into `#t` and `#f` without any delimiter (`end_of_sharp_token`;
pinned by the Rust test-suite). -/
theorem boundaries_at_delimiters_full_fails : ¬ boundaries_at_delimiters_full := by
  intro h
  have h1 := h "#t#f".toList (1, 1) _ _ _ (lex_one_bool true "#f".toList (1, 1) (by decide))
  revert h1
  decide

/-- Not a weakening of anything claimed above, but worth recording: a decimal that starts with
the dot (R7RS `.5`) is not read at all. -/
theorem leading_dot_decimal_rejected : Lex.token ".5".toList (1, 1) = .error (1, 2) := by
  simp [Lex.token, Lex.peculiarIdentifier, Lex.dotSubsequent, Lex.isInitial, Lex.isLetter,
    Lex.testDelimiter, Lex.isDelimiter, Lex.isWs, bind, Except.bind, Except.map, Lex.adv]

end Ruschm.C06

/-
The SURFACE SYNTAX of the core forms, written from R7RS (section 4.1 "Primitive expression types",
5.3 "Variable definitions") and not from the transformer: a printer from the abstract syntax the
evaluator works on (`Expr`/`Statement`, `RuschmModel/Ast.lean`) to the datum a programmer writes.

    variable                      x
    literal                       1  "s"  #\a  #t          (self-evaluating)
    vector literal                #(1 2)                   (self-evaluating)
    quotation                     (quote d)
    conditional                   (if c a)   (if c a b)
    assignment                    (set! x e)
    procedure                     (lambda (x ...) def ... body ...)
                                  (lambda (x ... . r) def ... body ...)
                                  (lambda r def ... body ...)
    internal / top-level definition   (define x e)
    procedure call                (f a ...)

The printed data carry no source locations.  `RuschmProofs/C01More.lean` proves that the parser's
transformer (`RuschmModel/Xform.lean`, Rust `transform_to_statement`) reads every printed core form
back as the tree it was printed from.

This file imports the abstract syntax only; it does not mention the transformer.
-/
import RuschmModel.Ast
namespace Ruschm.CoreSyntax

/-- an identifier -/
def ident (s : String) : Datum := .sym s none

/-- a proper list `(x ...)` -/
def lst (xs : List Datum) : Datum := Datum.ofList none xs

/-- the words that head a special form of the core language (R7RS 4.1, 5.2, 5.3, 5.4, 5.6): in
operator position they are never a variable -/
def keywords : List String :=
  ["define", "define-library", "lambda", "if", "import", "quote", "set!", "define-syntax"]

/-- R7RS `<formals>`: `(x ...)`, `(x ... . r)` or `r` -/
def formalsD : List String → Option String → Datum
  | [], none => .nil none
  | [], some r => ident r
  | x :: xs, r => .pair (ident x) (formalsD xs r) none

/-- `(define x e)` given the printed right-hand side -/
def defineD (x : String) (e : Datum) : Datum := lst [ident "define", ident x, e]

mutual
/-- the datum one writes for the expression `e` -/
def render : Expr → Datum
  | .sym s _ => ident s
  | .prim p _ => .prim p none
  | .quote d _ => lst [ident "quote", d.strip]
  | .datum d _ => d.strip
  | .assign x e _ => lst [ident "set!", ident x, render e]
  | .cond t c a _ => lst (ident "if" :: render t :: render c :: renderOpt a)
  | .call f as _ => lst (render f :: renderList as)
  | .lambda l _ => renderLambda l
/-- the operands of a call, the expressions of a body: one after the other -/
def renderList : List Expr → List Datum
  | [] => []
  | e :: es => render e :: renderList es
/-- the optional alternative of a conditional -/
def renderOpt : Option Expr → List Datum
  | none => []
  | some a => [render a]
/-- `(lambda <formals> <definition>... <expression>...)` -/
def renderLambda : Lambda → Datum
  | .mk fm defs body =>
    lst (ident "lambda" :: formalsD fm.fixed fm.rest :: renderDefs defs (renderList body))
/-- `(define x e)` -/
def renderDef : Def → Datum
  | .mk x e _ => defineD x (render e)
/-- the internal definitions, in order, in front of `tail` (the printed body expressions) -/
def renderDefs : List Def → List Datum → List Datum
  | [], tail => tail
  | d :: ds, tail => renderDef d :: renderDefs ds tail
end

/-- the other spelling of a procedure definition (R7RS 5.3): `(define (x . <formals>) <body>)` stands
for `(define x (lambda <formals> <body>))` -/
def defineSugarD (x : String) : Lambda → Datum
  | .mk fm defs body =>
    lst (ident "define" :: .pair (ident x) (formalsD fm.fixed fm.rest) none :: renderDefs defs (renderList body))

/-- the datum one writes for a top-level expression or definition (the other statements —
`import`, `define-syntax`, `define-library` — are not core forms: they are printed as the empty
form `()`, which is not a program, and `coreStmt` is false for them) -/
def renderStmt : Statement → Datum
  | .expr e => render e
  | .definition d => renderDef d
  | _ => .nil none

/-! ## which trees are core forms

`isMacro k` says that the identifier `k` is the keyword of a macro (derived form) in the syntax
environment the text is read in.  A tree is the reading of its printed form when

* no procedure call has, as its operator, a VARIABLE spelled like a keyword of a special form or
  like a macro keyword (`(if x)` written as a call of the variable `if` would be read as a
  conditional).  Variables elsewhere — operands, tests, right-hand sides — are not restricted,
* a `datum` node (a literal that is not a number, string, character or boolean) is a vector,
* every procedure body has at least one expression. -/

/-- the operator of a call is not a variable named like a special form or a macro -/
def headOk (isMacro : String → Bool) : Expr → Bool
  | .sym s _ => !keywords.contains s && !isMacro s
  | _ => true

mutual
def core (isMacro : String → Bool) : Expr → Bool
  | .sym _ _ => true
  | .prim _ _ => true
  | .quote _ _ => true
  | .datum d _ => (match d with | .vec _ _ => true | _ => false)
  | .assign _ e _ => core isMacro e
  | .cond t c a _ => core isMacro t && core isMacro c && coreOpt isMacro a
  | .call f as _ => headOk isMacro f && core isMacro f && coreList isMacro as
  | .lambda l _ => coreLambda isMacro l
def coreList (isMacro : String → Bool) : List Expr → Bool
  | [] => true
  | e :: es => core isMacro e && coreList isMacro es
def coreOpt (isMacro : String → Bool) : Option Expr → Bool
  | none => true
  | some a => core isMacro a
def coreLambda (isMacro : String → Bool) : Lambda → Bool
  | .mk _ defs body => coreDefs isMacro defs && coreList isMacro body && !body.isEmpty
def coreDef (isMacro : String → Bool) : Def → Bool
  | .mk _ e _ => core isMacro e
def coreDefs (isMacro : String → Bool) : List Def → Bool
  | [] => true
  | d :: ds => coreDef isMacro d && coreDefs isMacro ds
end

/-- a top-level expression or definition over the core forms -/
def coreStmt (isMacro : String → Bool) : Statement → Bool
  | .expr e => core isMacro e
  | .definition d => coreDef isMacro d
  | _ => false

end Ruschm.CoreSyntax

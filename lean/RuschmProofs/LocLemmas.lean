/-
Helper lemmas for property C15 (error locations): which positions occur in the data and code the
pipeline builds (`RuschmSpec/Loc.lean`), stage by stage.
-/
import RuschmSpec.Loc
import RuschmProofs.StoreLemmas
import RuschmProofs.MacroLemmas

namespace Ruschm

/-! ## data -/

theorem Datum.loc_subset (d : Datum) : d.loc.toList ⊆ d.locs := by
  cases d <;> simp [Datum.loc, Datum.locs]

theorem Datum.locs_withLoc (d : Datum) (l : Loc) : (d.withLoc l).locs ⊆ l.toList ++ d.locs := by
  cases d <;> simp [Datum.withLoc, Datum.locs] <;> grind

theorem Datum.locsList_append (xs ys : List Datum) :
    Datum.locsList (xs ++ ys) = Datum.locsList xs ++ Datum.locsList ys := by
  induction xs with
  | nil => simp [Datum.locsList]
  | cons x xs ih => simp [Datum.locsList, ih]

theorem Datum.locs_subset_locsList {x : Datum} {xs : List Datum} (h : x ∈ xs) :
    x.locs ⊆ Datum.locsList xs := by
  induction xs with
  | nil => cases h
  | cons y ys ih =>
    simp only [Datum.locsList]
    rcases List.mem_cons.1 h with rfl | h
    · exact List.subset_append_left _ _
    · exact (ih h).trans (List.subset_append_right _ _)

theorem Datum.locsList_subset {xs : List Datum} {T : List Pos} :
    Datum.locsList xs ⊆ T ↔ ∀ x ∈ xs, x.locs ⊆ T := by
  induction xs with
  | nil => simp [Datum.locsList]
  | cons y ys ih => simp [Datum.locsList, ih]

theorem Datum.locs_ofList (l : Loc) (xs : List Datum) :
    (Datum.ofList l xs).locs = l.toList ++ Datum.locsList xs := by
  induction xs generalizing l with
  | nil => simp [Datum.ofList, Datum.locs, Datum.locsList]
  | cons x xs ih => simp [Datum.ofList, Datum.locs, Datum.locsList, ih]

theorem Datum.spine_locs : ∀ (d : Datum),
    (∀ x ∈ d.spine.1, x.locs ⊆ d.locs) ∧ (∀ t, d.spine.2 = some t → t.locs ⊆ d.locs)
  | .pair a d l => by
    have ih := Datum.spine_locs d
    simp only [Datum.spine, Datum.locs]
    refine ⟨fun x hx => ?_, fun t ht => ?_⟩
    · rcases List.mem_cons.1 hx with rfl | hx
      · intro p hp; simp [hp]
      · intro p hp; have := ih.1 x hx hp; simp [this]
    · intro p hp; have := ih.2 t ht hp; simp [this]
  | .nil _ => by simp [Datum.spine]
  | .prim _ _ => by simp [Datum.spine]
  | .sym _ _ => by simp [Datum.spine]
  | .vec _ _ => by simp [Datum.spine]

theorem Datum.elems_locs {d x : Datum} (h : x ∈ d.elems) : x.locs ⊆ d.locs := by
  have hs := Datum.spine_locs d
  unfold Datum.elems at h
  split at h
  · rename_i xs he; rw [he] at hs; exact hs.1 x h
  · rename_i xs t he; rw [he] at hs
    rcases List.mem_append.1 h with h | h
    · exact hs.1 x h
    · simp only [List.mem_singleton] at h; subst h; exact hs.2 _ rfl

/-! ## macro expansion -/

namespace Macro

/-- every datum bound in the substitution table has its positions in `T` -/
def SubstIn (T : List Pos) (σ : Subst) : Prop :=
  ∀ e ∈ σ, e.2.1.locs ⊆ T ∧ ∀ m ∈ e.2.2, m.locs ⊆ T

theorem SubstIn.nil (T : List Pos) : SubstIn T [] := by simp [SubstIn]

theorem SubstIn.insert {T : List Pos} {σ : Subst} (h : SubstIn T σ) (v : String) {d : Datum}
    (hd : d.locs ⊆ T) : SubstIn T (σ.insert v (d, [])) := by
  induction σ with
  | nil => simp [Subst.insert, SubstIn, hd]
  | cons e rest ih =>
    obtain ⟨k, y⟩ := e
    simp only [Subst.insert]
    have hr : SubstIn T rest := fun e he => h e (List.mem_cons_of_mem _ he)
    split
    · intro e he
      rcases List.mem_cons.1 he with rfl | he
      · simp [hd]
      · exact hr e he
    · intro e he
      rcases List.mem_cons.1 he with rfl | he
      · exact h _ (List.mem_cons_self ..)
      · exact ih hr e he

theorem SubstIn.push {T : List Pos} {σ σ' : Subst} (h : SubstIn T σ) {v : String} {d : Datum}
    (hd : d.locs ⊆ T) (hp : σ.push? v d = some σ') : SubstIn T σ' := by
  induction σ generalizing σ' with
  | nil => simp [Subst.push?] at hp
  | cons e rest ih =>
    obtain ⟨k, f, more⟩ := e
    have hr : SubstIn T rest := fun e he => h e (List.mem_cons_of_mem _ he)
    have h0 := h _ (List.mem_cons_self ..)
    simp only [Subst.push?] at hp
    split at hp
    · cases hp
      intro e he
      rcases List.mem_cons.1 he with rfl | he
      · refine ⟨h0.1, fun m hm => ?_⟩
        rcases List.mem_append.1 hm with hm | hm
        · exact h0.2 m hm
        · simp only [List.mem_singleton] at hm; subst hm; exact hd
      · exact hr e he
    · cases hq : Subst.push? rest v d with
      | none => simp [hq] at hp
      | some r =>
        simp only [hq, Option.map_some, Option.some.injEq] at hp
        subst hp
        intro e he
        rcases List.mem_cons.1 he with rfl | he
        · exact h0
        · exact ih hr hq e he

theorem SubstIn.pushAll {T : List Pos} {τ : Subst} (hτ : SubstIn T τ) :
    ∀ {acc : Option Subst} {σ' : Subst}, (∀ s, acc = some s → SubstIn T s) →
      τ.foldl (fun acc (x : String × Datum × List Datum) =>
        acc.bind (fun s => Subst.push? s x.1 x.2.1)) acc = some σ' → SubstIn T σ' := by
  induction τ with
  | nil => intro acc σ' ha h; exact ha _ h
  | cons e rest ih =>
    intro acc σ' ha h
    simp only [List.foldl_cons] at h
    refine ih (fun e he => hτ e (List.mem_cons_of_mem _ he)) ?_ h
    intro s hs
    cases acc with
    | none => simp at hs
    | some a =>
      simp only [Option.bind_some] at hs
      exact (ha a rfl).push (hτ e (List.mem_cons_self ..)).1 hs

theorem SubstIn.get {T : List Pos} {σ : Subst} (h : SubstIn T σ) {v : String} {x : Datum × List Datum}
    (hg : σ.get? v = some x) : x.1.locs ⊆ T ∧ ∀ m ∈ x.2, m.locs ⊆ T := by
  induction σ with
  | nil => simp [Subst.get?] at hg
  | cons e rest ih =>
    obtain ⟨k, y⟩ := e
    simp only [Subst.get?] at hg
    split at hg
    · cases hg; exact h _ (List.mem_cons_self ..)
    · exact ih (fun e he => h e (List.mem_cons_of_mem _ he)) hg

/-- matching only ever binds sub-data of the datum matched -/
theorem match_locs_aux (T : List Pos) (lits : List String) : ∀ n,
    (∀ p d σ r, matchDatum n lits p d σ = .ok r → d.locs ⊆ T → SubstIn T σ → SubstIn T r.2) ∧
    (∀ ps ds mm σ r, matchStream n lits ps ds mm σ = .ok r → (∀ d ∈ ds, d.locs ⊆ T) → SubstIn T σ →
      SubstIn T r.2) := by
  intro n
  induction n with
  | zero => constructor <;> intros <;> simp_all
  | succ n ih =>
    obtain ⟨ihD, ihS⟩ := ih
    constructor
    · intro p d σ r h hd hσ
      cases hp : p.isListy
      · cases p <;> simp [Pat.isListy] at hp
        · simp at h; subst h; exact hσ
        · simp at h; subst h; exact hσ
        · rw [matchDatum_vec] at h
          cases d <;> simp at h <;> try (subst h; exact hσ)
          rename_i ps ds loc
          refine ihS _ _ _ _ _ h (fun x hx => ?_) hσ
          simp only [Datum.locs] at hd
          exact (Datum.locs_subset_locsList hx).trans
            ((List.subset_append_right _ _).trans hd)
        · rename_i v
          rw [matchDatum_ident] at h
          split at h <;> cases h
          · exact hσ
          · exact hσ.insert v hd
        · rw [matchDatum_prim] at h; cases h; exact hσ
      · cases hdl : d.isListy
        · rw [matchDatum_listy_atom hp hdl] at h; cases h; exact hσ
        · rw [matchDatum_listy hp hdl] at h
          have hsp := Datum.spine_locs d
          have h1 := ihS p.spine.1 d.spine.1 none σ
          split at h
          · cases h
          · rename_i σ1 he; cases h
            exact h1 _ he (fun x hx => (hsp.1 x hx).trans hd) hσ
          · rename_i σ1 he
            have hσ1 := h1 _ he (fun x hx => (hsp.1 x hx).trans hd) hσ
            split at h
            · rename_i lp ld hlp hld
              exact ihD _ _ _ _ h ((hsp.2 _ hld).trans hd) hσ1
            · cases h; exact hσ1
            · cases h; exact hσ1
    · intro ps ds mm σ r h hds hσ
      cases ps with
      | nil => cases ds <;> simp at h <;> subst h <;> exact hσ
      | cons p ps =>
        cases ds with
        | nil =>
          cases hp : p.isEllipsis
          · rw [matchStream_cons_nil_ne hp] at h; cases h; exact hσ
          · cases p <;> simp [Pat.isEllipsis] at hp
            cases mm with
            | none => simp at h; subst h; exact hσ
            | some mp =>
              rw [matchStream_ell_nil_some] at h
              exact ihS _ _ _ _ _ h hds hσ
        | cons d ds =>
          have hd : d.locs ⊆ T := hds d (List.mem_cons_self ..)
          have hds' : ∀ x ∈ ds, x.locs ⊆ T := fun x hx => hds x (List.mem_cons_of_mem _ hx)
          cases hp : p.isEllipsis
          · rw [matchStream_step_ne hp] at h
            split at h
            · cases h
            · rename_i σ1 he; cases h; exact ihD _ _ _ _ he hd hσ
            · rename_i σ1 he
              exact ihS _ _ _ _ _ h hds' (ihD _ _ _ _ he hd hσ)
          · cases p <;> simp [Pat.isEllipsis] at hp
            cases n with
            | zero => rw [matchStream_ell_one] at h; cases h
            | succ n =>
              cases mm with
              | none => rw [matchStream_ell_none] at h; cases h
              | some mp =>
                rw [matchStream_step_ell] at h
                split at h
                · cases h
                · cases h; exact hσ
                · rename_i τ he
                  have hτ := ihD _ _ _ _ he hd (SubstIn.nil T)
                  split at h
                  · cases h
                  · rename_i σ2 hpush
                    have hσ2 : SubstIn T σ2 :=
                      SubstIn.pushAll hτ (fun s hs => by cases hs; exact hσ) hpush
                    split at h
                    · cases h
                    · rename_i σ3 he2; cases h; exact ihS _ _ _ _ _ he2 hds' hσ2
                    · rename_i σ3 he2
                      exact ihS _ _ _ _ _ h hds' (ihS _ _ _ _ _ he2 hds' hσ2)

/-- `match_bindings_locs`: the bindings `matchDatum` produces are sub-data of the datum matched -/
theorem matchDatum_locs {T : List Pos} {n lits p d σ b σ'} (h : matchDatum n lits p d σ = .ok (b, σ'))
    (hd : d.locs ⊆ T) (hσ : SubstIn T σ) : SubstIn T σ' :=
  (match_locs_aux T lits n).1 p d σ _ h hd hσ

/-! ### instantiating a template -/

theorem locs_ofList_subset {T : List Pos} {loc : Loc} {ds : List Datum} (hl : loc.toList ⊆ T)
    (hd : Datum.locsList ds ⊆ T) : (Datum.ofList loc ds).locs ⊆ T := by
  rw [Datum.locs_ofList]; exact List.append_subset.2 ⟨hl, hd⟩

theorem locs_vec_subset {T : List Pos} {loc : Loc} {ds : List Datum} (hl : loc.toList ⊆ T)
    (hd : Datum.locsList ds ⊆ T) : (Datum.vec ds loc).locs ⊆ T := by
  rw [Datum.locs]; exact List.append_subset.2 ⟨hl, hd⟩

mutual
theorem substItem_locs {T : List Pos} : ∀ (t : Tmpl) (σ : Subst) (i : Nat) (loc : Loc) (d : Datum),
    SubstIn T σ → loc.toList ⊆ T → substItem t σ i loc = some d → d.locs ⊆ T
  | .list es, σ, i, loc, d, hσ, hl, h => by
    rw [substItem] at h
    cases hs : substItems es σ i loc with
    | none => simp [hs] at h
    | some ds =>
      simp only [hs, Option.map_some, Option.some.injEq] at h; subst h
      exact locs_ofList_subset hl (substItems_locs es σ i loc ds hσ hl hs)
  | .vec es, σ, i, loc, d, hσ, hl, h => by
    rw [substItem] at h
    cases hs : substItems es σ i loc with
    | none => simp [hs] at h
    | some ds =>
      simp only [hs, Option.map_some, Option.some.injEq] at h; subst h
      exact locs_vec_subset hl (substItems_locs es σ i loc ds hσ hl hs)
  | .ident v, σ, i, loc, d, hσ, hl, h => by
    rw [substItem] at h
    split at h
    · rename_i f more hg
      split at h
      · cases h
      · exact (hσ.get hg).2 d (List.mem_of_getElem? h)
    · cases h; simpa [Datum.locs] using hl
  | .prim p, σ, i, loc, d, hσ, hl, h => by
    rw [substItem] at h; cases h; simpa [Datum.locs] using hl
theorem substItems_locs {T : List Pos} : ∀ (es : List (Tmpl × Bool)) (σ : Subst) (i : Nat) (loc : Loc)
    (ds : List Datum), SubstIn T σ → loc.toList ⊆ T → substItems es σ i loc = some ds →
    Datum.locsList ds ⊆ T
  | [], σ, i, loc, ds, hσ, hl, h => by
    rw [substItems] at h; cases h; simp [Datum.locsList]
  | (t, b) :: rest, σ, i, loc, ds, hσ, hl, h => by
    rw [substItems] at h
    split at h
    · cases h
    · rename_i d hd
      cases hs : substItems rest σ i loc with
      | none => simp [hs] at h
      | some r =>
        simp only [hs, Option.map_some, Option.some.injEq] at h; subst h
        simp only [Datum.locsList]
        exact List.append_subset.2 ⟨substItem_locs t σ i loc d hσ hl hd,
          substItems_locs rest σ i loc r hσ hl hs⟩
end

theorem substItemLoop_locs {T : List Pos} {t : Tmpl} {σ : Subst} {loc : Loc} (hσ : SubstIn T σ)
    (hl : loc.toList ⊆ T) : ∀ (fuel i : Nat) (ds : List Datum),
    substItemLoop fuel t σ i loc = some ds → Datum.locsList ds ⊆ T
  | 0, i, ds, h => by simp [substItemLoop] at h
  | fuel + 1, i, ds, h => by
    rw [substItemLoop] at h
    split at h
    · cases h; simp [Datum.locsList]
    · rename_i d hd
      cases hs : substItemLoop fuel t σ (i + 1) loc with
      | none => simp [hs] at h
      | some r =>
        simp only [hs, Option.map_some, Option.some.injEq] at h; subst h
        simp only [Datum.locsList]
        exact List.append_subset.2 ⟨substItem_locs t σ i loc d hσ hl hd,
          substItemLoop_locs hσ hl fuel (i + 1) r hs⟩

mutual
/-- `expansion_locs`: every position in an instantiated template is the position of the macro use
(`loc`) or a position inside a datum bound in the table -/
theorem subst_locs {T : List Pos} (fuel : Nat) : ∀ (t : Tmpl) (σ : Subst) (loc : Loc) (d : Datum),
    SubstIn T σ → loc.toList ⊆ T → subst fuel t σ loc = some d → d.locs ⊆ T
  | .list es, σ, loc, d, hσ, hl, h => by
    rw [subst] at h
    cases hs : substElems fuel es σ loc with
    | none => simp [hs] at h
    | some ds =>
      simp only [hs, Option.map_some, Option.some.injEq] at h; subst h
      exact locs_ofList_subset hl (substElems_locs fuel es σ loc ds hσ hl hs)
  | .vec es, σ, loc, d, hσ, hl, h => by
    rw [subst] at h
    cases hs : substElems fuel es σ loc with
    | none => simp [hs] at h
    | some ds =>
      simp only [hs, Option.map_some, Option.some.injEq] at h; subst h
      exact locs_vec_subset hl (substElems_locs fuel es σ loc ds hσ hl hs)
  | .ident v, σ, loc, d, hσ, hl, h => by
    rw [subst] at h
    split at h
    · rename_i f more hg; cases h; exact (hσ.get hg).1
    · cases h; simpa [Datum.locs] using hl
  | .prim p, σ, loc, d, hσ, hl, h => by
    rw [subst] at h; cases h; simpa [Datum.locs] using hl
theorem substElems_locs {T : List Pos} (fuel : Nat) : ∀ (es : List (Tmpl × Bool)) (σ : Subst) (loc : Loc)
    (ds : List Datum), SubstIn T σ → loc.toList ⊆ T → substElems fuel es σ loc = some ds →
    Datum.locsList ds ⊆ T
  | [], σ, loc, ds, hσ, hl, h => by
    rw [substElems] at h; cases h; simp [Datum.locsList]
  | (t, true) :: rest, σ, loc, ds, hσ, hl, h => by
    rw [substElems] at h
    split at h
    · rename_i first more r h1 h2 h3
      cases h
      simp only [Datum.locsList, Datum.locsList_append]
      exact List.append_subset.2 ⟨List.append_subset.2 ⟨subst_locs fuel t σ loc first hσ hl h1,
        substItemLoop_locs hσ hl fuel 0 more h2⟩, substElems_locs fuel rest σ loc r hσ hl h3⟩
    · cases h
  | (t, false) :: rest, σ, loc, ds, hσ, hl, h => by
    rw [substElems] at h
    split at h
    · rename_i d r h1 h3
      cases h
      simp only [Datum.locsList]
      exact List.append_subset.2 ⟨subst_locs fuel t σ loc d hσ hl h1,
        substElems_locs fuel rest σ loc r hσ hl h3⟩
    · cases h
end

/-- `transform_locs`: every position in the expansion of a macro use is a position of the use -/
theorem transformRules_locs {T : List Pos} {fuel : Nat} {lits : List String} {use : Datum}
    (hu : use.locs ⊆ T) : ∀ (rules : List (Pat × Tmpl)) (d : Datum),
    transformRules fuel lits rules use = .ok d → d.locs ⊆ T
  | [], d, h => by simp [transformRules] at h
  | (p, t) :: rest, d, h => by
    rw [transformRules] at h
    cases hm : matchDatum fuel lits p use [] with
    | error e => simp [hm, bind, Except.bind] at h
    | ok r =>
      obtain ⟨ok, σ⟩ := r
      simp only [hm, bind, Except.bind] at h
      have hσ : SubstIn T σ := matchDatum_locs hm hu (SubstIn.nil T)
      split at h
      · split at h
        · cases h
        · split at h
          · rename_i d' hs
            simp only [pure, Except.pure, Except.ok.injEq] at h; subst h
            exact subst_locs fuel t σ use.loc d' hσ ((Datum.loc_subset use).trans hu) hs
          · cases h
      · exact transformRules_locs hu rest d h

end Macro

/-! ## values and the store -/

/-- the code inside `v` has its positions in `T` -/
def VIn (T : List RPos) (v : Value) : Prop := v.rlocs ⊆ T

/-- the code stored in `σ` has its positions in `T` (`sIn_iff`: this is `σ.rlocs ⊆ T`) -/
structure SIn (T : List RPos) (σ : Store) : Prop where
  frame : ∀ (i : Nat) (f : Frame), σ.frames[i]? = some f → ∀ kv ∈ f.defs, VIn T kv.2
  cell : ∀ (i : Nat) (c : VecCell), σ.vecs[i]? = some c → ∀ v ∈ c.items, VIn T v

theorem sIn_iff {T : List RPos} {σ : Store} : SIn T σ ↔ σ.rlocs ⊆ T := by
  constructor
  · intro h x hx
    simp only [Store.rlocs, List.mem_append, List.mem_flatMap, Frame.rlocs, VecCell.rlocs] at hx
    rcases hx with ⟨f, hf, kv, hkv, hx⟩ | ⟨c, hc, v, hv, hx⟩
    · obtain ⟨i, hi, rfl⟩ := List.getElem_of_mem hf
      exact h.frame i _ (by simp at hi ⊢) kv hkv hx
    · obtain ⟨i, hi, rfl⟩ := List.getElem_of_mem hc
      exact h.cell i _ (by simp at hi ⊢) v hv hx
  · intro h
    constructor
    · intro i f hf kv hkv x hx
      apply h
      simp only [Store.rlocs, List.mem_append, List.mem_flatMap, Frame.rlocs]
      exact Or.inl ⟨f, by simpa using Array.mem_of_getElem? hf, kv, hkv, hx⟩
    · intro i c hc v hv x hx
      apply h
      simp only [Store.rlocs, List.mem_append, List.mem_flatMap, VecCell.rlocs]
      exact Or.inr ⟨c, by simpa using Array.mem_of_getElem? hc, v, hv, hx⟩

section store
variable {T : List RPos}

theorem SIn.of_eq {σ σ' : Store} (h : SIn T σ) (hf : σ'.frames = σ.frames) (hv : σ'.vecs = σ.vecs) :
    SIn T σ' := ⟨by rw [hf]; exact h.frame, by rw [hv]; exact h.cell⟩

theorem vIn_atom {v : Value} (h : v.rlocs = []) : VIn T v := by simp [VIn, h]
@[simp] theorem vIn_void : VIn T .void := vIn_atom rfl
@[simp] theorem vIn_nil : VIn T .nil := vIn_atom rfl
@[simp] theorem vIn_num {n} : VIn T (.num n) := vIn_atom rfl
@[simp] theorem vIn_bool {n} : VIn T (.bool n) := vIn_atom rfl
@[simp] theorem vIn_char {n} : VIn T (.char n) := vIn_atom rfl
@[simp] theorem vIn_str {n} : VIn T (.str n) := vIn_atom rfl
@[simp] theorem vIn_sym {n} : VIn T (.sym n) := vIn_atom rfl
@[simp] theorem vIn_vec {n} : VIn T (.vec n) := vIn_atom rfl
@[simp] theorem vIn_builtin {n} : VIn T (.builtin n) := vIn_atom rfl
@[simp] theorem vIn_transformer {n} : VIn T (.transformer n) := vIn_atom rfl
@[simp] theorem vIn_pair {a d : Value} : VIn T (.pair a d) ↔ VIn T a ∧ VIn T d := by
  simp [VIn, Value.rlocs]
@[simp] theorem vIn_closure {lam ρ} : VIn T (.closure lam ρ) ↔ lam.rlocs ⊆ T := by
  simp [VIn, Value.rlocs]

theorem vIn_ofList : ∀ {vs : List Value}, (∀ v ∈ vs, VIn T v) → VIn T (Value.ofList vs)
  | [], _ => by simp [Value.ofList]
  | v :: vs, h => by
    simp only [Value.ofList, vIn_pair]
    exact ⟨h v (by simp), vIn_ofList (fun x hx => h x (by simp [hx]))⟩

theorem vIn_elems : ∀ {v : Value}, VIn T v → ∀ x ∈ v.elems, VIn T x
  | .pair a d, h, x, hx => by
    simp only [vIn_pair] at h
    simp only [Value.elems, List.mem_cons] at hx
    rcases hx with rfl | hx
    · exact h.1
    · exact vIn_elems h.2 x hx
  | .nil, _, x, hx => by simp [Value.elems] at hx
  | .num _, h, x, hx | .bool _, h, x, hx | .char _, h, x, hx | .str _, h, x, hx | .sym _, h, x, hx
  | .closure _ _, h, x, hx | .builtin _, h, x, hx | .vec _, h, x, hx | .transformer _, h, x, hx
  | .void, h, x, hx => by
    simp only [Value.elems, List.mem_singleton] at hx; subst hx; exact h

theorem sIn_define {σ : Store} (h : SIn T σ) (ρ : Nat) (k : String) {v : Value} (hv : VIn T v) :
    SIn T (σ.define ρ k v) := by
  constructor
  · intro i f hf kv hkv
    rw [Store.define_frames_getElem?] at hf
    split at hf
    · cases hg : σ.frames[i]? with
      | none => simp [hg] at hf
      | some g =>
        simp only [hg, Option.map_some, Option.some.injEq] at hf
        subst hf
        rcases Store.mem_defsInsert hkv with rfl | hm
        · exact hv
        · exact h.frame i g hg kv hm
    · exact h.frame i f hf kv hkv
  · rw [Store.define_vecs]; exact h.cell

theorem sIn_set {σ σ' : Store} {ρ x v b} (hs : σ.set ρ x v = (b, σ')) (h : SIn T σ) (hv : VIn T v) :
    SIn T σ' := by
  unfold Store.set at hs
  split at hs <;> cases hs
  · exact sIn_define h _ _ hv
  · exact h

theorem sIn_newFrame {σ : Store} (h : SIn T σ) (p : Option Nat) : SIn T (σ.newFrame p).2 := by
  constructor
  · intro i f hf kv hkv
    simp only [Store.newFrame, Array.getElem?_push] at hf
    split at hf
    · cases hf; simp at hkv
    · exact h.frame i f hf kv hkv
  · exact h.cell

theorem sIn_allocVec {σ : Store} (h : SIn T σ) (m : Bool) {items : List Value}
    (hi : ∀ v ∈ items, VIn T v) : SIn T (σ.allocVec m items).2 := by
  constructor
  · exact h.frame
  · intro i c hc v hv
    simp only [Store.allocVec, Array.getElem?_push] at hc
    split at hc
    · cases hc; exact hi v hv
    · exact h.cell i c hc v hv

theorem sIn_lookup {σ : Store} (h : SIn T σ) {ρ : Nat} {s : String} {v : Value}
    (hl : σ.lookup ρ s = some v) : VIn T v := by
  rw [Store.lookup_eq_bind] at hl
  cases hr : σ.resolve ρ s with
  | none => simp [hr] at hl
  | some r =>
    simp only [hr, Option.bind_some, Store.binding] at hl
    cases hf : σ.frames[r]? with
    | none => simp [hf] at hl
    | some f =>
      simp only [hf] at hl
      exact h.frame r f hf (s, v) (Eval.mem_of_lookup hl)

theorem sIn_enter {σ : Store} : SIn T (Eval.enter σ) ↔ SIn T σ :=
  ⟨fun h => h.of_eq (σ' := σ) rfl rfl, fun h => h.of_eq rfl rfl⟩
theorem sIn_leave {σ : Store} : SIn T (Eval.leave σ) ↔ SIn T σ :=
  ⟨fun h => h.of_eq (σ' := σ) rfl rfl, fun h => h.of_eq rfl rfl⟩

theorem sIn_vsetStore {σ : Store} (h : SIn T σ) {id : Nat} {cell : VecCell} (hc : σ.vecs[id]? = some cell)
    (n : Nat) {obj : Value} (ho : VIn T obj) : SIn T (Prim.vsetStore σ id cell n obj) := by
  constructor
  · exact h.frame
  · intro j c hj v hv
    rw [Prim.vsetStore_vecs_getElem?] at hj
    split at hj
    · split at hj
      · cases hj
        rcases List.mem_or_eq_of_mem_set hv with hm | rfl
        · exact h.cell id cell hc v hm
        · exact ho
      · cases hj
    · exact h.cell j c hj v hv

end store

/-! ## the steps of the evaluator that are not part of the mutual block -/

section steps
variable {T : List RPos}
open Eval Prim

theorem evalPrim_vIn {p : Prim} {v : Value} (h : evalPrim p = .ok v) : VIn T v := by
  cases p <;> simp [evalPrim] at h <;> try (subst h; simp)
  rename_i n d
  cases hq : Num.exactRatio n d <;> simp [hq, Except.map] at h
  subst h; simp

theorem lift_err {α} {σ σ' : Store} {r : Except Err α} {k e} (h : lift σ r k = (.error e, σ')) : e.2 = none := by
  unfold lift at h; split at h <;> simp [ok, err] at h
  obtain ⟨rfl, -⟩ := h; rfl
theorem num1_err {σ σ' : Store} {args b f e} (h : num1 σ args b f = (.error e, σ')) : e.2 = none := by
  unfold num1 at h; repeat' split at h
  all_goals simp [ok, err, missing] at h
  all_goals (obtain ⟨rfl, -⟩ := h; rfl)
theorem num2_err {σ σ' : Store} {args b f e} (h : num2 σ args b f = (.error e, σ')) : e.2 = none := by
  unfold num2 at h; repeat' split at h
  all_goals simp [ok, err, missing] at h
  all_goals (obtain ⟨rfl, -⟩ := h; rfl)

/-- no native procedure reports a located error -/
theorem applyPure_err {σ σ' : Store} {b : Builtin} {args : List Value} {e}
    (h : applyPure σ b args = (.error e, σ')) : e.2 = none := by
  cases b <;> simp only [applyPure, realFn, realFn2] at h
  all_goals first
    | exact lift_err h
    | exact num1_err h
    | exact num2_err h
    | (repeat' split at h
       all_goals simp [ok, err, missing] at h
       all_goals (try (obtain ⟨rfl, -⟩ := h; rfl)))

/-- the native procedures: results and stored items are parts of the arguments or of the store -/
theorem applyPure_in {σ : Store} {b : Builtin} {args : List Value} {r σ'}
    (h : applyPure σ b args = (r, σ')) (hσ : SIn T σ) (ha : ∀ a ∈ args, VIn T a) :
    SIn T σ' ∧ (∀ v, r = .ok v → VIn T v) ∧ (∀ e, r = .error e → e.2 = none) := by
  refine ⟨?_, ?_, fun e he => applyPure_err (he ▸ h)⟩
  · by_cases h1 : b = .vector
    · subst h1
      rw [applyPure_vector] at h; cases h
      exact sIn_allocVec hσ _ ha
    by_cases h2 : b = .makeVector
    · subst h2
      rcases applyPure_makeVector_shape h with ⟨rfl, -⟩ | ⟨n, fill, rest, rfl, _, rfl, rfl⟩
      · exact hσ
      · refine sIn_allocVec hσ _ ?_
        intro v hv
        rw [List.mem_replicate] at hv
        rw [hv.2]; exact ha _ (by simp)
    by_cases h3 : b = .vectorSet
    · subst h3
      rcases applyPure_vectorSet_shape h with ⟨rfl, -⟩ | ⟨id, n, obj, rest, cell, rfl, hc, _, _, _, rfl, rfl⟩
      · exact hσ
      · exact sIn_vsetStore hσ hc _ (ha _ (by simp))
    have hf := applyPure_frames σ b args
    have hv := applyPure_vecs σ b args h1 h2 h3
    rw [h] at hf hv
    exact hσ.of_eq hf hv
  · intro v hv
    subst hv
    have h' : (applyPure σ b args).1 = .ok v := by rw [h]
    by_cases h1 : b = .vector
    · subst h1; rw [applyPure_vector] at h'; cases h'; simp
    by_cases h2 : b = .makeVector
    · subst h2
      rcases applyPure_makeVector_shape h with ⟨-, e, he⟩ | ⟨n, fill, rest, -, -, hr, -⟩
      · cases he
      · cases hr; simp
    cases b <;> simp at h1 h2 <;> simp only [applyPure] at h'
    all_goals first
      | (obtain ⟨a, rfl⟩ := lift_fst h'; simp; done)
      | (obtain ⟨a, rfl⟩ := num1_fst h'; simp; done)
      | (obtain ⟨a, rfl⟩ := num2_fst h'; simp; done)
      | (obtain ⟨a, rfl⟩ := realFn_fst h'; simp; done)
      | (obtain ⟨a, rfl⟩ := realFn2_fst h'; simp; done)
      | skip
    all_goals (repeat' split at h')
    all_goals (simp [ok, err, missing] at h')
    all_goals (try subst h')
    all_goals (try (simp; done))
    · have := ha _ (List.mem_cons_self ..); simp only [vIn_pair] at this; exact this.1
    · have := ha _ (List.mem_cons_self ..); simp only [vIn_pair] at this; exact this.2
    · simp only [vIn_pair]; exact ⟨ha _ (by simp), ha _ (by simp)⟩
    · rename_i cell hc _ _ x hx
      exact hσ.cell _ cell hc x (List.mem_of_getElem? hx)
    · exact ha _ (by simp)

/-- what a literal yields: a value without code, no located error, nothing but code-free vectors
added to the store -/
def LitIn (T : List RPos) (σ : Store) {α} (P : α → Prop) (res : Res α) : Prop :=
  (SIn T σ → SIn T res.2) ∧ (∀ v, res.1 = .ok v → P v) ∧ (∀ e, res.1 = .error e → e.2 = none)

mutual
theorem readLiteral_in : ∀ (d : Datum) (σ : Store),
    LitIn T σ (fun v => v.rlocs = []) (readLiteral σ d)
  | .prim p _, σ => by
    rw [readLiteral]
    split
    · rename_i v hp
      refine ⟨id, fun v' hv => ?_, by simp⟩
      cases hv
      have := evalPrim_vIn (T := []) hp
      simpa [VIn] using this
    · exact ⟨id, by simp, by simp⟩
  | .sym s _, σ => by rw [readLiteral]; exact ⟨id, by simp [Value.rlocs], by simp⟩
  | .nil _, σ => by rw [readLiteral]; exact ⟨id, by simp [Value.rlocs], by simp⟩
  | .pair a d _, σ => by
    rw [readLiteral]
    have ha := readLiteral_in a σ
    split
    · rename_i e σ₁ h₁
      rw [h₁] at ha
      exact ⟨ha.1, by simp, fun e' he => by cases he; exact ha.2.2 e rfl⟩
    · rename_i va σ₁ h₁
      rw [h₁] at ha
      have hd := readLiteral_in d σ₁
      split
      · rename_i e σ₂ h₂
        rw [h₂] at hd
        exact ⟨fun h => hd.1 (ha.1 h), by simp, fun e' he => by cases he; exact hd.2.2 e rfl⟩
      · rename_i vd σ₂ h₂
        rw [h₂] at hd
        refine ⟨fun h => hd.1 (ha.1 h), fun v hv => ?_, by simp⟩
        cases hv
        simp [Value.rlocs, ha.2.1 va rfl, hd.2.1 vd rfl]
  | .vec xs _, σ => by
    rw [readLiteral]
    have hx := readLiterals_in xs σ
    split
    · rename_i e σ₁ h₁
      rw [h₁] at hx
      exact ⟨hx.1, by simp, fun e' he => by cases he; exact hx.2.2 e rfl⟩
    · rename_i vs σ₁ h₁
      rw [h₁] at hx
      refine ⟨fun h => sIn_allocVec (hx.1 h) false (fun v hv => ?_), fun v hv => ?_, by simp⟩
      · exact vIn_atom (hx.2.1 vs rfl v hv)
      · cases hv; rfl
theorem readLiterals_in : ∀ (ds : List Datum) (σ : Store),
    LitIn T σ (fun vs => ∀ v ∈ vs, v.rlocs = []) (readLiterals σ ds)
  | [], σ => by rw [readLiterals]; exact ⟨id, by simp, by simp⟩
  | x :: xs, σ => by
    rw [readLiterals]
    have ha := readLiteral_in x σ
    split
    · rename_i e σ₁ h₁
      rw [h₁] at ha
      exact ⟨ha.1, by simp, fun e' he => by cases he; exact ha.2.2 e rfl⟩
    · rename_i va σ₁ h₁
      rw [h₁] at ha
      have hd := readLiterals_in xs σ₁
      split
      · rename_i e σ₂ h₂
        rw [h₂] at hd
        exact ⟨fun h => hd.1 (ha.1 h), by simp, fun e' he => by cases he; exact hd.2.2 e rfl⟩
      · rename_i vd σ₂ h₂
        rw [h₂] at hd
        refine ⟨fun h => hd.1 (ha.1 h), fun vs hv v hm => ?_, by simp⟩
        cases hv
        simp only [List.mem_cons] at hm
        rcases hm with rfl | hm
        · exact ha.2.1 _ rfl
        · exact hd.2.1 vd rfl v hm
end

theorem readLiteral_post {σ : Store} {d : Datum} {r σ'} (h : readLiteral σ d = (r, σ')) (hσ : SIn T σ) :
    SIn T σ' ∧ (∀ v, r = .ok v → VIn T v) ∧ (∀ e, r = .error e → e.2 = none) := by
  have := readLiteral_in (T := T) d σ
  rw [h] at this
  exact ⟨this.1 hσ, fun v hv => vIn_atom (this.2.1 v hv), this.2.2⟩

theorem bindFixed_in : ∀ (names : List String) (args : List Value) (σ : Store) (ρ : Nat) {r σ'},
    bindFixed σ ρ names args = (r, σ') → SIn T σ → (∀ a ∈ args, VIn T a) →
    SIn T σ' ∧ ∀ rest, r = .ok rest → ∀ a ∈ rest, VIn T a
  | [], args, σ, ρ, r, σ', h, hσ, ha => by
    rw [bindFixed] at h; cases h; exact ⟨hσ, fun rest hr => by cases hr; exact ha⟩
  | _ :: _, [], σ, ρ, r, σ', h, hσ, ha => by
    rw [bindFixed] at h; cases h; exact ⟨hσ, by simp⟩
  | f :: fs, a :: as, σ, ρ, r, σ', h, hσ, ha => by
    rw [bindFixed] at h
    exact bindFixed_in fs as _ ρ h (sIn_define hσ ρ f (ha a (by simp))) (fun x hx => ha x (by simp [hx]))

theorem spreadApply_in {args args' : List Value} {f : Value} (h : spreadApply args = .ok (f, args'))
    (ha : ∀ a ∈ args, VIn T a) : VIn T f ∧ ∀ a ∈ args', VIn T a := by
  unfold spreadApply at h
  split at h
  · cases h
  · rename_i f' rest
    split at h
    · cases h
    · split at h
      · cases h
        exact ⟨ha _ (by simp), by simp⟩
      · rename_i last hl
        have hlast : last ∈ rest := List.mem_of_getLast? hl
        have hal : VIn T last := ha _ (by simp [hlast])
        split at h
        · cases h
          refine ⟨ha _ (by simp), fun a hm => ?_⟩
          rcases List.mem_append.1 hm with hm | hm
          · exact ha _ (List.mem_cons_of_mem _ (List.dropLast_subset _ hm))
          · exact vIn_elems hal a hm
        · cases h
          refine ⟨ha _ (by simp), fun a hm => ?_⟩
          rcases List.mem_append.1 hm with hm | hm
          · exact ha _ (List.mem_cons_of_mem _ (List.dropLast_subset _ hm))
          · exact vIn_elems hal a hm
        · cases h

end steps

/-! ## the evaluator: induction on fuel -/

namespace EvalLoc
open Eval
variable {T : List RPos}

/-- what a located error of the evaluator is: an unbound variable at the position of an identifier,
or a non-procedure at the position of an operator -/
def ErrOK (T : List RPos) (e : SErr) : Prop :=
  ∀ l, e.2 = some l →
    (e.1 = .unbound ∧ (Role.ident, l) ∈ T) ∨ (e.1 = .nonProcedure ∧ (Role.operator, l) ∈ T)

theorem errOK_none (k : Err) : ErrOK T (k, none) := by intro l h; cases h
theorem errOK_of_none {e : SErr} (h : e.2 = none) : ErrOK T e := by intro l h'; rw [h] at h'; cases h'
theorem errOK_unbound {loc : Loc} (h : loc.as .ident ⊆ T) : ErrOK T (.unbound, loc) := by
  intro l hl; simp only at hl; subst hl
  exact Or.inl ⟨rfl, h (by simp [Loc.as])⟩
theorem errOK_nonproc {loc : Loc} (h : loc.as .operator ⊆ T) : ErrOK T (.nonProcedure, loc) := by
  intro l hl; simp only at hl; subst hl
  exact Or.inr ⟨rfl, h (by simp [Loc.as])⟩

/-- the code a tail result carries -/
def TIn (T : List RPos) : TailRes → Prop
  | .value v => VIn T v
  | .tailCall f args _ => f.loc.as .operator ⊆ T ∧ f.rlocs ⊆ T ∧ Expr.rlocsList args ⊆ T

theorem tIn_value {v} : TIn T (.value v) ↔ VIn T v := Iff.rfl
theorem tIn_tailCall {f args env} : TIn T (.tailCall f args env) ↔
    f.loc.as .operator ⊆ T ∧ f.rlocs ⊆ T ∧ Expr.rlocsList args ⊆ T := Iff.rfl

/-! sub-expressions -/
theorem sym_in {s l} : (Expr.sym s l).rlocs ⊆ T ↔ l.as .node ⊆ T ∧ l.as .ident ⊆ T := by
  simp [Expr.rlocs]
theorem assign_in {n e l} : (Expr.assign n e l).rlocs ⊆ T ↔ l.as .node ⊆ T ∧ l.as .ident ⊆ T ∧ e.rlocs ⊆ T := by
  simp [Expr.rlocs]
theorem lambda_in {lam l} : (Expr.lambda lam l).rlocs ⊆ T ↔ l.as .node ⊆ T ∧ lam.rlocs ⊆ T := by
  simp [Expr.rlocs]
theorem call_in {f args l} : (Expr.call f args l).rlocs ⊆ T ↔
    l.as .node ⊆ T ∧ f.loc.as .operator ⊆ T ∧ f.rlocs ⊆ T ∧ Expr.rlocsList args ⊆ T := by
  simp [Expr.rlocs]
theorem cond_in {t c a l} : (Expr.cond t c a l).rlocs ⊆ T ↔
    l.as .node ⊆ T ∧ t.rlocs ⊆ T ∧ c.rlocs ⊆ T ∧ Expr.rlocsOpt a ⊆ T := by
  simp [Expr.rlocs]
theorem opt_some_in {e} : Expr.rlocsOpt (some e) ⊆ T ↔ e.rlocs ⊆ T := by simp [Expr.rlocsOpt]
theorem list_cons_in {e es} : Expr.rlocsList (e :: es) ⊆ T ↔ e.rlocs ⊆ T ∧ Expr.rlocsList es ⊆ T := by
  simp [Expr.rlocsList]
theorem lam_in {lam : Lambda} : lam.rlocs ⊆ T ↔ Def.rlocsList lam.defs ⊆ T ∧ Expr.rlocsList lam.body ⊆ T := by
  cases lam; simp [Lambda.rlocs, Lambda.defs, Lambda.body]
theorem defs_cons_in {n e l ds} : Def.rlocsList (Def.mk n e l :: ds) ⊆ T ↔
    l.as .node ⊆ T ∧ e.rlocs ⊆ T ∧ Def.rlocsList ds ⊆ T := by
  simp [Def.rlocsList, Def.rlocs]

/-- the invariant for all functions of the mutual block at one amount of fuel -/
structure LocAt (T : List RPos) (fuel : Nat) : Prop where
  expr : ∀ σ ρ e r σ', evalExpr fuel σ ρ e = (r, σ') → SIn T σ → e.rlocs ⊆ T →
    SIn T σ' ∧ (∀ v, r = .ok v → VIn T v) ∧ (∀ er, r = .error er → ErrOK T er)
  args : ∀ σ ρ es r σ', evalArgs fuel σ ρ es = (r, σ') → SIn T σ → Expr.rlocsList es ⊆ T →
    SIn T σ' ∧ (∀ vs, r = .ok vs → ∀ v ∈ vs, VIn T v) ∧ (∀ er, r = .error er → ErrOK T er)
  proc : ∀ σ p as env r σ', applyProcedure fuel σ p as env = (r, σ') → SIn T σ → VIn T p →
    (∀ a ∈ as, VIn T a) →
    SIn T σ' ∧ (∀ v, r = .ok v → VIn T v) ∧ (∀ er, r = .error er → ErrOK T er)
  loop : ∀ σ p as env r σ', applyLoop fuel σ p as env = (r, σ') → SIn T σ → VIn T p →
    (∀ a ∈ as, VIn T a) →
    SIn T σ' ∧ (∀ v, r = .ok v → VIn T v) ∧ (∀ er, r = .error er → ErrOK T er)
  scheme : ∀ σ lam cenv as r σ', applyScheme fuel σ lam cenv as = (r, σ') → SIn T σ → lam.rlocs ⊆ T →
    (∀ a ∈ as, VIn T a) →
    SIn T σ' ∧ (∀ t, r = .ok t → TIn T t) ∧ (∀ er, r = .error er → ErrOK T er)
  defs : ∀ σ ρ ds r σ', evalDefs fuel σ ρ ds = (r, σ') → SIn T σ → Def.rlocsList ds ⊆ T →
    SIn T σ' ∧ (∀ er, r = .error er → ErrOK T er)
  body : ∀ σ ρ es r σ', evalBody fuel σ ρ es = (r, σ') → SIn T σ → Expr.rlocsList es ⊆ T →
    SIn T σ' ∧ (∀ t, r = .ok t → TIn T t) ∧ (∀ er, r = .error er → ErrOK T er)
  tail : ∀ σ ρ e r σ', evalTail fuel σ ρ e = (r, σ') → SIn T σ → e.rlocs ⊆ T →
    SIn T σ' ∧ (∀ t, r = .ok t → TIn T t) ∧ (∀ er, r = .error er → ErrOK T er)

theorem locAt_zero : LocAt T 0 := by
  constructor <;> intros <;>
    simp_all [evalExpr, evalArgs, applyProcedure, applyLoop, applyScheme, evalDefs, evalBody, evalTail] <;>
    (have := @errOK_none T; grind)

/-! forward facts -/
theorem fw_lit {σ d r σ'} (h : readLiteral σ d = (r, σ')) (hσ : SIn T σ) :
    SIn T σ' ∧ (∀ v, r = .ok v → VIn T v) ∧ (∀ e, r = .error e → ErrOK T e) := by
  have := readLiteral_post h hσ
  exact ⟨this.1, this.2.1, fun e he => errOK_of_none (this.2.2 e he)⟩
theorem fw_prim {σ b a r σ'} (h : Prim.applyPure σ b a = (r, σ')) (hσ : SIn T σ) (ha : ∀ x ∈ a, VIn T x) :
    SIn T σ' ∧ (∀ v, r = .ok v → VIn T v) ∧ (∀ e, r = .error e → ErrOK T e) := by
  have := applyPure_in h hσ ha
  exact ⟨this.1, this.2.1, fun e he => errOK_of_none (this.2.2 e he)⟩
theorem fw_set {σ : Store} {ρ x v b σ'} (h : σ.set ρ x v = (b, σ')) (hσ : SIn T σ) (hv : VIn T v) :
    SIn T σ' := sIn_set h hσ hv
theorem fw_bind {σ ρ n a r σ'} (h : bindFixed σ ρ n a = (r, σ')) (hσ : SIn T σ) (ha : ∀ x ∈ a, VIn T x) :
    SIn T σ' ∧ ∀ rest, r = .ok rest → VIn T (Value.ofList rest) := by
  have := bindFixed_in n a σ ρ h hσ ha
  exact ⟨this.1, fun rest hr => vIn_ofList (this.2 rest hr)⟩
theorem fw_spread {args args' : List Value} {f : Value} (h : spreadApply args = .ok (f, args'))
    (ha : ∀ a ∈ args, VIn T a) : VIn T f ∧ ∀ a ∈ args', VIn T a := spreadApply_in h ha
theorem fw_cons {v : Value} {vs : List Value} (hv : VIn T v) (hvs : ∀ x ∈ vs, VIn T x) :
    ∀ x ∈ v :: vs, VIn T x := by
  intro x hx; rcases List.mem_cons.1 hx with rfl | hx
  · exact hv
  · exact hvs x hx
theorem fw_nil : ∀ x ∈ ([] : List Value), VIn T x := by simp

theorem locAt_succ {fuel : Nat} (ih : LocAt T fuel) : LocAt T (fuel + 1) := by
  constructor
  · intro σ ρ e r σ' h hσ he
    cases e <;> simp only [evalExpr] at h
    case prim =>
      have := @evalPrim_vIn T; have := @errOK_none T
      repeat' split at h
      all_goals grind
    case datum => have := @fw_lit T; grind
    case quote => have := @fw_lit T; grind
    case call =>
      rw [call_in] at he
      have := ih.expr; have := ih.args; have := ih.proc
      have := @errOK_none T; have := @errOK_nonproc T
      repeat' split at h
      all_goals grind
    case assign =>
      rw [assign_in] at he
      have := ih.expr; have := @fw_set T; have := @vIn_void T; have := @errOK_unbound T
      repeat' split at h
      all_goals grind
    case lambda => rw [lambda_in] at he; have := @vIn_closure T; grind
    case cond =>
      rw [cond_in] at he
      have := ih.expr; have := @vIn_void T; have := @opt_some_in T
      repeat' split at h
      all_goals grind
    case sym =>
      rw [sym_in] at he
      have := @sIn_lookup T; have := @errOK_unbound T
      repeat' split at h
      all_goals grind
  · intro σ ρ es r σ' h hσ he
    cases es <;> simp only [evalArgs] at h
    · have := @fw_nil T; grind
    · rw [list_cons_in] at he
      have := ih.expr; have := ih.args; have := @fw_cons T
      repeat' split at h
      all_goals grind
  · intro σ p as env r σ' h hσ hp ha
    rw [applyProcedure] at h
    split at h
    rename_i heq
    have hl := ih.loop _ _ _ _ _ _ heq (sIn_enter.2 hσ) hp ha
    simp only [Prod.mk.injEq] at h; obtain ⟨rfl, rfl⟩ := h
    exact ⟨sIn_leave.2 hl.1, hl.2⟩
  · intro σ p as env r σ' h hσ hp ha
    rw [applyLoop.eq_def] at h
    dsimp only at h
    have := ih.expr; have := ih.args; have := ih.loop; have := ih.scheme
    have := @fw_prim T; have := @fw_spread T
    have := @vIn_closure T; have := @tIn_value T; have := @tIn_tailCall T
    have := @errOK_none T; have := @errOK_nonproc T
    repeat' split at h
    all_goals grind
  · intro σ lam cenv as r σ' h hσ hl ha
    simp only [applyScheme] at h
    rw [lam_in] at hl
    have := ih.defs; have := ih.body
    have := @fw_bind T; have := @sIn_newFrame T; have := @sIn_define T; have := @errOK_none T
    revert h
    cases lam.formals.rest <;> intro h <;> dsimp only at h
    all_goals (repeat' split at h)
    all_goals grind
  · intro σ ρ ds r σ' h hσ hd
    rcases ds with _ | ⟨⟨name, e, l⟩, ds⟩ <;> simp only [evalDefs] at h
    · grind
    · rw [defs_cons_in] at hd
      have := ih.expr; have := ih.defs; have := @sIn_define T
      repeat' split at h
      all_goals grind
  · intro σ ρ es r σ' h hσ he
    rcases es with _ | ⟨e, _ | ⟨e', es⟩⟩ <;> simp only [evalBody] at h
    · have := @errOK_none T; grind
    · rw [list_cons_in] at he; have := ih.tail; grind
    · rw [list_cons_in] at he
      have := ih.expr; have := ih.body
      repeat' split at h
      all_goals grind
  · intro σ ρ e r σ' h hσ he
    have := ih.expr; have := ih.tail
    have := @vIn_void T; have := @tIn_value T; have := @tIn_tailCall T; have := @opt_some_in T
    cases e <;> simp only [evalTail] at h
    case call => rw [call_in] at he; grind
    case cond =>
      rw [cond_in] at he
      repeat' split at h
      all_goals grind
    all_goals
      (split at h
       · rename_i er σ1 heq; cases h
         have := ih.expr _ _ _ _ _ heq hσ he
         exact ⟨this.1, by simp, fun er' h' => by cases h'; exact this.2.2 _ rfl⟩
       · rename_i v σ1 heq; cases h
         have := ih.expr _ _ _ _ _ heq hσ he
         exact ⟨this.1, fun t ht => by cases ht; exact this.2.1 _ rfl, by simp⟩)

theorem locAt : ∀ fuel, LocAt T fuel
  | 0 => locAt_zero
  | fuel + 1 => locAt_succ (locAt fuel)

/-- the evaluator on an expression, relative to the positions of the store and the expression -/
theorem evalExpr_post {n σ ρ e r σ'} (h : evalExpr n σ ρ e = (r, σ')) :
    SIn (σ.rlocs ++ e.rlocs) σ' ∧ (∀ v, r = .ok v → VIn (σ.rlocs ++ e.rlocs) v) ∧
      (∀ er, r = .error er → ErrOK (σ.rlocs ++ e.rlocs) er) :=
  (locAt n).expr σ ρ e r σ' h (sIn_iff.2 (List.subset_append_left _ _)) (List.subset_append_right _ _)

end EvalLoc

theorem mem_unrole {l : Pos} {L : List RPos} : l ∈ unrole L ↔ ∃ r, (r, l) ∈ L := by
  simp [unrole]

theorem unrole_append (a b : List RPos) : unrole (a ++ b) = unrole a ++ unrole b := by
  simp [unrole]

theorem unrole_subset {a b : List RPos} (h : a ⊆ b) : unrole a ⊆ unrole b := by
  intro l hl; rw [mem_unrole] at hl ⊢; obtain ⟨r, hr⟩ := hl; exact ⟨r, h hr⟩

/-! ## the interpreter around the evaluator -/

namespace InterpLoc
open Interp EvalLoc

/-- the code an interpreter state holds has its positions in `T` (`stIn_iff`: `st.rlocs ⊆ T`) -/
structure StIn (T : List RPos) (st : State) : Prop where
  store : SIn T st.store
  instances : ∀ p ∈ st.instances, ∀ kv ∈ p.2, VIn T kv.2
  factories : ∀ p ∈ st.factories, p.2.rlocs ⊆ T

theorem stIn_iff {T : List RPos} {st : State} : StIn T st ↔ st.rlocs ⊆ T := by
  simp only [State.rlocs, List.append_subset, ← sIn_iff]
  constructor
  · intro h
    refine ⟨h.store, ?_, ?_⟩
    · intro x hx
      simp only [List.mem_flatMap] at hx
      obtain ⟨p, hp, kv, hkv, hx⟩ := hx
      exact h.instances p hp kv hkv hx
    · intro x hx
      simp only [List.mem_flatMap] at hx
      obtain ⟨p, hp, hx⟩ := hx
      exact h.factories p hp hx
  · intro h
    refine ⟨h.1, fun p hp kv hkv x hx => h.2.1 ?_, fun p hp x hx => h.2.2 ?_⟩
    · simp only [List.mem_flatMap]; exact ⟨p, hp, kv, hkv, hx⟩
    · simp only [List.mem_flatMap]; exact ⟨p, hp, hx⟩

/-- an error that arose while reading a library file: the only errors whose position refers to a
text other than the program (`Lexer::without_locations` strips the tokens, not the lexer's own
errors) -/
def LibReadErr (e : SErr) : Prop := ∃ name text, factoryOfText name text = .error e

/-- what a located error of the interpreter is -/
def IErrOK (T : List RPos) (e : SErr) : Prop :=
  ∀ l, e.2 = some l →
    (e.1 = .unbound ∧ ((Role.ident, l) ∈ T ∨ (Role.export, l) ∈ T)) ∨
    (e.1 = .nonProcedure ∧ (Role.operator, l) ∈ T) ∨
    ((e.1 = .cyclic ∨ e.1 = .libNotFound) ∧ (Role.libname, l) ∈ T) ∨
    LibReadErr e

variable {T : List RPos}

theorem iErrOK_none (k : Err) : IErrOK T (k, none) := by intro l h; cases h
theorem iErrOK_of_errOK {e : SErr} (h : ErrOK T e) : IErrOK T e := by
  intro l hl
  rcases h l hl with ⟨h1, h2⟩ | ⟨h1, h2⟩
  · exact Or.inl ⟨h1, Or.inl h2⟩
  · exact Or.inr (Or.inl ⟨h1, h2⟩)
theorem iErrOK_cyclic {loc : Loc} (h : loc.as .libname ⊆ T) : IErrOK T (.cyclic, loc) := by
  intro l hl; simp only at hl; subst hl
  exact Or.inr (Or.inr (Or.inl ⟨Or.inl rfl, h (by simp [Loc.as])⟩))
theorem iErrOK_notFound {loc : Loc} (h : loc.as .libname ⊆ T) : IErrOK T (.libNotFound, loc) := by
  intro l hl; simp only at hl; subst hl
  exact Or.inr (Or.inr (Or.inl ⟨Or.inr rfl, h (by simp [Loc.as])⟩))
theorem iErrOK_export {loc : Loc} (h : loc.as .export ⊆ T) : IErrOK T (.unbound, loc) := by
  intro l hl; simp only at hl; subst hl
  exact Or.inl ⟨rfl, Or.inr (h (by simp [Loc.as]))⟩

theorem StIn.with_store {st : State} (h : StIn T st) {σ : Store} (hσ : SIn T σ) :
    StIn T { st with store := σ } := ⟨hσ, h.instances, h.factories⟩

theorem evalExprOrDef_in {fuel st s ρ r st'} (h : evalExprOrDef fuel st s ρ = (r, st'))
    (hst : StIn T st) (hs : s.rlocs ⊆ T) : StIn T st' ∧ ∀ e, r = .error e → IErrOK T e := by
  unfold evalExprOrDef at h
  split at h
  · rename_i e
    simp only [Statement.rlocs] at hs
    split at h <;> rename_i he <;> cases h
    · have := (locAt fuel).expr _ _ _ _ _ he hst.store hs
      exact ⟨hst.with_store this.1, by simp⟩
    · have := (locAt fuel).expr _ _ _ _ _ he hst.store hs
      exact ⟨hst.with_store this.1, fun e' he' => by cases he'; exact iErrOK_of_errOK (this.2.2 _ rfl)⟩
  · rename_i name e l
    simp only [Statement.rlocs, Def.rlocs, List.append_subset] at hs
    split at h <;> rename_i he <;> cases h
    · have := (locAt fuel).expr _ _ _ _ _ he hst.store hs.2
      exact ⟨hst.with_store (sIn_define this.1 _ _ (this.2.1 _ rfl)), by simp⟩
    · have := (locAt fuel).expr _ _ _ _ _ he hst.store hs.2
      exact ⟨hst.with_store this.1, fun e' he' => by cases he'; exact iErrOK_of_errOK (this.2.2 _ rfl)⟩
  · cases h
    exact ⟨hst.with_store (sIn_define hst.store _ _ vIn_transformer), by simp⟩
  · cases h; exact ⟨hst, fun e he => by cases he; exact iErrOK_none _⟩

/-! ### association lists -/

theorem mem_libInsert {α} {l : List (LibName × α)} {k : LibName} {v : α} {p : LibName × α}
    (h : p ∈ libInsert l k v) : p = (k, v) ∨ p ∈ l := by
  induction l with
  | nil => simpa [libInsert] using h
  | cons q rest ih =>
    obtain ⟨k', v'⟩ := q
    simp only [libInsert] at h
    split at h
    · simp only [List.mem_cons] at h ⊢
      rcases h with h | h
      · exact Or.inl h
      · exact Or.inr (Or.inr h)
    · simp only [List.mem_cons] at h ⊢
      rcases h with h | h
      · exact Or.inr (Or.inl h)
      · rcases ih h with h | h
        · exact Or.inl h
        · exact Or.inr (Or.inr h)

theorem mem_of_libLookup {α} {l : List (LibName × α)} {k : LibName} {v : α}
    (h : libLookup l k = some v) : (k, v) ∈ l := by
  induction l with
  | nil => simp [libLookup] at h
  | cons q rest ih =>
    obtain ⟨k', v'⟩ := q
    simp only [libLookup] at h
    split at h
    · cases h; rename_i hk; subst hk; simp
    · exact List.mem_cons_of_mem _ (ih h)

theorem mem_assocInsert {α} {l : List (String × α)} {k : String} {v : α} {p : String × α}
    (h : p ∈ assocInsert l k v) : p = (k, v) ∨ p ∈ l := by
  induction l with
  | nil => simpa [assocInsert] using h
  | cons q rest ih =>
    obtain ⟨k', v'⟩ := q
    simp only [assocInsert] at h
    split at h
    · simp only [List.mem_cons] at h ⊢
      rcases h with h | h
      · exact Or.inl h
      · exact Or.inr (Or.inr h)
    · simp only [List.mem_cons] at h ⊢
      rcases h with h | h
      · exact Or.inr (Or.inl h)
      · rcases ih h with h | h
        · exact Or.inl h
        · exact Or.inr (Or.inr h)

/-- all values of a list of bindings have their code positions in `T` -/
def BIn (T : List RPos) (defs : List (String × Value)) : Prop := ∀ kv ∈ defs, VIn T kv.2

theorem bIn_nil : BIn T [] := by simp [BIn]

theorem bIn_assocInsert {acc : List (String × Value)} {k : String} {v : Value} (ha : BIn T acc)
    (hv : VIn T v) : BIn T (assocInsert acc k v) := by
  intro kv hkv
  rcases mem_assocInsert hkv with rfl | h
  · exact hv
  · exact ha kv h

/-- merging the bindings of an import set into the accumulated ones (a name imported twice with
different values is an unlocated error) -/
theorem bIn_foldlM_insert {σ : Store} {defs : List (String × Value)} (hd : BIn T defs) :
    ∀ {acc : List (String × Value)} {r}, BIn T acc →
      defs.foldlM (fun (a : List (String × Value)) p =>
          match a.lookup p.1 with
          | some prev => if Prim.derivedEq σ 100000 prev p.2 then Except.ok (assocInsert a p.1 p.2)
                         else Except.error ((Err.other, none) : SErr)
          | none => Except.ok (assocInsert a p.1 p.2)) acc = r →
      (∀ acc', r = .ok acc' → BIn T acc') ∧ (∀ e, r = .error e → e.2 = none) := by
  induction defs with
  | nil =>
    intro acc r ha h
    simp only [List.foldlM_nil, pure, Except.pure] at h; subst h
    exact ⟨fun a' h' => by cases h'; exact ha, by simp⟩
  | cons p rest ih =>
    intro acc r ha h
    simp only [List.foldlM_cons, bind, Except.bind] at h
    have hrest : BIn T rest := fun kv h => hd kv (List.mem_cons_of_mem _ h)
    have hins := bIn_assocInsert (k := p.1) ha (hd p (List.mem_cons_self ..))
    cases hl : List.lookup p.1 acc with
    | none => simp only [hl] at h; exact ih hrest hins h
    | some prev =>
      simp only [hl] at h
      by_cases hq : Prim.derivedEq σ 100000 prev p.2 = true
      · simp only [hq, if_true] at h; exact ih hrest hins h
      · simp only [hq] at h
        subst h; exact ⟨by simp, fun e he => by cases he; rfl⟩

theorem sIn_foldl_define {defs : List (String × Value)} (hd : BIn T defs) (ρ : Nat) :
    ∀ {σ : Store}, SIn T σ → SIn T (defs.foldl (fun σ p => σ.define ρ p.1 p.2) σ) := by
  induction defs with
  | nil => intro σ h; exact h
  | cons p rest ih =>
    intro σ h
    simp only [List.foldl_cons]
    exact ih (fun kv h => hd kv (List.mem_cons_of_mem _ h))
      (sIn_define h ρ p.1 (hd p (List.mem_cons_self ..)))

theorem bIn_filter {defs : List (String × Value)} (hd : BIn T defs) (f : String × Value → Bool) :
    BIn T (defs.filter f) := fun kv h => hd kv (List.mem_filter.1 h).1

theorem bIn_map {defs : List (String × Value)} (hd : BIn T defs) (g : String → String) :
    BIn T (defs.map (fun q => (g q.1, q.2))) := by
  intro kv h
  simp only [List.mem_map] at h
  obtain ⟨q, hq, rfl⟩ := h
  exact hd q hq

/-! ### `get_library` and `eval_library_definition` in pieces (as in `LibLemmas`, repeated here so
that this file does not depend on it) -/

/-- the factory `get_library` finds for a name that has no instance yet -/
def findFactory (st : State) (name : LibName) (loc : Loc) : Except SErr Factory × State :=
  match libLookup st.factories name with
  | some f => (.ok f, st)
  | none =>
    match st.files.lookup (libPath name) with
    | none => (.error (.libNotFound, loc), st)
    | some .unreadable => (.error (.io, none), st)
    | some (.text t) =>
      match factoryOfText name t with
      | .ok f => (.ok f, { st with factories := libInsert st.factories name f })
      | .error e => (.error e, st)

def newLibrary (fuel : Nat) (st : State) (f : Factory) : Except SErr (List (String × Value)) × State :=
  match f with
  | .native defs => (.ok defs, st)
  | .ast decls => evalLibraryDef fuel st decls

def cacheInstance (name : LibName) (res : Except SErr (List (String × Value)) × State) :
    Except SErr (List (String × Value)) × State :=
  match res.1 with
  | .ok defs => (.ok defs, { res.2 with instances := libInsert res.2.instances name defs })
  | .error e => (.error e, res.2)

def instantiate (fuel : Nat) (st : State) (f : Factory) (name : LibName) :
    Except SErr (List (String × Value)) × State :=
  cacheInstance name (newLibrary fuel st f)

theorem getLibrary_succ_eq (fuel : Nat) (st : State) (name : LibName) (loc : Loc) :
    Interp.getLibrary (fuel + 1) st name loc =
      match libLookup st.instances name with
      | some defs => (.ok defs, st)
      | none =>
        match findFactory st name loc with
        | (.error e, st) => (.error e, st)
        | (.ok f, st) => instantiate fuel st f name := by
  rw [Interp.getLibrary]
  rfl

def ExportSpec.internal : ExportSpec → String
  | .direct n _ => n
  | .rename a _ _ => a
def ExportSpec.external : ExportSpec → String
  | .direct n _ => n
  | .rename _ b _ => b

/-- one step of the export loop of `evalLibraryDef` -/
def exportStep (look : String → Option Value) (acc : List (String × Value)) (ex : ExportSpec) :
    Except SErr (List (String × Value)) :=
  match look (ExportSpec.internal ex) with
  | some v => .ok (assocInsert acc (ExportSpec.external ex) v)
  | none => .error (.unbound, ex.loc)

theorem evalLibraryDef_succ_eq (fuel : Nat) (st : State) (decls : List LibDecl) :
    evalLibraryDef (fuel + 1) st decls =
      match evalLibDecls fuel { st with store := (st.store.newFrame none).2 } st.store.frames.size decls [] with
      | (.error e, st') => (.error e, st')
      | (.ok exports, st') =>
        (exports.foldlM (exportStep (st'.store.lookup st.store.frames.size)) [], st') := by
  rw [evalLibraryDef]
  simp only [Store.newFrame]
  generalize evalLibDecls fuel _ _ decls [] = res
  obtain ⟨r, st'⟩ := res
  cases r with
  | error e => rfl
  | ok exports =>
    simp only
    congr 2
    funext acc ex
    cases ex <;> simp only [exportStep, ExportSpec.internal, ExportSpec.external, ExportSpec.loc] <;>
      split <;> simp_all

/-- the exports of a library are looked up in its frame -/
theorem exports_in {σ : Store} (hσ : SIn T σ) (ρ : Nat) : ∀ (exports : List ExportSpec)
    (acc : List (String × Value)), BIn T acc → (∀ s ∈ exports, s.loc.as .export ⊆ T) →
    ∀ r, exports.foldlM (exportStep (σ.lookup ρ)) acc = r →
      (∀ defs, r = .ok defs → BIn T defs) ∧ (∀ e, r = .error e → IErrOK T e)
  | [], acc, ha, _, r, h => by
    simp only [List.foldlM_nil, pure, Except.pure] at h; subst h
    exact ⟨fun defs hd => by cases hd; exact ha, by simp⟩
  | ex :: rest, acc, ha, he, r, h => by
    simp only [List.foldlM_cons, bind, Except.bind] at h
    have hex := he ex (List.mem_cons_self ..)
    have hrest : ∀ s ∈ rest, s.loc.as .export ⊆ T := fun s hs => he s (List.mem_cons_of_mem _ hs)
    unfold exportStep at h
    cases hl : σ.lookup ρ (ExportSpec.internal ex) with
    | none =>
      simp only [hl] at h; subst h
      refine ⟨by simp, fun e he' => ?_⟩
      cases he'
      exact iErrOK_export hex
    | some v =>
      simp only [hl] at h
      exact exports_in hσ ρ rest _ (bIn_assocInsert ha (sIn_lookup hσ hl)) hrest r h

/-- library files are read without positions: the code of a factory made from a file carries none
(proved as `factoryOfText_unlocated` from the reader/transformer theorems) -/
def LibClean : Prop :=
  ∀ name text f, factoryOfText name text = .ok f → f.rlocs = []

/-- the invariant for all functions of the mutual block at one amount of fuel -/
structure InterpAt (T : List RPos) (fuel : Nat) : Prop where
  importSet : ∀ {st s r st'}, evalImportSet fuel st s = (r, st') → StIn T st →
    ImportSet.rlocsList [s] ⊆ T →
    StIn T st' ∧ (∀ defs, r = .ok defs → BIn T defs) ∧ (∀ e, r = .error e → IErrOK T e)
  getLibrary : ∀ {st name loc r st'}, getLibrary fuel st name loc = (r, st') → StIn T st →
    loc.as .libname ⊆ T →
    StIn T st' ∧ (∀ defs, r = .ok defs → BIn T defs) ∧ (∀ e, r = .error e → IErrOK T e)
  import_ : ∀ {st sets ρ r st'}, evalImport fuel st sets ρ = (r, st') → StIn T st →
    ImportSet.rlocsList sets ⊆ T → StIn T st' ∧ (∀ e, r = .error e → IErrOK T e)
  importSets : ∀ {st sets acc r st'}, evalImportSets fuel st sets acc = (r, st') → StIn T st →
    ImportSet.rlocsList sets ⊆ T → BIn T acc →
    StIn T st' ∧ (∀ defs, r = .ok defs → BIn T defs) ∧ (∀ e, r = .error e → IErrOK T e)
  libraryDef : ∀ {st decls r st'}, evalLibraryDef fuel st decls = (r, st') → StIn T st →
    LibDecl.rlocsList decls ⊆ T →
    StIn T st' ∧ (∀ defs, r = .ok defs → BIn T defs) ∧ (∀ e, r = .error e → IErrOK T e)
  libDecls : ∀ {st ρ decls acc r st'}, evalLibDecls fuel st ρ decls acc = (r, st') → StIn T st →
    LibDecl.rlocsList decls ⊆ T → (∀ s ∈ acc, s.loc.as .export ⊆ T) →
    StIn T st' ∧ (∀ ex, r = .ok ex → ∀ s ∈ ex, s.loc.as .export ⊆ T) ∧
      (∀ e, r = .error e → IErrOK T e)
  statements : ∀ {st ρ ss r st'}, evalStatements fuel st ρ ss = (r, st') → StIn T st →
    Statement.rlocsList ss ⊆ T → StIn T st' ∧ (∀ e, r = .error e → IErrOK T e)

theorem interpAt_zero : InterpAt T 0 := by
  constructor
  · intro st s r st' h hst _; rw [evalImportSet] at h; cases h
    exact ⟨hst, by simp, fun e he => by cases he; exact iErrOK_none _⟩
  · intro st name loc r st' h hst _; rw [Interp.getLibrary] at h; cases h
    exact ⟨hst, by simp, fun e he => by cases he; exact iErrOK_none _⟩
  · intro st sets ρ r st' h hst _; rw [evalImport] at h; cases h
    exact ⟨hst, fun e he => by cases he; exact iErrOK_none _⟩
  · intro st sets acc r st' h hst _ _; rw [evalImportSets] at h; cases h
    exact ⟨hst, by simp, fun e he => by cases he; exact iErrOK_none _⟩
  · intro st decls r st' h hst _; rw [evalLibraryDef] at h; cases h
    exact ⟨hst, by simp, fun e he => by cases he; exact iErrOK_none _⟩
  · intro st ρ decls acc r st' h hst _ _; rw [evalLibDecls] at h; cases h
    exact ⟨hst, by simp, fun e he => by cases he; exact iErrOK_none _⟩
  · intro st ρ ss r st' h hst _; rw [evalStatements] at h; cases h
    exact ⟨hst, fun e he => by cases he; exact iErrOK_none _⟩

theorem rlocsList_cons {s : ImportSet} {sets : List ImportSet} :
    ImportSet.rlocsList (s :: sets) ⊆ T ↔ ImportSet.rlocsList [s] ⊆ T ∧ ImportSet.rlocsList sets ⊆ T := by
  simp [ImportSet.rlocsList, List.map_append]

theorem importSet_succ {fuel} (ih : InterpAt T fuel) {st s r st'}
    (h : evalImportSet (fuel + 1) st s = (r, st')) (hst : StIn T st) (hs : ImportSet.rlocsList [s] ⊆ T) :
    StIn T st' ∧ (∀ defs, r = .ok defs → BIn T defs) ∧ (∀ e, r = .error e → IErrOK T e) := by
  cases s with
  | direct name loc =>
    have hloc : loc.as .libname ⊆ T := by
      simpa [ImportSet.rlocsList, ImportSet.locs, Loc.as] using hs
    rw [evalImportSet] at h
    split at h
    · cases h; exact ⟨hst, by simp, fun e he => by cases he; exact iErrOK_cyclic hloc⟩
    · cases h
      have i := ih.getLibrary (st := { st with inProgress := name :: st.inProgress }) (name := name)
        (loc := loc) (r := _) (st' := _) rfl ⟨hst.store, hst.instances, hst.factories⟩ hloc
      exact ⟨⟨i.1.store, i.1.instances, i.1.factories⟩, i.2⟩
  | only sub ids =>
    have hs' : ImportSet.rlocsList [sub] ⊆ T := by simpa [ImportSet.rlocsList, ImportSet.locs] using hs
    rw [evalImportSet] at h
    split at h <;> rename_i he <;> cases h
    · have i := ih.importSet he hst hs'
      exact ⟨i.1, fun d hd => by cases hd; exact bIn_filter (i.2.1 _ rfl) _, by simp⟩
    · have i := ih.importSet he hst hs'
      exact ⟨i.1, by simp, fun e he => by cases he; exact i.2.2 _ rfl⟩
  | except sub ids =>
    have hs' : ImportSet.rlocsList [sub] ⊆ T := by simpa [ImportSet.rlocsList, ImportSet.locs] using hs
    rw [evalImportSet] at h
    split at h <;> rename_i he <;> cases h
    · have i := ih.importSet he hst hs'
      exact ⟨i.1, fun d hd => by cases hd; exact bIn_filter (i.2.1 _ rfl) _, by simp⟩
    · have i := ih.importSet he hst hs'
      exact ⟨i.1, by simp, fun e he => by cases he; exact i.2.2 _ rfl⟩
  | «prefix» sub p =>
    have hs' : ImportSet.rlocsList [sub] ⊆ T := by simpa [ImportSet.rlocsList, ImportSet.locs] using hs
    rw [evalImportSet] at h
    split at h <;> rename_i he <;> cases h
    · have i := ih.importSet he hst hs'
      exact ⟨i.1, fun d hd => by cases hd; exact bIn_map (i.2.1 _ rfl) _, by simp⟩
    · have i := ih.importSet he hst hs'
      exact ⟨i.1, by simp, fun e he => by cases he; exact i.2.2 _ rfl⟩
  | rename sub pairs =>
    have hs' : ImportSet.rlocsList [sub] ⊆ T := by simpa [ImportSet.rlocsList, ImportSet.locs] using hs
    rw [evalImportSet] at h
    split at h <;> rename_i he <;> cases h
    · have i := ih.importSet he hst hs'
      exact ⟨i.1, fun d hd => by cases hd; exact bIn_map (i.2.1 _ rfl) (fun n => (List.lookup n pairs.reverse).getD n), by simp⟩
    · have i := ih.importSet he hst hs'
      exact ⟨i.1, by simp, fun e he => by cases he; exact i.2.2 _ rfl⟩

theorem getLibrary_succ (hc : LibClean) {fuel} (ih : InterpAt T fuel) {st name loc r st'}
    (h : Interp.getLibrary (fuel + 1) st name loc = (r, st')) (hst : StIn T st)
    (hloc : loc.as .libname ⊆ T) :
    StIn T st' ∧ (∀ defs, r = .ok defs → BIn T defs) ∧ (∀ e, r = .error e → IErrOK T e) := by
  rw [getLibrary_succ_eq] at h
  split at h
  · rename_i defs hd
    cases h
    exact ⟨hst, fun d hd' => by cases hd'; exact hst.instances _ (mem_of_libLookup hd), by simp⟩
  · -- the factory
    have hfind : ∀ {rf stf}, findFactory st name loc = (rf, stf) →
        StIn T stf ∧ (∀ f, rf = .ok f → f.rlocs ⊆ T) ∧ (∀ e, rf = .error e → IErrOK T e) := by
      intro rf stf hf
      unfold findFactory at hf
      split at hf
      · rename_i f hl; cases hf
        exact ⟨hst, fun f' hf' => by cases hf'; exact hst.factories _ (mem_of_libLookup hl), by simp⟩
      · split at hf
        · cases hf; exact ⟨hst, by simp, fun e he => by cases he; exact iErrOK_notFound hloc⟩
        · cases hf; exact ⟨hst, by simp, fun e he => by cases he; exact iErrOK_none _⟩
        · rename_i t _
          split at hf
          · rename_i f hft; cases hf
            have hf0 : f.rlocs ⊆ T := by rw [hc _ _ _ hft]; simp
            refine ⟨⟨hst.store, hst.instances, ?_⟩, fun f' hf' => by cases hf'; exact hf0, by simp⟩
            intro p hp
            rcases mem_libInsert hp with rfl | hp
            · exact hf0
            · exact hst.factories p hp
          · rename_i e hft; cases hf
            exact ⟨hst, by simp, fun e' he => by
              cases he; intro l hl; exact Or.inr (Or.inr (Or.inr ⟨_, _, hft⟩))⟩
    split at h
    · rename_i e stf hf; cases h
      have := hfind hf
      exact ⟨this.1, by simp, fun e' he => by cases he; exact this.2.2 _ rfl⟩
    · rename_i f stf hf
      have hF := hfind hf
      have hf0 := hF.2.1 f rfl
      unfold instantiate cacheInstance newLibrary at h
      cases f with
      | native defs =>
        simp only at h
        cases h
        have hb : BIn T defs := by
          intro kv hkv x hx
          apply hf0
          simp only [Factory.rlocs, List.mem_flatMap]
          exact ⟨kv, hkv, hx⟩
        refine ⟨⟨hF.1.store, ?_, hF.1.factories⟩, fun d hd => by cases hd; exact hb, by simp⟩
        intro p hp
        rcases mem_libInsert hp with rfl | hp
        · exact hb
        · exact hF.1.instances p hp
      | ast decls =>
        simp only at h
        have i := ih.libraryDef (st := stf) (decls := decls) (r := _) (st' := _) rfl hF.1 hf0
        split at h
        · rename_i defs hr
          cases h
          have hb := i.2.1 defs hr
          refine ⟨⟨i.1.store, ?_, i.1.factories⟩, fun d hd => by cases hd; exact hb, by simp⟩
          intro p hp
          rcases mem_libInsert hp with rfl | hp
          · exact hb
          · exact i.1.instances p hp
        · rename_i e hr
          cases h
          exact ⟨i.1, by simp, fun e' he => by cases he; exact i.2.2 _ hr⟩

theorem import_succ {fuel} (ih : InterpAt T fuel) {st sets ρ r st'}
    (h : evalImport (fuel + 1) st sets ρ = (r, st')) (hst : StIn T st)
    (hs : ImportSet.rlocsList sets ⊆ T) : StIn T st' ∧ (∀ e, r = .error e → IErrOK T e) := by
  rw [evalImport] at h
  split at h <;> rename_i he <;> cases h
  · have i := ih.importSets he hst hs bIn_nil
    exact ⟨i.1, fun e he => by cases he; exact i.2.2 _ rfl⟩
  · have i := ih.importSets he hst hs bIn_nil
    exact ⟨i.1.with_store (sIn_foldl_define (i.2.1 _ rfl) ρ i.1.store), by simp⟩

theorem importSets_succ {fuel} (ih : InterpAt T fuel) {st sets acc r st'}
    (h : evalImportSets (fuel + 1) st sets acc = (r, st')) (hst : StIn T st)
    (hs : ImportSet.rlocsList sets ⊆ T) (ha : BIn T acc) :
    StIn T st' ∧ (∀ defs, r = .ok defs → BIn T defs) ∧ (∀ e, r = .error e → IErrOK T e) := by
  cases sets with
  | nil => rw [evalImportSets] at h; cases h; exact ⟨hst, fun d hd => by cases hd; exact ha, by simp⟩
  | cons s rest =>
    rw [rlocsList_cons] at hs
    rw [evalImportSets] at h
    split at h <;> rename_i he
    · cases h
      have i := ih.importSet he hst hs.1
      exact ⟨i.1, by simp, fun e he => by cases he; exact i.2.2 _ rfl⟩
    · have i := ih.importSet he hst hs.1
      split at h
      · rename_i e hm
        cases h
        have := bIn_foldlM_insert (i.2.1 _ rfl) ha hm
        exact ⟨i.1, by simp, fun e' he' => by
          cases he'; intro l hl; rw [this.2 _ rfl] at hl; cases hl⟩
      · rename_i acc' hm
        have := bIn_foldlM_insert (i.2.1 _ rfl) ha hm
        exact ih.importSets h i.1 hs.2 (this.1 _ rfl)

theorem libraryDef_succ {fuel} (ih : InterpAt T fuel) {st decls r st'}
    (h : evalLibraryDef (fuel + 1) st decls = (r, st')) (hst : StIn T st)
    (hd : LibDecl.rlocsList decls ⊆ T) :
    StIn T st' ∧ (∀ defs, r = .ok defs → BIn T defs) ∧ (∀ e, r = .error e → IErrOK T e) := by
  rw [evalLibraryDef_succ_eq] at h
  have hst1 : StIn T { st with store := (st.store.newFrame none).2 } :=
    hst.with_store (sIn_newFrame hst.store none)
  split at h <;> rename_i he <;> cases h
  · have i := ih.libDecls he hst1 hd (by simp)
    exact ⟨i.1, by simp, fun e he => by cases he; exact i.2.2 _ rfl⟩
  · have i := ih.libDecls he hst1 hd (by simp)
    exact ⟨i.1, exports_in i.1.store _ _ [] bIn_nil (i.2.1 _ rfl) _ rfl⟩

theorem libDecls_succ {fuel} (ih : InterpAt T fuel) {st ρ decls acc r st'}
    (h : evalLibDecls (fuel + 1) st ρ decls acc = (r, st')) (hst : StIn T st)
    (hd : LibDecl.rlocsList decls ⊆ T) (ha : ∀ s ∈ acc, s.loc.as .export ⊆ T) :
    StIn T st' ∧ (∀ ex, r = .ok ex → ∀ s ∈ ex, s.loc.as .export ⊆ T) ∧
      (∀ e, r = .error e → IErrOK T e) := by
  cases decls with
  | nil => rw [evalLibDecls] at h; cases h; exact ⟨hst, fun ex he => by cases he; exact ha, by simp⟩
  | cons d ds =>
    simp only [LibDecl.rlocsList, List.append_subset] at hd
    cases d <;> rw [evalLibDecls] at h <;> simp only [LibDecl.rlocs] at hd
    · split at h <;> rename_i he
      · cases h
        have i := ih.import_ he hst hd.1
        exact ⟨i.1, by simp, fun e he => by cases he; exact i.2 _ rfl⟩
      · exact ih.libDecls h (ih.import_ he hst hd.1).1 hd.2 ha
    · refine ih.libDecls h hst hd.2 ?_
      intro s hs
      rcases List.mem_append.1 hs with hs | hs
      · exact ha s hs
      · intro x hx; apply hd.1; simp only [List.mem_flatMap]; exact ⟨s, hs, hx⟩
    · split at h <;> rename_i he
      · cases h
        have i := ih.statements he hst hd.1
        exact ⟨i.1, by simp, fun e he => by cases he; exact i.2 _ rfl⟩
      · exact ih.libDecls h (ih.statements he hst hd.1).1 hd.2 ha

theorem statements_succ {fuel} (ih : InterpAt T fuel) {st ρ ss r st'}
    (h : evalStatements (fuel + 1) st ρ ss = (r, st')) (hst : StIn T st)
    (hs : Statement.rlocsList ss ⊆ T) : StIn T st' ∧ (∀ e, r = .error e → IErrOK T e) := by
  cases ss with
  | nil => rw [evalStatements] at h; cases h; exact ⟨hst, by simp⟩
  | cons s rest =>
    simp only [Statement.rlocsList, List.append_subset] at hs
    rw [evalStatements] at h
    split at h <;> rename_i he
    · cases h
      have i := evalExprOrDef_in he hst hs.1
      exact ⟨i.1, fun e he => by cases he; exact i.2 _ rfl⟩
    · exact ih.statements h (evalExprOrDef_in he hst hs.1).1 hs.2

theorem interpAt (hc : LibClean) : ∀ fuel, InterpAt T fuel
  | 0 => interpAt_zero
  | fuel + 1 =>
    have ih := interpAt hc fuel
    ⟨importSet_succ ih, getLibrary_succ hc ih, import_succ ih, importSets_succ ih,
     libraryDef_succ ih, libDecls_succ ih, statements_succ ih⟩

/-- `eval_ast`: the state keeps its invariant; the reported error is an error of the kinds above
whose missing position is replaced by the statement's -/
theorem evalAst_in (hc : LibClean) {fuel st s r st'} (h : evalAst fuel st s = (r, st'))
    (hst : StIn T st) (hs : s.rlocs ⊆ T) :
    StIn T st' ∧ ∀ k loc, r = .error (k, loc) →
      ∃ loc0, IErrOK T (k, loc0) ∧ loc = loc0.orElse (fun _ => s.loc) := by
  unfold evalAst at h
  generalize hres : (if (!st.importEnd) = true then _ else _ : Except SErr (Option Value) × State) = res at h
  have key : StIn T res.2 ∧ ∀ e, res.1 = .error e → IErrOK T e ∨ e.2 = s.loc := by
    subst hres
    split
    · split
      · rename_i sets l
        simp only [Statement.rlocs, List.append_subset] at hs
        split <;> rename_i he
        · exact ⟨((interpAt hc fuel).import_ he hst hs.2).1, by simp⟩
        · have i := (interpAt hc fuel).import_ he hst hs.2
          exact ⟨i.1, fun e he => by cases he; exact Or.inl (i.2 _ rfl)⟩
      · exact ⟨hst, fun e he => by cases he; exact Or.inr rfl⟩
      · have i := evalExprOrDef_in (fuel := fuel) (st := { st with importEnd := true }) (s := _)
          (ρ := st.env) (r := _) (st' := _) rfl ⟨hst.store, hst.instances, hst.factories⟩ hs
        exact ⟨i.1, fun e he => Or.inl (i.2 e he)⟩
    · have i := evalExprOrDef_in (fuel := fuel) (st := st) (s := s) (ρ := st.env) (r := _) (st' := _)
        rfl hst hs
      exact ⟨i.1, fun e he => Or.inl (i.2 e he)⟩
  obtain ⟨r0, st0⟩ := res
  simp only at h key
  split at h <;> cases h
  · exact ⟨key.1, by simp⟩
  · rename_i e loc
    refine ⟨key.1, fun k loc' hk => ?_⟩
    cases hk
    rcases key.2 _ rfl with hk | hk
    · exact ⟨loc, hk, rfl⟩
    · simp only at hk; subst hk
      refine ⟨none, iErrOK_none _, ?_⟩
      cases s.loc <;> rfl

end InterpLoc

/-! ## errors of the macro machinery -/

namespace Macro

/-- the matcher never reports a located error -/
theorem match_err_aux (lits : List String) : ∀ n,
    (∀ p d σ e, matchDatum n lits p d σ = .error e → e.2 = none) ∧
    (∀ ps ds mm σ e, matchStream n lits ps ds mm σ = .error e → e.2 = none) := by
  intro n
  induction n with
  | zero => constructor <;> intros <;> simp_all <;> (rename_i h; subst h; rfl)
  | succ n ih =>
    obtain ⟨ihD, ihS⟩ := ih
    constructor
    · intro p d σ e h
      cases hp : p.isListy
      · cases p <;> simp [Pat.isListy] at hp
        · simp at h
        · simp at h
        · rw [matchDatum_vec] at h
          cases d <;> simp at h
          exact ihS _ _ _ _ _ h
        · rw [matchDatum_ident] at h
          split at h <;> cases h
        · rw [matchDatum_prim] at h; cases h
      · cases hdl : d.isListy
        · rw [matchDatum_listy_atom hp hdl] at h; cases h
        · rw [matchDatum_listy hp hdl] at h
          split at h
          · rename_i e' he; cases h; exact ihS _ _ _ _ _ he
          · cases h
          · split at h
            · exact ihD _ _ _ _ h
            · cases h
            · cases h
    · intro ps ds mm σ e h
      cases ps with
      | nil => cases ds <;> simp at h
      | cons p ps =>
        cases ds with
        | nil =>
          cases hp : p.isEllipsis
          · rw [matchStream_cons_nil_ne hp] at h; cases h
          · cases p <;> simp [Pat.isEllipsis] at hp
            cases mm with
            | none => simp at h
            | some mp =>
              rw [matchStream_ell_nil_some] at h
              exact ihS _ _ _ _ _ h
        | cons d ds =>
          cases hp : p.isEllipsis
          · rw [matchStream_step_ne hp] at h
            split at h
            · rename_i e' he; cases h; exact ihD _ _ _ _ he
            · cases h
            · exact ihS _ _ _ _ _ h
          · cases p <;> simp [Pat.isEllipsis] at hp
            cases n with
            | zero => rw [matchStream_ell_one] at h; cases h; rfl
            | succ n =>
              cases mm with
              | none => rw [matchStream_ell_none] at h; cases h; rfl
              | some mp =>
                rw [matchStream_step_ell] at h
                split at h
                · rename_i e' he; cases h; exact ihD _ _ _ _ he
                · cases h
                · split at h
                  · cases h; rfl
                  · split at h
                    · rename_i e' he; cases h; exact ihS _ _ _ _ _ he
                    · cases h
                    · exact ihS _ _ _ _ _ h

/-- expanding a macro use never reports a located error -/
theorem transformRules_err {fuel : Nat} {lits : List String} {use : Datum} :
    ∀ (rules : List (Pat × Tmpl)) (e : SErr), transformRules fuel lits rules use = .error e → e.2 = none
  | [], e, h => by simp [transformRules] at h; subst h; rfl
  | (p, t) :: rest, e, h => by
    rw [transformRules] at h
    cases hm : matchDatum fuel lits p use [] with
    | error e' =>
      simp only [hm, bind, Except.bind] at h
      cases h; exact (match_err_aux lits fuel).1 _ _ _ _ hm
    | ok r =>
      obtain ⟨ok, σ⟩ := r
      simp only [hm, bind, Except.bind] at h
      split at h
      · split at h
        · cases h; rfl
        · split at h
          · cases h
          · cases h; rfl
      · exact transformRules_err rest e h

/-! ### building the rules of a `define-syntax` -/

theorem bind_err {α β} {x : Except SErr α} {f : α → Except SErr β} {e : SErr}
    (h : (x >>= f) = .error e) : x = .error e ∨ ∃ a, x = .ok a ∧ f a = .error e := by
  cases x with
  | error e' => left; simpa [bind, Except.bind] using h
  | ok a => right; exact ⟨a, rfl, h⟩

mutual
theorem toTmpl_err : ∀ (d : Datum) (e : SErr), toTmpl d = .error e → e.2.toList ⊆ d.locs
  | .sym s _, e, h => by simp [toTmpl] at h
  | .prim p _, e, h => by simp [toTmpl] at h
  | .nil _, e, h => by simp [toTmpl] at h
  | .pair a d l, e, h => by
    unfold toTmpl at h
    simp only [Datum.locs]
    split at h
    · cases h; simp [Datum.locs]
    · rcases bind_err h with h1 | ⟨t, -, h2⟩
      · have := toTmpl_err a e h1
        exact this.trans (by simp)
      · rcases bind_err h2 with h3 | ⟨es, -, h4⟩
        · have := collectSpine_err d (some t) e h3
          exact this.trans (by simp)
        · cases h4
  | .vec xs l, e, h => by
    rw [toTmpl] at h
    simp only [Datum.locs]
    rcases bind_err h with h1 | ⟨es, -, h2⟩
    · exact (collectElems_err xs none e h1).trans (by simp)
    · cases h2
theorem collectSpine_err : ∀ (d : Datum) (last : Option Tmpl) (e : SErr),
    collectSpine d last = .error e → e.2.toList ⊆ d.locs
  | .pair a d l, last, e, h => by
    unfold collectSpine at h
    simp only [Datum.locs]
    split at h
    · split at h
      · rcases bind_err h with h1 | ⟨es, -, h2⟩
        · exact (collectSpine_err d none e h1).trans (by simp)
        · cases h2
      · cases h; simp [Datum.locs]
    · rcases bind_err h with h1 | ⟨t, -, h2⟩
      · exact (toTmpl_err a e h1).trans (by simp)
      · rcases bind_err h2 with h3 | ⟨es, -, h4⟩
        · exact (collectSpine_err d (some t) e h3).trans (by simp)
        · cases h4
  | .nil _, last, e, h => by simp [collectSpine] at h
  | .sym s l, last, e, h => by
    unfold collectSpine at h
    split at h
    · split at h
      · cases h
      · cases h; simp [Datum.locs]
    · cases h
  | .prim q _, last, e, h => by simp [collectSpine] at h
  | .vec xs l, last, e, h => by
    unfold collectSpine at h
    simp only [Datum.locs]
    rcases bind_err h with h1 | ⟨es, -, h2⟩
    · exact (collectElems_err xs none e h1).trans (by simp)
    · cases h2
theorem collectElems_err : ∀ (xs : List Datum) (last : Option Tmpl) (e : SErr),
    collectElems xs last = .error e → e.2.toList ⊆ Datum.locsList xs
  | [], last, e, h => by simp [collectElems] at h
  | x :: xs, last, e, h => by
    unfold collectElems at h
    simp only [Datum.locsList]
    split at h
    · split at h
      · rcases bind_err h with h1 | ⟨es, -, h2⟩
        · exact (collectElems_err xs none e h1).trans (by simp)
        · cases h2
      · cases h; simp [Datum.locs]
    · rcases bind_err h with h1 | ⟨t, -, h2⟩
      · exact (toTmpl_err x e h1).trans (by simp)
      · rcases bind_err h2 with h3 | ⟨es, -, h4⟩
        · exact (collectElems_err xs (some t) e h3).trans (by simp)
        · cases h4
end

theorem mapM_err {α β} {f : α → Except SErr β} : ∀ {xs : List α} {e : SErr},
    xs.mapM f = .error e → ∃ x ∈ xs, f x = .error e
  | [], e, h => by simp [pure, Except.pure] at h
  | x :: xs, e, h => by
    rw [List.mapM_cons] at h
    rcases bind_err h with h1 | ⟨b, -, h2⟩
    · exact ⟨x, by simp, h1⟩
    · rcases bind_err h2 with h3 | ⟨bs, -, h4⟩
      · obtain ⟨y, hy, hf⟩ := mapM_err h3
        exact ⟨y, by simp [hy], hf⟩
      · cases h4

theorem expectList_ok {d d' : Datum} (h : expectList d = .ok d') : d' = d := by
  unfold expectList at h; split at h <;> cases h <;> rfl
theorem expectList_err {d : Datum} {e : SErr} (h : expectList d = .error e) : e.2 = none := by
  unfold expectList at h; split at h <;> cases h; rfl
theorem identOf_err {d : Datum} {e : SErr} (h : identOf d = .error e) : e.2.toList ⊆ d.locs := by
  unfold identOf at h; split at h <;> cases h
  exact Datum.loc_subset _
theorem popProper_err {d : Datum} {e : SErr} (h : popProper d = .error e) : e.2 = none := by
  unfold popProper at h; split at h <;> cases h; rfl
theorem popProper_ok {d first rest : Datum} (h : popProper d = .ok (some (first, rest))) :
    ∃ l, d = .pair first rest l := by
  unfold popProper at h; split at h <;> cases h <;> exact ⟨_, rfl⟩

theorem none_sub {T : List Pos} {e : SErr} (h : e.2 = none) : e.2.toList ⊆ T := by simp [h]

theorem toRule_err {keyword : String} {d : Datum} {e : SErr} (h : toRule keyword d = .error e) :
    e.2.toList ⊆ d.locs := by
  unfold toRule at h
  rcases bind_err h with h1 | ⟨d', hd', h2⟩
  · exact none_sub (expectList_err h1)
  · have := expectList_ok hd'; subst this
    split at h2
    · rename_i pd rest hel
      have hpd : pd.locs ⊆ d'.locs := Datum.elems_locs (by rw [hel]; simp)
      rcases bind_err h2 with h3 | ⟨pd', hpd', h4⟩
      · exact none_sub (expectList_err h3)
      · have := expectList_ok hpd'; subst this
        rcases bind_err h4 with h5 | ⟨o, ho, h6⟩
        · exact none_sub (popProper_err h5)
        · split at h6
          · cases h6; simp
          · rename_i first patRest
            obtain ⟨l, rfl⟩ := popProper_ok ho
            split at h6
            · rename_i k lk
              split at h6
              · cases h6
                refine List.Subset.trans ?_ hpd
                simp [Datum.locs]
              · split at h6
                · rename_i td rest'
                  rcases bind_err h6 with h7 | ⟨t, -, h8⟩
                  · exact (toTmpl_err td e h7).trans (Datum.elems_locs (by rw [hel]; simp))
                  · cases h8
                · cases h6; simp
            · cases h6; simp
    · cases h2; simp

theorem toRules_err {keyword : String} {d : Datum} {e : SErr} (h : toRules keyword d = .error e) :
    e.2.toList ⊆ d.locs := by
  unfold toRules at h
  rcases bind_err h with h1 | ⟨d', hd', h2⟩
  · exact none_sub (expectList_err h1)
  · have := expectList_ok hd'; subst this
    split at h2
    · cases h2; simp
    · rename_i first rest hel
      have hmem : ∀ x ∈ first :: rest, x.locs ⊆ d'.locs := by
        intro x hx
        exact Datum.elems_locs (List.mem_of_mem_drop (by rw [hel]; exact hx))
      simp only at h2
      rcases bind_err h2 with h3 | ⟨lr, hlr, h4⟩
      · split at h3
        · split at h3
          · rcases bind_err h3 with h5 | ⟨ld, -, h6⟩
            · exact none_sub (expectList_err h5)
            · cases h6
          · cases h3; simp
        · cases h3
        · cases h3
        · cases h3
          exact (Datum.loc_subset first).trans (hmem first (by simp))
      · obtain ⟨lits, ruleData⟩ := lr
        have hparts : (∀ x ∈ lits, x.locs ⊆ d'.locs) ∧ (∀ x ∈ ruleData, x.locs ⊆ d'.locs) := by
          split at hlr
          · split at hlr
            · rename_i ld rest'
              rcases hx : expectList ld with _ | ld'
              · simp [hx, bind, Except.bind] at hlr
              · have := expectList_ok hx; subst this
                simp only [hx, bind, Except.bind, pure, Except.pure, Except.ok.injEq, Prod.mk.injEq] at hlr
                obtain ⟨rfl, rfl⟩ := hlr
                exact ⟨fun x hx => (Datum.elems_locs hx).trans (hmem _ (by simp)),
                  fun x hx => hmem x (by simp [hx])⟩
            · cases hlr
          · cases hlr
            exact ⟨fun x hx => (Datum.elems_locs hx).trans (hmem _ (by simp)),
              fun x hx => hmem x (by simp [hx])⟩
          · cases hlr
            exact ⟨fun x hx => (Datum.elems_locs hx).trans (hmem _ (by simp)),
              fun x hx => hmem x (by simp [hx])⟩
          · cases hlr
        simp only at h4
        rcases bind_err h4 with h5 | ⟨ls, -, h6⟩
        · obtain ⟨x, hx, hf⟩ := mapM_err h5
          exact (identOf_err hf).trans (hparts.1 x hx)
        · rcases bind_err h6 with h7 | ⟨rs, -, h8⟩
          · obtain ⟨x, hx, hf⟩ := mapM_err h7
            exact (toRule_err hf).trans (hparts.2 x hx)
          · cases h8

end Macro

/-! ## the transformer: every position of the statement is a position of the datum -/

namespace XformLoc
open Xform

/-- every position of `L`, whatever its role, is in `T` -/
def RIn (T : List Pos) (L : List RPos) : Prop := ∀ x ∈ L, x.2 ∈ T

variable {T : List Pos}

theorem rIn_iff {L : List RPos} : RIn T L ↔ unrole L ⊆ T := by
  constructor
  · intro h l hl; obtain ⟨r, hr⟩ := mem_unrole.1 hl; exact h _ hr
  · intro h x hx; exact h (mem_unrole.2 ⟨x.1, hx⟩)
@[simp] theorem rIn_nil : RIn T [] := by simp [RIn]
@[simp] theorem rIn_append {a b : List RPos} : RIn T (a ++ b) ↔ RIn T a ∧ RIn T b := by
  simp [RIn, or_imp, forall_and]
@[simp] theorem rIn_as {r : Role} {l : Loc} : RIn T (l.as r) ↔ l.toList ⊆ T := by
  cases l <;> simp [RIn, Loc.as]
@[simp] theorem rIn_map {r : Role} {ls : List Pos} : RIn T (ls.map (fun p => (r, p))) ↔ ls ⊆ T := by
  constructor
  · intro h p hp; exact h (r, p) (List.mem_map.2 ⟨p, hp, rfl⟩)
  · intro h x hx; obtain ⟨p, hp, rfl⟩ := List.mem_map.1 hx; exact h hp

/-- all data of a list have their positions in `T` -/
def AllIn (T : List Pos) (ds : List Datum) : Prop := ∀ d ∈ ds, d.locs ⊆ T

theorem allIn_drop {ds : List Datum} (h : AllIn T ds) (n : Nat) : AllIn T (ds.drop n) :=
  fun d hd => h d (List.mem_of_mem_drop hd)
theorem allIn_head {ds : List Datum} (h : AllIn T ds) {d : Datum} (hd : ds.head? = some d) : d.locs ⊆ T :=
  h d (List.mem_of_head? hd)
theorem allIn_elems {d : Datum} (h : d.locs ⊆ T) : AllIn T d.elems :=
  fun _ hx => (Datum.elems_locs hx).trans h
theorem allIn_cons {d : Datum} {ds : List Datum} : AllIn T (d :: ds) ↔ d.locs ⊆ T ∧ AllIn T ds := by
  simp [AllIn]

theorem bind_def {α β} (m : XM α) (f : α → XM β) (s : SynEnv) :
    (m >>= f) s = match m s with
      | (.ok a, s') => f a s'
      | (.error e, s') => (.error e, s') := rfl

/-- what a transformer step yields: results satisfy `P`, located errors are located in `T` -/
def XPost {α} (T : List Pos) (m : XM α) (P : α → Prop) : Prop :=
  ∀ env, (∀ a, (m env).1 = .ok a → P a) ∧ (∀ e, (m env).1 = .error e → e.2.toList ⊆ T)

theorem xp_pure {α} {a : α} {P : α → Prop} (h : P a) : XPost T (pure a : XM α) P :=
  fun _ => ⟨fun b hb => by cases hb; exact h, fun e he => by cases he⟩
theorem xp_fail {α} {e : SErr} {P : α → Prop} (h : e.2.toList ⊆ T) : XPost T (Xform.fail e : XM α) P :=
  fun _ => ⟨fun b hb => (by cases hb), fun e' he => by cases he; exact h⟩
theorem xp_fail_none {α} {k : Err} {P : α → Prop} : XPost T (Xform.fail (k, none) : XM α) P :=
  xp_fail (by simp)
theorem xp_lift {α} {x : Except SErr α} (h : ∀ e, x = .error e → e.2.toList ⊆ T) :
    XPost T (lift x) (fun a => x = .ok a) :=
  fun _ => ⟨fun _ hb => hb, fun e he => h e he⟩
theorem xp_need {α} {o : Option α} : XPost T (need o) (fun a => o = some a) := by
  cases o
  · exact xp_fail_none
  · exact xp_pure rfl
theorem xp_bind {α β} {m : XM α} {f : α → XM β} {P : α → Prop} {Q : β → Prop}
    (hm : XPost T m P) (hf : ∀ a, P a → XPost T (f a) Q) : XPost T (m >>= f) Q := by
  intro env
  have h1 := hm env
  simp only [bind_def]
  generalize m env = x at h1
  obtain ⟨r, env'⟩ := x
  cases r with
  | error e => exact ⟨fun a ha => (by cases ha), fun e' he => by cases he; exact h1.2 e rfl⟩
  | ok a => exact hf a (h1.1 a rfl) env'
theorem xp_weaken {α} {m : XM α} {P Q : α → Prop} (hm : XPost T m P) (h : ∀ a, P a → Q a) :
    XPost T m Q := fun env => ⟨fun a ha => h a ((hm env).1 a ha), (hm env).2⟩
theorem xp_getEnv : XPost T getEnv (fun _ => True) :=
  fun _ => ⟨fun _ _ => trivial, fun e he => by cases he⟩
theorem xp_defineSyntax {k r} : XPost T (defineSyntax k r) (fun _ => True) :=
  fun _ => ⟨fun _ _ => trivial, fun e he => by cases he⟩
theorem xp_inChild {α} {m : XM α} {P : α → Prop} (hm : XPost T m P) : XPost T (inChild m) P := by
  intro env
  have h := hm ([] :: env)
  simp only [Xform.inChild]
  generalize m ([] :: env) = x at h
  obtain ⟨r, e'⟩ := x
  cases e' <;> exact h

theorem xp_mapM_loop {α β} {f : α → XM β} {P : β → Prop} {l : List α}
    (hf : ∀ a ∈ l, XPost T (f a) P) : ∀ (acc : List β), (∀ b ∈ acc, P b) →
    XPost T (List.mapM.loop f l acc) (fun bs => ∀ b ∈ bs, P b) := by
  induction l with
  | nil =>
    intro acc ha
    simp only [List.mapM.loop]
    exact xp_pure (fun b hb => ha b (List.mem_reverse.1 hb))
  | cons a l ih =>
    intro acc ha
    simp only [List.mapM.loop]
    refine xp_bind (hf a (List.mem_cons_self ..)) fun b hb => ?_
    refine ih (fun x hx => hf x (List.mem_cons_of_mem _ hx)) _ ?_
    intro x hx
    rcases List.mem_cons.1 hx with rfl | hx
    · exact hb
    · exact ha x hx

theorem xp_mapM {α β} {f : α → XM β} {P : β → Prop} {l : List α}
    (hf : ∀ a ∈ l, XPost T (f a) P) : XPost T (l.mapM f) (fun bs => ∀ b ∈ bs, P b) :=
  xp_mapM_loop hf [] (by simp)

theorem identOf_post (d : Datum) (hd : d.locs ⊆ T) : XPost T (identOf d) (fun _ => True) := by
  unfold Xform.identOf
  refine xp_weaken (xp_lift ?_) (fun _ _ => trivial)
  intro e he
  unfold Macro.identOf at he
  split at he <;> cases he
  exact (Datum.loc_subset _).trans hd

theorem expectList_post (d : Datum) : XPost T (expectList d) (fun d' => d' = d) := by
  unfold Xform.expectList
  refine xp_weaken (xp_lift ?_) ?_
  · intro e he; unfold Macro.expectList at he; split at he <;> cases he; simp
  · intro a ha; unfold Macro.expectList at ha; split at ha <;> cases ha <;> rfl

theorem spine_all_locs (d : Datum) {b : Datum} (hm : b ∈ d.spine.1 ++ d.spine.2.toList) :
    b.locs ⊆ d.locs := by
  have hs := Datum.spine_locs d
  rcases List.mem_append.1 hm with hm | hm
  · exact hs.1 b hm
  · cases ht : d.spine.2 with
    | none => simp [ht] at hm
    | some t =>
      simp only [ht, Option.toList_some, List.mem_singleton] at hm
      subst hm; exact hs.2 _ ht

theorem toFormals_post (d : Datum) (hd : d.locs ⊆ T) : XPost T (toFormals d) (fun _ => True) := by
  unfold Xform.toFormals
  split
  · simp only
    split
    · rename_i b hb
      exact xp_fail ((Datum.loc_subset b).trans
        ((spine_all_locs _ (List.mem_of_find?_eq_some hb)).trans hd))
    · exact xp_pure trivial
  · simp only
    split
    · rename_i b hb
      exact xp_fail ((Datum.loc_subset b).trans
        ((spine_all_locs _ (List.mem_of_find?_eq_some hb)).trans hd))
    · exact xp_pure trivial
  · exact xp_pure trivial
  · exact xp_fail ((Datum.loc_subset _).trans hd)

theorem toLibName_post (ds : List Datum) (hd : AllIn T ds) : XPost T (toLibName ds) (fun _ => True) := by
  unfold Xform.toLibName
  refine xp_weaken (xp_mapM (P := fun _ => True) ?_) (fun _ _ => trivial)
  intro d hdm
  have := hd d hdm
  split
  · exact xp_pure trivial
  · split
    · exact xp_pure trivial
    · refine xp_fail ?_
      simpa [Datum.locs] using this
  · exact xp_fail ((Datum.loc_subset _).trans this)

theorem toExportSpec_post (d : Datum) (hd : d.locs ⊆ T) :
    XPost T (toExportSpec d) (fun s => s.loc.toList ⊆ T) := by
  unfold Xform.toExportSpec
  have hl : d.loc.toList ⊆ T := (Datum.loc_subset d).trans hd
  split
  · refine xp_pure ?_; simpa [ExportSpec.loc, Datum.locs] using hd
  · simp only
    refine xp_bind xp_need fun h hh => ?_
    have he := allIn_elems hd
    split
    · refine xp_bind xp_need fun a ha => ?_
      refine xp_bind (identOf_post a (allIn_head (allIn_drop he 1) ha)) fun _ _ => ?_
      refine xp_bind xp_need fun b hb => ?_
      refine xp_bind (identOf_post b (allIn_head (allIn_drop he 2) hb)) fun _ _ => ?_
      exact xp_pure (by simpa [ExportSpec.loc] using hl)
    · exact xp_fail_none
  · simp only
    refine xp_bind xp_need fun h hh => ?_
    have he := allIn_elems hd
    split
    · refine xp_bind xp_need fun a ha => ?_
      refine xp_bind (identOf_post a (allIn_head (allIn_drop he 1) ha)) fun _ _ => ?_
      refine xp_bind xp_need fun b hb => ?_
      refine xp_bind (identOf_post b (allIn_head (allIn_drop he 2) hb)) fun _ _ => ?_
      exact xp_pure (by simpa [ExportSpec.loc] using hl)
    · exact xp_fail_none
  · exact xp_fail_none

theorem mapM_identOf_post {ds : List Datum} (hd : AllIn T ds) :
    XPost T (ds.mapM identOf) (fun _ => True) :=
  xp_weaken (xp_mapM (P := fun _ => True) (fun d hdm => identOf_post d (hd d hdm))) (fun _ _ => trivial)

theorem toImportSet_post : ∀ (n : Nat) (d : Datum), d.locs ⊆ T →
    XPost T (toImportSet n d) (fun s => s.locs ⊆ T)
  | 0, d, _ => by rw [Xform.toImportSet]; exact xp_fail_none
  | n + 1, d, hd => by
    rw [Xform.toImportSet]
    refine xp_bind (expectList_post d) fun d' hd' => ?_
    subst hd'
    have he := allIn_elems hd
    refine xp_bind xp_need fun first hf => ?_
    have hfirst := allIn_head he hf
    refine xp_bind (identOf_post first hfirst) fun spec _ => ?_
    split
    · skip
      dsimp only
      refine xp_bind xp_need fun s0 hs0 => ?_
      refine xp_bind (toImportSet_post n s0 (allIn_head (allIn_drop he 1) hs0)) fun s hs => ?_
      have hr := allIn_drop he 2
      exact xp_bind (mapM_identOf_post hr) fun _ _ => xp_pure (by simpa [ImportSet.locs] using hs)
    split
    · skip
      dsimp only
      refine xp_bind xp_need fun s0 hs0 => ?_
      refine xp_bind (toImportSet_post n s0 (allIn_head (allIn_drop he 1) hs0)) fun s hs => ?_
      have hr := allIn_drop he 2
      exact xp_bind (mapM_identOf_post hr) fun _ _ => xp_pure (by simpa [ImportSet.locs] using hs)
    split
    · skip
      dsimp only
      refine xp_bind xp_need fun s0 hs0 => ?_
      refine xp_bind (toImportSet_post n s0 (allIn_head (allIn_drop he 1) hs0)) fun s hs => ?_
      have hr := allIn_drop he 2
      refine xp_bind xp_need fun p hp => ?_
      exact xp_bind (identOf_post p (allIn_head hr hp)) fun _ _ => xp_pure (by simpa [ImportSet.locs] using hs)
    split
    · skip
      dsimp only
      refine xp_bind xp_need fun s0 hs0 => ?_
      refine xp_bind (toImportSet_post n s0 (allIn_head (allIn_drop he 1) hs0)) fun s hs => ?_
      have hr := allIn_drop he 2
      refine xp_bind (xp_mapM (P := fun _ => True) ?_) fun _ _ => xp_pure (by simpa [ImportSet.locs] using hs)
      intro pd hpd
      refine xp_bind (expectList_post pd) fun pd' hpd' => ?_
      subst hpd'
      have hpe := allIn_elems (hr pd' hpd)
      refine xp_bind xp_need fun a ha => ?_
      refine xp_bind (identOf_post a (allIn_head hpe ha)) fun _ _ => ?_
      refine xp_bind xp_need fun b hb => ?_
      refine xp_bind (identOf_post b (allIn_head (allIn_drop hpe 1) hb)) fun _ _ => ?_
      exact xp_pure trivial
    · refine xp_bind (toLibName_post _ he) fun _ _ => xp_pure ?_
      simpa [ImportSet.locs] using (Datum.loc_subset first).trans hfirst

theorem defs_rlocsList_eq (ds : List Def) : Def.rlocsList ds = ds.flatMap Def.rlocs := by
  induction ds with
  | nil => rfl
  | cons d ds ih => simp [Def.rlocsList, ih]
theorem expr_rlocsList_eq (es : List Expr) : Expr.rlocsList es = es.flatMap Expr.rlocs := by
  induction es with
  | nil => rfl
  | cons d ds ih => simp [Expr.rlocsList, ih]
theorem rIn_defs_reverse {ds : List Def} (h : RIn T (Def.rlocsList ds)) : RIn T (Def.rlocsList ds.reverse) := by
  rw [defs_rlocsList_eq] at h ⊢
  intro x hx; apply h
  simp only [List.mem_flatMap, List.mem_reverse] at hx ⊢; exact hx
theorem rIn_exprs_reverse {es : List Expr} (h : RIn T (Expr.rlocsList es)) :
    RIn T (Expr.rlocsList es.reverse) := by
  rw [expr_rlocsList_eq] at h ⊢
  intro x hx; apply h
  simp only [List.mem_flatMap, List.mem_reverse] at hx ⊢; exact hx

theorem rIn_importSets {sets : List ImportSet} (h : ∀ s ∈ sets, s.locs ⊆ T) :
    RIn T (ImportSet.rlocsList sets) := by
  simp only [ImportSet.rlocsList, rIn_map]
  intro p hp
  simp only [List.mem_flatMap] at hp
  obtain ⟨s, hs, hp⟩ := hp
  exact h s hs hp

theorem rIn_exports {specs : List ExportSpec} (h : ∀ s ∈ specs, s.loc.toList ⊆ T) :
    RIn T (specs.flatMap (fun s => s.loc.as .export)) := by
  intro x hx
  simp only [List.mem_flatMap] at hx
  obtain ⟨s, hs, hx⟩ := hx
  exact (rIn_as.2 (h s hs)) x hx

/-- the invariant for all functions of the mutual block at one amount of fuel -/
structure XAt (T : List Pos) (n : Nat) : Prop where
  stmt : ∀ d, d.locs ⊆ T → XPost T (toStatement n d) (fun s => RIn T s.rlocs)
  expr : ∀ d, d.locs ⊆ T → XPost T (toExpr n d) (fun e => RIn T e.rlocs)
  call : ∀ first args loc, first.locs ⊆ T → AllIn T args → loc.toList ⊆ T →
    XPost T (toCall n first args loc) (fun e => RIn T e.rlocs)
  exprs : ∀ ds, AllIn T ds → XPost T (toExprs n ds) (fun es => RIn T (Expr.rlocsList es))
  defn : ∀ args, AllIn T args → XPost T (toDefinition n args) (fun p => RIn T p.2.rlocs)
  lam : ∀ args, AllIn T args → XPost T (toLambda n args) (fun l => RIn T l.rlocs)
  body : ∀ ds defs exprs, AllIn T ds → RIn T (Def.rlocsList defs) → RIn T (Expr.rlocsList exprs) →
    XPost T (toBody n ds defs exprs) (fun p => RIn T (Def.rlocsList p.1) ∧ RIn T (Expr.rlocsList p.2))
  lib : ∀ args loc, AllIn T args → loc.toList ⊆ T →
    XPost T (toLibrary n args loc) (fun s => RIn T s.rlocs)
  decls : ∀ ds, AllIn T ds → XPost T (toLibDecls n ds) (fun xs => RIn T (LibDecl.rlocsList xs))
  decl : ∀ d, d.locs ⊆ T → XPost T (toLibDecl n d) (fun x => RIn T x.rlocs)
  stmts : ∀ ds, AllIn T ds → XPost T (toStatements n ds) (fun ss => RIn T (Statement.rlocsList ss))

theorem xAt_zero : XAt T 0 := by
  constructor <;> intros <;>
    simp only [toStatement, toExpr, toCall, toExprs, toDefinition, toLambda, toBody, toLibrary, toLibDecls,
      toLibDecl, toStatements] <;> exact xp_fail_none

section succ
variable {n : Nat} (ih : XAt T n)
include ih

theorem x_expr (d : Datum) (hd : d.locs ⊆ T) : XPost T (toExpr (n+1) d) (fun e => RIn T e.rlocs) := by
  rw [toExpr]
  refine xp_bind (ih.stmt d hd) fun s hs => ?_
  split
  · exact xp_pure (by simpa [Statement.rlocs] using hs)
  · exact xp_fail_none

theorem x_call (first args loc) (hf : first.locs ⊆ T) (ha : AllIn T args) (hl : loc.toList ⊆ T) :
    XPost T (toCall (n+1) first args loc) (fun e => RIn T e.rlocs) := by
  rw [toCall]
  refine xp_bind (ih.expr first hf) fun f hf' => ?_
  refine xp_bind (ih.exprs args ha) fun as has => ?_
  refine xp_pure ?_
  simp only [Expr.rlocs, rIn_append, rIn_as]
  refine ⟨hl, ?_, hf', has⟩
  -- the operator's own position is one of its positions
  cases f <;> simp only [Expr.rlocs, rIn_append, rIn_as] at hf' <;> simp only [Expr.loc] <;>
    first | exact hf'.1 | exact hf'

theorem x_exprs (ds) (hd : AllIn T ds) : XPost T (toExprs (n+1) ds) (fun es => RIn T (Expr.rlocsList es)) := by
  cases ds with
  | nil => rw [toExprs]; exact xp_pure (by simp [Expr.rlocsList])
  | cons d ds =>
    rw [toExprs]
    rw [allIn_cons] at hd
    refine xp_bind (ih.expr d hd.1) fun e he => ?_
    refine xp_bind (ih.exprs ds hd.2) fun es hes => ?_
    exact xp_pure (by simp [Expr.rlocsList, he, hes])

theorem x_defn (args) (ha : AllIn T args) :
    XPost T (toDefinition (n+1) args) (fun p => RIn T p.2.rlocs) := by
  rw [toDefinition]
  refine xp_bind xp_need fun first hf => ?_
  have hfirst := allIn_head ha hf
  split
  · refine xp_bind xp_need fun b hb => ?_
    refine xp_bind (ih.expr b (allIn_head (allIn_drop ha 1) hb)) fun e he => ?_
    exact xp_pure he
  · rename_i nameD formalsD l
    simp only [Datum.locs, List.append_subset] at hfirst
    refine xp_bind (identOf_post nameD hfirst.2.1) fun name _ => ?_
    refine xp_bind (toFormals_post formalsD hfirst.2.2) fun formals _ => ?_
    refine xp_bind (ih.body _ [] [] (allIn_drop ha 1) (by simp [Def.rlocsList]) (by simp [Expr.rlocsList]))
      fun p hp => ?_
    refine xp_pure ?_
    simp only [Expr.rlocs, Lambda.rlocs, rIn_append, rIn_as]
    exact ⟨(Datum.loc_subset nameD).trans hfirst.2.1, hp.1, hp.2⟩
  · exact xp_fail ((Datum.loc_subset _).trans hfirst)
  · exact xp_fail ((Datum.loc_subset _).trans hfirst)

theorem x_lam (args) (ha : AllIn T args) : XPost T (toLambda (n+1) args) (fun l => RIn T l.rlocs) := by
  rw [toLambda]
  refine xp_bind xp_need fun f hf => ?_
  refine xp_bind (toFormals_post f (allIn_head ha hf)) fun formals _ => ?_
  refine xp_bind (xp_inChild (ih.body _ [] [] (allIn_drop ha 1) (by simp [Def.rlocsList])
    (by simp [Expr.rlocsList]))) fun p hp => ?_
  exact xp_pure (by simp [Lambda.rlocs, hp.1, hp.2])

theorem x_body (ds defs exprs) (hd : AllIn T ds) (hdefs : RIn T (Def.rlocsList defs))
    (hexprs : RIn T (Expr.rlocsList exprs)) :
    XPost T (toBody (n+1) ds defs exprs)
      (fun p => RIn T (Def.rlocsList p.1) ∧ RIn T (Expr.rlocsList p.2)) := by
  cases ds with
  | nil =>
    rw [toBody]
    split
    · exact xp_fail_none
    · exact xp_pure ⟨rIn_defs_reverse hdefs, rIn_exprs_reverse hexprs⟩
  | cons d ds =>
    rw [toBody]
    rw [allIn_cons] at hd
    refine xp_bind (ih.stmt d hd.1) fun s hs => ?_
    split
    · rename_i df
      simp only [Statement.rlocs] at hs
      split
      · exact ih.body ds _ _ hd.2 (by simp [Def.rlocsList, hs, hdefs]) hexprs
      · cases df with
        | mk nm e l =>
          simp only [Def.rlocs, rIn_append, rIn_as] at hs
          exact xp_fail hs.1
    · rename_i e
      simp only [Statement.rlocs] at hs
      exact ih.body ds _ _ hd.2 hdefs (by simp [Expr.rlocsList, hs, hexprs])
    · exact xp_fail ((Datum.loc_subset d).trans hd.1)

theorem x_lib (args loc) (ha : AllIn T args) (hl : loc.toList ⊆ T) :
    XPost T (toLibrary (n+1) args loc) (fun s => RIn T s.rlocs) := by
  rw [toLibrary]
  refine xp_bind xp_need fun nd hnd => ?_
  refine xp_bind (expectList_post nd) fun nd' hnd' => ?_
  subst hnd'
  refine xp_bind (toLibName_post _ (allIn_elems (allIn_head ha hnd))) fun name _ => ?_
  refine xp_bind (ih.decls _ (allIn_drop ha 1)) fun decls hdecls => ?_
  exact xp_pure (by simp [Statement.rlocs, hl, hdecls])

theorem x_decls (ds) (hd : AllIn T ds) :
    XPost T (toLibDecls (n+1) ds) (fun xs => RIn T (LibDecl.rlocsList xs)) := by
  cases ds with
  | nil => rw [toLibDecls]; exact xp_pure (by simp [LibDecl.rlocsList])
  | cons d ds =>
    rw [toLibDecls]
    rw [allIn_cons] at hd
    refine xp_bind (ih.decl d hd.1) fun x hx => ?_
    refine xp_bind (ih.decls ds hd.2) fun xs hxs => ?_
    exact xp_pure (by simp [LibDecl.rlocsList, hx, hxs])

theorem x_decl (d) (hd : d.locs ⊆ T) : XPost T (toLibDecl (n+1) d) (fun x => RIn T x.rlocs) := by
  unfold toLibDecl
  refine xp_bind (expectList_post d) fun d' hd' => ?_
  subst hd'
  have he := allIn_elems hd
  refine xp_bind xp_need fun first hf => ?_
  split
  · refine xp_bind (xp_mapM (fun x hx => toExportSpec_post x (allIn_drop he 1 x hx))) fun specs hs => ?_
    exact xp_pure (by simp only [LibDecl.rlocs]; exact rIn_exports hs)
  · refine xp_bind (ih.stmts _ (allIn_drop he 1)) fun body hb => ?_
    exact xp_pure (by simpa [LibDecl.rlocs] using hb)
  · refine xp_bind (xp_mapM (fun x hx => toImportSet_post n x (allIn_drop he 1 x hx))) fun sets hs => ?_
    exact xp_pure (by simp only [LibDecl.rlocs]; exact rIn_importSets hs)

theorem x_stmts (ds) (hd : AllIn T ds) :
    XPost T (toStatements (n+1) ds) (fun ss => RIn T (Statement.rlocsList ss)) := by
  cases ds with
  | nil => rw [toStatements]; exact xp_pure (by simp [Statement.rlocsList])
  | cons d ds =>
    rw [toStatements]
    rw [allIn_cons] at hd
    refine xp_bind (ih.stmt d hd.1) fun x hx => ?_
    refine xp_bind (ih.stmts ds hd.2) fun xs hxs => ?_
    exact xp_pure (by simp [Statement.rlocsList, hx, hxs])

theorem x_stmt (d) (hd : d.locs ⊆ T) : XPost T (toStatement (n+1) d) (fun s => RIn T s.rlocs) := by
  unfold toStatement
  have hloc : d.loc.toList ⊆ T := (Datum.loc_subset d).trans hd
  split
  · exact xp_pure (by simpa [Statement.rlocs, Expr.rlocs, Datum.loc] using hloc)
  · exact xp_pure (by simpa [Statement.rlocs, Expr.rlocs, Datum.loc] using hloc)
  · exact xp_pure (by simp [Statement.rlocs, Expr.rlocs, hloc, hd])
  · exact xp_fail_none
  · rename_i a b l
    refine xp_bind (xp_lift (fun e he => Macro.none_sub (Macro.popProper_err he))) fun o ho => ?_
    split
    · exact xp_fail_none
    · rename_i first rest
      obtain ⟨l', hl'⟩ := Macro.popProper_ok ho
      cases hl'
      simp only [Datum.locs, List.append_subset] at hd
      simp only [Datum.loc] at hloc ⊢
      have hargs : AllIn T b.elems := allIn_elems hd.2.2
      split
      · rename_i kw lk
        split
        · refine xp_bind (ih.defn _ hargs) fun p hp => ?_
          exact xp_pure (by simp [Statement.rlocs, Def.rlocs, hloc, hp])
        split
        · exact ih.lib _ _ hargs hloc
        split
        · refine xp_bind (ih.lam _ hargs) fun lam hlam => ?_
          exact xp_pure (by simp [Statement.rlocs, Expr.rlocs, hloc, hlam])
        split
        · refine xp_bind xp_need fun t ht => ?_
          refine xp_bind (ih.expr t (allIn_head hargs ht)) fun t' ht' => ?_
          refine xp_bind xp_need fun c hc => ?_
          refine xp_bind (ih.expr c (allIn_head (allIn_drop hargs 1) hc)) fun c' hc' => ?_
          split
          · rename_i ad had
            refine xp_bind (ih.expr ad (allIn_head (allIn_drop hargs 2) had)) fun x hx => ?_
            refine xp_bind (xp_pure (P := fun a => a = some x) rfl) fun a' ha' => ?_
            subst ha'
            exact xp_pure (by simp [Statement.rlocs, Expr.rlocs, Expr.rlocsOpt, hloc, ht', hc', hx])
          · refine xp_bind (xp_pure (P := fun a => a = none) rfl) fun a' ha' => ?_
            subst ha'
            exact xp_pure (by simp [Statement.rlocs, Expr.rlocs, Expr.rlocsOpt, hloc, ht', hc'])
        split
        · refine xp_bind (xp_mapM (fun x hx => toImportSet_post n x (hargs x hx))) fun sets hs => ?_
          exact xp_pure (by
            simp only [Statement.rlocs, rIn_append, rIn_as]; exact ⟨hloc, rIn_importSets hs⟩)
        split
        · refine xp_bind xp_need fun q hq => ?_
          exact xp_pure (by simp [Statement.rlocs, Expr.rlocs, hloc, allIn_head hargs hq])
        split
        · refine xp_bind xp_need fun target htarget => ?_
          have htl := allIn_head hargs htarget
          split
          · rename_i name targetLoc
            refine xp_bind xp_need fun v hv => ?_
            refine xp_bind (ih.expr v (allIn_head (allIn_drop hargs 1) hv)) fun v' hv' => ?_
            refine xp_pure ?_
            cases targetLoc with
            | none => simpa [Statement.rlocs, Expr.rlocs, hv'] using hloc
            | some p =>
              have : p ∈ T := by simpa [Datum.locs] using htl
              simp [Statement.rlocs, Expr.rlocs, hv', this]
          · exact xp_fail_none
        split
        · refine xp_bind xp_need fun k hk => ?_
          refine xp_bind (identOf_post k (allIn_head hargs hk)) fun k' _ => ?_
          refine xp_bind xp_need fun spec hspec => ?_
          refine xp_bind (xp_lift (fun e he =>
            (Macro.toRules_err he).trans (allIn_head (allIn_drop hargs 1) hspec))) fun rules _ => ?_
          refine xp_bind xp_defineSyntax fun _ _ => ?_
          exact xp_pure (by simp [Statement.rlocs, hloc])
        · refine xp_bind xp_getEnv fun env _ => ?_
          split
          · rename_i rules hr
            refine xp_bind (xp_lift (fun e he => Macro.none_sub (Macro.transformRules_err _ e he)))
              fun expanded hex => ?_
            refine ih.stmt expanded ?_
            refine Macro.transformRules_locs (T := T) ?_ _ _ hex
            exact (Datum.locs_withLoc b l).trans (List.append_subset.2 ⟨hloc, hd.2.2⟩)
          · refine xp_bind (ih.call _ _ _ hd.2.1 hargs hloc) fun c hc => ?_
            exact xp_pure (by simpa [Statement.rlocs] using hc)
      · refine xp_bind (ih.call _ _ _ hd.2.1 hargs hloc) fun c hc => ?_
        exact xp_pure (by simpa [Statement.rlocs] using hc)

end succ

theorem xAt : ∀ n, XAt T n
  | 0 => xAt_zero
  | n + 1 =>
    have ih := xAt n
    ⟨x_stmt ih, x_expr ih, x_call ih, x_exprs ih, x_defn ih, x_lam ih, x_body ih, x_lib ih,
      x_decls ih, x_decl ih, x_stmts ih⟩

/-- `xform_locs`: every position in the statement `toStatement` returns is a position of the datum;
a located syntax error of the transformer is located inside the datum too -/
theorem toStatement_locs {fuel : Nat} {d : Datum} {env : SynEnv} :
    (∀ s, (toStatement fuel d env).1 = .ok s → unrole s.rlocs ⊆ d.locs) ∧
    (∀ e, (toStatement fuel d env).1 = .error e → e.2.toList ⊆ d.locs) := by
  have := (xAt (T := d.locs) fuel).stmt d (fun _ h => h) env
  exact ⟨fun s hs => rIn_iff.1 (this.1 s hs), this.2⟩

/-! ### the position of the statement itself -/

/-- successful results of `m` satisfy `P` -/
def XOk {α} (m : XM α) (P : α → Prop) : Prop := ∀ env a, (m env).1 = .ok a → P a

theorem xo_pure {α} {a : α} {P : α → Prop} (h : P a) : XOk (pure a : XM α) P :=
  fun _ b hb => by cases hb; exact h
theorem xo_fail {α} {e : SErr} {P : α → Prop} : XOk (Xform.fail e : XM α) P :=
  fun _ b hb => by cases hb
theorem xo_bind {α β} {m : XM α} {f : α → XM β} {Q : β → Prop} (hf : ∀ a, XOk (f a) Q) :
    XOk (m >>= f) Q := by
  intro env b hb
  simp only [bind_def] at hb
  generalize m env = x at hb
  obtain ⟨r, env'⟩ := x
  cases r with
  | error e => cases hb
  | ok a => exact hf a env' b hb

theorem xo_bind' {α β} {m : XM α} {f : α → XM β} {P : α → Prop} {Q : β → Prop} (hm : XOk m P)
    (hf : ∀ a, P a → XOk (f a) Q) : XOk (m >>= f) Q := by
  intro env b hb
  simp only [bind_def] at hb
  have := hm env
  generalize m env = x at hb this
  obtain ⟨r, env'⟩ := x
  cases r with
  | error e => cases hb
  | ok a => exact hf a (this a rfl) env' b hb

theorem toCall_loc (n first args loc) : XOk (toCall n first args loc) (fun e => e.loc = loc) := by
  cases n with
  | zero => rw [toCall]; exact xo_fail
  | succ n => rw [toCall]; exact xo_bind fun _ => xo_bind fun _ => xo_pure rfl

theorem toLibrary_loc (n args loc) : XOk (toLibrary n args loc) (fun s => s.loc = loc) := by
  cases n with
  | zero => rw [toLibrary]; exact xo_fail
  | succ n =>
    rw [toLibrary]
    exact xo_bind fun _ => xo_bind fun _ => xo_bind fun _ => xo_bind fun _ => xo_pure rfl

/-- is `d` a `(set! …)` form, or a use of a macro bound in `env`? -/
def isSetOrMacroUse (env : SynEnv) : Datum → Bool
  | .pair (.sym kw _) _ _ => kw = "set!" || (env.get? kw).isSome
  | _ => false

/-- the statement made from a form that is neither a `set!` nor a macro use is located where the
form is (for `set!` it is located at the assigned identifier, for a macro use where the statement
made from the expansion is) -/
theorem toStatement_loc_eq {n : Nat} {d : Datum} {env : SynEnv} {s : Statement}
    (h : (toStatement n d env).1 = .ok s) (hd : isSetOrMacroUse env d = false) : s.loc = d.loc := by
  cases n with
  | zero => rw [toStatement] at h; cases h
  | succ n =>
    unfold toStatement at h
    split at h
    · cases h; rfl
    · cases h; rfl
    · cases h; rfl
    · cases h
    · rename_i a b l
      simp only [bind_def, Xform.lift] at h
      split at h
      · rename_i o env1 ho
        simp only [Prod.mk.injEq] at ho
        obtain ⟨ho, rfl⟩ := ho
        split at h
        · cases h
        · rename_i first rest
          obtain ⟨l', hl'⟩ := Macro.popProper_ok ho
          cases hl'
          simp only [Datum.loc]
          have fin : ∀ {m : XM Statement}, XOk m (fun s => s.loc = l) → (m env).1 = .ok s → s.loc = l :=
            fun hm h => hm env s h
          split at h
          · rename_i kw lk
            simp only [isSetOrMacroUse, Bool.or_eq_false_iff, decide_eq_false_iff_not] at hd
            split at h
            · exact fin (xo_bind fun _ => xo_pure rfl) h
            split at h
            · exact toLibrary_loc _ _ _ _ _ h
            split at h
            · exact fin (xo_bind fun _ => xo_pure rfl) h
            split at h
            · refine fin (xo_bind fun _ => xo_bind fun _ => xo_bind fun _ => xo_bind fun _ => ?_) h
              split
              · exact xo_bind fun _ => xo_bind fun _ => xo_pure rfl
              · exact xo_bind fun _ => xo_pure rfl
            split at h
            · exact fin (xo_bind fun _ => xo_pure rfl) h
            split at h
            · exact fin (xo_bind fun _ => xo_pure rfl) h
            split at h
            · rename_i hset; exact absurd hset hd.1
            split at h
            · exact fin (xo_bind fun _ => xo_bind fun _ => xo_bind fun _ => xo_bind fun _ =>
                xo_bind fun _ => xo_pure rfl) h
            · simp only [bind_def, getEnv] at h
              have hnone : env.get? kw = none := by
                cases hg : env.get? kw with
                | none => rfl
                | some r => simp [hg] at hd
              simp only [hnone] at h
              exact fin (xo_bind' (P := fun e => e.loc = l) (toCall_loc _ _ _ _) fun c hc => xo_pure (by simpa [Statement.loc] using hc)) h
          · exact fin (xo_bind' (P := fun e => e.loc = l) (toCall_loc _ _ _ _) fun c hc => xo_pure (by simpa [Statement.loc] using hc)) h
      · cases h

/-- `(set! x e)` is located at `x` (at the form when `x` carries no position) -/
theorem toStatement_set_loc {n : Nat} {a l : Loc} {rest : Datum} {env : SynEnv} {s : Statement}
    (h : (toStatement n (.pair (.sym "set!" a) rest l) env).1 = .ok s) :
    ∃ name tl, rest.elems.head? = some (.sym name tl) ∧ s.loc = tl.orElse (fun _ => l) := by
  cases n with
  | zero => rw [toStatement] at h; cases h
  | succ n =>
    unfold toStatement at h
    simp only [bind_def, Xform.lift] at h
    split at h
    · rename_i o env1 ho
      simp only [Prod.mk.injEq] at ho
      obtain ⟨ho, rfl⟩ := ho
      split at h
      · cases h
      · rename_i first rest'
        obtain ⟨l', hl'⟩ := Macro.popProper_ok ho
        cases hl'
        simp only [Datum.loc] at h
        simp only [show ("set!" = "define") = False by decide, show ("set!" = "define-library") = False by decide,
          show ("set!" = "lambda") = False by decide, show ("set!" = "if") = False by decide,
          show ("set!" = "import") = False by decide, show ("set!" = "quote") = False by decide,
          if_false, if_true] at h
        refine (xo_bind' (P := fun t => rest.elems.head? = some t)
          (Q := fun s => ∃ name tl, rest.elems.head? = some (.sym name tl) ∧ s.loc = tl.orElse (fun _ => l))
          ?_ fun t ht => ?_) env s h
        · intro env' t ht
          cases hh : rest.elems.head? with
          | none => simp [hh, Xform.need, Xform.fail] at ht
          | some t' => simp only [hh, Xform.need] at ht; cases ht; rfl
        · split
          · rename_i name tl
            exact xo_bind fun _ => xo_bind fun _ => xo_pure ⟨name, tl, ht, rfl⟩
          · exact xo_fail
    · cases h

end XformLoc

/-! ## library sources carry no positions -/

mutual
theorem Datum.strip_locs : ∀ (d : Datum), d.strip.locs = []
  | .prim _ _ => by simp [Datum.strip, Datum.locs]
  | .sym _ _ => by simp [Datum.strip, Datum.locs]
  | .nil _ => by simp [Datum.strip, Datum.locs]
  | .pair a d _ => by simp [Datum.strip, Datum.locs, Datum.strip_locs a, Datum.strip_locs d]
  | .vec xs _ => by simp [Datum.strip, Datum.locs, Datum.stripList_locs xs]
theorem Datum.stripList_locs : ∀ (xs : List Datum), Datum.locsList (Datum.stripList xs) = []
  | [] => by simp [Datum.stripList, Datum.locsList]
  | x :: xs => by simp [Datum.stripList, Datum.locsList, Datum.strip_locs x, Datum.stripList_locs xs]
end

theorem unrole_eq_nil {L : List RPos} (h : unrole L ⊆ []) : L = [] := by
  cases L with
  | nil => rfl
  | cons x xs => have := h (a := x.2) (by simp [unrole]); simp at this

namespace InterpLoc
open Interp

theorem factoryOfText_go_clean (name : LibName) : ∀ (fuel : Nat) (s : Read.PState) (env : Xform.SynEnv)
    (f : Factory), factoryOfText.go name fuel s env = .ok f → f.rlocs = []
  | 0, s, env, f, h => by rw [factoryOfText.go] at h; cases h
  | fuel + 1, s, env, f, h => by
    rw [factoryOfText.go] at h
    split at h
    · cases h
    · cases h
    · rename_i d s' _
      simp only at h
      have hl := XformLoc.toStatement_locs (fuel := Xform.xformFuel d.strip) (d := d.strip) (env := env)
      split at h
      · cases h
      · rename_i n decls l env' hs
        split at h
        · cases h
          have := hl.1 _ (by rw [hs])
          rw [Datum.strip_locs] at this
          have h0 := unrole_eq_nil this
          simp only [Statement.rlocs, List.append_eq_nil_iff] at h0
          simpa [Factory.rlocs] using h0.2
        · exact factoryOfText_go_clean name fuel s' env' f h
      · exact factoryOfText_go_clean name fuel s' _ f h

/-- `library_code_unlocated`: the code of a factory made from a library source carries no position -/
theorem factoryOfText_clean : LibClean := by
  intro name text f h
  unfold factoryOfText at h
  exact factoryOfText_go_clean name _ _ _ f h

end InterpLoc

/-! ## the statement's own position -/

theorem Expr.loc_rlocs (e : Expr) : e.loc.as .node ⊆ e.rlocs := by
  cases e <;> simp [Expr.loc, Expr.rlocs]

theorem Statement.loc_rlocs (s : Statement) : s.loc.as .node ⊆ s.rlocs := by
  cases s with
  | importDecl sets l => simp [Statement.loc, Statement.rlocs]
  | definition d => cases d; simp [Statement.loc, Statement.rlocs, Def.rlocs]
  | syntaxDef n r l => simp [Statement.loc, Statement.rlocs]
  | expr e => simpa [Statement.loc, Statement.rlocs] using Expr.loc_rlocs e
  | libraryDef n d l => simp [Statement.loc, Statement.rlocs]

end Ruschm

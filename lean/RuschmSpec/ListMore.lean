/-
Specification vocabulary for the part of property C11 proved in `RuschmProofs/C11More.lean`
(`filter`, `head`, `atom?`, `vector-equal-from?`, `equal?` on vectors). As in `RuschmSpec/ListLib.lean`:
plain Lean functions and relations on model values, none of them mentions the evaluator.
-/
import RuschmSpec.ListLib
namespace Ruschm
namespace ListSpec

/-- the error of evaluating a name that has no binding (library code carries no source location) -/
def unboundErr : SErr := (.unbound, none)

/-- the error of the native `vector-ref` on an index outside the vector -/
def indexErr : SErr := (.vectorIndex, none)

/-- `(atom? x)`: neither a pair nor the empty list -/
def atomS (x : Value) : Bool := !isPair x && !isNil x

/-! ## `vector-equal-from?` -/

/-- `(vector-equal-from? x y i)` on the items still to compare (`xs`: the items of `x` from index
`i` on, `ys`: those of `y`): the walk ends with `#t` when the items of `x` are exhausted (the
items of `y` beyond are not looked at), with `#f` at the first pair that is not `equal?`, and with
the `vector-ref` index error when `y` is exhausted before `x`. `cmp` compares two items (`none`:
that comparison has no outcome). -/
def vecFromS (cmp : Value → Value → Option Bool) : List Value → List Value → Option (Except SErr Bool)
  | [], _ => some (.ok true)
  | _ :: _, [] => some (.error indexErr)
  | x :: xs, y :: ys =>
    match cmp x y with
    | some true => vecFromS cmp xs ys
    | some false => some (.ok false)
    | none => none

/-! ## `filter` -/

/-- how `filter` ends on the final tail `t` of its list when every element was kept: the list of the
kept elements on `()`, the `car` type error on any other tail -/
def filterEnd (t : Value) (kept : List Value) : Except SErr Value :=
  if isNil t then .ok (Value.ofList kept) else .error typeErr

section higher
variable (app : Store → List Value → Except SErr Value → Store → Prop) (ext : Store → Store → Prop)

/-- `filter` AS THE LIBRARY DEFINES IT: the predicate is applied to the elements in list order, each
application in the store the previous one left (up to `ext`); an error of the predicate ends the
traversal and is the outcome; an element for which the predicate returns a true value is kept and
the traversal goes on; at the FIRST element for which the predicate returns `#f` the traversal ENDS
with the unbound-variable error (`cons_drop`: the `else` clause of the definition calls the
undefined name `filterb`). So the outcome is `.ok` only if every element was kept. -/
inductive FilterM : Store → List Value → Except SErr (List Value) → Store → Prop where
  | nil {σ σ'} : ext σ σ' → FilterM σ [] (.ok []) σ'
  | cons_err {σ σ₁ σ₂ σ' x xs er} : ext σ σ₁ → app σ₁ [x] (.error er) σ₂ → ext σ₂ σ' →
      FilterM σ (x :: xs) (.error er) σ'
  | cons_keep {σ σ₁ σ₂ σ₃ σ' x xs v r} : ext σ σ₁ → app σ₁ [x] (.ok v) σ₂ → v.truthy = true →
      FilterM σ₂ xs r σ₃ → ext σ₃ σ' → FilterM σ (x :: xs) (r.map (x :: ·)) σ'
  | cons_drop {σ σ₁ σ₂ σ' x xs v} : ext σ σ₁ → app σ₁ [x] (.ok v) σ₂ → v.truthy = false → ext σ₂ σ' →
      FilterM σ (x :: xs) (.error unboundErr) σ'

end higher

/-- the outcome of the library's `filter` for a predicate that is a pure total function `p` on
the elements: the list itself when `p` holds of every element, else the unbound-variable error -/
def filterLibS (p : Value → Bool) (xs : List Value) : Except SErr (List Value) :=
  if xs.all p then .ok xs else .error unboundErr

/-- where the library's `filter` returns, it returns `List.filter` -/
theorem filterLibS_ok (p : Value → Bool) (xs vs : List Value) (h : filterLibS p xs = .ok vs) :
    vs = xs.filter p := by
  unfold filterLibS at h
  split at h
  · rename_i hall
    cases h
    exact (List.filter_eq_self.mpr (by simpa using hall)).symm
  · cases h

/-- … and it returns exactly when nothing is to be removed -/
theorem filterLibS_ok_iff (p : Value → Bool) (xs : List Value) :
    (∃ vs, filterLibS p xs = .ok vs) ↔ xs.filter p = xs := by
  unfold filterLibS
  constructor
  · rintro ⟨vs, h⟩
    split at h
    · rename_i hall; exact List.filter_eq_self.mpr (by simpa using hall)
    · cases h
  · intro h
    have : xs.all p = true := by simpa using List.filter_eq_self.mp h
    exact ⟨xs, by simp [this]⟩

end ListSpec
end Ruschm


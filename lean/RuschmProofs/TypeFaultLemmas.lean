/-
Helper lemmas for `C08Types.lean`: a non-number handed to a numeric native procedure, at any position.
-/
import RuschmProofs.C08
import RuschmProofs.NumLemmas

namespace Ruschm.Prim
open Ruschm Ruschm.Eval

/-! ## decomposition of an argument list at its first non-number -/

theorem split_first_nonnum : ∀ (args : List Value), (∃ x ∈ args, ¬ IsNum x) →
    ∃ (pre : List Num) (x : Value) (post : List Value), args = pre.map Value.num ++ x :: post ∧ ¬ IsNum x
  | [], h => by obtain ⟨x, hx, _⟩ := h; cases hx
  | v :: vs, h => by
    cases v with
    | num n =>
      have h' : ∃ x ∈ vs, ¬ IsNum x := by
        obtain ⟨x, hx, hn⟩ := h
        rcases List.mem_cons.mp hx with rfl | hx'
        · exact absurd trivial hn
        · exact ⟨x, hx', hn⟩
      obtain ⟨pre, x, post, he, hx⟩ := split_first_nonnum vs h'
      exact ⟨n :: pre, x, post, by rw [he]; rfl, hx⟩
    | _ => exact ⟨[], _, vs, rfl, fun h => h⟩

theorem isExact_eq_notReal (n : Num) : n.isExact = n.notReal := by cases n <;> rfl

/-! ## the folds of `+`, `*`, `-` succeed on numbers with positive denominators -/

/-- `f` is total on numbers with positive denominators and keeps them positive -/
def TotalPos (f : Num → Num → Except Err Num) : Prop :=
  ∀ a b, a.PosDen → b.PosDen → ∃ r, f a b = .ok r ∧ r.PosDen

theorem totalPos_add : TotalPos Num.add := fun _ _ ha hb => by
  obtain ⟨r, hr⟩ := Num.add_isOk ha hb; exact ⟨r, hr, (Num.add_wf hr).posDen⟩
theorem totalPos_sub : TotalPos Num.sub := fun _ _ ha hb => by
  obtain ⟨r, hr⟩ := Num.sub_isOk ha hb; exact ⟨r, hr, (Num.sub_wf hr).posDen⟩
theorem totalPos_mul : TotalPos Num.mul := fun _ _ ha hb => by
  obtain ⟨r, hr⟩ := Num.mul_isOk ha hb; exact ⟨r, hr, (Num.mul_wf hr).posDen⟩

theorem foldNum_nums_cons (f : Num → Num → Except Err Num) (init n : Num) (rest : List Value) :
    foldNum f init (.num n :: rest) = (f init n >>= fun r => foldNum f r rest) := by
  simp only [foldNum, List.foldlM_cons, expectNumber]; rfl

theorem foldNum_ok {f : Num → Num → Except Err Num} (hf : TotalPos f) : ∀ (pre : List Num) (init : Num),
    init.PosDen → (∀ n ∈ pre, n.PosDen) → ∃ acc, foldNum f init (pre.map Value.num) = .ok acc ∧ acc.PosDen
  | [], init, hi, _ => ⟨init, rfl, hi⟩
  | n :: pre, init, hi, hp => by
    obtain ⟨r, hr, hrp⟩ := hf init n hi (hp n (List.mem_cons_self ..))
    obtain ⟨acc, hacc, hap⟩ := foldNum_ok hf pre r hrp (fun m hm => hp m (List.mem_cons_of_mem _ hm))
    refine ⟨acc, ?_, hap⟩
    show foldNum f init (.num n :: pre.map Value.num) = _
    rw [foldNum_nums_cons, hr]; exact hacc

/-- the fold meets the non-number -/
theorem foldNum_nonnum {f : Num → Num → Except Err Num} (hf : TotalPos f) {pre : List Num} {init : Num} {x : Value}
    {post : List Value} (hi : init.PosDen) (hp : ∀ n ∈ pre, n.PosDen) (hx : ¬ IsNum x) :
    foldNum f init (pre.map Value.num ++ x :: post) = .error .type := by
  obtain ⟨acc, hacc, _⟩ := foldNum_ok hf pre init hi hp
  exact foldNum_type hacc hx

/-- `-` (and `/` once its zero check is passed): `subDiv` meets the non-number -/
theorem subDiv_nonnum {f : Num → Num → Except Err Num} {unit : Num} {pre : List Num} {x : Value} {post : List Value}
    (hx : ¬ IsNum x)
    (hfold : ∀ a b more, pre = a :: b :: more → ∃ init, f a b = .ok init ∧
      foldNum f init (more.map Value.num ++ x :: post) = .error .type) :
    subDiv f unit (pre.map Value.num ++ x :: post) = .error .type := by
  match pre, hfold with
  | [], _ =>
    show subDiv f unit (x :: post) = _
    simp only [subDiv, expectNumber_err hx]; rfl
  | [a], _ =>
    show subDiv f unit (.num a :: x :: post) = _
    cases x <;> first | exact absurd trivial hx | (simp only [subDiv, expectNumber]; rfl)
  | a :: b :: more, hfold =>
    obtain ⟨init, hi, hrest⟩ := hfold a b more rfl
    show subDiv f unit (.num a :: .num b :: (more.map Value.num ++ x :: post)) = _
    simp only [subDiv, expectNumber]
    show (f a b >>= fun init => foldNum f init _) = _
    rw [hi]; exact hrest

/-! ## `/`: the fold succeeds as long as no exact zero divisor is met while every operand is exact -/

theorem exactPrefix_nums : ∀ (pre : List Num), exactPrefix (pre.map Value.num) = pre.takeWhile Num.notReal
  | [] => rfl
  | n :: pre => by
    show exactPrefix (.num n :: pre.map Value.num) = _
    rw [exactPrefix, List.takeWhile_cons]
    cases n.notReal
    · rfl
    · simp only [if_true]; rw [exactPrefix_nums pre]

theorem exactPrefix_nums_nonnum {x : Value} (hx : ¬ IsNum x) (post : List Value) : ∀ (pre : List Num),
    exactPrefix (pre.map Value.num ++ x :: post) = pre.takeWhile Num.notReal
  | [] => by
    show exactPrefix (x :: post) = _
    cases x <;> first | rfl | exact absurd trivial hx
  | n :: pre => by
    show exactPrefix (.num n :: (pre.map Value.num ++ x :: post)) = _
    rw [exactPrefix, List.takeWhile_cons]
    cases n.notReal
    · rfl
    · simp only [if_true]; rw [exactPrefix_nums_nonnum hx post pre]

theorem div_step {a b : Num} (ha : a.PosDen) (hb : b.PosDen)
    (hz : a.isExact = true → b.isExact = true → b.isExactZero = false) :
    ∃ r, Num.div a b = .ok r ∧ r.PosDen ∧ (r.isExact = true → a.isExact = true ∧ b.isExact = true) := by
  rcases Num.div_cases ha hb with ⟨ea, eb, h0, _⟩ | ⟨_, r, hr⟩
  · have := hz ea eb
    rw [Num.isExactZero_iff.mpr ⟨eb, h0⟩] at this; cases this
  · exact ⟨r, hr, (Num.div_wf hr).posDen, fun he => Num.div_exact_inv hr he⟩

theorem foldNum_div_ok : ∀ (more : List Num) (acc : Num), acc.PosDen → (∀ n ∈ more, n.PosDen) →
    (acc.isExact = true → (more.takeWhile Num.notReal).any Num.isExactZero = false) →
    ∃ r, foldNum Num.div acc (more.map Value.num) = .ok r ∧ r.PosDen
  | [], acc, ha, _, _ => ⟨acc, rfl, ha⟩
  | b :: more, acc, ha, hp, hz => by
    have hb := hp b (List.mem_cons_self ..)
    obtain ⟨r, hr, hrp, hre⟩ := div_step ha hb (fun ea eb => by
      have := hz ea
      rw [List.takeWhile_cons, ← isExact_eq_notReal, eb] at this
      simp only [if_true, List.any_cons, Bool.or_eq_false_iff] at this
      exact this.1)
    obtain ⟨r', hr', hrp'⟩ := foldNum_div_ok more r hrp (fun m hm => hp m (List.mem_cons_of_mem _ hm)) (fun er => by
      obtain ⟨ea, eb⟩ := hre er
      have := hz ea
      rw [List.takeWhile_cons, ← isExact_eq_notReal, eb] at this
      simp only [if_true, List.any_cons, Bool.or_eq_false_iff] at this
      exact this.2)
    refine ⟨r', ?_, hrp'⟩
    show foldNum Num.div acc (.num b :: more.map Value.num) = _
    rw [foldNum_nums_cons, hr]; exact hr'

/-- `/` meets the non-number: the numbers before it have positive denominators and no exact zero divisor
occurs among them while every operand so far is exact (the model's own `exact_so_far` check) -/
theorem divArgs_nonnum {pre : List Num} {x : Value} {post : List Value} (hx : ¬ IsNum x)
    (hp : ∀ n ∈ pre, n.PosDen) (hz : ((exactPrefix (pre.map Value.num)).drop 1).any Num.isExactZero = false) :
    divArgs (pre.map Value.num ++ x :: post) = .error .type := by
  rw [exactPrefix_nums] at hz
  match pre, hp, hz with
  | [], _, _ =>
    show divArgs (x :: post) = _
    rw [divArgs_first_nonnum hx]; exact subDiv_nonnum (pre := []) hx (fun _ _ _ h => by cases h)
  | [a], _, _ =>
    show divArgs (.num a :: x :: post) = _
    rw [divArgs_second_nonnum hx]; exact subDiv_nonnum (pre := [a]) hx (fun _ _ _ h => by cases h)
  | a :: b :: more, hp, hz =>
    have hcheck : divArgs ((a :: b :: more).map Value.num ++ x :: post) =
        subDiv Num.div (.int 1) ((a :: b :: more).map Value.num ++ x :: post) := by
      show divArgs (.num a :: .num b :: (more.map Value.num ++ x :: post)) = _
      rw [divArgs_cons_cons]
      have : exactPrefix (.num a :: .num b :: (more.map Value.num ++ x :: post)) =
          (a :: b :: more).takeWhile Num.notReal := exactPrefix_nums_nonnum hx post (a :: b :: more)
      rw [this, hz]; rfl
    rw [hcheck]
    refine subDiv_nonnum hx (fun a' b' more' he => ?_)
    cases he
    have ha := hp a (List.mem_cons_self ..)
    have hb := hp b (List.mem_cons_of_mem _ (List.mem_cons_self ..))
    have hm : ∀ n ∈ more, n.PosDen := fun n hn => hp n (List.mem_cons_of_mem _ (List.mem_cons_of_mem _ hn))
    -- what the zero check says about the divisors
    have hz' : a.isExact = true → ((b :: more).takeWhile Num.notReal).any Num.isExactZero = false := by
      intro ea
      rw [List.takeWhile_cons, ← isExact_eq_notReal, ea] at hz
      simpa using hz
    obtain ⟨init, hi, hip, hie⟩ := div_step ha hb (fun ea eb => by
      have := hz' ea
      rw [List.takeWhile_cons, ← isExact_eq_notReal, eb] at this
      simp only [if_true, List.any_cons, Bool.or_eq_false_iff] at this
      exact this.1)
    refine ⟨init, hi, ?_⟩
    obtain ⟨acc, hacc, _⟩ := foldNum_div_ok more init hip hm (fun ei => by
      obtain ⟨ea, eb⟩ := hie ei
      have := hz' ea
      rw [List.takeWhile_cons, ← isExact_eq_notReal, eb] at this
      simp only [if_true, List.any_cons, Bool.or_eq_false_iff] at this
      exact this.2)
    exact foldNum_type hacc hx

/-! ## `max`, `min` -/

theorem extremum_fold_nonnum {step : Num → Num → Num} {x : Value} {post : List Value} (hx : ¬ IsNum x) :
    ∀ (pre : List Num) (init : Num),
    (pre.map Value.num ++ x :: post).foldlM (fun a v => do let b ← expectNumber v; pure (step a b)) init =
      (.error .type : Except Err Num)
  | [], init => by
    simp only [List.map_nil, List.nil_append, List.foldlM_cons, expectNumber_err hx]; rfl
  | n :: pre, init => by
    show (Value.num n :: (pre.map Value.num ++ x :: post)).foldlM _ init = _
    simp only [List.foldlM_cons, expectNumber]
    exact extremum_fold_nonnum hx pre (step init n)

theorem extremum_nonnum {step : Num → Num → Num} {pre : List Num} {x : Value} {post : List Value} (hx : ¬ IsNum x) :
    extremum step (pre.map Value.num ++ x :: post) = .error .type := by
  cases pre with
  | nil =>
    show extremum step (x :: post) = _
    simp only [extremum, expectNumber_err hx]; rfl
  | cons n pre =>
    show extremum step (.num n :: (pre.map Value.num ++ x :: post)) = _
    simp only [extremum, expectNumber]
    exact extremum_fold_nonnum hx pre n

/-! ## `boolean=?` -/

/-- "is a boolean" -/
def IsBool : Value → Prop
  | .bool _ => True
  | _ => False

theorem cmpBool_go_nonbool {x : Value} {post : List Value} (hx : ¬ IsBool x) : ∀ (pre : List Bool) (last acc : Bool),
    cmpBool.go last acc (pre.map Value.bool ++ x :: post) = .error .type
  | [], last, acc => by
    show cmpBool.go last acc (x :: post) = _
    cases x <;> first | rfl | exact absurd trivial hx
  | b :: pre, last, acc => by
    show cmpBool.go last acc (.bool b :: (pre.map Value.bool ++ x :: post)) = _
    rw [cmpBool.go]
    exact cmpBool_go_nonbool hx pre b _

theorem cmpBool_nonbool {pre : List Bool} {x : Value} {post : List Value} (hx : ¬ IsBool x) :
    cmpBool (pre.map Value.bool ++ x :: post) = .error .type := by
  cases pre with
  | nil =>
    show cmpBool (x :: post) = _
    cases x <;> first | rfl | exact absurd trivial hx
  | cons b pre =>
    show cmpBool (.bool b :: (pre.map Value.bool ++ x :: post)) = _
    rw [cmpBool]
    exact cmpBool_go_nonbool hx pre b true

/-! ## whatever the numbers before it: never a value -/

theorem foldNum_has_nonnum {f : Num → Num → Except Err Num} : ∀ (args : List Value) (init : Num),
    (∃ x ∈ args, ¬ IsNum x) → ∃ e, foldNum f init args = .error e
  | [], _, h => by obtain ⟨x, hx, _⟩ := h; cases hx
  | v :: vs, init, h => by
    cases v with
    | num n =>
      rw [foldNum_nums_cons]
      cases hf : f init n with
      | error e => exact ⟨e, rfl⟩
      | ok r =>
        have h' : ∃ x ∈ vs, ¬ IsNum x := by
          obtain ⟨x, hx, hn⟩ := h
          rcases List.mem_cons.mp hx with rfl | hx'
          · exact absurd trivial hn
          · exact ⟨x, hx', hn⟩
        exact foldNum_has_nonnum vs r h'
    | _ => exact ⟨.type, by simp only [foldNum, List.foldlM_cons, expectNumber]; rfl⟩

theorem subDiv_has_nonnum {f : Num → Num → Except Err Num} {unit : Num} {args : List Value}
    (h : ∃ x ∈ args, ¬ IsNum x) : ∃ e, subDiv f unit args = .error e := by
  obtain ⟨pre, x, post, rfl, hx⟩ := split_first_nonnum args h
  match pre with
  | [] => exact ⟨.type, subDiv_nonnum (pre := []) hx (fun _ _ _ h => by cases h)⟩
  | [a] => exact ⟨.type, subDiv_nonnum (pre := [a]) hx (fun _ _ _ h => by cases h)⟩
  | a :: b :: more =>
    show ∃ e, subDiv f unit (.num a :: .num b :: (more.map Value.num ++ x :: post)) = .error e
    simp only [subDiv, expectNumber]
    show ∃ e, (f a b >>= fun init => foldNum f init _) = .error e
    cases hf : f a b with
    | error e => exact ⟨e, rfl⟩
    | ok init => exact foldNum_has_nonnum _ init ⟨x, by simp, hx⟩

theorem divArgs_has_nonnum {args : List Value} (h : ∃ x ∈ args, ¬ IsNum x) : ∃ e, divArgs args = .error e := by
  unfold divArgs
  simp only
  split <;> split <;> first | exact ⟨_, rfl⟩ | exact subDiv_has_nonnum h

end Ruschm.Prim

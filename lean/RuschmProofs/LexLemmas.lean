/-
Helper lemmas about the model lexer (`RuschmModel/Lex.lean`): what each scanner consumes, where it
stops, and that it always makes progress. Used by `C06.lean` and `C18Bracket.lean`.
-/
import RuschmSpec.Text
namespace Ruschm.Text
open Ruschm Ruschm.Lex

/-! ## cursor -/

@[simp] theorem advs_nil (p : Pos) : advs [] p = p := rfl
@[simp] theorem advs_cons (c : Char) (cs : List Char) (p : Pos) :
    advs (c :: cs) p = advs cs (adv c p) := rfl
theorem advs_append (a b : List Char) (p : Pos) : advs (a ++ b) p = advs b (advs a p) := by
  simp [advs, List.foldl_append]

/-! ## the `Except` monad -/

theorem bind_ok {ε α β} {x : Except ε α} {f : α → Except ε β} {r : β} :
    (x >>= f) = .ok r ↔ ∃ a, x = .ok a ∧ f a = .ok r := by
  cases x <;> simp [bind, Except.bind]

theorem map_ok_some {ε α} {x : Except ε α} {r : α} :
    (x.map some) = .ok (some r) ↔ x = .ok r := by
  cases x <;> simp [Except.map]

theorem map_ok_none {ε α} {x : Except ε α} : (x.map some) = .ok none ↔ False := by
  cases x <;> simp [Except.map]

theorem endOfToken_eq (cs : List Char) (p : Pos) :
    endOfToken cs p = if startsDelim cs then .ok () else .error p := by
  cases cs <;> rfl

theorem endOfToken_ok {cs : List Char} {p : Pos} {u : Unit} :
    endOfToken cs p = .ok u ↔ startsDelim cs = true := by
  rw [endOfToken_eq]; split <;> simp_all

theorem testDelimiter_ok {c : Char} {p : Pos} {u : Unit} :
    testDelimiter p c = .ok u ↔ isDelimiter c = true := by
  unfold testDelimiter; split <;> simp_all

theorem endOfSharpToken_ok {cs : List Char} {p : Pos} {u : Unit} :
    endOfSharpToken cs p = .ok u ↔ (startsDelim cs = true ∨ startsSharp cs = true) := by
  unfold endOfSharpToken
  split
  · simp [startsSharp]
  · rename_i h
    rw [endOfToken_ok]
    have : startsSharp cs = false := by
      unfold startsSharp; split
      · rename_i c r; exact absurd rfl (h r)
      · rfl
    simp [this]

/-! ## character classes -/

/-- characters the bracket counter does not react to -/
def isPlain (c : Char) : Bool :=
  !(c = '(' || c = ')' || c = ';' || c = '"' || c = '|' || c = '#')

theorem isDigit_plain {c : Char} (h : isDigit c = true) : isPlain c = true := by
  simp only [isDigit, Bool.and_eq_true, decide_eq_true_eq] at h
  simp only [isPlain, Bool.not_eq_true', Bool.or_eq_false_iff, decide_eq_false_iff_not]
  refine ⟨⟨⟨⟨⟨?_, ?_⟩, ?_⟩, ?_⟩, ?_⟩, ?_⟩ <;> (rintro rfl; revert h; decide)

theorem isDigit_not_delim {c : Char} (h : isDigit c = true) : isDelimiter c = false := by
  simp only [isDigit, Bool.and_eq_true, decide_eq_true_eq] at h
  simp only [isDelimiter, isWs, Bool.or_eq_false_iff, decide_eq_false_iff_not]
  refine ⟨⟨⟨⟨⟨⟨⟨⟨?_, ?_⟩, ?_⟩, ?_⟩, ?_⟩, ?_⟩, ?_⟩, ?_⟩, ?_⟩ <;> (rintro rfl; revert h; decide)

end Ruschm.Text

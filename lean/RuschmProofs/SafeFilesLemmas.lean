/-
Helper lemmas for C07Files: the safety invariant `Interp.Safe` and the NEW entry points of the
model — the lookup directory `State.dir`, the file table `State.files`, and `Interp.evalFile`.

Stays on the `Safe*` side of the import graph (no `DirLemmas`/`EvalLemmas`): the few facts about
`evalFile` and `dir` needed here are re-proved from `LibLemmas.evalAst_inv`.
-/
import RuschmProofs.SafeInterp
import RuschmProofs.SafeUsable

namespace Ruschm
namespace Interp

/-- `Interp.Safe` reads only the store, the root frame, the instance cache, the factory table and
the syntax environment: two states that agree on these are safe together. In particular it does
not read `dir`, `files`, `inProgress`, `importEnd`. -/
theorem Safe.congr {st st' : State} (h : Interp.Safe st) (hs : st'.store = st.store)
    (he : st'.env = st.env) (hi : st'.instances = st.instances) (hf : st'.factories = st.factories)
    (hy : st'.syn = st.syn) : Interp.Safe st' := by
  obtain ⟨a, b, c, d, e, f, g, i, j⟩ := st
  obtain ⟨a', b', c', d', e', f', g', i', j'⟩ := st'
  simp only at hs he hi hf hy
  subst hs he hi hf hy
  exact ⟨h.store, h.env, h.instances, h.factories, h.syn⟩

theorem safe_withDir {st : State} (h : Interp.Safe st) (d : String) : Interp.Safe { st with dir := d } :=
  h.congr rfl rfl rfl rfl rfl

theorem safe_withFiles {st : State} (h : Interp.Safe st) (fs : List (String × FileEntry)) :
    Interp.Safe { st with files := fs } :=
  h.congr rfl rfl rfl rfl rfl

theorem safe_withFilesDir {st : State} (h : Interp.Safe st) (fs : List (String × FileEntry)) (d : String) :
    Interp.Safe { st with files := fs, dir := d } :=
  h.congr rfl rfl rfl rfl rfl

/-! ### `evalText` keeps the lookup directory (with the in-progress set, the files, the root frame) -/

theorem evalText_go_frame4 (fuel : Nat) : ∀ (n : Nat) (s : Read.PState) (st : State) (last : Option Value),
    (evalText.go fuel n s st last).2.inProgress = st.inProgress ∧
    (evalText.go fuel n s st last).2.files = st.files ∧ (evalText.go fuel n s st last).2.env = st.env ∧
    (evalText.go fuel n s st last).2.dir = st.dir
  | 0, s, st, last => by rw [evalText.go]; exact ⟨rfl, rfl, rfl, rfl⟩
  | n + 1, s, st, last => by
    rw [evalText.go]
    split
    · exact ⟨rfl, rfl, rfl, rfl⟩
    · exact ⟨rfl, rfl, rfl, rfl⟩
    · rename_i d s' hn
      split
      · exact ⟨rfl, rfl, rfl, rfl⟩
      · rename_i stmt syn hx
        have key : ∀ r st1, evalAst fuel { st with syn := syn } stmt = (r, st1) →
            st1.inProgress = st.inProgress ∧ st1.files = st.files ∧ st1.env = st.env ∧ st1.dir = st.dir := by
          intro r st1 he
          obtain ⟨st0, h0, i⟩ := evalAst_inv storeRel_true he
          rcases h0 with rfl | rfl
          · exact ⟨i.inProgress, i.files, i.env, i.dir⟩
          · exact ⟨i.inProgress, i.files, i.env, i.dir⟩
        split
        · rename_i e st1 he; exact key _ _ he
        · rename_i v st1 he
          have k := key _ _ he
          have := evalText_go_frame4 fuel n s' st1 v
          exact ⟨this.1.trans k.1, this.2.1.trans k.2.1, this.2.2.1.trans k.2.2.1, this.2.2.2.trans k.2.2.2⟩

theorem evalText_frame4 (fuel : Nat) (st : State) (text : List Char) :
    (evalText fuel st text).2.inProgress = st.inProgress ∧
    (evalText fuel st text).2.files = st.files ∧ (evalText fuel st text).2.env = st.env ∧
    (evalText fuel st text).2.dir = st.dir := by
  unfold evalText
  exact evalText_go_frame4 fuel _ _ st none

/-! ### `evalFile`, branch by branch -/

theorem evalFile_text {fuel : Nat} {st : State} {path t : String}
    (h : st.files.lookup path = some (.text t)) :
    evalFile fuel st path = evalText fuel { st with dir := dirOf path } t.toList := by
  unfold evalFile
  simp only [h]

theorem evalFile_unreadable {fuel : Nat} {st : State} {path : String}
    (h : st.files.lookup path = some .unreadable) :
    evalFile fuel st path = (.error (.io, none), { st with dir := dirOf path }) := by
  unfold evalFile
  simp only [h]

theorem evalFile_missing {fuel : Nat} {st : State} {path : String}
    (h : st.files.lookup path = none) :
    evalFile fuel st path = (.error (.io, none), { st with dir := dirOf path }) := by
  unfold evalFile
  simp only [h]

/-- `evalFile` on ANY path, from a safe state: no panic, and the state stays safe -/
theorem evalFile_post (fuel : Nat) (st : State) (path : String) (hst : Interp.Safe st) :
    IPost (evalFile fuel st path).2 (evalFile fuel st path).1 (fun _ => True) := by
  have hd := safe_withDir hst (dirOf path)
  cases h : st.files.lookup path with
  | none => rw [evalFile_missing h]; exact ipost_err hd (by simp [SErr.NP])
  | some en =>
    cases en with
    | unreadable => rw [evalFile_unreadable h]; exact ipost_err hd (by simp [SErr.NP])
    | text t => rw [evalFile_text h]; exact evalText_post fuel _ _ hd

/-- what `evalFile` does to the rest of the state: the lookup directory is the directory of the
path — whatever the outcome —, the in-progress set, the files and the root frame are as before -/
theorem evalFile_frame (fuel : Nat) (st : State) (path : String) :
    (evalFile fuel st path).2.inProgress = st.inProgress ∧
    (evalFile fuel st path).2.files = st.files ∧ (evalFile fuel st path).2.env = st.env ∧
    (evalFile fuel st path).2.dir = dirOf path := by
  cases h : st.files.lookup path with
  | none => rw [evalFile_missing h]; exact ⟨rfl, rfl, rfl, rfl⟩
  | some en =>
    cases en with
    | unreadable => rw [evalFile_unreadable h]; exact ⟨rfl, rfl, rfl, rfl⟩
    | text t => rw [evalFile_text h]; exact evalText_frame4 fuel _ _

/-! ### the library lookup, spelled out for one file -/

/-- a library with no instance and no registered factory whose file (under the CURRENT directory)
holds a text that `factoryOfText` rejects: `get_library` reports exactly that error and leaves the
state as it was -/
theorem getLibrary_bad_file {fuel : Nat} {st : State} {name : LibName} {loc : Loc} {t : String} {e : SErr}
    (hi : libLookup st.instances name = none) (hf : libLookup st.factories name = none)
    (hfile : st.files.lookup (fileKey st.dir (libPath name)) = some (.text t))
    (he : factoryOfText name t = .error e) :
    getLibrary (fuel + 1) st name loc = (.error e, st) := by
  rw [Interp.getLibrary]
  simp only [hi, hf, hfile, he]

/-- ... an unreadable file: the io error -/
theorem getLibrary_unreadable_file {fuel : Nat} {st : State} {name : LibName} {loc : Loc}
    (hi : libLookup st.instances name = none) (hf : libLookup st.factories name = none)
    (hfile : st.files.lookup (fileKey st.dir (libPath name)) = some .unreadable) :
    getLibrary (fuel + 1) st name loc = (.error (.io, none), st) := by
  rw [Interp.getLibrary]
  simp only [hi, hf, hfile]

/-- ... no file: the library is not found, located at the import -/
theorem getLibrary_no_file {fuel : Nat} {st : State} {name : LibName} {loc : Loc}
    (hi : libLookup st.instances name = none) (hf : libLookup st.factories name = none)
    (hfile : st.files.lookup (fileKey st.dir (libPath name)) = none) :
    getLibrary (fuel + 1) st name loc = (.error (.libNotFound, loc), st) := by
  rw [Interp.getLibrary]
  simp only [hi, hf, hfile]

/-- the empty text defines no library -/
theorem factoryOfText_empty' (n : LibName) : factoryOfText n "" = .error (.libNotFound, none) := by
  have hs : Lex.skipAtmosphere false [] (1, 1) = ([], (1, 1)) := by
    rw [Lex.skipAtmosphere]
  have h0 : Lex.all [] = ([], none) := by
    simp [Lex.all, Lex.allAux, Lex.next, hs, Lex.token]
  have h1 : "".toList = [] := rfl
  unfold factoryOfText
  simp only [h1, Read.ofText, h0, List.map_nil, List.length_nil]
  rw [factoryOfText.go]
  simp [Read.nextDatum, Read.advance, bind, Except.bind, Read.currentDatum, Read.fuelFor]

/-- a text that is one closing bracket: the reader's syntax error (without a location: library
files are read by a lexer without locations) -/
theorem factoryOfText_rparen (n : LibName) : factoryOfText n ")" = .error (.syntax, none) := by
  have lexR : Lex.all [')'] = ([⟨.rparen, some (1, 2)⟩], none) := by
    simp [Lex.all, Lex.allAux, Lex.next, Lex.skipAtmosphere, Lex.token, Lex.adv, Lex.isWs]
  have h1 : ")".toList = [')'] := by decide
  unfold factoryOfText
  simp only [h1, Read.ofText, lexR, List.map_cons, List.map_nil, List.length_cons, List.length_nil]
  rw [factoryOfText.go]
  simp [Read.nextDatum, Read.advance, bind, Except.bind, Read.currentDatum, Read.fuelFor]

end Interp
end Ruschm

"""An INDEPENDENT reference MODULE SYSTEM, in Python, on top of the reference evaluator (checks/pyeval.py): define-library with
export specs (plain and renamed), import declarations with the import-set algebra (only / except / prefix / rename, nested), begin
bodies; a library is instantiated ONCE per program, in a fresh root environment made only of copies of its imports and of its own
definitions; importing copies the exported VALUES into the importing environment; export specs are resolved after the whole body.
It shares nothing with the Rust code or the Lean model.  Anything outside its range (an error of any kind, an import cycle, a
conflicting import, an unknown library) raises OutOfModel and the scenario is simply not judged by this oracle.

Also here: `lib_soup`, a generator of library scenarios (a DAG of two to four stateful libraries importing one another through
every kind of import set, and a program that imports some of them and calls what it sees in random order)."""
from . import pyeval, sexp
from .pyeval import OutOfModel, Env, canon

STD = ("scheme", "base")
WRITE = ("scheme", "write")


class LibMachine(pyeval.Machine):
    def __init__(self):
        super().__init__()
        self.glob.vars["make-vector"] = pyeval.Builtin("make-vector", lambda a: pyeval.Vec([a[1]] * pyeval.ints([a[0]])[0], True))
        self.builtins = dict(self.glob.vars)
        self.glob = Env()                 # the program's environment starts empty: names come from import declarations
        self.sources = {}                 # name tuple -> list of declarations (parsed)
        self.instances = {}               # name tuple -> {external name: value}
        self.in_progress = []
        self.ds = sexp.Desugar()

    def register(self, text):
        form = sexp.parse_all(text)[0]
        if not (isinstance(form, list) and form and form[0] == "define-library"):
            raise OutOfModel("not a library")
        self.sources[tuple(form[1])] = form[2:]

    def exports_of(self, name):
        if name in (STD, WRITE):
            return dict(self.builtins)
        if name in self.instances:
            return self.instances[name]
        if name in self.in_progress or name not in self.sources:
            raise OutOfModel("cycle or unknown library")
        self.in_progress.append(name)
        env = Env()
        specs = []
        for decl in self.sources[name]:
            if decl[0] == "import":
                self.import_into(env, decl[1:])
            elif decl[0] == "export":
                for s in decl[1:]:
                    specs.append((s, s) if isinstance(s, str) else (s[1], s[2]))
            elif decl[0] == "begin":
                for f in decl[1:]:
                    self.statement(self.ds.d(f), env)
            else:
                raise OutOfModel("declaration")
        out = {}
        for internal, external in specs:
            e = env.find(internal)
            if e is None:
                raise OutOfModel("unbound export")
            out[external] = e.vars[internal]
        self.in_progress.pop()
        self.instances[name] = out
        return out

    def import_set(self, t):
        """-> list of (name, value)"""
        if isinstance(t, list) and t and t[0] in ("only", "except", "prefix", "rename") and len(t) >= 2 and isinstance(t[1], list):
            inner = self.import_set(t[1])
            if t[0] == "only":
                return [(n, v) for n, v in inner if n in t[2:]]
            if t[0] == "except":
                return [(n, v) for n, v in inner if n not in t[2:]]
            if t[0] == "prefix":
                return [(t[2] + n, v) for n, v in inner]
            table = {p[0]: p[1] for p in t[2:]}
            return [(table.get(n, n), v) for n, v in inner]
        return list(self.exports_of(tuple(t)).items())

    def import_into(self, env, sets):
        merged = {}
        for t in sets:
            for n, v in self.import_set(t):
                if n in merged and merged[n] is not v and not (isinstance(v, int) and merged[n] == v):
                    raise OutOfModel("conflicting import")
                merged[n] = v
        env.vars.update(merged)

    def toplevel(self, s):
        if isinstance(s, list) and s and s[0] == "import":
            self.import_into(self.glob, s[1:])
            return "N"
        return super().toplevel(s)


def run_scenario(libraries, forms):
    """libraries: define-library texts; forms: the program's top-level forms. -> results or None (outside the range)"""
    m = LibMachine()
    out = []
    try:
        for text in libraries:
            m.register(text)
        for text in forms:
            parsed = sexp.parse_all(text)
            for f in parsed:
                if isinstance(f, list) and f and f[0] == "import":
                    r = m.toplevel(f)
                else:
                    r = m.toplevel(m.ds.d(f))
            out.append(r)
        return out
    except (OutOfModel, RecursionError, IndexError, KeyError, TypeError):
        return None


# ---------------------------------------------------------------- generator

def _apply(style, arg, names):
    """names: list of (visible, external) -> after one import-set operator"""
    if style == "only":
        return [(v, e) for v, e in names if v in arg]
    if style == "except":
        return [(v, e) for v, e in names if v not in arg]
    if style == "prefix":
        return [(arg + v, e) for v, e in names]
    table = dict(arg)
    return [(table.get(v, v), e) for v, e in names]


def _show(style, arg, inner):
    if style in ("only", "except"):
        return "(%s %s %s)" % (style, inner, " ".join(arg))
    if style == "prefix":
        return "(prefix %s %s)" % (inner, arg)
    return "(rename %s %s)" % (inner, " ".join("(%s %s)" % p for p in arg))


def import_term(rng, lib, exports, tag):
    """a random import set over library `lib` with external names `exports` -> (text, [(visible, external)]) with distinct visibles"""
    text, names = "(%s)" % lib, [(e, e) for e in exports]
    for _ in range(rng.choice([0, 0, 1, 1, 2, 3])):
        vis = [v for v, _ in names]
        style = rng.choice(["only", "except", "prefix", "rename"])
        if style == "only":
            arg = rng.sample(vis, rng.randrange(1, len(vis) + 1)) if vis else []
        elif style == "except":
            arg = rng.sample(vis, rng.randrange(0, len(vis))) if vis else []
        elif style == "prefix":
            arg = rng.choice(["%s-" % tag, "p", tag])
        else:
            src = rng.sample(vis, min(len(vis), rng.randrange(0, 3)))
            arg = [(s, "%s%s%d" % (tag, s.replace("!", ""), k)) for k, s in enumerate(src)]
        new = _apply(style, arg, names)
        if len({v for v, _ in new}) != len(new) or not new:
            continue
        text, names = _show(style, arg, text), new
    return text, names


def lib_soup(rng):
    """-> (library texts by name, program forms).  Libraries L0..Ln-1: each keeps a counter, two closures made by ONE factory, a
    vector; exports some of it (plainly and renamed); later libraries import earlier ones through random import sets and export
    procedures that go through what they imported.  The program imports a few of them (random import sets, one or two declarations)
    and calls what it sees."""
    n = rng.randrange(2, 5)
    libs, exports = {}, {}       # exports[i] = {external: kind}
    for i in range(n):
        deps = [j for j in range(i) if rng.random() < 0.6]
        body = ["(define n%d %d)" % (i, rng.randrange(0, 50)),
                "(define (inc%d) (set! n%d (+ n%d %d)) n%d)" % (i, i, i, rng.randrange(1, 5), i),
                "(define (get%d) n%d)" % (i, i),
                "(define (mk%d) (let ((c 0)) (lambda () (set! c (+ c 1)) c)))" % i,
                "(define ca%d (mk%d))" % (i, i), "(define cb%d (mk%d))" % (i, i),
                "(define v%d (make-vector 2 %d))" % (i, i)]
        internal = {"inc%d" % i: "thunk", "get%d" % i: "thunk", "ca%d" % i: "thunk", "cb%d" % i: "thunk", "v%d" % i: "vec"}
        # a variable defined early and assigned by the LAST part of the body: an importer sees the final value, wherever the export
        # declaration stands; and an unexported variable aux<i> read by getaux<i> - another binding may be EXPORTED under that name
        body.insert(0, "(define ph%d 0)" % i)
        body += ["(define aux%d 77)" % i, "(define (getaux%d) aux%d)" % (i, i)]
        internal["ph%d" % i] = "value"
        internal["getaux%d" % i] = "thunk"
        imports = ["(scheme base)"]
        for j in deps:
            text, names = import_term(rng, "l%d" % j, sorted(exports[j]), "d%d" % i)
            imports.append(text)
            thunks = [v for v, e in names if exports[j][e] == "thunk"]
            if thunks:
                t = rng.choice(thunks)
                body.append("(define (via%d-%d) (+ (%s) 1000))" % (i, j, t))
                internal["via%d-%d" % (i, j)] = "thunk"
        if rng.random() < 0.3:
            # the library changes, for its own use, a name it imported from (scheme base)
            body.append("(define old-max%d max)" % i)
            body.append("(set! max (lambda (a b) (old-max%d 100 (old-max%d a b))))" % (i, i))
        body.append("(define (big%d a b) (max a b))" % i)
        internal["big%d" % i] = "max2"
        body.append("(set! ph%d (+ ph%d 2))" % (i, i))
        chosen = [k for k in internal if rng.random() < 0.8] or ["get%d" % i]
        specs, ext = [], {}
        for k in chosen:
            r = rng.random()
            if r < 0.3:
                e = "x%d%s" % (i, k.replace("-", ""))
                specs.append("(rename %s %s)" % (k, e)); ext[e] = internal[k]
            elif r < 0.45:
                # ONE binding under TWO external names
                e = "y%d%s" % (i, k.replace("-", ""))
                specs.append("(rename %s %s)" % (k, e)); ext[e] = internal[k]
                specs.append(k); ext[k] = internal[k]
            else:
                specs.append(k); ext[k] = internal[k]
        if rng.random() < 0.3 and "get%d" % i in internal:
            # exported under the name of ANOTHER, unexported internal binding
            specs.append("(rename get%d aux%d)" % (i, i)); ext["aux%d" % i] = "thunk"
        rng.shuffle(specs)
        cut = rng.randrange(1, len(specs) + 1)
        decls = ["(import %s)" % " ".join(imports), "(export %s)" % " ".join(specs[:cut])]
        if specs[cut:]:
            decls.insert(rng.randrange(1, 3), "(export %s)" % " ".join(specs[cut:]))
        half = rng.randrange(1, len(body))
        decls.insert(2, "(begin %s)" % " ".join(body[:half]))
        decls.append("(begin %s)" % " ".join(body[half:]))
        libs["l%d" % i] = "(define-library (l%d) %s)" % (i, " ".join(decls))
        exports[i] = ext
    # an EFFECT-ONLY library: it exports nothing (an empty export declaration, or none at all) and, when loaded, calls a counter of
    # l0; several importers name it - it is still loaded once
    fx = None
    if "inc0" in exports[0] and rng.random() < 0.5:
        fx = "(define-library (fx) (import (scheme base) (only (l0) inc0)) %s(begin (inc0) (inc0)))" % rng.choice(["(export) ", ""])
        extra = {}
        for i in range(1, n):
            if rng.random() < 0.6:
                libs["l%d" % i] = libs["l%d" % i].replace("(import (scheme base)", "(import (scheme base) (fx)", 1)
        libs["fx"] = fx
    # the program
    picked = [i for i in range(n) if rng.random() < 0.7] or [n - 1]
    picked += [rng.choice(picked) for _ in range(rng.choice([0, 0, 1, 2]))]       # a library may be imported through several sets
    rng.shuffle(picked)
    # one or two declarations: within ONE declaration no name is bound twice (to different things); a LATER declaration may bind a
    # name again - to another export that looks the same (the sibling counter, another library's vector): the later binding counts
    decls, cur, cur_names = [], [], {}
    visible = {}
    for i in picked:
        text, names = import_term(rng, "l%d" % i, sorted(exports[i]), rng.choice(["q", "q", "r"]))
        clash = [v for v, e in names if v in cur_names and cur_names[v] != (i, e)]
        if clash:
            if len(decls) >= 1:
                continue
            decls.append(cur); cur, cur_names = [], {}
        cur.append(text)
        for v, e in names:
            cur_names[v] = (i, e)
            visible[v] = (e, exports[i][e])
    if fx is not None and rng.random() < 0.7:
        cur.insert(rng.randrange(len(cur) + 1), "(fx)")
        if rng.random() < 0.3:
            cur.append("(fx)")
    decls.append(cur)
    decls = [d for d in decls if d]
    forms = ["(import (scheme base) %s)" % " ".join(decls[0])] + ["(import %s)" % " ".join(d) for d in decls[1:]]
    visible = [(v, e, k) for v, (e, k) in sorted(visible.items())]
    for _ in range(rng.randrange(6, 16)):
        if not visible:
            break
        v, e, kind = rng.choice(visible)
        if kind == "thunk":
            forms.append("(%s)" % v)
        elif kind == "max2":
            forms.append("(%s %d %d)" % (v, rng.randrange(0, 300), rng.randrange(0, 300)))
        elif kind == "value":
            forms.append(v)
        elif rng.random() < 0.5:
            forms.append("(vector-set! %s 0 %d)" % (v, rng.randrange(100, 200)))
        else:
            forms.append("(vector-ref %s 0)" % v)
    forms.append("(max 1 2)")
    return libs, forms


def soup_phase(rep, rng, n, C, R, as_files=None):
    """runs n library soups on the real interpreter and the model, judged by this reference module system"""
    cases, want = [], {}
    for i in range(n):
        libs, forms = lib_soup(rng)
        ref = run_scenario(list(libs.values()), forms)
        if ref is None:
            continue
        files = rng.random() < 0.5 if as_files is None else as_files
        fields = ["nostd"] + [("F%s.sld=%s" % (k, t)) if files else ("R%s=%s" % (k, t)) for k, t in libs.items()] + [">" + f for f in forms]
        cid = "soup%d" % i
        cases.append((cid, "libs", fields)); want[cid] = ref
    impl, model = C.run_hx(cases), C.run_driver(cases)
    judged = 0
    for cid, _, fields in cases:
        a = impl.get(cid)
        if a is None:
            continue
        rep.count(); judged += 1
        rep.nontrivial(("libsoup", tuple(fields)))
        if [R.norm_result(x) for x in a] != [R.norm_result(x) for x in want[cid]]:
            j = next((j for j in range(min(len(a), len(want[cid]))) if R.norm_result(a[j]) != R.norm_result(want[cid][j])), None)
            subs = [f[1:] for f in fields if f.startswith(">")]
            rep.violation({"what": "a program over libraries does not yield what the module system assigns (one instance per library, environments made "
                                   "only of own imports and definitions, import sets by the algebra) - independent reference module system",
                           "libraries": [f for f in fields if f[0] in "FR"], "program": subs, "form": subs[j] if j is not None and j < len(subs) else None,
                           "expected": want[cid], "implementation": a})
        elif [R.norm_result(x) for x in model.get(cid, [])] != [R.norm_result(x) for x in a]:
            rep.violation({"broken": "correspondence Interp (libraries) <-> interpreter.rs on a library soup", "fields": fields,
                           "implementation": a, "model": model.get(cid)}, no_input=True)
    rep.extra["library_soups_judged"] = judged

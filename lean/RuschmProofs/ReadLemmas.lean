/-
Helper lemmas for C06, reader part: reading the tokens of a written datum (`Syn.toks`) yields the
datum it denotes (`Syn.denote`) and leaves the rest of the token stream untouched.
-/
import RuschmProofs.TextLemmas
namespace Ruschm.Text
open Ruschm Ruschm.Read

/-! ## fuel needed to read a datum -/
namespace Syn
mutual
def need : Syn → Nat
  | atom _ => 1
  | list xs => needSum xs + 2
  | dotted xs t => needSum xs + need t + 3
  | vec xs => needSum xs + 2
  | quote x => need x + 2
def needSum : List Syn → Nat
  | [] => 0
  | x :: xs => 1 + need x + needSum xs
end

/-- tokens a datum may start with -/
def isStartTok : Token → Bool
  | .prim _ | .ident _ | .lparen | .vecIntro | .quote => true
  | _ => false

theorem toks_head : (x : Syn) → Supported x →
    ∃ t0 more, x.toks = t0 :: more ∧ isStartTok t0 = true
  | atom t, h => by
    refine ⟨t, [], rfl, ?_⟩
    have := h.1
    cases t <;> simp_all [isAtomTok, isStartTok]
  | list xs, _ => ⟨_, _, rfl, rfl⟩
  | dotted xs t, _ => ⟨_, _, rfl, rfl⟩
  | vec xs, _ => ⟨_, _, rfl, rfl⟩
  | quote x, _ => ⟨_, _, rfl, rfl⟩
end Syn

/-! ## the parser state -/

theorem advance_cons {s : PState} {t : LToken} {rest : List LToken} (h : s.toks = t :: rest) :
    advance s = .ok { s with toks := rest, cur := some t, loc := t.loc } := by
  simp [advance, h]

theorem advanceUnwrap_cons {s : PState} {t : LToken} {rest : List LToken}
    (h : s.toks = t :: rest) :
    advanceUnwrap s = .ok (t, { s with toks := rest, cur := some t, loc := t.loc }) := by
  simp [advanceUnwrap, advance_cons h, bind, Except.bind, pure, Except.pure]

theorem peek_cons {s : PState} {t : LToken} {rest : List LToken} (h : s.toks = t :: rest) :
    peek s = .ok (some t) := by
  simp [peek, h]

/-! ## stripping locations -/

theorem strip_withLoc (l : Loc) (d : Datum) : (d.withLoc l).strip = d.strip := by
  cases d <;> simp [Datum.withLoc, Datum.strip]

theorem strip_snoc : (acc e : Datum) → (snoc acc e).strip = snoc acc.strip e.strip
  | .pair a d l, e => by simp [snoc, Datum.strip, strip_snoc d e]
  | .prim _ _, e => by simp [snoc, Datum.strip]
  | .sym _ _, e => by simp [snoc, Datum.strip]
  | .nil _, e => by simp [snoc, Datum.strip]
  | .vec _ _, e => by simp [snoc, Datum.strip]

theorem strip_setTail : (acc e : Datum) → (setTail acc e).strip = setTail acc.strip e.strip
  | .pair a d l, e => by simp [setTail, Datum.strip, strip_setTail d e]
  | .prim _ _, e => by simp [setTail, Datum.strip]
  | .sym _ _, e => by simp [setTail, Datum.strip]
  | .nil _, e => by simp [setTail, Datum.strip]
  | .vec _ _, e => by simp [setTail, Datum.strip]

theorem snoc_denoteL (pre : List Syn) (e : Datum) :
    snoc (Syn.denoteL pre (.nil none)) e = Syn.denoteL pre (.pair e (.nil none) none) := by
  induction pre with
  | nil => simp [Syn.denoteL, snoc]
  | cons x pre ih => simp [Syn.denoteL, snoc, ih]

theorem setTail_denoteL (pre : List Syn) (e : Datum) :
    setTail (Syn.denoteL pre (.nil none)) e = Syn.denoteL pre e := by
  induction pre with
  | nil => simp [Syn.denoteL, setTail]
  | cons x pre ih => simp [Syn.denoteL, setTail, ih]

theorem denoteL_append (pre xs : List Syn) (tl : Datum) :
    Syn.denoteL (pre ++ xs) tl = Syn.denoteL pre (Syn.denoteL xs tl) := by
  induction pre with
  | nil => rfl
  | cons x pre ih => simp [Syn.denoteL, ih]

/-- what reading leaves behind: the tokens after the datum, the pending lexer error unchanged -/
def Leaves (s s' : PState) (lrest : List LToken) : Prop :=
  s'.toks = lrest ∧ s'.lexErr = s.lexErr

/-- `current_datum` reads `x`: the first token of `x` is the current one, the others follow -/
def CurSpec (x : Syn) : Prop :=
  ∀ (fuel : Nat) (s : PState) (lt0 : LToken) (lmore lrest : List LToken),
    x.need ≤ fuel → (lt0 :: lmore).map (·.tok) = x.toks → s.cur = some lt0 →
    s.toks = lmore ++ lrest →
    ∃ d s', currentDatum fuel s = .ok (some d, s') ∧ d.strip = x.denote ∧ Leaves s s' lrest

/-- `datum` (the restricted reader inside quotes and vectors) reads `x` -/
def DatSpec (x : Syn) : Prop :=
  ∀ (fuel : Nat) (s : PState) (lt0 : LToken) (lmore lrest : List LToken),
    x.need ≤ fuel → (lt0 :: lmore).map (·.tok) = x.toks → s.cur = some lt0 →
    s.toks = lmore ++ lrest →
    ∃ d s', datum fuel s = .ok (d, s') ∧ d.strip = x.denote ∧ Leaves s s' lrest

def tailToks : Option Syn → List Token
  | none => [.rparen]
  | some t => .period :: (t.toks ++ [.rparen])

def tailDen : Option Syn → Datum
  | none => .nil none
  | some t => t.denote

def tailNeed : Option Syn → Nat
  | none => 1
  | some t => t.need + 2

theorem map_tok_append {lts : List LToken} {a b : List Token}
    (h : lts.map (·.tok) = a ++ b) :
    ∃ la lb, lts = la ++ lb ∧ la.map (·.tok) = a ∧ lb.map (·.tok) = b := by
  obtain ⟨la, lb, h1, h2, h3⟩ := List.map_eq_append_iff.mp h
  exact ⟨la, lb, h1, h2, h3⟩

theorem map_tok_cons {lts : List LToken} {a : Token} {b : List Token}
    (h : lts.map (·.tok) = a :: b) :
    ∃ la lb, lts = la :: lb ∧ la.tok = a ∧ lb.map (·.tok) = b := by
  cases lts with
  | nil => simp at h
  | cons x r => simp at h; exact ⟨x, r, rfl, h.1, h.2⟩

theorem listLoop_elem {f : Nat} {s s2 : PState} {t : LToken} {rest : List LToken} {loc : Loc}
    {acc e : Datum} {dot : Bool} (hstart : Syn.isStartTok t.tok = true) (hs : s.toks = t :: rest)
    (hc : currentDatum f { s with toks := rest, cur := some t, loc := t.loc } = .ok (some e, s2)) :
    listLoop (f + 1) s loc acc dot =
      match acc with
      | .pair _ _ _ =>
        if dot then do
          let (t2, s) ← advanceUnwrap s2
          if t2.tok = .rparen then pure ((setTail acc e).withLoc loc, s)
          else .error (.syntax, s.loc)
        else listLoop f s2 loc (snoc acc e) dot
      | _ => listLoop f s2 loc (.pair e (.nil none) none) dot := by
  rw [listLoop, advanceUnwrap_cons hs]
  cases htok : t.tok <;> simp_all [Syn.isStartTok, bind, Except.bind] <;>
    (cases acc <;> cases dot <;> simp)

/-- the loop of `current_list_or_pair` -/
theorem listLoop_spec (xs : List Syn) (hxs : ∀ x ∈ xs, Syn.Supported x ∧ CurSpec x)
    (tail : Option Syn) (htail : ∀ t, tail = some t → Syn.Supported t ∧ CurSpec t) :
    ∀ (fuel : Nat) (s : PState) (lts lrest : List LToken) (loc : Loc) (acc : Datum)
      (pre : List Syn),
      Syn.needSum xs + tailNeed tail ≤ fuel →
      lts.map (·.tok) = Syn.toksL xs ++ tailToks tail → s.toks = lts ++ lrest →
      acc.strip = Syn.denoteL pre (.nil none) → (tail.isSome = true → pre ++ xs ≠ []) →
      ∃ d s', listLoop fuel s loc acc false = .ok (d, s') ∧
        d.strip = Syn.denoteL (pre ++ xs) (tailDen tail) ∧ Leaves s s' lrest := by
  induction xs with
  | nil =>
    intro fuel s lts lrest loc acc pre hfuel hlts hs hacc hne
    cases tail with
    | none =>
      simp only [Syn.toksL, tailToks, List.nil_append] at hlts
      obtain ⟨lt, lb, rfl, h1, h2⟩ := map_tok_cons hlts
      simp only [List.map_eq_nil_iff] at h2; subst h2
      cases fuel with
      | zero => simp [tailNeed] at hfuel
      | succ fuel =>
        refine ⟨acc.withLoc loc, { s with toks := lrest, cur := some lt, loc := lt.loc }, ?_, ?_,
          rfl, rfl⟩
        · rw [listLoop, advanceUnwrap_cons hs]
          simp [bind, Except.bind, h1, pure, Except.pure]
        · simp [strip_withLoc, hacc, tailDen]
    | some t =>
      obtain ⟨ht, hct⟩ := htail t rfl
      simp only [Syn.toksL, tailToks, List.nil_append] at hlts
      obtain ⟨lp, lr, rfl, hp, hlr⟩ := map_tok_cons hlts
      obtain ⟨lt, lb, rfl, hlt, hlb⟩ := map_tok_append hlr
      obtain ⟨lrp, lb', rfl, hrp, hnil⟩ := map_tok_cons hlb
      simp only [List.map_eq_nil_iff] at hnil; subst hnil
      obtain ⟨t0, more, htoks, hstart⟩ := Syn.toks_head t ht
      rw [htoks] at hlt
      obtain ⟨lt0, lmore, rfl, h0, hmore⟩ := map_tok_cons hlt
      simp only [Syn.needSum, tailNeed, Nat.zero_add] at hfuel
      obtain ⟨f, rfl⟩ : ∃ f, fuel = f + 2 := ⟨fuel - 2, by omega⟩
      -- the period
      have hs1 : s.toks = lp :: (lt0 :: (lmore ++ (lrp :: lrest))) := by simp [hs]
      rw [listLoop, advanceUnwrap_cons hs1]
      simp only [bind, Except.bind, hp, Bool.false_eq_true, if_false]
      -- the tail
      let s1 : PState :=
        { s with toks := lt0 :: (lmore ++ (lrp :: lrest)), cur := some lp, loc := lp.loc }
      obtain ⟨e, s2, hc, he, hl2, hl2'⟩ := hct f
        { s1 with toks := lmore ++ (lrp :: lrest), cur := some lt0, loc := lt0.loc }
        lt0 lmore (lrp :: lrest) (by omega) (by simp [h0, hmore, htoks]) rfl rfl
      have := listLoop_elem (s := s1) (loc := loc) (acc := acc) (dot := true)
        (by rw [h0]; exact hstart) rfl hc
      rw [this]
      have hpre : pre ≠ [] := by simpa using hne rfl
      cases acc with
      | pair a d l =>
        simp only [if_true]
        rw [advanceUnwrap_cons hl2]
        refine ⟨(setTail (.pair a d l) e).withLoc loc,
          { s2 with toks := lrest, cur := some lrp, loc := lrp.loc }, ?_, ?_, rfl, ?_⟩
        · simp [bind, Except.bind, hrp, pure, Except.pure]
        · rw [strip_withLoc, strip_setTail, hacc, he, setTail_denoteL]
          simp [tailDen]
        · exact hl2'
      | _ =>
        exfalso
        cases pre with
        | nil => exact hpre rfl
        | cons y pre => simp [Datum.strip, Syn.denoteL] at hacc
  | cons x xs ih =>
    intro fuel s lts lrest loc acc pre hfuel hlts hs hacc hne
    obtain ⟨hx, hcx⟩ := hxs x (by simp)
    simp only [Syn.toksL, List.append_assoc] at hlts
    obtain ⟨lx, lr, rfl, hlx, hlr⟩ := map_tok_append hlts
    obtain ⟨t0, more, htoks, hstart⟩ := Syn.toks_head x hx
    rw [htoks] at hlx
    obtain ⟨lt0, lmore, rfl, h0, hmore⟩ := map_tok_cons hlx
    simp only [Syn.needSum] at hfuel
    obtain ⟨f, rfl⟩ : ∃ f, fuel = f + 1 := ⟨fuel - 1, by omega⟩
    have hs1 : s.toks = lt0 :: (lmore ++ (lr ++ lrest)) := by simp [hs]
    obtain ⟨e, s2, hc, he, hl2, hl2'⟩ := hcx f
      { s with toks := lmore ++ (lr ++ lrest), cur := some lt0, loc := lt0.loc }
      lt0 lmore (lr ++ lrest) (by omega) (by simp [h0, hmore, htoks]) rfl rfl
    rw [listLoop_elem (by rw [h0]; exact hstart) hs1 hc]
    have finish : ∀ acc' : Datum, acc'.strip = snoc acc.strip e.strip →
        ∃ d s', listLoop f s2 loc acc' false = .ok (d, s') ∧
          d.strip = Syn.denoteL (pre ++ x :: xs) (tailDen tail) ∧ Leaves s s' lrest := by
      intro acc' hk2
      obtain ⟨d, s', g1, g2, g3, g4⟩ := ih (fun y hy => hxs y (by simp [hy])) f s2 lr lrest loc
        acc' (pre ++ [x]) (by omega) hlr hl2
        (by rw [hk2, hacc, he, snoc_denoteL, denoteL_append]; rfl) (by simp)
      refine ⟨d, s', g1, ?_, g3, ?_⟩
      · rw [g2]; simp
      · rw [g4, hl2']
    cases acc with
    | pair a d l =>
      simp only [Bool.false_eq_true, if_false]
      exact finish _ (strip_snoc _ _)
    | _ => exact finish _ (by simp [Datum.strip, snoc])

theorem ne_rparen_of_start {t : Token} (h : Syn.isStartTok t = true) : t ≠ .rparen := by
  rintro rfl; cases h

/-- `repeat(Self::datum)`: the elements of a vector up to the closing parenthesis -/
theorem repeatDatum_spec (xs : List Syn) (hxs : ∀ x ∈ xs, Syn.Supported x ∧ DatSpec x) :
    ∀ (fuel : Nat) (s : PState) (lts lrest : List LToken) (acc : List Datum),
      Syn.needSum xs + 1 ≤ fuel →
      lts.map (·.tok) = Syn.toksL xs ++ [.rparen] → s.toks = lts ++ lrest →
      ∃ ds s', repeatDatum fuel s acc = .ok (acc.reverse ++ ds, s') ∧
        Datum.stripList ds = Syn.denoteV xs ∧ Leaves s s' lrest := by
  induction xs with
  | nil =>
    intro fuel s lts lrest acc hfuel hlts hs
    simp only [Syn.toksL, List.nil_append] at hlts
    obtain ⟨lrp, lb, rfl, hrp, hnil⟩ := map_tok_cons hlts
    simp only [List.map_eq_nil_iff] at hnil; subst hnil
    obtain ⟨f, rfl⟩ : ∃ f, fuel = f + 1 := ⟨fuel - 1, by omega⟩
    have hs1 : s.toks = lrp :: lrest := by simp [hs]
    refine ⟨[], { s with toks := lrest, cur := some lrp, loc := lrp.loc }, ?_, rfl, rfl, rfl⟩
    rw [repeatDatum, peek_cons hs1]
    simp [bind, Except.bind, hrp, advance_cons hs1, pure, Except.pure]
  | cons x xs ih =>
    intro fuel s lts lrest acc hfuel hlts hs
    obtain ⟨hx, hdx⟩ := hxs x (by simp)
    simp only [Syn.toksL, List.append_assoc] at hlts
    obtain ⟨lx, lr, rfl, hlx, hlr⟩ := map_tok_append hlts
    obtain ⟨t0, more, htoks, hstart⟩ := Syn.toks_head x hx
    rw [htoks] at hlx
    obtain ⟨lt0, lmore, rfl, h0, hmore⟩ := map_tok_cons hlx
    simp only [Syn.needSum] at hfuel
    obtain ⟨f, rfl⟩ : ∃ f, fuel = f + 1 := ⟨fuel - 1, by omega⟩
    have hs1 : s.toks = lt0 :: (lmore ++ (lr ++ lrest)) := by simp [hs]
    obtain ⟨d, s2, hc, hd, hl2, hl2'⟩ := hdx f
      { s with toks := lmore ++ (lr ++ lrest), cur := some lt0, loc := lt0.loc }
      lt0 lmore (lr ++ lrest) (by omega) (by simp [h0, hmore, htoks]) rfl rfl
    obtain ⟨ds, s', g1, g2, g3, g4⟩ := ih (fun y hy => hxs y (by simp [hy])) f s2 lr lrest
      (d :: acc) (by omega) hlr hl2
    refine ⟨d :: ds, s', ?_, ?_, g3, ?_⟩
    · rw [repeatDatum, peek_cons hs1]
      have : lt0.tok ≠ .rparen := by rw [h0]; exact ne_rparen_of_start hstart
      simp [bind, Except.bind, this, advance_cons hs1, hc, g1]
    · simp [Datum.stripList, hd, g2, Syn.denoteV]
    · rw [g4, hl2']

/-! ### the datum readers, constructor by constructor -/

theorem spec_atom (t : Token) (h : Syn.Supported (.atom t)) :
    CurSpec (.atom t) ∧ DatSpec (.atom t) := by
  have hat := h.1
  constructor
  · intro fuel s lt0 lmore lrest hfuel hmap hcur hs
    simp only [Syn.toks, List.map_cons, List.cons.injEq, List.map_eq_nil_iff] at hmap
    obtain ⟨h0, rfl⟩ := hmap
    obtain ⟨f, rfl⟩ : ∃ f, fuel = f + 1 := ⟨fuel - 1, by simp [Syn.need] at hfuel; omega⟩
    rw [currentDatum, hcur]
    cases t <;> simp_all [Syn.isAtomTok, Syn.denote, Leaves] <;>
      exact ⟨_, _, ⟨rfl, rfl⟩, rfl, by first | rfl | exact hs, rfl⟩
  · intro fuel s lt0 lmore lrest hfuel hmap hcur hs
    simp only [Syn.toks, List.map_cons, List.cons.injEq, List.map_eq_nil_iff] at hmap
    obtain ⟨h0, rfl⟩ := hmap
    obtain ⟨f, rfl⟩ : ∃ f, fuel = f + 1 := ⟨fuel - 1, by simp [Syn.need] at hfuel; omega⟩
    rw [datum, hcur]
    cases t <;> simp_all [Syn.isAtomTok, Syn.denote, Leaves] <;>
      exact ⟨_, _, ⟨rfl, rfl⟩, rfl, by first | rfl | exact hs, rfl⟩

/-- both readers on a parenthesised list, proper (`tail = none`) or dotted -/
theorem spec_listlike (x : Syn) (xs : List Syn) (tail : Option Syn)
    (htoks : x.toks = .lparen :: (Syn.toksL xs ++ tailToks tail))
    (hneed : Syn.needSum xs + tailNeed tail + 1 ≤ x.need)
    (hden : x.denote = Syn.denoteL xs (tailDen tail))
    (hxs : ∀ y ∈ xs, Syn.Supported y ∧ CurSpec y)
    (htail : ∀ t, tail = some t → Syn.Supported t ∧ CurSpec t)
    (hne : tail.isSome = true → xs ≠ []) :
    CurSpec x ∧ DatSpec x := by
  constructor
  · intro fuel s lt0 lmore lrest hfuel hmap hcur hs
    rw [htoks] at hmap
    simp only [List.map_cons, List.cons.injEq] at hmap
    obtain ⟨h0, hmore⟩ := hmap
    obtain ⟨f, rfl⟩ : ∃ f, fuel = f + 1 := ⟨fuel - 1, by omega⟩
    obtain ⟨d, s', g1, g2, g3, g4⟩ := listLoop_spec xs hxs tail htail f
      { s with cur := none } lmore lrest s.loc (.nil none) [] (by omega) hmore hs rfl
      (by simpa using hne)
    refine ⟨d, s', ?_, by rw [g2, hden]; rfl, g3, g4⟩
    rw [currentDatum, hcur]
    simp [h0, listOrPair, g1, bind, Except.bind, pure, Except.pure]
  · intro fuel s lt0 lmore lrest hfuel hmap hcur hs
    rw [htoks] at hmap
    simp only [List.map_cons, List.cons.injEq] at hmap
    obtain ⟨h0, hmore⟩ := hmap
    obtain ⟨f, rfl⟩ : ∃ f, fuel = f + 1 := ⟨fuel - 1, by omega⟩
    obtain ⟨d, s', g1, g2, g3, g4⟩ := listLoop_spec xs hxs tail htail f
      s lmore lrest s.loc (.nil none) [] (by omega) hmore hs rfl (by simpa using hne)
    refine ⟨d, s', ?_, by rw [g2, hden]; rfl, g3, g4⟩
    rw [datum, hcur]
    simp [h0, listOrPair, g1]

theorem spec_vec (xs : List Syn) (hxs : ∀ y ∈ xs, Syn.Supported y ∧ DatSpec y) :
    CurSpec (.vec xs) ∧ DatSpec (.vec xs) := by
  constructor
  · intro fuel s lt0 lmore lrest hfuel hmap hcur hs
    simp only [Syn.toks, List.map_cons, List.cons.injEq] at hmap
    obtain ⟨h0, hmore⟩ := hmap
    simp only [Syn.need] at hfuel
    obtain ⟨f, rfl⟩ : ∃ f, fuel = f + 1 := ⟨fuel - 1, by omega⟩
    obtain ⟨ds, s', g1, g2, g3, g4⟩ := repeatDatum_spec xs hxs f
      { s with cur := none } lmore lrest [] (by omega) hmore hs
    refine ⟨.vec ds s'.loc, s', ?_, by simp [Datum.strip, g2, Syn.denote], g3, g4⟩
    rw [currentDatum, hcur]
    simp [h0, g1, bind, Except.bind, pure, Except.pure]
  · intro fuel s lt0 lmore lrest hfuel hmap hcur hs
    simp only [Syn.toks, List.map_cons, List.cons.injEq] at hmap
    obtain ⟨h0, hmore⟩ := hmap
    simp only [Syn.need] at hfuel
    obtain ⟨f, rfl⟩ : ∃ f, fuel = f + 1 := ⟨fuel - 1, by omega⟩
    obtain ⟨ds, s', g1, g2, g3, g4⟩ := repeatDatum_spec xs hxs f
      s lmore lrest [] (by omega) hmore hs
    refine ⟨.vec ds s.loc, s', ?_, by simp [Datum.strip, g2, Syn.denote], g3, g4⟩
    rw [datum, hcur]
    simp [h0, g1, bind, Except.bind, pure, Except.pure]

theorem spec_quote (x : Syn) (hx : Syn.Supported x) (hdx : DatSpec x) :
    CurSpec (.quote x) ∧ DatSpec (.quote x) := by
  obtain ⟨t1, more, htoks, -⟩ := Syn.toks_head x hx
  constructor
  · intro fuel s lt0 lmore lrest hfuel hmap hcur hs
    simp only [Syn.toks, List.map_cons, List.cons.injEq] at hmap
    obtain ⟨h0, hmore⟩ := hmap
    rw [htoks] at hmore
    obtain ⟨lt1, lmore', rfl, h1, hmore'⟩ := map_tok_cons hmore
    simp only [Syn.need] at hfuel
    obtain ⟨f, rfl⟩ : ∃ f, fuel = f + 2 := ⟨fuel - 2, by omega⟩
    have hs1 : ({ s with cur := none } : PState).toks = lt1 :: (lmore' ++ lrest) := by simp [hs]
    obtain ⟨d, s', g1, g2, g3, g4⟩ := hdx f
      { s with toks := lmore' ++ lrest, cur := some lt1, loc := lt1.loc }
      lt1 lmore' lrest (by omega) (by simp [h1, hmore', htoks]) rfl rfl
    refine ⟨mkQuote lt1.loc d, s', ?_, by simp [mkQuote, Datum.strip, g2, Syn.denote], g3, g4⟩
    rw [currentDatum, hcur]
    simp only [h0]
    rw [advance_cons hs1]
    simp only [bind, Except.bind, parseQuoted]
    rw [g1]
    rfl
  · intro fuel s lt0 lmore lrest hfuel hmap hcur hs
    simp only [Syn.toks, List.map_cons, List.cons.injEq] at hmap
    obtain ⟨h0, hmore⟩ := hmap
    rw [htoks] at hmore
    obtain ⟨lt1, lmore', rfl, h1, hmore'⟩ := map_tok_cons hmore
    simp only [Syn.need] at hfuel
    obtain ⟨f, rfl⟩ : ∃ f, fuel = f + 2 := ⟨fuel - 2, by omega⟩
    have hs1 : s.toks = lt1 :: (lmore' ++ lrest) := by simp [hs]
    obtain ⟨d, s', g1, g2, g3, g4⟩ := hdx f
      { s with toks := lmore' ++ lrest, cur := some lt1, loc := lt1.loc }
      lt1 lmore' lrest (by omega) (by simp [h1, hmore', htoks]) rfl rfl
    refine ⟨mkQuote lt1.loc d, s', ?_, by simp [mkQuote, Datum.strip, g2, Syn.denote], g3, g4⟩
    rw [datum, hcur]
    simp only [h0]
    rw [advance_cons hs1]
    simp only [bind, Except.bind, parseQuoted]
    rw [g1]
    rfl

mutual
/-- both readers are correct on every supported written datum -/
theorem spec_all : (x : Syn) → Syn.Supported x → CurSpec x ∧ DatSpec x
  | .atom t, h => spec_atom t h
  | .list xs, h => by
    have hl := spec_allL xs (by simpa [Syn.Supported] using h)
    exact spec_listlike (.list xs) xs none rfl (by simp [Syn.need, tailNeed]) rfl
      (fun y hy => ⟨(hl y hy).1, (hl y hy).2.1⟩) (by simp) (by simp)
  | .dotted xs t, h => by
    simp only [Syn.Supported] at h
    have hl := spec_allL xs h.2.1
    have ht := spec_all t h.2.2
    refine spec_listlike (.dotted xs t) xs (some t) rfl (by simp [Syn.need, tailNeed]; omega) rfl
      (fun y hy => ⟨(hl y hy).1, (hl y hy).2.1⟩) ?_ (fun _ => h.1)
    intro t' e; cases e; exact ⟨h.2.2, ht.1⟩
  | .vec xs, h => by
    have hl := spec_allL xs (by simpa [Syn.Supported] using h)
    exact spec_vec xs (fun y hy => ⟨(hl y hy).1, (hl y hy).2.2⟩)
  | .quote x, h => by
    have hx : Syn.Supported x := by simpa [Syn.Supported] using h
    exact spec_quote x hx (spec_all x hx).2
theorem spec_allL : (xs : List Syn) → Syn.SupportedL xs →
    ∀ y ∈ xs, Syn.Supported y ∧ CurSpec y ∧ DatSpec y
  | [], _ => by simp
  | x :: xs, h => by
    simp only [Syn.SupportedL] at h
    intro y hy
    rcases List.mem_cons.mp hy with e | hy
    · rw [e]; exact ⟨h.1, spec_all x h.1⟩
    · exact spec_allL xs h.2 y hy
end

mutual
theorem need_le : (x : Syn) → x.need + 1 ≤ 2 * x.toks.length
  | .atom t => by simp [Syn.need, Syn.toks]
  | .list xs => by
    have := needSum_le xs
    simp only [Syn.need, Syn.toks, List.length_cons, List.length_append, List.length_nil]; omega
  | .dotted xs t => by
    have := needSum_le xs
    have := need_le t
    simp only [Syn.need, Syn.toks, List.length_cons, List.length_append, List.length_nil]; omega
  | .vec xs => by
    have := needSum_le xs
    simp only [Syn.need, Syn.toks, List.length_cons, List.length_append, List.length_nil]; omega
  | .quote x => by
    have := need_le x
    simp only [Syn.need, Syn.toks, List.length_cons]; omega
theorem needSum_le : (xs : List Syn) → Syn.needSum xs ≤ 2 * (Syn.toksL xs).length
  | [] => by simp [Syn.needSum]
  | x :: xs => by
    have := need_le x
    have := needSum_le xs
    simp only [Syn.needSum, Syn.toksL, List.length_append]; omega
end

mutual
theorem toks_supported : (x : Syn) → Syn.Supported x → ∀ t ∈ x.toks, SupportedTok t
  | .atom t, h => by
    intro t' ht'; simp only [Syn.toks, List.mem_singleton] at ht'; subst ht'; exact h.2
  | .list xs, h => by
    have := toksL_supported xs (by simpa [Syn.Supported] using h)
    intro t ht
    simp only [Syn.toks, List.mem_cons, List.mem_append, List.not_mem_nil, or_false] at ht
    rcases ht with rfl | ht | rfl
    · trivial
    · exact this t ht
    · trivial
  | .dotted xs tl, h => by
    simp only [Syn.Supported] at h
    have h1 := toksL_supported xs h.2.1
    have h2 := toks_supported tl h.2.2
    intro t ht
    simp only [Syn.toks, List.mem_cons, List.mem_append, List.not_mem_nil, or_false] at ht
    rcases ht with rfl | ht | rfl | ht | rfl
    · trivial
    · exact h1 t ht
    · trivial
    · exact h2 t ht
    · trivial
  | .vec xs, h => by
    have := toksL_supported xs (by simpa [Syn.Supported] using h)
    intro t ht
    simp only [Syn.toks, List.mem_cons, List.mem_append, List.not_mem_nil, or_false] at ht
    rcases ht with rfl | ht | rfl
    · trivial
    · exact this t ht
    · trivial
  | .quote x, h => by
    have := toks_supported x (by simpa [Syn.Supported] using h)
    intro t ht
    simp only [Syn.toks, List.mem_cons] at ht
    rcases ht with rfl | ht
    · trivial
    · exact this t ht
theorem toksL_supported : (xs : List Syn) → Syn.SupportedL xs → ∀ t ∈ Syn.toksL xs, SupportedTok t
  | [], _ => by simp [Syn.toksL]
  | x :: xs, h => by
    simp only [Syn.SupportedL] at h
    have h1 := toks_supported x h.1
    have h2 := toksL_supported xs h.2
    intro t ht
    simp only [Syn.toksL, List.mem_append] at ht
    rcases ht with ht | ht
    · exact h1 t ht
    · exact h2 t ht
end

theorem stripList_eq_map (ds : List Datum) : Datum.stripList ds = ds.map Datum.strip := by
  induction ds with
  | nil => rfl
  | cons d ds ih => simp [Datum.stripList, ih]

theorem denoteV_eq_map (xs : List Syn) : Syn.denoteV xs = xs.map Syn.denote := by
  induction xs with
  | nil => rfl
  | cons d ds ih => simp [Syn.denoteV, ih]

/-- READ_TOKENS: one call of the reader on `toks x ++ rest` yields `x` and leaves `rest` -/
theorem nextDatum_spec (x : Syn) (hx : Syn.Supported x) (s : PState) (lts lrest : List LToken)
    (hl : lts.map (·.tok) = x.toks) (hs : s.toks = lts ++ lrest) :
    ∃ d s', nextDatum s = .ok (some d, s') ∧ d.strip = x.denote ∧ s'.toks = lrest ∧
      s'.lexErr = s.lexErr := by
  obtain ⟨t0, more, htoks, -⟩ := Syn.toks_head x hx
  rw [htoks] at hl
  obtain ⟨lt0, lmore, rfl, h0, hmore⟩ := map_tok_cons hl
  have hs1 : s.toks = lt0 :: (lmore ++ lrest) := by simp [hs]
  have hlen := need_le x
  have hlen' : x.toks.length = lmore.length + 1 := by
    rw [htoks, ← hmore]; simp
  obtain ⟨d, s', g1, g2, g3, g4⟩ := (spec_all x hx).1
    (fuelFor { s with toks := lmore ++ lrest, cur := some lt0, loc := lt0.loc })
    { s with toks := lmore ++ lrest, cur := some lt0, loc := lt0.loc } lt0 lmore lrest
    (by simp only [fuelFor, List.length_append]; omega) (by simp [h0, hmore, htoks]) rfl rfl
  refine ⟨d, s', ?_, g2, g3, g4⟩
  simp only [nextDatum, advance_cons hs1, bind, Except.bind]
  exact g1

theorem nextDatum_end (s : PState) (h : s.toks = []) (he : s.lexErr = none) :
    ∃ s', nextDatum s = .ok (none, s') := by
  simp [nextDatum, advance, h, he, bind, Except.bind, fuelFor, currentDatum]

theorem allAux_spec (xs : List Syn) (hxs : Syn.SupportedL xs) :
    ∀ (fuel : Nat) (s : PState) (acc : List Datum), xs.length < fuel →
      s.toks.map (·.tok) = Syn.toksL xs → s.lexErr = none →
      ∃ ds, Read.allAux fuel s acc = (acc.reverse ++ ds, none) ∧
        ds.map Datum.strip = xs.map Syn.denote := by
  induction xs with
  | nil =>
    intro fuel s acc hf hs he
    obtain ⟨f, rfl⟩ : ∃ f, fuel = f + 1 := ⟨fuel - 1, by omega⟩
    simp only [Syn.toksL, List.map_eq_nil_iff] at hs
    obtain ⟨s', h⟩ := nextDatum_end s hs he
    exact ⟨[], by simp [Read.allAux, h], rfl⟩
  | cons x xs ih =>
    intro fuel s acc hf hs he
    obtain ⟨f, rfl⟩ : ∃ f, fuel = f + 1 := ⟨fuel - 1, by omega⟩
    simp only [Syn.SupportedL] at hxs
    simp only [Syn.toksL] at hs
    obtain ⟨lx, lr, hsplit, hlx, hlr⟩ := map_tok_append hs
    obtain ⟨d, s', g1, g2, g3, g4⟩ := nextDatum_spec x hxs.1 s lx lr hlx hsplit
    obtain ⟨ds, k1, k2⟩ := ih hxs.2 f s' (d :: acc) (by simp at hf; omega) (by rw [g3]; exact hlr)
      (by rw [g4, he])
    refine ⟨d :: ds, ?_, by simp [g2, k2]⟩
    simp [Read.allAux, g1, k1]

theorem length_le_toksL (xs : List Syn) : xs.length ≤ (Syn.toksL xs).length := by
  induction xs with
  | nil => simp
  | cons x xs ih =>
    have := need_le x
    simp only [Syn.toksL, List.length_cons, List.length_append]; omega

/-- READ_RENDER for a sequence of top-level data -/
theorem readAll_render (xs : List Syn) (hxs : Syn.SupportedL xs) (layout : List (List Char))
    (hl : ValidLayout (Syn.toksL xs) layout) :
    (Read.all (interleave (Syn.toksL xs) layout)).1.map Datum.strip = xs.map Syn.denote ∧
      (Read.all (interleave (Syn.toksL xs) layout)).2 = none := by
  obtain ⟨h1, h2⟩ := all_render (Syn.toksL xs) layout (toksL_supported xs hxs) hl
  have hlen := length_le_toksL xs
  generalize interleave (Syn.toksL xs) layout = cs at h1 h2 ⊢
  cases hr : Lex.all cs with
  | mk lts e =>
    rw [hr] at h1 h2
    simp only at h1 h2
    subst h2
    have hlen2 : lts.length = (Syn.toksL xs).length := by rw [← h1]; simp
    obtain ⟨ds, k1, k2⟩ := allAux_spec xs hxs (lts.length + 1)
      { toks := lts, lexErr := none } [] (by omega) h1 rfl
    have : Read.all cs = ([] ++ ds, none) := by
      simp only [Read.all, ofText, hr]
      exact k1
    rw [this]
    exact ⟨by simpa using k2, rfl⟩

/-! ## data and their canonical written form -/

mutual
theorem ofDatum_denote : (d : Datum) → (Syn.ofDatum d).denote = d.strip
  | .prim p _ => rfl
  | .sym s _ => rfl
  | .nil _ => rfl
  | .vec xs _ => by simp [Syn.ofDatum, Syn.denote, Datum.strip, ofDatums_denote xs]
  | .pair a d _ => by
    have h1 := ofDatum_denote a
    have h2 := ofTail_denote d
    simp only [Syn.ofDatum]
    split
    · rename_i h; rw [h] at h2; simp only [tailDen] at h2
      simp [Syn.denote, Syn.denoteL, Datum.strip, h1, h2]
    · rename_i t h; rw [h] at h2; simp only [tailDen] at h2
      simp [Syn.denote, Syn.denoteL, Datum.strip, h1, h2]
theorem ofTail_denote : (d : Datum) →
    Syn.denoteL (Syn.ofTail d).1 (tailDen (Syn.ofTail d).2) = d.strip
  | .pair a d _ => by
    simp [Syn.ofTail, Syn.denoteL, Datum.strip, ofDatum_denote a, ofTail_denote d]
  | .nil _ => rfl
  | .prim p _ => rfl
  | .sym s _ => rfl
  | .vec xs _ => by
    simp [Syn.ofTail, Syn.denoteL, tailDen, Syn.denote, Datum.strip, ofDatums_denote xs]
theorem ofDatums_denote : (xs : List Datum) →
    Syn.denoteV (Syn.ofDatums xs) = Datum.stripList xs
  | [] => rfl
  | x :: xs => by
    simp [Syn.ofDatums, Syn.denoteV, Datum.stripList, ofDatum_denote x, ofDatums_denote xs]
end

mutual
theorem ofDatum_supported : (d : Datum) → SupportedD d → (Syn.ofDatum d).Supported
  | .prim p _, h => ⟨rfl, h⟩
  | .sym s _, h => ⟨rfl, h⟩
  | .nil _, _ => by simp [Syn.ofDatum, Syn.Supported, Syn.SupportedL]
  | .vec xs _, h => by
    simpa [Syn.ofDatum, Syn.Supported] using ofDatums_supported xs (by simpa [SupportedD] using h)
  | .pair a d _, h => by
    simp only [SupportedD] at h
    have h1 := ofDatum_supported a h.1
    have h2 := ofTail_supported d h.2
    simp only [Syn.ofDatum]
    split
    · simp [Syn.Supported, Syn.SupportedL, h1, h2.1]
    · rename_i t ht
      simp [Syn.Supported, Syn.SupportedL, h1, h2.1, h2.2 t ht]
theorem ofTail_supported : (d : Datum) → SupportedD d →
    Syn.SupportedL (Syn.ofTail d).1 ∧ ∀ t, (Syn.ofTail d).2 = some t → t.Supported
  | .pair a d _, h => by
    simp only [SupportedD] at h
    have h1 := ofDatum_supported a h.1
    have h2 := ofTail_supported d h.2
    exact ⟨by simp [Syn.ofTail, Syn.SupportedL, h1, h2.1], by simpa [Syn.ofTail] using h2.2⟩
  | .nil _, _ => by simp [Syn.ofTail, Syn.SupportedL]
  | .prim p _, h => by
    refine ⟨by simp [Syn.ofTail, Syn.SupportedL], ?_⟩
    intro t ht; simp only [Syn.ofTail, Option.some.injEq] at ht; subst ht; exact ⟨rfl, h⟩
  | .sym s _, h => by
    refine ⟨by simp [Syn.ofTail, Syn.SupportedL], ?_⟩
    intro t ht; simp only [Syn.ofTail, Option.some.injEq] at ht; subst ht; exact ⟨rfl, h⟩
  | .vec xs _, h => by
    refine ⟨by simp [Syn.ofTail, Syn.SupportedL], ?_⟩
    intro t ht; simp only [Syn.ofTail, Option.some.injEq] at ht; subst ht
    simpa [Syn.Supported] using ofDatums_supported xs (by simpa [SupportedD] using h)
theorem ofDatums_supported : (xs : List Datum) → SupportedDs xs → Syn.SupportedL (Syn.ofDatums xs)
  | [], _ => by simp [Syn.ofDatums, Syn.SupportedL]
  | x :: xs, h => by
    simp only [SupportedDs] at h
    simp [Syn.ofDatums, Syn.SupportedL, ofDatum_supported x h.1, ofDatums_supported xs h.2]
end

end Ruschm.Text

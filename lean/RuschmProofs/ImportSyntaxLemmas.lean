/-
Helper lemmas for `RuschmProofs/C12More.lean`: the parser functions for import sets, library names
and export specs (`RuschmModel/Xform.lean`) never touch the syntax environment, so each of them is
a pure function into `Except SErr` (`parseP`, `libNameP`, …) run in the transformer monad; the
facts about the concrete syntax are proved of the pure functions.
-/
import RuschmSpec.ImportSyntax
set_option linter.unusedSimpArgs false
set_option linter.unusedVariables false

namespace Ruschm.ImportSyntax
open Ruschm Xform

/-! ## the transformer monad -/

theorem bind_def {α β} (m : XM α) (f : α → XM β) (s : SynEnv) :
    (m >>= f) s = match m s with
      | (.ok a, s') => f a s'
      | (.error e, s') => (.error e, s') := rfl
theorem pure_def {α} (a : α) (s : SynEnv) : (pure a : XM α) s = (.ok a, s) := rfl

theorem need_some {α} (a : α) : need (some a) = pure a := rfl
theorem need_none {α} : need (none : Option α) = Xform.fail (.syntax, none) := rfl

theorem exc_mapM_cons {α β} (g : α → Except SErr β) (a : α) (l : List α) :
    (a :: l).mapM g = match g a with
      | .error e => .error e
      | .ok b => match l.mapM g with
        | .error e => .error e
        | .ok bs => .ok (b :: bs) := by
  rw [List.mapM_cons]
  cases g a with
  | error e => rfl
  | ok b => cases h : List.mapM g l <;> simp [bind, Except.bind, pure, Except.pure]

theorem exc_mapM_nil {α β} (g : α → Except SErr β) : ([] : List α).mapM g = .ok [] := rfl

theorem mapM_loop_lift {α β} {f : α → XM β} {g : α → Except SErr β} {s : SynEnv} :
    ∀ (l : List α) (acc : List β), (∀ a ∈ l, f a s = (g a, s)) →
    List.mapM.loop f l acc s = (match l.mapM g with
      | .ok bs => .ok (acc.reverse ++ bs) | .error e => .error e, s)
  | [], acc, _ => by simp [List.mapM.loop, pure, Except.pure]
  | a :: l, acc, h => by
    have ha := h a (List.mem_cons_self ..)
    have ih := mapM_loop_lift (f := f) (g := g) (s := s) l
    simp only [List.mapM.loop, bind_def, ha, exc_mapM_cons]
    cases hg : g a with
    | error e => rfl
    | ok b =>
      simp only []
      rw [ih (b :: acc) (fun x hx => h x (List.mem_cons_of_mem _ hx))]
      cases List.mapM g l <;> simp

/-- `mapM` of a computation that does not touch the syntax environment is the `mapM` of its
result -/
theorem mapM_lift {α β} {f : α → XM β} {g : α → Except SErr β} {s : SynEnv} (l : List α)
    (h : ∀ a ∈ l, f a s = (g a, s)) : l.mapM f s = (l.mapM g, s) := by
  rw [List.mapM, mapM_loop_lift l [] h]
  cases List.mapM g l <;> simp

/-! ## data -/

theorem elems_pair (a b : Datum) (l : Loc) : (Datum.pair a b l).elems = a :: b.elems := by
  simp only [Datum.elems, Datum.spine]
  rcases b.spine with ⟨xs, _ | t⟩ <;> rfl

theorem elems_nil (l : Loc) : (Datum.nil l).elems = [] := rfl

theorem elems_ofList (l : Loc) (xs : List Datum) : (Datum.ofList l xs).elems = xs := by
  induction xs generalizing l with
  | nil => rfl
  | cons x xs ih => rw [Datum.ofList, elems_pair, ih]

theorem elems_lst (xs : List Datum) : (lst xs).elems = xs := elems_ofList none xs

theorem spine_ofList (l : Loc) (xs : List Datum) : (Datum.ofList l xs).spine = (xs, none) := by
  induction xs generalizing l with
  | nil => rfl
  | cons x xs ih => simp only [Datum.ofList, Datum.spine, ih]

theorem isList_lst (xs : List Datum) : IsList (lst xs) := by
  cases xs <;> exact trivial

/-! ## the pure parsers -/

/-- `transform_library_name_part` -/
def partP (d : Datum) : Except SErr LibElem :=
  match d with
  | .sym s _ => .ok (.ident s)
  | .prim (.int i) l => if i ≥ 0 then .ok (.int i.toNat) else .error (.syntax, l)
  | other => .error (.syntax, other.loc)

def libNameP (ds : List Datum) : Except SErr LibName := ds.mapM partP

theorem toLibName_eq (ds : List Datum) (s : SynEnv) : toLibName ds s = (libNameP ds, s) := by
  unfold toLibName libNameP
  apply mapM_lift
  intro d _
  cases d with
  | sym x l => rfl
  | prim p l =>
    cases p <;> try rfl
    simp only [partP]; split <;> rfl
  | _ => rfl

theorem identOf_eq (d : Datum) (s : SynEnv) : Xform.identOf d s = (Macro.identOf d, s) := rfl

theorem mapM_identOf_eq (ds : List Datum) (s : SynEnv) :
    ds.mapM Xform.identOf s = (ds.mapM Macro.identOf, s) :=
  mapM_lift ds (fun d _ => identOf_eq d s)

/-- `transform_identifier_pair` -/
def pairX (pd : Datum) : XM (String × String) := do
  let pd ← expectList pd
  let a ← need pd.elems.head?
  let a ← identOf a
  let b ← need (pd.elems.drop 1).head?
  let b ← identOf b
  pure (a, b)

def pairP (pd : Datum) : Except SErr (String × String) :=
  match pd with
  | .pair .. | .nil _ =>
    match pd.elems with
    | [] => .error (.syntax, none)
    | a :: r =>
      match Macro.identOf a with
      | .error e => .error e
      | .ok a =>
        match r with
        | [] => .error (.syntax, none)
        | b :: _ =>
          match Macro.identOf b with
          | .error e => .error e
          | .ok b => .ok (a, b)
  | _ => .error (.syntax, none)

theorem pairX_eq (pd : Datum) (s : SynEnv) : pairX pd s = (pairP pd, s) := by
  have main : ∀ pd : Datum, IsList pd → pairX pd s = (pairP pd, s) := by
    intro pd hpd
    have e1 : expectList pd s = (.ok pd, s) := by cases pd <;> first | rfl | exact hpd.elim
    have e2 : pairP pd = (match pd.elems with
      | [] => .error (.syntax, none)
      | a :: r =>
        match Macro.identOf a with
        | .error e => .error e
        | .ok a =>
          match r with
          | [] => .error (.syntax, none)
          | b :: _ =>
            match Macro.identOf b with
            | .error e => .error e
            | .ok b => .ok (a, b)) := by cases pd <;> first | rfl | exact hpd.elim
    rw [e2]
    simp only [pairX, bind_def, e1]
    cases pd.elems with
    | nil => rfl
    | cons a r =>
      simp only [List.head?_cons, need, pure_def, identOf_eq]
      cases Macro.identOf a with
      | error e => rfl
      | ok a' =>
        cases r with
        | nil => rfl
        | cons b r' =>
          simp only [List.drop_succ_cons, List.drop_zero, List.head?_cons, pure_def, identOf_eq]
          cases Macro.identOf b <;> rfl
  cases pd with
  | pair a b l => exact main _ trivial
  | nil l => exact main _ trivial
  | _ => rfl

/-- the body of `transform_import_set`, over the recursive call -/
def stepX (rec : Datum → XM ImportSet) (d : Datum) : XM ImportSet := do
  let d ← expectList d
  let es := d.elems
  let first ← need es.head?
  let loc := first.loc
  let spec ← identOf first
  let sub := fun (k : ImportSet → List Datum → XM ImportSet) => do
    let s ← need (es.drop 1).head?
    let s ← rec s
    k s (es.drop 2)
  if spec = "only" then sub (fun s rest => do let ids ← rest.mapM identOf; pure (.only s ids))
  else if spec = "except" then sub (fun s rest => do let ids ← rest.mapM identOf; pure (.except s ids))
  else if spec = "prefix" then sub (fun s rest => do let p ← need rest.head?; let p ← identOf p; pure (.prefix s p))
  else if spec = "rename" then sub (fun s rest => do
    let ps ← rest.mapM pairX
    pure (.rename s ps))
  else do
    let name ← toLibName es
    pure (.direct name loc)

theorem toImportSet_succ (fuel : Nat) (d : Datum) : toImportSet (fuel + 1) d = stepX (toImportSet fuel) d := rfl


/-- the part common to the four operators: the next element is the inner set -/
def subP (rec : Datum → Except SErr ImportSet) (r : List Datum)
    (k : ImportSet → List Datum → Except SErr ImportSet) : Except SErr ImportSet :=
  match r with
  | [] => .error (.syntax, none)
  | sd :: rest =>
    match rec sd with
    | .error e => .error e
    | .ok t => k t rest

def onlyK (t : ImportSet) (rest : List Datum) : Except SErr ImportSet :=
  match rest.mapM Macro.identOf with | .ok ids => .ok (.only t ids) | .error e => .error e
def exceptK (t : ImportSet) (rest : List Datum) : Except SErr ImportSet :=
  match rest.mapM Macro.identOf with | .ok ids => .ok (.except t ids) | .error e => .error e
def prefixK (t : ImportSet) (rest : List Datum) : Except SErr ImportSet :=
  match rest with
  | [] => .error (.syntax, none)
  | p :: _ => match Macro.identOf p with | .ok p => .ok (.prefix t p) | .error e => .error e
def renameK (t : ImportSet) (rest : List Datum) : Except SErr ImportSet :=
  match rest.mapM pairP with | .ok ps => .ok (.rename t ps) | .error e => .error e

/-- what is done with the elements of the list -/
def elemsP (rec : Datum → Except SErr ImportSet) (es : List Datum) : Except SErr ImportSet :=
  match es with
  | [] => .error (.syntax, none)
  | .sym spec loc :: r =>
    if spec = "only" then subP rec r onlyK
    else if spec = "except" then subP rec r exceptK
    else if spec = "prefix" then subP rec r prefixK
    else if spec = "rename" then subP rec r renameK
    else match libNameP (.sym spec loc :: r) with
      | .ok n => .ok (.direct n loc)
      | .error e => .error e
  | other :: _ => .error (.syntax, other.loc)

/-- the body of `transform_import_set` as a pure function -/
def stepP (rec : Datum → Except SErr ImportSet) (d : Datum) : Except SErr ImportSet :=
  match d with
  | .pair .. | .nil _ => elemsP rec d.elems
  | _ => .error (.syntax, none)

theorem stepP_of_isList {rec d} (h : IsList d) : stepP rec d = elemsP rec d.elems := by
  cases d <;> first | rfl | exact h.elim

theorem stepP_not_isList {rec d} (h : ¬ IsList d) : stepP rec d = .error (.syntax, none) := by
  cases d <;> first | rfl | exact (h trivial).elim

theorem stepX_eq {rec : Datum → XM ImportSet} {recP : Datum → Except SErr ImportSet} {s : SynEnv}
    (hrec : ∀ x, rec x s = (recP x, s)) (d : Datum) : stepX rec d s = (stepP recP d, s) := by
  by_cases hd : IsList d
  · have e1 : expectList d s = (.ok d, s) := by cases d <;> first | rfl | exact hd.elim
    rw [stepP_of_isList hd]
    simp only [stepX, bind_def, e1]
    cases d.elems with
    | nil => rfl
    | cons first r =>
      simp only [List.head?_cons, need_some, pure_def, identOf_eq, List.drop_succ_cons, List.drop_zero]
      cases first with
      | sym spec loc =>
        simp only [Macro.identOf, elemsP]
        have hsub : ∀ (k : ImportSet → List Datum → XM ImportSet)
            (kP : ImportSet → List Datum → Except SErr ImportSet),
            (∀ t rest, k t rest s = (kP t rest, s)) →
            (do let x ← need r.head?
                let t ← rec x
                k t (r.drop 1)) s = (subP recP r kP, s) := by
          intro k kP hk
          cases r with
          | nil => rfl
          | cons sd rest =>
            simp only [List.head?_cons, need_some, bind_def, pure_def, hrec, subP, List.drop_succ_cons, List.drop_zero]
            cases recP sd with
            | error e => rfl
            | ok t => exact hk t rest
        split
        · refine hsub (fun t rest => do let ids ← rest.mapM identOf; pure (.only t ids)) onlyK (fun t rest => ?_)
          simp only [bind_def, mapM_identOf_eq, onlyK]
          cases List.mapM Macro.identOf rest <;> rfl
        split
        · refine hsub (fun t rest => do let ids ← rest.mapM identOf; pure (.except t ids)) exceptK (fun t rest => ?_)
          simp only [bind_def, mapM_identOf_eq, exceptK]
          cases List.mapM Macro.identOf rest <;> rfl
        split
        · refine hsub (fun t rest => do let p ← need rest.head?; let p ← identOf p; pure (.prefix t p)) prefixK (fun t rest => ?_)
          cases rest with
          | nil => rfl
          | cons p rest' =>
            simp only [List.head?_cons, need_some, bind_def, pure_def, identOf_eq, prefixK]
            cases Macro.identOf p <;> rfl
        split
        · refine hsub (fun t rest => do let ps ← rest.mapM pairX; pure (.rename t ps)) renameK (fun t rest => ?_)
          simp only [bind_def, mapM_lift rest (fun pd _ => pairX_eq pd s), renameK]
          cases List.mapM pairP rest <;> rfl
        · simp only [bind_def, toLibName_eq, Datum.loc]
          cases libNameP (Datum.sym spec loc :: r) <;> rfl
      | _ => rfl
  · rw [stepP_not_isList hd]
    cases d <;> first | rfl | exact (hd trivial).elim

/-- `transform_import_set` as a pure function (with the model's recursion bound) -/
def parseP : Nat → Datum → Except SErr ImportSet
  | 0, _ => .error (.fuel, none)
  | fuel + 1, d => stepP (parseP fuel) d

/-- the parser of import sets does not touch the syntax environment -/
theorem toImportSet_eq : ∀ (fuel : Nat) (d : Datum) (s : SynEnv), toImportSet fuel d s = (parseP fuel d, s)
  | 0, _, _ => rfl
  | fuel + 1, d, s => by
    rw [toImportSet_succ, parseP]
    exact stepX_eq (fun x => toImportSet_eq fuel x s) d


/-! ## the pure parsers and the shapes -/

theorem mapM_ok_iff {α β} {g : α → Except SErr β} {R : α → β → Prop} (hg : ∀ a b, g a = .ok b ↔ R a b) :
    ∀ (l : List α) (bs : List β), l.mapM g = .ok bs ↔ All2 R l bs
  | [], [] => by rw [exc_mapM_nil]; simp [All2]
  | [], b :: bs => by rw [exc_mapM_nil]; simp [All2]
  | a :: l, [] => by
    rw [exc_mapM_cons]; simp only [All2, iff_false]
    cases g a with
    | error e => simp
    | ok b => cases l.mapM g <;> simp
  | a :: l, b :: bs => by
    rw [exc_mapM_cons]; simp only [All2]
    rw [← hg a b, ← mapM_ok_iff hg l bs]
    cases g a with
    | error e => simp
    | ok b' => cases l.mapM g <;> simp

theorem identOf_ok_iff (d : Datum) (i : String) : Macro.identOf d = .ok i ↔ ∃ l, d = .sym i l := by
  cases d <;> simp [Macro.identOf]

theorem idents_iff (ds : List Datum) (ids : List String) :
    ds.mapM Macro.identOf = .ok ids ↔ Idents ds ids := mapM_ok_iff identOf_ok_iff ds ids

theorem partP_ok_iff (d : Datum) (e : LibElem) : partP d = .ok e ↔ PartOf d e := by
  cases d with
  | sym s l => cases e <;> simp [partP, PartOf, eq_comm]
  | prim p l =>
    cases p with
    | int i =>
      simp only [partP, PartOf]
      split
      · rename_i h
        constructor
        · intro h1; cases h1
          exact .inr ⟨i.toNat, l, by simp [Int.toNat_of_nonneg h], rfl⟩
        · rintro (⟨s, l', h1, _⟩ | ⟨n, l', h1, rfl⟩)
          · cases h1
          · cases h1; simp
      · rename_i h
        constructor
        · intro h1; cases h1
        · rintro (⟨s, l', h1, _⟩ | ⟨n, l', h1, rfl⟩)
          · cases h1
          · cases h1; exact (h (Int.natCast_nonneg n)).elim
    | _ => simp [partP, PartOf]
  | _ => simp [partP, PartOf]

theorem libNameP_ok_iff (ds : List Datum) (n : LibName) : libNameP ds = .ok n ↔ All2 PartOf ds n :=
  mapM_ok_iff partP_ok_iff ds n

theorem pairP_of_isList {pd : Datum} (h : IsList pd) : pairP pd = (match pd.elems with
      | [] => .error (.syntax, none)
      | a :: r =>
        match Macro.identOf a with
        | .error e => .error e
        | .ok a =>
          match r with
          | [] => .error (.syntax, none)
          | b :: _ =>
            match Macro.identOf b with
            | .error e => .error e
            | .ok b => .ok (a, b)) := by cases pd <;> first | rfl | exact h.elim

theorem pairP_ok_iff (pd : Datum) (p : String × String) : pairP pd = .ok p ↔ PairOf false pd p := by
  by_cases hl : IsList pd
  · rw [pairP_of_isList hl]
    simp only [PairOf, hl, true_and, Bool.false_eq_true, false_imp_iff, and_true]
    cases pd.elems with
    | nil => simp
    | cons a r =>
      cases a with
      | sym x lx =>
        cases r with
        | nil => simp [Macro.identOf]
        | cons b r' =>
          cases b with
          | sym y ly =>
            obtain ⟨p1, p2⟩ := p
            simp only [Macro.identOf, Except.ok.injEq, Prod.mk.injEq, List.cons.injEq, Datum.sym.injEq]
            constructor
            · rintro ⟨rfl, rfl⟩; exact ⟨lx, ly, r', ⟨rfl, rfl⟩, ⟨rfl, rfl⟩, rfl⟩
            · rintro ⟨_, _, _, ⟨rfl, _⟩, ⟨rfl, _⟩, _⟩; exact ⟨rfl, rfl⟩
          | _ => simp [Macro.identOf]
      | _ => simp [Macro.identOf]
  · have : pairP pd = .error (.syntax, none) := by cases pd <;> first | rfl | exact (hl trivial).elim
    simp [this, PairOf, hl]

theorem pairs_iff (ds : List Datum) (ps : List (String × String)) :
    ds.mapM pairP = .ok ps ↔ All2 (PairOf false) ds ps := mapM_ok_iff pairP_ok_iff ds ps

theorem all2_mono {α β} {R R' : α → β → Prop} (h : ∀ a b, R a b → R' a b) :
    ∀ (l : List α) (bs : List β), All2 R l bs → All2 R' l bs
  | [], [], _ => trivial
  | [], _ :: _, h' => h'.elim
  | _ :: _, [], h' => h'.elim
  | a :: l, b :: bs, h' => ⟨h a b h'.1, all2_mono h l bs h'.2⟩

theorem pairOf_mono {b : Bool} {pd p} (h : PairOf b pd p) : PairOf false pd p := by
  obtain ⟨h1, la, lb, junk, h2, _⟩ := h
  exact ⟨h1, la, lb, junk, h2, fun h => by cases h⟩

/-- what is accepted strictly is accepted -/
theorem Accepts.mono {b : Bool} {d t} (h : Accepts b d t) : Accepts false d t := by
  induction h with
  | direct h1 h2 h3 h4 h5 => exact .direct h1 h2 h3 h4 (fun h => by cases h)
  | only h1 h2 _ h4 h5 ih => exact .only h1 h2 ih h4 (fun h => by cases h)
  | except h1 h2 _ h4 h5 ih => exact .except h1 h2 ih h4 (fun h => by cases h)
  | «prefix» h1 h2 _ h4 ih => exact .prefix h1 h2 ih (fun h => by cases h)
  | rename h1 h2 _ h4 h5 ih =>
    exact .rename h1 h2 ih (all2_mono (fun _ _ => pairOf_mono) _ _ h4) (fun h => by cases h)

/-- only terms whose library name can be written as an import set are ever produced -/
theorem Accepts.wf {b : Bool} {d t} (h : Accepts b d t) : WF t := by
  induction h with
  | @direct d s l rest n h1 h2 h3 h4 h5 =>
    rw [h2] at h4
    cases n with
    | nil => exact h4.elim
    | cons e n' =>
      obtain ⟨h6, _⟩ := h4
      rcases h6 with ⟨s', l', e1, rfl⟩ | ⟨n'', l', e1, _⟩
      · cases e1; exact ⟨s, n', rfl, h3⟩
      · cases e1
  | only _ _ _ _ _ ih => exact ih
  | except _ _ _ _ _ ih => exact ih
  | «prefix» _ _ _ _ ih => exact ih
  | rename _ _ _ _ _ ih => exact ih

theorem not_kw {s : String} (h : s ∉ keywords) : s ≠ "only" ∧ s ≠ "except" ∧ s ≠ "prefix" ∧ s ≠ "rename" := by
  simp only [keywords, List.mem_cons, List.not_mem_nil, or_false, not_or] at h
  exact h

/-- what the shape description admits is parsed, with fuel above the nesting depth -/
theorem parseP_of_accepts {d t} (h : Accepts false d t) : ∀ fuel, S.depth t < fuel → parseP fuel d = .ok t := by
  induction h with
  | @direct d s l rest n h1 h2 h3 h4 h5 =>
    intro fuel hf
    obtain ⟨fuel, rfl⟩ : ∃ k, fuel = k + 1 := ⟨fuel - 1, by omega⟩
    obtain ⟨k1, k2, k3, k4⟩ := not_kw h3
    rw [parseP, stepP_of_isList h1]
    have h4' := (libNameP_ok_iff _ _).2 h4
    rw [h2] at h4' ⊢
    simp only [elemsP, k1, k2, k3, k4, if_false, h4']
  | @only d l sd rest t ids h1 h2 _ h4 h5 ih =>
    intro fuel hf
    obtain ⟨fuel, rfl⟩ : ∃ k, fuel = k + 1 := ⟨fuel - 1, by omega⟩
    rw [parseP, stepP_of_isList h1, h2]
    simp only [elemsP, if_true, subP, ih fuel (by simp only [S.depth] at hf; omega), onlyK, (idents_iff _ _).2 h4]
  | @except d l sd rest t ids h1 h2 _ h4 h5 ih =>
    intro fuel hf
    obtain ⟨fuel, rfl⟩ : ∃ k, fuel = k + 1 := ⟨fuel - 1, by omega⟩
    rw [parseP, stepP_of_isList h1, h2]
    simp only [elemsP, subP, ih fuel (by simp only [S.depth] at hf; omega), exceptK, (idents_iff _ _).2 h4]
    simp
  | @«prefix» d l sd p lp junk t h1 h2 _ h4 ih =>
    intro fuel hf
    obtain ⟨fuel, rfl⟩ : ∃ k, fuel = k + 1 := ⟨fuel - 1, by omega⟩
    rw [parseP, stepP_of_isList h1, h2]
    simp only [elemsP, subP, ih fuel (by simp only [S.depth] at hf; omega), prefixK, Macro.identOf]
    simp
  | @rename d l sd rest t ps h1 h2 _ h4 h5 ih =>
    intro fuel hf
    obtain ⟨fuel, rfl⟩ : ∃ k, fuel = k + 1 := ⟨fuel - 1, by omega⟩
    rw [parseP, stepP_of_isList h1, h2]
    simp only [elemsP, subP, ih fuel (by simp only [S.depth] at hf; omega), renameK, (pairs_iff _ _).2 h4]
    simp


theorem subP_ok {rec r k t} (h : subP rec r k = .ok t) :
    ∃ sd rest t', r = sd :: rest ∧ rec sd = .ok t' ∧ k t' rest = .ok t := by
  cases r with
  | nil => cases h
  | cons sd rest =>
    simp only [subP] at h
    cases hr : rec sd with
    | error e => rw [hr] at h; cases h
    | ok t' => rw [hr] at h; exact ⟨sd, rest, t', rfl, hr, h⟩

/-- whatever is parsed has the shape described -/
theorem accepts_of_parseP : ∀ (fuel : Nat) (d : Datum) (t : ImportSet), parseP fuel d = .ok t → Accepts false d t
  | 0, _, _, h => by cases h
  | fuel + 1, d, t, h => by
    have ih := accepts_of_parseP fuel
    rw [parseP] at h
    by_cases hl : IsList d
    · rw [stepP_of_isList hl] at h
      cases he : d.elems with
      | nil => rw [he] at h; cases h
      | cons first r =>
        rw [he] at h
        cases first with
        | sym spec loc =>
          simp only [elemsP] at h
          split at h
          · rename_i hs; subst hs
            obtain ⟨sd, rest, t', rfl, h1, h2⟩ := subP_ok h
            simp only [onlyK] at h2
            cases hm : List.mapM Macro.identOf rest with
            | error e => rw [hm] at h2; cases h2
            | ok ids =>
              rw [hm] at h2; cases h2
              exact .only hl he (ih _ _ h1) ((idents_iff _ _).1 hm) (fun h => by cases h)
          split at h
          · rename_i hs; subst hs
            obtain ⟨sd, rest, t', rfl, h1, h2⟩ := subP_ok h
            simp only [exceptK] at h2
            cases hm : List.mapM Macro.identOf rest with
            | error e => rw [hm] at h2; cases h2
            | ok ids =>
              rw [hm] at h2; cases h2
              exact .except hl he (ih _ _ h1) ((idents_iff _ _).1 hm) (fun h => by cases h)
          split at h
          · rename_i hs; subst hs
            obtain ⟨sd, rest, t', rfl, h1, h2⟩ := subP_ok h
            cases rest with
            | nil => cases h2
            | cons p junk =>
              simp only [prefixK] at h2
              cases hp : Macro.identOf p with
              | error e => rw [hp] at h2; cases h2
              | ok p' =>
                rw [hp] at h2; cases h2
                obtain ⟨lp, rfl⟩ := (identOf_ok_iff _ _).1 hp
                exact .prefix hl he (ih _ _ h1) (fun h => by cases h)
          split at h
          · rename_i hs; subst hs
            obtain ⟨sd, rest, t', rfl, h1, h2⟩ := subP_ok h
            simp only [renameK] at h2
            cases hm : List.mapM pairP rest with
            | error e => rw [hm] at h2; cases h2
            | ok ps =>
              rw [hm] at h2; cases h2
              exact .rename hl he (ih _ _ h1) ((pairs_iff _ _).1 hm) (fun h => by cases h)
          · rename_i k1 k2 k3 k4
            cases hn : libNameP (Datum.sym spec loc :: r) with
            | error e => rw [hn] at h; cases h
            | ok n =>
              rw [hn] at h; cases h
              refine .direct hl he ?_ (he ▸ (libNameP_ok_iff _ _).1 hn) (fun h => by cases h)
              simp only [keywords, List.mem_cons, List.not_mem_nil, or_false, not_or]
              exact ⟨k1, k2, k3, k4⟩
        | _ => cases h
    · rw [stepP_not_isList hl] at h; cases h

/-! ## rendered data have the strict shape -/

theorem idents_syms : ∀ ids : List String, Idents (ids.map sym) ids
  | [] => trivial
  | i :: ids => ⟨⟨none, rfl⟩, idents_syms ids⟩

theorem parts_render : ∀ n : LibName, All2 PartOf (n.map renderElem) n
  | [] => trivial
  | .ident s :: n => ⟨.inl ⟨s, none, rfl, rfl⟩, parts_render n⟩
  | .int k :: n => ⟨.inr ⟨k, none, rfl, rfl⟩, parts_render n⟩

theorem pairs_render : ∀ ps : List (String × String), All2 (PairOf true) (ps.map renderPair) ps
  | [] => trivial
  | p :: ps => ⟨⟨trivial, none, none, [], rfl, fun _ => ⟨rfl, rfl⟩⟩, pairs_render ps⟩

theorem spine_lst (xs : List Datum) : (lst xs).spine.2 = none := by
  simp only [lst, spine_ofList]

/-- the rendering of a term has the strict shape of (the location-free copy of) the term -/
theorem accepts_render : ∀ t : ImportSet, WF t → Accepts true (renderSet t) t.unloc
  | .direct n l, h => by
    obtain ⟨s, rest, rfl, hs⟩ := h
    exact .direct (isList_lst _) (elems_lst _) hs (by show All2 PartOf (lst _).elems _; rw [elems_lst]; exact parts_render _)
      (fun _ => spine_lst _)
  | .only t ids, h =>
    .only (isList_lst _) (elems_lst _) (accepts_render t h) (idents_syms ids) (fun _ => spine_lst _)
  | .except t ids, h =>
    .except (isList_lst _) (elems_lst _) (accepts_render t h) (idents_syms ids) (fun _ => spine_lst _)
  | .prefix t p, h =>
    .prefix (isList_lst _) (elems_lst _) (accepts_render t h) (fun _ => ⟨rfl, spine_lst _⟩)
  | .rename t ps, h =>
    .rename (isList_lst _) (elems_lst _) (accepts_render t h) (pairs_render ps) (fun _ => spine_lst _)

theorem depth_unloc : ∀ t : ImportSet, S.depth t.unloc = S.depth t
  | .direct _ _ => rfl
  | .only t _ | .except t _ | .prefix t _ | .rename t _ => by
    simp only [ImportSet.unloc, S.depth, depth_unloc t]

theorem wf_unloc : ∀ t : ImportSet, WF t.unloc ↔ WF t
  | .direct _ _ => Iff.rfl
  | .only t _ | .except t _ | .prefix t _ | .rename t _ => by
    simp only [ImportSet.unloc, WF, wf_unloc t]

theorem unloc_unloc : ∀ t : ImportSet, t.unloc.unloc = t.unloc
  | .direct _ _ => rfl
  | .only t _ | .except t _ | .prefix t _ | .rename t _ => by
    simp only [ImportSet.unloc, unloc_unloc t]

theorem renderSet_unloc : ∀ t : ImportSet, renderSet t.unloc = renderSet t
  | .direct _ _ => rfl
  | .only t _ | .except t _ | .prefix t _ | .rename t _ => by
    simp only [ImportSet.unloc, renderSet, renderSet_unloc t]


/-! ## the strict shape is the rendering -/

theorem spine_pair_snd (a b : Datum) (l : Loc) : (Datum.pair a b l).spine.2 = b.spine.2 := by
  simp only [Datum.spine]

theorem isList_of_spine_none {b : Datum} (h : b.spine.2 = none) : IsList b := by
  cases b <;> first | trivial | (simp [Datum.spine] at h)

theorem strip_proper : ∀ d : Datum, IsList d → d.spine.2 = none → d.strip = lst (d.elems.map Datum.strip)
  | .nil l, _, _ => rfl
  | .pair a b l, _, h => by
    rw [spine_pair_snd] at h
    rw [elems_pair, Datum.strip, strip_proper b (isList_of_spine_none h) h]
    rfl
  | .prim _ _, h, _ => h.elim
  | .sym _ _, h, _ => h.elim
  | .vec _ _, h, _ => h.elim

theorem idents_strip : ∀ (ds : List Datum) (ids : List String), Idents ds ids → ds.map Datum.strip = ids.map sym
  | [], [], _ => rfl
  | [], _ :: _, h => h.elim
  | _ :: _, [], h => h.elim
  | d :: ds, i :: ids, ⟨⟨l, hd⟩, h⟩ => by
    subst hd
    simp only [List.map_cons, idents_strip ds ids h]; rfl

theorem parts_strip : ∀ (ds : List Datum) (n : LibName), All2 PartOf ds n → ds.map Datum.strip = n.map renderElem
  | [], [], _ => rfl
  | [], _ :: _, h => h.elim
  | _ :: _, [], h => h.elim
  | d :: ds, e :: n, ⟨hd, h⟩ => by
    simp only [List.map_cons, parts_strip ds n h]
    rcases hd with ⟨s, l, rfl, rfl⟩ | ⟨k, l, rfl, rfl⟩ <;> rfl

theorem pairs_strip : ∀ (ds : List Datum) (ps : List (String × String)), All2 (PairOf true) ds ps →
    ds.map Datum.strip = ps.map renderPair
  | [], [], _ => rfl
  | [], _ :: _, h => h.elim
  | _ :: _, [], h => h.elim
  | d :: ds, p :: ps, ⟨⟨h1, la, lb, junk, h2, h3⟩, h⟩ => by
    obtain ⟨rfl, h4⟩ := h3 rfl
    simp only [List.map_cons, pairs_strip ds ps h, strip_proper d h1 h4, h2]
    rfl

/-- a datum of the strict shape is the rendering of the term, up to locations -/
theorem strip_of_accepts_strict {d t} (h : Accepts true d t) : d.strip = renderSet t.unloc := by
  induction h with
  | @direct d s l rest n h1 h2 h3 h4 h5 =>
    rw [strip_proper d h1 (h5 rfl), parts_strip _ _ h4]; rfl
  | @only d l sd rest t ids h1 h2 _ h4 h5 ih =>
    rw [strip_proper d h1 (h5 rfl), h2]
    simp only [List.map_cons, ih, idents_strip _ _ h4]; rfl
  | @except d l sd rest t ids h1 h2 _ h4 h5 ih =>
    rw [strip_proper d h1 (h5 rfl), h2]
    simp only [List.map_cons, ih, idents_strip _ _ h4]; rfl
  | @«prefix» d l sd p lp junk t h1 h2 _ h4 ih =>
    obtain ⟨rfl, h5⟩ := h4 rfl
    rw [strip_proper d h1 h5, h2]
    simp only [List.map_cons, ih]; rfl
  | @rename d l sd rest t ps h1 h2 _ h4 h5 ih =>
    rw [strip_proper d h1 (h5 rfl), h2]
    simp only [List.map_cons, ih, pairs_strip _ _ h4]; rfl

/-! ## sizes and fuel -/

theorem size_pos : ∀ d : Datum, 0 < d.size
  | .prim _ _ | .sym _ _ | .nil _ => by simp [Datum.size]
  | .pair _ _ _ | .vec _ _ => by simp only [Datum.size]; omega

theorem size_le_of_mem_elems : ∀ (d x : Datum), x ∈ d.elems → x.size ≤ d.size
  | .pair a b l, x, h => by
    rw [elems_pair] at h
    simp only [Datum.size]
    rcases List.mem_cons.1 h with rfl | h
    · omega
    · have := size_le_of_mem_elems b x h; omega
  | .nil _, x, h => by simp [Datum.elems, Datum.spine] at h
  | .prim _ _, x, h => by simp [Datum.elems, Datum.spine] at h; subst h; exact Nat.le_refl _
  | .sym _ _, x, h => by simp [Datum.elems, Datum.spine] at h; subst h; exact Nat.le_refl _
  | .vec _ _, x, h => by simp [Datum.elems, Datum.spine] at h; subst h; exact Nat.le_refl _

theorem size_lt_of_mem_elems {d x : Datum} (hl : IsList d) (h : x ∈ d.elems) : x.size < d.size := by
  cases d with
  | pair a b l =>
    rw [elems_pair] at h
    simp only [Datum.size]
    rcases List.mem_cons.1 h with rfl | h
    · omega
    · have := size_le_of_mem_elems b x h; omega
  | nil l => simp [Datum.elems, Datum.spine] at h
  | _ => exact hl.elim

/-- the nesting depth of a parsed term is below the size of the datum -/
theorem depth_lt_size {b : Bool} {d t} (h : Accepts b d t) : S.depth t < d.size := by
  induction h with
  | direct => exact size_pos _
  | @only d l sd rest t ids h1 h2 _ h4 h5 ih =>
    have := size_lt_of_mem_elems (x := sd) h1 (by rw [h2]; simp); simp only [S.depth]; omega
  | @except d l sd rest t ids h1 h2 _ h4 h5 ih =>
    have := size_lt_of_mem_elems (x := sd) h1 (by rw [h2]; simp); simp only [S.depth]; omega
  | @«prefix» d l sd p lp junk t h1 h2 _ h4 ih =>
    have := size_lt_of_mem_elems (x := sd) h1 (by rw [h2]; simp); simp only [S.depth]; omega
  | @rename d l sd rest t ps h1 h2 _ h4 h5 ih =>
    have := size_lt_of_mem_elems (x := sd) h1 (by rw [h2]; simp); simp only [S.depth]; omega

theorem mapM_error_kind {α β} {g : α → Except SErr β} (hg : ∀ a e, g a = .error e → e.1 = .syntax) :
    ∀ (l : List α) (e : SErr), l.mapM g = .error e → e.1 = .syntax
  | [], e, h => by rw [exc_mapM_nil] at h; cases h
  | a :: l, e, h => by
    rw [exc_mapM_cons] at h
    cases ha : g a with
    | error e' => rw [ha] at h; cases h; exact hg a _ ha
    | ok b =>
      rw [ha] at h
      cases hl : List.mapM g l with
      | error e' => rw [hl] at h; cases h; exact mapM_error_kind hg l _ hl
      | ok bs => rw [hl] at h; cases h

theorem identOf_error_kind (d : Datum) (e : SErr) (h : Macro.identOf d = .error e) : e.1 = .syntax := by
  cases d <;> simp [Macro.identOf] at h <;> subst h <;> rfl

theorem partP_error_kind (d : Datum) (e : SErr) (h : partP d = .error e) : e.1 = .syntax := by
  cases d with
  | prim p l =>
    cases p <;> simp only [partP] at h <;> try (cases h; rfl)
    split at h <;> cases h; rfl
  | sym _ _ => cases h
  | _ => cases h; rfl

theorem pairP_error_kind (pd : Datum) (e : SErr) (h : pairP pd = .error e) : e.1 = .syntax := by
  by_cases hl : IsList pd
  · rw [pairP_of_isList hl] at h
    cases he : pd.elems with
    | nil => rw [he] at h; cases h; rfl
    | cons a r =>
      rw [he] at h; simp only at h
      cases ha : Macro.identOf a with
      | error e' => rw [ha] at h; cases h; exact identOf_error_kind _ _ ha
      | ok a' =>
        rw [ha] at h
        cases r with
        | nil => cases h; rfl
        | cons b r' =>
          simp only at h
          cases hb : Macro.identOf b with
          | error e' => rw [hb] at h; cases h; exact identOf_error_kind _ _ hb
          | ok b' => rw [hb] at h; cases h
  · have : pairP pd = .error (.syntax, none) := by cases pd <;> first | rfl | exact (hl trivial).elim
    rw [this] at h; cases h; rfl

theorem subP_error {rec r k e} (h : subP rec r k = .error e) :
    e = (.syntax, none) ∨ (∃ sd ∈ r, rec sd = .error e) ∨ (∃ t rest, k t rest = .error e) := by
  cases r with
  | nil => cases h; exact .inl rfl
  | cons sd rest =>
    simp only [subP] at h
    cases hr : rec sd with
    | error e' => rw [hr] at h; cases h; exact .inr (.inl ⟨sd, List.mem_cons_self .., hr⟩)
    | ok t' => rw [hr] at h; exact .inr (.inr ⟨t', rest, h⟩)

/-- an error of the import-set parser is a syntax error, or the recursion bound, and the latter
only when the bound is below the size of the datum -/
theorem parseP_error : ∀ (fuel : Nat) (d : Datum) (e : SErr), parseP fuel d = .error e →
    e.1 = .syntax ∨ (e.1 = .fuel ∧ fuel < d.size)
  | 0, d, e, h => by cases h; exact .inr ⟨rfl, size_pos d⟩
  | fuel + 1, d, e, h => by
    rw [parseP] at h
    by_cases hl : IsList d
    · rw [stepP_of_isList hl] at h
      have hsub : ∀ r k, (∀ x ∈ r, x ∈ d.elems) → (∀ t rest e, k t rest = .error e → e.1 = .syntax) →
          subP (parseP fuel) r k = .error e → e.1 = .syntax ∨ (e.1 = .fuel ∧ fuel + 1 < d.size) := by
        intro r k hr hk h
        rcases subP_error h with rfl | ⟨sd, hsd, h1⟩ | ⟨t, rest, h1⟩
        · exact .inl rfl
        · rcases parseP_error fuel sd e h1 with h2 | ⟨h2, h3⟩
          · exact .inl h2
          · have := size_lt_of_mem_elems hl (hr sd hsd)
            exact .inr ⟨h2, by omega⟩
        · exact .inl (hk _ _ _ h1)
      cases he : d.elems with
      | nil => rw [he] at h; cases h; exact .inl rfl
      | cons first r =>
        rw [he] at h
        have hr : ∀ x ∈ r, x ∈ d.elems := fun x hx => he ▸ List.mem_cons_of_mem _ hx
        cases first with
        | sym spec loc =>
          simp only [elemsP] at h
          split at h
          · refine hsub r onlyK hr (fun t rest e h => ?_) h
            simp only [onlyK] at h
            cases hm : List.mapM Macro.identOf rest with
            | error e' => rw [hm] at h; cases h; exact mapM_error_kind identOf_error_kind _ _ hm
            | ok _ => rw [hm] at h; cases h
          split at h
          · refine hsub r exceptK hr (fun t rest e h => ?_) h
            simp only [exceptK] at h
            cases hm : List.mapM Macro.identOf rest with
            | error e' => rw [hm] at h; cases h; exact mapM_error_kind identOf_error_kind _ _ hm
            | ok _ => rw [hm] at h; cases h
          split at h
          · refine hsub r prefixK hr (fun t rest e h => ?_) h
            cases rest with
            | nil => cases h; rfl
            | cons p _ =>
              simp only [prefixK] at h
              cases hp : Macro.identOf p with
              | error e' => rw [hp] at h; cases h; exact identOf_error_kind _ _ hp
              | ok _ => rw [hp] at h; cases h
          split at h
          · refine hsub r renameK hr (fun t rest e h => ?_) h
            simp only [renameK] at h
            cases hm : List.mapM pairP rest with
            | error e' => rw [hm] at h; cases h; exact mapM_error_kind pairP_error_kind _ _ hm
            | ok _ => rw [hm] at h; cases h
          · cases hn : libNameP (Datum.sym spec loc :: r) with
            | error e' => rw [hn] at h; cases h; exact .inl (mapM_error_kind partP_error_kind _ _ hn)
            | ok _ => rw [hn] at h; cases h
        | _ => cases h; exact .inl rfl
    · rw [stepP_not_isList hl] at h; cases h; exact .inl rfl


/-! ## declarations -/

theorem mapM_loop_ok {α β γ} {f : α → XM β} {r : γ → α} {g : γ → β} {s : SynEnv} :
    ∀ (l : List γ) (acc : List β), (∀ a ∈ l, f (r a) s = (.ok (g a), s)) →
    List.mapM.loop f (l.map r) acc s = (.ok (acc.reverse ++ l.map g), s)
  | [], acc, _ => by simp [List.mapM.loop, pure_def]
  | a :: l, acc, h => by
    simp only [List.map_cons, List.mapM.loop, bind_def, h a (List.mem_cons_self ..)]
    rw [mapM_loop_ok l (g a :: acc) (fun x hx => h x (List.mem_cons_of_mem _ hx))]
    simp

/-- `mapM` over rendered items each of which parses back -/
theorem mapM_ok_map {α β γ} {f : α → XM β} {r : γ → α} {g : γ → β} {s : SynEnv} (l : List γ)
    (h : ∀ a ∈ l, f (r a) s = (.ok (g a), s)) : (l.map r).mapM f s = (.ok (l.map g), s) := by
  rw [List.mapM, mapM_loop_ok l [] h]; simp

theorem popProper_lst (x : Datum) (xs : List Datum) :
    Macro.popProper (lst (x :: xs)) = .ok (some (x, Datum.ofList none xs)) := by
  cases xs <;> rfl

theorem popProper_isList (a rest : Datum) (l : Loc) (h : IsList rest) :
    Macro.popProper (.pair a rest l) = .ok (some (a, rest)) := by
  cases rest <;> first | rfl | exact h.elim

theorem toExportSpec_render (e : ExportSpec) (s : SynEnv) : toExportSpec (renderExport e) s = (.ok e.unloc, s) := by
  cases e <;> rfl

/-- an import declaration is the import-set parser mapped over the arguments -/
theorem toStatement_import_eq (fuel : Nat) (li l : Loc) (rest : Datum) (h : IsList rest) (s : SynEnv) :
    toStatement (fuel + 1) (.pair (.sym "import" li) rest l) s =
      ((rest.elems.mapM (parseP fuel)).map (fun sets => Statement.importDecl sets l), s) := by
  rw [toStatement]
  simp (config := {decide := true}) only [bind_def, lift, popProper_isList _ _ _ h, if_true, if_false, Datum.loc,
    mapM_lift rest.elems (fun d _ => toImportSet_eq fuel d s)]
  cases List.mapM (parseP fuel) rest.elems <;> rfl

theorem expectList_isList {d : Datum} (h : IsList d) (s : SynEnv) : expectList d s = (.ok d, s) := by
  cases d <;> first | rfl | exact h.elim

/-- inside a library, anything that is not an `export` or a `begin` is read as an import
declaration: the import-set parser mapped over the elements after the first -/
theorem toLibDecl_import_eq (fuel : Nat) (d first : Datum) (r : List Datum) (h : IsList d)
    (he : d.elems = first :: r) (h1 : ∀ l, first ≠ .sym "export" l) (h2 : ∀ l, first ≠ .sym "begin" l)
    (s : SynEnv) :
    toLibDecl (fuel + 1) d s = ((r.mapM (parseP fuel)).map LibDecl.importDecl, s) := by
  rw [toLibDecl]
  simp only [bind_def, expectList_isList h, he, List.head?_cons, need_some, pure_def, List.drop_succ_cons, List.drop_zero]
  simp only [bind_def, mapM_lift r (fun d _ => toImportSet_eq fuel d s)]
  cases List.mapM (parseP fuel) r <;> rfl

theorem mapM_parseP_render (fuel : Nat) : ∀ (sets : List ImportSet), (∀ t ∈ sets, WF t ∧ S.depth t < fuel) →
    (sets.map renderSet).mapM (parseP fuel) = .ok (sets.map ImportSet.unloc)
  | [], _ => rfl
  | t :: sets, h => by
    have ht := h t (List.mem_cons_self ..)
    rw [List.map_cons, exc_mapM_cons,
      parseP_of_accepts (accepts_render t ht.1).mono fuel (by rw [depth_unloc]; exact ht.2),
      mapM_parseP_render fuel sets (fun x hx => h x (List.mem_cons_of_mem _ hx))]
    rfl


theorem toLibDecl_export (fuel : Nat) (specs : List ExportSpec) (s : SynEnv) :
    toLibDecl (fuel + 1) (lst (sym "export" :: specs.map renderExport)) s =
      (.ok (.export (specs.map ExportSpec.unloc)), s) := by
  rw [toLibDecl]
  simp only [bind_def, expectList_isList (isList_lst _), elems_lst, List.head?_cons, need_some, pure_def,
    List.drop_succ_cons, List.drop_zero, sym, mapM_ok_map specs (fun e _ => toExportSpec_render e s)]

theorem toLibDecl_begin (fuel : Nat) (body : List Datum) (s : SynEnv) :
    toLibDecl (fuel + 1) (lst (sym "begin" :: body)) s =
      (do let b ← toStatements fuel body; pure (LibDecl.begin_ b)) s := by
  rw [toLibDecl]
  simp only [bind_def, expectList_isList (isList_lst _), elems_lst, List.head?_cons, need_some, pure_def,
    List.drop_succ_cons, List.drop_zero, sym]

theorem toLibDecl_render : ∀ (fuel : Nat) (x : DeclSyn), DeclOk (fuel - 1) x → ∀ s,
    toLibDecl fuel (renderDecl x) s = expectDecl fuel x s
  | 0, _, _, _ => by rw [toLibDecl]; rfl
  | fuel + 1, .importDecl sets, h, s => by
    rw [renderDecl, renderImport,
      toLibDecl_import_eq fuel _ (sym "import") (sets.map renderSet) (isList_lst _) (elems_lst _)
        (fun l => by simp [sym]) (fun l => by simp [sym]),
      mapM_parseP_render fuel sets h]
    rfl
  | fuel + 1, .export specs, _, s => toLibDecl_export fuel specs s
  | fuel + 1, .begin_ body, _, s => toLibDecl_begin fuel body s

theorem DeclOk.mono {k k' : Nat} {x : DeclSyn} (h : DeclOk k x) (hk : k ≤ k') : DeclOk k' x := by
  cases x with
  | importDecl sets => exact fun t ht => ⟨(h t ht).1, Nat.lt_of_lt_of_le (h t ht).2 hk⟩
  | _ => trivial

theorem toLibDecls_render (k : Nat) : ∀ (fuel : Nat) (decls : List DeclSyn), (∀ x ∈ decls, DeclOk k x) →
    k + decls.length + 1 ≤ fuel → ∀ s, toLibDecls fuel (decls.map renderDecl) s = expectDecls fuel decls s
  | 0, _, _, hf, _ => by omega
  | fuel + 1, [], _, _, s => by rw [List.map_nil, toLibDecls]; rfl
  | fuel + 1, x :: xs, h, hf, s => by
    simp only [List.length_cons] at hf
    rw [List.map_cons, toLibDecls, expectDecls]
    simp only [bind_def, toLibDecl_render fuel x ((h x (List.mem_cons_self ..)).mono (by omega))]
    generalize expectDecl fuel x s = y
    obtain ⟨r, s1⟩ := y
    cases r with
    | error e => rfl
    | ok a =>
      simp only [toLibDecls_render k fuel xs (fun y hy => h y (List.mem_cons_of_mem _ hy)) (by omega)]

theorem toLibName_render (n : LibName) (s : SynEnv) : toLibName (n.map renderElem) s = (.ok n, s) := by
  rw [toLibName_eq, (libNameP_ok_iff _ _).2 (parts_render n)]

theorem toStatement_library_eq (fuel : Nat) (name : LibName) (decls : List DeclSyn) (s : SynEnv) :
    toStatement (fuel + 2) (renderLibrary name decls) s =
      (do let ds ← toLibDecls fuel (decls.map renderDecl); pure (Statement.libraryDef name ds none)) s := by
  simp only [renderLibrary, lst, Datum.ofList, sym]
  rw [toStatement]
  simp (config := {decide := true}) only [lst, Datum.ofList, sym, bind_def, lift, Macro.popProper, if_true, if_false,
    Datum.loc, elems_pair, elems_ofList]
  rw [toLibrary]
  simp only [bind_def, List.head?_cons, need_some, pure_def, List.drop_succ_cons, List.drop_zero,
    expectList_isList (isList_lst _), renderName, elems_lst, toLibName_render]

/-- the parse of the written declarations keeps the export entries and the import sets, in
textual order -/
theorem expectDecls_flat : ∀ (fuel : Nat) (decls : List DeclSyn) (s s' : SynEnv) (ds : List LibDecl),
    expectDecls fuel decls s = (.ok ds, s') →
    S.exportSpecs ds = (writtenExports decls).map ExportSpec.unloc ∧
    parsedImports ds = (writtenImports decls).map ImportSet.unloc ∧
    ds.length = decls.length
  | 0, _, _, _, _, h => by cases h
  | fuel + 1, [], s, s', ds, h => by cases h; exact ⟨rfl, rfl, rfl⟩
  | fuel + 1, x :: xs, s, s', ds, h => by
    rw [expectDecls] at h
    simp only [bind_def] at h
    cases hx : expectDecl fuel x s with
    | mk r s1 =>
      rw [hx] at h
      cases r with
      | error e => cases h
      | ok a =>
        simp only at h
        cases hxs : expectDecls fuel xs s1 with
        | mk r2 s2 =>
          rw [hxs] at h
          cases r2 with
          | error e => cases h
          | ok as =>
            cases h
            obtain ⟨i1, i2, i3⟩ := expectDecls_flat fuel xs s1 _ as hxs
            cases fuel with
            | zero => cases hx
            | succ f =>
              cases x with
              | importDecl sets =>
                cases hx
                simp only [S.exportSpecs, parsedImports, writtenExports, writtenImports, i1, i2, i3,
                  List.map_append, List.length_cons, and_self]
              | «export» specs =>
                cases hx
                simp only [S.exportSpecs, parsedImports, writtenExports, writtenImports, i1, i2, i3,
                  List.map_append, List.length_cons, and_self]
              | begin_ body =>
                simp only [expectDecl, bind_def] at hx
                cases hb : toStatements f body s with
                | mk r3 s3 =>
                  rw [hb] at hx
                  cases r3 with
                  | error e => cases hx
                  | ok b =>
                    cases hx
                    simp only [S.exportSpecs, parsedImports, writtenExports, writtenImports, i1, i2, i3,
                      List.length_cons, and_self]

end Ruschm.ImportSyntax

/-
Property C06, the stretch theorem `lex_eq_spec` of DESIGN.md: the model lexer
(`RuschmModel/Lex.lean`: `Lex.all`, one function per Rust scanner, peek / advance discipline)
REFINES the declarative delimiter-splitting tokenizer `RuschmSpec/LexSpec.lean`
(`LexSpec.tokens`: skip the atmosphere, read self-delimiting tokens by their own closing rule, take
every other token as the maximal chunk of non-delimiter characters and classify the chunk with the
pure function `LexSpec.classify`).

The equivalence is FULL: it holds for every text, with the tokens read before a lexical error
included, and it is an equality of functions — so it covers both directions (model ok ⇒ spec ok
with the same tokens, and spec ok ⇒ model ok) as well as agreement on failure.

Only property theorems live here; the helper lemmas are in `RuschmProofs/LexSpecLemmas.lean`.
-/
import RuschmProofs.LexSpecLemmas

namespace Ruschm.C06More
open Ruschm Ruschm.Lex Ruschm.Text Ruschm.LexSpecLemmas

/-- the result of one step of the model lexer with the cursor positions forgotten -/
abbrev stepOf (r : Except LexErr (Option (Token × List Char × Pos))) : LexSpec.Step := forget r

private theorem allAux_run (fuel : Nat) (cs : List Char) (p : Pos) (acc : List LToken) :
    (Lex.allAux fuel cs p acc).1.map (·.tok)
        = acc.reverse.map (·.tok) ++ (LexSpec.run fuel cs).1 ∧
      (Lex.allAux fuel cs p acc).2.isSome = (LexSpec.run fuel cs).2 := by
  induction fuel generalizing cs p acc with
  | zero => simp [Lex.allAux, LexSpec.run]
  | succ fuel ih =>
    have hstep := next_eq cs p
    simp only [Lex.allAux, LexSpec.run]
    cases hn : Lex.next cs p with
    | error e =>
      rw [hn] at hstep
      simp [← hstep, forget]
    | ok r =>
      cases r with
      | none =>
        rw [hn] at hstep
        simp [← hstep, forget]
      | some r =>
        obtain ⟨t, rest, p'⟩ := r
        rw [hn] at hstep
        simp only [← hstep, forget]
        obtain ⟨h1, h2⟩ := ih rest p' (⟨t, some p'⟩ :: acc)
        simp [h1, h2]

/-! ## 1. One step -/

/-- ONE STEP. Whatever the text and wherever the cursor: `Lexer::try_next` (skip the atmosphere,
scan one token with the scanner chosen by the first character) and the declarative tokenizer's step
(skip the atmosphere, cut off one self-delimiting token or one maximal chunk, classify it) give the
same outcome — the same error status, the same end-of-input status, or the same token with the
same remaining text. Error branches are not totalised away: where the model reports a syntax
error, so does the specification, and conversely. -/
theorem lex_step_eq_spec (cs : List Char) (p : Pos) :
    stepOf (Lex.next cs p) = LexSpec.next cs :=
  next_eq cs p

/-- the documented quirk: `#t#f` is split after `#t` without a delimiter, by both -/
example : stepOf (Lex.next "#t#f".toList (1, 1)) = .tok (.prim (.bool true)) "#f".toList := by
  rw [lex_step_eq_spec]; decide

/-- … and `1/2/3` is a lexical error for both (the chunk is no token) -/
example : stepOf (Lex.next " 1/2/3 x".toList (1, 1)) = .error := by
  rw [lex_step_eq_spec]; decide

/-! ## 2. The whole text -/

/-- LEX_EQ_SPEC (the refinement). For EVERY text `s` the model lexer `Lex.all` and the declarative
tokenizer `LexSpec.tokens` produce the same token sequence (positions ignored) and agree on whether
the text has a lexical error; in the error case the sequences are the tokens read before the
error. -/
theorem lex_eq_spec (s : List Char) :
    (Lex.all s).1.map (·.tok) = (LexSpec.tokens s).1 ∧
      (Lex.all s).2.isSome = (LexSpec.tokens s).2 := by
  have h := allAux_run (s.length + 1) s (1, 1) []
  simpa [Lex.all, LexSpec.tokens] using h

example : (Lex.all "(a . \"x)\") '-5 ; end".toList).1.map (·.tok)
    = [.lparen, .ident "a", .period, .prim (.str "x)"), .rparen, .quote, .prim (.int (-5))] := by
  rw [(lex_eq_spec _).1]; decide

/-- The same as an `iff` on successful runs, in the form of the design document: `Lex.all s`
succeeds with tokens `ts` iff the specification tokenizer does, with the same tokens. Both
directions (soundness: model ok ⇒ spec ok; completeness: spec ok ⇒ model ok) are included, and so
is agreement on failure (`lex_fails_iff_spec`). -/
theorem lex_ok_iff_spec (s : List Char) (ts : List Token) :
    ((Lex.all s).2 = none ∧ (Lex.all s).1.map (·.tok) = ts) ↔ LexSpec.tokenize s = some ts := by
  obtain ⟨h1, h2⟩ := lex_eq_spec s
  unfold LexSpec.tokenize
  rw [← h1, ← h2]
  cases (Lex.all s).2 <;> simp

example : LexSpec.tokenize "#(1 #\\a) ; c".toList
    = some [.vecIntro, .prim (.int 1), .prim (.chr 'a'), .rparen] := by decide

example : (Lex.all "#(1 #\\a) ; c".toList).2 = none ∧
    (Lex.all "#(1 #\\a) ; c".toList).1.map (·.tok)
      = [.vecIntro, .prim (.int 1), .prim (.chr 'a'), .rparen] :=
  (lex_ok_iff_spec _ _).mpr (by decide)

/-- The model lexer reports a lexical error exactly on the texts the specification rejects. -/
theorem lex_fails_iff_spec (s : List Char) :
    (Lex.all s).2.isSome = true ↔ LexSpec.tokenize s = none := by
  obtain ⟨-, h2⟩ := lex_eq_spec s
  unfold LexSpec.tokenize
  rw [← h2]
  cases (Lex.all s).2 <;> simp

example : (Lex.all "(a 1e)".toList).2.isSome = true := (lex_fails_iff_spec _).mpr (by decide)

/-- The specification tokenizer does not depend on its fuel either (every token consumes a
character): more fuel than `length + 1` changes nothing. -/
theorem spec_total (s : List Char) (k : Nat) :
    LexSpec.run (s.length + 1 + k) s = LexSpec.run (s.length + 1) s := by
  obtain ⟨a1, a2⟩ := allAux_run (s.length + 1 + k) s (1, 1) []
  obtain ⟨b1, b2⟩ := allAux_run (s.length + 1) s (1, 1) []
  have hf := allAux_fuel k (s.length + 1) s (1, 1) [] (Nat.lt_succ_self _)
  rw [hf] at a1 a2
  simp only [List.reverse_nil, List.map_nil, List.nil_append] at a1 b1
  exact Prod.ext (a1.symm.trans b1) (a2.symm.trans b2)

/-! ## 3. Chunks: tokens are never split inside a maximal chunk -/

/-- the characters that start a self-delimiting token or a `#`-token -/
def punctuation : List Char := ['(', ')', '\'', '`', ',', '"', '|', '#']

/-- CLASSIFY. A maximal chunk `w` — non-empty, free of delimiters, not starting with a punctuation
character or `#` — that is followed by a delimiter or by the end of the text is read by the model
lexer as exactly the token `LexSpec.classify w` (numbers of all three kinds, identifiers
including the peculiar ones, the period), leaving exactly the text after the chunk; and it is a
syntax error exactly when the chunk is no token. All word classes at once. -/
theorem lex_one_chunk (c : Char) (w rest : List Char) (p : Pos)
    (hw : ∀ x ∈ c :: w, isDelimiter x = false) (hc : c ∉ punctuation)
    (hr : startsDelim rest = true) :
    stepOf (Lex.token (c :: w ++ rest) p) = LexSpec.ofClass (LexSpec.classify (c :: w)) rest := by
  simp only [punctuation, List.mem_cons, List.not_mem_nil, or_false, not_or] at hc
  exact word_eq c w rest p hw hr hc.1 hc.2.1 hc.2.2.1 hc.2.2.2.1 hc.2.2.2.2.2.2.2 hc.2.2.2.2.1
    hc.2.2.2.2.2.1 hc.2.2.2.2.2.2.1

example : stepOf (Lex.token "-12.5e3)".toList (1, 1))
    = .tok (.prim (.real "-12.5e3")) [')'] := by
  have h := lex_one_chunk '-' "12.5e3".toList [')'] (1, 1) (by decide) (by decide) (by decide)
  rw [show LexSpec.classify ('-' :: "12.5e3".toList) = some (.prim (.real "-12.5e3")) by decide] at h
  exact h

example : stepOf (Lex.token "1+ x".toList (1, 1)) = .error := by
  have h := lex_one_chunk '1' ['+'] " x".toList (1, 1) (by decide) (by decide) (by decide)
  exact h

/-- NO SPLIT INSIDE A CHUNK. Whenever the model lexer reads a token `t` from a text that starts
with a character that is neither atmosphere nor punctuation nor `#`, the characters it consumed are
exactly the MAXIMAL chunk of non-delimiter characters at the head of the text — the token boundary
falls at the first delimiter (or at the end), never inside the chunk — and `t` is the
classification of that chunk. Strengthens `C06.boundaries_at_delimiters` (which only says that a
delimiter follows) for all word classes at once. -/
theorem chunk_not_split {c : Char} {cs : List Char} {p p' : Pos} {t : Token} {rest : List Char}
    (hs : startsTok (c :: cs) = true) (hc : c ∉ punctuation)
    (h : Lex.token (c :: cs) p = .ok (some (t, rest, p'))) :
    rest = (c :: cs).dropWhile LexSpec.nonDelim ∧
      LexSpec.classify ((c :: cs).takeWhile LexSpec.nonDelim) = some t ∧
      c :: cs = (c :: cs).takeWhile LexSpec.nonDelim ++ rest := by
  have he := token_eq (c :: cs) p hs
  rw [h] at he
  simp only [punctuation, List.mem_cons, List.not_mem_nil, or_false, not_or] at hc
  simp only [forget, LexSpec.token, hc.1, hc.2.1, hc.2.2.1, hc.2.2.2.1, hc.2.2.2.2.1,
    hc.2.2.2.2.2.1, hc.2.2.2.2.2.2.1, hc.2.2.2.2.2.2.2, if_false] at he
  cases hcl : LexSpec.classify ((c :: cs).takeWhile LexSpec.nonDelim) with
  | none => rw [hcl] at he; cases he
  | some t' =>
    rw [hcl] at he
    simp only [LexSpec.ofClass, LexSpec.Step.tok.injEq] at he
    obtain ⟨rfl, rfl⟩ := he
    exact ⟨rfl, rfl, (List.takeWhile_append_dropWhile).symm⟩

/-- `ab+c d`: the identifier scanner stops exactly where the maximal chunk `ab+c` ends -/
example : [' ', 'd'] = (['a', 'b', '+', 'c', ' ', 'd']).dropWhile LexSpec.nonDelim ∧
    LexSpec.classify ((['a', 'b', '+', 'c', ' ', 'd']).takeWhile LexSpec.nonDelim)
      = some (.ident (String.ofList ['a', 'b', '+', 'c'])) := by
  have h : Lex.token ('a' :: ['b', '+', 'c', ' ', 'd']) (1, 1)
      = .ok (some (.ident (String.ofList ['a', 'b', '+', 'c']), [' ', 'd'],
          advs ['a', 'b', '+', 'c'] (1, 1))) :=
    token_plainIdent ['a', 'b', '+', 'c'] [' ', 'd'] (1, 1) (by decide) (by decide)
  have := chunk_not_split (by decide) (by decide) h
  exact ⟨this.1, this.2.1⟩

/-- The same for `#`-tokens other than `#(` and `#u8(`: booleans and characters consume exactly the
`#`-chunk — up to the next delimiter or, the documented quirk, the next `#`; after `#\` one
character is taken whatever it is — and denote its classification. -/
theorem sharp_chunk_not_split {cs : List Char} {p p' : Pos} {t : Token} {rest : List Char}
    (h : Lex.token ('#' :: cs) p = .ok (some (t, rest, p')))
    (hv : t ≠ .vecIntro) (hb : t ≠ .byteVecIntro) :
    rest = (LexSpec.sharpChunk cs).2 ∧ LexSpec.classify (LexSpec.sharpChunk cs).1 = some t := by
  have he := sharp_eq cs p
  rw [h] at he
  simp only [forget, LexSpec.sharpToken] at he
  split at he
  · simp only [LexSpec.Step.tok.injEq] at he; exact absurd he.1 hv
  · split at he
    · simp only [LexSpec.Step.tok.injEq] at he; exact absurd he.1 hb
    · cases hcl : LexSpec.classify (LexSpec.sharpChunk cs).1 with
      | none => rw [hcl] at he; cases he
      | some t' =>
        rw [hcl] at he
        simp only [LexSpec.ofClass, LexSpec.Step.tok.injEq] at he
        exact ⟨he.2, by rw [he.1]⟩

/-- `#\\a#\\b`: the `#`-chunk of the first token is `#\\a` -/
example : ['#', '\\', 'b'] = (LexSpec.sharpChunk ['\\', 'a', '#', '\\', 'b']).2 ∧
    LexSpec.classify (LexSpec.sharpChunk ['\\', 'a', '#', '\\', 'b']).1 = some (.prim (.chr 'a')) := by
  have h := token_char 'a' ['#', '\\', 'b'] (1, 1) (Or.inr (by decide))
  exact sharp_chunk_not_split h (by decide) (by decide)

end Ruschm.C06More

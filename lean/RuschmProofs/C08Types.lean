/-
Property C08 (type faults, completed): a non-number handed to a NUMERIC native procedure — at any
position of the argument list — and a non-boolean handed to `boolean=?` is stopped with the `type`
error, the store unchanged; and never, whatever the other arguments, continues with a value.

`C08.lean` has the theorems for `car`, `cdr`, the vector procedures, `apply`, and `+ * - /` (first two
positions) and the comparisons; here every numeric builtin is covered at every position.
`BuiltinFault σ b args k` (`ErrLemmas.lean`): `b` on `args` in store `σ` is stopped with `.error (k, none)`
and the store unchanged — as a run of the native code, as an iteration of the trampoline (any calling
frame) and as a whole activation. Helpers: `TypeFaultLemmas.lean`.
-/
import RuschmProofs.TypeFaultLemmas

namespace Ruschm.C08Types
open Ruschm Ruschm.Eval Ruschm.Prim

/-- the native procedures that call `expect_number` on every argument -/
def numericBuiltins : List Builtin :=
  [.add, .sub, .mul, .div, .numEq, .lt, .le, .gt, .ge, .max, .min, .abs, .sqrt, .exp, .ln, .log, .sin, .cos,
   .tan, .asin, .acos, .atan, .atan2, .floor, .ceiling, .exact, .floorQuotient, .floorRemainder]

/-- THE SIDE CONDITION under which the non-number is reached (an earlier error wins otherwise):
* `+`, `-`, `*`: the numbers before it have positive denominators (every number the interpreter builds has:
  `Number::exact_ratio` normalises; a ratio with denominator `0` would make `exact_ratio` panic first);
* `/`: the same, and no exact zero occurs among the divisors while every operand so far is exact — the
  model's (and `base.rs`'s `exact_so_far`) own division-by-zero check, which otherwise reports `divZero`;
* every other numeric builtin (comparisons, `max`, `min`, the unary and binary functions): none. -/
def SideCond (b : Builtin) (pre : List Num) : Prop :=
  match b with
  | .add | .sub | .mul => ∀ n ∈ pre, n.PosDen
  | .div => (∀ n ∈ pre, n.PosDen) ∧ ((exactPrefix (pre.map Value.num)).drop 1).any Num.isExactZero = false
  | _ => True

theorem typeFault_of_pure {σ : Store} {b : Builtin} {args : List Value} (hb : b ≠ .apply)
    (ha : arityOk b.arity.1 b.arity.2 args.length = true)
    (h : ∀ τ, applyPure τ b args = (.error (.type, none), τ)) : BuiltinFault σ b args .type :=
  .intro hb ha (by decide) (h σ) (h (enter σ))

theorem unary_args {pre : List Num} {x : Value} {post : List Value}
    (h : arityOk 1 false (pre.map Value.num ++ x :: post).length = true) : pre = [] ∧ post = [] := by
  have : (pre.map Value.num ++ x :: post).length = pre.length + post.length + 1 := by simp; omega
  rw [this] at h
  simp only [arityOk, Bool.not_eq_true', Bool.or_eq_false_iff, decide_eq_false_iff_not,
    Bool.not_false, Bool.and_true] at h
  have hl : pre.length + post.length + 1 = 1 := by omega
  exact ⟨List.eq_nil_of_length_eq_zero (by omega), List.eq_nil_of_length_eq_zero (by omega)⟩

theorem binary_args {pre : List Num} {x : Value} {post : List Value}
    (h : arityOk 2 false (pre.map Value.num ++ x :: post).length = true) :
    (pre = [] ∧ ∃ y, post = [y]) ∨ (∃ a, pre = [a] ∧ post = []) := by
  have : (pre.map Value.num ++ x :: post).length = pre.length + post.length + 1 := by simp; omega
  rw [this] at h
  simp only [arityOk, Bool.not_eq_true', Bool.or_eq_false_iff, decide_eq_false_iff_not,
    Bool.not_false, Bool.and_true] at h
  have hl : pre.length + post.length + 1 = 2 := by omega
  match pre, post, hl with
  | [], [y], _ => exact .inl ⟨rfl, y, rfl⟩
  | [a], [], _ => exact .inr ⟨a, rfl, rfl⟩
  | [], [], h => simp at h
  | [], _ :: _ :: _, h => simp at h
  | _ :: _, _ :: _, h => simp at h; omega
  | _ :: _ :: _, [], h => simp at h

set_option hygiene false in
/-- a unary numeric builtin on a non-number -/
local macro "unary_fault" : tactic =>
  `(tactic| (obtain ⟨rfl, rfl⟩ := unary_args ha
             exact typeFault_of_pure (by decide) rfl (fun τ => by
               simp only [applyPure, realFn, num1, List.map_nil, List.nil_append, expectNumber_err hx]; rfl)))

set_option hygiene false in
/-- a binary numeric builtin with a non-number in first or second position -/
local macro "binary_fault" : tactic =>
  `(tactic| (rcases binary_args ha with ⟨rfl, y, rfl⟩ | ⟨a, rfl, rfl⟩
             · exact typeFault_of_pure (by decide) rfl (fun τ => by
                 simp only [applyPure, realFn2, num2, List.map_nil, List.nil_append, expectNumber_err hx]; rfl)
             · exact typeFault_of_pure (by decide) rfl (fun τ => by
                 simp only [applyPure, realFn2, num2, List.map_cons, List.map_nil, List.cons_append, List.nil_append]
                 simp only [expectNumber_err hx]; rfl)))

/-- 1. EVERY NUMERIC BUILTIN, EVERY POSITION. The arguments before the non-number `x` are numbers (`pre`),
anything may follow (`post`), the argument count is one the builtin accepts, and the side condition
(`SideCond`: none except for `+ - * /`) holds: the call is stopped with the `type` error and the store is
unchanged. -/
theorem numeric_type_fault {σ : Store} {b : Builtin} (hb : b ∈ numericBuiltins) {pre : List Num} {x : Value}
    {post : List Value} (hx : ¬ IsNum x)
    (ha : arityOk b.arity.1 b.arity.2 (pre.map Value.num ++ x :: post).length = true) (hs : SideCond b pre) :
    BuiltinFault σ b (pre.map Value.num ++ x :: post) .type := by
  simp only [numericBuiltins, List.mem_cons, List.mem_nil_iff, or_false] at hb
  rcases hb with rfl | rfl | rfl | rfl | rfl | rfl | rfl | rfl | rfl | rfl | rfl | rfl | rfl | rfl | rfl | rfl |
    rfl | rfl | rfl | rfl | rfl | rfl | rfl | rfl | rfl | rfl | rfl | rfl
  · exact typeFault_of_pure (by decide) ha (fun τ => by
      simp only [applyPure, foldNum_nonnum totalPos_add (init := .int 0) trivial hs hx]; rfl)
  · exact typeFault_of_pure (by decide) ha (fun τ => by
      have : subDiv Num.sub (.int 0) (pre.map Value.num ++ x :: post) = .error .type :=
        subDiv_nonnum hx (fun a b more he => by
          subst he
          obtain ⟨init, hi, hip⟩ := totalPos_sub a b (hs a (List.mem_cons_self ..))
            (hs b (List.mem_cons_of_mem _ (List.mem_cons_self ..)))
          exact ⟨init, hi, foldNum_nonnum totalPos_sub hip
            (fun n hn => hs n (List.mem_cons_of_mem _ (List.mem_cons_of_mem _ hn))) hx⟩)
      simp only [applyPure, this]; rfl)
  · exact typeFault_of_pure (by decide) ha (fun τ => by
      simp only [applyPure, foldNum_nonnum totalPos_mul (init := .int 1) trivial hs hx]; rfl)
  · exact typeFault_of_pure (by decide) ha (fun τ => by
      simp only [applyPure, divArgs_nonnum hx hs.1 hs.2]; rfl)
  · exact typeFault_of_pure (by decide) ha (fun τ => by simp only [applyPure, cmpNum_type hx]; rfl)
  · exact typeFault_of_pure (by decide) ha (fun τ => by simp only [applyPure, cmpNum_type hx]; rfl)
  · exact typeFault_of_pure (by decide) ha (fun τ => by simp only [applyPure, cmpNum_type hx]; rfl)
  · exact typeFault_of_pure (by decide) ha (fun τ => by simp only [applyPure, cmpNum_type hx]; rfl)
  · exact typeFault_of_pure (by decide) ha (fun τ => by simp only [applyPure, cmpNum_type hx]; rfl)
  · exact typeFault_of_pure (by decide) ha (fun τ => by simp only [applyPure, extremum_nonnum hx]; rfl)
  · exact typeFault_of_pure (by decide) ha (fun τ => by simp only [applyPure, extremum_nonnum hx]; rfl)
  · unary_fault
  · unary_fault
  · unary_fault
  · unary_fault
  · binary_fault
  · unary_fault
  · unary_fault
  · unary_fault
  · unary_fault
  · unary_fault
  · unary_fault
  · binary_fault
  · unary_fault
  · unary_fault
  · unary_fault
  · binary_fault
  · binary_fault

/-- `(- 5 1 'a)`: a non-number in third position of `-` -/
example : BuiltinFault {} .sub [.num (.int 5), .num (.int 1), .sym "a"] .type :=
  numeric_type_fault (b := .sub) (by decide) (pre := [.int 5, .int 1]) (x := .sym "a") (post := []) (fun h => h) rfl
    (by intro n hn; simp only [List.mem_cons, List.mem_nil_iff, or_false] at hn; rcases hn with rfl | rfl <;> trivial)

/-- `(/ 6 3 'a 0)`: a non-number in third position of `/` (the later `0` is not looked at) -/
example : BuiltinFault {} .div [.num (.int 6), .num (.int 3), .sym "a", .num (.int 0)] .type :=
  numeric_type_fault (b := .div) (by decide) (pre := [.int 6, .int 3]) (x := .sym "a") (post := [.num (.int 0)])
    (fun h => h) rfl
    ⟨by intro n hn; simp only [List.mem_cons, List.mem_nil_iff, or_false] at hn; rcases hn with rfl | rfl <;> trivial,
     by decide⟩

/-- `(max 1 'a)`, `(< 3 2 'a)` (the pair `3 2` is out of order: still a type error), `(floor-quotient 'a 1)`,
`(floor-quotient 1 'a)`, `(abs "x")`, `(sqrt 'a)`, `(exact #t)`, `(atan2 1 'a)` -/
example : BuiltinFault {} .max [.num (.int 1), .sym "a"] .type ∧
    BuiltinFault {} .lt [.num (.int 3), .num (.int 2), .sym "a"] .type ∧
    BuiltinFault {} .floorQuotient [.sym "a", .num (.int 1)] .type ∧
    BuiltinFault {} .floorQuotient [.num (.int 1), .sym "a"] .type ∧
    BuiltinFault {} .abs [.str "x"] .type ∧ BuiltinFault {} .sqrt [.sym "a"] .type ∧
    BuiltinFault {} .exact [.bool true] .type ∧ BuiltinFault {} .atan2 [.num (.int 1), .sym "a"] .type :=
  ⟨numeric_type_fault (b := .max) (by decide) (pre := [.int 1]) (x := .sym "a") (post := []) (fun h => h) rfl trivial,
   numeric_type_fault (b := .lt) (by decide) (pre := [.int 3, .int 2]) (x := .sym "a") (post := []) (fun h => h) rfl trivial,
   numeric_type_fault (b := .floorQuotient) (by decide) (pre := []) (x := .sym "a") (post := [.num (.int 1)])
     (fun h => h) rfl trivial,
   numeric_type_fault (b := .floorQuotient) (by decide) (pre := [.int 1]) (x := .sym "a") (post := []) (fun h => h) rfl trivial,
   numeric_type_fault (b := .abs) (by decide) (pre := []) (x := .str "x") (post := []) (fun h => h) rfl trivial,
   numeric_type_fault (b := .sqrt) (by decide) (pre := []) (x := .sym "a") (post := []) (fun h => h) rfl trivial,
   numeric_type_fault (b := .exact) (by decide) (pre := []) (x := .bool true) (post := []) (fun h => h) rfl trivial,
   numeric_type_fault (b := .atan2) (by decide) (pre := [.int 1]) (x := .sym "a") (post := []) (fun h => h) rfl trivial⟩

/-- the side condition of `/` is needed: in `(/ 1 0 'a)` the exact zero divisor is reported first -/
example : applyPure {} .div [.num (.int 1), .num (.int 0), .sym "a"] = (.error (.divZero, none), {}) := rfl

/-- WHATEVER THE OTHER ARGUMENTS (no side condition): a numeric builtin given an argument list (of an
accepted length) that contains a non-number is stopped with AN error — the `type` error, or an error met
before the non-number is reached — and the store is unchanged; it never returns a value. -/
theorem numeric_never_value {σ : Store} {b : Builtin} (hb : b ∈ numericBuiltins) {args : List Value}
    (hx : ∃ x ∈ args, ¬ IsNum x) (ha : arityOk b.arity.1 b.arity.2 args.length = true) :
    ∃ e, applyPure σ b args = (.error (e, none), σ) := by
  have hgen : b ≠ .add → b ≠ .sub → b ≠ .mul → b ≠ .div → ∃ e, applyPure σ b args = (.error (e, none), σ) := by
    intro h1 h2 h3 h4
    obtain ⟨pre, x, post, rfl, hx'⟩ := split_first_nonnum args hx
    have hs : SideCond b pre := by
      cases b <;> trivial
    exact ⟨.type, (numeric_type_fault (σ := σ) hb hx' ha hs).pure⟩
  by_cases h1 : b = .add
  · subst h1
    obtain ⟨e, he⟩ := foldNum_has_nonnum (f := Num.add) args (.int 0) hx
    exact ⟨e, by simp only [applyPure, he]; rfl⟩
  by_cases h2 : b = .sub
  · subst h2
    obtain ⟨e, he⟩ := subDiv_has_nonnum (f := Num.sub) (unit := .int 0) hx
    exact ⟨e, by simp only [applyPure, he]; rfl⟩
  by_cases h3 : b = .mul
  · subst h3
    obtain ⟨e, he⟩ := foldNum_has_nonnum (f := Num.mul) args (.int 1) hx
    exact ⟨e, by simp only [applyPure, he]; rfl⟩
  by_cases h4 : b = .div
  · subst h4
    obtain ⟨e, he⟩ := divArgs_has_nonnum hx
    exact ⟨e, by simp only [applyPure, he]; rfl⟩
  exact hgen h1 h2 h3 h4

/-- `(/ 1 0 'a)` and `(+ 1 'a 2)` -/
example : (∃ e, applyPure {} .div [.num (.int 1), .num (.int 0), .sym "a"] = (.error (e, none), {})) ∧
    (∃ e, applyPure {} .add [.num (.int 1), .sym "a", .num (.int 2)] = (.error (e, none), {})) :=
  ⟨numeric_never_value (by decide) ⟨.sym "a", by simp, fun h => h⟩ rfl,
   numeric_never_value (by decide) ⟨.sym "a", by simp, fun h => h⟩ rfl⟩

/-- 2. `boolean=?`: the first argument that is not a boolean, at any position (the booleans before it may
differ: every argument is type-checked) -/
theorem boolean_eq_type_fault {σ : Store} {pre : List Bool} {x : Value} {post : List Value} (hx : ¬ IsBool x) :
    BuiltinFault σ .booleanEq (pre.map Value.bool ++ x :: post) .type :=
  typeFault_of_pure (by decide) (by simp [Builtin.arity, arityOk]) (fun τ => by
    simp only [applyPure, cmpBool_nonbool hx]; rfl)

/-- `(boolean=? #t 1)` and `(boolean=? #t #f 'a)` -/
example : BuiltinFault {} .booleanEq [.bool true, .num (.int 1)] .type ∧
    BuiltinFault {} .booleanEq [.bool true, .bool false, .sym "a"] .type :=
  ⟨boolean_eq_type_fault (pre := [true]) (x := .num (.int 1)) (post := []) (fun h => h),
   boolean_eq_type_fault (pre := [true, false]) (x := .sym "a") (post := []) (fun h => h)⟩

/-- 3. `exact` is unary (as are `abs`, `floor`, `ceiling` and the real functions but `log`, `atan2`): its
only argument is the one that is type-checked, so its other error (`inexactConversion`, on a NaN or an
out-of-range real) can never come before the type error of a LATER argument — there is none -/
theorem exact_is_unary : Builtin.exact.arity = (1, false) ∧
    ∀ (args : List Value), arityOk 1 false args.length = true → ∃ v, args = [v] := by
  refine ⟨rfl, fun args h => ?_⟩
  match args, h with
  | [v], _ => exact ⟨v, rfl⟩
  | [], h => simp [arityOk] at h
  | _ :: _ :: _, h => simp [arityOk] at h

example : applyPure {} .exact [.num (.int 3)] = (.ok (.num (.int 3)), {}) := rfl

/-- THE LIST IS EXACT: every builtin outside `numericBuiltins` (other than `apply`, which the trampoline
unpacks, and `newline`, which takes no argument) accepts some argument list containing a non-number and
returns a value — so `numericBuiltins` are exactly the builtins that reject every non-number
(`numeric_never_value`). -/
theorem numericBuiltins_exact (b : Builtin) :
    b ∈ numericBuiltins ∨ b = .apply ∨ b = .newline ∨
    ∃ (σ : Store) (args : List Value) (v : Value) (σ' : Store), (∃ x ∈ args, ¬ IsNum x) ∧
      arityOk b.arity.1 b.arity.2 args.length = true ∧ applyPure σ b args = (.ok v, σ') := by
  have nn : ¬ IsNum Value.nil := fun h => h
  cases b
  case apply => exact .inr (.inl rfl)
  case newline => exact .inr (.inr (.inl rfl))
  case car => exact .inr (.inr (.inr ⟨{}, [.pair .nil .nil], _, _, ⟨_, List.mem_cons_self .., fun h => h⟩, rfl, rfl⟩))
  case cdr => exact .inr (.inr (.inr ⟨{}, [.pair .nil .nil], _, _, ⟨_, List.mem_cons_self .., fun h => h⟩, rfl, rfl⟩))
  case eqv => exact .inr (.inr (.inr ⟨{}, [.nil, .nil], _, _, ⟨_, List.mem_cons_self .., nn⟩, rfl, rfl⟩))
  case eq => exact .inr (.inr (.inr ⟨{}, [.nil, .nil], _, _, ⟨_, List.mem_cons_self .., nn⟩, rfl, rfl⟩))
  case cons => exact .inr (.inr (.inr ⟨{}, [.nil, .nil], _, _, ⟨_, List.mem_cons_self .., nn⟩, rfl, rfl⟩))
  case isBoolean => exact .inr (.inr (.inr ⟨{}, [.nil], _, _, ⟨_, List.mem_cons_self .., nn⟩, rfl, rfl⟩))
  case isChar => exact .inr (.inr (.inr ⟨{}, [.nil], _, _, ⟨_, List.mem_cons_self .., nn⟩, rfl, rfl⟩))
  case isNumber => exact .inr (.inr (.inr ⟨{}, [.nil], _, _, ⟨_, List.mem_cons_self .., nn⟩, rfl, rfl⟩))
  case isString => exact .inr (.inr (.inr ⟨{}, [.nil], _, _, ⟨_, List.mem_cons_self .., nn⟩, rfl, rfl⟩))
  case isSymbol => exact .inr (.inr (.inr ⟨{}, [.nil], _, _, ⟨_, List.mem_cons_self .., nn⟩, rfl, rfl⟩))
  case isPair => exact .inr (.inr (.inr ⟨{}, [.nil], _, _, ⟨_, List.mem_cons_self .., nn⟩, rfl, rfl⟩))
  case isProcedure => exact .inr (.inr (.inr ⟨{}, [.nil], _, _, ⟨_, List.mem_cons_self .., nn⟩, rfl, rfl⟩))
  case isVector => exact .inr (.inr (.inr ⟨{}, [.nil], _, _, ⟨_, List.mem_cons_self .., nn⟩, rfl, rfl⟩))
  case not => exact .inr (.inr (.inr ⟨{}, [.nil], _, _, ⟨_, List.mem_cons_self .., nn⟩, rfl, rfl⟩))
  case booleanEq => exact .inr (.inr (.inr ⟨{}, [.bool true], _, _, ⟨_, List.mem_cons_self .., fun h => h⟩, rfl, rfl⟩))
  case vector => exact .inr (.inr (.inr ⟨{}, [.nil], _, _, ⟨_, List.mem_cons_self .., nn⟩, rfl, rfl⟩))
  case makeVector => exact .inr (.inr (.inr ⟨{}, [.num (.int 1), .nil], _, _,
    ⟨.nil, List.mem_cons_of_mem _ (List.mem_cons_self ..), nn⟩, rfl, rfl⟩))
  case vectorLength => exact .inr (.inr (.inr ⟨{ vecs := #[{ mutable := true, items := [] }] }, [.vec 0], _, _,
    ⟨_, List.mem_cons_self .., fun h => h⟩, rfl, rfl⟩))
  case vectorRef => exact .inr (.inr (.inr ⟨{ vecs := #[{ mutable := true, items := [.nil] }] },
    [.vec 0, .num (.int 0)], _, _, ⟨_, List.mem_cons_self .., fun h => h⟩, rfl, rfl⟩))
  case vectorSet => exact .inr (.inr (.inr ⟨{ vecs := #[{ mutable := true, items := [.nil] }] },
    [.vec 0, .num (.int 0), .nil], _, _, ⟨_, List.mem_cons_self .., fun h => h⟩, rfl, rfl⟩))
  case display => exact .inr (.inr (.inr ⟨{}, [.nil], _, _, ⟨_, List.mem_cons_self .., nn⟩, rfl, rfl⟩))
  case tick => exact .inr (.inr (.inr ⟨{}, [.nil], _, _, ⟨_, List.mem_cons_self .., nn⟩, rfl, rfl⟩))
  all_goals exact .inl (by decide)

example : numericBuiltins.length = 28 := rfl

end Ruschm.C08Types
